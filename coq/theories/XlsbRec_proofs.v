(* XlsbRec_proofs.v — theorems about the XLSB worksheet model of XlsbRec.v (property C03).
   All statements are unbounded (arithmetic, induction over record / item lists); the only
   computed facts are the non-vacuity examples and the witness of the known class.  No axioms. *)
From Calamine Require Import Prelude Range Range_spec Range_proofs RK RK_proofs Utf16 Utf16_proofs
  HeaderRow XlsbRec.
Open Scope N_scope.
Set Implicit Arguments.
Set Default Proof Using "Type".

(* ================= little helpers ================= *)
Lemma lenN_app : forall (A : Type) (a b : list A), lenN (a ++ b) = lenN a + lenN b.
Proof. intros. unfold lenN. rewrite app_length. lia. Qed.
Lemma lenN_cons : forall (A : Type) (x : A) l, lenN (x :: l) = 1 + lenN l.
Proof. intros. unfold lenN. cbn [length]. lia. Qed.
Lemma lenN_nil : forall A : Type, lenN (@nil A) = 0.
Proof. reflexivity. Qed.
Lemma lenN_le : forall k v, lenN (le_bytes k v) = N.of_nat k.
Proof. intros. unfold lenN. rewrite le_bytes_length. reflexivity. Qed.

Lemma rd_app_skip : forall k (a r : list N) off, length a = off -> rd k off (a ++ r) = rd k 0 r.
Proof.
  intros k a r off H. unfold rd. f_equal. f_equal. subst off.
  rewrite skipn_app, skipn_all, Nat.sub_diag. reflexivity.
Qed.

Lemma rd_le : forall k v r, rd k 0 (le_bytes k v ++ r) = v mod 256 ^ N.of_nat k.
Proof.
  intros k v r. unfold rd. cbn [skipn].
  rewrite firstn_app_exact by (symmetry; apply le_bytes_length).
  apply le_val_le_bytes.
Qed.

Lemma rd3 : forall v r, v < 16777216 -> rd 3 0 (le_bytes 3 v ++ r) = v.
Proof. intros v r H. rewrite rd_le. change (256 ^ N.of_nat 3) with 16777216. apply N.mod_small, H. Qed.
Lemma rd4 : forall v r, v < 4294967296 -> rd 4 0 (le_bytes 4 v ++ r) = v.
Proof. intros v r H. rewrite rd_le. change (256 ^ N.of_nat 4) with 4294967296. apply N.mod_small, H. Qed.
Lemma rd8 : forall v r, v < 18446744073709551616 -> rd 8 0 (le_bytes 8 v ++ r) = v.
Proof.
  intros v r H. rewrite rd_le. change (256 ^ N.of_nat 8) with 18446744073709551616.
  apply N.mod_small, H.
Qed.

(* ================= C03_varint_roundtrip ================= *)
(* record ids: the one-byte form of an id below 128 and the two-byte form of any id below 2^14
   decode to the id and consume exactly their bytes *)
Theorem read_type_enc : forall wide id rest,
  id < 16384 -> (wide = true \/ id < 128) ->
  read_type (enc_id wide id ++ rest) = Ok (id, rest).
Proof.
  intros wide id rest Hid Hw. unfold read_type, enc_id. destruct wide.
  - cbn [app read_u8 obind fst snd].
    destruct (128 <=? id mod 128 + 128) eqn:E; [|lia].
    cbn [read_u8 obind fst snd]. f_equal. f_equal. lia.
  - destruct Hw as [Hw|Hw]; [discriminate|].
    cbn [app read_u8 obind fst snd].
    destruct (128 <=? id) eqn:E; [lia|]. reflexivity.
Qed.

Lemma pow7_succ : forall i, 2 ^ (7 * (i + 1)) = 128 * 2 ^ (7 * i).
Proof.
  intros i. replace (7 * (i + 1)) with (7 + 7 * i) by lia.
  rewrite N.pow_add_r. reflexivity.
Qed.

Lemma pow128_succ : forall k : nat, 128 ^ N.of_nat (S k) = 128 * 128 ^ N.of_nat k.
Proof. intros k. rewrite Nat2N.inj_succ, N.pow_succ_r'. reflexivity. Qed.

(* the continuation loop of fill_buffer on the remaining k bytes of a length *)
Lemma read_len_more_enc : forall (k m : nat) i b len n rest,
  (S k <= m)%nat -> 128 <= b -> n < 128 ^ N.of_nat (S k) ->
  read_len_more m i b len (enc_len k n ++ rest) = Ok (len + n * 2 ^ (7 * i), rest).
Proof.
  induction k as [|k IH]; intros m i b len n rest Hm Hb Hn.
  - destruct m as [|m]; [lia|]. cbn [read_len_more].
    destruct (b <? 128) eqn:E; [lia|].
    cbn [enc_len app read_u8 obind fst snd].
    change (128 ^ N.of_nat 1) with 128 in Hn.
    rewrite (N.mod_small n 128) by exact Hn.
    destruct m as [|m]; cbn [read_len_more]; [reflexivity|].
    destruct (n <? 128) eqn:E2; [reflexivity|lia].
  - destruct m as [|m]; [lia|]. cbn [read_len_more].
    destruct (b <? 128) eqn:E; [lia|].
    cbn [enc_len app read_u8 obind fst snd].
    rewrite pow128_succ in Hn.
    rewrite IH; [| lia | lia | lia].
    f_equal. f_equal. rewrite pow7_succ.
    replace ((n mod 128 + 128) mod 128) with (n mod 128) by lia.
    pose proof (N.div_mod n 128). nia.
Qed.

(* lengths: every form with k <= 3 continuation bytes of a length below 2^(7(k+1)) — the minimal
   form and every padded one — decodes to the length and consumes exactly its k+1 bytes *)
Theorem read_len_enc : forall (k : nat) n rest,
  (k <= 3)%nat -> n < 128 ^ N.of_nat (S k) ->
  read_len (enc_len k n ++ rest) = Ok (n, rest).
Proof.
  intros k n rest Hk Hn. unfold read_len. destruct k as [|k].
  - cbn [enc_len app read_u8 obind fst snd]. change (128 ^ N.of_nat 1) with 128 in Hn.
    cbn [read_len_more]. destruct (n <? 128) eqn:E; [|lia].
    rewrite N.mod_small by exact Hn. reflexivity.
  - cbn [enc_len app read_u8 obind fst snd].
    rewrite pow128_succ in Hn.
    rewrite read_len_more_enc; [| lia | lia | lia].
    f_equal. f_equal. change (2 ^ (7 * 1)) with 128.
    replace ((n mod 128 + 128) mod 128) with (n mod 128) by lia.
    pose proof (N.div_mod n 128). nia.
Qed.

Lemma enc_id_length : forall wide id, length (enc_id wide id) = if wide then 2%nat else 1%nat.
Proof. intros [|] id; reflexivity. Qed.
Lemma enc_len_length : forall k n, length (enc_len k n) = S k.
Proof. induction k as [|k IH]; intros n; cbn [enc_len length]; [reflexivity|]. rewrite IH. reflexivity. Qed.

(* ---- read_exact ---- *)
Lemma split_acc_app : forall d rest acc,
  split_acc (d ++ rest) (lenN d) acc = Some (rev acc ++ d, rest).
Proof.
  induction d as [|x d IH]; intros rest acc.
  - cbn [app]. destruct rest as [|y rest]; cbn [split_acc]; rewrite lenN_nil;
      change (0 =? 0) with true; cbv iota; rewrite rev_append_rev, !app_nil_r; reflexivity.
  - cbn [app split_acc]. rewrite lenN_cons.
    destruct (1 + lenN d =? 0) eqn:E; [lia|].
    replace (1 + lenN d - 1) with (lenN d) by lia.
    rewrite IH. cbn [rev]. rewrite <- app_assoc. reflexivity.
Qed.

Lemma split_at_app : forall d rest, split_at (d ++ rest) (lenN d) = Some (d, rest).
Proof. intros. unfold split_at. rewrite split_acc_app. reflexivity. Qed.

Lemma split_acc_inv : forall s n acc p r,
  split_acc s n acc = Some (p, r) -> (length r <= length s)%nat.
Proof.
  induction s as [|x s IH]; intros n acc p r H.
  - cbn [split_acc] in H. destruct (n =? 0); [|discriminate]. inversion H; subst. lia.
  - cbn [split_acc] in H. destruct (n =? 0).
    + inversion H; subst. lia.
    + apply IH in H. cbn [length]. lia.
Qed.

(* ---- fill_buffer / next_record on a framed record ---- *)
Lemma fill_buffer_frame : forall (k : nat) d rest buf,
  (k <= 3)%nat -> lenN d < 128 ^ N.of_nat (S k) ->
  fill_buffer (enc_len k (lenN d) ++ d ++ rest) buf =
    Ok (lenN d, d ++ (if lenN buf <? lenN d then [] else skipn (length d) buf), rest).
Proof.
  intros k d rest buf Hk Hd. unfold fill_buffer.
  rewrite read_len_enc by assumption. cbn [obind fst snd].
  rewrite split_at_app. unfold lenN at 4. rewrite Nat2N.id. reflexivity.
Qed.

Lemma wf_frame_split : forall fr id body, wf_frame fr id body = true ->
  id < 16384 /\ (f_wide fr = true \/ id < 128) /\ (f_lenb fr <= 3)%nat /\
  lenN body < 128 ^ N.of_nat (S (f_lenb fr)).
Proof.
  intros fr id body H. unfold wf_frame in H.
  apply andb_true_iff in H as [H H4]. apply andb_true_iff in H as [H H3].
  apply andb_true_iff in H as [H1 H2].
  rewrite Nat2N.inj_succ, <- N.add_1_r.
  split; [lia|]. split; [|split; [apply Nat.leb_le; exact H3|lia]].
  apply orb_true_iff in H2 as [H2|H2]; [left; exact H2|right; lia].
Qed.

Theorem next_record_frame : forall fr id body rest,
  wf_frame fr id body = true ->
  next_record (frame fr id body ++ rest) = Ok (id, body, rest).
Proof.
  intros fr id body rest H. apply wf_frame_split in H as (H1 & H2 & H3 & H4).
  unfold next_record, frame. rewrite <- !app_assoc.
  rewrite read_type_enc by assumption. cbn [obind fst snd].
  rewrite fill_buffer_frame by assumption. cbn [obind fst snd].
  rewrite lenN_nil. destruct (0 <? lenN body); rewrite ?app_nil_r; cbn [skipn];
    rewrite ?app_nil_r; try reflexivity.
  destruct (length body); cbn [skipn]; rewrite app_nil_r; reflexivity.
Qed.

(* the statement of the property's first theorem, in one piece *)
Theorem varint_roundtrip :
  (forall wide id rest, id < 16384 -> (wide = true \/ id < 128) ->
     read_type (enc_id wide id ++ rest) = Ok (id, rest) /\
     length (enc_id wide id) = (if wide then 2 else 1)%nat) /\
  (forall (k : nat) n rest, (k <= 3)%nat -> n < 128 ^ N.of_nat (S k) ->
     read_len (enc_len k n ++ rest) = Ok (n, rest) /\ length (enc_len k n) = S k).
Proof.
  split.
  - intros. split; [apply read_type_enc; assumption|apply enc_id_length].
  - intros. split; [apply read_len_enc; assumption|apply enc_len_length].
Qed.

Lemma frame_length_pos : forall fr id body, (2 <= length (frame fr id body))%nat.
Proof.
  intros. unfold frame. rewrite !app_length, enc_id_length, enc_len_length.
  destruct (f_wide fr); lia.
Qed.

(* ================= RK in xlsb ================= *)
Section XRK.
Variable fdiv100 : N -> N.

(* every 32-bit pattern: what the BrtCellRk arm computes is what the pattern's form denotes *)
Theorem xrk_decode_form : forall w, w < 4294967296 ->
  xrk_decode fdiv100 w = xrk_form_value fdiv100 (rk_form_of_word w).
Proof.
  intros w Hw. unfold xrk_decode, xrk_val, rk_form_of_word.
  rewrite odd_low_byte, bit1_low_byte, masked_word by exact Hw.
  destruct (N.testbit w 1) eqn:Hb.
  - rewrite shiftr_i32 by lia. cbn [xrk_form_value]. destruct (N.odd w); reflexivity.
  - cbn [xrk_form_value].
    replace (4 * (w / 4) * 4294967296) with (w / 4 * 17179869184) by lia.
    destruct (N.odd w); reflexivity.
Qed.

Theorem xrk_roundtrip : forall f, legal_form f = true ->
  xrk_decode fdiv100 (rk_encode f) = xrk_form_value fdiv100 f.
Proof.
  intros f H. rewrite xrk_decode_form by (apply rk_encode_lt; exact H).
  rewrite form_of_word_encode_inv by exact H. reflexivity.
Qed.

(* xlsb and xls (RK.rk_decode, property C02) read every RK pattern as the same number; the only
   difference is the representation of an integer with the /100 flag that 100 divides: xls
   returns the integer quotient, xlsb the double quotient *)
Theorem xrk_vs_biff8 : forall w, w < 4294967296 ->
  xrk_decode fdiv100 w = rk_decode fdiv100 w \/
  (N.testbit w 1 = true /\ N.odd w = true /\ Z.rem (signed30 (w / 4)) 100 = 0%Z /\
   xrk_decode fdiv100 w = RFloat (fdiv100 (z2f (signed30 (w / 4)))) /\
   rk_decode fdiv100 w = RInt (Z.quot (signed30 (w / 4)) 100)).
Proof.
  intros w Hw. rewrite xrk_decode_form by exact Hw. unfold rk_form_of_word.
  destruct (N.testbit w 1) eqn:Hb.
  - rewrite (rk_int_all fdiv100 Hw Hb). cbn zeta. cbn [xrk_form_value].
    destruct (N.odd w) eqn:Ho; [|left; reflexivity].
    destruct (Z.rem (signed30 (w / 4)) 100 =? 0)%Z eqn:Er; [|left; reflexivity].
    right. repeat split; try reflexivity. lia.
  - left. rewrite (rk_float_all fdiv100 Hw Hb). cbn zeta. cbn [xrk_form_value].
    replace ((w - w mod 4) * 4294967296) with (w / 4 * 17179869184) by lia.
    destruct (N.odd w); reflexivity.
Qed.

End XRK.

(* ================= C03_cell_table ================= *)
Theorem parse_cerr_code : forall e, parse_cerr (err_code e) = Ok e.
Proof. intros []; reflexivity. Qed.

Theorem parse_cerr_inv : forall b e, parse_cerr b = Ok e -> b = err_code e.
Proof.
  intros b e. unfold parse_cerr.
  repeat match goal with
         | |- context [if ?x =? ?y then _ else _] => destruct (x =? y) eqn:?
         end; intros H; inversion H; subst; cbn [err_code]; lia.
Qed.

Lemma head_length : forall col style fl, length (cell_head col style fl) = 8%nat.
Proof. intros. unfold cell_head. rewrite !app_length, !le_bytes_length. reflexivity. Qed.

Lemma head_col : forall col style fl r, col < 4294967296 ->
  rd 4 0 (cell_head col style fl ++ r) = col.
Proof. intros. unfold cell_head. rewrite <- !app_assoc. apply rd4. assumption. Qed.

Lemma head_style : forall col style fl r, style < 16777216 ->
  rd 3 4 (cell_head col style fl ++ r) = style.
Proof.
  intros. unfold cell_head. rewrite <- !app_assoc.
  rewrite rd_app_skip by apply le_bytes_length. apply rd3. assumption.
Qed.

Lemma head_skip : forall col style fl r, skipn 8 (cell_head col style fl ++ r) = r.
Proof.
  intros. rewrite skipn_app, skipn_all2 by (rewrite head_length; lia).
  rewrite head_length. reflexivity.
Qed.

Lemma rd_head8 : forall k col style fl r, rd k 8 (cell_head col style fl ++ r) = rd k 0 r.
Proof. intros. apply rd_app_skip, head_length. Qed.

Lemma nth_head : forall i col style fl r, nth (8 + i) (cell_head col style fl ++ r) 0 = nth i r 0.
Proof.
  intros. rewrite app_nth2 by (rewrite head_length; lia). rewrite head_length.
  f_equal. lia.
Qed.

Lemma nth_head8 : forall col style fl r, nth 8 (cell_head col style fl ++ r) 0 = nth 0 r 0.
Proof. intros. apply (nth_head 0). Qed.
Lemma nth_head9 : forall col style fl r, nth 9 (cell_head col style fl ++ r) 0 = nth 1 r 0.
Proof. intros. apply (nth_head 1). Qed.
Lemma nth_head10 : forall col style fl r, nth 10 (cell_head col style fl ++ r) 0 = nth 2 r 0.
Proof. intros. apply (nth_head 2). Qed.
Lemma nth_head11 : forall col style fl r, nth 11 (cell_head col style fl ++ r) 0 = nth 3 r 0.
Proof. intros. apply (nth_head 3). Qed.

Lemma lenN_head : forall col style fl r, lenN (cell_head col style fl ++ r) = 8 + lenN r.
Proof. intros. rewrite lenN_app. unfold lenN at 1. rewrite head_length. reflexivity. Qed.

Lemma forallb_scalar : forall s, forallb scalarb s = true -> Forall scalar s.
Proof. intros s H. apply Forall_forall. rewrite forallb_forall in H. exact H. Qed.

Lemma nthN_Some : forall (A : Type) (l : list A) i, i < lenN l -> exists x, nthN l i = Some x.
Proof.
  induction l as [|x l IH]; intros i H.
  - rewrite lenN_nil in H. lia.
  - cbn [nthN]. destruct (i =? 0) eqn:E; [exists x; reflexivity|].
    apply IH. rewrite lenN_cons in H. lia.
Qed.

(* evaluate the closed comparisons of the record-id dispatch *)
Ltac closed_pos p :=
  lazymatch p with xH => idtac | xO ?q => closed_pos q | xI ?q => closed_pos q end.
Ltac closed_N n := lazymatch n with N0 => idtac | Npos ?p => closed_pos p end.
Ltac ids :=
  repeat match goal with
         | |- context [N.eqb ?a ?b] =>
             closed_N a; closed_N b;
             let v := eval vm_compute in (N.eqb a b) in change (N.eqb a b) with v
         end;
  cbn [orb]; cbv iota.

Lemma check_ok : forall len expected, expected <= len -> check_len len expected = Ok tt.
Proof. intros len expected H. unfold check_len. destruct (len <? expected) eqn:E; [lia|reflexivity]. Qed.

(* the ids record_step itself acts on (the short records 12..18 are rewritten into 1..7 by
   [unshort] before it is reached) *)
Definition step_id (t : N) : bool := (t <=? 11) || (t =? 146).

Lemma interpreted_split : forall t, interpreted t = false -> step_id t = false /\ is_short t = false.
Proof. intros t H. unfold interpreted in H. unfold step_id, is_short. lia. Qed.

Lemma expected_other : forall typ, step_id typ = false -> expected_len typ = 0.
Proof.
  intros typ H. unfold step_id in H. unfold expected_len.
  repeat match goal with
         | |- context [if ?c then _ else _] => destruct c eqn:?; try lia
         end.
  all: try reflexivity.
Qed.

Section Table.
Variable fdiv100 : N -> N.
Variable en : env.
Notation record_step := (record_step fdiv100 en).
Notation cval_data := (cval_data fdiv100 en).

(* keep lia from capturing section variables the statement does not mention *)
Ltac lia := try clear fdiv100; try clear en; Lia.lia.

Lemma step_rk : forall col style fl f tail, style < 16777216 -> legal_form f = true ->
  record_step 2 (cell_head col style fl ++ le_bytes 4 (rk_encode f) ++ tail) =
    Ok (CCell (RVal (rk_wrap (xrk_form_value fdiv100 f) (nthN (e_formats en) style) (e_1904 en)))).
Proof.
  intros col style fl f tail Hst Hv. unfold XlsbRec.record_step.
  change (expected_len 2) with 12.
  rewrite check_ok by (rewrite lenN_head, lenN_app, lenN_le; lia). cbn [obind]. ids.
  rewrite lenN_head, lenN_app, lenN_le.
  destruct (8 + (N.of_nat 4 + lenN tail) <? 12) eqn:E; [lia|].
  unfold cell_fmt. rewrite head_style by exact Hst.
  pose proof (rk_encode_lt f Hv) as Hw.
  rewrite nth_head8, nth_head9, nth_head10, nth_head11. rewrite (word_bytes Hw). cbn [app nth].
  fold (xrk_decode fdiv100 (rk_encode f)). rewrite xrk_roundtrip by exact Hv. reflexivity.
Qed.

Lemma step_err : forall typ col style fl e tail, typ = 3 \/ typ = 11 ->
  record_step typ (cell_head col style fl ++ [err_code e] ++ tail) = Ok (CCell (RVal (DError e))).
Proof.
  intros typ col style fl e tail [-> | ->]; unfold XlsbRec.record_step;
    [change (expected_len 3) with 9|change (expected_len 11) with 9];
    (rewrite check_ok by (rewrite lenN_head; cbn [app]; rewrite lenN_cons; lia)); cbn [obind]; ids;
    rewrite lenN_head; cbn [app]; rewrite lenN_cons;
    (destruct (8 + (1 + lenN tail) <? 9) eqn:E; [lia|]);
    rewrite nth_head8; cbn [nth];
    rewrite parse_cerr_code; reflexivity.
Qed.

Lemma step_bool : forall typ col style fl b tail, typ = 4 \/ typ = 10 ->
  record_step typ (cell_head col style fl ++ [flag b] ++ tail) = Ok (CCell (RVal (DBool b))).
Proof.
  intros typ col style fl b tail [-> | ->]; unfold XlsbRec.record_step;
    [change (expected_len 4) with 9|change (expected_len 10) with 9];
    (rewrite check_ok by (rewrite lenN_head; cbn [app]; rewrite lenN_cons; lia)); cbn [obind]; ids;
    rewrite lenN_head; cbn [app]; rewrite lenN_cons;
    (destruct (8 + (1 + lenN tail) <? 9) eqn:E; [lia|]);
    rewrite nth_head8; cbn [nth];
    destruct b; reflexivity.
Qed.

Lemma step_real : forall typ col style fl bits tail, typ = 5 \/ typ = 9 ->
  style < 16777216 -> bits < 18446744073709551616 ->
  record_step typ (cell_head col style fl ++ le_bytes 8 bits ++ tail) =
    Ok (CCell (RVal (format_excel_f64 bits (nthN (e_formats en) style) (e_1904 en)))).
Proof.
  intros typ col style fl bits tail [-> | ->] Hst Hb; unfold XlsbRec.record_step;
    [change (expected_len 5) with 16|change (expected_len 9) with 16];
    (rewrite check_ok by (rewrite lenN_head, lenN_app, lenN_le; lia)); cbn [obind]; ids;
    rewrite lenN_head, lenN_app, lenN_le;
    (destruct (8 + (N.of_nat 8 + lenN tail) <? 16) eqn:E; [lia|]);
    unfold cell_fmt; rewrite head_style by exact Hst; rewrite rd_head8, rd8 by exact Hb;
    reflexivity.
Qed.

Lemma step_str : forall typ col style fl s tail, typ = 6 \/ typ = 8 ->
  forallb scalarb s = true -> utf16_len s <= 32767 ->
  record_step typ (cell_head col style fl ++ enc_wide s ++ tail) = Ok (CCell (RVal (DString s))).
Proof.
  intros typ col style fl s tail [-> | ->] Hs Hl; unfold XlsbRec.record_step;
    [change (expected_len 6) with 8|change (expected_len 8) with 8];
    (rewrite check_ok by (rewrite lenN_head; lia)); cbn [obind]; ids;
    rewrite lenN_head;
    (destruct (8 + lenN (enc_wide s ++ tail) <? 8) eqn:E; [lia|]);
    rewrite head_skip;
    (rewrite wide_str_roundtrip; [reflexivity|apply forallb_scalar, Hs|unfold U32MAX; lia]).
Qed.

Lemma step_isst : forall col style fl i tail s, i < 4294967296 ->
  nthN (e_strings en) i = Some s ->
  record_step 7 (cell_head col style fl ++ le_bytes 4 i ++ tail) = Ok (CCell (RShared s)).
Proof.
  intros col style fl i tail s Hi Hs. unfold XlsbRec.record_step.
  change (expected_len 7) with 12.
  rewrite check_ok by (rewrite lenN_head, lenN_app, lenN_le; lia). cbn [obind]. ids.
  rewrite lenN_head, lenN_app, lenN_le.
  destruct (8 + (N.of_nat 4 + lenN tail) <? 12) eqn:E; [lia|].
  rewrite rd_head8, rd4 by exact Hi. rewrite Hs. reflexivity.
Qed.

(* every id the loop body does not act on is skipped *)
Lemma step_other : forall typ buf, step_id typ = false -> record_step typ buf = Ok CSkip.
Proof.
  intros typ buf H. unfold XlsbRec.record_step. rewrite (expected_other _ H).
  rewrite check_ok by lia. cbn [obind]. unfold step_id in H.
  repeat match goal with
         | |- context [if ?c then _ else _] => destruct c eqn:?; try lia
         end.
  reflexivity.
Qed.

Lemma step_row : forall row tail, row < 4294967296 ->
  record_step 0 (le_bytes 4 row ++ tail) = Ok (CRow row).
Proof.
  intros row tail H. unfold XlsbRec.record_step. change (expected_len 0) with 4.
  rewrite check_ok by (rewrite lenN_app, lenN_le; lia). cbn [obind]. ids.
  rewrite lenN_app, lenN_le. destruct (N.of_nat 4 + lenN tail <? 4) eqn:E; [lia|].
  rewrite rd4 by exact H. reflexivity.
Qed.

(* BrtCellBlank: no value; with at least the column field it moves next_col *)
Lemma step_blank : forall buf,
  record_step 1 buf = Ok (if 4 <=? lenN buf then CBlank (rd 4 0 buf) else CSkip).
Proof.
  intros buf. unfold XlsbRec.record_step. change (expected_len 1) with 0.
  rewrite check_ok by lia. cbn [obind]. ids. destruct (4 <=? lenN buf); reflexivity.
Qed.

Lemma step_end : forall buf, record_step 146 buf = Ok CEnd.
Proof.
  intros buf. unfold XlsbRec.record_step. change (expected_len 146) with 0.
  rewrite check_ok by lia. cbn [obind]. ids. reflexivity.
Qed.

(* each interpreted cell record kind yields the documented variant; the column is the first
   field.  BrtCellBlank is skipped. *)
Theorem cell_table : forall col style fl v tail,
  col < 4294967296 -> style < 16777216 -> wf_cval en v = true ->
  let buf := cell_head col style fl ++ cval_bytes v ++ tail in
  rd 4 0 buf = col /\
  record_step (cval_id v) buf =
    match cval_data style v with
    | Some d => Ok (CCell d)
    | None => Ok (CBlank col)
    end.
Proof.
  intros col style fl v tail Hcol Hst Hv buf. subst buf. split; [apply head_col; exact Hcol|].
  destruct v as [|f|e|b|bits|s|i|s|bits|b|e]; cbn [cval_id cval_bytes XlsbRec.cval_data wf_cval] in *.
  - rewrite step_blank. rewrite lenN_head. destruct (4 <=? 8 + lenN ([] ++ tail)) eqn:E; [|lia].
    rewrite head_col by exact Hcol. reflexivity.
  - apply step_rk; assumption.
  - apply step_err. left; reflexivity.
  - apply step_bool. left; reflexivity.
  - apply step_real; [left; reflexivity|exact Hst|lia].
  - apply andb_true_iff in Hv as [Hs Hl]. apply step_str; [left; reflexivity|exact Hs|lia].
  - apply andb_true_iff in Hv as [H1 H2].
    destruct (@nthN_Some _ (e_strings en) i) as [s Hs]; [lia|]. rewrite Hs.
    apply step_isst; [lia|exact Hs].
  - apply andb_true_iff in Hv as [Hs Hl]. apply step_str; [right; reflexivity|exact Hs|lia].
  - apply step_real; [right; reflexivity|exact Hst|lia].
  - apply step_bool. right; reflexivity.
  - apply step_err. right; reflexivity.
Qed.

(* the table spelled out kind by kind (the documented variant of every interpreted record) *)
Theorem cell_table_kinds : forall col style fl tail, style < 16777216 ->
  let fmt := nthN (e_formats en) style in
  let hd := cell_head col style fl in
  (forall body, record_step 1 body = Ok (if 4 <=? lenN body then CBlank (rd 4 0 body) else CSkip)) /\
  (forall f, legal_form f = true ->
     record_step 2 (hd ++ le_bytes 4 (rk_encode f) ++ tail) =
       Ok (CCell (RVal (rk_wrap (xrk_form_value fdiv100 f) fmt (e_1904 en))))) /\
  (forall e, record_step 3 (hd ++ [err_code e] ++ tail) = Ok (CCell (RVal (DError e))) /\
             record_step 11 (hd ++ [err_code e] ++ tail) = Ok (CCell (RVal (DError e)))) /\
  (forall b, record_step 4 (hd ++ [flag b] ++ tail) = Ok (CCell (RVal (DBool b))) /\
             record_step 10 (hd ++ [flag b] ++ tail) = Ok (CCell (RVal (DBool b)))) /\
  (forall bits, bits < 18446744073709551616 ->
     record_step 5 (hd ++ le_bytes 8 bits ++ tail) =
       Ok (CCell (RVal (format_excel_f64 bits fmt (e_1904 en)))) /\
     record_step 9 (hd ++ le_bytes 8 bits ++ tail) =
       Ok (CCell (RVal (format_excel_f64 bits fmt (e_1904 en))))) /\
  (forall s, forallb scalarb s = true -> utf16_len s <= 32767 ->
     record_step 6 (hd ++ enc_wide s ++ tail) = Ok (CCell (RVal (DString s))) /\
     record_step 8 (hd ++ enc_wide s ++ tail) = Ok (CCell (RVal (DString s)))) /\
  (forall i s, i < 4294967296 -> nthN (e_strings en) i = Some s ->
     record_step 7 (hd ++ le_bytes 4 i ++ tail) = Ok (CCell (RShared s))) /\
  (forall row rtail, row < 4294967296 -> record_step 0 (le_bytes 4 row ++ rtail) = Ok (CRow row)) /\
  (forall body, record_step 146 body = Ok CEnd).
Proof.
  intros col style fl tail Hst fmt hd. subst fmt hd.
  split; [intros; apply step_blank|].
  split; [intros; apply step_rk; assumption|].
  split; [intros; split; apply step_err; [left|right]; reflexivity|].
  split; [intros; split; apply step_bool; [left|right]; reflexivity|].
  split; [intros; split; apply step_real; try assumption; [left|right]; reflexivity|].
  split; [intros; split; apply step_str; try assumption; [left|right]; reflexivity|].
  split; [intros; apply step_isst; assumption|].
  split; [intros; apply step_row; assumption|].
  intros; apply step_end.
Qed.

(* ---- the short cell records ---- *)
(* a short record BrtShortBlank .. BrtShortIsst is read as its long twin at column next_col *)
Theorem short_unshort : forall style fl v tail ncol, shortable v = true ->
  unshort (cval_id v + 11) (short_head style fl ++ cval_bytes v ++ tail) ncol =
    (cval_id v, cell_head ncol style fl ++ cval_bytes v ++ tail).
Proof.
  intros style fl v tail ncol H. unfold cell_head, short_head. rewrite <- !app_assoc.
  destruct v; try discriminate H; reflexivity.
Qed.

Lemma unshort_other : forall typ buf ncol, is_short typ = false -> unshort typ buf ncol = (typ, buf).
Proof. intros typ buf ncol H. unfold unshort. rewrite H. reflexivity. Qed.

(* the table of the short record kinds: the value of the long record of the same kind, at the
   column right of the previous cell record *)
Theorem short_cell_table : forall ncol style fl v tail,
  ncol < 4294967296 -> style < 16777216 -> wf_cval en v = true -> shortable v = true ->
  let tb := unshort (cval_id v + 11) (short_head style fl ++ cval_bytes v ++ tail) ncol in
  12 <= cval_id v + 11 <= 18 /\ rd 4 0 (snd tb) = ncol /\
  record_step (fst tb) (snd tb) =
    match cval_data style v with
    | Some d => Ok (CCell d)
    | None => Ok (CBlank ncol)
    end.
Proof.
  intros ncol style fl v tail Hc Hst Hv Hs tb. subst tb. rewrite short_unshort by exact Hs.
  cbn [fst snd]. split; [unfold shortable in Hs; destruct v; cbn [cval_id] in *; lia|].
  apply cell_table; assumption.
Qed.

End Table.

(* ================= the cell loop on framed records ================= *)
Lemma obind_ret : forall (A : Type) (o : outcome A), (do x <- o; Ok x) = o.
Proof. intros A []; reflexivity. Qed.

Lemma read_type_frame : forall fr id body rest, wf_frame fr id body = true ->
  read_type (frame fr id body ++ rest) = Ok (id, enc_len (f_lenb fr) (lenN body) ++ body ++ rest).
Proof.
  intros fr id body rest H. apply wf_frame_split in H as (H1 & H2 & _).
  unfold frame. rewrite <- !app_assoc. apply read_type_enc; assumption.
Qed.

Lemma fill_frame : forall fr id body rest buf, wf_frame fr id body = true ->
  fill_buffer (enc_len (f_lenb fr) (lenN body) ++ body ++ rest) buf =
    Ok (lenN body, body ++ (if lenN buf <? lenN body then [] else skipn (length body) buf), rest).
Proof.
  intros fr id body rest buf H. apply wf_frame_split in H as (_ & _ & H3 & H4).
  apply fill_buffer_frame; assumption.
Qed.

(* ================= totality of the framing layer (C06) ================= *)
(* an outcome that is neither a panic nor a fuel exhaustion *)
Definition clean (A : Type) (o : outcome A) : Prop := o <> Panic /\ o <> OutOfFuel.

Lemma clean_ok : forall (A : Type) (a : A), clean (Ok a).
Proof. split; discriminate. Qed.
Lemma clean_err : forall (A : Type) e, clean (@Err A e).
Proof. split; discriminate. Qed.

Lemma read_u8_clean : forall s, clean (read_u8 s).
Proof. intros [|b s]; cbn [read_u8]; [apply clean_err|apply clean_ok]. Qed.

Lemma read_type_clean : forall s, clean (read_type s).
Proof.
  intros s. unfold read_type. destruct s as [|b s]; cbn [read_u8 obind fst snd]; [apply clean_err|].
  destruct (128 <=? b); [|apply clean_ok].
  destruct s as [|b2 s]; cbn [read_u8 obind fst snd]; [apply clean_err|apply clean_ok].
Qed.

Lemma read_len_more_clean : forall n i b len s, clean (read_len_more n i b len s).
Proof.
  induction n as [|n IHn]; intros i b len s; cbn [read_len_more]; [apply clean_ok|].
  destruct (b <? 128); [apply clean_ok|].
  destruct s as [|x s]; cbn [read_u8 obind fst snd]; [apply clean_err|]. apply IHn.
Qed.

Lemma fill_buffer_clean : forall s buf, clean (fill_buffer s buf).
Proof.
  intros s buf. unfold fill_buffer, read_len.
  destruct s as [|b0 s]; cbn [read_u8 obind fst snd]; [apply clean_err|].
  destruct (read_len_more_clean 3 1 b0 (b0 mod 128) s) as [C1 C2].
  destruct (read_len_more 3 1 b0 (b0 mod 128) s) as [[l s']| | |]; cbn [obind fst snd];
    try apply clean_err; try congruence.
  destruct (split_at s' l) as [[p q]|]; [apply clean_ok|apply clean_err].
Qed.

Lemma next_record_clean : forall s, clean (next_record s).
Proof.
  intros s. unfold next_record. destruct (read_type_clean s) as [T1 T2].
  destruct (read_type s) as [[t s1]| | |]; cbn [obind fst snd]; try apply clean_err; try congruence.
  destruct (fill_buffer_clean s1 []) as [F1 F2].
  destruct (fill_buffer s1 []) as [[[l b] r]| | |]; cbn [obind fst snd];
    try apply clean_err; try apply clean_ok; congruence.
Qed.

Lemma wide_str_clean : forall b, clean (wide_str b).
Proof.
  intros b. unfold wide_str. destruct (N.of_nat (length b) <? 4) eqn:E; [apply clean_err|].
  unfold read_u32_le.
  destruct b as [|b0 [|b1 [|b2 [|b3 b]]]]; try (cbn [length] in E; lia).
  cbn [obind].
  match goal with |- context [if ?c then _ else _] => destruct c end;
    [apply clean_err|apply clean_ok].
Qed.

(* the payload delivered by read_exact has the announced length *)
Lemma split_acc_len : forall s n acc p r,
  split_acc s n acc = Some (p, r) -> lenN p = lenN acc + n.
Proof.
  induction s as [|x s IH]; intros n acc p r H.
  - cbn [split_acc] in H. destruct (n =? 0) eqn:E; [|discriminate]. inversion H; subst.
    rewrite rev_append_rev, app_nil_r. unfold lenN. rewrite rev_length. lia.
  - cbn [split_acc] in H. destruct (n =? 0) eqn:E.
    + inversion H; subst. rewrite rev_append_rev, app_nil_r. unfold lenN. rewrite rev_length. lia.
    + apply IH in H. rewrite lenN_cons in H. lia.
Qed.

Lemma fill_buffer_buf : forall s buf l b r,
  fill_buffer s buf = Ok (l, b, r) -> l <= lenN b.
Proof.
  intros s buf l b r H. unfold fill_buffer in H.
  destruct (read_len s) as [[l1 s1]| | |]; cbn [obind fst snd] in H; try discriminate.
  destruct (split_at s1 l1) as [[p q]|] eqn:E; [|discriminate].
  unfold split_at in E. apply split_acc_len in E. rewrite lenN_nil in E.
  inversion H; subst. rewrite lenN_app. lia.
Qed.

Fixpoint final_row (row : N) (items : list (frm * item)) : N :=
  match items with
  | [] => row
  | (_, IRow r _) :: t => final_row r t
  | _ :: t => final_row row t
  end.

(* the reader's next_col agrees with the specification's "column of the previous cell record of
   the row": one to its right; with no previous cell in the row nothing is asked of it *)
Definition col_rel (prev : option N) (ncol : N) : Prop :=
  match prev with
  | Some p => ncol = p + 1 /\ p < 16384
  | None => True
  end.

Lemma wrap_succ32_small : forall c, c < 16384 -> wrap_succ32 c = c + 1.
Proof. intros c H. unfold wrap_succ32. apply N.mod_small. lia. Qed.

Lemma wrap_succ32_lt : forall c, wrap_succ32 c < 4294967296.
Proof. intros c. unfold wrap_succ32. apply N.mod_lt. lia. Qed.

Section Loop.
Variable fdiv100 : N -> N.
Variable en : env.
Notation cells_loop := (cells_loop fdiv100 en).
Notation record_step := (record_step fdiv100 en).
Notation cval_data := (cval_data fdiv100 en).
Notation denote := (denote fdiv100 en).

Ltac lia := try clear fdiv100; try clear en; Lia.lia.

(* what one record does to the loop, given the loop on the rest of the part *)
Definition raw_step (typ : N) (body : list N) (row ncol : N) (k : N -> N -> outcome (list cellr))
  : outcome (list cellr) :=
  let tb := unshort typ body ncol in
  do st <- record_step (fst tb) (snd tb);
  match st with
  | CCell v =>
      let col := rd 4 0 (snd tb) in
      do more <- k row (wrap_succ32 col); Ok (((row, col), v) :: more)
  | CBlank col => k row (wrap_succ32 col)
  | CRow r' => if 1048576 <? r' then Ok [] else k r' 0
  | CEnd => Ok []
  | CSkip => k row ncol
  end.

Lemma loop_frame : forall f fr id body rest row ncol, wf_frame fr id body = true ->
  cells_loop (S f) (frame fr id body ++ rest) row ncol =
    raw_step id body row ncol (cells_loop f rest).
Proof.
  intros f fr id body rest row ncol H. cbn [XlsbRec.cells_loop].
  rewrite next_record_frame by exact H. cbn [obind fst snd]. reflexivity.
Qed.

Lemma raw_step_ext : forall typ body row ncol k1 k2, (forall r c, k1 r c = k2 r c) ->
  raw_step typ body row ncol k1 = raw_step typ body row ncol k2.
Proof.
  intros typ body row ncol k1 k2 H. unfold raw_step. cbv zeta.
  destruct (record_step (fst (unshort typ body ncol)) (snd (unshort typ body ncol)))
    as [[v|c|r'| |]| | |]; cbn [obind]; rewrite ?H; reflexivity.
Qed.

Lemma raw_step_skip : forall typ body row ncol k, interpreted typ = false ->
  raw_step typ body row ncol k = k row ncol.
Proof.
  intros typ body row ncol k H. apply interpreted_split in H as [H1 H2].
  unfold raw_step. rewrite unshort_other by exact H2. cbn [fst snd].
  rewrite step_other by exact H1. reflexivity.
Qed.

Lemma cell_table_id_interpreted : forall id, cell_table_id id = false -> interpreted id = false.
Proof. intros id H. unfold cell_table_id in H. unfold interpreted. lia. Qed.

(* the items of a cell table, then whatever follows: the cells the specification gives them,
   the row of the last row header, some next_col *)
Lemma items_loop : forall items F rest row prev ncol,
  forallb (wf_item en) items = true -> shorts_placed prev items = true -> col_rel prev ncol ->
  (length items <= F)%nat ->
  exists ncol',
    cells_loop F (flat_map enc_item items ++ rest) row ncol =
      do more <- cells_loop (F - length items) rest (final_row row items) ncol';
      Ok (denote row prev items ++ more).
Proof.
  induction items as [|x items IH]; intros F rest row prev ncol Hwf Hsp Hrel HF.
  - exists ncol. cbn [flat_map app length final_row XlsbRec.denote]. rewrite Nat.sub_0_r.
    symmetry. apply obind_ret.
  - cbn [forallb] in Hwf. apply andb_true_iff in Hwf as [Hx Hwf].
    destruct F as [|f]; [cbn [length] in HF; lia|]. cbn [length] in HF.
    cbn [flat_map]. rewrite <- app_assoc. cbn [length Nat.sub].
    destruct x as [fr it]. unfold wf_item in Hx. cbn [fst snd] in Hx.
    apply andb_true_iff in Hx as [Hf Hi]. unfold enc_item at 1. cbn [fst snd].
    rewrite loop_frame by exact Hf. unfold raw_step. cbv zeta.
    destruct it as [r tail|col style fl v tail|style fl v tail|id body];
      cbn [item_id item_body final_row XlsbRec.denote shorts_placed] in *.
    + (* BrtRowHdr *)
      rewrite unshort_other by reflexivity. cbn [fst snd].
      rewrite step_row by lia. cbn [obind].
      destruct (1048576 <? r) eqn:E; [lia|].
      apply IH; [exact Hwf|exact Hsp|exact I|lia].
    + (* a cell record with its column *)
      apply andb_true_iff in Hi as [Hi Hv]. apply andb_true_iff in Hi as [Hi Hfl].
      apply andb_true_iff in Hi as [Hc Hs].
      rewrite unshort_other by (destruct v; reflexivity). cbn [fst snd].
      destruct (@cell_table fdiv100 en col style fl v tail) as [Hcol Hstep]; [lia|lia|exact Hv|].
      cbv zeta in Hcol, Hstep. rewrite Hstep.
      assert (Hrel' : col_rel (Some col) (wrap_succ32 col)).
      { cbn [col_rel]. rewrite wrap_succ32_small by lia. split; [reflexivity|lia]. }
      destruct (IH f rest row (Some col) (wrap_succ32 col) Hwf Hsp Hrel' ltac:(lia)) as [n' E].
      exists n'. destruct (cval_data style v) as [d|]; cbn [obind]; rewrite ?Hcol, E.
      * destruct (cells_loop (f - length items) rest (final_row row items) n'); reflexivity.
      * reflexivity.
    + (* a short cell record *)
      apply andb_true_iff in Hi as [Hi Hsh]. apply andb_true_iff in Hi as [Hi Hv].
      apply andb_true_iff in Hi as [Hs Hfl].
      destruct prev as [p|]; [|discriminate Hsp].
      apply andb_true_iff in Hsp as [Hp Hsp]. destruct Hrel as [Hn Hp0]. subst ncol.
      destruct (@short_cell_table fdiv100 en (p + 1) style fl v tail) as (_ & Hcol & Hstep);
        [lia|lia|exact Hv|exact Hsh|].
      cbv zeta in Hcol, Hstep. rewrite Hstep.
      assert (Hrel' : col_rel (Some (p + 1)) (wrap_succ32 (p + 1))).
      { cbn [col_rel]. rewrite wrap_succ32_small by lia. split; [reflexivity|lia]. }
      destruct (IH f rest row (Some (p + 1)) (wrap_succ32 (p + 1)) Hwf Hsp Hrel' ltac:(lia)) as [n' E].
      exists n'. destruct (cval_data style v) as [d|]; cbn [obind]; rewrite ?Hcol, E.
      * destruct (cells_loop (f - length items) rest (final_row row items) n'); reflexivity.
      * reflexivity.
    + (* a record outside the cell table grammar *)
      assert (Hid : interpreted id = false).
      { apply cell_table_id_interpreted. destruct (cell_table_id id); [discriminate|reflexivity]. }
      apply interpreted_split in Hid as [H1 H2].
      rewrite unshort_other by exact H2. cbn [fst snd]. rewrite step_other by exact H1.
      cbn [obind]. apply IH; [exact Hwf|exact Hsp|exact Hrel|lia].
Qed.

Lemma loop_end : forall f fr body rest row ncol, wf_frame fr 146 body = true ->
  cells_loop (S f) (frame fr 146 body ++ rest) row ncol = Ok [].
Proof.
  intros. rewrite loop_frame by assumption. unfold raw_step.
  rewrite unshort_other by reflexivity. cbn [fst snd]. rewrite step_end. reflexivity.
Qed.

Theorem cell_table_loop : forall items F fr body rest,
  forallb (wf_item en) items = true -> shorts_placed None items = true ->
  wf_frame fr 146 body = true -> (length items < F)%nat ->
  cells_loop F (flat_map enc_item items ++ frame fr 146 body ++ rest) 0 0 = Ok (denote 0 None items).
Proof.
  intros items F fr body rest Hwf Hsp He HF.
  destruct (@items_loop items F (frame fr 146 body ++ rest) 0 None 0 Hwf Hsp I ltac:(lia)) as [n' E].
  rewrite E.
  destruct (F - length items)%nat as [|f] eqn:EF; [lia|].
  rewrite loop_end by exact He. cbn [obind]. rewrite app_nil_r. reflexivity.
Qed.

(* ---- fuel: any amount above the length of the part gives the same result ---- *)
Lemma read_u8_len : forall s b t, read_u8 s = Ok (b, t) -> length s = S (length t).
Proof. intros [|x s] b t H; cbn [read_u8] in H; inversion H; subst. reflexivity. Qed.

Lemma read_type_len : forall s t r, read_type s = Ok (t, r) -> (length r < length s)%nat.
Proof.
  intros s t r H. unfold read_type in H.
  destruct (read_u8 s) as [[b s1]| | |] eqn:E1; cbn [obind fst snd] in H; try discriminate.
  apply read_u8_len in E1. destruct (128 <=? b).
  - destruct (read_u8 s1) as [[b2 s2]| | |] eqn:E2; cbn [obind fst snd] in H; try discriminate.
    apply read_u8_len in E2. inversion H; subst. lia.
  - inversion H; subst. lia.
Qed.

Lemma read_len_more_len : forall m i b len s l r,
  read_len_more m i b len s = Ok (l, r) -> (length r <= length s)%nat.
Proof.
  induction m as [|m IH]; intros i b len s l r H; cbn [read_len_more] in H.
  - inversion H; subst. lia.
  - destruct (b <? 128); [inversion H; subst; lia|].
    destruct (read_u8 s) as [[b2 s2]| | |] eqn:E; cbn [obind fst snd] in H; try discriminate.
    apply read_u8_len in E. apply IH in H. lia.
Qed.

Lemma fill_buffer_len : forall s buf l b r,
  fill_buffer s buf = Ok (l, b, r) -> (length r < length s)%nat.
Proof.
  intros s buf l b r H. unfold fill_buffer, read_len in H.
  destruct (read_u8 s) as [[b0 s1]| | |] eqn:E1; cbn [obind fst snd] in H; try discriminate.
  apply read_u8_len in E1.
  destruct (read_len_more 3 1 b0 (b0 mod 128) s1) as [[l1 s2]| | |] eqn:E2;
    cbn [obind fst snd] in H; try discriminate.
  apply read_len_more_len in E2.
  destruct (split_at s2 l1) as [[p r']|] eqn:E3; [|discriminate].
  unfold split_at in E3. apply split_acc_inv in E3. inversion H; subst. lia.
Qed.

Lemma next_record_len : forall s t b r, next_record s = Ok (t, b, r) -> (length r < length s)%nat.
Proof.
  intros s t b r H. unfold next_record in H.
  destruct (read_type s) as [[t1 s1]| | |] eqn:E1; cbn [obind fst snd] in H; try discriminate.
  apply read_type_len in E1.
  destruct (fill_buffer s1 []) as [[[l1 b1] r1]| | |] eqn:E2; cbn [obind fst snd] in H;
    try discriminate.
  apply fill_buffer_len in E2. inversion H; subst. lia.
Qed.

Lemma cells_loop_fuel : forall f1 f2 s row ncol, (length s < f1)%nat -> (length s < f2)%nat ->
  cells_loop f1 s row ncol = cells_loop f2 s row ncol.
Proof.
  induction f1 as [|f1 IH]; intros f2 s row ncol H1 H2; [lia|].
  destruct f2 as [|f2]; [lia|]. cbn [XlsbRec.cells_loop].
  destruct (next_record s) as [[[t b] r]| | |] eqn:E; cbn [obind fst snd]; try reflexivity.
  apply next_record_len in E. cbv zeta.
  destruct (record_step (fst (unshort t b ncol)) (snd (unshort t b ncol)))
    as [[v|c|r'| |]| | |]; cbn [obind]; try reflexivity.
  - rewrite (IH f2 r row) by lia. reflexivity.
  - apply IH; lia.
  - destruct (1048576 <? r'); [reflexivity|]. apply IH; lia.
  - apply IH; lia.
Qed.

(* the cell loop never panics and, with more fuel than bytes, never runs out of fuel *)
Lemma record_step_clean : forall t b, clean (record_step t b).
Proof.
  intros t b. destruct (step_id t) eqn:Hi.
  2:{ rewrite step_other by exact Hi. split; discriminate. }
  destruct (N.eq_dec t 1) as [->|Hn1].
  { rewrite step_blank. destruct (4 <=? lenN b); split; discriminate. }
  assert (Ht : t = 0 \/ t = 2 \/ t = 3 \/ t = 4 \/ t = 5 \/ t = 6 \/ t = 7 \/ t = 8 \/ t = 9 \/
               t = 10 \/ t = 11 \/ t = 146) by (unfold step_id in Hi; lia).
  clear Hi Hn1. unfold XlsbRec.record_step, check_len.
  repeat (destruct Ht as [Ht|Ht]; [subst t|]); try subst t;
    match goal with |- context [expected_len ?k] =>
      let v := eval vm_compute in (expected_len k) in change (expected_len k) with v end;
    match goal with |- context [lenN b <? ?v] => destruct (lenN b <? v) eqn:E end;
    cbn [obind]; try (split; discriminate); ids; rewrite ?E; try (split; discriminate).
  - (* error codes *)
    unfold parse_cerr.
    repeat match goal with
           | |- context [if ?c then _ else _] => destruct c
           end; cbn [obind]; split; discriminate.
  - (* inline string *)
    destruct (wide_str_clean (skipn 8 b)) as [W1 W2].
    destruct (wide_str (skipn 8 b)); cbn [obind]; split; try discriminate; congruence.
  - destruct (nthN (e_strings en) (rd 4 8 b)); split; discriminate.
  - destruct (wide_str_clean (skipn 8 b)) as [W1 W2].
    destruct (wide_str (skipn 8 b)); cbn [obind]; split; try discriminate; congruence.
  - unfold parse_cerr.
    repeat match goal with
           | |- context [if ?c then _ else _] => destruct c
           end; cbn [obind]; split; discriminate.
Qed.

Lemma cells_loop_clean : forall f s row ncol, (length s < f)%nat -> clean (cells_loop f s row ncol).
Proof.
  induction f as [|f IH]; intros s row ncol H; [lia|]. cbn [XlsbRec.cells_loop].
  destruct (next_record_clean s) as [N1 N2].
  destruct (next_record s) as [[[t b] r]| | |] eqn:E; cbn [obind fst snd];
    try (split; discriminate); try congruence.
  apply next_record_len in E. cbv zeta.
  destruct (record_step_clean (fst (unshort t b ncol)) (snd (unshort t b ncol))) as [R1 R2].
  destruct (record_step (fst (unshort t b ncol)) (snd (unshort t b ncol)))
    as [[v|c|r'| |]| | |]; cbn [obind];
    try (split; discriminate); try congruence.
  - destruct (IH r row (wrap_succ32 (rd 4 0 (snd (unshort t b ncol)))) ltac:(lia)) as [I1 I2].
    destruct (cells_loop f r row (wrap_succ32 (rd 4 0 (snd (unshort t b ncol))))); cbn [obind];
      split; try discriminate; congruence.
  - apply IH; lia.
  - destruct (1048576 <? r'); [split; discriminate|]. apply IH; lia.
  - apply IH; lia.
Qed.

(* the fuel worksheet_range_ref's model uses (length of the part + 1) always suffices *)
Lemma cells_loop_no_fuel_out : forall f s row ncol, (length s < f)%nat ->
  cells_loop f s row ncol <> OutOfFuel.
Proof. intros f s row ncol H. destruct (@cells_loop_clean f s row ncol H) as [_ C]. exact C. Qed.

(* ================= C03_ignorable_transparent ================= *)
(* the cells of a part positioned in the cell table (after BrtBeginSheetData), current row
   [row], next_col [ncol]; the fuel is the one worksheet_range_ref uses *)
Definition cells_from (s : list N) (row ncol : N) : outcome (list cellr) :=
  cells_loop (S (length s)) s row ncol.

Lemma transparent_gen : forall pre fr id body rest f1 f2 row ncol,
  forallb wf_raw pre = true -> wf_frame fr id body = true -> interpreted id = false ->
  (length (flat_map enc_raw pre ++ frame fr id body ++ rest) < f1)%nat ->
  (length (flat_map enc_raw pre ++ rest) < f2)%nat ->
  cells_loop f1 (flat_map enc_raw pre ++ frame fr id body ++ rest) row ncol =
  cells_loop f2 (flat_map enc_raw pre ++ rest) row ncol.
Proof.
  induction pre as [|x pre IH]; intros fr id body rest f1 f2 row ncol Hpre Hr Hid H1 H2.
  - cbn [flat_map app] in *. destruct f1 as [|f1]; [lia|].
    rewrite loop_frame by exact Hr. rewrite raw_step_skip by exact Hid.
    pose proof (frame_length_pos fr id body). rewrite app_length in H1.
    apply cells_loop_fuel; lia.
  - cbn [forallb] in Hpre. apply andb_true_iff in Hpre as [Hx Hpre].
    cbn [flat_map] in *. rewrite <- !app_assoc in *.
    destruct x as [[frx idx] bx]. unfold enc_raw at 1 3. unfold enc_raw at 1 in H1.
    unfold enc_raw at 1 in H2. unfold wf_raw in Hx. cbn [fst snd] in *.
    destruct f1 as [|f1]; [lia|]. destruct f2 as [|f2]; [lia|].
    rewrite !loop_frame by exact Hx.
    apply raw_step_ext. intros r c.
    pose proof (frame_length_pos frx idx bx).
    rewrite app_length in H1, H2.
    apply IH; try assumption; lia.
Qed.

(* inserting a well-framed record whose id the cell reader does not act on (anything but
   BrtRowHdr, the cell records 1..11, the short cell records 12..18 and BrtEndSheetData), between
   any two records of any well-framed prefix of the cell stream — cell records, short ones
   included, on either side; what follows is arbitrary, even malformed — leaves the outcome (the
   cell list, or the error / panic) unchanged: neither the row nor next_col is touched *)
Theorem ignorable_transparent : forall pre fr id body rest row ncol,
  forallb wf_raw pre = true -> wf_frame fr id body = true -> interpreted id = false ->
  cells_from (flat_map enc_raw pre ++ frame fr id body ++ rest) row ncol =
  cells_from (flat_map enc_raw pre ++ rest) row ncol.
Proof.
  intros. unfold cells_from. apply transparent_gen; try assumption; lia.
Qed.

End Loop.

(* ================= XlsbCellsReader::new on a legal header ================= *)
Lemma nsb_found : forall f rt bounds fr body rest buf, wf_frame fr rt body = true ->
  next_skip_blocks (S f) rt bounds (frame fr rt body ++ rest) buf =
    Ok (lenN body, body ++ (if lenN buf <? lenN body then [] else skipn (length body) buf), rest).
Proof.
  intros f rt bounds fr body rest buf H. cbn [next_skip_blocks].
  rewrite read_type_frame by exact H. cbn [obind fst snd].
  rewrite (fill_frame _ _ _ rest buf H). cbn [obind fst snd].
  rewrite N.eqb_refl. reflexivity.
Qed.

Lemma nsb_skip : forall f rt bounds fr id body rest buf, wf_frame fr id body = true ->
  id <> rt -> find_bound bounds id = None ->
  exists buf', next_skip_blocks (S f) rt bounds (frame fr id body ++ rest) buf =
               next_skip_blocks f rt bounds rest buf'.
Proof.
  intros f rt bounds fr id body rest buf H Hne Hb. cbn [next_skip_blocks].
  rewrite read_type_frame by exact H. cbn [obind fst snd].
  rewrite (fill_frame _ _ _ rest buf H). cbn [obind fst snd].
  destruct (id =? rt) eqn:E; [lia|]. rewrite Hb. eexists. reflexivity.
Qed.

Definition skippable (rt : N) (bounds : list (N * option N)) (r : rawrec) : Prop :=
  wf_raw r = true /\ snd (fst r) <> rt /\ find_bound bounds (snd (fst r)) = None.

Lemma nsb_skip_list : forall rs F rt bounds rest buf,
  Forall (skippable rt bounds) rs -> (length rs <= F)%nat ->
  exists buf', next_skip_blocks F rt bounds (flat_map enc_raw rs ++ rest) buf =
               next_skip_blocks (F - length rs) rt bounds rest buf'.
Proof.
  induction rs as [|r rs IH]; intros F rt bounds rest buf Hs HF.
  - cbn [flat_map app length]. rewrite Nat.sub_0_r. eexists. reflexivity.
  - inversion Hs as [|? ? (Hw & Hne & Hb) Hs']; subst.
    destruct F as [|f]; [cbn [length] in HF; lia|]. cbn [length] in HF.
    cbn [flat_map]. rewrite <- app_assoc. destruct r as [[fr id] body].
    unfold enc_raw at 1. unfold wf_raw in Hw. cbn [fst snd] in *.
    destruct (@nsb_skip f rt bounds fr id body (flat_map enc_raw rs ++ rest) buf Hw Hne Hb) as [b1 E1].
    rewrite E1. cbn [length Nat.sub]. apply IH; [exact Hs'|lia].
Qed.

Lemma skip_until_list : forall inner f e frc cb rest buf,
  Forall (fun r => wf_raw r = true /\ snd (fst r) <> e) inner -> wf_frame frc e cb = true ->
  (length inner < f)%nat ->
  exists buf', skip_until f e (flat_map enc_raw inner ++ frame frc e cb ++ rest) buf = Ok (buf', rest).
Proof.
  induction inner as [|r inner IH]; intros f e frc cb rest buf Hi Hc Hf.
  - destruct f as [|f]; [lia|]. cbn [flat_map app skip_until].
    rewrite read_type_frame by exact Hc. cbn [obind fst snd].
    rewrite (fill_frame _ _ _ rest buf Hc). cbn [obind fst snd].
    rewrite N.eqb_refl. eexists. reflexivity.
  - inversion Hi as [|? ? (Hw & Hne) Hi']; subst.
    destruct f as [|f]; [lia|]. cbn [length] in Hf.
    cbn [flat_map]. rewrite <- app_assoc. destruct r as [[fr id] body].
    unfold enc_raw at 1. unfold wf_raw in Hw. cbn [fst snd] in *.
    cbn [skip_until]. rewrite read_type_frame by exact Hw. cbn [obind fst snd].
    rewrite (fill_frame _ _ _ _ buf Hw). cbn [obind fst snd].
    destruct (id =? e) eqn:E; [lia|]. apply IH; [exact Hi'|exact Hc|lia].
Qed.

(* number of records of the header elements *)
Definition hcount (h : hrec) : nat :=
  match h with HRec _ => 1%nat | HBlock _ inner _ => (2 + length inner)%nat end.
Definition hcounts (hs : list hrec) : nat := fold_right (fun h n => (hcount h + n)%nat) 0%nat hs.

Lemma forallb_Forall : forall (A : Type) (p : A -> bool) (P : A -> Prop) l,
  (forall x, p x = true -> P x) -> forallb p l = true -> Forall P l.
Proof.
  intros A p P l H Hl. apply Forall_forall. intros x Hx.
  rewrite forallb_forall in Hl. apply H, Hl, Hx.
Qed.

Lemma nsb_hrecs : forall hs F rest buf,
  forallb wf_hrec hs = true -> (hcounts hs <= F)%nat ->
  exists buf' F', (F - hcounts hs <= F')%nat /\
    next_skip_blocks F 145 BOUNDS2 (flat_map enc_hrec hs ++ rest) buf =
    next_skip_blocks F' 145 BOUNDS2 rest buf'.
Proof.
  induction hs as [|h hs IH]; intros F rest buf Hwf HF.
  - cbn [flat_map app]. exists buf, F. split; [lia|reflexivity].
  - cbn [forallb] in Hwf. apply andb_true_iff in Hwf as [Hh Hwf].
    cbn [hcounts fold_right] in HF. fold (hcounts hs) in HF.
    cbn [flat_map]. rewrite <- app_assoc.
    destruct h as [r|o inner c]; cbn [wf_hrec enc_hrec hcount] in *.
    + apply andb_true_iff in Hh as [Hh Hb]. apply andb_true_iff in Hh as [Hw Hne].
      destruct r as [[fr id] body]. unfold enc_raw, wf_raw in *. cbn [fst snd] in *.
      unfold block_end in Hb. destruct (find_bound BOUNDS2 id) eqn:Eb; [discriminate|].
      destruct F as [|f]; [lia|].
      destruct (@nsb_skip f 145 BOUNDS2 fr id body (flat_map enc_hrec hs ++ rest) buf Hw) as [b1 E1];
        [lia|exact Eb|].
      rewrite E1. destruct (IH f rest b1 Hwf) as (b2 & F' & HF' & E2); [lia|].
      exists b2, F'. split; [cbn [hcounts fold_right hcount]; fold (hcounts hs); lia|exact E2].
    + apply andb_true_iff in Hh as [Hh Hb]. apply andb_true_iff in Hh as [Hw Hne].
      destruct o as [[fr id] body]. unfold enc_raw at 1. unfold wf_raw in Hw. cbn [fst snd] in *.
      unfold block_end in *. destruct (find_bound BOUNDS2 id) as [e|] eqn:Eb; [|discriminate].
      apply andb_true_iff in Hb as [Hc Hin].
      destruct F as [|f]; [lia|].
      rewrite <- !app_assoc. cbn [next_skip_blocks].
      rewrite read_type_frame by exact Hw. cbn [obind fst snd].
      rewrite (fill_frame _ _ _ _ buf Hw). cbn [obind fst snd].
      destruct (id =? 145) eqn:E; [lia|]. rewrite Eb.
      destruct (@skip_until_list inner f e (fst c) (snd c) (flat_map enc_hrec hs ++ rest)
                  (body ++ (if lenN buf <? lenN body then [] else skipn (length body) buf)))
        as [b1 E1].
      * eapply forallb_Forall; [|exact Hin]. intros x Hx. cbv beta in Hx.
        apply andb_true_iff in Hx as [Hx1 Hx2]. split; [exact Hx1|lia].
      * exact Hc.
      * lia.
      * rewrite E1. cbn [obind fst snd].
        destruct (IH f rest b1 Hwf) as (b2 & F' & HF' & E2); [lia|].
        exists b2, F'. split; [cbn [hcounts fold_right hcount]; fold (hcounts hs); lia|exact E2].
Qed.

(* ---- the single header scan of the repaired XlsbCellsReader::new ---- *)
Definition dim_known (dims : option (pos * pos)) : bool :=
  match dims with None => false | Some _ => true end.

Lemma block_end_not_dim : forall id e, find_bound BOUNDS2 id = Some e -> (id =? 148) = false.
Proof.
  intros id e H. destruct (id =? 148) eqn:E; [|reflexivity].
  apply N.eqb_eq in E. subst. vm_compute in H. discriminate.
Qed.

Lemma scan_cond : forall id dims, dim_known dims || negb (id =? 148) = true ->
  (id =? 148) && (match dims with None => true | Some _ => false end) = false.
Proof. intros id [d|] H; cbn [dim_known orb] in H; destruct (id =? 148); cbn in *; congruence. Qed.

Lemma scan_begin : forall f fr body rest buf dims, wf_frame fr 145 body = true ->
  scan_header (S f) (frame fr 145 body ++ rest) buf dims = Ok (dims, rest).
Proof.
  intros f fr body rest buf dims H. cbn [scan_header].
  rewrite read_type_frame by exact H. cbn [obind fst snd].
  rewrite (fill_frame _ _ _ rest buf H). cbn [obind fst snd]. reflexivity.
Qed.

Lemma scan_hrecs : forall hs F rest buf dims,
  forallb wf_hrec hs = true -> forallb (fun h => dim_known dims || no_dim h) hs = true ->
  (hcounts hs <= F)%nat ->
  exists buf' F', (F - hcounts hs <= F')%nat /\
    scan_header F (flat_map enc_hrec hs ++ rest) buf dims = scan_header F' rest buf' dims.
Proof.
  induction hs as [|h hs IH]; intros F rest buf dims Hwf Hnd HF.
  - cbn [flat_map app]. exists buf, F. split; [lia|reflexivity].
  - cbn [forallb] in Hwf, Hnd. apply andb_true_iff in Hwf as [Hh Hwf].
    apply andb_true_iff in Hnd as [Hn Hnd].
    cbn [hcounts fold_right] in HF. fold (hcounts hs) in HF.
    cbn [flat_map]. rewrite <- app_assoc.
    destruct h as [r|o inner c]; cbn [wf_hrec enc_hrec hcount no_dim] in *.
    + apply andb_true_iff in Hh as [Hh Hb]. apply andb_true_iff in Hh as [Hw Hne].
      destruct r as [[fr id] body]. unfold enc_raw, wf_raw in *. cbn [fst snd] in *.
      unfold block_end in Hb. destruct (find_bound BOUNDS2 id) eqn:Eb; [discriminate|].
      destruct F as [|f]; [lia|]. cbn [scan_header].
      rewrite read_type_frame by exact Hw. cbn [obind fst snd].
      rewrite (fill_frame _ _ _ _ buf Hw). cbn [obind fst snd].
      destruct (id =? 145) eqn:E; [lia|]. rewrite (scan_cond _ _ Hn), Eb.
      match goal with |- context [scan_header f _ ?b dims] =>
        destruct (IH f rest b dims Hwf Hnd) as (b2 & F' & HF' & E2); [lia|] end.
      exists b2, F'. split; [cbn [hcounts fold_right hcount]; fold (hcounts hs); lia|exact E2].
    + apply andb_true_iff in Hh as [Hh Hb]. apply andb_true_iff in Hh as [Hw Hne].
      destruct o as [[fr id] body]. unfold enc_raw at 1. unfold wf_raw in Hw. cbn [fst snd] in *.
      unfold block_end in *. destruct (find_bound BOUNDS2 id) as [e|] eqn:Eb; [|discriminate].
      apply andb_true_iff in Hb as [Hc Hin].
      destruct F as [|f]; [lia|].
      rewrite <- !app_assoc. cbn [scan_header].
      rewrite read_type_frame by exact Hw. cbn [obind fst snd].
      rewrite (fill_frame _ _ _ _ buf Hw). cbn [obind fst snd].
      destruct (id =? 145) eqn:E; [lia|]. rewrite (block_end_not_dim _ Eb). cbn [andb]. rewrite Eb.
      destruct (@skip_until_list inner f e (fst c) (snd c) (flat_map enc_hrec hs ++ rest)
                  (body ++ (if lenN buf <? lenN body then [] else skipn (length body) buf)))
        as [b1 E1].
      * eapply forallb_Forall; [|exact Hin]. intros x Hx. cbv beta in Hx.
        apply andb_true_iff in Hx as [Hx1 Hx2]. split; [exact Hx1|lia].
      * exact Hc.
      * lia.
      * rewrite E1. cbn [obind fst snd].
        destruct (IH f rest b1 dims Hwf Hnd) as (b2 & F' & HF' & E2); [lia|].
        exists b2, F'. split; [cbn [hcounts fold_right hcount]; fold (hcounts hs); lia|exact E2].
Qed.

(* ---- lengths: a part is at least as long as its number of records ---- *)
Lemma raws_length : forall rs, (length rs <= length (flat_map enc_raw rs))%nat.
Proof.
  induction rs as [|r rs IH]; [cbn; lia|]. cbn [flat_map length]. rewrite app_length.
  destruct r as [[fr id] body]. unfold enc_raw at 1. cbn [fst snd].
  pose proof (frame_length_pos fr id body). lia.
Qed.

Lemma hrecs_length : forall hs, forallb wf_hrec hs = true ->
  (hcounts hs <= length (flat_map enc_hrec hs))%nat.
Proof.
  induction hs as [|h hs IH]; intros H; [cbn; lia|].
  cbn [forallb] in H. apply andb_true_iff in H as [Hh H]. specialize (IH H).
  cbn [flat_map hcounts fold_right]. fold (hcounts hs). rewrite app_length.
  destruct h as [r|o inner c]; cbn [enc_hrec hcount wf_hrec] in *.
  - destruct r as [[fr id] body]. unfold enc_raw at 1. cbn [fst snd].
    pose proof (frame_length_pos fr id body). lia.
  - apply andb_true_iff in Hh as [_ Hb].
    destruct (block_end (snd (fst o))) as [e|]; [|discriminate].
    rewrite !app_length. destruct o as [[fr id] body]. unfold enc_raw at 1. cbn [fst snd].
    pose proof (frame_length_pos fr id body). pose proof (frame_length_pos (fst c) e (snd c)).
    pose proof (raws_length inner). lia.
Qed.

Lemma items_length : forall items : list (frm * item),
  (length items <= length (flat_map enc_item items))%nat.
Proof.
  induction items as [|x items IH]; [cbn; lia|]. cbn [flat_map length]. rewrite app_length.
  unfold enc_item at 1. pose proof (frame_length_pos (fst x) (item_id (snd x)) (item_body (snd x))).
  lia.
Qed.

(* ---- BrtWsDim ---- *)
Lemma dim_body_app : forall d tail tl, dim_body d tail ++ tl = dim_body d (tail ++ tl).
Proof. intros. unfold dim_body. rewrite <- !app_assoc. reflexivity. Qed.

Lemma parse_dims_body : forall r0 c0 r1 c1 tail,
  r0 < 4294967296 -> c0 < 4294967296 -> r1 < 4294967296 -> c1 < 4294967296 ->
  parse_dims (dim_body ((r0, c0), (r1, c1)) tail) = Ok ((r0, c0), (r1, c1)).
Proof.
  intros r0 c0 r1 c1 tail H0 H1 H2 H3. unfold parse_dims, dim_body. cbn [fst snd].
  set (A := le_bytes 4 r0). set (B := le_bytes 4 r1). set (C := le_bytes 4 c0).
  set (D := le_bytes 4 c1).
  assert (LA : length A = 4%nat) by apply le_bytes_length.
  assert (LB : length B = 4%nat) by apply le_bytes_length.
  assert (LC : length C = 4%nat) by apply le_bytes_length.
  rewrite !lenN_app. unfold A, B, C, D. rewrite !lenN_le. fold A B C D.
  destruct (N.of_nat 4 + (N.of_nat 4 + (N.of_nat 4 + (N.of_nat 4 + lenN tail))) <? 16) eqn:E; [lia|].
  assert (E0 : rd 4 0 (A ++ B ++ C ++ D ++ tail) = r0) by (apply rd4; exact H0).
  assert (E4 : rd 4 4 (A ++ B ++ C ++ D ++ tail) = r1).
  { rewrite rd_app_skip by exact LA. apply rd4; exact H2. }
  assert (E8 : rd 4 8 (A ++ B ++ C ++ D ++ tail) = c0).
  { rewrite (app_assoc A B). rewrite rd_app_skip by (rewrite app_length, LA, LB; reflexivity).
    apply rd4; exact H1. }
  assert (E12 : rd 4 12 (A ++ B ++ C ++ D ++ tail) = c1).
  { rewrite (app_assoc A B), (app_assoc (A ++ B) C).
    rewrite rd_app_skip by (rewrite !app_length, LA, LB, LC; reflexivity).
    apply rd4; exact H3. }
  rewrite E0, E4, E8, E12. reflexivity.
Qed.

Lemma lenN_dim_body : forall d tail, lenN (dim_body d tail) = 16 + lenN tail.
Proof. intros. unfold dim_body. rewrite !lenN_app, !lenN_le. lia. Qed.

(* ================= the cells of every legal layout ================= *)
Section Sheet.
Variable fdiv100 : N -> N.
Variable en : env.

Ltac lia := try clear fdiv100; try clear en; Lia.lia.

Lemma forallb_known : forall (d : pos * pos) (hs : list hrec),
  forallb (fun h => dim_known (Some d) || no_dim h) hs = true.
Proof. intros d hs. induction hs as [|h hs IH]; [reflexivity|]. cbn [forallb dim_known orb]. exact IH. Qed.

Lemma forallb_unknown : forall hs : list hrec, forallb no_dim hs = true ->
  forallb (fun h => dim_known None || no_dim h) hs = true.
Proof.
  intros hs H. induction hs as [|h hs IH]; [reflexivity|]. cbn [forallb] in *.
  apply andb_true_iff in H as [H1 H2]. cbn [dim_known orb]. rewrite H1. exact (IH H2).
Qed.

(* every legal layout, with or without the optional BrtWsDim *)
Theorem sheet_cells_encode : forall c,
  wf_layout en c = true ->
  sheet_cells fdiv100 en (encode_sheet c) = Ok (logical fdiv100 en c).
Proof.
  intros c Hwf.
  destruct c as [pre1 dim pre2 [frb bb] items [fre be] trailer].
  unfold wf_layout in Hwf. cbn [l_pre1 l_dim l_pre2 l_begin l_items l_end fst snd] in Hwf.
  apply andb_true_iff in Hwf as [Hwf He]. apply andb_true_iff in Hwf as [Hwf Hsp].
  apply andb_true_iff in Hwf as [Hwf Hsr].
  apply andb_true_iff in Hwf as [Hwf Hit]. apply andb_true_iff in Hwf as [Hwf Hb].
  apply andb_true_iff in Hwf as [Hwf Hp2]. apply andb_true_iff in Hwf as [Hwf Hd].
  apply andb_true_iff in Hwf as [Hp1 Hn1].
  pose (T3 := flat_map enc_item items ++ frame fre 146 be ++ trailer).
  pose (T2 := flat_map enc_hrec pre2 ++ frame frb 145 bb ++ T3).
  assert (L1 := hrecs_length pre1 Hp1). assert (L2 := hrecs_length pre2 Hp2).
  assert (L3 := items_length items).
  assert (Lf2 := frame_length_pos frb 145 bb). assert (Lf3 := frame_length_pos fre 146 be).
  destruct dim as [[[frd d] dtail]|].
  - (* BrtWsDim present *)
    unfold wf_dim in Hd. cbn [fst snd] in Hd.
    apply andb_true_iff in Hd as [Hd D4]. apply andb_true_iff in Hd as [Hd D3].
    apply andb_true_iff in Hd as [Hd D2]. apply andb_true_iff in Hd as [Hdf D1].
    destruct d as [[r0 c0] [r1 c1]]. cbn [fst snd] in *.
    pose (T1 := frame frd 148 (dim_body (r0, c0, (r1, c1)) dtail) ++ T2).
    pose (S0 := flat_map enc_hrec pre1 ++ T1).
    match goal with |- sheet_cells _ _ ?e = _ => change e with S0 end.
    unfold sheet_cells.
    assert (Lf1 := frame_length_pos frd 148 (dim_body (r0, c0, (r1, c1)) dtail)).
    assert (LS : (hcounts pre1 + hcounts pre2 + length items + 6 <= length S0)%nat).
    { unfold S0, T1, T2, T3. rewrite !app_length. lia. }
    cbv zeta. set (F := S (length S0)). unfold reader_new.
    destruct (@scan_hrecs pre1 F T1 [] None Hp1 (forallb_unknown _ Hn1)) as (b1 & F1 & HF1 & E1).
    { unfold F. lia. }
    unfold S0 at 1. rewrite E1.
    destruct F1 as [|f1]; [unfold F in HF1; lia|].
    unfold T1 at 1. cbn [scan_header].
    rewrite read_type_frame by exact Hdf. cbn [obind fst snd].
    rewrite (fill_frame _ _ _ _ b1 Hdf). cbn [obind fst snd].
    change (148 =? 145) with false. change (148 =? 148) with true. cbv iota. cbn [andb].
    rewrite check_ok by (rewrite lenN_dim_body; lia). cbn [obind].
    rewrite dim_body_app. rewrite parse_dims_body by lia. cbn [obind fst snd].
    match goal with |- context [scan_header f1 T2 ?b ?dd] => set (buf2 := b); set (dd0 := dd) end.
    unfold T2 at 1.
    destruct (@scan_hrecs pre2 f1 (frame frb 145 bb ++ T3) buf2 dd0 Hp2 (forallb_known _ _))
      as (b2 & F2 & HF2 & E2).
    { unfold F in HF1. lia. }
    rewrite E2. destruct F2 as [|f2]; [unfold F in HF1; lia|].
    rewrite scan_begin by exact Hb. cbn [obind fst snd].
    unfold T3. unfold logical. cbn [l_items].
    apply cell_table_loop; [exact Hit|exact Hsp|exact He|unfold F; lia].
  - (* no BrtWsDim: the header is one run of skipped records and blocks *)
    pose (S0 := flat_map enc_hrec pre1 ++ T2).
    match goal with |- sheet_cells _ _ ?e = _ => change e with S0 end.
    unfold sheet_cells.
    assert (LS : (hcounts pre1 + hcounts pre2 + length items + 4 <= length S0)%nat).
    { unfold S0, T2, T3. rewrite !app_length. lia. }
    cbv zeta. set (F := S (length S0)). unfold reader_new.
    destruct (@scan_hrecs pre1 F T2 [] None Hp1 (forallb_unknown _ Hn1)) as (b1 & F1 & HF1 & E1).
    { unfold F. lia. }
    unfold S0 at 1. rewrite E1. unfold T2 at 1.
    destruct (@scan_hrecs pre2 F1 (frame frb 145 bb ++ T3) b1 None Hp2 (forallb_unknown _ Hd))
      as (b2 & F2 & HF2 & E2).
    { unfold F in HF1. lia. }
    rewrite E2. destruct F2 as [|f2]; [unfold F in HF1; lia|].
    rewrite scan_begin by exact Hb. cbn [obind fst snd].
    unfold T3. unfold logical. cbn [l_items].
    apply cell_table_loop; [exact Hit|exact Hsp|exact He|unfold F; lia].
Qed.

(* the public cells reader alone (worksheet_cells_reader + next_cell) sees the same cells *)
Theorem reader_cells_of_sheet_cells : forall s L,
  sheet_cells fdiv100 en s = Ok L -> reader_cells fdiv100 en s = Ok L.
Proof.
  intros s L H. exact H.
Qed.

End Sheet.

(* ================= from_sparse gives the expected range ================= *)
Definition in_grid (T : Type) (c : pos * T) : Prop := fst (fst c) < 1048576 /\ snd (fst c) < 16384.

Definition box_in_grid (b : pos * pos) : Prop :=
  fst (fst b) < 1048576 /\ snd (fst b) < 16384 /\ fst (snd b) < 1048576 /\ snd (snd b) < 16384.

Lemma bbox_fold_grid : forall (ps : list pos) (b : pos * pos),
  Forall (fun p => fst p < 1048576 /\ snd p < 16384) ps -> box_in_grid b ->
  box_in_grid (fold_left (fun b p => bbox (Some b) p) ps b).
Proof.
  induction ps as [|p ps IH]; intros b HF Hb; cbn [fold_left]; [exact Hb|].
  inversion HF as [|? ? [Hp1 Hp2] HF']; subst. apply IH; [exact HF'|].
  destruct b as [s e]. unfold box_in_grid in *. cbn [bbox fst snd] in *. lia.
Qed.

Lemma tight_bbox_grid : forall (p0 : pos) (ps : list pos),
  Forall (fun p => fst p < 1048576 /\ snd p < 16384) (p0 :: ps) ->
  exists s e, tight_bbox (p0 :: ps) = Some (s, e) /\ box_in_grid (s, e).
Proof.
  intros p0 ps HF. inversion HF as [|? ? [H1 H2] HF']; subst. cbn [tight_bbox].
  exists (fst (fold_left (fun b p => bbox (Some b) p) ps (p0, p0))),
         (snd (fold_left (fun b p => bbox (Some b) p) ps (p0, p0))).
  rewrite <- surjective_pairing. split; [reflexivity|].
  apply bbox_fold_grid; [exact HF'|]. unfold box_in_grid. cbn [fst snd]. lia.
Qed.

Lemma nth_error_ext_eq : forall (A : Type) (l1 l2 : list A),
  (forall k, nth_error l1 k = nth_error l2 k) -> l1 = l2.
Proof.
  induction l1 as [|x l1 IH]; intros [|y l2] H.
  - reflexivity.
  - specialize (H 0%nat). discriminate.
  - specialize (H 0%nat). discriminate.
  - pose proof (H 0%nat) as H0. cbn in H0. inversion H0; subst. f_equal.
    apply IH. intros k. apply (H (S k)).
Qed.

Lemma tabulate_length : forall (A : Type) (f : N -> A) n k, length (tabulate f n k) = n.
Proof. induction n as [|n IH]; intros k; cbn [tabulate length]; auto. Qed.

Lemma tabulate_nth : forall (A : Type) (f : N -> A) n k i, (i < n)%nat ->
  nth_error (tabulate f n k) i = Some (f (k + N.of_nat i)).
Proof.
  induction n as [|n IH]; intros k i H; [lia|].
  destruct i as [|i]; cbn [tabulate nth_error].
  - rewrite N.add_0_r. reflexivity.
  - rewrite IH by lia. do 2 f_equal. lia.
Qed.

Lemma tabulate_map : forall (A B : Type) (g : A -> B) (f : N -> A) n k,
  map g (tabulate f n k) = tabulate (fun i => g (f i)) n k.
Proof. induction n as [|n IH]; intros k; cbn [tabulate map]; [reflexivity|]. rewrite IH. reflexivity. Qed.

Lemma tabulate_ext : forall (A : Type) (f g : N -> A) n k, (forall i, f i = g i) ->
  tabulate f n k = tabulate g n k.
Proof. induction n as [|n IH]; intros k H; cbn [tabulate]; [reflexivity|]. rewrite H, (IH _ H). reflexivity. Qed.

Section FromSparse.
Variable T : Type.
Variable d : T.

Lemma range_cells_length : forall s e (L : list (pos * T)),
  length (range_cells d s e L) = N.to_nat ((fst e - fst s + 1) * (snd e - snd s + 1)).
Proof. intros s e L. unfold range_cells. cbv zeta. apply tabulate_length. Qed.

Lemma range_cells_nth : forall s e (L : list (pos * T)) k,
  (k < N.to_nat ((fst e - fst s + 1) * (snd e - snd s + 1)))%nat ->
  nth_error (range_cells d s e L) k =
    Some (last_write d L (fst s + N.of_nat k / (snd e - snd s + 1),
                          snd s + N.of_nat k mod (snd e - snd s + 1))).
Proof.
  intros s e L k H. unfold range_cells. cbv zeta.
  rewrite tabulate_nth by exact H. rewrite N.add_0_l. reflexivity.
Qed.

(* a range that has the tight bounding box of L and L's last-written value at every position
   is range_of L *)
Lemma range_of_from_spec : forall L : list (pos * T),
  Forall (@in_grid T) L ->
  (exists r, from_sparse d L = Ok r /\ Wf r /\ rect r = tight_bbox (map fst L) /\
     forall q, get_value r q = if in_rect r q then Some (last_write d L q) else None) ->
  from_sparse d L = Ok (range_of d L).
Proof.
  intros L Hg Hspec. destruct L as [|c0 L0] eqn:EL; [reflexivity|]. rewrite <- EL in *.
  assert (Hne : L <> []) by (rewrite EL; discriminate).
  assert (Hbb : exists s e, tight_bbox (map fst L) = Some (s, e) /\
                  fst s < 1048576 /\ snd s < 16384 /\ fst e < 1048576 /\ snd e < 16384).
  { rewrite EL. cbn [map].
    assert (HgP : Forall (fun p => fst p < 1048576 /\ snd p < 16384) (map fst (c0 :: L0))).
    { rewrite <- EL. apply Forall_map. exact Hg. }
    cbn [map] in HgP. destruct (tight_bbox_grid HgP) as (s & e & Hb & B).
    exists s, e. split; [exact Hb|]. exact B. }
  destruct Hbb as (s & e & Hbb & Hs1 & Hs2 & He1 & He2).
  destruct Hspec as (r & Hr & Hwf & Hrect & Hget).
  rewrite Hr. f_equal. unfold range_of. rewrite Hbb.
  destruct r as [rs re inner]. rewrite Hbb in Hrect. unfold rect in Hrect.
  destruct (is_empty (mkRange rs re inner)) eqn:Hemp; [discriminate|].
  cbn [r_start r_end] in Hrect. inversion Hrect; subst rs re. clear Hrect.
  f_equal.
  destruct Hwf as [Hnil|(Hle1 & Hle2 & Hlen)];
    [cbn [r_inner] in Hnil; subst inner; discriminate|].
  cbn [r_start r_end r_inner] in Hle1, Hle2, Hlen.
  set (h := fst e - fst s + 1) in *. set (w := snd e - snd s + 1) in *.
  apply nth_error_ext_eq. intros k.
  destruct (Nat.lt_ge_cases k (N.to_nat (h * w))) as [Hk|Hk].
  - rewrite range_cells_nth by exact Hk. fold w.
    set (i := N.of_nat k / w). set (j := N.of_nat k mod w).
    assert (Hw : 0 < w) by (unfold w; lia).
    assert (Hi : i < h) by (unfold i; apply N.div_lt_upper_bound; lia).
    assert (Hj : j < w) by (unfold j; apply N.mod_lt; lia).
    specialize (Hget (fst s + i, snd s + j)).
    unfold in_rect, rect in Hget. rewrite Hemp in Hget. cbn [r_start r_end] in Hget.
    unfold in_box in Hget. cbn [fst snd] in Hget.
    unfold get_value in Hget. cbn [r_start r_end fst snd] in Hget.
    destruct s as [sr sc], e as [er ec]. cbn [fst snd] in *.
    assert (Hc : (sr <=? sr + i) && (sr + i <=? er) && (sc <=? sc + j) && (sc + j <=? ec) = true)
      by (unfold h, w in *; lia).
    rewrite Hc in Hget. unfold get, width, height in Hget. rewrite Hemp in Hget.
    cbn [r_start r_end r_inner fst snd] in Hget. fold h w in Hget.
    replace (sr + i - sr) with i in Hget by lia. replace (sc + j - sc) with j in Hget by lia.
    destruct ((w <=? j) || (h <=? i)) eqn:Eb; [lia|].
    replace (N.to_nat (i * w + j)) with k in Hget; [exact Hget|].
    unfold i, j. pose proof (N.div_mod (N.of_nat k) w). lia.
  - assert (H1 : nth_error inner k = None) by (apply nth_error_None; lia).
    assert (H2 : nth_error (range_cells d s e L) k = None).
    { apply nth_error_None. rewrite range_cells_length. fold h w. lia. }
    rewrite H1, H2. reflexivity.
Qed.

Lemma grid_bbox_bounds : forall L : list (pos * T), Forall (@in_grid T) L ->
  (forall c, In c L -> fst (fst c) <= U32MAX /\ snd (fst c) <= U32MAX) /\
  match tight_bbox (map fst L) with
  | None => True
  | Some (s, e) => box_in_grid (s, e)
  end.
Proof.
  intros L Hg. split.
  - intros c Hc. rewrite Forall_forall in Hg. destruct (Hg c Hc). unfold U32MAX. lia.
  - destruct L as [|c0 L0]; [exact I|]. cbn [map].
    assert (HgP : Forall (fun p => fst p < 1048576 /\ snd p < 16384) (map fst (c0 :: L0)))
      by (apply Forall_map; exact Hg).
    cbn [map] in HgP. destruct (tight_bbox_grid HgP) as (s & e & -> & B). exact B.
Qed.

Lemma from_sparse_range_of : forall L : list (pos * T),
  sorted_by_row L -> Forall (@in_grid T) L ->
  from_sparse d L = Ok (range_of d L).
Proof.
  intros L Hs Hg. apply range_of_from_spec; [exact Hg|].
  apply from_sparse_spec. cbn [pre]. destruct (grid_bbox_bounds Hg) as [G1 G2].
  split; [exact Hs|]. split; [exact G1|].
  destruct (tight_bbox (map fst L)) as [[s e]|]; [|exact I].
  unfold box_in_grid in G2. unfold U32MAX. cbn [fst snd] in *. lia.
Qed.

(* Range::from_sparse after commit 3140dd1 takes the row bounds as min / max over all cells: the
   order of the cells no longer matters *)
Lemma from_sparse_range_of_any_order : forall L : list (pos * T),
  Forall (@in_grid T) L -> from_sparse d L = Ok (range_of d L).
Proof.
  intros L Hg. apply range_of_from_spec; [exact Hg|].
  apply from_sparse_spec_unsorted. destruct (grid_bbox_bounds Hg) as [G1 G2].
  split; [exact G1|].
  destruct (tight_bbox (map fst L)) as [[s e]|]; [|exact I].
  unfold box_in_grid in G2. unfold box_cells, U64MAX. cbn [fst snd] in *. nia.
Qed.

End FromSparse.

Lemma sorted_by_rowb_spec : forall L : list cellr, sorted_by_rowb L = true -> sorted_by_row L.
Proof.
  induction L as [|c L IH]; intros H; [exact I|].
  cbn [sorted_by_rowb] in H. cbn [sorted_by_row]. destruct L as [|c' L'].
  - split; exact I.
  - apply andb_true_iff in H as [H1 H2]. split; [lia|apply IH, H2].
Qed.

(* Data::from commutes with the expected range *)
Lemma last_write_map : forall (A B : Type) (g : A -> B) (dA : A) (L : list (pos * A)) q acc,
  fold_left (fun a c => if pos_eqb (fst c) q then snd c else a)
            (map (fun c => (fst c, g (snd c))) L) (g acc) =
  g (fold_left (fun a c => if pos_eqb (fst c) q then snd c else a) L acc).
Proof.
  intros A B g dA L q. induction L as [|c L IH]; intros acc; [reflexivity|].
  cbn [map fold_left fst snd]. destruct (pos_eqb (fst c) q); apply IH.
Qed.

Lemma range_of_map : forall (A B : Type) (g : A -> B) (dA : A) (L : list (pos * A)),
  map_range g (range_of dA L) = range_of (g dA) (map (fun c => (fst c, g (snd c))) L).
Proof.
  intros A B g dA L. unfold range_of. rewrite map_map. cbn [fst].
  destruct (tight_bbox (map (fun x => fst x) L)) as [[s e]|]; [|reflexivity].
  unfold map_range. cbn [r_start r_end r_inner]. f_equal.
  unfold range_cells. cbv zeta. rewrite tabulate_map. apply tabulate_ext. intros i.
  unfold last_write. symmetry. apply last_write_map. exact dA.
Qed.

(* ================= C03_xlsb_sheet_main ================= *)
Section Main.
Variable fdiv100 : N -> N.
Variable en : env.

Ltac lia := try clear fdiv100; try clear en; Lia.lia.

Lemma denote_grid : forall items row prev, forallb (wf_item en) items = true ->
  shorts_placed prev items = true -> row < 1048576 ->
  Forall (@in_grid dref) (denote fdiv100 en row prev items).
Proof.
  induction items as [|[fr it] items IH]; intros row prev H Hsp Hr; [constructor|].
  cbn [forallb] in H. apply andb_true_iff in H as [Hx H]. unfold wf_item in Hx. cbn [fst snd] in Hx.
  apply andb_true_iff in Hx as [_ Hx].
  destruct it as [r tail|col style fl v tail|style fl v tail|id body]; cbn [denote shorts_placed] in *.
  - apply IH; [exact H|exact Hsp|lia].
  - destruct (cval_data fdiv100 en style v); [|apply IH; assumption].
    constructor; [|apply IH; assumption]. unfold in_grid. cbn [fst snd]. lia.
  - destruct prev as [p|]; [|discriminate Hsp]. apply andb_true_iff in Hsp as [Hp Hsp].
    destruct (cval_data fdiv100 en style v); [|apply IH; assumption].
    constructor; [|apply IH; assumption]. unfold in_grid. cbn [fst snd]. lia.
  - apply IH; assumption.
Qed.

Lemma wf_layout_items : forall c, wf_layout en c = true ->
  forallb (wf_item en) (l_items c) = true /\ shorts_placed None (l_items c) = true.
Proof.
  intros c Hwf. unfold wf_layout in Hwf.
  apply andb_true_iff in Hwf as [Hwf _]. apply andb_true_iff in Hwf as [Hwf Hsp].
  apply andb_true_iff in Hwf as [Hwf _]. apply andb_true_iff in Hwf as [_ Hit].
  split; assumption.
Qed.

(* for every logical sheet and every legal encoding of it outside the known class, the model of
   worksheet_range_ref returns the expected range *)
Theorem xlsb_sheet_main : forall L c,
  legal fdiv100 en c L ->
  worksheet_range_ref fdiv100 en FirstNonEmptyRow (encode_sheet c) = Ok (range_of (RVal DEmpty) L).
Proof.
  intros L c (Hwf & HL & Hs). unfold worksheet_range_ref.
  rewrite sheet_cells_encode by assumption. cbn [obind lazy_cells]. rewrite HL.
  apply from_sparse_range_of; [apply sorted_by_rowb_spec, Hs|].
  rewrite <- HL. unfold logical. destruct (wf_layout_items _ Hwf) as [Hit Hsp].
  apply denote_grid; [exact Hit|exact Hsp|lia].
Qed.

(* what "range_of L" means, spelled out: tight bounding box of the cells, every cell at its
   absolute position (the last record wins), Empty elsewhere inside, nothing outside *)
Theorem xlsb_sheet_values : forall L c,
  legal fdiv100 en c L ->
  exists r, worksheet_range_ref fdiv100 en FirstNonEmptyRow (encode_sheet c) = Ok r /\ Wf r /\
    rect r = tight_bbox (map fst L) /\
    forall q, get_value r q = if in_rect r q then Some (last_write (RVal DEmpty) L q) else None.
Proof.
  intros L c (Hwf & HL & Hs). unfold worksheet_range_ref.
  rewrite sheet_cells_encode by assumption. cbn [obind lazy_cells]. rewrite HL.
  apply from_sparse_spec. cbn [pre].
  assert (Hg : Forall (@in_grid dref) L).
  { rewrite <- HL. unfold logical. destruct (wf_layout_items _ Hwf) as [Hit Hsp].
    apply denote_grid; [exact Hit|exact Hsp|lia]. }
  split; [apply sorted_by_rowb_spec, Hs|]. split.
  - intros x Hx. rewrite Forall_forall in Hg. destruct (Hg x Hx). unfold U32MAX. lia.
  - destruct L as [|c0 L0]; [exact I|]. cbn [map].
    assert (HgP : Forall (fun p => fst p < 1048576 /\ snd p < 16384) (map fst (c0 :: L0)))
      by (apply Forall_map; exact Hg).
    cbn [map] in HgP. destruct (tight_bbox_grid HgP) as (s & e & -> & B).
    unfold box_in_grid in B. unfold U32MAX. cbn [fst snd] in *. lia.
Qed.

(* Reader::worksheet_range: the same with SharedString turned into String *)
Theorem xlsb_sheet_main_data : forall L c,
  legal fdiv100 en c L ->
  worksheet_range fdiv100 en FirstNonEmptyRow (encode_sheet c) =
    Ok (range_of DEmpty (map (fun x => (fst x, to_data (snd x))) L)).
Proof.
  intros L c HL. unfold worksheet_range. rewrite (xlsb_sheet_main HL). cbn [obind].
  f_equal. apply (range_of_map to_data (RVal DEmpty)).
Qed.

(* on HEAD the rows need not even be in order: every well-formed layout reads back as the range
   of its logical cells *)
Theorem xlsb_sheet_main_any_order : forall c,
  wf_layout en c = true ->
  worksheet_range_ref fdiv100 en FirstNonEmptyRow (encode_sheet c) =
    Ok (range_of (RVal DEmpty) (logical fdiv100 en c)).
Proof.
  intros c Hwf. unfold worksheet_range_ref.
  rewrite sheet_cells_encode by assumption. cbn [obind lazy_cells].
  apply from_sparse_range_of_any_order.
  unfold logical. destruct (wf_layout_items _ Hwf) as [Hit Hsp].
  apply denote_grid; [exact Hit|exact Hsp|lia].
Qed.

(* the layout-level reading of "ignorable records never shift or drop cells": an ignorable
   record inserted anywhere in the cell table of a legal layout gives a legal layout of the
   same logical sheet *)
Lemma denote_insert : forall a b row prev fr id body,
  denote fdiv100 en row prev (a ++ (fr, IOther id body) :: b) = denote fdiv100 en row prev (a ++ b).
Proof.
  induction a as [|[fa ia] a IH]; intros b row prev fr id body; [reflexivity|].
  cbn [app denote]. destruct ia as [r t|col style fl v t|style fl v t|i bd].
  - apply IH.
  - destruct (cval_data fdiv100 en style v); [f_equal|]; apply IH.
  - destruct prev as [p|]; [|apply IH].
    destruct (cval_data fdiv100 en style v); [f_equal|]; apply IH.
  - apply IH.
Qed.

(* ... and stays legal: the inserted record moves no short cell *)
Lemma shorts_placed_insert : forall a b prev fr id body,
  shorts_placed prev (a ++ (fr, IOther id body) :: b) = shorts_placed prev (a ++ b).
Proof.
  induction a as [|[fa ia] a IH]; intros b prev fr id body; [reflexivity|].
  cbn [app shorts_placed]. destruct ia as [r t|col style fl v t|style fl v t|i bd]; try apply IH.
  destruct prev as [p|]; [|reflexivity]. rewrite IH. reflexivity.
Qed.

End Main.

(* ================= read_shared_strings ================= *)
Lemma sst_item_loop : forall items F rest buf,
  forallb wf_sst_item items = true -> (length items <= F)%nat -> lenN items < 4294967296 ->
  sst_items F (lenN items) (flat_map enc_sst_item items ++ rest) buf = Ok (sst_strings items).
Proof.
  induction items as [|x items IH]; intros F rest buf Hwf HF Hn.
  - destruct F; reflexivity.
  - cbn [forallb] in Hwf. apply andb_true_iff in Hwf as [Hx Hwf].
    destruct F as [|f]; [cbn [length] in HF; lia|]. cbn [length] in HF.
    rewrite lenN_cons in *. cbn [sst_items].
    destruct (1 + lenN items =? 0) eqn:E; [lia|].
    cbn [flat_map]. rewrite <- app_assoc.
    destruct x as [[fr s] tail]. unfold wf_sst_item in Hx. cbn [fst snd] in Hx.
    apply andb_true_iff in Hx as [Hx Hl]. apply andb_true_iff in Hx as [Hf Hs].
    unfold enc_sst_item at 1. cbn [fst snd].
    rewrite nsb_found by exact Hf. cbn [obind fst snd].
    rewrite check_ok by (cbn [app]; rewrite lenN_cons; lia). cbn [obind].
    cbn [app]. rewrite <- app_assoc.
    rewrite wide_str_roundtrip; [|apply forallb_scalar, Hs|unfold U32MAX; lia].
    cbn [obind fst snd].
    replace (1 + lenN items - 1) with (lenN items) by lia.
    rewrite IH; [reflexivity|exact Hwf|lia|lia].
Qed.

Theorem sst_roundtrip : forall total items trailer,
  total < 4294967296 -> lenN items < 4294967296 -> forallb wf_sst_item items = true ->
  read_shared_strings (Some (encode_sst total items trailer)) = Ok (sst_strings items).
Proof.
  intros total items trailer Ht Hn Hwf. unfold read_shared_strings, encode_sst.
  set (body := le_bytes 4 total ++ le_bytes 4 (lenN items)).
  assert (Hb : wf_frame (mkFrm true 0) 159 body = true).
  { unfold wf_frame, body. cbn [f_wide f_lenb]. rewrite lenN_app, !lenN_le. reflexivity. }
  cbv zeta. rewrite nsb_found by exact Hb. cbn [obind fst snd].
  rewrite lenN_nil.
  assert (Hlb : lenN body = 8) by (unfold body; rewrite lenN_app, !lenN_le; reflexivity).
  rewrite Hlb. change (0 <? 8) with true. cbv iota. rewrite app_nil_r, Hlb.
  rewrite check_ok by lia. cbn [obind].
  change (8 <? 8) with false. cbv iota.
  assert (Hrd : rd 4 4 body = lenN items).
  { unfold body. rewrite rd_app_skip by apply le_bytes_length.
    rewrite <- (app_nil_r (le_bytes 4 (lenN items))). apply rd4. exact Hn. }
  rewrite Hrd.
  apply sst_item_loop; [exact Hwf| |exact Hn].
  pose proof (frame_length_pos (mkFrm true 0) 159 body). rewrite !app_length.
  assert (length items <= length (flat_map enc_sst_item items))%nat; [|lia].
  clear. induction items as [|x items IH]; [cbn; lia|]. cbn [flat_map length].
  rewrite app_length. unfold enc_sst_item at 1.
  pose proof (frame_length_pos (fst (fst x)) 19 ([0] ++ enc_wide (snd (fst x)) ++ snd x)). lia.
Qed.

(* the shared strings and one sheet of a workbook together *)
Theorem xlsb_workbook_main : forall fdiv100 formats is1904 total items trailer L c,
  total < 4294967296 -> lenN items < 4294967296 -> forallb wf_sst_item items = true ->
  legal fdiv100 (mkEnv formats is1904 (sst_strings items)) c L ->
  workbook_range_ref fdiv100 formats is1904 (Some (encode_sst total items trailer))
                     FirstNonEmptyRow (encode_sheet c) = Ok (range_of (RVal DEmpty) L).
Proof.
  intros fdiv100 formats is1904 total items trailer L c Ht Hn Hwf HL.
  unfold workbook_range_ref. rewrite sst_roundtrip by assumption. cbn [obind].
  apply xlsb_sheet_main; assumption.
Qed.

(* ================= the known class, examples ================= *)
Definition fr1 : frm := mkFrm false 0.
Definition fr2 : frm := mkFrm true 1.

(* a worksheet part without BrtWsDim (the former known class): legal, and read correctly *)
Definition nodim_layout : layout :=
  mkLayout [HRec (fr2, 129, [])] None [] (fr2, [])
           [(fr1, IRow 0 []); (fr1, ICell 0 0 0 (VBool true) [])] (fr2, []) [].
Definition empty_env : env := mkEnv [] false [].

Lemma nodim_legal : forall fdiv100,
  legal fdiv100 empty_env nodim_layout [((0, 0), RVal (DBool true))] /\
  l_dim nodim_layout = None.
Proof. intros. split; [split; [|split]|]; vm_compute; reflexivity. Qed.

(* a layout with every record kind — long, formula and short cell records, a run of short
   records after a cell, across a record outside the cell grammar and after a blank cell —, both
   id forms, padded lengths, a block, a wrong BrtWsDim *)
Definition example_env : env := mkEnv [FOther; FDateTime; FTimeDelta] false [[97; 98]; [99]].
Definition example_layout : layout :=
  mkLayout [HRec (fr2, 129, []); HRec (fr2, 147, [1; 2; 3])]
           (Some (fr2, ((0, 0), (5, 5)), []))
           [HRec (fr2, 485, [1; 2]);
            HBlock (fr2, 133, []) [(fr2, 137, [0; 0]); (fr2, 145, [])] (fr2, [])]
           (fr2, [])
           [(fr1, IRow 2 [0; 0; 0; 0]); (fr1, ICell 3 0 0 (VRk (RkI (-5) false)) []);
            (fr1, IShort 1 0 (VReal 4607182418800017408) []);
            (mkFrm true 3, IOther 1025 [3; 0; 0; 0; 0; 0; 0; 0]);
            (fr1, IShort 0 0 (VSt [104; 105; 128512]) []);
            (fr1, IShort 0 0 VBlank []);
            (fr2, IShort 0 1 (VIsst 0) [7]);
            (fr1, IShort 0 0 (VBool true) []);
            (mkFrm false 1, IShort 2 0 (VRk (RkI 314 true)) []);
            (fr1, IShort 0 0 (VErr ENum) []);
            (fr1, ICell 20 0 0 VBlank []); (fr1, IShort 0 0 (VBool false) []);
            (fr2, IOther 1025 [1; 2; 3]);
            (fr1, IRow 4 []);
            (fr1, IRow 7 []); (fr1, ICell 1 0 0 (VIsst 1) []);
            (fr1, ICell 2 0 0 (VFmlaErr ENA) [0; 0; 3; 0; 0; 0; 1; 2; 3]);
            (fr1, IShort 1 0 (VRk (RkF 268304384 false)) []);
            (mkFrm false 2, ICell 9 0 0 (VFmlaBool true) [0; 0]);
            (fr1, ICell 10 2 0 (VRk (RkI 314 true)) []);
            (fr1, ICell 11 0 0 (VFmlaNum 4613937818241073152) [0; 0]);
            (fr1, ICell 12 0 0 (VFmlaStr [120]) [0; 0]);
            (fr1, ICell 13 0 0 (VErr EDiv0) []); (fr1, ICell 14 0 0 VBlank []);
            (fr1, ICell 16382 0 0 (VBool false) []); (fr1, IShort 0 0 (VReal 0) [])]
           (fr2, []) [130; 1; 0].

Lemma example_legal : forall fdiv100,
  legal fdiv100 example_env example_layout (logical fdiv100 example_env example_layout) /\
  l_dim example_layout <> None /\
  map fst (logical fdiv100 example_env example_layout) =
    [(2, 3); (2, 4); (2, 5); (2, 7); (2, 8); (2, 9); (2, 10); (2, 21);
     (7, 1); (7, 2); (7, 3); (7, 9); (7, 10); (7, 11); (7, 12); (7, 13); (7, 16382); (7, 16383)].
Proof. intros. split; [split; [|split]|split]; vm_compute; try reflexivity; discriminate. Qed.

(* the short records of the example: each stands right of the previous cell record of its row *)
Lemma example_short_cells : forall fdiv100,
  nth_error (logical fdiv100 example_env example_layout) 1 =
    Some ((2, 4), RVal (DDateTime 4607182418800017408 false false)) /\
  nth_error (logical fdiv100 example_env example_layout) 3 = Some ((2, 7), RShared [97; 98]) /\
  nth_error (logical fdiv100 example_env example_layout) 7 = Some ((2, 21), RVal (DBool false)).
Proof. intros. repeat split; vm_compute; reflexivity. Qed.

(* a short record without a cell before it in its row, or running off the sheet, is not legal *)
Lemma short_needs_cell :
  shorts_placed None [(fr1, IRow 0 []); (fr1, IShort 0 0 (VBool true) [])] = false /\
  shorts_placed None [(fr1, IRow 0 []); (fr1, ICell 16383 0 0 (VBool true) []);
                      (fr1, IShort 0 0 (VBool true) [])] = false /\
  shorts_placed None [(fr1, IRow 0 []); (fr1, ICell 0 0 0 (VBool true) []); (fr1, IRow 1 []);
                      (fr1, IShort 0 0 (VBool true) [])] = false.
Proof. repeat split; reflexivity. Qed.

Lemma example_sst :
  forallb wf_sst_item [(fr1, [97; 98], []); (fr2, [99], [1; 2])] = true /\
  sst_strings [(fr1, [97; 98], []); (fr2, [99], [1; 2])] = e_strings example_env.
Proof. split; vm_compute; reflexivity. Qed.

(* ================= totality: no panic, and the stated fuel suffices (C06) ================= *)
(* every framing step consumes at least one byte and delivers at least the announced bytes *)
Lemma skip_until_clean : forall f e s buf, (length s < f)%nat -> clean (skip_until f e s buf).
Proof.
  induction f as [|f IH]; intros e s buf H; [lia|]. cbn [skip_until].
  destruct (read_type_clean s) as [T1 T2].
  destruct (read_type s) as [[t s1]| | |] eqn:E1; cbn [obind fst snd]; try apply clean_err; try congruence.
  apply read_type_len in E1.
  destruct (fill_buffer_clean s1 buf) as [F1 F2].
  destruct (fill_buffer s1 buf) as [[[l b] r]| | |] eqn:E2; cbn [obind fst snd];
    try apply clean_err; try congruence.
  apply fill_buffer_len in E2.
  destruct (t =? e); [apply clean_ok|]. apply IH. lia.
Qed.

Lemma skip_until_len : forall f e s buf b r,
  skip_until f e s buf = Ok (b, r) -> (length r < length s)%nat.
Proof.
  induction f as [|f IH]; intros e s buf b r H; [discriminate|]. cbn [skip_until] in H.
  destruct (read_type s) as [[t s1]| | |] eqn:E1; cbn [obind fst snd] in H; try discriminate.
  apply read_type_len in E1.
  destruct (fill_buffer s1 buf) as [[[l b1] r1]| | |] eqn:E2; cbn [obind fst snd] in H; try discriminate.
  apply fill_buffer_len in E2.
  destruct (t =? e).
  - inversion H; subst. lia.
  - apply IH in H. lia.
Qed.

Lemma nsb_clean : forall f rt bounds s buf, (length s < f)%nat ->
  clean (next_skip_blocks f rt bounds s buf).
Proof.
  induction f as [|f IH]; intros rt bounds s buf H; [lia|]. cbn [next_skip_blocks].
  destruct (read_type_clean s) as [T1 T2].
  destruct (read_type s) as [[t s1]| | |] eqn:E1; cbn [obind fst snd]; try apply clean_err; try congruence.
  apply read_type_len in E1.
  destruct (fill_buffer_clean s1 buf) as [F1 F2].
  destruct (fill_buffer s1 buf) as [[[l b] r]| | |] eqn:E2; cbn [obind fst snd];
    try apply clean_err; try congruence.
  apply fill_buffer_len in E2.
  destruct (t =? rt); [apply clean_ok|].
  destruct (find_bound bounds t) as [e|].
  - destruct (@skip_until_clean f e r b ltac:(lia)) as [S1 S2].
    destruct (skip_until f e r b) as [[b2 r2]| | |] eqn:E3; cbn [obind fst snd];
      try apply clean_err; try congruence.
    apply skip_until_len in E3. apply IH. lia.
  - apply IH. lia.
Qed.

Lemma nsb_ok : forall f rt bounds s buf l b r,
  next_skip_blocks f rt bounds s buf = Ok (l, b, r) -> (length r < length s)%nat /\ l <= lenN b.
Proof.
  induction f as [|f IH]; intros rt bounds s buf l b r H; [discriminate|]. cbn [next_skip_blocks] in H.
  destruct (read_type s) as [[t s1]| | |] eqn:E1; cbn [obind fst snd] in H; try discriminate.
  apply read_type_len in E1.
  destruct (fill_buffer s1 buf) as [[[l1 b1] r1]| | |] eqn:E2; cbn [obind fst snd] in H; try discriminate.
  pose proof (fill_buffer_buf _ _ E2) as Hb. apply fill_buffer_len in E2.
  destruct (t =? rt).
  - inversion H; subst. split; [lia|exact Hb].
  - destruct (find_bound bounds t) as [e|].
    + destruct (skip_until f e r1 b1) as [[b2 r2]| | |] eqn:E3; cbn [obind fst snd] in H; try discriminate.
      apply skip_until_len in E3. apply IH in H. destruct H. split; [lia|assumption].
    + apply IH in H. destruct H. split; [lia|assumption].
Qed.

(* C03_no_panic_framing: on every byte string and every buffer state the framing layer returns a
   value or an error — never a panic; the fuelled loops never run out of fuel once the fuel
   exceeds the number of bytes *)
Theorem no_panic_framing :
  (forall s, clean (read_type s)) /\
  (forall s buf, clean (fill_buffer s buf)) /\
  (forall s, clean (next_record s)) /\
  (forall f e s buf, (length s < f)%nat -> clean (skip_until f e s buf)) /\
  (forall f rt bounds s buf, (length s < f)%nat -> clean (next_skip_blocks f rt bounds s buf)).
Proof.
  split; [exact read_type_clean|]. split; [exact fill_buffer_clean|].
  split; [exact next_record_clean|]. split; [exact skip_until_clean|exact nsb_clean].
Qed.


Lemma scan_header_clean : forall f s buf dims, (length s < f)%nat ->
  clean (scan_header f s buf dims).
Proof.
  induction f as [|f IH]; intros s buf dims H; [lia|]. cbn [scan_header].
  destruct (read_type_clean s) as [T1 T2].
  destruct (read_type s) as [[t s1]| | |] eqn:E1; cbn [obind fst snd]; try apply clean_err; try congruence.
  apply read_type_len in E1.
  destruct (fill_buffer_clean s1 buf) as [F1 F2].
  destruct (fill_buffer s1 buf) as [[[l b] r]| | |] eqn:E2; cbn [obind fst snd];
    try apply clean_err; try congruence.
  pose proof (fill_buffer_buf _ _ E2) as Hb. apply fill_buffer_len in E2.
  destruct (t =? 145); [apply clean_ok|].
  destruct ((t =? 148) && match dims with None => true | Some _ => false end).
  - unfold check_len. destruct (l <? 16) eqn:E16; cbn [obind]; [apply clean_err|].
    unfold parse_dims. destruct (lenN b <? 16) eqn:Eb; [lia|]. cbn [obind]. apply IH. lia.
  - destruct (find_bound BOUNDS2 t) as [e|].
    + destruct (@skip_until_clean f e r b ltac:(lia)) as [S1 S2].
      destruct (skip_until f e r b) as [[b2 r2]| | |] eqn:E3; cbn [obind fst snd];
        try apply clean_err; try congruence.
      apply skip_until_len in E3. apply IH. lia.
    + apply IH. lia.
Qed.

Lemma scan_header_len : forall f s buf dims d r,
  scan_header f s buf dims = Ok (d, r) -> (length r < length s)%nat.
Proof.
  induction f as [|f IH]; intros s buf dims d r H; [discriminate|]. cbn [scan_header] in H.
  destruct (read_type s) as [[t s1]| | |] eqn:E1; cbn [obind fst snd] in H; try discriminate.
  apply read_type_len in E1.
  destruct (fill_buffer s1 buf) as [[[l1 b1] r1]| | |] eqn:E2; cbn [obind fst snd] in H; try discriminate.
  apply fill_buffer_len in E2.
  destruct (t =? 145).
  - inversion H; subst. lia.
  - destruct ((t =? 148) && match dims with None => true | Some _ => false end).
    + destruct (check_len l1 16); cbn [obind] in H; try discriminate.
      destruct (parse_dims b1); cbn [obind] in H; try discriminate.
      apply IH in H. lia.
    + destruct (find_bound BOUNDS2 t) as [e|].
      * destruct (skip_until f e r1 b1) as [[b2 r2]| | |] eqn:E3; cbn [obind fst snd] in H; try discriminate.
        apply skip_until_len in E3. apply IH in H. lia.
      * apply IH in H. lia.
Qed.

Lemma reader_new_clean : forall F s, (length s < F)%nat -> clean (reader_new F s).
Proof.
  intros F s H. unfold reader_new.
  destruct (@scan_header_clean F s [] None H) as [A1 A2].
  destruct (scan_header F s [] None) as [[d r]| | |]; cbn [obind fst snd];
    try apply clean_err; try apply clean_ok; congruence.
Qed.

Lemma reader_new_len : forall F s d r, reader_new F s = Ok (d, r) -> (length r < length s)%nat.
Proof.
  intros F s d r H. unfold reader_new in H.
  destruct (scan_header F s [] None) as [[d1 r1]| | |] eqn:E; cbn [obind fst snd] in H; try discriminate.
  apply scan_header_len in E. inversion H; subst. exact E.
Qed.

(* the header scan of XlsbCellsReader::new *)
Theorem no_panic_header : forall f s buf dims, (length s < f)%nat ->
  clean (scan_header f s buf dims).
Proof. intros f s buf dims H. apply scan_header_clean. exact H. Qed.

(* C03_no_panic_reader: for every byte string whatsoever, every style table and string table,
   the model of worksheet_cells_reader + next_cell* (and of the cell list worksheet_range_ref
   builds its range from) returns cells or an error: no panic, and the fuel it is given (length of
   the part + 1) is never exhausted *)
Theorem no_panic_reader : forall fdiv100 en s,
  clean (reader_cells fdiv100 en s) /\ clean (sheet_cells fdiv100 en s).
Proof.
  intros fdiv100 en s.
  assert (C : clean (reader_cells fdiv100 en s)).
  { unfold reader_cells. cbv zeta.
    destruct (@reader_new_clean (S (length s)) s ltac:(lia)) as [R1 R2].
    destruct (reader_new (S (length s)) s) as [[d r]| | |] eqn:E; cbn [obind fst snd];
      try apply clean_err; try congruence.
    apply reader_new_len in E. apply cells_loop_clean. lia. }
  split; exact C.
Qed.

(* the shared string table *)
Lemma sst_items_clean : forall fuel count s buf, (length s < fuel)%nat ->
  clean (sst_items fuel count s buf).
Proof.
  induction fuel as [|f IH]; intros count s buf H; [lia|]. cbn [sst_items].
  destruct (count =? 0); [apply clean_ok|].
  destruct (@nsb_clean (S f) 19 [(35, Some 36)] s buf H) as [A1 A2].
  destruct (next_skip_blocks (S f) 19 [(35, Some 36)] s buf) as [[[l b] r]| | |] eqn:E1;
    cbn [obind fst snd]; try apply clean_err; try congruence.
  apply nsb_ok in E1 as [Hr Hl].
  unfold check_len. destruct (l <? 1) eqn:E; cbn [obind]; [apply clean_err|].
  destruct b as [|x tl]; [rewrite lenN_nil in Hl; lia|].
  destruct (wide_str_clean tl) as [W1 W2].
  destruct (wide_str tl) as [w| | |]; cbn [obind]; try apply clean_err; try congruence.
  destruct (IH (count - 1) r (x :: tl) ltac:(lia)) as [I1 I2].
  destruct (sst_items f (count - 1) r (x :: tl)); cbn [obind];
    try apply clean_err; try apply clean_ok; congruence.
Qed.

Theorem no_panic_sst : forall part, clean (read_shared_strings part).
Proof.
  intros [s|]; [|apply clean_ok]. unfold read_shared_strings. cbv zeta.
  destruct (@nsb_clean (S (length s)) 159 [] s [] ltac:(lia)) as [A1 A2].
  destruct (next_skip_blocks (S (length s)) 159 [] s []) as [[[l b] r]| | |] eqn:E1;
    cbn [obind fst snd]; try apply clean_err; try congruence.
  apply nsb_ok in E1 as [Hr Hl].
  unfold check_len. destruct (l <? 8) eqn:E; cbn [obind]; [apply clean_err|].
  destruct (lenN b <? 8) eqn:Eb; [lia|]. apply sst_items_clean. lia.
Qed.

(* the whole of worksheet_range_ref / worksheet_range, header-row option included: no panic and no
   fuel exhaustion on any byte string (Range::from_sparse is total since commit 3140dd1) *)
Theorem no_panic_range_ref : forall fdiv100 en h s,
  clean (worksheet_range_ref fdiv100 en h s) /\ clean (worksheet_range fdiv100 en h s).
Proof.
  intros fdiv100 en h s.
  assert (C : clean (worksheet_range_ref fdiv100 en h s)).
  { unfold worksheet_range_ref. destruct (no_panic_reader fdiv100 en s) as [_ [S1 S2]].
    destruct (sheet_cells fdiv100 en s) as [cells| | |]; cbn [obind]; try apply clean_err; try congruence.
    destruct (from_sparse_total (RVal DEmpty) (lazy_cells (RVal DEmpty) h cells)) as (r & Hr & _).
    rewrite Hr. apply clean_ok. }
  split; [exact C|]. unfold worksheet_range. destruct C as [C1 C2].
  destruct (worksheet_range_ref fdiv100 en h s); cbn [obind];
    try apply clean_err; try apply clean_ok; congruence.
Qed.

Theorem no_panic_workbook : forall fdiv100 formats is1904 sst h sheet,
  clean (workbook_range_ref fdiv100 formats is1904 sst h sheet).
Proof.
  intros. unfold workbook_range_ref. destruct (no_panic_sst sst) as [S1 S2].
  destruct (read_shared_strings sst) as [strings| | |]; cbn [obind]; try apply clean_err; try congruence.
  apply no_panic_range_ref.
Qed.
