(* FormulaPos_proofs — C14, "formulas are reported at their cell": a corollary of the Range model.
   Every reader builds the formula range with Range::from_sparse(formulas), formulas being the
   (position, text) cells in file order (xls.rs parse_workbook 0x0006, xlsb/xlsx cells_reader
   next_formula, ods read_row).  Given what from_sparse does (Range_proofs.from_sparse_spec), each
   formula text sits at its absolute position and every other cell of the rectangle is the default
   (the empty string). *)
From Calamine Require Import Prelude Range Range_spec Range_proofs.
Open Scope N_scope.
Set Implicit Arguments.

Section FormulaPositions.
Variable T : Type.
Variable d : T.

Lemma fold_write_notin : forall (cs : list (pos * T)) q acc, ~ In q (map fst cs) ->
  fold_left (fun acc c => if pos_eqb (fst c) q then snd c else acc) cs acc = acc.
Proof.
  induction cs as [|c cs IH]; intros q acc H; [reflexivity|].
  cbn [fold_left]. cbn [map] in H.
  destruct (pos_eqb (fst c) q) eqn:E.
  - apply pos_eqb_true in E. exfalso. apply H. left. exact E.
  - apply IH. intros Hin. apply H. right. exact Hin.
Qed.

Lemma last_write_notin : forall (cs : list (pos * T)) q, ~ In q (map fst cs) -> last_write d cs q = d.
Proof. intros cs q H. unfold last_write. apply fold_write_notin. exact H. Qed.

Lemma last_write_in : forall (cs : list (pos * T)) p t,
  NoDup (map fst cs) -> In (p, t) cs -> last_write d cs p = t.
Proof.
  intros cs p t Hnd Hin. apply in_split in Hin. destruct Hin as (l1 & l2 & E). subst cs.
  unfold last_write. rewrite fold_left_app. cbn [fold_left fst snd].
  assert (Hpp : pos_eqb p p = true) by (apply pos_eqb_true; reflexivity). rewrite Hpp.
  apply fold_write_notin.
  rewrite map_app in Hnd. cbn [map fst] in Hnd. apply NoDup_remove_2 in Hnd.
  intros Hin. apply Hnd. apply in_or_app. right. exact Hin.
Qed.

Definition contains (b : pos * pos) (p : pos) : Prop := in_box (fst b) (snd b) p = true.

Lemma bbox_contains_new : forall b p, contains (bbox (Some b) p) p.
Proof.
  intros [[sr sc] [er ec]] [pr pc]. unfold contains, bbox, in_box. cbn [fst snd]. lia.
Qed.

Lemma bbox_contains_old : forall b p q, contains b q -> contains (bbox (Some b) p) q.
Proof.
  intros [[sr sc] [er ec]] [pr pc] [qr qc]. unfold contains, bbox, in_box. cbn [fst snd]. lia.
Qed.

Lemma fold_bbox_contains_acc : forall ps b q, contains b q ->
  contains (fold_left (fun b p => bbox (Some b) p) ps b) q.
Proof.
  induction ps as [|p ps IH]; intros b q H; [exact H|].
  cbn [fold_left]. apply IH. apply bbox_contains_old. exact H.
Qed.

Lemma fold_bbox_contains_in : forall ps b q, In q ps ->
  contains (fold_left (fun b p => bbox (Some b) p) ps b) q.
Proof.
  induction ps as [|p ps IH]; intros b q H; [contradiction|].
  cbn [fold_left]. destruct H as [H|H].
  - subst. apply fold_bbox_contains_acc. apply bbox_contains_new.
  - apply IH. exact H.
Qed.

Lemma tight_bbox_contains : forall ps p s e,
  In p ps -> tight_bbox ps = Some (s, e) -> in_box s e p = true.
Proof.
  intros ps p s e Hin Hb. destruct ps as [|p0 ps]; [contradiction|].
  assert (C : contains (fold_left (fun b p => bbox (Some b) p) ps (p0, p0)) p).
  { destruct Hin as [Hin|Hin].
    - subst. apply fold_bbox_contains_acc. destruct p as [pr pc]. unfold contains, in_box. cbn [fst snd]. lia.
    - apply fold_bbox_contains_in. exact Hin. }
  unfold tight_bbox in Hb.
  set (b := fold_left (fun b p => bbox (Some b) p) ps (p0, p0)) in *.
  injection Hb as Hb. unfold contains in C. rewrite Hb in C. exact C.
Qed.

(* the formula range: texts at their positions, the default everywhere else in the tight
   bounding box of the formula cells, nothing outside *)
Theorem sparse_positions : forall (cs : list (pos * T)),
  pre empty (OFromSparse cs) -> NoDup (map fst cs) ->
  exists r, from_sparse d cs = Ok r /\ rect r = tight_bbox (map fst cs) /\
    (forall p t, In (p, t) cs -> get_value r p = Some t) /\
    (forall q, in_rect r q = true -> ~ In q (map fst cs) -> get_value r q = Some d) /\
    (forall q, in_rect r q = false -> get_value r q = None).
Proof.
  intros cs Hpre Hnd.
  destruct (@from_sparse_spec T d cs Hpre) as (r & Hfs & _ & Hrect & Hget).
  exists r. split; [exact Hfs|]. split; [exact Hrect|]. split; [|split].
  - intros p t Hin. rewrite Hget.
    assert (Hr : in_rect r p = true).
    { unfold in_rect. rewrite Hrect.
      destruct (tight_bbox (map fst cs)) as [[s e]|] eqn:Eb.
      - apply (@tight_bbox_contains (map fst cs) p s e); [|exact Eb].
        change p with (fst (p, t)). apply in_map. exact Hin.
      - destruct cs; [contradiction|discriminate]. }
    rewrite Hr. f_equal. apply last_write_in; assumption.
  - intros q Hr Hnin. rewrite Hget, Hr. f_equal. apply last_write_notin. exact Hnin.
  - intros q Hr. rewrite Hget, Hr. reflexivity.
Qed.

End FormulaPositions.

(* C14 instance: cell type = formula text (String, default ""), as list of characters *)
Theorem formula_positions : forall (formulas : list (pos * list N)),
  pre empty (OFromSparse formulas) -> NoDup (map fst formulas) ->
  exists r, from_sparse [] formulas = Ok r /\ rect r = tight_bbox (map fst formulas) /\
    (forall p text, In (p, text) formulas -> get_value r p = Some text) /\
    (forall q, in_rect r q = true -> ~ In q (map fst formulas) -> get_value r q = Some []) /\
    (forall q, in_rect r q = false -> get_value r q = None).
Proof. intros formulas. apply sparse_positions. Qed.

Example formula_positions_nonvacuous :
  let fs := [((1, 2), [65; 49]); ((1, 5), [66; 50]); ((4, 0), [83; 85; 77; 40; 41])] in
  pre (@empty (list N)) (OFromSparse fs) /\ NoDup (map fst fs) /\
  exists r, from_sparse [] fs = Ok r /\ get_value r (4, 0) = Some [83; 85; 77; 40; 41] /\
            get_value r (2, 3) = Some [] /\ get_value r (0, 0) = None.
Proof.
  cbv zeta. split; [|split].
  - cbn. unfold U32MAX. repeat split; try lia; destruct H as [<-|[<-|[<-|[]]]]; cbn; lia.
  - cbn. repeat constructor; cbn; intuition congruence.
  - eexists. split; [vm_compute; reflexivity|]. vm_compute. repeat split.
Qed.
