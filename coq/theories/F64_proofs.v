(* F64_proofs: what the binary64 operations of F64.v mean, derived from Flocq's correctness
   theorems.  Two layers:
   - [int_val x n] (x is finite and its value is the integer n): of_Z, add, mul, round, abs,
     compare and the saturating casts are exact on integer-valued doubles as long as the result
     stays within 2^53 — this is what the whole-serial theorems of C11 use;
   - real-number semantics for finite results (add, mul: one rounding to nearest-even; round:
     nearest integer, ties away; compare: Rcompare), used for monotonicity and error bounds.
   Flocq brings in the four classical axioms of the standard library's real numbers. *)
From Calamine Require Import Prelude F64.
From Coq Require Import Reals Lra.
From Flocq Require Import Core.Core IEEE754.BinarySingleNaN IEEE754.Binary IEEE754.Bits.
Open Scope Z_scope.

Notation B2R64 := (Binary.B2R 53 1024).
Notation fexp64 := (FLT_exp (-1074) 53).
Notation rnd64 := (round radix2 fexp64 ZnearestE).

(* ---------- bit patterns ---------- *)
Lemma bits_of_f64_of_bits : forall b, 0 <= b < 2 ^ 64 -> bits_of_f64 (f64_of_bits b) = b.
Proof.
  intros b Hb. unfold f64_of_bits, bits_of_f64, b64_of_bits, bits_of_b64.
  exact (bits_of_binary_float_of_bits 52 11 eq_refl eq_refl eq_refl b Hb).
Qed.

Lemma f64_of_bits_of_f64 : forall x, f64_of_bits (bits_of_f64 x) = x.
Proof.
  intros x. unfold f64_of_bits, bits_of_f64, b64_of_bits, bits_of_b64.
  exact (binary_float_of_bits_of_binary_float 52 11 eq_refl eq_refl eq_refl x).
Qed.

Lemma bits_of_f64_range : forall x, 0 <= bits_of_f64 x < 2 ^ 64.
Proof.
  intros x. unfold bits_of_f64, bits_of_b64.
  exact (bits_of_binary_float_range 52 11 eq_refl eq_refl x).
Qed.

(* a finite double whose value is the integer n *)
Definition int_val (x : f64) (n : Z) : Prop := f64_is_finite x = true /\ B2R64 x = IZR n.

Lemma int_format : forall n, Z.abs n <= 2 ^ 53 -> generic_format radix2 fexp64 (IZR n).
Proof.
  intros n Hn.
  destruct (Z.eq_dec (Z.abs n) (2 ^ 53)) as [E|NE].
  - (* +-2^53 = +-1 * 2^53 *)
    apply generic_format_FLT. 
    apply (FLT_spec radix2 (-1074) 53 (IZR n) (Float radix2 (Z.sgn n) 53)).
    + unfold F2R. cbn [Fnum Fexp]. change (bpow radix2 53) with (IZR (2 ^ 53)).
      rewrite <- mult_IZR. f_equal. lia.
    + cbn [Fnum]. change (Zpower radix2 53) with (2 ^ 53). lia.
    + cbn [Fexp]. lia.
  - apply generic_format_FLT.
    apply (FLT_spec radix2 (-1074) 53 (IZR n) (Float radix2 n 0)).
    + unfold F2R. cbn [Fnum Fexp]. simpl bpow. lra.
    + cbn [Fnum]. change (Zpower radix2 53) with (2 ^ 53). lia.
    + cbn [Fexp]. lia.
Qed.

Lemma int_no_overflow : forall n, Z.abs n <= 2 ^ 53 ->
  Rlt_bool (Rabs (IZR n)) (bpow radix2 1024) = true.
Proof.
  intros n Hn. apply Rlt_bool_true. rewrite <- abs_IZR.
  change (bpow radix2 1024) with (IZR (2 ^ 1024)). apply IZR_lt.
  assert (2 ^ 53 < 2 ^ 1024) by (apply Z.pow_lt_mono_r; lia). lia.
Qed.

Lemma f64_of_Z_int : forall n, Z.abs n <= 2 ^ 53 -> int_val (f64_of_Z n) n.
Proof.
  intros n Hn. unfold f64_of_Z, int_val, f64_is_finite.
  pose proof (Binary.binary_normalize_correct 53 1024 f64_prec_gt_0 f64_prec_lt_emax mode_NE n 0 false) as H.
  assert (HF : F2R (Float radix2 n 0) = IZR n) by (unfold F2R; cbn [Fnum Fexp]; simpl bpow; lra).
  rewrite HF in H. cbn [round_mode] in H.
  change (SpecFloat.fexp 53 1024) with fexp64 in H.
  rewrite (round_generic radix2 fexp64 ZnearestE _ (int_format n Hn)) in H.
  rewrite (int_no_overflow n Hn) in H. destruct H as (H1 & H2 & _). split; assumption.
Qed.

Lemma f64_mul_int : forall x y a b, int_val x a -> int_val y b -> Z.abs (a * b) <= 2 ^ 53 ->
  int_val (f64_mul x y) (a * b).
Proof.
  intros x y a b [Fx Hx] [Fy Hy] Hn. unfold f64_mul, b64_mult, int_val, f64_is_finite in *.
  match goal with |- context [Bmult ?p ?e ?hp ?he ?nan ?m x y] =>
    pose proof (Bmult_correct p e hp he nan m x y) as H end.
  rewrite Hx, Hy, <- mult_IZR in H. cbn [round_mode] in H.
  change (SpecFloat.fexp 53 1024) with fexp64 in H.
  rewrite (round_generic radix2 fexp64 ZnearestE _ (int_format _ Hn)) in H.
  rewrite (int_no_overflow _ Hn) in H. destruct H as (H1 & H2 & _).
  rewrite Fx, Fy in H2. split; assumption.
Qed.

Lemma f64_add_int : forall x y a b, int_val x a -> int_val y b -> Z.abs (a + b) <= 2 ^ 53 ->
  int_val (f64_add x y) (a + b).
Proof.
  intros x y a b [Fx Hx] [Fy Hy] Hn. unfold f64_add, b64_plus, int_val, f64_is_finite in *.
  match goal with |- context [Bplus ?p ?e ?hp ?he ?nan ?m x y] =>
    pose proof (Bplus_correct p e hp he nan m x y Fx Fy) as H end.
  rewrite Hx, Hy, <- plus_IZR in H. cbn [round_mode] in H.
  change (SpecFloat.fexp 53 1024) with fexp64 in H.
  rewrite (round_generic radix2 fexp64 ZnearestE _ (int_format _ Hn)) in H.
  rewrite (int_no_overflow _ Hn) in H. destruct H as (H1 & H2 & _).
  split; assumption.
Qed.

Lemma f64_round_int : forall x a, int_val x a -> int_val (f64_round x) a.
Proof.
  intros x a [Fx Hx]. unfold f64_round, int_val, f64_is_finite in *.
  destruct (Bnearbyint_correct 53 1024 f64_prec_lt_emax unop_nan_pl64 mode_NA x) as (H1 & H2 & _).
  split; [congruence|]. rewrite H1, Hx, round_FIX_IZR. cbn [round_mode]. 
  f_equal. apply Zrnd_IZR. apply valid_rnd_N.
Qed.

Lemma f64_abs_int : forall x a, int_val x a -> int_val (f64_abs x) (Z.abs a).
Proof.
  intros x a [Fx Hx]. unfold f64_abs, b64_abs, int_val, f64_is_finite in *.
  rewrite is_finite_Babs, B2R_Babs, Hx, abs_IZR. split; auto.
Qed.

Lemma f64_cmp_int : forall x y a b, int_val x a -> int_val y b -> f64_cmp x y = Some (a ?= b).
Proof.
  intros x y a b [Fx Hx] [Fy Hy]. unfold f64_cmp, b64_compare, f64_is_finite in *.
  rewrite (Bcompare_correct 53 1024 x y Fx Fy), Hx, Hy, Rcompare_IZR. reflexivity.
Qed.

Lemma f64_trunc_real : forall x, f64_trunc x = Ztrunc (B2R64 x).
Proof.
  intros x. unfold f64_trunc. apply eq_IZR. rewrite Btrunc_correct, round_FIX_IZR; [reflexivity|exact f64_prec_lt_emax].
Qed.

Lemma f64_to_int_int : forall lo hi x a, int_val x a -> lo <= a <= hi -> f64_to_int lo hi x = a.
Proof.
  intros lo hi x a [Fx Hx] Ha. unfold f64_to_int.
  assert (Ht : f64_trunc x = a) by (rewrite f64_trunc_real, Hx; apply Ztrunc_IZR).
  destruct x; try discriminate Fx; rewrite Ht;
    (destruct (a <? lo) eqn:E1; [lia|]; destruct (hi <? a) eqn:E2; [lia|]; reflexivity).
Qed.

(* |trunc x| <= |x| : a bound on the value carries over to the integer part *)
Lemma f64_trunc_abs_lt : forall x n, (Rabs (B2R64 x) < IZR n)%R -> Z.abs (f64_trunc x) < n.
Proof.
  intros x n H. rewrite f64_trunc_real, <- Ztrunc_abs.
  rewrite Ztrunc_floor by apply Rabs_pos.
  apply lt_IZR. eapply Rle_lt_trans; [apply Zfloor_lb|exact H].
Qed.

(* a successful [|x| < c] test against an integer-valued constant *)
Lemma f64_lt_abs_int : forall x c n, int_val c n -> f64_lt (f64_abs x) c = true ->
  f64_is_finite x = true /\ (Rabs (B2R64 x) < IZR n)%R.
Proof.
  intros x c n [Fc Hc] H. unfold f64_lt, f64_cmp, b64_compare, f64_abs, b64_abs, f64_is_finite in *.
  destruct x as [s|s|s pl Hpl|s m e Hb].
  - split; [reflexivity|]. rewrite Bcompare_correct in H by (auto). 
    rewrite B2R_Babs, Hc in H. destruct (Rcompare_spec (Rabs (B2R64 (B754_zero 53 1024 s))) (IZR n)); try discriminate. assumption.
  - exfalso. destruct c; try discriminate Fc; destruct s; discriminate H.
  - exfalso. destruct c; try discriminate Fc; discriminate H.
  - split; [reflexivity|]. rewrite Bcompare_correct in H by (auto).
    rewrite B2R_Babs, Hc in H.
    destruct (Rcompare_spec (Rabs (B2R64 (B754_finite 53 1024 s m e Hb))) (IZR n)); try discriminate. assumption.
Qed.

(* ---------- real-number semantics of the operations, for finite results ---------- *)
Lemma f64_mul_finite : forall x y, f64_is_finite (f64_mul x y) = true ->
  f64_is_finite x = true /\ f64_is_finite y = true /\
  B2R64 (f64_mul x y) = rnd64 (B2R64 x * B2R64 y).
Proof.
  intros x y F. unfold f64_mul, b64_mult, f64_is_finite in *.
  match type of F with context [Bmult ?p ?e ?hp ?he ?nan ?m x y] =>
    pose proof (Bmult_correct p e hp he nan m x y) as H end.
  cbn [round_mode] in H. change (SpecFloat.fexp 53 1024) with fexp64 in H.
  destruct (Rlt_bool _ _).
  - destruct H as (H1 & H2 & _). rewrite F in H2. symmetry in H2.
    apply andb_true_iff in H2. destruct H2. auto.
  - exfalso. apply (f_equal (is_finite_FF)) in H. rewrite is_finite_B2FF, F in H.
    unfold binary_overflow in H. cbn in H. discriminate H.
Qed.

Lemma f64_add_finite : forall x y, f64_is_finite (f64_add x y) = true ->
  f64_is_finite x = true /\ f64_is_finite y = true /\
  B2R64 (f64_add x y) = rnd64 (B2R64 x + B2R64 y).
Proof.
  intros x y F. unfold f64_add, b64_plus, f64_is_finite in *.
  assert (Fx : is_finite 53 1024 x = true /\ is_finite 53 1024 y = true).
  { destruct x as [sx|sx|sx px Hx|sx mx ex Hx]; destruct y as [sy|sy|sy py Hy|sy my ey Hy];
      try (split; reflexivity); exfalso; revert F; try (destruct sx; destruct sy); discriminate. }
  destruct Fx as [Fx Fy]. split; [exact Fx|]. split; [exact Fy|].
  match type of F with context [Bplus ?p ?e ?hp ?he ?nan ?m x y] =>
    pose proof (Bplus_correct p e hp he nan m x y Fx Fy) as H end.
  cbn [round_mode] in H. change (SpecFloat.fexp 53 1024) with fexp64 in H.
  destruct (Rlt_bool _ _).
  - destruct H as (H1 & _). exact H1.
  - exfalso. destruct H as [H _]. apply (f_equal (is_finite_FF)) in H. rewrite is_finite_B2FF, F in H.
    unfold binary_overflow in H. cbn in H. discriminate H.
Qed.

Lemma f64_round_real : forall x,
  B2R64 (f64_round x) = IZR (ZnearestA (B2R64 x)) /\
  f64_is_finite (f64_round x) = f64_is_finite x.
Proof.
  intros x. unfold f64_round, f64_is_finite.
  destruct (Bnearbyint_correct 53 1024 f64_prec_lt_emax unop_nan_pl64 mode_NA x) as (H1 & H2 & _).
  split; [|exact H2]. rewrite H1, round_FIX_IZR. reflexivity.
Qed.

Lemma f64_cmp_real : forall x y, f64_is_finite x = true -> f64_is_finite y = true ->
  f64_cmp x y = Some (Rcompare (B2R64 x) (B2R64 y)).
Proof. intros x y Fx Fy. apply Bcompare_correct; assumption. Qed.

Open Scope R_scope.
(* the rounding error of one double operation on a value below 2^48 is at most 2^-6 *)
Lemma rnd64_error_48 : forall x, (Rabs x < bpow radix2 48)%R ->
  (Rabs (rnd64 x - x) <= bpow radix2 (-6))%R.
Proof.
  intros x Hx.
  eapply Rle_trans; [apply error_le_half_ulp; [apply FLT_exp_valid; reflexivity]|].
  destruct (Req_dec x 0) as [Zx|Zx].
  - subst x. rewrite ulp_FLT_0 by reflexivity. simpl bpow. 
    assert (0 < / IZR (Z.pow_pos 2 1074)) by (apply Rinv_0_lt_compat; apply IZR_lt; reflexivity).
    assert (/ IZR (Z.pow_pos 2 1074) <= / 64).
    { apply Rinv_le; [lra|]. apply IZR_le. vm_compute. discriminate. }
    change (IZR (Z.pow_pos 2 6)) with 64. lra.
  - rewrite ulp_neq_0 by exact Zx. unfold cexp, FLT_exp.
    pose proof (mag_le_bpow radix2 x 48 Zx Hx) as Hm.
    replace (bpow radix2 (-6)) with (/2 * bpow radix2 (-5)) by (simpl bpow; change (Z.pow_pos 2 5) with 32%Z; change (Z.pow_pos 2 6) with 64%Z; lra).
    apply Rmult_le_compat_l; [lra|]. apply bpow_le. lia.
Qed.
Close Scope R_scope.
