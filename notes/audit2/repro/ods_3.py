# ods_3: text content forms inside text:p of a string cell
import sys; sys.path.insert(0, '/tmp/ag/audit2'); sys.path.insert(0, '/tmp/ag/audit2/repro')
from vhrun import vh, hx
from odslib import write_ods
S = hx('S1')
def one(inner):
    return ('<table:table table:name="S1"><table:table-row><table:table-cell office:value-type="string" '
            'calcext:value-type="string">%s</table:table-cell></table:table-row></table:table>') % inner
def show(r):
    # decode the S<hex> of a 1-cell range
    import re
    m = re.search(r'\|S([0-9a-f]*)\]', r)
    return r + ('   = %r' % bytes.fromhex(m.group(1)).decode('utf-8') if m else '')
cases = [
    ('ruby', '<text:p><text:ruby text:style-name="Ru1"><text:ruby-base>漢字</text:ruby-base><text:ruby-text>かんじ</text:ruby-text></text:ruby></text:p>'),
    ('link', '<text:p>a<text:a xlink:href="http://x/" xlink:type="simple">li<text:span text:style-name="T1">n</text:span>k</text:a>b</text:p>'),
    ('fields', '<text:p><text:sheet-name>???</text:sheet-name> <text:date>2024-01-01</text:date> <text:title>T</text:title></text:p>'),
    ('spaces', '<text:p><text:s/>a<text:span text:style-name="T1"><text:s text:c="3"/>b</text:span><text:tab/>c<text:line-break/>d<text:s text:c="0"/>e</text:p>'),
    ('entities', '<text:p>&lt;&amp;&gt;&quot;&apos;&#65;&#x1F600;<![CDATA[<raw>&amp;]]></text:p>'),
    ('emptyparas', '<text:p>a</text:p><text:p/><text:p>b</text:p>'),
    ('bookmark', '<text:p>a<text:bookmark text:name="b"/>b<text:soft-page-break/>c</text:p>'),
    ('note', '<text:p>a<text:note text:id="ftn1" text:note-class="footnote"><text:note-citation>1</text:note-citation><text:note-body><text:p>foot</text:p></text:note-body></text:note>b</text:p>'),
]
for n, inner in cases:
    p = write_ods('ods_3_%s.ods' % n, one(inner))
    print('%-10s %s' % (n, show(vh('ods', p, ['range ' + S]))))
