#!/usr/bin/env python3
"""xls_5: BIFF5 / BIFF7 workbooks (`Book` stream; Excel 5.0/95, Spreadsheet::WriteExcel < 2.0, PEAR
Spreadsheet_Excel_Writer default, Gnumeric / LibreOffice "Excel 5.0/95" export).  The Coq models answer
E_UNMODELLED on a non-BIFF8 BOF, so none of this is in any theorem's domain; the reader claims BIFF5
support (enum Biff, parse_label / parse_short_string / parse_string take `biff`).
 (a) FORMAT record: BIFF5 layout is ifmt(2) cch(1) bytes - parse_format always reads the BIFF8 layout
     (cch 2 bytes + flag byte)  -> custom date formats are not recognised (C10).
 (b) byte strings under a double-byte code page (932): XlsEncoding::high_byte(None) returns Some(false)
     for every encoding that is not single-byte -> the bytes are zero-extended and THEN run through the
     Shift-JIS decoder (C19 / C12).
 (c) RSTRING (0x00D6): the rich-text cell record of BIFF5 is not read at all (C02 / C19)."""
import struct
from xls_helper import *
def bstr8(b): return bytes([len(b)]) + b
def bs5(name, pos, hs, dt): return struct.pack('<IBB', pos, hs, dt) + bstr8(name if isinstance(name, bytes) else name.encode('latin-1'))
def xf5(ifmt): return (0x00E0, struct.pack('<HHHHHHHH', 0, ifmt, 0x0001, 0x0020, 0, 0, 0, 0))
def label5(r, c, b, xf=0): return (0x0204, struct.pack('<HHHH', r, c, xf, len(b)) + b)
def rstring5(r, c, b, xf=0): return (0x00D6, struct.pack('<HHHH', r, c, xf, len(b)) + b + bytes([1, 0, 1]))
def fmt5(ifmt, s): return (0x041E, struct.pack('<H', ifmt) + bstr8(s.encode('latin-1')))
def run(tag, cp, pre, recs):
    glob = [(0x0042, struct.pack('<H', cp))] + pre
    sh = sheet(recs, b=bof5)
    p = write(OUT + 'xls_5%s.xls' % tag, workbook(glob, [('S', 0, 0, sh)], [], bofrec=bof5(5), bs=bs5), name='Book')
    print(tag, unhex(vh('xls', p, ['sheets', 'at 0'])))
# (a) xf0 General, xf1 built-in 14, xf2 custom 164 "yyyy-mm-dd", xf3 custom 165 "0.00"
#     xf4 custom 166 `0" days"` (a plain number with a unit; expected Float), xf5 custom 167 "[h]:mm" (expected
#     DateTime with the duration flavour), xf6 custom 168 "yy" (expected DateTime)
run('a_format', 1252, [fmt5(164, 'yyyy-mm-dd'), fmt5(165, '0.00'), fmt5(166, '0" days"'), fmt5(167, '[h]:mm'), fmt5(168, 'yy'),
                       xf5(0), xf5(14), xf5(164), xf5(165), xf5(166), xf5(167), xf5(168)],
    [number(0, i, 45000.0, i) for i in range(7)])
# (b) code page 932, "あ" = 82 A0, plus an ASCII label
run('b_cp932', 932, [xf5(0)], [label5(0, 0, b'\x82\xa0'), label5(0, 1, b'abc')])
# (c) RSTRING next to a LABEL
run('c_rstring', 1252, [xf5(0)], [label5(0, 0, b'plain'), rstring5(0, 1, b'rich')])
