# helpers shared by the xlsb_<n>.py repro scripts (audit2, slice xlsb)
import struct, zipfile, sys, os, re
sys.path.insert(0, '/tmp/ag/audit2')
from vhrun import vh, hx

OUT = '/tmp/ag/audit2/repro/out'
os.makedirs(OUT, exist_ok=True)

def eid(t):
    return bytes([t]) if t < 0x80 else bytes([(t & 0x7F) | 0x80, t >> 7])
def elen(n):
    out = b''
    while True:
        b = n & 0x7F; n >>= 7
        if n: out += bytes([b | 0x80])
        else: out += bytes([b]); break
    return out
def rec(t, body=b''): return eid(t) + elen(len(body)) + body
def wide(s):
    u = s.encode('utf-16le'); return struct.pack('<I', len(u) // 2) + u
def recs(b):
    i = 0; out = []
    while i < len(b):
        t = b[i]; i += 1
        if t & 0x80:
            t = (t & 0x7F) | ((b[i] & 0x7F) << 7); i += 1
        l = 0
        for k in range(4):
            c = b[i]; i += 1
            l |= (c & 0x7F) << (7 * k)
            if not c & 0x80: break
        out.append((t, b[i:i + l])); i += l
    return out
def enc(rs): return b''.join(rec(t, b) for t, b in rs)

CT = ('<?xml version="1.0" encoding="UTF-8" standalone="yes"?>'
      '<Types xmlns="http://schemas.openxmlformats.org/package/2006/content-types">'
      '<Default Extension="bin" ContentType="application/vnd.ms-excel.sheet.binary.macroEnabled.main"/>'
      '<Default Extension="rels" ContentType="application/vnd.openxmlformats-package.relationships+xml"/>'
      '</Types>')
ROOT = ('<?xml version="1.0" encoding="UTF-8" standalone="yes"?>'
        '<Relationships xmlns="http://schemas.openxmlformats.org/package/2006/relationships">'
        '<Relationship Id="rId1" Type="http://schemas.openxmlformats.org/officeDocument/2006/relationships/officeDocument" Target="xl/workbook.bin"/>'
        '</Relationships>')
WS_T = 'http://schemas.openxmlformats.org/officeDocument/2006/relationships/worksheet'

def cell(col, style=0, fl=0):
    return struct.pack('<I', col) + struct.pack('<I', (style & 0xFFFFFF) | (fl << 24))
def rowhdr(r):
    # BrtRowHdr: rw, ixfe, miyRw, flags(3 bytes incl. ccolspan low), ccolspan
    return rec(0x0000, struct.pack('<IIHBBBI', r, 0, 300, 0, 0, 0, 0))
def fml_tail(rgce, rgcb=b''):
    return struct.pack('<H', 0) + struct.pack('<I', len(rgce)) + rgce + struct.pack('<I', len(rgcb)) + rgcb

def sheet(body, dim=(0, 0, 0, 0)):
    """a worksheet part the way Excel lays it out (BrtBeginSheet, BrtWsProp-less, BrtWsDim, views, fmt info, data)"""
    return (rec(0x0081) + rec(0x0094, struct.pack('<IIII', *dim)) +
            rec(0x0085) + rec(0x0089, bytes(30)) + rec(0x008A) + rec(0x0086) +
            rec(0x01E5, bytes(12)) + rec(0x0091) + body + rec(0x0092) + rec(0x0082))

def workbook(sheet_names, names=(), xtis=None, is_1904=False, name_hdr=None):
    """names: list of (name, rgce bytes); xtis: list of (sup, first, last)"""
    wb = rec(0x0083) + rec(0x0080, bytes(16) + wide('xl') + wide('7') + wide('7') + wide('9302'))
    wb += rec(0x0099, struct.pack('<II', 0x20 | (1 if is_1904 else 0), 124226) + wide('ThisWorkbook'))
    wb += rec(0x0087) + rec(0x009E, bytes(29)) + rec(0x0088)
    wb += rec(0x008F)
    for i, n in enumerate(sheet_names):
        wb += rec(0x009C, struct.pack('<II', 0, i + 1) + wide('rId%d' % (i + 1)) + wide(n))
    wb += rec(0x0090)
    if xtis is None:
        xtis = [(0, i, i) for i in range(len(sheet_names))]
    if xtis:
        wb += rec(0x0161) + rec(0x0165)
        wb += rec(0x016A, struct.pack('<I', len(xtis)) + b''.join(struct.pack('<Iii', *x) for x in xtis))
        wb += rec(0x0162)
    for k, (nm, rgce) in enumerate(names):
        flags, chkey, itab = (name_hdr[k] if name_hdr else (0, 0, 0xFFFFFFFF))
        wb += rec(0x0027, struct.pack('<IBI', flags, chkey, itab) + wide(nm) + struct.pack('<I', len(rgce)) + rgce +
                  struct.pack('<I', 0) + struct.pack('<I', 0xFFFFFFFF))
    wb += rec(0x009D, bytes.fromhex('35ea02000100000064000000fca9f1d24d62503f040000006a00')) + rec(0x009B, b'\0') + rec(0x0084)
    return wb

def rels(targets, extra=''):
    s = ('<?xml version="1.0" encoding="UTF-8" standalone="yes"?>'
         '<Relationships xmlns="http://schemas.openxmlformats.org/package/2006/relationships">')
    for i, t in enumerate(targets):
        s += '<Relationship Id="rId%d" Type="%s" Target="%s"/>' % (i + 1, WS_T, t)
    return s + extra + '</Relationships>'

def package(path, sheets, names=(), xtis=None, styles=None, sst=None, is_1904=False, targets=None, name_hdr=None):
    """sheets: list of (name, part bytes)"""
    tg = targets or ['worksheets/sheet%d.bin' % (i + 1) for i in range(len(sheets))]
    with zipfile.ZipFile(path, 'w', zipfile.ZIP_DEFLATED) as z:
        z.writestr('[Content_Types].xml', CT)
        z.writestr('_rels/.rels', ROOT)
        z.writestr('xl/workbook.bin', workbook([n for n, _ in sheets], names, xtis, is_1904, name_hdr))
        z.writestr('xl/_rels/workbook.bin.rels', rels(tg))
        if styles is not None: z.writestr('xl/styles.bin', styles)
        if sst is not None: z.writestr('xl/sharedStrings.bin', sst)
        for i, (_, part) in enumerate(sheets):
            z.writestr('xl/worksheets/sheet%d.bin' % (i + 1), part)

def rezip(src, dst, repl):
    zi = zipfile.ZipFile(src)
    with zipfile.ZipFile(dst, 'w', zipfile.ZIP_DEFLATED) as zo:
        for n in zi.namelist():
            zo.writestr(n, repl.get(n, zi.read(n)))

def pretty(s):
    def f(m):
        try: return m.group(1) + '"' + bytes.fromhex(m.group(2)).decode() + '"'
        except Exception: return m.group(0)
    return re.sub(r'\b(S)((?:[0-9a-f]{2})+)\b', f, s)

def run(path, calls):
    return vh('xlsb', path, calls)
