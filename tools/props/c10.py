"""C10 — a number is typed DateTime exactly when its cell style is a date/time format.

Correspondence (model = extracted Coq NumFmt.v through `vm numfmt …`, implementation = /repo
through `vh numfmt …`):
  * grammar derivations (every token kind, 1-4 sections, both cases): the Coq encoder `render`
    produces the string, `classify`/`wf` come from the Coq spec; the real scanner must equal the
    model on every string and the spec on every well-formed derivation (no known class is left:
    the six former ones were fixed by ac433ce c5a918f a61713f aa1af82 4fe67c6 35d58d0 and their
    witnesses are corpus cases);
  * all strings up to length 5 (thorough: 7) over the significant alphabet and over a second alphabet
    (era / Buddhist letters, exponent context, start of General), model vs code, by hashed
    exhaustive sweeps that are narrowed down to the first differing string on a mismatch;
  * random strings over a wide alphabet (upper case, non-ASCII);
  * all 65536 built-in codes, their decimal ids, and non-canonical ids;
  * value wrapping (format_excel_f64 / format_excel_i64);
  * generated xlsx / xls / xlsb files with random style tables, both date systems and every
    numeric cell encoding, read through the public API;
  * xlsb: xl/styles.bin as a byte stream (tools/xlsbstyles.py, Coq XlsbStyles.v): random layouts in
    Excel's shape (FMTS, FONTS, FILLS, BORDERS, CELLSTYLEXFS with BrtXF records of its own, CELLXFS,
    the rest) with random framing forms, random records and tails wherever the format or the reader
    tolerates them, colours and names holding the byte pairs E9 04 / E7 04 (the ids of
    BrtBeginCellXFs / BrtBeginFmts); the Coq encoder's bytes must equal the Python encoder's,
    Xlsb::read_styles on those bytes (hook verif_hooks::xlsb::styles) must equal the model, the
    specification (the table of the BrtFmt / BrtXF records) and its own answer on the bare layout
    of the same two tables; cells of the generated files are written as short cell records
    (BrtShortReal / BrtShortRk) at random; malformed parts (cuts, wrong counts, flipped bytes, the
    two opening ids sown into bodies AND as real records) model vs code.
"""
import json, os, struct, sys
sys.path.insert(0, os.path.dirname(os.path.dirname(os.path.abspath(__file__))))
import vlib, biffgen_c10, xlsbstyles
import xlsxgen_c10 as xlsxgen

ASSUMPTIONS = [
    "number-format grammar = the token classes of ECMA-376 18.8.30/31 and [MS-XLS] 2.4.126 as written in NumFmt.v (token, wf_tok); bracketed currency strings contain none of [ ] \" \\ _ * ;",
    "weekday aaa/aaaa, era g/gg/ggg, era year e/ee and Buddhist year bb/bbbb are date tokens (ECMA-376 18.8.30 shows them in the ja-JP / zh-TW / th-TH built-in formats; TEXT(x,\"aaa\") etc. in Excel); an exponent stands directly after a digit placeholder, '.' or ','; not in the grammar (no claim): r / rr, a single b, the calendar prefixes B1 / B2, Thai-letter tokens, \u4e0a\u5348/\u4e0b\u5348",
    "XML parsing of styles.xml, including entity unescaping of formatCode (quick-xml), is outside the model; generated files escape with named, decimal and hexadecimal references",
    "logical style table: custom entries take precedence over built-in ids; BIFF/XLSB custom ids never collide with built-in date ids ([MS-XLS]/[MS-XLSB] restrict ifmt to 5-8, 23-26, 41-44, 63-66, 164-382)",
    "RK decoding (×100 flag, 30-bit integer) is computed by the test driver, not by the C10 model (it belongs to the number-decoding property)",
    "xlsx numeric text -> f64 is Rust's str::parse (correctly rounded); the driver uses Python float() for the expected bits",
]
TMP = os.path.join(vlib.CACHE, "tmp", "c10-%d" % os.getpid())
ALPHA = '"\\_[];apmdhys/0:.x*'
# second sweep family (audit 2, FMT-1): the era / Buddhist letters, the exponent context (a digit
# placeholder in front of e) and the start of the keyword General
ALPHA2 = 'aegbE0+"\\[];G'
WIDE = ALPHA + 'APMDHYSGenrlE+-#?@,%$() \u00e9\u5e74\U0001F600' + "'!&<>=~{}^tTqQ19" + "gbB"

def hx(s):
    return s.encode("utf-8").hex()

# ------------------------------------------------------------------ grammar derivations
LIT = "$-+/():!^&'~{}<>= .,%"
def ups(rng, n):
    k = rng.randrange(4)
    if k == 0:
        return ""
    if k == 1:
        return "1" * n
    return "".join(rng.choice("01") for _ in range(rng.randrange(0, n + 2)))

def t_quoted(rng, esc):
    pool = "abdhmsy YMD:;[]/0#-\u20ac*" + ("\\_" if esc else "")
    return "Q" + hx("".join(rng.choice(pool) for _ in range(rng.randrange(0, 6))))
def t_common(rng, risky):
    k = rng.randrange(7)
    if k == 0:
        return "L%d" % ord(rng.choice(LIT))
    if k == 1:
        return "E%d" % ord(rng.choice('dmyhsDMYHS-/ .,a"[];\\_\u20ac*'))
    if k == 2:
        return "P%d" % ord(rng.choice(')-( dmyhs";[_\\*'))
    if k == 3:
        return t_quoted(rng, risky and rng.random() < 0.5)
    if k == 4:
        return "F%d" % ord(rng.choice("- .0x#," if not (risky and rng.random() < 0.4) else 'dmhysa/";[]\\_pA'))
    if k == 5:
        return "L%d" % ord(rng.choice(",.% "))
    return "D%d" % rng.randrange(3)
def t_prefix(rng):
    out = []
    if rng.random() < 0.3:
        c = rng.randrange(9)
        name_len = [5, 4, 4, 5, 7, 3, 5, 6, 5][c]
        out.append("C%s:%s" % (("i%d" % rng.randrange(1, 57)) if c == 8 else str(c), ups(rng, name_len)))
    if rng.random() < 0.2:
        out.append("N%d:%s" % (rng.randrange(6), hx(rng.choice(["100", "0", "-1.5", "5", "0.25", "1000000"]))))
    if rng.random() < 0.3:
        cur, lcid = rng.choice([("", "409"), ("", "F800"), ("\u20ac", "407"), ("", "404"), ("USD", "409"),
                                ("kr", "41D"), ("", "411"), ("USD", ""), ("Rp", "421"), ("d/m", "809"), ("$", "")])
        out.append("O%s:%s" % (hx(cur), hx(lcid)))
    rng.shuffle(out)
    return out
def t_locale_date(rng):
    """the date tokens that ECMA-376 shows only in locale-specific built-in formats: aaa / aaaa
    (day of the week), g / gg / ggg (era), e / ee (year of the era), bb / bbbb (Buddhist year)"""
    k = rng.randrange(4)
    if k == 0:
        long = rng.randrange(2)
        return "W%d:%s" % (long, ups(rng, 3 + long))
    if k == 1:
        n = rng.randrange(0, 3) if rng.random() < 0.95 else 3        # gggg: outside wf
        return "R%d:%s" % (n, ups(rng, n + 1))
    if k == 2:
        long = rng.randrange(2)
        return "Y%d:%s" % (long, ups(rng, 1 + long))
    long = rng.randrange(2)
    return "B%d:%s" % (long, ups(rng, 2 + 2 * long))
def t_date(rng):
    k = rng.randrange(13)
    if k < 6:
        n = rng.randrange(0, 5)
        return "T%s:%d:%s" % (rng.choice("dmhys"), n, ups(rng, n + 1))
    if k < 8:
        return "A" + ups(rng, 5)
    if k < 10:
        return "a" + ups(rng, 3)
    return t_locale_date(rng)
def t_elapsed(rng):
    n = rng.randrange(0, 3)
    return "H%s:%d:%s" % (rng.choice("hms"), n, ups(rng, n + 1))

def gen_section(rng, risky):
    kind = rng.randrange(7)
    toks = t_prefix(rng)
    if kind == 6:       # a date format made only of locale date tokens (weekday column, era year, Buddhist year)
        toks += [t_common(rng, risky) for _ in range(rng.randrange(0, 2))]
        toks += [t_locale_date(rng) for _ in range(rng.randrange(1, 4))]
        if rng.random() < 0.5:
            toks.insert(rng.randrange(len(toks) + 1), rng.choice(["Q" + hx("\u5e74"), "L40", "L41", "L32", "E32", "G", "D0"]))
        toks += [t_common(rng, risky) for _ in range(rng.randrange(0, 2))]
        return " ".join(toks)
    if kind == 0:       # General, possibly with literals around it
        toks += [t_common(rng, risky) for _ in range(rng.randrange(0, 3))]
        toks.append("G" + ups(rng, 7))
        toks += [t_common(rng, risky) for _ in range(rng.randrange(0, 3))]
        if risky and rng.random() < 0.5:
            toks.append(rng.choice([t_date(rng), "L47", t_elapsed(rng)]))
    elif kind == 1:     # text
        toks += [t_common(rng, risky) for _ in range(rng.randrange(0, 2))] + ["@"]
        toks += [t_common(rng, risky) for _ in range(rng.randrange(0, 2))]
    elif kind == 2:     # number
        for _ in range(rng.randrange(1, 9)):
            r = rng.random()
            if r < 0.5:
                toks.append("D%d" % rng.randrange(3))
            elif r < 0.6:
                if rng.random() < 0.8:           # where an exponent belongs: after a placeholder
                    toks.append(rng.choice(["D0", "D1", "D2", "L46", "L44", "S0"]))
                toks.append("X%s:%d" % (ups(rng, 1), rng.randrange(2)))
            elif r < 0.7:
                toks.append("L%d" % ord(rng.choice(".,%/ ")))
            else:
                toks.append(t_common(rng, risky))
    elif kind in (3, 4):  # date/time
        for _ in range(rng.randrange(1, 8)):
            r = rng.random()
            if r < 0.4:
                toks.append(t_date(rng))
            elif r < 0.55:
                toks.append(t_elapsed(rng))
            elif r < 0.7:
                toks.append(rng.choice(["L58", "L47", "L45", "L46", "L32", "L44", "S0", "S2"]))
            else:
                toks.append(t_common(rng, risky))
    else:               # anything goes (also derivations outside wf)
        for _ in range(rng.randrange(0, 7)):
            r = rng.random()
            if r < 0.2:
                toks.append(t_date(rng))
            elif r < 0.3:
                toks.append(t_elapsed(rng))
            elif r < 0.35:
                toks.append("G" + ups(rng, 7))
            elif r < 0.4:
                toks.append("L%d" % ord(rng.choice("xqA[;\"e")))   # not literal punctuation: wf = 0
            elif r < 0.45:
                toks.append("O%s:" % hx("a" + rng.choice(['"', "[", "_", ";"])))       # wf = 0
            else:
                toks.append(t_common(rng, risky))
    return " ".join(toks)

def gen_ast(rng):
    risky = rng.random() < 0.35
    nsec = rng.choice([1, 1, 1, 2, 3, 4])
    return ";".join(gen_section(rng, risky) for _ in range(nsec))

CORPUS_AST = [
    "", ";", "G1", "Td:1:", "Q776b5f Td:1:", "Q615c Td:0:", "D0 F100", "G1 L47", "G1 L32 Ty:1:",
    "C4:1 Hm:1:", "C4:1111111 D0", "Ci56: Hh:0:1", "N0:2d31 Ts:0:;Td:0:", "O:463830 Td:3:",
    "G Tm:0:", "G A", "G a1", "E91 Hh:0:", "P91 Ts:0:", "Q5b Hs:1:", "D0 S2", "A11011", "a",
    "Th:0: L58 Tm:1: L58 Ts:1: S2", "F34 Td:0:", "F59 Td:0:", "F92 Td:0:", "D0;Td:0:",
    # audit 2, FMT-1: formats made only of weekday / era / Buddhist-year tokens; General and the exponent next to them
    "W0:", "W1:", "O:343131 W1:", "W0:101", "R2: Y0: Q" + "e5b9b4", "Y0:", "Y1:11", "O:343034 Y0:", "B0:", "B1:",
    "O:44303730343145 B1:", "R0: Y0: L46 Tm:0: L46 Td:0:", "C5: G", "G W0:", "G R0:", "R0: G", "Y0: G", "D0 X1:1 D0",
    "D0 L46 D0 D0 X:1 D0 D0", "D0 Y0:", "X:1", "Y0: L43", "E48 Y0:", "Q30 Y0:", "P48 Y0:", "F48 Y0:", "S0 X:0",
    "L44 X:1", "L46 Y0:", "R3:", "E97 W0:", "W0: W0:", "a W0:", "Q61 W0:", "E103 Y0: L110 Y0:", "R0: Y0: E110",
]

def run_ast(ctx, n, tag):
    asts = list(CORPUS_AST) + [gen_ast(ctx.rng) for _ in range(n)]
    lines = ["%s%d\tnumfmt\tast\t%s" % (tag, k, a) for k, a in enumerate(asts)]
    m1 = ctx.run_model(lines)
    dl, info = [], {}
    for k, a in enumerate(asts):
        lid = "%s%d" % (tag, k)
        ans = m1.get(lid, "")
        f = ans.split("|")
        if len(f) != 4:
            ctx.disagreements.append({"function": "ast", "case": lines[k], "impl": "(n/a)", "model": ans})
            continue
        info[lid] = (a, f)
        dl.append("%s\tnumfmt\tdetect\t%s" % (lid, f[0]))
    impl, model = ctx.run_both(dl)
    for lid, (a, (h, cls, wf, det)) in info.items():
        i, m = impl.get(lid), model.get(lid)
        case = "%s\tnumfmt\tdetect\t%s" % (lid, h)
        ctx.traces += 1
        ctx.count("ast:classify=%s" % cls)
        ctx.count("ast:wf=%s" % wf)
        for t in a.replace(";", " ").split():
            ctx.count("tok:" + t[0])
        if len(a.split()) >= 2:
            ctx.nontrivial(a)
        if i != m or m != det:
            ctx.disagreements.append({"function": "detect_custom_number_format", "case": case,
                                      "impl": i, "model": "%s (ast cmd: %s)" % (m, det), "ast": a})
        if wf != "1":
            continue
        if i != cls:
            ctx.violations.append({"case": case, "expected": cls, "actual": i, "model": m,
                                   "what": "grammar derivation '%s' renders to %r: classify says %s, the scanner %s"
                                           % (a, bytes.fromhex(h).decode("utf-8", "replace"), cls, i)})
        if 3 <= len(a.split()) and len(ctx.samples) < 3:
            ctx.sample({"ast": a, "string": bytes.fromhex(h).decode("utf-8", "replace"), "classify": cls,
                        "impl": i, "model": m})

# ------------------------------------------------------------------ plain strings
CORPUS_STR = [
    "DD/MM/YY", "H:MM:SS;@", "#,##0\\ [$\u20bd-46D]", 'm"M"d"D";@', "[h]:mm:ss",
    '"Y: "0.00"m";"Y: "-0.00"m";"Y: <num>m";@', "#,##0\\ [$''u20bd-46D]", '"$"#,##0_);[Red]("$"#,##0)',
    '[$-404]e"\\xfc"m"\\xfc"d"\\xfc"', "0_ ;[Red]\\-0\\ ", "\\Y000000", '#,##0.0####" YMD"', "[h]", "[ss]",
    "[s].000", "[m]", "[mm]", "[Blue]\\+[h]:mm;[Red]\\-[h]:mm;[Green][h]:mm", "[>=100][Magenta][s].00",
    "[h]:mm;[=0]\\-", "[>=100][Magenta].00", "[>=100][Magenta]General", "ha/p\\\\m",
    '#,##0.00\\ _M"H"_);[Red]#,##0.00\\ _M"S"_)', "", "[", "[" * 300 + "h" + "]" * 300, "]" * 5 + "[h]", "[]", "[[h]]",
    "[hH]", "[hm]", "[h" , "a", "aaa", "A/P", "am/pm", "\\", "_", '"', '"wk_"dd', '"a\\"d', "0*d", "General/",
    # audit 2, FMT-1 (xlsx_8.py of the audit: real format codes of ja / zh / ko / th workbooks)
    "aaaa", "[$-411]aaaa", "[$-ja-JP]aaa", "yyyy/m/d(aaa)", 'ggge"\u5e74"m"\u6708"d"\u65e5"', "[$-411]ge.m.d", "ggge", "e",
    "ee", "[$-404]e/m/d", "[$-404]e", "bbbb", "bb", "[$-D07041E]bbbb", "[$-107041E]d mmmm bbbb", "d/m/bb", "AAA", "GGGE",
    "0.00E+00", "##0.0E+0", "0.0e-0", "#E+0", "?E+0", "0.E+00", "0,E+0", "General", "GENERAL", "general", "generalg",
    "Generale", "genera", "Gener\u00e9l", "\u00e9General", "[Red]General", '"a"General', "aGeneral", "aaGenerala",
    "General;aaa", "0e", "\\0e", '"0"e', "_0e", "e+", "e-0", "0e+", "E", "g", "G", "b", "B", "[g]", "[e]", "[b]", '"g"', "\\g",
    "aa", "aa a", "\\aaa", "\\aaaa", '"a"aa', "aa\\a", "aAa", "a/p", "aa/p", "aaa/p", "[aaa]", "aaaaa", "0 kg", "0 GB",
    "0.00 EUR", "[h]e", "[$e]", "a" * 300, "[" + "a" * 300, "General" * 3, "Ge", "G\U0001F600neral",
]
def run_strings(ctx, n, tag):
    rng = ctx.rng
    strs = list(CORPUS_STR)
    for _ in range(n):
        L = rng.choice([1, 2, 3, 5, 8, 12, 20])
        alpha = rng.choice([ALPHA, WIDE, WIDE, '[]hmsHMS"\\_;aA/', ALPHA2, 'aAeEgGbB0#.+-"\\[]; '])
        w = "".join(rng.choice(alpha) for _ in range(L))
        if rng.random() < 0.15:                    # the keyword General (any case, or nearly) inside
            kw = "".join(ch.upper() if rng.random() < 0.3 else ch for ch in "general")
            if rng.random() < 0.25:
                kw = kw[:rng.randrange(1, 7)] + rng.choice(["", "x", "\u00e9", "G"]) + kw[rng.randrange(1, 7):]
            pos = rng.randrange(len(w) + 1)
            w = w[:pos] + kw + w[pos:]
        strs.append(w)
    lines = ["%s%d\tnumfmt\tdetect\t%s" % (tag, k, hx(s)) for k, s in enumerate(strs)]
    impl, model = ctx.run_both(lines)
    for k, s in enumerate(strs):
        lid = "%s%d" % (tag, k)
        ctx.count("str:len<=%d" % (4 if len(s) <= 4 else 12 if len(s) <= 12 else 999))
        ctx.count("str:result=%s" % impl.get(lid))
        if len(s) > 2:
            ctx.nontrivial(s)
        if impl.get(lid) != model.get(lid):
            ctx.disagreements.append({"function": "detect_custom_number_format", "case": lines[k],
                                      "impl": impl.get(lid), "model": model.get(lid), "string": s})

# ------------------------------------------------------------------ exhaustive sweeps
def sweep_line(lid, length, prefix, alpha=ALPHA):
    return "%s\tnumfmt\tsweep\t%s\t%d\t%s" % (lid, hx(alpha), length, hx(prefix))

def narrow(ctx, prefix, length, alpha=ALPHA):
    """a sweep of prefix+(length more characters) differs: find one differing string"""
    while length > 0:
        lines = [sweep_line("n%d" % k, length - 1, prefix + c, alpha) for k, c in enumerate(alpha)]
        i = vlib.run_exe(vlib.VH, lines)
        m = vlib.run_exe(vlib.VM, lines)
        for k, c in enumerate(alpha):
            if i.get("n%d" % k) != m.get("n%d" % k):
                prefix, length = prefix + c, length - 1
                break
        else:
            break
    line = "w\tnumfmt\tdetect\t%s" % hx(prefix)
    i = vlib.run_exe(vlib.VH, [line]); m = vlib.run_exe(vlib.VM, [line])
    ctx.disagreements.append({"function": "detect_custom_number_format", "case": line,
                              "impl": i.get("w"), "model": m.get("w"), "string": prefix})

def run_sweep(ctx, maxlen, alpha=ALPHA, key="exhaustive_strings"):
    jobs = []          # (id, total length, prefix, remaining)
    for L in range(0, maxlen + 1):
        if L <= 4:
            jobs.append(("sw%d" % L, L, "", L))
        else:
            for a in alpha:
                for b in alpha:
                    jobs.append(("sw%d_%d_%d" % (L, alpha.index(a), alpha.index(b)), L, a + b, L - 2))
    lines = [sweep_line(j[0], j[3], j[2], alpha) for j in jobs]
    impl = vlib.run_exe(vlib.VH, lines, timeout=1500)
    model = vlib.run_exe(vlib.VM, lines, timeout=1500)
    nstr = 0
    for (lid, L, prefix, rem) in jobs:
        n = len(alpha) ** rem
        nstr += n
        ctx.count("sweep:len=%d" % L, n)
        if impl.get(lid) != model.get(lid) or impl.get(lid) is None:
            narrow(ctx, prefix, rem, alpha)
            if len(ctx.disagreements) > 3:
                break
    ctx.evaluations += nstr
    ctx.traces += nstr
    ctx.extra[key] = "all %d strings of length <= %d over %r" % (nstr, maxlen, alpha)
    for a in alpha:
        ctx.nontrivial("sweep:" + a)

# ------------------------------------------------------------------ built-in tables
ECMA_DATE = set(range(14, 23)) | {45, 47}
def run_codes(ctx):
    lines = ["c%d\tnumfmt\tbycode\t%d" % (c, c) for c in range(65536)]
    impl, model = ctx.run_both(lines)
    ecma = ctx.run_model(["e\tnumfmt\tecma\t0\t65536"]).get("e", "")
    for c in range(65536):
        lid = "c%d" % c
        i, m = impl.get(lid), model.get(lid)
        if i != m:
            ctx.disagreements.append({"function": "builtin_format_by_code/by_id", "case": lines[c], "impl": i, "model": m})
        # the ECMA list, from the Coq spec and once more written here by hand
        want = "1" if c in ECMA_DATE else "2" if c == 46 else "0"
        spec = ecma[c] if c < len(ecma) else "?"
        if i != "%s|%s" % (want, want) or spec != want:
            ctx.violations.append({"case": lines[c], "expected": "%s|%s" % (want, want), "actual": i, "model": m,
                                   "what": "built-in format id %d: ECMA-376 says %s (Coq ecma_builtin: %s)" % (c, want, spec)})
        if len(ctx.violations) > 5 or len(ctx.disagreements) > 5:
            break
    ctx.count("codes:all-u16", 65536)
    ctx.traces += 65536
    ids = ["", "0", "14", "014", "+14", " 14", "14 ", "1", "4", "144", "46", "046", "47", "48", "22", "23", "13",
           "4\u0036", "14.0", "0x0E", "1e1", "-14", "65550", "4294967310", "\uff11\uff14", "14\x00"]
    for _ in range(300):
        ids.append("".join(ctx.rng.choice("0123456789 +") for _ in range(ctx.rng.randrange(0, 4))))
    lines = ["i%d\tnumfmt\tbyid\t%s" % (k, hx(s)) for k, s in enumerate(ids)]
    impl, model = ctx.run_both(lines)
    for k, s in enumerate(ids):
        lid = "i%d" % k
        ctx.count("ids:non-canonical-or-random")
        if impl.get(lid) != model.get(lid):
            ctx.disagreements.append({"function": "builtin_format_by_id", "case": lines[k],
                                      "impl": impl.get(lid), "model": model.get(lid)})
    ctx.nontrivial("codes")

# ------------------------------------------------------------------ value wrapping
def f64bits(x):
    return struct.unpack("<Q", struct.pack("<d", x))[0]
SPECIAL_BITS = [0, 1 << 63, 0x7FF0000000000000, 0xFFF0000000000000, 0x7FF8000000000000, 0x7FF0000000000001,
                1, 0x000FFFFFFFFFFFFF, f64bits(60.0), f64bits(45000.5), f64bits(-1.0), f64bits(2958465.999)]
def run_wrap(ctx, n):
    rng = ctx.rng
    lines, want = [], {}
    for k in range(n):
        fmt = rng.choice(["0", "1", "2", "-"])
        d = rng.choice(["0", "1"])
        lid = "w%d" % k
        if rng.random() < 0.5:
            bits = rng.choice(SPECIAL_BITS) if rng.random() < 0.3 else rng.getrandbits(64)
            lines.append("%s\tnumfmt\twrapf\t%d\t%s\t%s" % (lid, bits, fmt, d))
            want[lid] = ("D%d:%d:%s" % (bits, 1 if fmt == "2" else 0, d)) if fmt in "12" else "F%d" % bits
        else:
            v = rng.choice([0, 1, -1, 2**53, 2**53 + 1, -(2**53) - 1, 2**63 - 1, -(2**63), 2**62 + 2**8 + 1,
                            rng.getrandbits(64) - 2**63, rng.getrandbits(30) - 2**29, rng.getrandbits(56)])
            lines.append("%s\tnumfmt\twrapi\t%d\t%s\t%s" % (lid, v, fmt, d))
            want[lid] = ("D%d:%d:%s" % (f64bits(float(v)), 1 if fmt == "2" else 0, d)) if fmt in "12" else "I%d" % v
        ctx.count("wrap:fmt=%s" % fmt)
    impl, model = ctx.run_both(lines)
    for line in lines:
        lid = line.split("\t", 1)[0]
        i, m = impl.get(lid), model.get(lid)
        ctx.traces += 1
        if i != m:
            ctx.disagreements.append({"function": "format_excel_f64/i64", "case": line, "impl": i, "model": m})
        if i != want[lid]:
            ctx.violations.append({"case": line, "expected": want[lid], "actual": i, "model": m,
                                   "what": "value wrapping: variant, duration flag, serial bits or date system changed"})
    ctx.nontrivial("wrap")

# ------------------------------------------------------------------ generated files
FMT_POOL = ["0.00", "#,##0", "General", "@", "yyyy-mm-dd", "d/m/yy h:mm", "[h]:mm:ss", "[mm]:ss", "mm:ss.0",
            "h:mm AM/PM", '"Week "dd', '"wk_"dd', "0*d", "[Red]0;[Blue]dd", "[$-409]mmmm d, yyyy", "[$-F800]dddd",
            'yyyy"\u5e74"m"\u6708"d"\u65e5"', '0 "R&D"', "[<100]dd;0", "[>=100][Magenta][s].00", "\\d0", "0;yy",
            '#" "?/?', "0.0E+00", "[$\u20ac-407] #,##0.00", "dd\\.mm\\.yyyy", "h\"h\"mm", "General/", "\"a\"\"b\"dd",
            # audit 2, FMT-1: the weekday column of ja / zh / ko workbooks, era year, Buddhist year
            "aaa", "aaaa", "[$-411]aaaa", 'ggge"\u5e74"', "[$-411]ge.m.d", "e", "[$-404]e/m/d", "bbbb", "[$-D07041E]bbbb",
            "##0.0E+0", "0.00e+00", "[Blue]General", '"("aaa")"']

def gen_table(rng, kind):
    customs = []
    for _ in range(rng.randrange(0, 5)):
        if kind == "xlsx":
            i = rng.choice([164, 165, 166, 170, 200, 14, 22, 46, 0, 5, 4294967295, 70000])
        else:
            i = rng.choice([164, 165, 166, 170, 382, 5, 23, 41, 63] + ([14, 46] if rng.random() < 0.15 else []))
        fmt = rng.choice(FMT_POOL) if rng.random() < 0.7 else None
        customs.append((i, fmt))
    xfs = []
    ids = [c[0] for c in customs] + [0, 1, 2, 9, 13, 14, 15, 22, 23, 44, 45, 46, 47, 48, 49, 164, 165, 65535]
    for _ in range(rng.randrange(1, 8)):
        if kind == "xlsx" and rng.random() < 0.08:
            xfs.append(None)
        else:
            xfs.append(rng.choice(ids) if kind == "xlsx" else rng.choice(ids) & 0xFFFF)
    return customs, xfs

def ast_string(ctx, cache={}):
    """a format string rendered from a random derivation by the Coq encoder"""
    if not cache.get("pool"):
        asts = [gen_ast(ctx.rng) for _ in range(200)]
        ans = ctx.run_model(["g%d\tnumfmt\tast\t%s" % (k, a) for k, a in enumerate(asts)])
        pool = []
        for k in range(len(asts)):
            f = ans.get("g%d" % k, "").split("|")
            if len(f) == 4 and f[0]:
                s = bytes.fromhex(f[0]).decode("utf-8")
                if "\x00" not in s and len(s) < 200:
                    pool.append(s)
        cache["pool"] = pool or ["0"]
    return ctx.rng.choice(cache["pool"])

def num_text(rng):
    x = rng.choice([0.0, 1.0, 59.0, 60.0, 61.0, 45000.5, 45000.0, 0.25, 1e-5, -3.5, 2958465.0, 1462.0, 123456789.125,
                    rng.random() * 60000, float(rng.randrange(0, 70000))])
    k = rng.randrange(4)
    if k == 0 and x == int(x):
        t = str(int(x))
    elif k == 1:
        t = "%.17E" % x
    else:
        t = repr(x)
    return t, f64bits(float(t))

def classify_cells(ctx, kind, desc, impl, mvals, svals, outside):
    ivals = impl.split(",") if impl else []
    if len(ivals) != len(mvals):
        ctx.disagreements.append({"function": kind + " reader", "case": json.dumps(desc), "impl": impl, "model": ",".join(mvals)})
        return
    broken = False
    for k, (i, m, s) in enumerate(zip(ivals, mvals, svals)):
        ctx.traces += 1
        ctx.count("%s:cell=%s" % (kind, i[:1]))
        if i != m and not broken:
            broken = True
            ctx.disagreements.append({"function": kind + " style plumbing", "case": json.dumps(desc),
                                      "impl": impl, "model": ",".join(mvals), "cell": k})
        if s == "?" or outside:
            ctx.count("%s:outside-hypotheses" % kind)
            continue
        if i != s:
            ctx.violations.append({"case": json.dumps(desc), "expected": ",".join(svals), "actual": impl,
                                   "model": ",".join(mvals),
                                   "what": "%s file, cell %d: expected %s from the resolved style, got %s" % (kind, k, s, i)})
            return

XLSX_CORPUS = [
    # former K4: no s attribute, default style is a date format
    {"customs": [], "xfs": [14, 0], "date1904": None,
     "cells": [{"s": None, "v": "45000.5", "t": None, "f": None}, {"s": 0, "v": "45000.5", "t": "n", "f": None},
               {"s": 1, "v": "2", "t": None, "f": None}]},
    # former K6 (characters that XML escapes before the first date token) and former K1-K3 strings
    {"customs": [(164, '"Week "dd'), (165, "[<100]dd;0"), (166, '0 "R&D"'), (167, "[>100][s]"), (168, "'d'0"),
                 (169, '"wk_"dd'), (170, "0*d"), (171, "General/"), (172, "General yy")],
     "xfs": [164, 165, 166, 167, 168, 169, 170, 171, 172], "date1904": "1",
     "cells": [{"s": k, "v": "45000.5", "t": None, "f": "A1"} for k in range(9)]},
]

def run_xlsx_files(ctx, n, tag):
    rng = ctx.rng
    os.makedirs(TMP, exist_ok=True)
    descs, mlines = [], []
    for k in range(n + 3 * len(XLSX_CORPUS)):
        if k < 3 * len(XLSX_CORPUS):
            base = XLSX_CORPUS[k // 3]
            customs, xfs, d1904 = list(base["customs"]), list(base["xfs"]), base["date1904"]
            cells = [dict(c, bits=f64bits(float(c["v"]))) for c in base["cells"]]
            layout = {"prefix": "", "decoys": False, "escape": k % 3, "gt": True}
        else:
            customs, xfs = gen_table(rng, "xlsx")
            customs = [(i, f if f is not None else ast_string(ctx)) for i, f in customs]
            customs = [(i, f) for i, f in customs if f and "\x00" not in f]
            cells = []
            for _ in range(rng.randrange(1, 7)):
                r = rng.random()
                s = None if r < 0.15 else rng.randrange(0, len(xfs)) if r < 0.92 else len(xfs) + rng.randrange(0, 3)
                t, bits = num_text(rng)
                cells.append({"s": s, "v": t, "bits": bits, "t": rng.choice(["n", None]),
                              "f": rng.choice([None, None, "A1+1"])})
            d1904 = rng.choice([None, "1", "true", "0", "false"])
            layout = {"prefix": rng.choice(["", "", "x"]), "decoys": rng.random() < 0.5,
                      "escape": rng.randrange(3), "gt": rng.random() < 0.7}
        desc = dict(layout, kind="xlsx", customs=customs, xfs=xfs, date1904=d1904, cells=cells, id="%s%d" % (tag, k))
        descs.append(desc)
        mlines.append("%s\tnumfmt\txlsxs\t%s\t%s\t%s\t%s" % (
            desc["id"], ",".join("%d:%s" % (i, hx(f)) for i, f in customs) or ".",
            ",".join("-" if x is None else str(x) for x in xfs),
            "1" if d1904 in ("1", "true") else "0",
            ",".join("%s:%d" % ("-" if c["s"] is None else c["s"], c["bits"]) for c in cells)))
    model = ctx.run_model(mlines)
    ilines = []
    for desc in descs:
        ans = model.get(desc["id"], "").split("|")
        if len(ans) != 4:
            ctx.disagreements.append({"function": "xlsxs", "case": json.dumps(desc), "impl": "(n/a)", "model": "|".join(ans)})
            desc["skip"] = True
            continue
        # ids (decimal text) and format codes as produced by the Coq encoder enc_xlsx; the XML
        # writer escapes the attribute values
        rawnf = [] if ans[0] == "." else [tuple(bytes.fromhex(p).decode("utf-8") for p in e.split(":")) for e in ans[0].split(",")]
        rawxf = [None if e == "-" else bytes.fromhex(e[1:]).decode() for e in ans[1].split(",")]
        path = os.path.join(TMP, desc["id"] + ".xlsx")
        xlsxgen.write_xlsx(path, rawnf, rawxf, desc["date1904"], desc["cells"], prefix=desc["prefix"],
                           decoys=desc["decoys"], gt=desc["gt"], escape=desc["escape"])
        desc["model"] = ans
        ilines.append("%s\tnumfmt\txlsxf\t%s" % (desc["id"], path))
    impl = ctx.run_impl(ilines)
    for desc in descs:
        if desc.get("skip"):
            continue
        ans = desc.pop("model")
        classify_cells(ctx, "xlsx", desc, impl.get(desc["id"]), ans[2].split(","), ans[3].split(","), False)
        ctx.nontrivial(json.dumps(desc))
        try:
            os.remove(os.path.join(TMP, desc["id"] + ".xlsx"))
        except OSError:
            pass

def run_xlsx_raw(ctx, n, tag):
    """raw style tables with non-canonical ids, duplicates and empty codes: model vs code only"""
    rng = ctx.rng
    os.makedirs(TMP, exist_ok=True)
    descs, mlines, ilines = [], [], []
    for k in range(n):
        ids = ["14", "014", "+14", " 14", "164", "0164", "165", "46", "0", "", "22", "4294967460"]
        nf = [(rng.choice(ids), rng.choice(["yyyy", "0.00", "[h]", "", "dd;0", "0;dd"])) for _ in range(rng.randrange(0, 5))]
        xfs = [rng.choice(ids + [None]) for _ in range(rng.randrange(1, 6))]
        cells = []
        for _ in range(rng.randrange(1, 6)):
            t, bits = num_text(rng)
            cells.append({"s": rng.choice([None] + list(range(len(xfs) + 1))), "v": t, "bits": bits, "t": None, "f": None})
        lid = "%s%d" % (tag, k)
        desc = {"kind": "xlsx-raw", "numfmts": nf, "xfs": xfs, "cells": cells, "id": lid, "date1904": "1"}
        path = os.path.join(TMP, lid + ".xlsx")
        xlsxgen.write_xlsx(path, nf, xfs, "1", cells)
        mlines.append("%s\tnumfmt\txlsxm\t%s\t%s\t1\t%s" % (
            lid, ",".join("%s:%s" % (hx(i), hx(f)) for i, f in nf) or ".",
            ",".join("-" if x is None else "x" + hx(x) for x in xfs),
            ",".join("%s:%d" % ("-" if c["s"] is None else c["s"], c["bits"]) for c in cells)))
        ilines.append("%s\tnumfmt\txlsxf\t%s" % (lid, path))
        descs.append(desc)
    model = ctx.run_model(mlines)
    impl = ctx.run_impl(ilines)
    for desc in descs:
        lid = desc["id"]
        ctx.traces += 1
        ctx.count("xlsx-raw:file")
        if impl.get(lid) != model.get(lid):
            ctx.disagreements.append({"function": "Xlsx::read_styles (raw ids)", "case": json.dumps(desc),
                                      "impl": impl.get(lid), "model": model.get(lid)})
        try:
            os.remove(os.path.join(TMP, lid + ".xlsx"))
        except OSError:
            pass

def rk_decode(kind, rk):
    """what the RK paths hand to the wrapping functions: ('F', bits) or ('I', int)"""
    d100, is_int = rk & 1, rk & 2
    if is_int:
        v = (rk & 0xFFFFFFFC)
        if v >= 2**31:
            v -= 2**32
        v >>= 2
        if kind == "xlsb":
            return ("F", f64bits(float(v) / 100.0)) if d100 else ("I", v)
        if d100 and v % 100 != 0:          # Rust %: sign of the dividend; only zero-ness matters
            return ("F", f64bits(float(v) / 100.0))
        return ("I", int(v / 100) if d100 else v)
    x = struct.unpack("<d", struct.pack("<Q", (rk & 0xFFFFFFFC) << 32))[0]
    return ("F", f64bits(x / 100.0 if d100 else x))

# single-byte code pages of BIFF5 files (Windows ANSI pages, Mac Roman) and the Python codec of each
BIFF5_PAGES = [(1252, "cp1252"), (1251, "cp1251"), (1250, "cp1250"), (1253, "cp1253"), (10000, "mac_roman"),
               (932, "cp932"), (936, "gbk")]        # double-byte pages: one or two bytes per character (XLS-6b)

def run_biff_files(ctx, n, tag, kind):
    rng = ctx.rng
    os.makedirs(TMP, exist_ok=True)
    descs, mlines, ilines = [], [], []
    styles_cases = []
    for k in range(n + 2 if kind == "xls" else n + 1):
        customs, xfs = gen_table(rng, kind)
        customs = [(i, f if f is not None else ast_string(ctx)) for i, f in customs]
        customs = [(i, f) for i, f in customs if f and len(f) < 250 and all(ord(ch) < 0x10000 for ch in f)]
        is_1904 = rng.choice([None, True, False]) if kind == "xls" else rng.choice([True, False])
        cells, wire = [], []
        if k >= n:
            # former K5 / K1-K3 witnesses: formula cells with a cached number under date styles
            customs = [(164, '"wk_"dd'), (165, "0*d"), (166, "General/"), (167, "[h]:mm")]
            xfs = [14, 22, 164, 165, 166, 167, 0]
            if k == n + 1:
                # the BIFF5 witness of audit-2 finding XLS-6a (FORMAT = ifmt, ONE length byte, bytes):
                # the formats of the audit's reproducer, a plain literal whose length byte is 'd' (100),
                # 'y' (121) or 'h' (104), and formats whose only date token is their last character
                customs += [(168, '0" days"'), (169, "yy"), (170, "yyyy-mm-dd"), (171, "0.00"),
                            (172, '"' + "x" * 98 + '"'), (173, '"' + "x" * 119 + '"'), (174, '0.0"' + "x" * 99 + '"'),
                            (175, '0.0"wk"d'), (176, '"elapsed "[h]')]
                xfs += list(range(168, 177))
            for ixfe in range(len(xfs)):
                bits = f64bits(45000.25)
                cells.append((ixfe, "fml", bits)); wire.append("%d:%s%d" % (ixfe, "U" if kind == "xls" else "F", bits))
                if k == n + 1:
                    cells.append((ixfe, "num", bits)); wire.append("%d:F%d" % (ixfe, bits))
        for _ in range(rng.randrange(1, 8) if k < n else 0):
            ixfe = rng.randrange(0, len(xfs)) if rng.random() < 0.93 else len(xfs) + rng.randrange(0, 2)
            r = rng.random()
            if r < 0.4:
                bits = num_text(rng)[1]
                cells.append((ixfe, "num", bits)); wire.append("%d:F%d" % (ixfe, bits))
            elif r < 0.8:
                if rng.random() < 0.5:
                    v = rng.choice([0, 1, 59, 60, 45000, 4500050, 4500000, -100, -150, 2**29 - 1, -(2**29), rng.randrange(0, 6000000)])
                    rk = ((v & 0x3FFFFFFF) << 2) | 2 | rng.randrange(2)
                else:
                    rk = ((f64bits(rng.choice([45000.5, 1.5, 0.25, 60.0, 4500050.0, -2.0])) >> 32) & 0xFFFFFFFC) | rng.randrange(2)
                t, v = rk_decode(kind, rk)
                cells.append((ixfe, "rk", rk)); wire.append("%d:%s%d" % (ixfe, t, v))
            else:
                bits = f64bits(rng.choice([45000.25, 3.0, 0.5, 61.0, 1e6]))
                cells.append((ixfe, "fml", bits)); wire.append("%d:%s%d" % (ixfe, "U" if kind == "xls" else "F", bits))
        lid = "%s%d" % (tag, k)
        desc = {"kind": kind, "customs": customs, "xfs": xfs, "is_1904": is_1904, "cells": cells, "id": lid}
        path = os.path.join(TMP, lid + "." + kind)
        if kind == "xls":
            # a quarter of the xls files as BIFF5 / BIFF7 (`Book` stream; FORMAT = ifmt + byte string
            # with a one-byte length): the property says "xls", and the style table is the same
            # logical object (audit-2 finding XLS-6a); the byte strings are those of the CodePage record
            b5 = None
            if k == n + 1 or (k < n and rng.random() < 0.25):
                for cp, codec in rng.sample(BIFF5_PAGES, len(BIFF5_PAGES)):
                    try:
                        if all(len(f.encode(codec)) < 256 and f.encode(codec).decode(codec) == f for _, f in customs):
                            b5 = (cp, codec); break
                    except (UnicodeEncodeError, UnicodeDecodeError):
                        pass
            desc["biff5"] = b5
            ctx.count("xls:biff5:%s" % (b5[0] if b5 else "no"))
            biffgen_c10.write_xls(path, customs, xfs, is_1904, cells, biff5=b5)
        else:
            # styles.bin: a random layout of the part around the two tables; cells: short records at random
            L = xlsbstyles.random_layout(rng, customs, xfs) if k < n else xlsbstyles.excel_layout(customs, xfs)
            st = xlsbstyles.enc_layout(L)
            share = rng.choice([0.0, 0.5, 1.0])
            short_cols = [c for c in range(1, len(cells)) if rng.random() < share]
            desc["styles"] = st.hex(); desc["short_cols"] = short_cols
            biffgen_c10.write_xlsb(path, customs, xfs, is_1904, cells, styles=st, short_cols=short_cols)
            styles_cases.append((lid, L, st, customs, xfs))
        mlines.append("%s\tnumfmt\tbiffs\t%s\t%s\t%s\t%s\t%s" % (
            lid, kind, ",".join("%d:%s" % (i, hx(f)) for i, f in customs) or ".",
            ",".join(str(x) for x in xfs), "1" if is_1904 else "0", ",".join(wire)))
        ilines.append("%s\tnumfmt\t%sf\t%s" % (lid, kind, path))
        descs.append(desc)
    if styles_cases:
        check_styles_bytes(ctx, styles_cases)
    model = ctx.run_model(mlines)
    impl = ctx.run_impl(ilines)
    for desc in descs:
        lid = desc["id"]
        ans = model.get(lid, "").split("|")
        if len(ans) != 3:
            ctx.disagreements.append({"function": "biffs", "case": json.dumps(desc), "impl": impl.get(lid), "model": "|".join(ans)})
            continue
        # hypothesis of the xlsb theorem: no custom entry sits on a built-in date id
        outside = kind == "xlsb" and any(i in ECMA_DATE or i == 46 for i, _ in desc["customs"])
        classify_cells(ctx, kind, desc, impl.get(lid), ans[1].split(","), ans[2].split(","), outside)
        ctx.nontrivial(json.dumps(desc))
        try:
            os.remove(os.path.join(TMP, lid + "." + kind))
        except OSError:
            pass

# ------------------------------------------------------------------ xlsb: styles.bin as bytes
def check_styles_bytes(ctx, cases):
    """cases: [(id, layout, bytes, customs, xfs)].  Coq encoder = Python encoder; the layout is legal;
    read_styles(code) = read_styles(model) = the table of the two collections (Coq spec) = the code's
    answer on the bare layout of the same tables"""
    elines, ilines, blines = [], [], []
    for lid, L, st, customs, xfs in cases:
        elines.append("%s\txlsbstyles\tenc\t%s" % (lid, xlsbstyles.layout_text(L)))
        ilines.append("%s\txlsbstyles\tread\t%s" % (lid, st.hex() or "-"))
        bare = xlsbstyles.enc_layout(xlsbstyles.bare_layout(customs, xfs))
        blines.append("%s\txlsbstyles\tread\t%s" % (lid, bare.hex()))
    enc = ctx.run_model(elines)
    impl = ctx.run_impl(ilines) if ctx.hooks else {}
    bare = ctx.run_impl(blines) if ctx.hooks else {}
    for i, (lid, L, st, customs, xfs) in enumerate(cases):
        ctx.traces += 1
        ctx.count("xlsb-styles:layout")
        others = L["pre"] + L["mid"] + [r for it in (L["fmts"]["items"] if L["fmts"] else []) + L["xfs"]["items"] for r in it["junk"]]
        if any(p in r["body"] for r in others for p in (b"\xE9\x04", b"\xE7\x04")):
            ctx.count("xlsb-styles:colliding-bytes-in-other-records")
        e = enc.get(lid, "").split("#")
        if len(e) != 4:
            ctx.disagreements.append({"function": "xlsbstyles enc", "case": elines[i][:3000], "impl": "-", "model": "#".join(e)[:300]})
            continue
        ehex, wf, spec, mread = e[0], e[1], e[2][5:], e[3][5:]
        if ehex != st.hex():
            ctx.disagreements.append({"function": "encoder (Coq encode_styles vs tools/xlsbstyles.py)",
                                      "case": elines[i][:3000], "impl": st.hex()[:400], "model": ehex[:400]})
            continue
        if wf != "1":
            ctx.disagreements.append({"function": "generator produced a styles layout the Coq side calls illegal",
                                      "case": elines[i][:3000], "impl": "wf=1", "model": "wf=" + wf})
            continue
        ctx.nontrivial("styles:" + elines[i][-300:])
        if not ctx.hooks:
            continue
        a = impl.get(lid)
        if a != mread:
            ctx.disagreements.append({"function": "Xlsb::read_styles (bytes of xl/styles.bin)", "case": ilines[i][:6000],
                                      "impl": a, "model": mread})
        if a != spec or bare.get(lid) != spec:
            ctx.violations.append({"case": ilines[i][:6000], "expected": spec, "actual": a, "model": mread,
                                   "what": "xlsb style table read from styles.bin is not the table of its BrtFmt / BrtXF "
                                           "records (bare layout of the same tables reads %s)" % bare.get(lid)})

def run_styles_malformed(ctx, n, tag):
    """one fault in a legal styles.bin: model vs code on the outcome (table or error)"""
    if not ctx.hooks:
        ctx.notes.append("hooks unavailable: the byte-level styles.bin comparison did not run")
        return
    rng = ctx.rng
    lines, labs = [], []
    lines.append("%sn\txlsbstyles\tread\tnone" % tag); labs.append("absent")
    lines.append("%se\txlsbstyles\tread\t-" % tag); labs.append("empty")
    for k in range(n):
        customs, xfs = gen_table(rng, "xlsb")
        customs = [(i, f if f is not None else "yyyy") for i, f in customs]
        customs = [(i, f) for i, f in customs if f and len(f) < 250]
        L = xlsbstyles.random_layout(rng, customs, xfs)
        kind = rng.choice(["trunc", "flip", "count+", "count-", "opener-in-mid", "fmt-short", "xf-short", "second-fmts",
                           "no-cellxfs", "opener-pair-body", "wide-len"])
        if kind == "count+":
            c = rng.choice([L["xfs"]] + ([L["fmts"]] if L["fmts"] else []))
            st = xlsbstyles.enc_layout(L)
            good = struct.pack("<I", len(c["items"])); bad = struct.pack("<I", len(c["items"]) + rng.choice([1, 2, 0x7FFFFFFF]))
            rid = xlsbstyles.BRT_BEGIN_CELLXFS if c is L["xfs"] else xlsbstyles.BRT_BEGIN_FMTS
            old = xlsbstyles.frame(c["fr"], rid, good + c["tail"])
            st = st.replace(old, xlsbstyles.frame(c["fr"], rid, bad + c["tail"]), 1)
        elif kind == "count-":
            c = rng.choice([L["xfs"]] + ([L["fmts"]] if L["fmts"] else []))
            st = xlsbstyles.enc_layout(L)
            good = struct.pack("<I", len(c["items"])); bad = struct.pack("<I", max(0, len(c["items"]) - 1))
            rid = xlsbstyles.BRT_BEGIN_CELLXFS if c is L["xfs"] else xlsbstyles.BRT_BEGIN_FMTS
            st = st.replace(xlsbstyles.frame(c["fr"], rid, good + c["tail"]), xlsbstyles.frame(c["fr"], rid, bad + c["tail"]), 1)
        elif kind == "opener-in-mid":
            # a real (empty or counted) BrtBeginCellXFs / BrtBeginFmts record among the other records
            rid = rng.choice([xlsbstyles.BRT_BEGIN_CELLXFS, xlsbstyles.BRT_BEGIN_FMTS])
            body = rng.choice([b"", struct.pack("<I", 0), struct.pack("<I", 1), bytes(3)])
            part = rng.choice(["pre", "mid"])
            L[part].insert(rng.randrange(len(L[part]) + 1), xlsbstyles.raw(rid, body))
            st = xlsbstyles.enc_layout(L)
        elif kind == "fmt-short" and L["fmts"] and L["fmts"]["items"]:
            it = rng.choice(L["fmts"]["items"])
            good = xlsbstyles.frame(it["fr"], xlsbstyles.BRT_FMT, struct.pack("<H", it["id"]) + xlsbstyles.wide(it["code"]) + it["tail"])
            body = (struct.pack("<H", it["id"]) + xlsbstyles.wide(it["code"]))[:rng.randrange(0, 8)]
            st = xlsbstyles.enc_layout(L).replace(good, xlsbstyles.frame((False, 0), xlsbstyles.BRT_FMT, body), 1)
        elif kind == "xf-short" and L["xfs"]["items"]:
            it = rng.choice(L["xfs"]["items"])
            good = xlsbstyles.frame(it["fr"], xlsbstyles.BRT_XF, struct.pack("<HH", it["parent"], it["ifmt"]) + it["tail"])
            st = xlsbstyles.enc_layout(L).replace(good, xlsbstyles.frame((False, 0), xlsbstyles.BRT_XF, bytes(rng.randrange(0, 4))), 1)
        elif kind == "second-fmts":
            # a second FMTS collection (not in the grammar): the maps accumulate
            body = struct.pack("<I", 1)
            extra = [xlsbstyles.raw(xlsbstyles.BRT_BEGIN_FMTS, body),
                     xlsbstyles.raw(xlsbstyles.BRT_FMT, struct.pack("<H", rng.choice([164, 165, 200])) + xlsbstyles.wide(rng.choice(["yyyy", "0.0", "[h]"])))]
            L["mid"] = L["mid"] + extra
            st = xlsbstyles.enc_layout(L)
        elif kind == "no-cellxfs":
            st = xlsbstyles.enc_layout(L)
            X = L["xfs"]
            cut = st.find(xlsbstyles.frame(X["fr"], xlsbstyles.BRT_BEGIN_CELLXFS, struct.pack("<I", len(X["items"])) + X["tail"]))
            st = st[:cut]
        elif kind == "opener-pair-body":
            # legal: the two byte pairs at every offset of a font body
            body = bytearray(xlsbstyles.font_body(xlsbstyles.color_theme(1)))
            o = rng.randrange(0, len(body) - 1)
            body[o], body[o + 1] = xlsbstyles.PAIRS[rng.randrange(2)]
            L["mid"].insert(rng.randrange(len(L["mid"]) + 1), xlsbstyles.raw(0x2B, bytes(body)))
            st = xlsbstyles.enc_layout(L)
        elif kind == "wide-len":
            st = bytearray(xlsbstyles.enc_layout(L))
            o = rng.randrange(len(st))
            st[o] |= 0x80
            st = bytes(st)
        elif kind == "flip":
            st = bytearray(xlsbstyles.enc_layout(L))
            for _ in range(rng.randrange(1, 4)):
                st[rng.randrange(len(st))] = rng.getrandbits(8)
            st = bytes(st)
        else:
            st = xlsbstyles.enc_layout(L)
            st = st[:rng.randrange(len(st) + 1)]
            kind = "trunc"
        lines.append("%s%d\txlsbstyles\tread\t%s" % (tag, k, st.hex() or "-")); labs.append(kind)
    impl, model = ctx.run_both(lines)
    for line, lab in zip(lines, labs):
        lid = line.split("\t", 1)[0]
        a, m = impl.get(lid), model.get(lid)
        ctx.traces += 1
        ctx.count("xlsb-styles-malformed:" + lab)
        ctx.count("xlsb-styles-outcome:" + ("ok" if (a or "").startswith("ok") else a or "none"))
        ctx.nontrivial("stylesmal:" + line[-200:])
        if a != m:
            ctx.disagreements.append({"function": "Xlsb::read_styles on a malformed part (%s)" % lab, "case": line[:6000],
                                      "impl": a, "model": m})

# ------------------------------------------------------------------ entry points
def run(ctx):
    run_strings(ctx, ctx.scale(10000, 100000), "s")
    run_ast(ctx, ctx.scale(20000, 200000), "a")
    run_codes(ctx)
    run_wrap(ctx, ctx.scale(4000, 40000))
    run_sweep(ctx, ctx.scale(5, 7))
    run_sweep(ctx, ctx.scale(5, 7), ALPHA2, "exhaustive_strings_2")
    run_xlsx_files(ctx, ctx.scale(300, 2500), "x")
    run_xlsx_raw(ctx, ctx.scale(100, 800), "r")
    run_biff_files(ctx, ctx.scale(250, 2000), "b", "xls")
    run_biff_files(ctx, ctx.scale(250, 2000), "p", "xlsb")
    run_styles_malformed(ctx, ctx.scale(600, 5000), "q")

def search(ctx):
    run_ast(ctx, ctx.scale(60000, 300000), "A")
    run_strings(ctx, ctx.scale(60000, 300000), "S")
    if ctx.tier != "thorough":
        run_sweep(ctx, 6)
        run_sweep(ctx, 6, ALPHA2, "exhaustive_strings_2")
    run_xlsx_files(ctx, ctx.scale(600, 3000), "X")
    run_biff_files(ctx, ctx.scale(600, 3000), "B", "xls")
    run_biff_files(ctx, ctx.scale(600, 3000), "P", "xlsb")
    run_styles_malformed(ctx, ctx.scale(1500, 6000), "Q")

def replay(ctx, rep):
    case = rep.get("case") or ""
    print("replaying:", case[:300])
    if "\tnumfmt\t" in case:
        impl, model = ctx.run_both([case])
        lid = case.split("\t", 1)[0]
        print("impl :", impl.get(lid)); print("model:", model.get(lid)); print("expected:", rep.get("expected"))
        return 0 if impl.get(lid) == rep.get("expected") else 1
    desc = json.loads(case)
    os.makedirs(TMP, exist_ok=True)
    kind = desc["kind"]
    if kind == "xlsx":
        path = os.path.join(TMP, "replay.xlsx")
        nf = [(str(i), f) for i, f in desc["customs"]]
        xlsxgen.write_xlsx(path, nf, [None if x is None else str(x) for x in desc["xfs"]], desc["date1904"],
                           desc["cells"], prefix=desc["prefix"], decoys=desc["decoys"], gt=desc.get("gt", True),
                           escape=desc.get("escape", 0))
        cmd = "xlsxf"
    elif kind in ("xls", "xlsb"):
        path = os.path.join(TMP, "replay." + kind)
        cells = [tuple(c) for c in desc["cells"]]
        customs = [tuple(c) for c in desc["customs"]]
        if kind == "xls":
            b5 = desc.get("biff5")
            biffgen_c10.write_xls(path, customs, desc["xfs"], desc["is_1904"], cells, biff5=tuple(b5) if b5 else None)
        else:
            biffgen_c10.write_xlsb(path, customs, desc["xfs"], desc["is_1904"], cells,
                                   styles=bytes.fromhex(desc["styles"]) if desc.get("styles") else None,
                                   short_cols=desc.get("short_cols", ()))
        cmd = kind + "f"
    else:
        print("cannot replay", kind); return 2
    impl = ctx.run_impl(["r\tnumfmt\t%s\t%s" % (cmd, path)])
    print("file :", path); print("impl :", impl.get("r")); print("expected:", rep.get("expected"))
    got, exp = (impl.get("r") or "").split(","), (rep.get("expected") or "").split(",")
    # '?' = nothing specified for that cell (style index out of range)
    return 0 if len(got) == len(exp) and all(e == "?" or e == g for g, e in zip(got, exp)) else 1
