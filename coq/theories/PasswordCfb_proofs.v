(* PasswordCfb_proofs.v — proofs for property C20, OOXML part: the signature check of
   Header::from_reader (byte level), Directory::from_slice on a written entry, has_directory over
   a directory array, check_for_password_protected. *)
From Calamine Require Import Prelude PasswordCfb.
Open Scope N_scope.

(* ================================================================== signature check *)
Lemma firstn8_firstn512 : forall f : list N, firstn 8 (firstn 512 f) = firstn 8 f.
Proof. intros f. rewrite firstn_firstn. reflexivity. Qed.

(* MAIN (byte level): input that does not start with the eight OLE signature bytes is rejected by
   Header::from_reader — with Io when it is shorter than 512 bytes, with Ole otherwise *)
Theorem non_ole_rejected : forall f,
  bytes_eqb (firstn 8 f) OLE_SIG = false ->
  header_from_reader f = Err E_IO \/ header_from_reader f = Err E_OLE.
Proof.
  intros f H. unfold header_from_reader.
  destruct (length f <? 512)%nat; [left; reflexivity|right].
  rewrite firstn8_firstn512, H. reflexivity.
Qed.

(* a zip local-file-header signature is not the OLE signature *)
Lemma zip_not_ole : forall f, firstn 4 f = ZIP_LOCAL -> bytes_eqb (firstn 8 f) OLE_SIG = false.
Proof.
  intros f H. destruct f as [|a [|b [|c [|d f]]]]; try discriminate.
  cbn [firstn] in H. unfold ZIP_LOCAL in H. inversion H. subst. reflexivity.
Qed.

Theorem zip_rejected : forall f, firstn 4 f = ZIP_LOCAL ->
  header_from_reader f = Err E_IO \/ header_from_reader f = Err E_OLE.
Proof. intros f H. apply non_ole_rejected. apply zip_not_ole. exact H. Qed.

Section CfbNew.
Variable load : header -> list N -> outcome (list N).
Variable after : header -> list dentry -> list N -> outcome unit.

Lemma cfb_dirs_header_err : forall f e, header_from_reader f = Err e ->
  cfb_dirs load after f = Err e.
Proof. intros f e H. unfold cfb_dirs. rewrite H. reflexivity. Qed.

(* MAIN (ooxml, converse): whatever the rest of Cfb::new does, a file that does not start with
   the OLE signature — every zip, hence every unencrypted xlsx / xlsb — passes the password check
   and the reader goes on to open the zip *)
Theorem non_ole_not_password : forall f zip,
  bytes_eqb (firstn 8 f) OLE_SIG = false ->
  ooxml_check (cfb_dirs load after f) = Ok tt /\
  ooxml_new (cfb_dirs load after f) zip = zip.
Proof.
  intros f zip H. destruct (non_ole_rejected f H) as [E|E];
    rewrite (cfb_dirs_header_err f _ E); split; reflexivity.
Qed.

Corollary zip_not_password : forall f zip, firstn 4 f = ZIP_LOCAL ->
  ooxml_check (cfb_dirs load after f) = Ok tt /\
  ooxml_new (cfb_dirs load after f) zip = zip.
Proof. intros f zip H. apply non_ole_not_password. apply zip_not_ole. exact H. Qed.

Corollary zip_no_false_positive : forall f zip, firstn 4 f = ZIP_LOCAL ->
  (header_from_reader f = Err E_IO \/ header_from_reader f = Err E_OLE) /\
  ooxml_check (cfb_dirs load after f) = Ok tt /\
  ooxml_new (cfb_dirs load after f) zip = zip.
Proof.
  intros f zip H. split; [exact (zip_rejected f H)|]. exact (zip_not_password f zip H).
Qed.
End CfbNew.

(* ================================================================== has_directory *)
Lemma bytes_eqb_refl : forall a, bytes_eqb a a = true.
Proof. induction a as [|x a IH]; cbn [bytes_eqb]; [reflexivity|]. rewrite N.eqb_refl. exact IH. Qed.

Lemma bytes_eqb_eq : forall a b, bytes_eqb a b = true -> a = b.
Proof.
  induction a as [|x a IH]; intros [|y b] H; cbn [bytes_eqb] in H; try discriminate; [reflexivity|].
  apply andb_prop in H. destruct H as [H1 H2]. apply N.eqb_eq in H1. rewrite (IH b H2), H1.
  reflexivity.
Qed.

Lemma has_directory_iff : forall dirs name,
  has_directory dirs name = true <-> exists d, In d dirs /\ d_name d = name.
Proof.
  intros dirs name. unfold has_directory. rewrite existsb_exists. split.
  - intros (d & Hin & H). exists d. split; [exact Hin|]. apply bytes_eqb_eq. exact H.
  - intros (d & Hin & H). exists d. split; [exact Hin|]. rewrite H. apply bytes_eqb_refl.
Qed.

(* MAIN (ooxml, positive, over a parsed directory): an entry named EncryptedPackage at any index,
   among any other entries (any names, starts, sizes; storages such as \006DataSpaces, the
   EncryptionInfo stream, the root entry), makes the check answer Password; the zip is never
   opened *)
Theorem encrypted_package_is_password : forall before d after_ zip,
  d_name d = ENCRYPTED_PACKAGE ->
  ooxml_check (Ok (before ++ d :: after_)) = Err E_PASSWORD /\
  ooxml_new (Ok (before ++ d :: after_)) zip = Err E_PASSWORD.
Proof.
  intros before d after_ zip H.
  assert (Hd : has_directory (before ++ d :: after_) ENCRYPTED_PACKAGE = true).
  { apply has_directory_iff. exists d. split; [|exact H]. apply in_or_app. right. left.
    reflexivity. }
  unfold ooxml_new, ooxml_check. rewrite Hd. split; reflexivity.
Qed.

(* converse over a parsed directory: no entry of that name, no Password (and an unreadable
   compound file is not reported either) *)
Theorem no_encrypted_package_not_password : forall cfb,
  (forall dirs, cfb = Ok dirs -> forall d, In d dirs -> d_name d <> ENCRYPTED_PACKAGE) ->
  ooxml_check cfb <> Err E_PASSWORD.
Proof.
  intros cfb H. unfold ooxml_check. destruct cfb as [dirs|e| |]; try discriminate.
  destruct (has_directory dirs ENCRYPTED_PACKAGE) eqn:E; [|discriminate].
  apply has_directory_iff in E. destruct E as (d & Hin & Hd).
  exfalso. exact (H dirs eq_refl d Hin Hd).
Qed.

(* ================================================================== Directory::from_slice *)
Lemma utf16le_ascii_length : forall s, length (utf16le_ascii s) = (2 * length s)%nat.
Proof. induction s as [|c s IH]; cbn [utf16le_ascii length]; lia. Qed.

Lemma ascii_not_surrogate : forall c, c <= 127 -> is_high c = false /\ is_low c = false.
Proof. intros c H. unfold is_high, is_low. split; lia. Qed.

(* the decoder over an ASCII name followed by the terminator *)
Lemma utf16_sm_ascii : forall s rest,
  forallb (fun c => (1 <=? c) && (c <=? 127)) s = true ->
  until_nul (utf16_sm false (utf16le_ascii s ++ 0 :: 0 :: rest) None 0) = s.
Proof.
  induction s as [|c s IH]; intros rest H.
  - cbn [utf16le_ascii app utf16_sm].
    change (0 * 256 + 0) with 0. change (is_high 0) with false. change (is_low 0) with false.
    cbn iota. change (0 =? 0) with true. cbn iota. cbn [until_nul].
    change (0 =? 0) with true. reflexivity.
  - cbn [forallb] in H. apply andb_prop in H. destruct H as [Hc Hs].
    assert (Hc1 : 1 <= c) by lia. assert (Hc2 : c <= 127) by lia.
    cbn [utf16le_ascii app utf16_sm].
    replace (0 * 256 + c) with c by lia.
    destruct (ascii_not_surrogate c Hc2) as [Hh Hl]. rewrite Hh, Hl.
    change (0 =? 0) with true. cbn iota. cbn [until_nul].
    destruct (c =? 0) eqn:E; [lia|]. rewrite (IH rest Hs). reflexivity.
Qed.

Lemma name_field_shape : forall name pad, (length name <= 31)%nat ->
  exists rest, name_field name pad = utf16le_ascii name ++ 0 :: 0 :: rest /\
               length (name_field name pad) = 64%nat.
Proof.
  intros name pad H. unfold name_field.
  pose proof (utf16le_ascii_length name) as Hl.
  rewrite firstn_app. rewrite firstn_all2 by lia.
  replace (64 - length (utf16le_ascii name))%nat with (2 + (62 - 2 * length name))%nat by lia.
  cbn [app firstn plus].
  exists (firstn (62 - 2 * length name) (pad ++ repeat 0 64)). split; [reflexivity|].
  rewrite app_length. cbn [length]. rewrite firstn_length, app_length, repeat_length. lia.
Qed.

Lemma starts_with_ascii : forall p c rest, c <= 127 -> In p [[239; 187; 191]; [255; 254]; [254; 255]] ->
  starts_with p (c :: rest) = false.
Proof.
  intros p c rest Hc Hin. cbn [In] in Hin.
  destruct Hin as [<-|[<-|[<-|[]]]]; unfold starts_with; cbn [length firstn bytes_eqb];
    (destruct (c =? _) eqn:E; [lia|reflexivity]).
Qed.

(* no byte-order mark is sniffed in front of an ASCII name (nor in front of the empty name) *)
Lemma decode_bom_ascii : forall s rest,
  forallb (fun c => (1 <=? c) && (c <=? 127)) s = true ->
  utf16le_decode_bom (utf16le_ascii s ++ 0 :: 0 :: rest)
  = utf16_sm false (utf16le_ascii s ++ 0 :: 0 :: rest) None 0.
Proof.
  intros s rest H. reflexivity.
Qed.

Lemma firstn_app_exact : forall (A : Type) (a b : list A) n, length a = n -> firstn n (a ++ b) = a.
Proof.
  intros A a b n H. rewrite firstn_app, H, Nat.sub_diag. cbn [firstn].
  rewrite app_nil_r. apply firstn_all2. lia.
Qed.

Lemma skipn_app_exact : forall (A : Type) (a b : list A) n, length a = n -> skipn n (a ++ b) = b.
Proof.
  intros A a b n H. rewrite skipn_app, H, Nat.sub_diag. cbn [skipn].
  rewrite <- H, skipn_all. reflexivity.
Qed.

(* MAIN (entry level): Directory::from_slice reads back the name a writer stored, for any ASCII
   name of up to 31 characters, any bytes behind the terminator, any other fields, both sector
   sizes *)
Theorem directory_from_slice_name : forall name pad mid start size ss,
  ascii_name name = true ->
  exists s l, directory_from_slice (dir_entry_bytes name pad mid start size) ss
              = Ok (mkDentry name s l).
Proof.
  intros name pad mid start size ss H. unfold ascii_name in H. apply andb_prop in H.
  destruct H as [Hasc Hlen]. apply Nat.leb_le in Hlen.
  destruct (name_field_shape name pad Hlen) as (rest & Hshape & Hl64).
  assert (Hlen128 : length (dir_entry_bytes name pad mid start size) = 128%nat).
  { unfold dir_entry_bytes. rewrite !app_length, Hl64, firstn_length, app_length, repeat_length.
    cbn [le_bytes length]. lia. }
  assert (Hname : firstn 64 (dir_entry_bytes name pad mid start size) = name_field name pad).
  { unfold dir_entry_bytes. apply firstn_app_exact. exact Hl64. }
  unfold directory_from_slice. rewrite Hlen128, Hname, Hshape.
  rewrite (decode_bom_ascii name rest Hasc), (utf16_sm_ascii name rest Hasc).
  change (128 <? 64)%nat with false. change (128 <? 120)%nat with false.
  change (128 <? 124)%nat with false. change (128 <? 128)%nat with false. cbn iota.
  destruct (ss =? 512); eexists; eexists; reflexivity.
Qed.

(* chunks(128) over a directory chain made of whole entries *)
Lemma chunks_aux_concat : forall (ents : list (list N)) fuel,
  Forall (fun e => length e = 128%nat) ents -> (length ents <= fuel)%nat ->
  chunks_aux fuel 128 (concat ents) = ents.
Proof.
  induction ents as [|e ents IH]; intros fuel Hall Hf.
  - destruct fuel; reflexivity.
  - destruct fuel as [|f]; [cbn in Hf; lia|].
    inversion Hall as [|? ? He Hes]. subst.
    cbn [concat chunks_aux].
    destruct (e ++ concat ents) as [|x xs] eqn:E.
    + apply app_eq_nil in E. destruct E as [-> _]. discriminate.
    + rewrite <- E. rewrite (firstn_app_exact _ e (concat ents) _ He).
      rewrite (skipn_app_exact _ e (concat ents) _ He).
      rewrite IH; [reflexivity|exact Hes|cbn [length] in Hf; lia].
Qed.

Lemma concat_length_128 : forall ents : list (list N),
  Forall (fun e => length e = 128%nat) ents -> (length ents <= length (concat ents))%nat.
Proof.
  induction 1 as [|e ents He _ IH]; [cbn; lia|]. cbn [concat length]. rewrite app_length. lia.
Qed.

Lemma chunks_concat : forall ents : list (list N),
  Forall (fun e => length e = 128%nat) ents -> chunks 128 (concat ents) = ents.
Proof.
  intros ents H. unfold chunks. apply chunks_aux_concat; [exact H|].
  apply concat_length_128. exact H.
Qed.

Lemma from_slice_total : forall e ss, length e = 128%nat ->
  exists d, directory_from_slice e ss = Ok d.
Proof.
  intros e ss H. unfold directory_from_slice. rewrite H.
  change (128 <? 64)%nat with false. change (128 <? 120)%nat with false.
  change (128 <? 124)%nat with false. change (128 <? 128)%nat with false. cbn iota.
  destruct (ss =? 512); eexists; reflexivity.
Qed.

Lemma all_ok_map_total : forall ss (ents : list (list N)),
  Forall (fun e => length e = 128%nat) ents ->
  exists ds, all_ok (map (fun c => directory_from_slice c ss) ents) = Ok ds /\
             length ds = length ents /\
             forall i e, nth_error ents i = Some e ->
               exists d, nth_error ds i = Some d /\ directory_from_slice e ss = Ok d.
Proof.
  intros ss. induction 1 as [|e ents He _ IH].
  - exists []. split; [reflexivity|]. split; [reflexivity|]. intros [|i] e H; discriminate.
  - destruct IH as (ds & Hds & Hlen & Hnth). destruct (from_slice_total e ss He) as (d & Hd).
    exists (d :: ds). cbn [map all_ok]. rewrite Hd, Hds. cbn [obind]. split; [reflexivity|].
    split; [cbn [length]; lia|]. intros [|i] e' H'.
    + cbn [nth_error] in *. inversion H'. subst. exists d. split; [reflexivity|exact Hd].
    + cbn [nth_error] in *. apply Hnth. exact H'.
Qed.

(* MAIN (directory-chain level): a directory chain of whole 128-byte entries, one of which — at
   any index — is the entry a writer lays out for the name EncryptedPackage (any bytes behind the
   terminator, any other fields, any start and size), all other entries arbitrary: the directory
   array is built without panic and the check answers Password *)
Theorem encrypted_ooxml_is_password : forall before after_ pad mid start size ss zip,
  Forall (fun e => length e = 128%nat) before ->
  Forall (fun e => length e = 128%nat) after_ ->
  exists ds,
    parse_dirs (concat (before ++ dir_entry_bytes ENCRYPTED_PACKAGE pad mid start size :: after_)) ss
      = Ok ds /\
    ooxml_check (Ok ds) = Err E_PASSWORD /\
    ooxml_new (Ok ds) zip = Err E_PASSWORD.
Proof.
  intros before after_ pad mid start size ss zip Hb Ha.
  set (ep := dir_entry_bytes ENCRYPTED_PACKAGE pad mid start size).
  destruct (directory_from_slice_name ENCRYPTED_PACKAGE pad mid start size ss eq_refl)
    as (s & l & Hep). fold ep in Hep.
  assert (Hlen : length ep = 128%nat).
  { unfold ep, dir_entry_bytes.
    destruct (name_field_shape ENCRYPTED_PACKAGE pad) as (rest & _ & Hl64); [cbn; lia|].
    rewrite !app_length, Hl64, firstn_length, app_length, repeat_length.
    cbn [le_bytes length]. lia. }
  assert (Hall : Forall (fun e => length e = 128%nat) (before ++ ep :: after_)).
  { apply Forall_app. split; [exact Hb|]. constructor; assumption. }
  destruct (all_ok_map_total ss _ Hall) as (ds & Hds & Hlen' & Hnth).
  destruct (Hnth (length before) ep) as (d & Hd & Hfs).
  { rewrite nth_error_app2 by lia. rewrite Nat.sub_diag. reflexivity. }
  rewrite Hep in Hfs. inversion Hfs. subst d.
  exists ds. unfold parse_dirs. rewrite (chunks_concat _ Hall), Hds. cbn [obind].
  assert (Hin : In (mkDentry ENCRYPTED_PACKAGE s l) ds) by (eapply nth_error_In; exact Hd).
  destruct ds as [|d0 ds0]; [destruct Hin|]. split; [reflexivity|].
  assert (Hhas : has_directory (d0 :: ds0) ENCRYPTED_PACKAGE = true).
  { apply has_directory_iff. eexists. split; [exact Hin|reflexivity]. }
  unfold ooxml_new, ooxml_check. rewrite Hhas. split; reflexivity.
Qed.
