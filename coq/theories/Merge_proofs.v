(* Merge_proofs.v — lemmas and theorems of property C17 (model and spec: Merge.v).
   Unbounded proofs by induction over the region / table / sheet lists; the coordinate
   round trip comes from Col26_proofs.v (agent c14), the window lemma of Range::range
   (Range_proofs.window_spec, property C05) enters through the premise [WindowSpec] of
   [table_geometry_gen] and is discharged in [table_geometry]. *)
From Calamine Require Import Prelude Col26 Col26_proofs Range Range_spec Range_proofs Merge.
Open Scope N_scope.
Set Implicit Arguments.

(* ------------------------------------------------------------------ strings *)
Lemma str_eqb_refl : forall s, str_eqb s s = true.
Proof. induction s as [|x s IH]; cbn; [reflexivity|]. rewrite N.eqb_refl. exact IH. Qed.

Lemma str_eqb_eq : forall a b, str_eqb a b = true <-> a = b.
Proof.
  induction a as [|x a IH]; intros [|y b]; cbn; split; intros H; try reflexivity; try discriminate.
  - apply andb_true_iff in H. destruct H as [H1 H2]. apply N.eqb_eq in H1. apply IH in H2.
    subst. reflexivity.
  - inversion H; subst. rewrite N.eqb_refl. apply IH. reflexivity.
Qed.

Lemma str_eqb_neq : forall a b, str_eqb a b = false <-> a <> b.
Proof.
  intros a b. split.
  - intros H E. apply str_eqb_eq in E. congruence.
  - intros H. destruct (str_eqb a b) eqn:E; [|reflexivity]. apply str_eqb_eq in E. contradiction.
Qed.

Lemma str_eqb_sym : forall a b, str_eqb a b = str_eqb b a.
Proof.
  intros a b. destruct (str_eqb a b) eqn:E.
  - apply str_eqb_eq in E. subst. symmetry. apply str_eqb_refl.
  - symmetry. apply str_eqb_neq. apply str_eqb_neq in E. congruence.
Qed.

Lemma after_colon_none : forall s, no_colon s = true -> after_colon s = None.
Proof.
  unfold no_colon. induction s as [|c s IH]; cbn; intros H; [reflexivity|].
  destruct (c =? ch_colon) eqn:E; cbn in H; [discriminate|]. apply IH. exact H.
Qed.

Lemma after_colon_app : forall p n, no_colon p = true ->
  after_colon (p ++ ch_colon :: n) = Some n.
Proof.
  unfold no_colon. induction p as [|c p IH]; intros n H; cbn.
  - rewrite N.eqb_refl. reflexivity.
  - cbn in H. destruct (c =? ch_colon) eqn:E; cbn in H; [discriminate|]. apply IH. exact H.
Qed.

Lemma local_name_qn : forall p n, prefix_ok p = true -> no_colon n = true ->
  local_name (qn p n) = n.
Proof.
  intros [p|] n Hp Hn; unfold local_name, qn.
  - cbn [app]. rewrite after_colon_app by exact Hp. reflexivity.
  - rewrite after_colon_none by exact Hn. reflexivity.
Qed.

Lemma first_attr_mid : forall k v before after,
  existsb (key_is k) before = false ->
  first_attr (before ++ (k, v) :: after) k = Some v.
Proof.
  intros k v. induction before as [|[k' v'] before IH]; intros after H; cbn.
  - rewrite str_eqb_refl. reflexivity.
  - cbn in H. apply orb_false_iff in H. destruct H as [H1 H2].
    unfold key_is in H1. cbn [fst] in H1. rewrite H1. apply IH. exact H2.
Qed.

(* ------------------------------------------------------------------ coordinates *)
Lemma to_lower_colon : forall c, (to_lower c =? ch_colon) = (c =? ch_colon).
Proof.
  intros c. unfold to_lower, is_upper, ch_A, ch_Z, ch_colon.
  destruct ((65 <=? c) && (c <=? 90)) eqn:E; [|reflexivity].
  apply andb_true_iff in E. destruct E as [E1 E2]. apply N.leb_le in E1. apply N.leb_le in E2.
  destruct (c + 32 =? 58) eqn:A; destruct (c =? 58) eqn:B; try reflexivity;
    try apply N.eqb_eq in A; try apply N.eqb_eq in B; lia.
Qed.

Lemma split_on_lower : forall l cur,
  split_on ch_colon (map to_lower l) (map to_lower cur) =
  map (map to_lower) (split_on ch_colon l cur).
Proof.
  induction l as [|c l IH]; intros cur; cbn [map split_on].
  - rewrite map_rev. reflexivity.
  - rewrite to_lower_colon. destruct (c =? ch_colon).
    + cbn [map]. rewrite map_rev. f_equal. apply (IH []).
    + apply (IH (c :: cur)).
Qed.

Lemma collect_parts_lower : forall ps,
  collect_parts (map (map to_lower) ps) = collect_parts ps.
Proof.
  induction ps as [|p ps IH]; [reflexivity|].
  cbn [map collect_parts]. rewrite get_row_column_lower, IH. reflexivity.
Qed.

Lemma get_dimension_lower : forall s, get_dimension (map to_lower s) = get_dimension s.
Proof.
  intros s. unfold get_dimension.
  change (split_on ch_colon (map to_lower s) []) with
         (split_on ch_colon (map to_lower s) (map to_lower [])).
  rewrite split_on_lower, collect_parts_lower. reflexivity.
Qed.

Definition ROW_LIMIT : N := 999999999.        (* rows whose 1-based number has at most 9 digits *)
Definition COL_LIMIT : N := 308915776.        (* 26^6: columns of at most 6 letters *)

Lemma corner_eqb_eq : forall a b : pos, corner_eqb a b = true -> a = b.
Proof.
  intros [a1 a2] [b1 b2] H. unfold corner_eqb in H. cbn [fst snd] in H.
  apply andb_true_iff in H. destruct H as [H1 H2].
  apply N.eqb_eq in H1. apply N.eqb_eq in H2. subst. reflexivity.
Qed.

(* merge_ref_roundtrip: every legal spelling of a reference decodes to its corners (through
   Col26.get_dimension, the model of the hardened scanner; Col26_proofs.get_dimension_pair /
   get_dimension_single) *)
Theorem merge_ref_roundtrip : forall st lower d,
  dims_ok ROW_LIMIT COL_LIMIT d -> ref_style_legal st d = true ->
  get_dimension (render_ref st lower d) = Ok d.
Proof.
  intros st lower [[r0 c0] [r1 c1]] (H1 & H2 & H3 & H4) L.
  cbn [fst snd] in *. unfold ROW_LIMIT, COL_LIMIT in *.
  assert (G : get_dimension (match st with
                             | RefPair => pair_text ((r0, c0), (r1, c1))
                             | RefSingle => a1_name r0 c0
                             | RefRaw s => s
                             end) = Ok ((r0, c0), (r1, c1))).
  { destruct st as [| |s]; cbn in L.
    - unfold pair_text. cbn [fst snd].
      apply get_dimension_pair; unfold ROW_TEXT_LIMIT, COL_TEXT_LIMIT; lia.
    - apply corner_eqb_eq in L. inversion L; subst.
      apply get_dimension_single; unfold ROW_TEXT_LIMIT, COL_TEXT_LIMIT; lia.
    - discriminate. }
  unfold render_ref. cbn [fst snd]. destruct lower; [rewrite get_dimension_lower|]; exact G.
Qed.

(* ------------------------------------------------------------------ totality *)
(* an outcome that is a value or an error: no panic, no fuel exhaustion *)
Definition safe (A : Type) (o : outcome A) : Prop :=
  match o with Ok _ | Err _ => True | Panic | OutOfFuel => False end.

Lemma safe_bind : forall (A B : Type) (o : outcome A) (f : A -> outcome B),
  safe o -> (forall a, safe (f a)) -> safe (obind o f).
Proof. intros A B [a|e| |] f H F; cbn in *; auto. Qed.

Lemma safe_not_panic : forall (A : Type) (o : outcome A), safe o -> o <> Panic /\ o <> OutOfFuel.
Proof. intros A [a|e| |] H; cbn in H; try contradiction; split; discriminate. Qed.

Lemma not_panic_safe : forall (A : Type) (o : outcome A), o <> Panic /\ o <> OutOfFuel -> safe o.
Proof. intros A [a|e| |] [H1 H2]; cbn; auto. Qed.

(* the scanner is total: no byte string makes it panic (Col26_proofs.get_dimension_total, the
   get_dimension conjunct of C14_no_panic_a1) *)
Theorem get_dimension_safe : forall s, safe (get_dimension s).
Proof. intros s. apply not_panic_safe. apply get_dimension_total. Qed.

(* a reversed reference (B2:A1) is accepted as written; 11-digit rows and 8-letter columns are
   errors, not overflows; row 4294967296 (index u32::MAX) is the last one accepted *)
Example hardened_scanner_examples :
  get_dimension [66; 50; 58; 65; 49] = Ok ((1, 1), (0, 0)) /\
  get_dimension [65; 57; 57; 57; 57; 57; 57; 57; 57; 57; 57; 57] = Err E_RANGE /\
  get_dimension [65; 65; 65; 65; 65; 65; 65; 65; 49] = Err E_RANGE /\
  get_dimension [65; 52; 50; 57; 52; 57; 54; 55; 50; 57; 54] = Ok ((4294967295, 0), (4294967295, 0)) /\
  get_dimension [65; 52; 50; 57; 52; 57; 54; 55; 50; 57; 55] = Err E_RANGE.
Proof. repeat split; vm_compute; reflexivity. Qed.

Lemma dims_ok_weaken : forall R C R' C' d, R <= R' -> C <= C' -> dims_ok R C d -> dims_ok R' C' d.
Proof. intros R C R' C' d HR HC (A & B & E & F). repeat split; lia. Qed.

Lemma xlsx_dims_limit : forall d, dims_ok XLSX_ROWS XLSX_COLS d -> dims_ok ROW_LIMIT COL_LIMIT d.
Proof.
  intros d. apply dims_ok_weaken; unfold XLSX_ROWS, XLSX_COLS, ROW_LIMIT, COL_LIMIT; lia.
Qed.

Lemma dims_okb_ok : forall R C d, dims_okb R C d = true <-> dims_ok R C d.
Proof.
  intros R C d. unfold dims_okb, dims_ok. rewrite !andb_true_iff, !N.leb_le, !N.ltb_lt. tauto.
Qed.

(* ------------------------------------------------------------------ xlsx: one sheet part *)
Definition mc_start (e : event) : bool :=
  match e with EStart n _ => str_eqb (local_name n) s_mergeCell | _ => false end.
Definition mcs_start (e : event) : bool :=
  match e with EStart n _ => str_eqb (local_name n) s_mergeCells | _ => false end.

Lemma merge_start_split : forall e, merge_start e = mc_start e || mcs_start e.
Proof. intros [n a|n|s|s]; reflexivity. Qed.

Lemma existsb_merge_start : forall l, existsb merge_start l = false ->
  existsb mc_start l = false /\ existsb mcs_start l = false.
Proof.
  induction l as [|e l IH]; cbn; intros H; [split; reflexivity|].
  apply orb_false_iff in H. destruct H as [H1 H2]. rewrite merge_start_split in H1.
  apply orb_false_iff in H1. destruct H1 as [A B]. destruct (IH H2) as [C D].
  rewrite A, B, C, D. split; reflexivity.
Qed.

Lemma pad_not_start : forall l, forallb is_pad l = true ->
  existsb mc_start l = false /\ existsb mcs_start l = false.
Proof.
  induction l as [|e l IH]; cbn; intros H; [split; reflexivity|].
  apply andb_true_iff in H. destruct H as [H1 H2]. destruct (IH H2) as [C D].
  destruct e; cbn in H1; try discriminate; cbn; rewrite ?C, ?D; split; reflexivity.
Qed.

Lemma scan_quiet_app : forall l rest, existsb mc_start l = false ->
  scan_merge_regions (l ++ rest) = scan_merge_regions rest.
Proof.
  induction l as [|e l IH]; intros rest H; [reflexivity|].
  cbn in H. apply orb_false_iff in H. destruct H as [H1 H2].
  cbn [app]. destruct e as [n a|n|s|s]; cbn [scan_merge_regions]; try (apply IH; exact H2).
  cbn in H1. rewrite H1. apply IH. exact H2.
Qed.

Lemma scan_quiet : forall l, existsb mc_start l = false -> scan_merge_regions l = Ok [].
Proof.
  intros l H. rewrite <- (app_nil_r l). rewrite scan_quiet_app by exact H. reflexivity.
Qed.

Lemma no_colon_mergeCell : no_colon s_mergeCell = true. Proof. reflexivity. Qed.
Lemma no_colon_mergeCells : no_colon s_mergeCells = true. Proof. reflexivity. Qed.

Lemma reg_legal_parts : forall rc, reg_legal rc = true ->
  ref_style_legal (rc_style (snd rc)) (fst rc) = true /\
  existsb (key_is s_ref) (rc_before (snd rc)) = false /\
  forallb is_pad (rc_pad (snd rc)) = true.
Proof.
  intros rc H. unfold reg_legal in H. rewrite !andb_true_iff in H.
  destruct H as [[[A B] C] _]. apply negb_true_iff in B. auto.
Qed.

Lemma scan_regions : forall p regs rest,
  prefix_ok p = true ->
  forallb reg_legal regs = true ->
  Forall (dims_ok XLSX_ROWS XLSX_COLS) (map fst regs) ->
  scan_merge_regions (flat_map (enc_region p) regs ++ rest) =
  do r <- scan_merge_regions rest; Ok (map fst regs ++ r).
Proof.
  intros p regs rest Hp. induction regs as [|rc regs IH]; intros HL HD.
  - cbn. destruct (scan_merge_regions rest); reflexivity.
  - cbn [forallb] in HL. apply andb_true_iff in HL. destruct HL as [HL1 HL2].
    cbn [map] in HD. inversion HD as [|? ? HD1 HD2]; subst.
    destruct (reg_legal_parts _ HL1) as (A & B & C).
    cbn [flat_map]. unfold enc_region at 1. cbn [app].
    cbn [scan_merge_regions]. rewrite (local_name_qn _ _ Hp no_colon_mergeCell).
    rewrite str_eqb_refl. cbn [app]. rewrite first_attr_mid by exact B.
    rewrite merge_ref_roundtrip by (try apply xlsx_dims_limit; assumption).
    cbn [obind]. rewrite <- app_assoc.
    rewrite scan_quiet_app by (apply pad_not_start; exact C).
    rewrite IH by assumption.
    destruct (scan_merge_regions rest); reflexivity.
Qed.

Lemma sheet_legal_parts : forall s, sheet_legal s = true ->
  forallb reg_legal (se_regs s) = true /\
  forallb table_choice_legal (se_tables s) = true /\
  prefix_ok (se_prefix s) = true /\ prefix_ok (se_pkg_prefix s) = true /\
  existsb merge_start (se_pre s) = false /\ existsb merge_start (se_post s) = false /\
  forallb is_pad (se_pad0 s) = true /\
  forallb other_rel_legal (se_other_rels s) = true /\
  no_slash (se_file s) = true.
Proof.
  intros s H. unfold sheet_legal in H. rewrite !andb_true_iff in H.
  destruct H as [[[[[[[[[A B] C] D] E] F] G] I] J] _].
  apply negb_true_iff in E. apply negb_true_iff in F. repeat split; assumption.
Qed.

(* load_merged_regions sees exactly the declared regions of a sheet part *)
Lemma scan_enc_sheet : forall s,
  sheet_legal s = true -> Forall (dims_ok XLSX_ROWS XLSX_COLS) (se_regions s) ->
  scan_merge_regions (enc_sheet s) = Ok (se_regions s).
Proof.
  intros s HL HD. destruct (sheet_legal_parts _ HL) as (A & _ & C & _ & E & F & G & _).
  destruct (existsb_merge_start _ E) as [E1 _]. destruct (existsb_merge_start _ F) as [F1 _].
  destruct (pad_not_start _ G) as [G1 _].
  unfold enc_sheet, se_regions in *. rewrite scan_quiet_app by exact E1.
  assert (Q : str_eqb (local_name (qn (se_prefix s) s_mergeCells)) s_mergeCell = false).
  { rewrite (local_name_qn _ _ C no_colon_mergeCells). reflexivity. }
  destruct (se_regs s) as [|rc regs] eqn:R.
  - destruct (se_wrap_empty s); cbn [app map].
    + cbn [scan_merge_regions]. rewrite Q. rewrite <- app_assoc.
      rewrite scan_quiet_app by exact G1. cbn [app scan_merge_regions].
      apply scan_quiet. exact F1.
    + apply scan_quiet. exact F1.
  - cbn [app]. cbn [scan_merge_regions]. rewrite Q.
    rewrite <- !app_assoc. rewrite scan_quiet_app by exact G1.
    rewrite scan_regions; try assumption.
    cbn [app scan_merge_regions]. rewrite (scan_quiet _ F1). cbn [obind].
    rewrite app_nil_r. reflexivity.
Qed.

(* read_merge_cells over the body of <mergeCells> *)
Lemma rmc_pad_app : forall l rest, forallb is_pad l = true ->
  read_merge_cells (l ++ rest) = read_merge_cells rest.
Proof.
  induction l as [|e l IH]; intros rest H; [reflexivity|].
  cbn in H. apply andb_true_iff in H. destruct H as [H1 H2].
  destruct e; cbn in H1; try discriminate; cbn [app read_merge_cells]; apply IH; exact H2.
Qed.

Lemma rmc_regions : forall p regs rest,
  prefix_ok p = true ->
  forallb reg_legal regs = true ->
  Forall (dims_ok XLSX_ROWS XLSX_COLS) (map fst regs) ->
  read_merge_cells (flat_map (enc_region p) regs ++ rest) =
  do r <- read_merge_cells rest; Ok (map fst regs ++ r).
Proof.
  intros p regs rest Hp. induction regs as [|rc regs IH]; intros HL HD.
  - cbn. destruct (read_merge_cells rest); reflexivity.
  - cbn [forallb] in HL. apply andb_true_iff in HL. destruct HL as [HL1 HL2].
    cbn [map] in HD. inversion HD as [|? ? HD1 HD2]; subst.
    destruct (reg_legal_parts _ HL1) as (A & B & C).
    cbn [flat_map]. unfold enc_region at 1. cbn [app].
    cbn [read_merge_cells]. rewrite (local_name_qn _ _ Hp no_colon_mergeCell).
    rewrite str_eqb_refl. cbn [app]. rewrite first_attr_mid by exact B.
    rewrite merge_ref_roundtrip by (try apply xlsx_dims_limit; assumption).
    cbn [obind].
    assert (Q : str_eqb s_mergeCell s_mergeCells = false) by reflexivity. rewrite Q.
    rewrite <- app_assoc. rewrite rmc_pad_app by exact C.
    rewrite IH by assumption.
    destruct (read_merge_cells rest); reflexivity.
Qed.

Lemma fmc_quiet_app : forall l rest, existsb mcs_start l = false ->
  find_merge_cells (l ++ rest) = find_merge_cells rest.
Proof.
  induction l as [|e l IH]; intros rest H; [reflexivity|].
  cbn in H. apply orb_false_iff in H. destruct H as [H1 H2].
  cbn [app]. destruct e as [n a|n|s|s]; cbn [find_merge_cells]; try (apply IH; exact H2).
  cbn in H1. rewrite H1. apply IH. exact H2.
Qed.

Lemma fmc_quiet : forall l, existsb mcs_start l = false -> find_merge_cells l = Ok [].
Proof.
  intros l H. rewrite <- (app_nil_r l). rewrite fmc_quiet_app by exact H. reflexivity.
Qed.

(* worksheet_merge_cells sees exactly the declared regions of a sheet part *)
Lemma find_enc_sheet : forall s,
  sheet_legal s = true -> Forall (dims_ok XLSX_ROWS XLSX_COLS) (se_regions s) ->
  find_merge_cells (enc_sheet s) = Ok (se_regions s).
Proof.
  intros s HL HD. destruct (sheet_legal_parts _ HL) as (A & _ & C & _ & E & F & G & _).
  destruct (existsb_merge_start _ E) as [_ E2]. destruct (existsb_merge_start _ F) as [_ F2].
  unfold enc_sheet, se_regions in *. rewrite fmc_quiet_app by exact E2.
  assert (Q : str_eqb (local_name (qn (se_prefix s) s_mergeCells)) s_mergeCells = true).
  { rewrite (local_name_qn _ _ C no_colon_mergeCells). apply str_eqb_refl. }
  destruct (se_regs s) as [|rc regs] eqn:R.
  - destruct (se_wrap_empty s); cbn [app map].
    + cbn [find_merge_cells]. rewrite Q. rewrite <- app_assoc.
      rewrite rmc_pad_app by exact G. cbn [app read_merge_cells]. rewrite Q. reflexivity.
    + apply fmc_quiet. exact F2.
  - cbn [app]. cbn [find_merge_cells]. rewrite Q.
    rewrite <- !app_assoc. rewrite rmc_pad_app by exact G.
    rewrite rmc_regions; try assumption.
    cbn [app read_merge_cells]. rewrite Q. cbn [obind]. rewrite app_nil_r. reflexivity.
Qed.

(* ------------------------------------------------------------------ xlsx: the workbook level *)
Lemma legal_in : forall wb s, legal wb = true -> In s wb -> sheet_legal s = true.
Proof. intros wb s H I. unfold legal in H. rewrite forallb_forall in H. apply H. exact I. Qed.

Definition zip_has_sheets (z : zip) (wb : list sheet_e) : Prop :=
  forall s, In s wb -> zip_find z (se_path s) = Some (enc_sheet s).

Lemma read_merged_regions_exact : forall z wb,
  legal wb = true -> Forall sheet_dom wb -> zip_has_sheets z wb ->
  read_merged_regions z (sheets_of wb) = Ok (spec_all_merges wb).
Proof.
  intros z wb. induction wb as [|s wb IH]; intros HL HD HZ; [reflexivity|].
  cbn [sheets_of map read_merged_regions].
  rewrite (HZ s (or_introl eq_refl)).
  inversion HD as [|? ? [HD1 _] HD2]; subst.
  rewrite scan_enc_sheet; [|apply (legal_in (s :: wb)); [exact HL|left; reflexivity]|exact HD1].
  cbn [obind]. fold (sheets_of wb). rewrite IH.
  - reflexivity.
  - cbn [legal forallb] in HL. apply andb_true_iff in HL. apply HL.
  - exact HD2.
  - intros s' I. apply HZ. right. exact I.
Qed.

Lemma sheet_path_spec : forall wb name,
  sheet_path (sheets_of wb) name = option_map se_path (spec_sheet wb name).
Proof.
  induction wb as [|s wb IH]; intros name; [reflexivity|].
  cbn [sheets_of map sheet_path spec_sheet]. destruct (str_eqb (se_name s) name); [reflexivity|].
  apply IH.
Qed.

Lemma spec_sheet_in : forall wb name s, spec_sheet wb name = Some s -> In s wb /\ se_name s = name.
Proof.
  induction wb as [|s0 wb IH]; intros name s H; [discriminate|].
  cbn in H. destruct (str_eqb (se_name s0) name) eqn:E.
  - inversion H; subst. apply str_eqb_eq in E. split; [left; reflexivity|exact E].
  - destruct (IH _ _ H) as [A B]. split; [right; exact A|exact B].
Qed.

Lemma worksheet_merge_cells_exact : forall z wb name,
  legal wb = true -> Forall sheet_dom wb -> zip_has_sheets z wb ->
  worksheet_merge_cells z (sheets_of wb) name =
  option_map (fun s => Ok (se_regions s)) (spec_sheet wb name).
Proof.
  intros z wb name HL HD HZ. unfold worksheet_merge_cells. rewrite sheet_path_spec.
  destruct (spec_sheet wb name) as [s|] eqn:E; [|reflexivity].
  destruct (spec_sheet_in _ _ E) as [I _]. cbn [option_map].
  rewrite (HZ s I). rewrite find_enc_sheet; [reflexivity|apply (legal_in wb); assumption|].
  rewrite Forall_forall in HD. apply (HD s I).
Qed.

Lemma spec_sheet_nodup : forall wb s, NoDup (map se_name wb) -> In s wb ->
  spec_sheet wb (se_name s) = Some s.
Proof.
  induction wb as [|s0 wb IH]; intros s ND I; [contradiction|].
  cbn [map] in ND. inversion ND as [|? ? N1 N2]; subst.
  cbn [spec_sheet]. destruct I as [I|I].
  - subst. rewrite str_eqb_refl. reflexivity.
  - destruct (str_eqb (se_name s0) (se_name s)) eqn:E.
    + apply str_eqb_eq in E. exfalso. apply N1. rewrite E. apply in_map. exact I.
    + apply IH; assumption.
Qed.

Lemma worksheet_merge_cells_at_exact : forall z wb n,
  legal wb = true -> Forall sheet_dom wb -> zip_has_sheets z wb -> NoDup (map se_name wb) ->
  worksheet_merge_cells_at z (sheets_of wb) n =
  option_map (fun s => Ok (se_regions s)) (nth_error wb n).
Proof.
  intros z wb n HL HD HZ ND. unfold worksheet_merge_cells_at, sheets_of.
  rewrite nth_error_map. destruct (nth_error wb n) as [s|] eqn:E; [|reflexivity].
  cbn [option_map]. fold (sheets_of wb). rewrite worksheet_merge_cells_exact by assumption.
  rewrite spec_sheet_nodup; [reflexivity|exact ND|]. apply nth_error_In with n. exact E.
Qed.

(* attribution: merged_regions_by_sheet returns the regions of the sheets of that name, in order *)
Lemma merged_regions_by_sheet_exact : forall wb name,
  merged_regions_by_sheet (spec_all_merges wb) name =
  flat_map (fun s => if str_eqb (se_name s) name
                     then map (fun d => (se_name s, se_path s, d)) (se_regions s) else []) wb.
Proof.
  intros wb name. unfold merged_regions_by_sheet, spec_all_merges.
  induction wb as [|s wb IH]; [reflexivity|].
  cbn [flat_map]. rewrite filter_app, IH. f_equal.
  induction (se_regions s) as [|d ds IHd]; cbn [map filter fst].
  - destruct (str_eqb (se_name s) name); reflexivity.
  - destruct (str_eqb (se_name s) name) eqn:E; cbn [map] in *; rewrite IHd; reflexivity.
Qed.

Lemma flat_map_select : forall (A : Type) (f : sheet_e -> list A) wb s,
  NoDup (map se_name wb) -> In s wb ->
  flat_map (fun s' => if str_eqb (se_name s') (se_name s) then f s' else []) wb = f s.
Proof.
  intros A f. induction wb as [|s0 wb IH]; intros s ND I; [contradiction|].
  cbn [map] in ND. inversion ND as [|? ? N1 N2]; subst. cbn [flat_map].
  destruct I as [I|I].
  - subst. rewrite str_eqb_refl.
    assert (Z : flat_map (fun s' => if str_eqb (se_name s') (se_name s) then f s' else []) wb = []).
    { clear IH ND N2. induction wb as [|s1 wb IH1]; [reflexivity|]. cbn [flat_map].
      destruct (str_eqb (se_name s1) (se_name s)) eqn:E.
      - apply str_eqb_eq in E. exfalso. apply N1. left. exact E.
      - cbn [app]. apply IH1. intros X. apply N1. right. exact X. }
    rewrite Z. apply app_nil_r.
  - destruct (str_eqb (se_name s0) (se_name s)) eqn:E.
    + apply str_eqb_eq in E. exfalso. apply N1. rewrite E. apply in_map. exact I.
    + cbn [app]. apply IH; assumption.
Qed.

(* merge_list_exact_xlsx: count, order, corner coordinates and attribution by sheet, through
   every access path *)
Theorem merge_list_exact_xlsx : forall z wb,
  legal wb = true -> Forall sheet_dom wb -> zip_has_sheets z wb ->
  read_merged_regions z (sheets_of wb) = Ok (spec_all_merges wb) /\
  (forall name, worksheet_merge_cells z (sheets_of wb) name =
                option_map (fun s => Ok (se_regions s)) (spec_sheet wb name)) /\
  (NoDup (map se_name wb) ->
   (forall n, worksheet_merge_cells_at z (sheets_of wb) n =
              option_map (fun s => Ok (se_regions s)) (nth_error wb n)) /\
   (forall s, In s wb ->
      worksheet_merge_cells z (sheets_of wb) (se_name s) = Some (Ok (se_regions s)) /\
      merged_regions_by_sheet (spec_all_merges wb) (se_name s) =
        map (fun d => (se_name s, se_path s, d)) (se_regions s))).
Proof.
  intros z wb HL HD HZ. split; [apply read_merged_regions_exact; assumption|].
  split; [intros name; apply worksheet_merge_cells_exact; assumption|].
  intros ND. split; [intros n; apply worksheet_merge_cells_at_exact; assumption|].
  intros s I. split.
  - rewrite worksheet_merge_cells_exact by assumption. rewrite spec_sheet_nodup by assumption.
    reflexivity.
  - rewrite merged_regions_by_sheet_exact.
    apply (flat_map_select (fun s => map (fun d => (se_name s, se_path s, d)) (se_regions s)));
      assumption.
Qed.

(* ------------------------------------------------------------------ xlsx tables: the rels part *)
Lemma rfind_aux_no_slash : forall s i acc, no_slash s = true -> rfind_aux s i acc = acc.
Proof.
  unfold no_slash. induction s as [|c s IH]; intros i acc H; [reflexivity|].
  cbn in H. cbn [rfind_aux]. destruct (c =? ch_slash) eqn:E; cbn in H; [discriminate|].
  apply IH. exact H.
Qed.

Lemma rfind_aux_app : forall a b i acc,
  rfind_aux (a ++ b) i acc = rfind_aux b (i + length a)%nat (rfind_aux a i acc).
Proof.
  induction a as [|c a IH]; intros b i acc; cbn [app rfind_aux length].
  - rewrite Nat.add_0_r. reflexivity.
  - rewrite IH. f_equal. lia.
Qed.

Lemma rels_location_sheet : forall s, no_slash (se_file s) = true ->
  rels_location (se_path s) = Ok (s_xl_worksheets_dir, se_rels_path s).
Proof.
  intros s H. unfold rels_location, se_path, rfind_slash.
  rewrite rfind_aux_app. rewrite rfind_aux_no_slash by exact H.
  reflexivity.
Qed.

Lemma rel_attr_id : forall acc v, rel_attr acc (s_Id, v) = acc.
Proof. reflexivity. Qed.
Lemma rel_attr_type : forall acc v, rel_attr acc (s_Type, v) = (fst acc, is_table_type v).
Proof. reflexivity. Qed.
Lemma rel_attr_target : forall acc v, rel_attr acc (s_Target, v) = (v, snd acc).
Proof. reflexivity. Qed.

Lemma no_colon_Relationship : no_colon s_Relationship = true. Proof. reflexivity. Qed.
Lemma no_colon_Relationships : no_colon s_Relationships = true. Proof. reflexivity. Qed.

Lemma scan_rels_other : forall pp base others rest,
  prefix_ok pp = true -> forallb other_rel_legal others = true ->
  scan_rels base (flat_map (enc_other_rel pp) others ++ rest) = scan_rels base rest.
Proof.
  intros pp base others rest Hp. induction others as [|[[i ty] tg] others IH]; intros HL;
    [reflexivity|].
  cbn [forallb] in HL. apply andb_true_iff in HL. destruct HL as [H1 H2].
  unfold other_rel_legal in H1. cbn [fst snd] in H1. apply negb_true_iff in H1.
  cbn [flat_map]. unfold enc_other_rel at 1. cbn [fst snd app].
  cbn [scan_rels]. rewrite (local_name_qn _ _ Hp no_colon_Relationship).
  rewrite str_eqb_refl. cbn [fold_left]. rewrite rel_attr_id, rel_attr_type, rel_attr_target.
  cbn [fst snd]. rewrite H1.
  assert (Q : str_eqb s_Relationship s_Relationships = false) by reflexivity. rewrite Q.
  apply IH. exact H2.
Qed.

(* the two legal ways of writing the target and the two legal relationship type URIs *)
Definition table_rel_ok (tc : table_l * table_choice) : Prop :=
  (tc_target (snd tc) = TgtDotDot \/ tc_target (snd tc) = TgtAbsolute) /\
  (tc_type (snd tc) = TyTransitional \/ tc_type (snd tc) = TyStrict).

Lemma resolve_legal : forall c, tc_target c = TgtDotDot \/ tc_target c = TgtAbsolute ->
  resolve_target s_xl_worksheets_dir (target_text c) = Ok (Some (table_part_path c)).
Proof. intros c [E|E]; unfold target_text, table_part_path; rewrite E; reflexivity. Qed.

Lemma type_legal : forall c, tc_type c = TyTransitional \/ tc_type c = TyStrict ->
  is_table_type (type_text c) = true.
Proof. intros c [E|E]; unfold type_text; rewrite E; reflexivity. Qed.

Lemma scan_rels_tables : forall pp tabs rest,
  prefix_ok pp = true -> Forall table_rel_ok tabs ->
  scan_rels s_xl_worksheets_dir (flat_map (fun tc => enc_relationship pp (snd tc)) tabs ++ rest) =
  do r <- scan_rels s_xl_worksheets_dir rest;
  Ok (map (fun tc => table_part_path (snd tc)) tabs ++ r).
Proof.
  intros pp tabs rest Hp. induction tabs as [|[t c] tabs IH]; intros HP.
  - cbn. destruct (scan_rels s_xl_worksheets_dir rest); reflexivity.
  - inversion HP as [|? ? [P1 P2] HP2]; subst. cbn [snd] in P1, P2.
    cbn [flat_map snd]. unfold enc_relationship at 1. cbn [app].
    cbn [scan_rels]. rewrite (local_name_qn _ _ Hp no_colon_Relationship).
    rewrite str_eqb_refl.
    assert (F : fold_left rel_attr
                  (if tc_target_first c
                   then [(s_Target, target_text c); (s_Id, tc_rid c); (s_Type, type_text c)]
                   else [(s_Id, tc_rid c); (s_Type, type_text c); (s_Target, target_text c)])
                  ([], false) = (target_text c, true)).
    { destruct (tc_target_first c); cbn [fold_left];
        rewrite ?rel_attr_id, ?rel_attr_type, ?rel_attr_target; cbn [fst snd];
        rewrite ?rel_attr_id, ?rel_attr_type, ?rel_attr_target; cbn [fst snd];
        rewrite (type_legal _ P2); reflexivity. }
    rewrite F. rewrite (resolve_legal _ P1). cbn [obind].
    assert (Q : str_eqb s_Relationship s_Relationships = false) by reflexivity. rewrite Q.
    rewrite IH by exact HP2.
    destruct (scan_rels s_xl_worksheets_dir rest); reflexivity.
Qed.

Lemma scan_enc_rels : forall s,
  sheet_legal s = true -> Forall table_rel_ok (se_tables s) ->
  scan_rels s_xl_worksheets_dir (enc_rels s) =
  Ok (map (fun tc => table_part_path (snd tc)) (se_tables s)).
Proof.
  intros s HL HP. destruct (sheet_legal_parts _ HL) as (_ & _ & _ & D & _ & _ & _ & I & _).
  unfold enc_rels. cbn [app]. cbn [scan_rels].
  rewrite (local_name_qn _ _ D no_colon_Relationships).
  assert (Q : str_eqb s_Relationships s_Relationship = false) by reflexivity. rewrite Q.
  rewrite scan_rels_other by assumption. rewrite scan_rels_tables by assumption.
  cbn [scan_rels]. rewrite (local_name_qn _ _ D no_colon_Relationships). rewrite str_eqb_refl.
  cbn [obind]. rewrite app_nil_r. reflexivity.
Qed.

(* ------------------------------------------------------------------ unescaping a spelled name *)
Lemma radix_acc_app : forall val radix a b acc,
  radix_acc val radix (a ++ b) acc =
  match radix_acc val radix a acc with Some v => radix_acc val radix b v | None => None end.
Proof.
  intros val radix. induction a as [|c a IH]; intros b acc; cbn [app radix_acc]; [reflexivity|].
  destruct (val c); [apply IH|reflexivity].
Qed.

Lemma pow_nat_pos : forall b w, 0 < b -> 0 < pow_nat b w.
Proof. intros b w Hb. induction w as [|w IH]; cbn [pow_nat]; nia. Qed.

Lemma radix_acc_num_w : forall val dig radix,
  1 < radix -> (forall x, x < radix -> val (dig x) = Some x) ->
  forall w n acc, radix_acc val radix (num_w dig radix w n) acc =
                  Some (acc * pow_nat radix w + n mod pow_nat radix w).
Proof.
  intros val dig radix HR HV. induction w as [|w IH]; intros n acc; cbn [num_w pow_nat radix_acc].
  - rewrite N.mod_1_r. f_equal. lia.
  - rewrite radix_acc_app, IH. cbn [radix_acc].
    rewrite HV by (apply N.mod_lt; lia). f_equal.
    pose proof (pow_nat_pos w (b := radix)) as PP.
    rewrite (N.mod_mul_r n radix (pow_nat radix w)) by lia. ring.
Qed.

Lemma num_w_chars : forall dig radix (P : N -> Prop),
  1 < radix -> (forall x, x < radix -> P (dig x)) -> forall w n, Forall P (num_w dig radix w n).
Proof.
  intros dig radix P HR HP. induction w as [|w IH]; intros n; cbn [num_w]; [constructor|].
  apply Forall_app. split; [apply IH|]. constructor; [|constructor]. apply HP. apply N.mod_lt. lia.
Qed.

Lemma num_w_nonempty : forall dig radix w n, num_w dig radix (S w) n <> [].
Proof. intros dig radix w n H. cbn [num_w] in H. apply app_eq_nil in H. destruct H as [_ H]. discriminate H. Qed.

Definition plain_char (c : N) : Prop := (c =? ch_amp) = false /\ (c =? ch_semi) = false.

Lemma decdig_ok : forall x, x < 10 ->
  decval (decdig x) = Some x /\ plain_char (decdig x) /\ (decdig x =? ch_x) = false.
Proof.
  intros x H.
  assert (E : x = 0 \/ x = 1 \/ x = 2 \/ x = 3 \/ x = 4 \/ x = 5 \/ x = 6 \/ x = 7 \/ x = 8 \/ x = 9) by lia.
  repeat (destruct E as [E|E]; [subst; repeat split; reflexivity|]). subst; repeat split; reflexivity.
Qed.

Lemma hexdig_ok : forall up x, x < 16 -> hexval (hexdig up x) = Some x /\ plain_char (hexdig up x).
Proof.
  intros up x H.
  assert (E : x = 0 \/ x = 1 \/ x = 2 \/ x = 3 \/ x = 4 \/ x = 5 \/ x = 6 \/ x = 7 \/ x = 8 \/ x = 9 \/
              x = 10 \/ x = 11 \/ x = 12 \/ x = 13 \/ x = 14 \/ x = 15) by lia.
  destruct up;
    repeat (destruct E as [E|E]; [subst; repeat split; reflexivity|]); subst; repeat split; reflexivity.
Qed.

Lemma xml_char_facts : forall c, xml_char c = true ->
  c <= U32MAX /\ (c =? 0) = false /\ is_scalar c = true.
Proof.
  intros c H. unfold xml_char in H. unfold is_scalar, U32MAX.
  rewrite !orb_true_iff, !andb_true_iff, !N.eqb_eq, !N.leb_le in H.
  assert (R : c = 9 \/ c = 10 \/ c = 13 \/ (32 <= c /\ c <= 55295) \/ (57344 <= c /\ c <= 65533) \/
              (65536 <= c /\ c <= 1114111)) by tauto.
  clear H. split; [lia|]. split; [apply N.eqb_neq; lia|].
  apply orb_true_iff. destruct (N.ltb_spec c 55296); [left; reflexivity|right].
  apply andb_true_iff. split; [apply N.ltb_lt|apply N.leb_le]; lia.
Qed.

Lemma from_radix_num_w : forall val dig radix w cp,
  1 < radix -> (forall x, x < radix -> val (dig x) = Some x) ->
  cp < pow_nat radix (S w) -> cp <= U32MAX ->
  from_str_radix val radix (num_w dig radix (S w) cp) = Some cp.
Proof.
  intros val dig radix w cp HR HV Hlt Hmax. unfold from_str_radix.
  destruct (num_w dig radix (S w) cp) eqn:E; [exfalso; exact (num_w_nonempty _ _ _ _ E)|].
  rewrite <- E. rewrite radix_acc_num_w by assumption.
  rewrite N.mod_small by exact Hlt. cbn [N.mul]. rewrite N.mul_0_l, N.add_0_l.
  apply N.leb_le in Hmax. rewrite Hmax. reflexivity.
Qed.

Lemma width_pos : forall radix w cp, xml_char cp = true -> cp < pow_nat radix w -> exists k, w = S k.
Proof.
  intros radix [|k] cp HX H; [|exists k; reflexivity]. cbn [pow_nat] in H.
  destruct (xml_char_facts _ HX) as (_ & Z & _). apply N.eqb_neq in Z. lia.
Qed.

Lemma parse_dec_ref : forall cp w, xml_char cp = true -> cp < pow_nat 10 w ->
  parse_char_ref (num_w decdig 10 w cp) = Some cp.
Proof.
  intros cp w HX Hlt. destruct (width_pos _ _ HX Hlt) as [k ->].
  destruct (xml_char_facts _ HX) as (M & Z & S).
  assert (HV : forall x, x < 10 -> decval (decdig x) = Some x) by (intros x Hx; apply (decdig_ok Hx)).
  pose proof (@from_radix_num_w decval decdig 10 k cp ltac:(lia) HV Hlt M) as F.
  pose proof (@num_w_chars decdig 10 (fun c => (c =? ch_x) = false) ltac:(lia)
                (fun x Hx => proj2 (proj2 (decdig_ok Hx))) (Datatypes.S k) cp) as C.
  unfold parse_char_ref.
  destruct (num_w decdig 10 (Datatypes.S k) cp) as [|c hex] eqn:E;
    [exfalso; exact (num_w_nonempty _ _ _ _ E)|].
  inversion C as [|? ? C1 _]; subst. rewrite C1, F, Z, S. reflexivity.
Qed.

Lemma parse_hex_ref : forall cp w up, xml_char cp = true -> cp < pow_nat 16 w ->
  parse_char_ref (ch_x :: num_w (hexdig up) 16 w cp) = Some cp.
Proof.
  intros cp w up HX Hlt. destruct (width_pos _ _ HX Hlt) as [k ->].
  destruct (xml_char_facts _ HX) as (M & Z & S).
  assert (HV : forall x, x < 16 -> hexval (hexdig up x) = Some x) by (intros x Hx; apply (hexdig_ok up Hx)).
  pose proof (@from_radix_num_w hexval (hexdig up) 16 k cp ltac:(lia) HV Hlt M) as F.
  unfold parse_char_ref. rewrite N.eqb_refl, F, Z, S. reflexivity.
Qed.

Lemma unesc_lit_app : forall b rest, forallb lit_ok b = true ->
  unesc_go (b ++ rest) None = do r <- unesc_go rest None; Ok (b ++ r).
Proof.
  induction b as [|c b IH]; intros rest H; cbn [app].
  - destruct (unesc_go rest None); reflexivity.
  - cbn [forallb] in H. apply andb_true_iff in H. destruct H as [H1 H2].
    unfold lit_ok in H1. apply negb_true_iff in H1. rewrite !orb_false_iff in H1.
    destruct H1 as [[[[[A _] _] _] _] _].
    cbn [unesc_go]. unfold ch_amp. rewrite A. rewrite IH by exact H2.
    destruct (unesc_go rest None); reflexivity.
Qed.

Lemma unesc_pend_app : forall p rest acc, Forall plain_char p ->
  unesc_go (p ++ ch_semi :: rest) (Some acc) =
  do e <- resolve_entity (rev acc ++ p); do r <- unesc_go rest None; Ok (e ++ r).
Proof.
  induction p as [|c p IH]; intros rest acc H; cbn [app].
  - cbn [unesc_go]. rewrite N.eqb_refl. rewrite app_nil_r. reflexivity.
  - inversion H as [|? ? [A B] H']; subst. cbn [unesc_go]. rewrite A, B.
    rewrite IH by exact H'. cbn [rev]. rewrite <- app_assoc. reflexivity.
Qed.

Lemma unesc_entity : forall pat rest, Forall plain_char pat ->
  unesc_go (ch_amp :: pat ++ ch_semi :: rest) None =
  do e <- resolve_entity pat; do r <- unesc_go rest None; Ok (e ++ r).
Proof.
  intros pat rest H. cbn [unesc_go]. rewrite N.eqb_refl. rewrite unesc_pend_app by exact H.
  reflexivity.
Qed.

Lemma unesc_piece : forall p rest, piece_legal p = true ->
  unesc_go (render_piece p ++ rest) None = do r <- unesc_go rest None; Ok (piece_value p ++ r).
Proof.
  intros [b|c|cp w|cp w up] rest H; cbn [piece_legal render_piece piece_value] in *.
  - apply unesc_lit_app. exact H.
  - rewrite !orb_true_iff, !N.eqb_eq in H.
    assert (P : forall n v, Forall plain_char n -> resolve_entity n = Ok [v] ->
                unesc_go (([ch_amp] ++ n ++ [ch_semi]) ++ rest) None =
                do r <- unesc_go rest None; Ok ([v] ++ r)).
    { intros n v F R. cbn [app]. rewrite <- app_assoc. cbn [app]. rewrite unesc_entity by exact F.
      rewrite R. reflexivity. }
    destruct H as [[[[H|H]|H]|H]|H]; subst c; apply P;
      try reflexivity; repeat constructor.
  - apply andb_true_iff in H. destruct H as [HX Hlt]. apply N.ltb_lt in Hlt.
    replace (([ch_amp; ch_hash] ++ num_w decdig 10 w cp ++ [ch_semi]) ++ rest)
      with (ch_amp :: (ch_hash :: num_w decdig 10 w cp) ++ ch_semi :: rest)
      by (cbn [app]; rewrite <- app_assoc; reflexivity).
    rewrite unesc_entity.
    + cbn [resolve_entity]. rewrite N.eqb_refl. rewrite parse_dec_ref by assumption. reflexivity.
    + constructor; [split; reflexivity|].
      apply num_w_chars; [lia|]. intros x Hx. apply (decdig_ok Hx).
  - apply andb_true_iff in H. destruct H as [HX Hlt]. apply N.ltb_lt in Hlt.
    replace (([ch_amp; ch_hash; ch_x] ++ num_w (hexdig up) 16 w cp ++ [ch_semi]) ++ rest)
      with (ch_amp :: (ch_hash :: ch_x :: num_w (hexdig up) 16 w cp) ++ ch_semi :: rest)
      by (cbn [app]; rewrite <- app_assoc; reflexivity).
    rewrite unesc_entity.
    + cbn [resolve_entity]. rewrite N.eqb_refl. rewrite parse_hex_ref by assumption. reflexivity.
    + constructor; [split; reflexivity|]. constructor; [split; reflexivity|].
      apply num_w_chars; [lia|]. intros x Hx. apply (hexdig_ok up Hx).
Qed.

Lemma unesc_render : forall sp rest, sp_legal sp = true ->
  unesc_go (render_sp sp ++ rest) None = do r <- unesc_go rest None; Ok (sp_value sp ++ r).
Proof.
  unfold sp_legal, render_sp, sp_value.
  induction sp as [|p sp IH]; intros rest H; cbn [flat_map app].
  - destruct (unesc_go rest None); reflexivity.
  - cbn [forallb] in H. apply andb_true_iff in H. destruct H as [H1 H2].
    rewrite <- app_assoc. rewrite unesc_piece by exact H1. rewrite IH by exact H2.
    destruct (unesc_go rest None); cbn [obind]; try reflexivity. rewrite app_assoc. reflexivity.
Qed.

(* unescape_render: every legal spelling of a name — literal text, the five predefined entities,
   decimal and hexadecimal character references with leading zeros — reads back as the name *)
Theorem unescape_render : forall sp, sp_legal sp = true -> unescape (render_sp sp) = Ok (sp_value sp).
Proof.
  intros sp H. unfold unescape. rewrite <- (app_nil_r (render_sp sp)).
  rewrite unesc_render by exact H. cbn [unesc_go obind]. rewrite app_nil_r. reflexivity.
Qed.

(* ------------------------------------------------------------------ the ST_Xstring layer *)
Lemma xs_hex_agree : forall h, is_ascii_hexdigit h = true -> hexval h = Some (to_digit16 h).
Proof.
  intros h H. unfold is_ascii_hexdigit, hexval, to_digit16, is_digit, ch_0, ch_9 in *.
  destruct ((48 <=? h) && (h <=? 57)) eqn:E1.
  - assert (E : h <=? 57 = true) by lia. rewrite E. reflexivity.
  - destruct ((97 <=? h) && (h <=? 102)) eqn:E3.
    + assert (E : h <=? 57 = false) by lia. assert (E' : h <=? 70 = false) by lia.
      rewrite E, E'. reflexivity.
    + destruct ((65 <=? h) && (h <=? 70)) eqn:E2; [|cbn [orb] in H; discriminate].
      assert (E : h <=? 57 = false) by lia. assert (E' : h <=? 70 = true) by lia.
      rewrite E, E'. reflexivity.
Qed.

Lemma xs_hex_disagree : forall h, is_ascii_hexdigit h = false -> hexval h = None.
Proof.
  intros h H. unfold is_ascii_hexdigit, hexval, is_digit, ch_0, ch_9 in *.
  destruct ((48 <=? h) && (h <=? 57)); [discriminate|].
  destruct ((65 <=? h) && (h <=? 70)); [discriminate|].
  destruct ((97 <=? h) && (h <=? 102)); [discriminate|]. reflexivity.
Qed.

Lemma xs_to_digit16_lt : forall h, is_ascii_hexdigit h = true -> to_digit16 h < 16.
Proof.
  intros h H. unfold is_ascii_hexdigit, to_digit16 in *.
  destruct (h <=? 57) eqn:E1; [lia|]. destruct (h <=? 70) eqn:E2; lia.
Qed.

(* one step of either decoder, as an equation *)
Lemma xs_decode_cons : forall c s', xs_decode (c :: s') =
  match s' with
  | x :: h1 :: h2 :: h3 :: h4 :: u :: r =>
    if (c =? 95) && (x =? 120) && (u =? 95) then
      match hexval h1, hexval h2, hexval h3, hexval h4 with
      | Some a, Some b, Some d, Some e =>
        let v := a * 4096 + b * 256 + d * 16 + e in
        if xs_surrogate v then c :: xs_decode s' else utf8_enc v ++ xs_decode r
      | _, _, _, _ => c :: xs_decode s'
      end
    else c :: xs_decode s'
  | _ => c :: xs_decode s'
  end.
Proof. intros c s'. reflexivity. Qed.

Lemma ux_loop_cons : forall c s', ux_loop (c :: s') =
  match s' with
  | x :: h1 :: h2 :: h3 :: h4 :: u :: r =>
    if (c =? 95) && (x =? 120) && (u =? 95) then
      if forallb is_ascii_hexdigit [h1; h2; h3; h4] then
        if is_scalar (fold_left (fun a h => a * 16 + to_digit16 h) [h1; h2; h3; h4] 0)
        then utf8_enc (fold_left (fun a h => a * 16 + to_digit16 h) [h1; h2; h3; h4] 0) ++ ux_loop r
        else c :: ux_loop s'
      else c :: ux_loop s'
    else c :: ux_loop s'
  | _ => c :: ux_loop s'
  end.
Proof. intros c s'. reflexivity. Qed.

(* the loop of the Rust function computes the specification's decoding *)
Lemma ux_loop_spec_len : forall n s, (length s <= n)%nat -> ux_loop s = xs_decode s.
Proof.
  induction n as [|n IH]; intros s Hn.
  - destruct s; [reflexivity | cbn [length] in Hn; lia].
  - destruct s as [|c s']; [reflexivity|]. cbn [length] in Hn.
    rewrite ux_loop_cons, xs_decode_cons.
    assert (IHs : ux_loop s' = xs_decode s') by (apply IH; lia).
    destruct s' as [|x [|h1 [|h2 [|h3 [|h4 [|u r]]]]]]; cbv beta iota; try (rewrite IHs; reflexivity).
    assert (IHr : ux_loop r = xs_decode r) by (apply IH; cbn [length] in Hn; lia).
    destruct ((c =? 95) && (x =? 120) && (u =? 95)); [|rewrite IHs; reflexivity].
    cbn [forallb]. rewrite andb_true_r.
    destruct (is_ascii_hexdigit h1) eqn:E1; [|rewrite (xs_hex_disagree h1 E1), IHs; reflexivity].
    destruct (is_ascii_hexdigit h2) eqn:E2;
      [|rewrite (xs_hex_agree h1 E1), (xs_hex_disagree h2 E2), IHs; reflexivity].
    destruct (is_ascii_hexdigit h3) eqn:E3;
      [|rewrite (xs_hex_agree h1 E1), (xs_hex_agree h2 E2), (xs_hex_disagree h3 E3), IHs; reflexivity].
    destruct (is_ascii_hexdigit h4) eqn:E4;
      [|rewrite (xs_hex_agree h1 E1), (xs_hex_agree h2 E2), (xs_hex_agree h3 E3), (xs_hex_disagree h4 E4), IHs;
        reflexivity].
    cbn [andb fold_left].
    rewrite (xs_hex_agree h1 E1), (xs_hex_agree h2 E2), (xs_hex_agree h3 E3), (xs_hex_agree h4 E4).
    pose proof (xs_to_digit16_lt h1 E1). pose proof (xs_to_digit16_lt h2 E2).
    pose proof (xs_to_digit16_lt h3 E3). pose proof (xs_to_digit16_lt h4 E4).
    cbv zeta.
    replace ((((0 * 16 + to_digit16 h1) * 16 + to_digit16 h2) * 16 + to_digit16 h3) * 16 + to_digit16 h4)
      with (to_digit16 h1 * 4096 + to_digit16 h2 * 256 + to_digit16 h3 * 16 + to_digit16 h4) by lia.
    set (v := to_digit16 h1 * 4096 + to_digit16 h2 * 256 + to_digit16 h3 * 16 + to_digit16 h4).
    assert (Hv : v < 65536) by (unfold v; lia).
    unfold is_scalar, xs_surrogate.
    destruct ((55296 <=? v) && (v <=? 57343)) eqn:ES.
    + assert (X : (v <? 55296) || (57343 <? v) && (v <=? 1114111) = false) by lia.
      rewrite X, IHs. reflexivity.
    + assert (X : (v <? 55296) || (57343 <? v) && (v <=? 1114111) = true) by lia.
      rewrite X, IHr. reflexivity.
Qed.

Lemma ux_loop_spec : forall s, ux_loop s = xs_decode s.
Proof. intro s. apply ux_loop_spec_len with (n := length s). apply le_n. Qed.

(* the early return `if !s.contains("_x") { return s }` changes nothing *)
Lemma xs_no_ux_id : forall s, contains_ux s = false -> xs_decode s = s.
Proof.
  induction s as [|c s' IH]; intro H; [reflexivity|].
  cbn [contains_ux] in H. apply orb_false_iff in H. destruct H as [H1 H2].
  rewrite xs_decode_cons, (IH H2).
  destruct s' as [|x [|h1 [|h2 [|h3 [|h4 [|u r]]]]]]; cbv beta iota; try reflexivity.
  destruct (c =? 95); [|reflexivity]. cbn [andb] in H1. rewrite H1. reflexivity.
Qed.

(* M = S for the ST_Xstring layer: the Rust decoder is the format's decoding, for every string *)
Theorem unescape_xstring_spec : forall s, unescape_xstring s = xs_decode s.
Proof.
  intro s. unfold unescape_xstring. destruct (contains_ux s) eqn:E.
  - apply ux_loop_spec.
  - symmetry. apply xs_no_ux_id. exact E.
Qed.

(* S on the writer's output *)
Lemma hexval_xs_hexdigit : forall up d, d < 16 -> hexval (xs_hexdigit up d) = Some d.
Proof.
  intros up d H.
  assert (E : d = 0 \/ d = 1 \/ d = 2 \/ d = 3 \/ d = 4 \/ d = 5 \/ d = 6 \/ d = 7 \/ d = 8 \/ d = 9 \/
              d = 10 \/ d = 11 \/ d = 12 \/ d = 13 \/ d = 14 \/ d = 15) by lia.
  destruct up; repeat (destruct E as [E|E]; [subst; reflexivity|]); subst; reflexivity.
Qed.

Lemma xs_decode_esc4 : forall up c t, c < 128 ->
  xs_decode (xs_esc4 up c ++ t) = c :: xs_decode t.
Proof.
  intros up c t Hc. unfold xs_esc4. cbn [app]. rewrite xs_decode_cons. cbv beta iota.
  change ((95 =? 95) && (120 =? 120) && (95 =? 95)) with true. cbv beta iota.
  rewrite !hexval_xs_hexdigit by lia. cbv zeta.
  replace (c / 4096 * 4096 + c / 256 mod 16 * 256 + c / 16 mod 16 * 16 + c mod 16) with c by lia.
  assert (S : xs_surrogate c = false) by (unfold xs_surrogate; lia). rewrite S.
  unfold utf8_enc. assert (L : (c <? 128) = true) by lia. rewrite L. reflexivity.
Qed.

Lemma xs_decode_plain : forall c t, (c =? 95) = false -> xs_decode (c :: t) = c :: xs_decode t.
Proof.
  intros c t H. rewrite xs_decode_cons.
  destruct t as [|x [|h1 [|h2 [|h3 [|h4 [|u r]]]]]]; cbv beta iota; try reflexivity.
  rewrite H. reflexivity.
Qed.

(* E then S: every name (any byte string), escaped the way Excel escapes it — with any choice of
   the ASCII characters to escape and of the case of the digits — denotes itself *)
Theorem xs_escape_roundtrip : forall up must s, xs_decode (xs_escape up must s) = s.
Proof.
  intros up must. induction s as [|c s IH]; [reflexivity|].
  unfold xs_escape in *. cbn [flat_map].
  destruct (c =? 95) eqn:E.
  - cbn [orb]. rewrite xs_decode_esc4, IH; [reflexivity|]. apply N.eqb_eq in E. lia.
  - cbn [orb]. destruct (must c && (c <? 128)) eqn:Em.
    + apply andb_true_iff in Em. destruct Em as [_ Em]. rewrite xs_decode_esc4, IH by lia. reflexivity.
    + cbn [app]. rewrite xs_decode_plain, IH by exact E. reflexivity.
Qed.

(* the usual attribute-value escaping spells every byte string legally, and as itself *)
Lemma esc_piece_ok : forall c, piece_legal (esc_piece c) = true /\ piece_value (esc_piece c) = [c].
Proof.
  intros c. unfold esc_piece.
  destruct ((c =? 38) || (c =? 60) || (c =? 62) || (c =? 34)) eqn:E1.
  - split; [|reflexivity]. cbn [piece_legal]. rewrite !orb_true_iff in *. tauto.
  - destruct (lit_ok c) eqn:E2.
    + split; [|reflexivity]. cbn [piece_legal forallb]. rewrite E2. reflexivity.
    + unfold lit_ok in E2. apply negb_false_iff in E2. rewrite !orb_false_iff in E1.
      destruct E1 as [[[A B] _] D]. rewrite A, B, D in E2. cbn [orb] in E2.
      rewrite !orb_true_iff, !N.eqb_eq in E2.
      destruct E2 as [[E2|E2]|E2]; subst c; split; reflexivity.
Qed.

Lemma esc_sp_ok : forall s, sp_legal (esc_sp s) = true /\ sp_value (esc_sp s) = s.
Proof.
  unfold sp_legal, sp_value, esc_sp. induction s as [|c s [IH1 IH2]]; [split; reflexivity|].
  destruct (esc_piece_ok c) as [P1 P2]. cbn [map forallb flat_map]. rewrite P1, IH1, P2, IH2.
  split; reflexivity.
Qed.

(* ------------------------------------------------------------------ xlsx tables: the table part *)
Lemma dec_head_digit : forall n, exists c t, dec n = c :: t /\ is_digit c = true.
Proof.
  intros n. pose proof (dec_digits n) as F. pose proof (dec_nonempty n) as NE.
  destruct (dec n) as [|c t]; [congruence|]. inversion F; subst. exists c, t. auto.
Qed.

Lemma parse_u32_dec : forall n, n <= U32MAX -> parse_u32 (dec n) = Ok n.
Proof.
  intros n Hn. unfold parse_u32.
  destruct (dec_head_digit n) as (c & t & E & D).
  assert (FB : forallb is_digit (dec n) = true).
  { apply forallb_forall. pose proof (dec_digits n) as F. rewrite Forall_forall in F. exact F. }
  assert (U : undec (dec n) = n) by apply undec_dec.
  rewrite E in *.
  assert (X : (c =? 43) = false).
  { unfold is_digit, ch_0, ch_9 in D. destruct (c =? 43) eqn:X; [|reflexivity].
    apply N.eqb_eq in X. subst c. discriminate D. }
  rewrite X. rewrite FB, U. apply N.leb_le in Hn. rewrite Hn. reflexivity.
Qed.

Lemma table_attrs_app : forall a b m,
  table_attrs m (a ++ b) = do m' <- table_attrs m a; table_attrs m' b.
Proof.
  induction a as [|kv a IH]; intros b m; [reflexivity|].
  cbn [app table_attrs]. destruct (table_attr m kv); cbn [obind]; auto.
Qed.

Lemma table_attr_plain : forall m kv, table_special_key kv = false -> table_attr m kv = Ok m.
Proof.
  intros m [k v] H. unfold table_special_key, key_is in H. cbn [fst] in H.
  rewrite !orb_false_iff in H. destruct H as [[[[A B] C] D] E].
  unfold table_attr. cbn [fst snd]. rewrite A, B, C, D, E. reflexivity.
Qed.

Lemma table_attrs_plain : forall a m, existsb table_special_key a = false -> table_attrs m a = Ok m.
Proof.
  induction a as [|kv a IH]; intros m H; [reflexivity|].
  cbn in H. apply orb_false_iff in H. destruct H as [H1 H2].
  cbn [table_attrs]. rewrite table_attr_plain by exact H1. cbn [obind]. apply IH. exact H2.
Qed.

(* what the insertRow attribute, as written, means to the code *)
Definition insert_flag (c : table_choice) : bool :=
  match tc_insert c with
  | IrAbsent | IrZero | IrFalse => false
  | IrOne | IrTrue => true
  | IrRaw s => str_eqb s s_one || str_eqb s s_true
  end.

Lemma insert_flag_legal : forall ins c, insert_legal ins (tc_insert c) = true -> insert_flag c = ins.
Proof.
  intros ins c H. unfold insert_flag. destruct (tc_insert c); cbn in H;
    try (apply negb_true_iff in H); try discriminate; auto.
Qed.

Lemma table_attrs_of_ok : forall t c,
  existsb table_special_key (tc_extra c) = false -> sp_legal (tc_name_sp c) = true ->
  tl_header t <= U32MAX -> tl_totals t <= U32MAX ->
  table_attrs tmeta_init (table_attrs_of t c) =
  Ok (mkTmeta (sp_value (tc_name_sp c)) (render_ref (tc_ref_style c) (tc_ref_lower c) (tl_ref t))
              (tl_header t) (insert_flag c) (tl_totals t)).
Proof.
  intros t c HX HS Hh Hk. unfold table_attrs_of.
  rewrite table_attrs_app, table_attrs_plain by exact HX. cbn [obind].
  rewrite table_attrs_app. cbn [table_attrs].
  assert (A1 : forall m v, table_attr m (s_name, v) = Ok m) by reflexivity.
  assert (A2 : forall m v, table_attr m (s_displayName, v) =
            do u <- unescape v; Ok (mkTmeta u (tm_ref m) (tm_header m) (tm_insert m) (tm_totals m)))
    by reflexivity.
  assert (A3 : forall m v, table_attr m (s_ref, v) =
            Ok (mkTmeta (tm_name m) v (tm_header m) (tm_insert m) (tm_totals m))) by reflexivity.
  assert (A4 : forall m v, table_attr m (s_headerRowCount, v) =
            do n <- parse_u32 v; Ok (mkTmeta (tm_name m) (tm_ref m) n (tm_insert m) (tm_totals m)))
    by reflexivity.
  assert (A5 : forall m v, table_attr m (s_insertRow, v) =
            Ok (mkTmeta (tm_name m) (tm_ref m) (tm_header m) (str_eqb v s_one || str_eqb v s_true) (tm_totals m)))
    by reflexivity.
  assert (A6 : forall m v, table_attr m (s_totalsRowCount, v) =
            do n <- parse_u32 v; Ok (mkTmeta (tm_name m) (tm_ref m) (tm_header m) (tm_insert m) n))
    by reflexivity.
  rewrite A1. cbn [obind]. rewrite A2. rewrite unescape_render by exact HS.
  cbn [obind]. rewrite A3. cbn [obind].
  unfold tmeta_init, insert_flag. cbn [tm_name tm_ref tm_header tm_insert tm_totals].
  assert (H1 : (tl_header t =? 1) && negb (tc_hdr_explicit c) = true -> tl_header t = 1).
  { intros E. apply andb_true_iff in E. destruct E as [E _]. apply N.eqb_eq in E. exact E. }
  assert (H0 : (tl_totals t =? 0) && negb (tc_tot_explicit c) = true -> tl_totals t = 0).
  { intros E. apply andb_true_iff in E. destruct E as [E _]. apply N.eqb_eq in E. exact E. }
  destruct ((tl_header t =? 1) && negb (tc_hdr_explicit c)) eqn:E1;
    destruct (tc_insert c) eqn:E2;
    destruct ((tl_totals t =? 0) && negb (tc_tot_explicit c)) eqn:E3;
    cbn [app table_attrs];
    rewrite ?A4, ?A5, ?A6; cbn [obind tm_name tm_ref tm_header tm_insert tm_totals];
    rewrite ?parse_u32_dec by assumption;
    cbn [obind tm_name tm_ref tm_header tm_insert tm_totals];
    rewrite ?A4, ?A5, ?A6; cbn [obind tm_name tm_ref tm_header tm_insert tm_totals];
    rewrite ?parse_u32_dec by assumption;
    cbn [obind tm_name tm_ref tm_header tm_insert tm_totals];
    rewrite ?A4, ?A5, ?A6; cbn [obind tm_name tm_ref tm_header tm_insert tm_totals];
    rewrite ?parse_u32_dec by assumption;
    cbn [obind tm_name tm_ref tm_header tm_insert tm_totals];
    try rewrite (H1 eq_refl); try rewrite (H0 eq_refl); reflexivity.
Qed.

Lemma no_colon_table : no_colon s_table = true. Proof. reflexivity. Qed.
Lemma no_colon_tableColumn : no_colon s_tableColumn = true. Proof. reflexivity. Qed.
Lemma no_colon_tableColumns : no_colon s_tableColumns = true. Proof. reflexivity. Qed.
Lemma no_colon_tableStyleInfo : no_colon s_tableStyleInfo = true. Proof. reflexivity. Qed.

Lemma scan_table_quiet_app : forall l rest m cols, forallb table_quiet l = true ->
  scan_table (l ++ rest) m cols = scan_table rest m cols.
Proof.
  induction l as [|e l IH]; intros rest m cols H; [reflexivity|].
  cbn in H. apply andb_true_iff in H. destruct H as [H1 H2].
  cbn [app]. destruct e as [n a|n|s|s]; cbn [scan_table]; try (apply IH; exact H2).
  - cbn in H1. apply andb_true_iff in H1. destruct H1 as [A B].
    apply negb_true_iff in A. apply negb_true_iff in B. rewrite A, B. apply IH. exact H2.
  - cbn in H1. apply negb_true_iff in H1. rewrite H1. apply IH. exact H2.
Qed.

Lemma column_names_none : forall extra, existsb (key_is s_name) extra = false ->
  column_names extra = Ok [].
Proof.
  induction extra as [|kv extra IH]; intros H; [reflexivity|].
  cbn in H. apply orb_false_iff in H. destruct H as [H1 H2]. unfold key_is in H1.
  cbn [column_names]. rewrite H1. apply IH. exact H2.
Qed.

Lemma column_names_one : forall i sp extra,
  existsb (key_is s_name) extra = false -> sp_legal sp = true ->
  column_names ([(s_id, i); (s_name, render_sp sp)] ++ extra) = Ok [col_value sp].
Proof.
  intros i sp extra H HS. cbn [app column_names fst snd].
  assert (Q1 : str_eqb s_id s_name = false) by reflexivity. rewrite Q1. rewrite str_eqb_refl.
  rewrite unescape_render by exact HS. cbn [obind]. rewrite column_names_none by exact H.
  cbn [obind]. rewrite unescape_xstring_spec. reflexivity.
Qed.

(* column_name_exact: a column name in every legal spelling — XML escapes around or inside
   _xHHHH_ escapes — reads back as the name the two layers declare; and the text of a header
   cell, any byte string, written the way Excel writes it (ST_Xstring escaping of the underscore
   and of any chosen ASCII characters, then the usual XML escaping) reads back as that text *)
Theorem column_name_exact :
  (forall sp, sp_legal sp = true ->
     column_names [(s_name, render_sp sp)] = Ok [xs_decode (sp_value sp)]) /\
  (forall up must s,
     sp_legal (esc_sp (xs_escape up must s)) = true /\
     col_value (esc_sp (xs_escape up must s)) = s /\
     column_names [(s_name, render_sp (esc_sp (xs_escape up must s)))] = Ok [s]).
Proof.
  assert (A : forall sp, sp_legal sp = true ->
            column_names [(s_name, render_sp sp)] = Ok [xs_decode (sp_value sp)]).
  { intros sp HS. cbn [column_names fst snd]. rewrite str_eqb_refl.
    rewrite unescape_render by exact HS. cbn [obind]. rewrite unescape_xstring_spec. reflexivity. }
  split; [exact A|]. intros up must s.
  destruct (esc_sp_ok (xs_escape up must s)) as [L V].
  split; [exact L|]. split.
  - unfold col_value. rewrite V. apply xs_escape_roundtrip.
  - rewrite A by exact L. rewrite V, xs_escape_roundtrip. reflexivity.
Qed.

Lemma scan_table_columns : forall p extra cols i rest m acc,
  prefix_ok p = true -> existsb (key_is s_name) extra = false -> forallb sp_legal cols = true ->
  scan_table (enc_columns p extra i cols ++ rest) m acc =
  scan_table rest m (acc ++ map col_value cols).
Proof.
  intros p extra cols. induction cols as [|cn cols IH]; intros i rest m acc Hp HX HS.
  - cbn. rewrite app_nil_r. reflexivity.
  - cbn [forallb] in HS. apply andb_true_iff in HS. destruct HS as [HS1 HS2].
    cbn [enc_columns]. cbn [app]. cbn [scan_table].
    rewrite (local_name_qn _ _ Hp no_colon_tableColumn).
    assert (Q1 : str_eqb s_tableColumn s_table = false) by reflexivity. rewrite Q1.
    rewrite str_eqb_refl.
    change ((s_id, dec i) :: (s_name, render_sp cn) :: extra)
      with ([(s_id, dec i); (s_name, render_sp cn)] ++ extra).
    rewrite column_names_one by assumption. cbn [obind].
    rewrite IH by assumption. cbn [map]. rewrite <- app_assoc. reflexivity.
Qed.

Lemma strs_eqb_eq : forall a b, strs_eqb a b = true -> a = b.
Proof.
  induction a as [|x a IH]; intros [|y b] H; cbn in H; try discriminate; [reflexivity|].
  apply andb_true_iff in H. destruct H as [H1 H2]. apply str_eqb_eq in H1. apply IH in H2.
  subst. reflexivity.
Qed.

Lemma table_choice_legal_parts : forall tc, table_choice_legal tc = true ->
  ref_style_legal (tc_ref_style (snd tc)) (tl_ref (fst tc)) = true /\
  table_rel_ok tc /\
  insert_flag (snd tc) = tl_insert (fst tc) /\
  sp_legal (tc_name_sp (snd tc)) = true /\ sp_value (tc_name_sp (snd tc)) = tl_name (fst tc) /\
  forallb sp_legal (tc_cols_sp (snd tc)) = true /\
  map col_value (tc_cols_sp (snd tc)) = tl_cols (fst tc) /\
  existsb table_special_key (tc_extra (snd tc)) = false /\
  existsb (key_is s_name) (tc_col_extra (snd tc)) = false /\
  prefix_ok (tc_prefix (snd tc)) = true /\
  forallb table_quiet (tc_pre (snd tc)) = true.
Proof.
  intros [t c] H. unfold table_choice_legal in H. cbn [fst snd] in *.
  rewrite !andb_true_iff in H.
  destruct H as [[[[[[[[[[[[[A1 A2] A3] A4] A5] A6] A7] A8] A9] A10] A11] A12] _] _].
  apply negb_true_iff in A9. apply negb_true_iff in A10.
  apply str_eqb_eq in A6. apply strs_eqb_eq in A8.
  repeat split; try assumption.
  - cbn [snd]. destruct (tc_target c); try discriminate; auto.
  - cbn [snd]. destruct (tc_type c); try discriminate; auto.
  - apply insert_flag_legal. exact A4.
Qed.

Lemma scan_enc_table : forall tc,
  table_choice_legal tc = true -> tl_header (fst tc) <= U32MAX -> tl_totals (fst tc) <= U32MAX ->
  scan_table (enc_table tc) tmeta_init [] =
  Ok (mkTmeta (tl_name (fst tc))
              (render_ref (tc_ref_style (snd tc)) (tc_ref_lower (snd tc)) (tl_ref (fst tc)))
              (tl_header (fst tc)) (tl_insert (fst tc)) (tl_totals (fst tc)),
      tl_cols (fst tc)).
Proof.
  intros tc HL Hh Hk.
  destruct (table_choice_legal_parts _ HL) as (A & _ & F & S1 & S2 & S3 & S4 & B & C & D & E).
  destruct tc as [t c]. cbn [fst snd] in *. unfold enc_table. cbn [fst snd].
  rewrite scan_table_quiet_app by exact E.
  cbn [app]. cbn [scan_table]. rewrite (local_name_qn _ _ D no_colon_table). rewrite str_eqb_refl.
  rewrite table_attrs_of_ok by assumption. cbn [obind].
  rewrite (local_name_qn _ _ D no_colon_tableColumns).
  assert (Q1 : str_eqb s_tableColumns s_table = false) by reflexivity.
  assert (Q2 : str_eqb s_tableColumns s_tableColumn = false) by reflexivity.
  rewrite Q1, Q2. rewrite scan_table_columns by assumption.
  cbn [app scan_table]. rewrite (local_name_qn _ _ D no_colon_tableColumns). rewrite Q1.
  rewrite (local_name_qn _ _ D no_colon_tableStyleInfo).
  assert (Q3 : str_eqb s_tableStyleInfo s_table = false) by reflexivity.
  assert (Q4 : str_eqb s_tableStyleInfo s_tableColumn = false) by reflexivity.
  rewrite Q3, Q4. rewrite (local_name_qn _ _ D no_colon_table). rewrite str_eqb_refl.
  rewrite F, S2, S4. reflexivity.
Qed.

(* ------------------------------------------------------------------ xlsx tables: geometry *)
(* the box the code stores for a table of the domain *)
Definition impl_dims (t : table_l) : dims :=
  let sr1 := fst (fst (tl_ref t)) + tl_header t in
  let er := fst (snd (tl_ref t)) in
  if tl_below t <=? er
  then ((sr1, snd (fst (tl_ref t))), (er - tl_below t, snd (snd (tl_ref t))))
  else ((N.max sr1 (er + 1), snd (fst (tl_ref t))), (er, snd (snd (tl_ref t)))).

Lemma table_dims_ok : forall t nm st lower,
  table_dom t -> ref_style_legal st (tl_ref t) = true ->
  table_dims (mkTmeta nm (render_ref st lower (tl_ref t)) (tl_header t) (tl_insert t) (tl_totals t))
  = Ok (impl_dims t).
Proof.
  intros t nm st lower (D1 & D2 & D3 & D4) L. unfold table_dims, impl_dims, tl_below in *.
  cbn [tm_ref tm_header tm_totals tm_insert].
  rewrite merge_ref_roundtrip by (try apply xlsx_dims_limit; assumption).
  cbn [obind]. destruct (tl_ref t) as [[sr sc] [er ec]].
  destruct D1 as (A & B & C & E). cbn [fst snd] in *. unfold XLSX_ROWS, XLSX_COLS in *.
  set (ins := if tl_insert t then 1 else 0) in *.
  assert (I : ins <= 1) by (unfold ins; destruct (tl_insert t); lia).
  assert (X1 : (if tl_header t =? 0 then Ok sr
                else if sr + tl_header t <=? U32MAX then Ok (sr + tl_header t) else Err E_UNEXPECTED)
               = Ok (sr + tl_header t)).
  { destruct (N.eqb_spec (tl_header t) 0) as [H0|H0]; [rewrite H0; f_equal; lia|].
    unfold U32MAX. destruct (N.leb_spec (sr + tl_header t) 4294967295); [reflexivity|lia]. }
  rewrite X1. cbn [obind].
  assert (X2 : (tl_totals t + ins <=? U32MAX) = true) by (apply N.leb_le; unfold U32MAX; lia).
  rewrite X2. cbn [obind]. destruct (tl_totals t + ins <=? er); reflexivity.
Qed.

(* what can be observed of that box is the declared data box *)
Lemma impl_dims_obs : forall t, table_dom t ->
  (if no_data (impl_dims t) then None else Some (impl_dims t)) = data_box t.
Proof.
  intros t (D1 & D2 & D3 & D4). unfold impl_dims, data_box, no_data, tl_below in *.
  destruct (tl_ref t) as [[sr sc] [er ec]]. destruct D1 as (A & B & C & E). cbn [fst snd] in *.
  set (ins := if tl_insert t then 1 else 0) in *.
  destruct (N.leb_spec (tl_totals t + ins) er) as [L1|L1]; cbn [fst snd].
  - destruct (N.leb_spec (sr + tl_header t + (tl_totals t + ins)) er) as [L2|L2].
    + destruct (N.ltb_spec (er - (tl_totals t + ins)) (sr + tl_header t)); [lia|].
      destruct (N.ltb_spec ec sc); [lia|]. reflexivity.
    + destruct (N.ltb_spec (er - (tl_totals t + ins)) (sr + tl_header t)); [reflexivity|lia].
  - destruct (N.leb_spec (sr + tl_header t + (tl_totals t + ins)) er) as [L2|L2]; [lia|].
    destruct (N.ltb_spec er (N.max (sr + tl_header t) (er + 1))); [reflexivity|lia].
Qed.

Definition zip_has_tables (z : zip) (wb : list sheet_e) : Prop :=
  forall s, In s wb ->
    zip_find z (se_rels_path s) = (if has_rels s then Some (enc_rels s) else None) /\
    forall tc, In tc (se_tables s) -> zip_find z (table_part_path (snd tc)) = Some (enc_table tc).

(* the list load_tables builds for a workbook of the domain *)
Definition impl_entry (sheet : str) (t : table_l) : table_entry :=
  (tl_name t, sheet, tl_cols t, impl_dims t).
Definition impl_tables (wb : list sheet_e) : list table_entry :=
  flat_map (fun s => map (fun tc => impl_entry (se_name s) (fst tc)) (se_tables s)) wb.

Lemma read_table_files_exact : forall z name tabs,
  (forall tc, In tc tabs -> zip_find z (table_part_path (snd tc)) = Some (enc_table tc)) ->
  (forall tc, In tc tabs -> table_choice_legal tc = true /\ table_dom (fst tc)) ->
  read_table_files z name (map (fun tc => table_part_path (snd tc)) tabs) =
  Ok (map (fun tc => impl_entry name (fst tc)) tabs).
Proof.
  intros z name tabs. induction tabs as [|tc tabs IH]; intros HZ HP; [reflexivity|].
  cbn [map read_table_files]. rewrite (HZ tc (or_introl eq_refl)).
  destruct (HP tc (or_introl eq_refl)) as (L & D).
  destruct (table_choice_legal_parts _ L) as (RL & _).
  pose proof D as (D1 & D2 & D3 & D4).
  rewrite scan_enc_table; [|exact L|unfold U32MAX; lia|unfold U32MAX; lia].
  cbn [obind fst snd].
  rewrite table_dims_ok; [|exact D|exact RL].
  cbn [obind tm_name]. rewrite IH.
  - reflexivity.
  - intros tc' I. apply HZ. right. exact I.
  - intros tc' I. apply HP. right. exact I.
Qed.

Lemma sheet_dom_tables : forall s tc, sheet_dom s -> In tc (se_tables s) -> table_dom (fst tc).
Proof.
  intros s tc [_ D] I. rewrite Forall_forall in D. apply D. apply in_map. exact I.
Qed.

Lemma read_table_metadata_impl : forall z wb,
  legal wb = true -> Forall sheet_dom wb -> zip_has_tables z wb ->
  read_table_metadata z (sheets_of wb) = Ok (impl_tables wb).
Proof.
  intros z wb. induction wb as [|s wb IH]; intros HL HD HZ; [reflexivity|].
  cbn [sheets_of map read_table_metadata].
  assert (SL : sheet_legal s = true) by (apply (legal_in (s :: wb)); [exact HL|left; reflexivity]).
  destruct (sheet_legal_parts _ SL) as (_ & TL & _ & _ & _ & _ & _ & _ & NS).
  rewrite rels_location_sheet by exact NS. cbn [obind fst snd].
  destruct (HZ s (or_introl eq_refl)) as [Z1 Z2]. rewrite Z1.
  inversion HD as [|? ? HD1 HD2]; subst.
  assert (REST : read_table_metadata z (sheets_of wb) = Ok (impl_tables wb)).
  { apply IH.
    - cbn [legal forallb] in HL. apply andb_true_iff in HL. apply HL.
    - exact HD2.
    - intros s' I. apply HZ. right. exact I. }
  fold (sheets_of wb). rewrite REST.
  assert (TP : forall tc, In tc (se_tables s) -> table_choice_legal tc = true /\ table_dom (fst tc)).
  { intros tc I. split.
    - rewrite forallb_forall in TL. apply TL. exact I.
    - eapply sheet_dom_tables; [exact HD1|exact I]. }
  unfold impl_tables. cbn [flat_map]. fold (impl_tables wb).
  destruct (has_rels s) eqn:HR.
  - rewrite scan_enc_rels; [|exact SL|].
    + cbn [obind]. rewrite read_table_files_exact by assumption. reflexivity.
    + apply Forall_forall. intros tc I. destruct (TP tc I) as (L & _).
      apply (table_choice_legal_parts _ L).
  - unfold has_rels in HR. rewrite !orb_false_iff in HR. destruct HR as [[_ HR] _].
    destruct (se_tables s); [reflexivity|discriminate HR].
Qed.

Lemma impl_tables_obs : forall wb, Forall sheet_dom wb ->
  map entry_obs (impl_tables wb) = spec_tables wb.
Proof.
  unfold impl_tables, spec_tables. induction wb as [|s wb IH]; intros HD; [reflexivity|].
  inversion HD as [|? ? HD1 HD2]; subst. cbn [flat_map]. rewrite map_app, IH by exact HD2.
  f_equal. rewrite map_map. apply map_ext_in. intros tc I.
  unfold entry_obs, impl_entry, spec_table, te_name, te_sheet, te_cols, te_dims. cbn [fst snd].
  rewrite impl_dims_obs; [reflexivity|]. eapply sheet_dom_tables; [exact HD1|exact I].
Qed.

(* table_meta_exact: name, sheet, columns in order and the data box of every table, in the order
   sheets x relationships — for every legal way of writing them, no class of inputs excepted *)
Theorem table_meta_exact : forall z wb,
  legal wb = true -> Forall sheet_dom wb -> zip_has_tables z wb ->
  exists tables,
    read_table_metadata z (sheets_of wb) = Ok tables /\ map entry_obs tables = spec_tables wb.
Proof.
  intros z wb HL HD HZ. exists (impl_tables wb).
  split; [apply read_table_metadata_impl; assumption|apply impl_tables_obs; exact HD].
Qed.

(* table_names / table_names_in_sheet on a loaded list that shows the declared tables *)
Lemma spec_names : forall wb,
  map ts_name (spec_tables wb) = flat_map (fun s => map (fun tc => tl_name (fst tc)) (se_tables s)) wb.
Proof.
  unfold spec_tables. induction wb as [|s wb IH]; [reflexivity|].
  cbn [flat_map]. rewrite map_app, IH. f_equal. rewrite map_map. reflexivity.
Qed.

Lemma table_names_obs : forall tables, table_names tables = map ts_name (map entry_obs tables).
Proof. intros tables. unfold table_names. rewrite map_map. reflexivity. Qed.

Lemma table_names_exact : forall wb tables, map entry_obs tables = spec_tables wb ->
  table_names tables = flat_map (fun s => map (fun tc => tl_name (fst tc)) (se_tables s)) wb.
Proof. intros wb tables H. rewrite table_names_obs, H. apply spec_names. Qed.

Definition ts_sheet (t : table_spec) : str := snd (fst (fst t)).

Lemma tnis_obs : forall tables name,
  table_names_in_sheet tables name =
  map ts_name (filter (fun t => str_eqb (ts_sheet t) name) (map entry_obs tables)).
Proof.
  intros tables name. unfold table_names_in_sheet.
  induction tables as [|e tables IH]; [reflexivity|].
  cbn [map filter]. change (ts_sheet (entry_obs e)) with (te_sheet e).
  destruct (str_eqb (te_sheet e) name); cbn [map]; rewrite IH; reflexivity.
Qed.

Lemma tnis_sheet : forall sheet name (tabs : list (table_l * table_choice)),
  map ts_name (filter (fun t => str_eqb (ts_sheet t) name)
                      (map (fun tc => spec_table sheet (fst tc)) tabs)) =
  if str_eqb sheet name then map (fun tc => tl_name (fst tc)) tabs else [].
Proof.
  intros sheet name. induction tabs as [|tc tabs IH]; cbn [map filter].
  - destruct (str_eqb sheet name); reflexivity.
  - change (ts_sheet (spec_table sheet (fst tc))) with sheet.
    destruct (str_eqb sheet name) eqn:E.
    + cbn [map]. rewrite IH. reflexivity.
    + exact IH.
Qed.

Lemma table_names_in_sheet_exact : forall wb tables name, map entry_obs tables = spec_tables wb ->
  table_names_in_sheet tables name =
  flat_map (fun s => if str_eqb (se_name s) name
                     then map (fun tc => tl_name (fst tc)) (se_tables s) else []) wb.
Proof.
  intros wb tables name H. rewrite tnis_obs, H. clear H tables. unfold spec_tables.
  induction wb as [|s wb IH]; [reflexivity|].
  cbn [flat_map]. rewrite filter_app, map_app, IH. f_equal. apply tnis_sheet.
Qed.

(* get_table_meta finds the declared entry when table names are distinct *)
Lemma get_table_meta_nodup : forall tables e,
  NoDup (map te_name tables) -> In e tables -> get_table_meta tables (te_name e) = Ok e.
Proof.
  induction tables as [|t tables IH]; intros e ND I; [contradiction|].
  cbn [map] in ND. inversion ND as [|? ? N1 N2]; subst. cbn [get_table_meta].
  destruct I as [I|I].
  - subst. rewrite str_eqb_refl. reflexivity.
  - destruct (str_eqb (te_name t) (te_name e)) eqn:E.
    + apply str_eqb_eq in E. exfalso. apply N1. rewrite E. apply in_map. exact I.
    + apply IH; assumption.
Qed.

Lemma impl_tables_in : forall wb s tc, In s wb -> In tc (se_tables s) ->
  In (impl_entry (se_name s) (fst tc)) (impl_tables wb).
Proof.
  intros wb s tc I1 I2. unfold impl_tables. apply in_flat_map. exists s. split; [exact I1|].
  apply in_map_iff. exists tc. split; [reflexivity|exact I2].
Qed.

(* the statement of Range_proofs.window_spec (C05) *)
Definition WindowSpec : Prop :=
  forall (T : Type) (d : T) (r : range T) (s e : pos),
    Wf r -> le2 s e -> box_cells s e <= U32MAX ->
    exists w, window d r s e = Ok w /\ Wf w /\ rect w = Some (s, e) /\
      forall q, get_value w q = if in_box s e q then Some (cell_or d r q) else None.

Lemma get_value_empty : forall (T : Type) q, get_value (@empty T) q = None.
Proof.
  intros T [qr qc]. unfold get_value, empty. cbn [r_start r_end fst snd].
  destruct ((0 <=? qr) && (qr <=? 0) && (0 <=? qc) && (qc <=? 0)); [|reflexivity].
  unfold get, width, is_empty. cbn [r_inner].
  assert (X : (0 <=? qc - 0) = true) by (apply N.leb_le; lia). rewrite X. reflexivity.
Qed.

(* the cells of an optional box *)
Definition box_fits (ob : option dims) : Prop :=
  match ob with Some b => box_cells (fst b) (snd b) <= U32MAX | None => True end.
Definition box_value (T : Type) (d : T) (r : range T) (ob : option dims) (q : pos) : option T :=
  match ob with
  | Some b => if in_box (fst b) (snd b) q then Some (cell_or d r q) else None
  | None => None
  end.

(* table_geometry: the table data is the sheet's values over the data box — the reference minus
   the header rows at the top and the totals rows / insert row at the bottom — wherever the box
   lies relative to the used range; cells outside the used range come back as the default
   (Empty); a table without data rows yields the empty range *)
Theorem table_geometry_gen : WindowSpec ->
  forall (T : Type) (d : T) (sheet_range : str -> outcome (range T)) z wb s tc r,
  legal wb = true -> Forall sheet_dom wb -> zip_has_tables z wb ->
  NoDup (map ts_name (spec_tables wb)) ->
  In s wb -> In tc (se_tables s) ->
  sheet_range (se_name s) = Ok r -> Wf r ->
  box_fits (data_box (fst tc)) ->
  exists tables w,
    read_table_metadata z (sheets_of wb) = Ok tables /\
    table_by_name d sheet_range tables (tl_name (fst tc)) =
      Ok (tl_name (fst tc), se_name s, tl_cols (fst tc), w) /\
    Wf w /\ rect w = data_box (fst tc) /\
    forall q, get_value w q = box_value d r (data_box (fst tc)) q.
Proof.
  intros WS T d sheet_range z wb s tc r HL HD HZ ND I1 I2 HR WF BC.
  exists (impl_tables wb).
  assert (D : table_dom (fst tc)).
  { rewrite Forall_forall in HD. eapply sheet_dom_tables; [apply HD; exact I1|exact I2]. }
  assert (G : get_table_meta (impl_tables wb) (tl_name (fst tc)) = Ok (impl_entry (se_name s) (fst tc))).
  { apply (get_table_meta_nodup (impl_tables wb) (impl_entry (se_name s) (fst tc))).
    - replace (map te_name (impl_tables wb)) with (map ts_name (spec_tables wb)); [exact ND|].
      rewrite <- (impl_tables_obs HD), map_map. reflexivity.
    - apply impl_tables_in; assumption. }
  pose proof (impl_dims_obs D) as OBS.
  assert (TB : forall w, (if no_data (impl_dims (fst tc)) then Ok (@empty T)
                          else window d r (fst (impl_dims (fst tc))) (snd (impl_dims (fst tc)))) = Ok w ->
               table_by_name d sheet_range (impl_tables wb) (tl_name (fst tc)) =
               Ok (tl_name (fst tc), se_name s, tl_cols (fst tc), w)).
  { intros w W. unfold table_by_name. rewrite G. cbn [obind].
    change (te_sheet (impl_entry (se_name s) (fst tc))) with (se_name s).
    rewrite HR. cbn [obind].
    change (te_dims (impl_entry (se_name s) (fst tc))) with (impl_dims (fst tc)).
    rewrite W. reflexivity. }
  destruct (no_data (impl_dims (fst tc))) eqn:ND0.
  - exists (@empty T). split; [apply read_table_metadata_impl; assumption|].
    split; [apply TB; reflexivity|]. rewrite <- OBS.
    split; [left; reflexivity|]. split; [reflexivity|].
    intros q. apply get_value_empty.
  - rewrite <- OBS in BC |- *. cbn [box_fits box_value] in *.
    assert (LE : le2 (fst (impl_dims (fst tc))) (snd (impl_dims (fst tc)))).
    { unfold no_data in ND0. apply orb_false_iff in ND0. destruct ND0 as [N1 N2].
      apply N.ltb_ge in N1. apply N.ltb_ge in N2. split; assumption. }
    destruct (WS T d r _ _ WF LE BC) as (w & W1 & W2 & W3 & W4).
    exists w. split; [apply read_table_metadata_impl; assumption|].
    split; [apply TB; exact W1|]. split; [exact W2|]. split; [|exact W4].
    rewrite W3. destruct (impl_dims (fst tc)). reflexivity.
Qed.

(* ================================================================== xls *)
Lemma read_u16_le16 : forall x rest, x < 65536 -> read_u16 (le16 x ++ rest) = Ok x.
Proof. intros x rest H. unfold le16. cbn [app read_u16]. f_equal. lia. Qed.

Lemma enc_ref8_length : forall d, length (enc_ref8 d) = 8%nat.
Proof. reflexivity. Qed.

Lemma flat_ref8_length : forall ds, length (flat_map enc_ref8 ds) = (8 * length ds)%nat.
Proof.
  induction ds as [|d ds IH]; [reflexivity|].
  cbn [flat_map]. rewrite app_length, enc_ref8_length, IH. cbn [length]. lia.
Qed.

Lemma skipn_app_exact : forall (A : Type) (a b : list A) n, n = length a -> skipn n (a ++ b) = b.
Proof.
  intros A a b n ->. induction a as [|x a IH]; [reflexivity|]. cbn. exact IH.
Qed.

Lemma skipn_app_plus : forall (A : Type) (a b : list A) n k, n = length a ->
  skipn (n + k) (a ++ b) = skipn k b.
Proof.
  intros A a b n k ->. induction a as [|x a IH]; [reflexivity|]. cbn. exact IH.
Qed.

Lemma slice_from_app : forall (a b : list N) n k, n = length a -> (k <= length b)%nat ->
  slice_from (a ++ b) (n + k) = Ok (skipn k b).
Proof.
  intros a b n k Hn Hk. unfold slice_from. rewrite app_length.
  destruct (Nat.ltb_spec (length a + length b) (n + k)); [lia|].
  rewrite skipn_app_plus by exact Hn. reflexivity.
Qed.

Definition xls_dims_ok (d : dims) : Prop :=
  fst (fst d) < 65536 /\ snd (fst d) < 65536 /\ fst (snd d) < 65536 /\ snd (snd d) < 65536.

Lemma pmc_loop_enc : forall todo done hd,
  length hd = 2%nat ->
  N.of_nat (length done + length todo) <= 8191 ->
  Forall xls_dims_ok todo ->
  pmc_loop (length todo) (N.of_nat (length done))
           (hd ++ flat_map enc_ref8 (done ++ todo)) = Ok todo.
Proof.
  induction todo as [|d todo IH]; intros done hd Hh Hn HD; [reflexivity|].
  cbn [length pmc_loop]. cbn [length] in Hn.
  inversion HD as [|? ? (D1 & D2 & D3 & D4) HD']; subst.
  set (pre := hd ++ flat_map enc_ref8 done).
  assert (PL : N.to_nat (2 + N.of_nat (length done) * 8) = length pre).
  { unfold pre. rewrite app_length, flat_ref8_length, Hh. lia. }
  assert (R : hd ++ flat_map enc_ref8 (done ++ d :: todo) =
              pre ++ (enc_ref8 d ++ flat_map enc_ref8 todo)).
  { unfold pre. rewrite flat_map_app. cbn [flat_map]. rewrite app_assoc. reflexivity. }
  rewrite R.
  assert (LB : (8 <= length (enc_ref8 d ++ flat_map enc_ref8 todo))%nat).
  { rewrite app_length, enc_ref8_length. lia. }
  rewrite <- (Nat.add_0_r (N.to_nat (2 + N.of_nat (length done) * 8))) at 1.
  rewrite !slice_from_app by (try exact PL; lia).
  rewrite <- R.
  replace (N.of_nat (length done) + 1) with (N.of_nat (length (done ++ [d])))
    by (rewrite app_length; cbn [length]; lia).
  replace (hd ++ flat_map enc_ref8 (done ++ d :: todo))
    with (hd ++ flat_map enc_ref8 ((done ++ [d]) ++ todo))
    by (rewrite <- app_assoc; reflexivity).
  rewrite IH; [|exact Hh|rewrite app_length; cbn [length]; lia|exact HD'].
  destruct d as [[rf cf] [rl cl]]. cbn [fst snd] in *.
  unfold enc_ref8. cbn [fst snd]. unfold le16. cbn [app skipn read_u16 obind].
  repeat f_equal; lia.
Qed.

Lemma parse_merge_cells_enc : forall ds,
  N.of_nat (length ds) <= 8191 -> Forall xls_dims_ok ds ->
  parse_merge_cells (snd (enc_mergecells ds)) = Ok ds.
Proof.
  intros ds Hn HD. unfold parse_merge_cells, enc_mergecells. cbn [snd].
  assert (LEN : N.of_nat (length (le16 (N.of_nat (length ds)) ++ flat_map enc_ref8 ds)) =
                2 + N.of_nat (length ds) * 8).
  { rewrite app_length, flat_ref8_length. cbn [le16 length]. lia. }
  rewrite LEN.
  destruct (N.ltb_spec (2 + N.of_nat (length ds) * 8) 2); [lia|].
  rewrite read_u16_le16 by lia. cbn [obind].
  destruct (N.ltb_spec (2 + N.of_nat (length ds) * 8) (2 + N.of_nat (length ds) * 8)); [lia|].
  rewrite Nat2N.id.
  apply (@pmc_loop_enc ds [] (le16 (N.of_nat (length ds)))); [reflexivity|cbn [length]; lia|exact HD].
Qed.

(* the linear-time version computes the same outcome on every input, well formed or not *)
Lemma slice_from_split : forall (a s : list N) j,
  slice_from (a ++ s) (length a + j) = if Nat.ltb (length s) j then Panic else Ok (skipn j s).
Proof.
  intros a s j. unfold slice_from. rewrite app_length.
  destruct (Nat.ltb_spec (length a + length s) (length a + j));
    destruct (Nat.ltb_spec (length s) j); try lia; [reflexivity|].
  rewrite skipn_app_plus by reflexivity. reflexivity.
Qed.

Lemma pmc_fast_eq : forall todo i r,
  pmc_loop todo i r = pmc_fast todo (skipn (N.to_nat (2 + i * 8)) r).
Proof.
  induction todo as [|k IH]; intros i r; [reflexivity|].
  cbn [pmc_loop pmc_fast].
  set (off := N.to_nat (2 + i * 8)).
  destruct (Nat.ltb_spec (length r) off) as [SH|LG].
  - rewrite skipn_all2 by lia. unfold slice_from.
    destruct (Nat.ltb_spec (length r) off); [reflexivity|lia].
  - assert (NX : N.to_nat (2 + (i + 1) * 8) = (off + 8)%nat) by (unfold off; lia).
    rewrite IH, NX.
    remember (skipn off r) as s eqn:Es. remember (firstn off r) as a eqn:Ea.
    assert (E : r = a ++ s) by (subst a s; symmetry; apply firstn_skipn).
    assert (LA : length a = off) by (subst a; rewrite firstn_length; lia).
    rewrite E.
    replace off with (length a + 0)%nat at 1 by lia.
    replace (off + 2)%nat with (length a + 2)%nat by lia.
    replace (off + 4)%nat with (length a + 4)%nat by lia.
    replace (off + 6)%nat with (length a + 6)%nat by lia.
    replace (off + 8)%nat with (length a + 8)%nat by lia.
    rewrite !slice_from_split. rewrite skipn_app_plus by reflexivity.
    destruct s as [|a0 [|a1 [|b0 [|b1 [|c0 [|c1 [|d0 [|d1 s']]]]]]]]; reflexivity.
Qed.

Theorem parse_merge_cells_fast_eq : forall r, parse_merge_cells_fast r = parse_merge_cells r.
Proof.
  intros r. unfold parse_merge_cells_fast, parse_merge_cells.
  destruct (N.of_nat (length r) <? 2); [reflexivity|].
  destruct (read_u16 r) as [count| | |]; cbn [obind]; try reflexivity.
  destruct (N.of_nat (length r) <? 2 + count * 8); [reflexivity|].
  rewrite pmc_fast_eq. reflexivity.
Qed.

(* the two length checks make every slice and read_u16 of the loop succeed: no record data, of any
   length and content, makes parse_merge_cells panic *)
Lemma pmc_fast_ok : forall todo s, (8 * todo <= length s)%nat -> exists ds, pmc_fast todo s = Ok ds.
Proof.
  induction todo as [|k IH]; intros s H; [exists []; reflexivity|].
  destruct s as [|a0 [|a1 [|b0 [|b1 [|c0 [|c1 [|d0 [|d1 s']]]]]]]]; cbn [length] in H; try lia.
  destruct (IH s') as [ds E]; [lia|]. cbn [pmc_fast]. rewrite E. cbn [obind]. eexists. reflexivity.
Qed.

Theorem parse_merge_cells_safe : forall r, safe (parse_merge_cells r).
Proof.
  intros r. rewrite <- parse_merge_cells_fast_eq. unfold parse_merge_cells_fast.
  destruct (N.ltb_spec (N.of_nat (length r)) 2) as [L1|L1]; [exact I|].
  destruct r as [|a [|b r']]; cbn [length] in L1; try lia.
  cbn [read_u16 obind].
  destruct (N.ltb_spec (N.of_nat (length (a :: b :: r'))) (2 + (a + 256 * b) * 8)) as [L2|L2]; [exact I|].
  cbn [skipn]. destruct (@pmc_fast_ok (N.to_nat (a + 256 * b)) r') as [ds E].
  - cbn [length] in L2. lia.
  - rewrite E. exact I.
Qed.

Lemma xls_sheet_merges_with_ext : forall f g, (forall r, f r = g r) ->
  forall recs acc dp, xls_sheet_merges_with f recs acc dp = xls_sheet_merges_with g recs acc dp.
Proof.
  intros f g H. induction recs as [|[typ data] recs IH]; intros acc dp; [reflexivity|].
  cbn [xls_sheet_merges_with]. rewrite H.
  destruct (typ =? REC_BOF); [auto|]. destruct (1 <? dp); [auto|].
  destruct (typ =? REC_MERGECELLS); [destruct (g data); cbn [obind]; auto|].
  destruct (typ =? REC_EOF); auto.
Qed.

Theorem xls_sheets_fast_eq : forall subs, xls_sheets_fast subs = xls_sheets subs.
Proof.
  unfold xls_sheets_fast, xls_sheets. induction subs as [|[name recs] subs IH]; [reflexivity|].
  cbn [xls_sheets_with]. rewrite IH.
  rewrite (xls_sheet_merges_with_ext parse_merge_cells_fast parse_merge_cells parse_merge_cells_fast_eq).
  reflexivity.
Qed.

Lemma xls_dims_of_ok : forall d, dims_ok XLS_ROWS XLS_COLS d -> xls_dims_ok d.
Proof.
  intros d (A & B & C & D). unfold XLS_ROWS, XLS_COLS in *. unfold xls_dims_ok. lia.
Qed.

(* inside a nested substream with [d] further substreams open in it: whatever the records are
   (MERGECELLS records too), once BOF and EOF balance the loop is back at the depth of the nested
   substream (2) with the regions collected so far unchanged *)
Lemma xsm_sub : forall recs d rest acc, xbalanced d recs = true ->
  xls_sheet_merges (recs ++ rest) acc (2 + N.of_nat d) = xls_sheet_merges rest acc 2.
Proof.
  unfold xls_sheet_merges.
  induction recs as [|[typ data] recs IH]; intros d rest acc H.
  - cbn [xbalanced] in H. destruct d; [reflexivity|discriminate].
  - cbn [xbalanced fst] in H. cbn [app xls_sheet_merges_with].
    destruct (typ =? REC_BOF) eqn:E1.
    + replace (2 + N.of_nat d + 1) with (2 + N.of_nat (S d)) by lia. apply IH, H.
    + replace (1 <? 2 + N.of_nat d) with true by lia.
      destruct (typ =? REC_EOF) eqn:E2.
      * destruct d as [|d']; [discriminate|].
        replace (2 + N.of_nat (S d') - 1) with (2 + N.of_nat d') by lia. apply IH, H.
      * apply IH, H.
Qed.

(* records of the sheet itself and nested substreams between the MergeCells records: skipped *)
Lemma xsm_quiet_app : forall l rest acc, forallb xother_legal l = true ->
  xls_sheet_merges (flat_map enc_xother l ++ rest) acc 1 = xls_sheet_merges rest acc 1.
Proof.
  induction l as [|o l IH]; intros rest acc H; [reflexivity|].
  cbn [forallb] in H. apply andb_true_iff in H. destruct H as [H1 H2].
  cbn [flat_map]. rewrite <- app_assoc. destruct o as [[typ data]|bof recs]; cbn [xother_legal] in H1.
  - unfold quiet_rec in H1. cbn [fst] in H1. rewrite !andb_true_iff in H1. destruct H1 as [[A B] C].
    apply negb_true_iff in A. apply negb_true_iff in B. apply negb_true_iff in C.
    cbn [enc_xother app]. unfold xls_sheet_merges at 1. cbn [xls_sheet_merges_with].
    rewrite A, B, C. change (1 <? 1) with false. cbv iota. apply IH. exact H2.
  - cbn [enc_xother app]. unfold xls_sheet_merges at 1. cbn [xls_sheet_merges_with].
    change (REC_BOF =? REC_BOF) with true. cbv iota. change (1 + 1) with (2 + N.of_nat 0).
    fold xls_sheet_merges. rewrite <- app_assoc. rewrite xsm_sub by exact H1.
    cbn [app]. unfold xls_sheet_merges at 1. cbn [xls_sheet_merges_with].
    change (REC_EOF =? REC_BOF) with false. change (1 <? 2) with true.
    change (REC_EOF =? REC_EOF) with true. cbv iota. change (2 - 1) with 1.
    apply IH. exact H2.
Qed.

Lemma xsm_groups : forall groups rest acc,
  forallb (fun g => forallb xother_legal (fst g) && Nat.leb (length (snd g)) MAX_MERGE_PER_RECORD) groups = true ->
  Forall (dims_ok XLS_ROWS XLS_COLS) (concat (map snd groups)) ->
  xls_sheet_merges (flat_map (fun g => flat_map enc_xother (fst g) ++ [enc_mergecells (snd g)]) groups ++ rest) acc 1 =
  xls_sheet_merges rest (acc ++ concat (map snd groups)) 1.
Proof.
  induction groups as [|[others ds] groups IH]; intros rest acc HL HD.
  - cbn. rewrite app_nil_r. reflexivity.
  - cbn [forallb fst snd] in HL. rewrite !andb_true_iff in HL. destruct HL as [[Q1 Q2] HL].
    apply Nat.leb_le in Q2. unfold MAX_MERGE_PER_RECORD in Q2.
    cbn [map concat snd] in HD. apply Forall_app in HD. destruct HD as [HD1 HD2].
    cbn [flat_map fst snd]. rewrite <- !app_assoc. rewrite xsm_quiet_app by exact Q1.
    cbn [app]. unfold enc_mergecells at 1. unfold xls_sheet_merges at 1. cbn [xls_sheet_merges_with].
    fold xls_sheet_merges.
    change (REC_MERGECELLS =? REC_BOF) with false. change (1 <? 1) with false.
    change (REC_MERGECELLS =? REC_MERGECELLS) with true. cbv iota.
    pose proof (@parse_merge_cells_enc ds) as P. unfold enc_mergecells in P. cbn [snd] in P.
    rewrite P; [|lia|]. 2:{ eapply Forall_impl; [|exact HD1]. apply xls_dims_of_ok. }
    cbn [obind]. rewrite IH by assumption. cbn [map concat snd]. rewrite app_assoc. reflexivity.
Qed.

Lemma xls_sheet_legal_parts : forall s, xls_sheet_legal s = true ->
  forallb (fun g => forallb xother_legal (fst g) && Nat.leb (length (snd g)) MAX_MERGE_PER_RECORD)
          (xs_groups s) = true /\ forallb xother_legal (xs_tail s) = true.
Proof. intros s H. unfold xls_sheet_legal in H. apply andb_true_iff in H. exact H. Qed.

(* one sheet substream: the declared regions, in order, across any number of MergeCells records,
   with any records and any nested substreams (whatever they hold) between and behind them *)
Lemma xls_sheet_exact : forall s, xls_sheet_legal s = true -> xls_sheet_dom s ->
  xls_sheet_merges (enc_xls_sheet s) [] 0 = Ok (xs_regions s).
Proof.
  intros s HL HD. destruct (xls_sheet_legal_parts _ HL) as [A B].
  unfold enc_xls_sheet. unfold xls_sheet_merges at 1. cbn [xls_sheet_merges_with].
  change (REC_BOF =? REC_BOF) with true. cbv iota. change (0 + 1) with 1. fold xls_sheet_merges.
  rewrite xsm_groups by assumption.
  rewrite xsm_quiet_app by exact B. unfold xls_sheet_merges. cbn [app xls_sheet_merges_with].
  change (REC_EOF =? REC_BOF) with false. change (1 <? 1) with false.
  change (REC_EOF =? REC_MERGECELLS) with false. change (REC_EOF =? REC_EOF) with true. reflexivity.
Qed.

Definition xls_subs (wb : list xls_sheet_e) : list (str * list xrec) :=
  map (fun s => (xs_name s, enc_xls_sheet s)) wb.
Definition xls_spec (wb : list xls_sheet_e) : list (str * list dims) :=
  map (fun s => (xs_name s, xs_regions s)) wb.

Lemma xls_sheets_exact : forall wb,
  forallb xls_sheet_legal wb = true -> Forall xls_sheet_dom wb ->
  xls_sheets (xls_subs wb) = Ok (xls_spec wb).
Proof.
  induction wb as [|s wb IH]; intros HL HD; [reflexivity|].
  cbn [forallb] in HL. apply andb_true_iff in HL. destruct HL as [L1 L2].
  inversion HD as [|? ? D1 D2]; subst.
  cbn [xls_subs map]. unfold xls_sheets. cbn [xls_sheets_with].
  fold xls_sheet_merges. rewrite xls_sheet_exact by assumption. cbn [obind].
  fold (xls_subs wb). fold xls_sheets. rewrite IH by assumption. reflexivity.
Qed.

Lemma map_get_notin : forall wb name, ~ In name (map xs_name wb) -> map_get (xls_spec wb) name = None.
Proof.
  induction wb as [|s wb IH]; intros name H; [reflexivity|].
  cbn [xls_spec map map_get]. fold (xls_spec wb). rewrite IH.
  - destruct (str_eqb (xs_name s) name) eqn:E; [|reflexivity].
    apply str_eqb_eq in E. exfalso. apply H. left. exact E.
  - intros X. apply H. right. exact X.
Qed.

Lemma map_get_nodup : forall wb s, NoDup (map xs_name wb) -> In s wb ->
  map_get (xls_spec wb) (xs_name s) = Some (xs_regions s).
Proof.
  induction wb as [|s0 wb IH]; intros s ND I; [contradiction|].
  cbn [map] in ND. inversion ND as [|? ? N1 N2]; subst.
  cbn [xls_spec map map_get]. fold (xls_spec wb). destruct I as [I|I].
  - subst. rewrite map_get_notin by exact N1. rewrite str_eqb_refl. reflexivity.
  - rewrite IH by assumption. reflexivity.
Qed.

(* merge_list_exact_xls: count, order, corners, attribution by sheet *)
Theorem merge_list_exact_xls : forall wb,
  forallb xls_sheet_legal wb = true -> Forall xls_sheet_dom wb -> NoDup (map xs_name wb) ->
  exists m, xls_sheets (xls_subs wb) = Ok m /\
    (forall s, In s wb -> xls_worksheet_merge_cells m (xs_name s) = Some (xs_regions s)) /\
    (forall name, ~ In name (map xs_name wb) -> xls_worksheet_merge_cells m name = None) /\
    (forall n, xls_worksheet_merge_cells_at m n = option_map xs_regions (nth_error wb n)).
Proof.
  intros wb HL HD ND. exists (xls_spec wb). split; [apply xls_sheets_exact; assumption|].
  split; [intros s I; apply map_get_nodup; assumption|].
  split; [intros name H; apply map_get_notin; exact H|].
  intros n. unfold xls_worksheet_merge_cells_at, xls_spec. rewrite nth_error_map.
  destruct (nth_error wb n) as [s|] eqn:E; [|reflexivity]. cbn [option_map].
  fold (xls_spec wb). apply map_get_nodup; [exact ND|]. apply nth_error_In with n. exact E.
Qed.

(* a MergeCells record shorter than its count announces is an error (c8fd2d5; it used to panic) *)
Lemma parse_merge_cells_short_errs :
  parse_merge_cells [1; 0; 0; 0; 1; 0; 0; 0; 1] = Err E_LEN /\ parse_merge_cells [1] = Err E_LEN /\
  parse_merge_cells [] = Err E_LEN /\ parse_merge_cells [255; 255] = Err E_LEN.
Proof. repeat split; reflexivity. Qed.

Lemma xls_sheet_merges_safe : forall recs acc dp, safe (xls_sheet_merges recs acc dp).
Proof.
  unfold xls_sheet_merges. induction recs as [|[typ data] recs IH]; intros acc dp; [exact I|].
  cbn [xls_sheet_merges_with]. destruct (typ =? REC_BOF); [apply IH|]. destruct (1 <? dp); [apply IH|].
  destruct (typ =? REC_MERGECELLS).
  - apply safe_bind; [apply parse_merge_cells_safe|]. intros ds. apply IH.
  - destruct (typ =? REC_EOF); [exact I|apply IH].
Qed.

Theorem xls_sheets_safe : forall subs, safe (xls_sheets subs).
Proof.
  unfold xls_sheets. induction subs as [|[name recs] subs IH]; [exact I|].
  cbn [xls_sheets_with]. apply safe_bind; [apply xls_sheet_merges_safe|]. intros ds.
  apply safe_bind; [exact IH|]. intros rest. exact I.
Qed.

(* ================================================================== closing the premise *)
Theorem table_geometry :
  forall (T : Type) (d : T) (sheet_range : str -> outcome (range T)) z wb s tc r,
  legal wb = true -> Forall sheet_dom wb -> zip_has_tables z wb ->
  NoDup (map ts_name (spec_tables wb)) ->
  In s wb -> In tc (se_tables s) ->
  sheet_range (se_name s) = Ok r -> Wf r ->
  box_fits (data_box (fst tc)) ->
  exists tables w,
    read_table_metadata z (sheets_of wb) = Ok tables /\
    table_by_name d sheet_range tables (tl_name (fst tc)) =
      Ok (tl_name (fst tc), se_name s, tl_cols (fst tc), w) /\
    Wf w /\ rect w = data_box (fst tc) /\
    forall q, get_value w q = box_value d r (data_box (fst tc)) q.
Proof. exact (table_geometry_gen window_spec). Qed.

(* the same with the sheet's range spelled out: worksheet_range is Range::from_sparse over the
   sheet's cells [cs] (sorted by row, as a well-formed sheet lists them); the table data at q is
   the last value written at q inside the used range, the default (Empty) outside it *)
Corollary table_geometry_cells :
  forall (T : Type) (d : T) (cells : list (str * list (pos * T))) z wb s tc sc,
  legal wb = true -> Forall sheet_dom wb -> zip_has_tables z wb ->
  NoDup (map ts_name (spec_tables wb)) ->
  In s wb -> In tc (se_tables s) ->
  find (fun sc => str_eqb (fst sc) (se_name s)) cells = Some sc ->
  pre empty (OFromSparse (snd sc)) ->
  box_fits (data_box (fst tc)) ->
  exists tables w r,
    read_table_metadata z (sheets_of wb) = Ok tables /\
    from_sparse d (snd sc) = Ok r /\ rect r = tight_bbox (map fst (snd sc)) /\
    table_by_name d (sheet_range_of d cells) tables (tl_name (fst tc)) =
      Ok (tl_name (fst tc), se_name s, tl_cols (fst tc), w) /\
    rect w = data_box (fst tc) /\
    forall q, get_value w q =
      match data_box (fst tc) with
      | Some b => if in_box (fst b) (snd b) q
                  then Some (if in_rect r q then last_write d (snd sc) q else d) else None
      | None => None
      end.
Proof.
  intros T d cells z wb s tc sc HL HD HZ ND I1 I2 HF HP BC.
  destruct (from_sparse_spec d HP) as (r & R1 & R2 & R3 & R4).
  assert (SR : sheet_range_of d cells (se_name s) = Ok r).
  { unfold sheet_range_of. rewrite HF. exact R1. }
  destruct (@table_geometry T d (sheet_range_of d cells) z wb s tc r HL HD HZ ND I1 I2 SR R2 BC)
    as (tables & w & A & B & C & D & E).
  exists tables, w, r. repeat split; try assumption.
  intros q. rewrite E. unfold box_value. destruct (data_box (fst tc)) as [bx|]; [|reflexivity].
  destruct (in_box _ _ q); [|reflexivity].
  f_equal. unfold cell_or. rewrite R4. destruct (in_rect r q); reflexivity.
Qed.

(* ================================================================== totality (no panic) *)
(* xlsx merged regions: no event list makes the loops panic *)
Theorem scan_merge_regions_safe : forall evs, safe (scan_merge_regions evs).
Proof.
  induction evs as [|e evs IH]; cbn [scan_merge_regions]; [exact I|].
  destruct e as [n attrs|n|t|t]; try exact IH.
  destruct (str_eqb (local_name n) s_mergeCell); [|exact IH].
  destruct (first_attr attrs s_ref) as [v|]; [|exact IH].
  apply safe_bind; [apply get_dimension_safe|]. intros d.
  apply safe_bind; [exact IH|]. intros rest. exact I.
Qed.

Theorem read_merge_cells_safe : forall evs, safe (read_merge_cells evs).
Proof.
  induction evs as [|e evs IH]; cbn [read_merge_cells]; [exact I|].
  destruct e as [n attrs|n|t|t]; try exact IH.
  - destruct (str_eqb (local_name n) s_mergeCell); [|exact IH].
    destruct (first_attr attrs s_ref) as [v|]; [|exact IH].
    apply safe_bind; [apply get_dimension_safe|]. intros d.
    apply safe_bind; [exact IH|]. intros rest. exact I.
  - destruct (str_eqb (local_name n) s_mergeCells); [exact I|exact IH].
Qed.

Theorem find_merge_cells_safe : forall evs, safe (find_merge_cells evs).
Proof.
  induction evs as [|e evs IH]; cbn [find_merge_cells]; [exact I|].
  destruct e as [n attrs|n|t|t]; try exact IH.
  destruct (str_eqb (local_name n) s_mergeCells); [|exact IH].
  pose proof (read_merge_cells_safe evs) as S.
  destruct (read_merge_cells evs); cbn in S; try contradiction; exact I.
Qed.

Theorem read_merged_regions_safe : forall z sheets, safe (read_merged_regions z sheets).
Proof.
  intros z. induction sheets as [|[name path] sheets IH]; cbn [read_merged_regions]; [exact I|].
  destruct (zip_find z path) as [evs|]; [|exact IH].
  apply safe_bind; [apply scan_merge_regions_safe|]. intros ds.
  apply safe_bind; [exact IH|]. intros rest. exact I.
Qed.

Theorem worksheet_merge_cells_safe : forall z sheets name o,
  worksheet_merge_cells z sheets name = Some o -> safe o.
Proof.
  intros z sheets name o H. unfold worksheet_merge_cells in H.
  destruct (sheet_path sheets name) as [path|]; [|discriminate].
  destruct (zip_find z path) as [evs|]; [|discriminate].
  inversion H; subst. apply find_merge_cells_safe.
Qed.

(* xlsx tables: unescaping, the attribute loops and the geometry arithmetic *)
Lemma resolve_entity_safe : forall pat, safe (resolve_entity pat).
Proof.
  intros [|c num]; cbn [resolve_entity]; [exact I|].
  destruct (c =? ch_hash); [destruct (parse_char_ref num); exact I|].
  repeat match goal with |- context [if ?b then _ else _] => destruct b end; exact I.
Qed.

Lemma unesc_go_safe : forall s pend, safe (unesc_go s pend).
Proof.
  induction s as [|c s IH]; intros pend; cbn [unesc_go]; [destruct pend; exact I|].
  destruct pend as [p|].
  - destruct (c =? ch_semi).
    + apply safe_bind; [apply resolve_entity_safe|]. intros e.
      apply safe_bind; [apply IH|]. intros r. exact I.
    + destruct (c =? ch_amp); [exact I|apply IH].
  - destruct (c =? ch_amp); [apply IH|].
    apply safe_bind; [apply IH|]. intros r. exact I.
Qed.

Theorem unescape_safe : forall s, safe (unescape s).
Proof. intros s. apply unesc_go_safe. Qed.

Lemma parse_u32_safe : forall s, safe (parse_u32 s).
Proof.
  intros s. unfold parse_u32.
  destruct (match s with [] => s | c :: t => if c =? 43 then t else s end) as [|x ds]; [exact I|].
  destruct (forallb is_digit (x :: ds)); [|exact I].
  destruct (undec (x :: ds) <=? U32MAX); exact I.
Qed.

Lemma table_attr_safe : forall m kv, safe (table_attr m kv).
Proof.
  intros m kv. unfold table_attr.
  destruct (str_eqb (fst kv) s_displayName).
  { apply safe_bind; [apply unescape_safe|]. intros u. exact I. }
  destruct (str_eqb (fst kv) s_ref); [exact I|].
  destruct (str_eqb (fst kv) s_headerRowCount).
  { apply safe_bind; [apply parse_u32_safe|]. intros n. exact I. }
  destruct (str_eqb (fst kv) s_insertRow); [exact I|].
  destruct (str_eqb (fst kv) s_totalsRowCount); [|exact I].
  apply safe_bind; [apply parse_u32_safe|]. intros n. exact I.
Qed.

Lemma table_attrs_safe : forall attrs m, safe (table_attrs m attrs).
Proof.
  induction attrs as [|kv attrs IH]; intros m; cbn [table_attrs]; [exact I|].
  apply safe_bind; [apply table_attr_safe|]. intros m'. apply IH.
Qed.

Lemma column_names_safe : forall attrs, safe (column_names attrs).
Proof.
  induction attrs as [|kv attrs IH]; cbn [column_names]; [exact I|].
  destruct (str_eqb (fst kv) s_name); [|exact IH].
  apply safe_bind; [apply unescape_safe|]. intros u.
  apply safe_bind; [exact IH|]. intros r. exact I.
Qed.

Theorem scan_table_safe : forall evs m cols, safe (scan_table evs m cols).
Proof.
  induction evs as [|e evs IH]; intros m cols; cbn [scan_table]; [exact I|].
  destruct e as [n attrs|n|t|t]; try apply IH.
  - destruct (str_eqb (local_name n) s_table).
    { apply safe_bind; [apply table_attrs_safe|]. intros m'. apply IH. }
    destruct (str_eqb (local_name n) s_tableColumn); [|apply IH].
    apply safe_bind; [apply column_names_safe|]. intros cs. apply IH.
  - destruct (str_eqb (local_name n) s_table); [exact I|apply IH].
Qed.

(* the header / totals / insert-row arithmetic: every u32 operation is checked *)
Theorem table_dims_safe : forall m, safe (table_dims m).
Proof.
  intros m. unfold table_dims. apply safe_bind; [apply get_dimension_safe|].
  intros [[sr sc] [er ec]].
  apply safe_bind.
  { destruct (tm_header m =? 0); [exact I|]. destruct (sr + tm_header m <=? U32MAX); exact I. }
  intros sr1. apply safe_bind.
  { destruct (tm_totals m + (if tm_insert m then 1 else 0) <=? U32MAX); exact I. }
  intros below. destruct (below <=? er); exact I.
Qed.

Lemma resolve_target_safe : forall base target, safe (resolve_target base target).
Proof.
  intros base target. unfold resolve_target.
  destruct (starts_with s_dotdotslash target); [destruct (rfind_slash base); exact I|].
  destruct target as [|c rest]; [exact I|]. destruct (c =? ch_slash); exact I.
Qed.

Theorem scan_rels_safe : forall base evs, safe (scan_rels base evs).
Proof.
  intros base. induction evs as [|e evs IH]; cbn [scan_rels]; [exact I|].
  destruct e as [n attrs|n|t|t]; try exact IH.
  - destruct (str_eqb (local_name n) s_Relationship); [|exact IH].
    destruct (fold_left rel_attr attrs ([], false)) as [target table_type].
    destruct table_type; [|exact IH].
    apply safe_bind; [apply resolve_target_safe|]. intros loc.
    apply safe_bind; [exact IH|]. intros rest. exact I.
  - destruct (str_eqb (local_name n) s_Relationships); [exact I|exact IH].
Qed.

Lemma read_table_files_safe : forall z name files, safe (read_table_files z name files).
Proof.
  intros z name. induction files as [|f files IH]; cbn [read_table_files]; [exact I|].
  destruct (zip_find z f) as [evs|]; [|exact IH].
  apply safe_bind; [apply scan_table_safe|]. intros mc.
  apply safe_bind; [apply table_dims_safe|]. intros d.
  apply safe_bind; [exact IH|]. intros rest. exact I.
Qed.

(* load_tables: the one panic site left is `sheet_path.rfind('/').expect("should be in a
   folder")`; read_workbook only produces paths that start with "xl/" *)
Theorem read_table_metadata_safe : forall z sheets,
  Forall (fun sp => rfind_slash (snd sp) <> None) sheets -> safe (read_table_metadata z sheets).
Proof.
  intros z. induction sheets as [|[name path] sheets IH]; intros H; cbn [read_table_metadata]; [exact I|].
  inversion H as [|? ? H1 H2]; subst. cbn [snd] in H1.
  unfold rels_location. destruct (rfind_slash path) as [i|]; [|contradiction]. cbn [obind fst snd].
  destruct (zip_find z _) as [evs|]; [|apply IH; exact H2].
  apply safe_bind; [apply scan_rels_safe|]. intros files.
  apply safe_bind; [apply read_table_files_safe|]. intros ts.
  apply safe_bind; [apply IH; exact H2|]. intros rest. exact I.
Qed.

Example rels_location_still_panics : rels_location [115; 104; 101; 101; 116] = Panic.
Proof. reflexivity. Qed.

(* ================================================================== boolean domains *)
Lemma table_domb_ok : forall t, table_domb t = true -> table_dom t.
Proof.
  intros t H. unfold table_domb in H. rewrite !andb_true_iff in H.
  destruct H as [[[A B] C] D]. apply dims_okb_ok in A.
  apply N.leb_le in B. apply N.leb_le in C. apply N.leb_le in D.
  unfold table_dom. auto.
Qed.

Lemma sheet_domb_ok : forall s, sheet_domb s = true -> sheet_dom s.
Proof.
  intros s H. unfold sheet_domb in H. apply andb_true_iff in H. destruct H as [A B].
  rewrite forallb_forall in A. rewrite forallb_forall in B. split; apply Forall_forall; intros x I.
  - apply dims_okb_ok. apply A. exact I.
  - apply table_domb_ok. apply B. exact I.
Qed.

Lemma wb_domb_ok : forall wb, forallb sheet_domb wb = true -> Forall sheet_dom wb.
Proof.
  intros wb H. rewrite forallb_forall in H. apply Forall_forall. intros s I.
  apply sheet_domb_ok. apply H. exact I.
Qed.

Lemma xls_sheet_domb_ok : forall s, xls_sheet_domb s = true -> xls_sheet_dom s.
Proof.
  intros s H. unfold xls_sheet_domb in H. rewrite forallb_forall in H.
  apply Forall_forall. intros x I. apply dims_okb_ok. apply H. exact I.
Qed.

(* ================================================================== examples and witnesses *)
(* "S1", "sheet1.xml", "T1", "table1.xml", "rId1", column names "a" "b" *)
Definition x_S1 : str := [83; 49].
Definition x_sheet1 : str := [115; 104; 101; 101; 116; 49; 46; 120; 109; 108].
Definition x_T1 : str := [84; 49].
Definition x_table1 : str := [116; 97; 98; 108; 101; 49; 46; 120; 109; 108].
Definition x_table2 : str := [116; 97; 98; 108; 101; 50; 46; 120; 109; 108].
Definition x_table3 : str := [116; 97; 98; 108; 101; 51; 46; 120; 109; 108].
Definition x_rId1 : str := [114; 73; 100; 49].
Definition x_rId2 : str := [114; 73; 100; 50].
Definition x_rId3 : str := [114; 73; 100; 51].
Definition x_a : str := [97].
Definition x_b : str := [98].
Definition x_H : str := [72].
Definition x_X : str := [88].
Definition x_PL : str := [80; 38; 76].                 (* "P&L" *)
Definition x_blt : str := [98; 60; 195; 164].          (* "b<ä" *)
Definition x_anb : str := [97; 10; 98].                (* "a", line feed, "b": a header typed with Alt+Enter *)
Definition x_esclike : str := [95; 120; 48; 48; 48; 97; 95].   (* the seven characters "_x000a_" as text *)
Definition x_eacute : str := [195; 169].               (* "é" *)
Definition x_arb : str := [97; 13; 98].                (* "a", carriage return, "b" *)

(* a plain choice: "../tables/table1.xml", transitional type, names escaped the usual way *)
Definition choice_for (t : table_l) : table_choice :=
  mkTableChoice x_table1 x_rId1 TgtDotDot TyTransitional false RefPair false false false IrAbsent
                (esc_sp (tl_name t)) (map esc_sp (tl_cols t))
                [] [] None [ERaw [60; 63; 120; 63; 62]].
(* table B2:C5 with a header row and a totals row: data box B3:C4 *)
Definition ex_table : table_l := mkTable x_T1 [x_a; x_b] ((1, 1), (4, 2)) 1 1 false.
Definition ex_choice : table_choice := choice_for ex_table.

Definition ex_sheet_tabs (tabs : list (table_l * table_choice)) : sheet_e :=
  mkSheetE x_S1 x_sheet1
    [(((0, 0), (1, 1)), reg_default);
     (((1048575, 16383), (1048575, 16383)), mkRegChoice RefSingle true [(s_count, s_one)] [] [EText [10]]);
     (((2, 26), (3, 702)), mkRegChoice RefPair true [] [(s_count, s_one)] [])]
    tabs (Some [120]) [EStart [120; 58; 119] []; EText [32]] [EEnd [120; 58; 119]]
    false [EText [10]] None [(x_rId1, s_table_type_strict ++ [120], x_a)] false [(x_a, x_b)].
Definition ex_sheet_with (t : table_l) (c : table_choice) : sheet_e := ex_sheet_tabs [(t, c)].

(* the example workbook uses every form that the first round had to except:
   table 1: strict relationship type, absolute target, display name "T1" written "T&#x31;",
            columns "P&L" written "P&amp;L" and "b<ä" written "b&#060;&#xE4;", insertRow="false";
   table 2: header row only (B7:C7): no data rows; its column names use the ST_Xstring layer:
            "a<LF>b" written a_x000a_b, the text "_x000a_" written _x005F_x000a_;
   table 3: totals row only, in row 1 (E1:F1): no data rows; columns "é" written _x00e9_ (lower-case
            digits) and "a<CR>b" written a_x00&#48;D_b (an escape spelled partly by a character
            reference) *)
Definition ex_t1 : table_l := mkTable x_T1 [x_PL; x_blt] ((1, 1), (4, 2)) 1 1 false.
Definition ex_c1 : table_choice :=
  mkTableChoice x_table1 x_rId1 TgtAbsolute TyStrict true RefPair false false false IrFalse
                [PLit [84]; PHex 49 2 true]
                [[PLit [80]; PNamed 38; PLit [76]]; [PLit [98]; PDec 60 3; PHex 228 2 true]]
                [] [] None [ERaw [60; 63; 120; 63; 62]].
Definition ex_t2 : table_l := mkTable x_H [x_anb; x_esclike] ((6, 1), (6, 2)) 1 0 false.
Definition ex_c2 : table_choice :=
  mkTableChoice x_table2 x_rId2 TgtDotDot TyTransitional false RefPair true true true IrZero
                [PLit x_H]
                [[PLit [97; 95; 120; 48; 48; 48; 97; 95; 98]];                        (* a_x000a_b *)
                 [PLit [95; 120; 48; 48; 53; 70; 95; 120; 48; 48; 48; 97; 95]]]       (* _x005F_x000a_ *)
                [] [] None [].
Definition ex_t3 : table_l := mkTable x_X [x_eacute; x_arb] ((0, 4), (0, 5)) 0 1 false.
Definition ex_c3 : table_choice :=
  mkTableChoice x_table3 x_rId3 TgtDotDot TyStrict false RefPair false false true IrAbsent
                [PLit x_X]
                [[PLit [95; 120; 48; 48; 101; 57; 95]];                               (* _x00e9_ *)
                 [PLit [97; 95; 120; 48; 48]; PDec 48 2; PLit [68; 95; 98]]]          (* a_x00&#48;D_b *)
                [] [] (Some [120]) [].
Definition ex_wb : list sheet_e := [ex_sheet_tabs [(ex_t1, ex_c1); (ex_t2, ex_c2); (ex_t3, ex_c3)]].

Lemma zip_has_sheets_build1 : forall s, zip_has_sheets (build_zip [s]) [s].
Proof.
  intros s s' [<-|[]]. unfold build_zip, sheet_parts. cbn [flat_map app zip_find].
  unfold eq_ignore_ascii_case. rewrite str_eqb_refl. reflexivity.
Qed.

Example ex_wb_nonvacuous :
  legal ex_wb = true /\ Forall sheet_dom ex_wb /\
  zip_has_sheets (build_zip ex_wb) ex_wb /\ zip_has_tables (build_zip ex_wb) ex_wb /\
  NoDup (map se_name ex_wb) /\ NoDup (map ts_name (spec_tables ex_wb)) /\
  read_merged_regions (build_zip ex_wb) (sheets_of ex_wb) =
    Ok [(x_S1, s_xl_worksheets ++ x_sheet1, ((0, 0), (1, 1)));
        (x_S1, s_xl_worksheets ++ x_sheet1, ((1048575, 16383), (1048575, 16383)));
        (x_S1, s_xl_worksheets ++ x_sheet1, ((2, 26), (3, 702)))] /\
  read_table_metadata (build_zip ex_wb) (sheets_of ex_wb) =
    Ok [(x_T1, x_S1, [x_PL; x_blt], ((2, 1), (3, 2)));
        (x_H, x_S1, [x_anb; x_esclike], ((7, 1), (6, 2)));
        (x_X, x_S1, [x_eacute; x_arb], ((1, 4), (0, 5)))] /\
  spec_tables ex_wb =
    [(x_T1, x_S1, [x_PL; x_blt], Some ((2, 1), (3, 2)));
     (x_H, x_S1, [x_anb; x_esclike], None); (x_X, x_S1, [x_eacute; x_arb], None)].
Proof.
  split; [vm_compute; reflexivity|].
  split; [apply wb_domb_ok; vm_compute; reflexivity|].
  split; [apply zip_has_sheets_build1|].
  split.
  { intros s [<-|[]]. split; [vm_compute; reflexivity|].
    intros tc [<-|[<-|[<-|[]]]]; vm_compute; reflexivity. }
  split; [repeat constructor; intros []|].
  split.
  { vm_compute. repeat constructor; cbn; intuition discriminate. }
  split; [vm_compute; reflexivity|]. split; vm_compute; reflexivity.
Qed.

(* the table of the example lies partly outside a used range A1:B3: inside the overlap the
   sheet's values, Empty (0) elsewhere; the two tables without data rows yield the empty range *)
Example ex_table_data :
  let tables := [(x_T1, x_S1, [x_PL; x_blt], ((2, 1), (3, 2)));
                 (x_H, x_S1, [x_anb; x_esclike], ((7, 1), (6, 2)));
                 (x_X, x_S1, [x_eacute; x_arb], ((1, 4), (0, 5)))] in
  let range := fun _ : str => from_sparse 0 [((0, 0), 7); ((2, 1), 5)] in
  table_by_name 0 range tables x_T1 =
    Ok (x_T1, x_S1, [x_PL; x_blt], mkRange (2, 1) (3, 2) [5; 0; 0; 0]) /\
  table_by_name 0 range tables x_H = Ok (x_H, x_S1, [x_anb; x_esclike], empty) /\
  table_by_name 0 range tables x_X = Ok (x_X, x_S1, [x_eacute; x_arb], empty).
Proof. repeat split; vm_compute; reflexivity. Qed.

Example ex_cells_pre : pre (@empty N) (OFromSparse [((0, 0), 7); ((2, 1), 5)]).
Proof.
  unfold pre. split; [cbn; lia|]. split.
  - intros c [<-|[<-|[]]]; cbn [fst snd]; unfold U32MAX; lia.
  - vm_compute. split; reflexivity.
Qed.

(* ---------- the witnesses of the five retired classes, now regressions ----------
   Each was a workbook on which the first-round model (and the code) departed from the file;
   the repaired model computes the declared tables on every one of them. *)
Definition wit (t : table_l) (c : table_choice) : list sheet_e := [ex_sheet_with t c].
Definition load (wb : list sheet_e) := read_table_metadata (build_zip wb) (sheets_of wb).
Definition set_target (c : table_choice) (x : target_style) : table_choice :=
  mkTableChoice (tc_part c) (tc_rid c) x (tc_type c) (tc_target_first c) (tc_ref_style c)
                (tc_ref_lower c) (tc_hdr_explicit c) (tc_tot_explicit c) (tc_insert c)
                (tc_name_sp c) (tc_cols_sp c) (tc_extra c) (tc_col_extra c) (tc_prefix c) (tc_pre c).
Definition set_type (c : table_choice) (x : type_style) : table_choice :=
  mkTableChoice (tc_part c) (tc_rid c) (tc_target c) x (tc_target_first c) (tc_ref_style c)
                (tc_ref_lower c) (tc_hdr_explicit c) (tc_tot_explicit c) (tc_insert c)
                (tc_name_sp c) (tc_cols_sp c) (tc_extra c) (tc_col_extra c) (tc_prefix c) (tc_pre c).
Definition set_insert (c : table_choice) (x : insert_style) : table_choice :=
  mkTableChoice (tc_part c) (tc_rid c) (tc_target c) (tc_type c) (tc_target_first c) (tc_ref_style c)
                (tc_ref_lower c) (tc_hdr_explicit c) (tc_tot_explicit c) x
                (tc_name_sp c) (tc_cols_sp c) (tc_extra c) (tc_col_extra c) (tc_prefix c) (tc_pre c).
Definition meta_is (wb : list sheet_e) (stored : list table_entry) : Prop :=
  legal wb = true /\ forallb sheet_domb wb = true /\
  load wb = Ok stored /\ map entry_obs stored = spec_tables wb.

(* EscapedText: a column written "P&amp;L" is the column P&L *)
Example fixed_escaped_text :
  let t := mkTable x_T1 [x_PL; x_b] ((1, 1), (4, 2)) 1 1 false in
  meta_is (wit t (choice_for t)) [(x_T1, x_S1, [x_PL; x_b], ((2, 1), (3, 2)))].
Proof. repeat split; vm_compute; reflexivity. Qed.

(* AbsoluteTarget: Target="/xl/tables/table1.xml" *)
Example fixed_absolute_target :
  meta_is (wit ex_table (set_target ex_choice TgtAbsolute)) [(x_T1, x_S1, [x_a; x_b], ((2, 1), (3, 2)))].
Proof. repeat split; vm_compute; reflexivity. Qed.

(* StrictType: the relationship type of the strict conformance class *)
Example fixed_strict_type :
  meta_is (wit ex_table (set_type ex_choice TyStrict)) [(x_T1, x_S1, [x_a; x_b], ((2, 1), (3, 2)))].
Proof. repeat split; vm_compute; reflexivity. Qed.

(* InsertRowFalse: insertRow="false" leaves the last data row in place; insertRow="1" on a table
   of header + insert row leaves no data *)
Example fixed_insert_row :
  meta_is (wit ex_table (set_insert ex_choice IrFalse)) [(x_T1, x_S1, [x_a; x_b], ((2, 1), (3, 2)))] /\
  (let t := mkTable x_T1 [x_a; x_b] ((1, 1), (2, 2)) 1 0 true in
   meta_is (wit t (set_insert (choice_for t) IrOne)) [(x_T1, x_S1, [x_a; x_b], ((2, 1), (1, 2)))]).
Proof. repeat split; vm_compute; reflexivity. Qed.

(* EmptyData: a header-only table (B2:C2) and a totals-only table in row 1 (A1:B1) load, and
   table_by_name yields the empty range *)
Example fixed_empty_data :
  (let t := mkTable x_T1 [x_a; x_b] ((1, 1), (1, 2)) 1 0 false in
   meta_is (wit t (choice_for t)) [(x_T1, x_S1, [x_a; x_b], ((2, 1), (1, 2)))] /\
   spec_tables (wit t (choice_for t)) = [(x_T1, x_S1, [x_a; x_b], None)]) /\
  (let t := mkTable x_T1 [x_a; x_b] ((0, 0), (0, 1)) 0 1 false in
   meta_is (wit t (choice_for t)) [(x_T1, x_S1, [x_a; x_b], ((1, 0), (0, 1)))]) /\
  table_by_name 0 (fun _ => Ok (@empty N)) [(x_T1, x_S1, [x_a; x_b], ((2, 1), (1, 2)))] x_T1 =
    Ok (x_T1, x_S1, [x_a; x_b], empty).
Proof. repeat split; vm_compute; reflexivity. Qed.

Example ex_no_panic_nonvacuous :
  Forall (fun sp => rfind_slash (snd sp) <> None) (sheets_of ex_wb) /\
  parse_merge_cells [1; 0; 0; 0; 1; 0; 0; 0; 1] = Err E_LEN /\
  get_dimension [66; 50; 58; 65; 49] = Ok ((1, 1), (0, 0)).
Proof.
  split; [|split; vm_compute; reflexivity].
  repeat constructor. vm_compute. discriminate.
Qed.

(* outside the property's domain, recorded because the two access paths disagree: a reference
   with $ signs makes load_merged_regions fail while worksheet_merge_cells silently answers
   "no merged regions"; a reversed reference panics under overflow checks *)
Lemma dollar_ref_paths_disagree :
  let evs := [EStart s_mergeCells []; EStart s_mergeCell [(s_ref, [36; 65; 36; 49; 58; 36; 66; 36; 50])];
              EEnd s_mergeCell; EEnd s_mergeCells] in
  scan_merge_regions evs = Err E_ALPHANUMERIC /\ find_merge_cells evs = Ok [].
Proof. split; vm_compute; reflexivity. Qed.

(* a reversed reference is reported as written (717a5d9; it used to panic under overflow checks) *)
Lemma reversed_ref_as_written :
  scan_merge_regions [EStart s_mergeCell [(s_ref, [66; 50; 58; 65; 49])]] = Ok [((1, 1), (0, 0))].
Proof. vm_compute. reflexivity. Qed.

(* xls non-vacuity: two sheets, several MergeCells records, regions up to IV65536; the first
   sheet carries an embedded chart between its two MergeCells records — the chart substream
   holds the series cache (DIMENSIONS, NUMBER, LABEL), a MERGECELLS record of its own, a record
   shorter than the two bytes a MERGECELLS count needs, and a further BOF … EOF pair — and an
   empty nested substream behind the last one *)
Definition ex_xls : list xls_sheet_e :=
  [mkXlsSheet x_S1 [0; 6; 16; 0]
     [([XRec (512, [0; 0])], [((0, 0), (1, 1)); ((65535, 255), (65535, 255))]);
      ([XRec (236, [0; 0]); XRec (93, []);
        XSub [0; 6; 32; 0]
          [(4097, [0; 0]); (512, [0;0;0;0; 2;0;0;0; 0;0; 1;0; 0;0]); (4197, [1; 0]);
           (515, [0;0; 0;0; 0;0; 0;0;0;0;0;0;36;64]); (516, [0;0; 0;0; 0;0; 1;0; 0; 97]);
           (229, [1;0; 7;0; 8;0; 7;0; 8;0]); (229, [9]);
           (2057, [0; 6; 32; 0]); (229, [2; 0]); (10, []); (60, [1])];
        XRec (574, [182; 6])], [((2, 3), (4, 5))])]
     [XRec (515, [1; 2; 3]); XSub [] []] [(2057, [])];
   mkXlsSheet x_T1 [] [] [] []].
Example ex_xls_nonvacuous :
  forallb xls_sheet_legal ex_xls = true /\ Forall xls_sheet_dom ex_xls /\
  NoDup (map xs_name ex_xls) /\
  xls_sheets (xls_subs ex_xls) =
    Ok [(x_S1, [((0, 0), (1, 1)); ((65535, 255), (65535, 255)); ((2, 3), (4, 5))]); (x_T1, [])].
Proof.
  split; [vm_compute; reflexivity|].
  split; [apply Forall_forall; intros s I; apply xls_sheet_domb_ok;
          destruct I as [<-|[<-|[]]]; vm_compute; reflexivity|].
  split; [|vm_compute; reflexivity].
  constructor; [intros [H|[]]; discriminate H|]. constructor; [intros []|constructor].
Qed.
