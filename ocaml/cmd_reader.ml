(* C07: run a call history on the extracted reader state machine with the symbolic semantics
   sem h c = (h, c): the answer lists, for every op, "-" (option change) or the header-row option
   in force for that call ("d" default, or the row number).  The Python driver resolves each
   (option, call) pair on a freshly opened workbook.
   reader <ops>   ops separated by ';' : "hdr <n|->"  or any other call text *)
open Conv
open Reader
open HeaderRow

let run_ops args =
  let ops = String.split_on_char ';' (List.hd args) in
  let parse (i : int) (s : string) =
    if String.length s >= 4 && String.sub s 0 4 = "hdr " then
      let a = String.sub s 4 (String.length s - 4) in
      OSetHeader (if a = "-" then FirstNonEmptyRow else HRow (n_of_string a))
    else OCall (CRangeAt (nat_of_int i)) in   (* the call's identity is its index in the history *)
  let ops = List.mapi parse ops in
  let sem h c = (h, c) in
  let (_, rs) = run sem init ops in
  String.concat ";" (List.map (fun r ->
      match r with
      | None -> "-"
      | Some (FirstNonEmptyRow, _) -> "d"
      | Some (HRow n, _) -> string_of_n n) rs)

let () = Registry.register "reader" run_ops
let init () = ()
