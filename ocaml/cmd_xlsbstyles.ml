(* C10 (xlsb): the byte-level model of Xlsb::read_styles and the encoder of xl/styles.bin, printed
   in exactly the format of harness/src/cmds/xlsbstyles.rs.
     xlsbstyles read <hex part | none>
         model of read_styles:  ok:<one digit per cell XF: 0 Other, 1 DateTime, 2 TimeDelta>
         (ok:- for an empty table), err, panic, fuel
     xlsbstyles enc <layout>
         encoder, legality, specification and model:  hex#wf#spec=<digits>#read=<answer of read>
   layout: pre|fmts|mid|xfs|post  with
     raw record  w,k,id,hex            (w: two-byte id form, k: continuation bytes of the length)
     pre, mid    raw records separated by ";"  ("-" for none)
     fmts        -  or  w,k,hextail/item;item...   item = junk~junk...@w,k,ifmt,<hex utf8 code>,hextail
     xfs         w,k,hextail/item;item...          item = junk~junk...@w,k,parent,ifmt,hextail
                 (junk: raw records, "-" for none)
     post        hex *)
open Conv
open BinNums
open XlsbRec
open XlsbStyles

let digit (f : NumFmt.cell_format) : string =
  match f with NumFmt.Other -> "0" | NumFmt.DateTime -> "1" | NumFmt.TimeDelta -> "2"
let table_str (l : NumFmt.cell_format list) : string =
  if l = [] then "ok:-" else "ok:" ^ String.concat "" (List.map digit l)
let read_str (part : coq_N list option) : string =
  match read_styles part with
  | Prelude.Ok l -> table_str l
  | Prelude.Err _ -> "err"
  | Prelude.Panic -> "panic"
  | Prelude.OutOfFuel -> "fuel"

let hexarg (s : string) : coq_N list = if s = "-" then [] else bytes_of_hex s
let text_of (h : string) : coq_N list = if h = "-" then [] else scalars_of_hex h
let frm_of w k : frm = { f_wide = (w = "1"); f_lenb = nat_of_int (int_of_string k) }
let raw_of_str (s : string) : rawrec =
  match String.split_on_char ',' s with
  | [w; k; id; hx] -> ((frm_of w k, n_of_string id), hexarg hx)
  | _ -> failwith ("bad raw record " ^ s)
let list_of sep s f = if s = "-" || s = "" then [] else List.map f (String.split_on_char sep s)
let split2 c s =
  match String.index_opt s c with
  | Some i -> (String.sub s 0 i, String.sub s (i + 1) (String.length s - i - 1))
  | None -> failwith ("missing " ^ String.make 1 c ^ " in " ^ s)
let fmt_of_str (s : string) : fmt_rec =
  let (junk, r) = split2 '@' s in
  match String.split_on_char ',' r with
  | [w; k; id; code; tl] ->
    { fr_junk = list_of '~' junk raw_of_str; fr_frm = frm_of w k; fr_id = n_of_string id;
      fr_code = text_of code; fr_tail = hexarg tl }
  | _ -> failwith ("bad fmt " ^ s)
let xf_of_str (s : string) : xf_rec =
  let (junk, r) = split2 '@' s in
  match String.split_on_char ',' r with
  | [w; k; pa; ifmt; tl] ->
    { xr_junk = list_of '~' junk raw_of_str; xr_frm = frm_of w k; xr_parent = n_of_string pa;
      xr_ifmt = n_of_string ifmt; xr_tail = hexarg tl }
  | _ -> failwith ("bad xf " ^ s)
let coll_of_str (s : string) (f : string -> 'a) : (frm * coq_N list) * 'a list =
  let (hd, items) = split2 '/' s in
  match String.split_on_char ',' hd with
  | [w; k; tl] -> ((frm_of w k, hexarg tl), list_of ';' items f)
  | _ -> failwith ("bad collection head " ^ s)
let layout_of_str (s : string) : slayout =
  match String.split_on_char '|' s with
  | [pre; fmts; mid; xfs; post] ->
    { sl_pre = list_of ';' pre raw_of_str;
      sl_fmts = (if fmts = "-" then None else Some (coll_of_str fmts fmt_of_str));
      sl_mid = list_of ';' mid raw_of_str;
      sl_xfs = coll_of_str xfs xf_of_str;
      sl_post = hexarg post }
  | _ -> failwith "bad styles layout"

let b01 b = if b then "1" else "0"

let run (args : string list) : string =
  match args with
  | ["read"; "none"] -> read_str None
  | ["read"; hx] -> read_str (Some (hexarg hx))
  | ["enc"; lay] ->
    let l = layout_of_str lay in
    let bytes = encode_styles l in
    String.concat "#" [
      hex_of_bytes bytes;
      b01 (wf_slayout l);
      "spec=" ^ table_str (NumFmt.xlsb_formats (styles_of l));
      "read=" ^ read_str (Some bytes) ]
  | _ -> "bad-args"

let () = Registry.register "xlsbstyles" run
let init () = ()
