// Shared helpers for command modules: hex, canonical printing of calamine values.
use calamine::{CellErrorType, Data, DataRef};

pub fn unhex(s: &str) -> Vec<u8> {
    let b = s.as_bytes();
    let mut v = Vec::with_capacity(b.len() / 2);
    let h = |c: u8| -> u8 {
        match c {
            b'0'..=b'9' => c - b'0',
            b'a'..=b'f' => c - b'a' + 10,
            b'A'..=b'F' => c - b'A' + 10,
            _ => 0,
        }
    };
    let mut i = 0;
    while i + 1 < b.len() {
        v.push(h(b[i]) << 4 | h(b[i + 1]));
        i += 2;
    }
    v
}

pub fn hex(b: &[u8]) -> String {
    let mut s = String::with_capacity(b.len() * 2);
    for x in b {
        s.push_str(&format!("{:02x}", x));
    }
    s
}

pub fn hexstr(s: &str) -> String {
    hex(s.as_bytes())
}

pub fn err_code(e: &CellErrorType) -> u8 {
    match e {
        CellErrorType::Div0 => 0,
        CellErrorType::NA => 1,
        CellErrorType::Name => 2,
        CellErrorType::Null => 3,
        CellErrorType::Num => 4,
        CellErrorType::Ref => 5,
        CellErrorType::Value => 6,
        CellErrorType::GettingData => 7,
    }
}

/// Canonical text of a cell value: kind letter + payload; floats as raw bits; strings as hex.
pub fn data_str(d: &Data) -> String {
    match d {
        Data::Empty => "E".to_string(),
        Data::Int(i) => format!("I{}", i),
        Data::Float(f) => format!("F{}", f.to_bits()),
        Data::String(s) => format!("S{}", hexstr(s)),
        Data::Bool(b) => format!("B{}", *b as u8),
        Data::DateTime(dt) => format!(
            "D{}:{}:{}",
            dt.as_f64().to_bits(),
            if dt.is_duration() { 1 } else { 0 },
            if format!("{:?}", dt).contains("is_1904: true") { 1 } else { 0 }
        ),
        Data::DateTimeIso(s) => format!("T{}", hexstr(s)),
        Data::DurationIso(s) => format!("U{}", hexstr(s)),
        Data::Error(e) => format!("X{}", err_code(e)),
    }
}

pub fn dataref_str(d: &DataRef) -> String {
    let owned: Data = d.clone().into();
    data_str(&owned)
}
