(* OvbaDir — the VBA project directory ("dir" stream) and module extraction (property C18).
   M: src/vba.rs [read_dir_information], [Reference::from_stream] (+ [set_libid]),
      [read_modules], [read_variable_record], [check_variable_record], [check_record], [skip] and
      [VbaProject::from_cfb], statement by statement, on byte lists (the code as hardened: every
      length, skip and offset taken from the stream is checked and answers an error; there is
      no panic site left in this part — theorem vba_project_total).
   S/E: a project description ([proj]) and the MS-OVBA 2.3.4.2 writer of its dir stream
      ([encode_dir]); the container of a whole project ([project_streams]).
   Outside the model (parameters of the section): the code-page decoder of encoding_rs
   ([decode cp bytes], scalar values) — the table of supported code pages of the `codepage`
   crate is transcribed ([CODE_PAGES]); the compound file itself (property C13): a project
   container is the association list of its streams, [get_stream] = first entry of that name.
   Definitions only; proofs in OvbaDir_proofs.v. *)
From Calamine Require Import Prelude Ovba.
Open Scope N_scope.
Set Implicit Arguments.

(* error classes (never compared as text) *)
Definition E_IO : N := 1.          (* VbaError::Io (UnexpectedEof) *)
Definition E_RECORD_ID : N := 2.   (* VbaError::InvalidRecordId *)
Definition E_UNKNOWN : N := 3.     (* VbaError::Unknown *)
Definition E_LIBID : N := 4.       (* VbaError::LibId *)
Definition E_CODEPAGE : N := 5.    (* CfbError::CodePageNotFound *)
Definition E_STREAM : N := 6.      (* CfbError::StreamNotFound *)

(* codepage 0.1.3, static CODE_PAGES: to_encoding is Some exactly on these *)
Definition CODE_PAGES : list N :=
  [65001; 1200; 1252; 1251; 936; 932; 949; 1250; 1256; 1254; 950; 874; 1255; 1253; 1257; 1258;
   20932; 28592; 28605; 28597; 20866; 54936; 28595; 38598; 28594; 28596; 50221; 21866; 28603;
   28593; 1201; 866; 28600; 28598; 10000; 10017; 28604; 28606; 951; 10007; 20936; 20949; 21010;
   28591; 28599; 28601; 50220; 50222; 50225; 50227; 51936; 51949; 52936].
Definition cp_known (cp : N) : bool := existsb (N.eqb cp) CODE_PAGES.

(* ------------------------------------------------------------------------------------------ *)
(* reading primitives on [stream : &mut &[u8]]                                                  *)
(* ------------------------------------------------------------------------------------------ *)
(* skip(stream, n)?  =  *stream = stream.get(n..).ok_or_else(unexpected_eof)?; *)
Definition advance (n : N) (s : list N) : outcome (list N) :=
  if N.of_nat (length s) <? n then Err E_IO else Ok (skipn (N.to_nat n) s).

(* stream.read_u16::<LittleEndian>() / read_u32: io::Read on a slice, UnexpectedEof when short *)
Definition rd_u16 (s : list N) : outcome (N * list N) :=
  match s with
  | a :: b :: r => Ok (a + 256 * b, r)
  | _ => Err E_IO
  end.
Definition rd_u32 (s : list N) : outcome (N * list N) :=
  match s with
  | a :: b :: c :: d :: r => Ok (a + 256 * b + 65536 * c + 16777216 * d, r)
  | _ => Err E_IO
  end.

(* read_variable_record(r, 1): let len = r.read_u32()? as usize * 1;
   if len > r.len() { return Err(unexpected_eof()); }  let (read, next) = r.split_at(len); *)
Definition read_variable_record (s : list N) : outcome (list N * list N) :=
  do (len, s1) <- rd_u32 s;
  if N.of_nat (length s1) <? len then Err E_IO
  else Ok (firstn (N.to_nat len) s1, skipn (N.to_nat len) s1).

Definition check_record (id : N) (s : list N) : outcome (list N) :=
  do (record_id, s1) <- rd_u16 s;
  if record_id =? id then Ok s1 else Err E_RECORD_ID.

Definition check_variable_record (id : N) (s : list N) : outcome (list N * list N) :=
  do s1 <- check_record id s;
  read_variable_record s1.

(* control flow of a loop body: go on with a new state, or [break] with the result *)
Inductive loop_ctl (S R : Type) : Type := Continue (s : S) | Break (r : R).
Arguments Continue {S R} s.
Arguments Break {S R} r.

Section Dir.
(* encoding_rs: bytes of a code page -> scalar values *)
Variable decode : N -> list N -> list N.

(* ------------------------------------------------------------------------------------------ *)
(* read_dir_information                                                                         *)
(* ------------------------------------------------------------------------------------------ *)
Definition read_dir_information (s : list N) : outcome (N * list N) :=
  do s <- advance 10 s;                                   (* PROJECTSYSKIND *)
  (* if stream.get(0..2).map(read_u16) == Some(0x004A) { skip(stream, 10)?; } *)
  let compat := match s with a :: b :: _ => Some (a + 256 * b) | _ => None end in
  do s <- (match compat with
           | Some c => if c =? 0x004A then advance 10 s else Ok s   (* PROJECTCOMPATVERSION *)
           | None => Ok s
           end);
  do s <- advance 20 s;                                   (* PROJECTLCID, PROJECTLCIDINVOKE *)
  (* stream.get(6..8).map(read_u16).ok_or_else(unexpected_eof)? *)
  do cp <- (if N.of_nat (length s) <? 8 then Err E_IO
            else match skipn 6 s with a :: b :: _ => Ok (a + 256 * b) | _ => Err E_IO end);
  if negb (cp_known cp) then Err E_CODEPAGE               (* XlsEncoding::from_codepage(..)? *)
  else
    do s <- advance 8 s;
    do (_, s) <- check_variable_record 0x0004 s;          (* PROJECTNAME *)
    do (_, s) <- check_variable_record 0x0005 s;          (* PROJECTDOCSTRING *)
    do (_, s) <- check_variable_record 0x0040 s;
    do (_, s) <- check_variable_record 0x0006 s;          (* PROJECTHELPFILEPATH *)
    do (_, s) <- check_variable_record 0x003D s;
    do s <- advance 32 s;                                 (* HELPCONTEXT, LIBFLAGS, VERSION *)
    do (_, s) <- check_variable_record 0x000C s;          (* PROJECTCONSTANTS *)
    do (_, s) <- check_variable_record 0x003C s;
    Ok (cp, s).

(* ------------------------------------------------------------------------------------------ *)
(* references                                                                                   *)
(* ------------------------------------------------------------------------------------------ *)
Record reference := mkref { r_name : list N; r_desc : list N; r_path : list N }.

Definition is_empty (l : list N) : bool := match l with [] => true | _ :: _ => false end.
(* libid.ends_with(b"##") *)
Definition ends_with_hh (l : list N) : bool :=
  match rev l with
  | 35 :: 35 :: _ => true
  | _ => false
  end.
(* the text before and after the last [sep] *)
Fixpoint split_last (sep : N) (l : list N) : option (list N * list N) :=
  match l with
  | [] => None
  | x :: r =>
    match split_last sep r with
    | Some (a, b) => Some (x :: a, b)
    | None => if x =? sep then Some ([], r) else None
    end
  end.
(* let mut parts = libid.rsplit('#'); (parts.next(), parts.next()) = (Some(desc), Some(path)) *)
Definition rsplit2 (l : list N) : option (list N * list N) :=
  match split_last 35 l with
  | None => None
  | Some (before, desc) =>
    match split_last 35 before with
    | Some (_, path) => Some (desc, path)
    | None => Some (desc, before)
    end
  end.

Definition set_libid (cp : N) (r : reference) (s : list N) : outcome (reference * list N) :=
  do (libid, s1) <- read_variable_record s;
  if is_empty libid || ends_with_hh libid then Ok (r, s1)
  else
    match rsplit2 (decode cp libid) with
    | Some (desc, path) =>
      Ok (mkref (r_name r) desc
            (if negb (is_empty path) && is_empty (r_path r) then path else r_path r), s1)
    | None => Err E_LIBID
    end.

(* absolute.strip_prefix("*\\C") *)
Definition strip_c (l : list N) : list N :=
  match l with
  | 42 :: 92 :: 67 :: r => r
  | _ => l
  end.

Definition empty_ref : reference := mkref [] [] [].

(* if complete || !reference.name.is_empty() { references.push(reference); } *)
Definition push_ref (refs : list reference) (cur : reference) (complete : bool) : list reference :=
  if complete || negb (is_empty (r_name cur)) then refs ++ [cur] else refs.

(* matches!(check, 0x0033 | 0x002F | 0x000D | 0x000E) *)
Definition is_ref_record (check : N) : bool :=
  (check =? 0x0033) || (check =? 0x002F) || (check =? 0x000D) || (check =? 0x000E).

(* if complete && matches!(check, …) { references.push(reference); reference = Reference::empty;
   complete = false; } — a reference record met after a complete reference starts a new,
   nameless one (MS-OVBA 2.3.4.2.2.1: the NameRecord of a REFERENCE is optional) *)
Definition start_nameless (check : N) (st : list reference * reference * bool)
  : list reference * reference * bool :=
  let '(refs, cur, complete) := st in
  if complete && is_ref_record check then (refs ++ [cur], empty_ref, false) else st.

(* one iteration of the loop of Reference::from_stream: Break = the [break] of the 0x000F arm.
   State: references, reference, complete (the current reference has received its reference
   record), stream *)
Definition ref_state : Type := (list reference * reference * bool * list N)%type.

Definition ref_step (cp : N) (st : ref_state)
  : outcome (loop_ctl ref_state (list reference * list N)) :=
  let '(refs, cur, complete, s) := st in
  do (check, s) <- rd_u16 s;
  let '(refs, cur, complete) := start_nameless check (refs, cur, complete) in
  if check =? 0x000F then Ok (Break (push_ref refs cur complete, s))
  else if check =? 0x0016 then                            (* REFERENCENAME *)
    let refs := push_ref refs cur complete in
    do (name, s) <- read_variable_record s;
    let name := decode cp name in
    do (_, s) <- check_variable_record 0x003E s;
    Ok (Continue (refs, mkref name name [], false, s))
  else if check =? 0x0033 then                            (* REFERENCEORIGINAL *)
    do (cur, s) <- set_libid cp cur s;
    Ok (Continue (refs, cur, complete, s))
  else if check =? 0x002F then                            (* REFERENCECONTROL *)
    do s <- advance 4 s;
    do (cur, s) <- set_libid cp cur s;
    do s <- advance 6 s;
    do (t, s) <- rd_u16 s;
    do s <- (if t =? 0x0016 then
               do (_, s) <- read_variable_record s;
               do (_, s) <- check_variable_record 0x003E s;
               check_record 0x0030 s
             else if t =? 0x0030 then Ok s
             else Err E_UNKNOWN);
    do s <- advance 4 s;
    do (cur, s) <- set_libid cp cur s;
    do s <- advance 26 s;
    Ok (Continue (refs, cur, true, s))
  else if check =? 0x000D then                            (* REFERENCEREGISTERED *)
    do s <- advance 4 s;
    do (cur, s) <- set_libid cp cur s;
    do s <- advance 6 s;
    Ok (Continue (refs, cur, true, s))
  else if check =? 0x000E then                            (* REFERENCEPROJECT *)
    do s <- advance 4 s;
    do (absolute, s) <- read_variable_record s;
    let cur := mkref (r_name cur) (r_desc cur) (strip_c (decode cp absolute)) in
    do (_, s) <- read_variable_record s;
    do s <- advance 6 s;
    Ok (Continue (refs, cur, true, s))
  else Err E_UNKNOWN.

(* loop { … }: every iteration consumes at least the two id bytes, so 1 + the number of bytes
   left bounds the number of iterations (callers pass that) *)
Fixpoint refs_loop (fuel : nat) (cp : N) (st : ref_state) : outcome (list reference * list N) :=
  match fuel with
  | O => OutOfFuel
  | S f =>
    do c <- ref_step cp st;
    match c with
    | Break r => Ok r
    | Continue st' => refs_loop f cp st'
    end
  end.

Definition references_from_stream (cp : N) (s : list N) : outcome (list reference * list N) :=
  refs_loop (S (length s)) cp ([], empty_ref, false, s).

(* ------------------------------------------------------------------------------------------ *)
(* modules                                                                                      *)
(* ------------------------------------------------------------------------------------------ *)
Record module := mkmod { m_name : list N; m_stream : list N; m_offset : N }.

(* loop { *stream = &stream[4..]; match read_u16 { 0x25 | 0x28 => (), 0x2B => break, … } } *)
Fixpoint module_flags_loop (fuel : nat) (s : list N) : outcome (list N) :=
  match fuel with
  | O => OutOfFuel
  | S f =>
    do s <- advance 4 s;
    do (id, s) <- rd_u16 s;
    if (id =? 0x0025) || (id =? 0x0028) then module_flags_loop f s
    else if id =? 0x002B then Ok s
    else Err E_UNKNOWN
  end.

(* stream.starts_with(&[a, b]): false when fewer than two bytes are left *)
Definition starts_with2 (a b : N) (s : list N) : bool :=
  match s with
  | x :: y :: _ => (x =? a) && (y =? b)
  | _ => false
  end.

Definition read_module (cp : N) (s : list N) : outcome (module * list N) :=
  do (name, s) <- check_variable_record 0x0019 s;
  let name := decode cp name in
  (* MODULENAMEUNICODE is optional (MS-OVBA 2.3.4.2.3.2):
     if stream.starts_with(&[0x47, 0x00]) { check_variable_record(0x0047, stream)?; } *)
  do s <- (if starts_with2 0x47 0x00 s
           then do (_, s) <- check_variable_record 0x0047 s; Ok s
           else Ok s);
  do (stream_name, s) <- check_variable_record 0x001A s;
  let stream_name := decode cp stream_name in
  do (_, s) <- check_variable_record 0x0032 s;
  do (_, s) <- check_variable_record 0x001C s;
  do (_, s) <- check_variable_record 0x0048 s;
  do s <- check_record 0x0031 s;
  do s <- advance 4 s;
  do (offset, s) <- rd_u32 s;
  do s <- check_record 0x001E s;
  do s <- advance 8 s;
  do s <- check_record 0x002C s;
  do s <- advance 6 s;
  do (typ, s) <- rd_u16 s;
  if negb ((typ =? 0x0021) || (typ =? 0x0022)) then Err E_UNKNOWN
  else
    do s <- module_flags_loop (S (length s)) s;
    do s <- advance 4 s;
    Ok (mkmod name stream_name offset, s).

(* for _ in 0..module_len *)
Fixpoint modules_loop (n : nat) (cp : N) (acc : list module) (s : list N)
  : outcome (list module * list N) :=
  match n with
  | O => Ok (acc, s)
  | S n' =>
    do (m, s) <- read_module cp s;
    modules_loop n' cp (acc ++ [m]) s
  end.

Definition read_modules (cp : N) (s : list N) : outcome (list module * list N) :=
  do s <- advance 4 s;
  do (module_len, s) <- rd_u16 s;
  do s <- advance 8 s;                                    (* PROJECTCOOKIE *)
  modules_loop (N.to_nat module_len) cp [] s.

(* ------------------------------------------------------------------------------------------ *)
(* VbaProject::from_cfb                                                                         *)
(* ------------------------------------------------------------------------------------------ *)
Fixpoint list_eqb (a b : list N) : bool :=
  match a, b with
  | [], [] => true
  | x :: a', y :: b' => (x =? y) && list_eqb a' b'
  | _, _ => false
  end.

(* compound-file names compare up to the case of their ASCII letters (str::eq_ignore_ascii_case in
   Cfb::find since the fix of audit-2 finding CFB-1; [MS-CFB] 2.6.4 compares after upper-casing):
   the stream of a module is found when the directory spells it in another case than the
   MODULESTREAMNAME record does.  (= Cfb.name_eqb; kept local, this file does not depend on Cfb.v) *)
Definition sn_upper (c : N) : N := if (97 <=? c) && (c <=? 122) then c - 32 else c.
Definition sn_key (n : list N) : list N := map sn_upper n.
Definition sn_eqb (a b : list N) : bool := list_eqb (sn_key a) (sn_key b).

(* cfb.get_stream(name, r): the first directory entry of that name (the container is C13's) *)
Fixpoint get_stream (streams : list (list N * list N)) (name : list N) : outcome (list N) :=
  match streams with
  | [] => Err E_STREAM
  | (n, b) :: rest => if sn_eqb n name then Ok b else get_stream rest name
  end.

(* mods.into_iter().map(|m| get_stream(..).and_then(|s| decompress_stream(&s[off..]))).collect() *)
Fixpoint read_all_modules (streams : list (list N * list N)) (mods : list module)
  : outcome (list (list N * list N)) :=
  match mods with
  | [] => Ok []
  | m :: rest =>
    do s <- get_stream streams (m_stream m);
    do c <- module_content s (m_offset m);
    do tl <- read_all_modules streams rest;
    Ok ((m_name m, c) :: tl)
  end.

Record project := mkproject {
  pj_codepage : N;
  pj_references : list reference;
  pj_modules : list (list N * list N)      (* name -> raw content, in directory order *)
}.

Definition DIR_NAME : list N := [100; 105; 114].   (* "dir" *)

(* the three passes over the decompressed dir stream *)
Definition parse_dir (stream : list N) : outcome (N * list reference * list module) :=
  do (cp, s) <- read_dir_information stream;
  do (refs, s) <- references_from_stream cp s;
  do (mods, _) <- read_modules cp s;
  Ok (cp, refs, mods).

Definition vba_project (streams : list (list N * list N)) : outcome project :=
  do stream <- get_stream streams DIR_NAME;
  do stream <- decompress stream;
  do (cp, refs, mods) <- parse_dir stream;
  do modules <- read_all_modules streams mods;
  Ok (mkproject cp refs modules).

(* BTreeMap<String, Vec<u8>>: the last insertion under a name wins *)
Fixpoint get_module_raw (modules : list (list N * list N)) (name : list N) : option (list N) :=
  match modules with
  | [] => None
  | (n, c) :: rest =>
    match get_module_raw rest name with
    | Some c' => Some c'
    | None => if list_eqb n name then Some c else None
    end
  end.
(* get_module: self.encoding.decode_all(data) *)
Definition get_module (p : project) (name : list N) : option (list N) :=
  option_map (decode (pj_codepage p)) (get_module_raw (pj_modules p) name).

End Dir.

(* ------------------------------------------------------------------------------------------ *)
(* S / E — project description and the dir stream writer (MS-OVBA 2.3.4.2)                      *)
(* ------------------------------------------------------------------------------------------ *)
Definition le32 (x : N) : list N :=
  [x mod 256; (x / 256) mod 256; (x / 65536) mod 256; (x / 16777216) mod 256].
(* Id, Size, bytes *)
Definition var_rec (id : N) (b : list N) : list N := le16 id ++ le32 (N.of_nat (length b)) ++ b.
Definition sized (b : list N) : list N := le32 (N.of_nat (length b)) ++ b.

Inductive ref_kind :=
| RRegistered (libid : list N)
| RProject (libid_abs libid_rel : list N) (major minor : N)
| RControl (original : option (list N)) (twiddled : list N)
           (name_ext : option (list N * list N)) (libid_ext : list N) (guid : list N) (cookie : N).
(* [rs_named]: the REFERENCE carries its optional NameRecord (MS-OVBA 2.3.4.2.2.1: "This field
   is optional"); without it the name fields are not written *)
Record ref_spec := mkrs { rs_named : bool; rs_name : list N; rs_name_u : list N; rs_kind : ref_kind }.

(* [ms_name_u]: the MODULENAMEUNICODE record (0x0047) is optional in a MODULE record (MS-OVBA
   2.3.4.2.3.2: MODULENAME [MODULENAMEUNICODE] MODULESTREAMNAME …); [None] = not written *)
Record mod_spec := mkms {
  ms_name : list N; ms_name_u : option (list N);
  ms_stream : list N; ms_stream_u : list N;
  ms_doc : list N; ms_doc_u : list N;
  ms_offset : N; ms_helpctx : N; ms_cookie : N;
  ms_document : bool;            (* 0x22 document/class/designer, 0x21 procedural *)
  ms_readonly : bool; ms_private : bool }.

Record proj := mkproj {
  p_syskind : N; p_compat : option N; p_lcid : N; p_lcid_invoke : N; p_codepage : N;
  p_name : list N; p_doc : list N; p_doc_u : list N; p_help1 : list N; p_help2 : list N;
  p_helpctx : N; p_libflags : N; p_vmajor : N; p_vminor : N;
  p_const : list N; p_const_u : list N;
  p_refs : list ref_spec; p_mods : list mod_spec; p_cookie : N }.

Definition enc_ref_kind (k : ref_kind) : list N :=
  match k with
  | RRegistered libid =>
    le16 0x000D ++ le32 (N.of_nat (length libid) + 10) ++ sized libid ++ le32 0 ++ le16 0
  | RProject la lr major minor =>
    le16 0x000E ++ le32 (N.of_nat (length la) + N.of_nat (length lr) + 14) ++
    sized la ++ sized lr ++ le32 major ++ le16 minor
  | RControl orig tw next lext guid cookie =>
    (match orig with Some o => le16 0x0033 ++ sized o | None => [] end) ++
    le16 0x002F ++ le32 (N.of_nat (length tw) + 10) ++ sized tw ++ le32 0 ++ le16 0 ++
    (match next with
     | Some (n, nu) => var_rec 0x0016 n ++ var_rec 0x003E nu
     | None => []
     end) ++
    le16 0x0030 ++ le32 (N.of_nat (length lext) + 30) ++ sized lext ++ le32 0 ++ le16 0 ++
    guid ++ le32 cookie
  end.
Definition enc_ref (r : ref_spec) : list N :=
  (if rs_named r then var_rec 0x0016 (rs_name r) ++ var_rec 0x003E (rs_name_u r) else []) ++
  enc_ref_kind (rs_kind r).

Definition enc_mod (m : mod_spec) : list N :=
  var_rec 0x0019 (ms_name m) ++
  (match ms_name_u m with Some nu => var_rec 0x0047 nu | None => [] end) ++
  var_rec 0x001A (ms_stream m) ++ var_rec 0x0032 (ms_stream_u m) ++
  var_rec 0x001C (ms_doc m) ++ var_rec 0x0048 (ms_doc_u m) ++
  le16 0x0031 ++ le32 4 ++ le32 (ms_offset m) ++
  le16 0x001E ++ le32 4 ++ le32 (ms_helpctx m) ++
  le16 0x002C ++ le32 2 ++ le16 (ms_cookie m) ++
  le16 (if ms_document m then 0x0022 else 0x0021) ++ le32 0 ++
  (if ms_readonly m then le16 0x0025 ++ le32 0 else []) ++
  (if ms_private m then le16 0x0028 ++ le32 0 else []) ++
  le16 0x002B ++ le32 0.

Definition enc_info (p : proj) : list N :=
  le16 0x0001 ++ le32 4 ++ le32 (p_syskind p) ++
  (match p_compat p with Some v => le16 0x004A ++ le32 4 ++ le32 v | None => [] end) ++
  le16 0x0002 ++ le32 4 ++ le32 (p_lcid p) ++
  le16 0x0014 ++ le32 4 ++ le32 (p_lcid_invoke p) ++
  le16 0x0003 ++ le32 2 ++ le16 (p_codepage p) ++
  var_rec 0x0004 (p_name p) ++
  var_rec 0x0005 (p_doc p) ++ var_rec 0x0040 (p_doc_u p) ++
  var_rec 0x0006 (p_help1 p) ++ var_rec 0x003D (p_help2 p) ++
  le16 0x0007 ++ le32 4 ++ le32 (p_helpctx p) ++
  le16 0x0008 ++ le32 4 ++ le32 (p_libflags p) ++
  le16 0x0009 ++ le32 4 ++ le32 (p_vmajor p) ++ le16 (p_vminor p) ++
  var_rec 0x000C (p_const p) ++ var_rec 0x003C (p_const_u p).

Definition encode_dir (p : proj) : list N :=
  enc_info p ++
  concat (map enc_ref (p_refs p)) ++
  le16 0x000F ++ le32 2 ++ le16 (N.of_nat (length (p_mods p))) ++
  le16 0x0013 ++ le32 2 ++ le16 (p_cookie p) ++
  concat (map enc_mod (p_mods p)) ++
  le16 0x0010 ++ le32 0.

(* --- what a reader must return for a project description --- *)
Section Expected.
Variable decode : N -> list N -> list N.

(* the effect of one libid on a reference, as MS-OVBA's libid grammar reads:
   "…#path#description"; an empty libid or one ending in "##" carries nothing *)
Definition libid_effect (cp : N) (r : reference) (libid : list N) : option reference :=
  if is_empty libid || ends_with_hh libid then Some r
  else
    match rsplit2 (decode cp libid) with
    | Some (desc, path) =>
      Some (mkref (r_name r) desc
              (if negb (is_empty path) && is_empty (r_path r) then path else r_path r))
    | None => None
    end.

Definition opt_bind {A B} (o : option A) (f : A -> option B) : option B :=
  match o with Some a => f a | None => None end.

Definition expected_ref (cp : N) (r : ref_spec) : option reference :=
  let name := if rs_named r then decode cp (rs_name r) else [] in
  let r0 := mkref name name [] in
  match rs_kind r with
  | RRegistered libid => libid_effect cp r0 libid
  | RProject la _ _ _ => Some (mkref name name (strip_c (decode cp la)))
  | RControl orig tw _ lext _ _ =>
    opt_bind (match orig with Some o => libid_effect cp r0 o | None => Some r0 end) (fun r1 =>
    opt_bind (libid_effect cp r1 tw) (fun r2 => libid_effect cp r2 lext))
  end.

Fixpoint expected_refs (cp : N) (rs : list ref_spec) : option (list reference) :=
  match rs with
  | [] => Some []
  | r :: rest =>
    opt_bind (expected_ref cp r) (fun x =>
    opt_bind (expected_refs cp rest) (fun tl => Some (x :: tl)))
  end.

(* the module name is the text of the MODULENAME record (0x0019) decoded with the project's
   code page, whether or not the optional MODULENAMEUNICODE record is written *)
Definition expected_mod (cp : N) (m : mod_spec) : module :=
  mkmod (decode cp (ms_name m)) (decode cp (ms_stream m)) (ms_offset m).
End Expected.

(* --- validity of a description: sizes fit their fields, names are present --- *)
Definition u32b (x : N) : bool := x <? 4294967296.
Definition u16b (x : N) : bool := x <? 65536.
Definition lenb (l : list N) : bool := u32b (N.of_nat (length l)).

Definition valid_ref_kindb (k : ref_kind) : bool :=
  match k with
  | RRegistered libid => lenb libid
  | RProject la lr major minor => lenb la && lenb lr && u32b major && u16b minor
  | RControl orig tw next lext guid cookie =>
    (match orig with Some o => lenb o | None => true end) && lenb tw &&
    (match next with Some (n, nu) => lenb n && lenb nu | None => true end) &&
    lenb lext && (N.of_nat (length guid) =? 16) && u32b cookie
  end.
Definition valid_refb (r : ref_spec) : bool :=
  (if rs_named r then lenb (rs_name r) && lenb (rs_name_u r) else true) &&
  valid_ref_kindb (rs_kind r).
Definition valid_modb (m : mod_spec) : bool :=
  lenb (ms_name m) && (match ms_name_u m with Some nu => lenb nu | None => true end) &&
  lenb (ms_stream m) && lenb (ms_stream_u m) &&
  lenb (ms_doc m) && lenb (ms_doc_u m) && u32b (ms_offset m) && u32b (ms_helpctx m) &&
  u16b (ms_cookie m).
Definition valid_projb (p : proj) : bool :=
  u32b (p_syskind p) && (match p_compat p with Some v => u32b v | None => true end) &&
  u32b (p_lcid p) && u32b (p_lcid_invoke p) && cp_known (p_codepage p) &&
  lenb (p_name p) && lenb (p_doc p) && lenb (p_doc_u p) && lenb (p_help1 p) && lenb (p_help2 p) &&
  u32b (p_helpctx p) && u32b (p_libflags p) && u32b (p_vmajor p) && u16b (p_vminor p) &&
  lenb (p_const p) && lenb (p_const_u p) &&
  forallb valid_refb (p_refs p) &&
  forallb valid_modb (p_mods p) && u16b (N.of_nat (length (p_mods p))) && u16b (p_cookie p).

(* classes of valid descriptions on which the current code is known to deviate: none.
   (Class 1, a REFERENCE without its optional NameRecord, was repaired in vba.rs by the fix:
   commit "vba references without a name record …"; [ref_step] above mirrors the repaired loop.)
   Kept, constantly [None], for the wire format of the drivers. *)
Definition known_C18_dir (p : proj) : option N := None.

(* --- a whole project: the dir stream under some valid compression, and one stream per module
   holding [offset] bytes of performance cache followed by the compressed source --- *)
Record mod_body := mkbody { mb_pcode : list N; mb_chunks : list chunk }.

Definition module_stream (b : mod_body) : list N := mb_pcode b ++ ovba_encode (mb_chunks b).

Definition project_streams (decode : N -> list N -> list N) (p : proj) (dir_chunks : list chunk)
  (mbs : list (mod_spec * mod_body)) : list (list N * list N) :=
  (DIR_NAME, ovba_encode dir_chunks) ::
  map (fun mb => (decode (p_codepage p) (ms_stream (fst mb)), module_stream (snd mb))) mbs.
