(* Range_proofs.v — proofs about the Range model (Range.v) in the vocabulary of Range_spec.v.
   Properties/C05.v closes its theorems by [exact] on the lemmas of the last section. *)
From Calamine Require Import Prelude Range Range_spec.
Open Scope N_scope.
Set Implicit Arguments.

(* ---------------------------------------------------------------------------------------- *)
(* Rectangular lists: a list of length h * w seen as h rows of w cells                      *)
(* ---------------------------------------------------------------------------------------- *)
Lemma nth_error_nil' : forall (A : Type) i, nth_error (@nil A) i = None.
Proof. destruct i; reflexivity. Qed.

Section Grid.
Variable T : Type.

Lemma skipn_skipn' : forall a b (l : list T), skipn a (skipn b l) = skipn (b + a) l.
Proof.
  intros a b; revert a. induction b as [|b IH]; intros a l; [reflexivity|].
  destruct l as [|x l]; [cbn; apply skipn_nil|]. cbn. apply IH.
Qed.

Lemma chunks_aux_nil : forall fuel w, @chunks_aux T fuel w [] = [].
Proof. destruct fuel; reflexivity. Qed.

Lemma chunks_aux_cons : forall h fuel w (l : list T),
  (0 < w)%nat -> length l = (S h * w)%nat -> (S h <= fuel)%nat ->
  chunks_aux fuel w l = firstn w l :: chunks_aux (fuel - 1) w (skipn w l).
Proof.
  intros h fuel w l Hw Hl Hf. destruct fuel as [|f]; [lia|]. cbn [chunks_aux].
  destruct l as [|x l']; [cbn in Hl; lia|]. replace (S f - 1)%nat with f by lia. reflexivity.
Qed.

Lemma chunks_aux_nth : forall h fuel w (l : list T) i,
  (0 < w)%nat -> length l = (h * w)%nat -> (h <= fuel)%nat ->
  nth_error (chunks_aux fuel w l) i =
    if (i <? h)%nat then Some (firstn w (skipn (i * w) l)) else None.
Proof.
  induction h as [|h IH]; intros fuel w l i Hw Hl Hf.
  - destruct l; [|cbn in Hl; lia]. rewrite chunks_aux_nil, nth_error_nil'. reflexivity.
  - rewrite (@chunks_aux_cons h fuel w l Hw Hl Hf).
    destruct i as [|i]; [reflexivity|]. cbn [nth_error].
    rewrite IH; try lia.
    + replace (S i <? S h)%nat with (i <? h)%nat by (destruct (Nat.ltb_spec i h), (Nat.ltb_spec (S i) (S h)); lia).
      destruct (i <? h)%nat; [|reflexivity]. rewrite skipn_skipn'. reflexivity.
    + rewrite skipn_length. nia.
Qed.

Lemma chunks_aux_length : forall h fuel w (l : list T),
  (0 < w)%nat -> length l = (h * w)%nat -> (h <= fuel)%nat ->
  length (chunks_aux fuel w l) = h.
Proof.
  induction h as [|h IH]; intros fuel w l Hw Hl Hf.
  - destruct l; [|cbn in Hl; lia]. rewrite chunks_aux_nil. reflexivity.
  - rewrite (@chunks_aux_cons h fuel w l Hw Hl Hf). cbn [length]. f_equal.
    apply IH; try lia. rewrite skipn_length. nia.
Qed.

Lemma chunks_aux_Forall : forall h fuel w (l : list T),
  (0 < w)%nat -> length l = (h * w)%nat -> (h <= fuel)%nat ->
  Forall (fun row => length row = w) (chunks_aux fuel w l).
Proof.
  induction h as [|h IH]; intros fuel w l Hw Hl Hf.
  - destruct l; [|cbn in Hl; lia]. rewrite chunks_aux_nil. constructor.
  - rewrite (@chunks_aux_cons h fuel w l Hw Hl Hf). constructor.
    + rewrite firstn_length. nia.
    + apply IH; try lia. rewrite skipn_length. nia.
Qed.

Lemma chunks_nth : forall h w (l : list T) i,
  (0 < w)%nat -> length l = (h * w)%nat ->
  nth_error (chunks w l) i =
    if (i <? h)%nat then Some (firstn w (skipn (i * w) l)) else None.
Proof. intros. unfold chunks. apply chunks_aux_nth; nia. Qed.

Lemma chunks_length : forall h w (l : list T),
  (0 < w)%nat -> length l = (h * w)%nat -> length (chunks w l) = h.
Proof. intros. unfold chunks. apply chunks_aux_length; nia. Qed.

Lemma chunks_Forall : forall h w (l : list T),
  (0 < w)%nat -> length l = (h * w)%nat ->
  Forall (fun row => length row = w) (chunks w l).
Proof. intros h w l Hw Hl. unfold chunks. apply chunks_aux_Forall with (h := h); nia. Qed.

Lemma chunk_nth : forall w (l : list T) i j, (j < w)%nat ->
  nth_error (firstn w (skipn (i * w) l)) j = nth_error l (i * w + j).
Proof. intros. rewrite nth_error_firstn_lt by lia. apply nth_error_skipn_add. Qed.

(* the cell (i, j) of the rows produced by chunks *)
Lemma chunks_cell : forall h w (l : list T) i j,
  (0 < w)%nat -> length l = (h * w)%nat -> (i < h)%nat -> (j < w)%nat ->
  match nth_error (chunks w l) i with Some row => nth_error row j | None => None end
  = nth_error l (i * w + j).
Proof.
  intros h w l i j Hw Hl Hi Hj. rewrite (@chunks_nth h) by assumption.
  destruct (Nat.ltb_spec i h); [|lia]. apply chunk_nth; assumption.
Qed.

Lemma concat_rect_length : forall w (rows : list (list T)),
  Forall (fun row => length row = w) rows -> length (concat rows) = (length rows * w)%nat.
Proof.
  intros w rows H. induction H as [|row rows Hr _ IH]; [reflexivity|].
  cbn [concat length]. rewrite app_length, IH, Hr. lia.
Qed.

Lemma concat_rect_nth : forall w (rows : list (list T)) i j,
  Forall (fun row => length row = w) rows -> (j < w)%nat ->
  nth_error (concat rows) (i * w + j) =
    match nth_error rows i with Some row => nth_error row j | None => None end.
Proof.
  intros w rows i j H; revert i. induction H as [|row rows Hr _ IH]; intros i Hj.
  - cbn [concat]. rewrite !nth_error_nil'. reflexivity.
  - cbn [concat]. destruct i as [|i].
    + cbn [nth_error Nat.mul Nat.add]. apply nth_error_app1. lia.
    + rewrite nth_error_app2 by (rewrite Hr; nia). cbn [nth_error].
      rewrite <- IH by assumption. f_equal. rewrite Hr. nia.
Qed.

Lemma Forall_firstn' : forall (P : list T -> Prop) n (l : list (list T)),
  Forall P l -> Forall P (firstn n l).
Proof.
  intros P n l H. apply Forall_forall. intros x Hx.
  rewrite Forall_forall in H. apply H. rewrite <- (firstn_skipn n l). apply in_or_app. now left.
Qed.

Lemma Forall_skipn' : forall (P : list T -> Prop) n (l : list (list T)),
  Forall P l -> Forall P (skipn n l).
Proof.
  intros P n l H. apply Forall_forall. intros x Hx.
  rewrite Forall_forall in H. apply H. rewrite <- (firstn_skipn n l). apply in_or_app. now right.
Qed.

End Grid.

(* ---------------------------------------------------------------------------------------- *)
(* Basic facts about ranges                                                                 *)
(* ---------------------------------------------------------------------------------------- *)
Section RangeBasics.
Variable T : Type.

Lemma is_empty_true : forall r : range T, is_empty r = true -> r_inner r = [].
Proof. intros r H. unfold is_empty in H. destruct (r_inner r); congruence. Qed.

Lemma is_empty_false : forall r : range T, is_empty r = false -> r_inner r <> [].
Proof. intros r H. unfold is_empty in H. destruct (r_inner r); congruence. Qed.

Lemma is_empty_length : forall r : range T, (0 < length (r_inner r))%nat -> is_empty r = false.
Proof. intros r H. unfold is_empty. destruct (r_inner r); [cbn in H; lia|reflexivity]. Qed.

Lemma width_empty : forall r : range T, is_empty r = true -> width r = 0.
Proof. intros r H. unfold width. rewrite H. reflexivity. Qed.

Lemma height_empty : forall r : range T, is_empty r = true -> height r = 0.
Proof. intros r H. unfold height. rewrite H. reflexivity. Qed.

Lemma Wf_ne : forall r : range T, Wf r -> is_empty r = false ->
  fst (r_start r) <= fst (r_end r) /\ snd (r_start r) <= snd (r_end r) /\
  height r = fst (r_end r) - fst (r_start r) + 1 /\
  width r = snd (r_end r) - snd (r_start r) + 1 /\
  N.of_nat (length (r_inner r)) = height r * width r.
Proof.
  intros r [H|(H1 & H2 & H3)] Hne.
  - apply is_empty_false in Hne. contradiction.
  - unfold height, width. rewrite Hne. auto.
Qed.

Lemma get_char : forall (r : range T) i j,
  get r (i, j) =
    if (j <? width r) && (i <? height r)
    then nth_error (r_inner r) (N.to_nat i * N.to_nat (width r) + N.to_nat j)%nat
    else None.
Proof.
  intros r i j. unfold get.
  destruct (width r <=? j) eqn:E1; destruct (j <? width r) eqn:E1'; try lia; cbn [orb andb]; auto.
  destruct (height r <=? i) eqn:E2; destruct (i <? height r) eqn:E2'; try lia; auto.
  rewrite N2Nat.inj_add, N2Nat.inj_mul. reflexivity.
Qed.

Lemma get_value_char : forall (r : range T) q,
  get_value r q =
    if in_box (r_start r) (r_end r) q
    then get r (fst q - fst (r_start r), snd q - snd (r_start r)) else None.
Proof. intros [[sr sc] [er ec] l] q. reflexivity. Qed.

Lemma get_value_empty : forall (r : range T) q, is_empty r = true -> get_value r q = None.
Proof.
  intros r q H. rewrite get_value_char. destruct (in_box _ _ q); [|reflexivity].
  rewrite get_char, (width_empty _ H). destruct (_ <? 0) eqn:E; [lia|reflexivity].
Qed.

(* the absolute accessor on a well-formed non-empty range, as a flat nat index *)
Lemma get_value_ne : forall (r : range T) q, Wf r -> is_empty r = false ->
  get_value r q =
    if in_box (r_start r) (r_end r) q
    then nth_error (r_inner r)
           (N.to_nat (fst q - fst (r_start r)) * N.to_nat (width r)
            + N.to_nat (snd q - snd (r_start r)))%nat
    else None.
Proof.
  intros r q HWf Hne. rewrite get_value_char.
  destruct (in_box _ _ q) eqn:Hb; [|reflexivity].
  destruct (Wf_ne HWf Hne) as (H1 & H2 & Hh & Hw & Hl).
  rewrite get_char. unfold in_box in Hb.
  destruct (_ <? width r) eqn:E1; [|lia]. destruct (_ <? height r) eqn:E2; [|lia]. reflexivity.
Qed.

Lemma Wf_mk : forall sr sc er ec (l : list T), sr <= er -> sc <= ec ->
  N.of_nat (length l) = (er - sr + 1) * (ec - sc + 1) ->
  Wf (mkRange (sr, sc) (er, ec) l).
Proof. intros. right. cbn [r_start r_end r_inner fst snd]. auto. Qed.

Lemma ne_mk : forall sr sc er ec (l : list T),
  N.of_nat (length l) = (er - sr + 1) * (ec - sc + 1) ->
  is_empty (mkRange (sr, sc) (er, ec) l) = false.
Proof. intros. apply is_empty_length. cbn [r_inner]. nia. Qed.

Lemma get_value_mk : forall sr sc er ec (l : list T) q, sr <= er -> sc <= ec ->
  N.of_nat (length l) = (er - sr + 1) * (ec - sc + 1) ->
  get_value (mkRange (sr, sc) (er, ec) l) q =
    if in_box (sr, sc) (er, ec) q
    then nth_error l (N.to_nat (fst q - sr) * N.to_nat (ec - sc + 1) + N.to_nat (snd q - sc))%nat
    else None.
Proof.
  intros sr sc er ec l q H1 H2 Hl.
  rewrite get_value_ne; [|apply Wf_mk; assumption|apply ne_mk; assumption].
  cbn [r_start r_end r_inner fst snd]. unfold width. rewrite ne_mk by assumption. reflexivity.
Qed.

Lemma rect_mk : forall sr sc er ec (l : list T),
  N.of_nat (length l) = (er - sr + 1) * (ec - sc + 1) ->
  rect (mkRange (sr, sc) (er, ec) l) = Some ((sr, sc), (er, ec)).
Proof. intros. unfold rect. rewrite ne_mk by assumption. reflexivity. Qed.

(* a position inside a box has a flat index inside the vector *)
Lemma box_index_lt : forall sr sc er ec q (n : nat),
  in_box (sr, sc) (er, ec) q = true ->
  N.of_nat n = (er - sr + 1) * (ec - sc + 1) ->
  (N.to_nat (fst q - sr) * N.to_nat (ec - sc + 1) + N.to_nat (snd q - sc) < n)%nat.
Proof. intros sr sc er ec [qr qc] n Hb Hn. unfold in_box in Hb. cbn [fst snd] in *. nia. Qed.

End RangeBasics.

(* ---------------------------------------------------------------------------------------- *)
(* Range::new                                                                               *)
(* ---------------------------------------------------------------------------------------- *)
Section New.
Variable T : Type.
Variable d : T.

Lemma new_ok : forall s e : pos, le2 s e -> box_cells s e <= U32MAX ->
  new d s e = Ok (mkRange s e (repeat d (N.to_nat (box_cells s e)))).
Proof.
  intros [sr sc] [er ec] [H1 H2] Hb. unfold box_cells in *. cbn [fst snd] in *.
  unfold new, pos_le_lex, sub32, add32, mul32. cbn [fst snd].
  destruct ((sr <? er) || ((sr =? er) && (sc <=? ec))) eqn:E0; [|lia]. cbn [negb].
  destruct (sr <=? er) eqn:E1; [|lia]. cbn [obind].
  destruct (er - sr + 1 <=? U32MAX) eqn:E2; [|nia]. cbn [obind].
  destruct (sc <=? ec) eqn:E3; [|lia]. cbn [obind].
  destruct (ec - sc + 1 <=? U32MAX) eqn:E4; [|nia]. cbn [obind].
  destruct ((er - sr + 1) * (ec - sc + 1) <=? U32MAX) eqn:E5; [|lia]. cbn [obind].
  reflexivity.
Qed.

Lemma new_spec : forall (s e : pos),
    le2 s e -> box_cells s e <= U32MAX ->
    exists r, new d s e = Ok r /\ Wf r /\ rect r = Some (s, e) /\
      forall q, get_value r q = if in_box s e q then Some d else None.
Proof.
  intros s e Hle Hb. rewrite (new_ok Hle Hb). eexists; split; [reflexivity|].
  destruct s as [sr sc], e as [er ec]. destruct Hle as [H1 H2]. unfold box_cells in *.
  cbn [fst snd] in *.
  assert (Hl : N.of_nat (length (repeat d (N.to_nat ((er - sr + 1) * (ec - sc + 1)))))
               = (er - sr + 1) * (ec - sc + 1)) by (rewrite repeat_length; lia).
  split; [apply Wf_mk; assumption|]. split; [apply rect_mk; assumption|].
  intro q. rewrite get_value_mk by assumption.
  destruct (in_box (sr, sc) (er, ec) q) eqn:Hq; [|reflexivity].
  apply nth_error_repeat. pose proof (@box_index_lt sr sc er ec q _ Hq Hl) as Hi.
  rewrite repeat_length in Hi. exact Hi.
Qed.

End New.

(* ---------------------------------------------------------------------------------------- *)
(* Read accessors                                                                           *)
(* ---------------------------------------------------------------------------------------- *)
Section Accessors.
Variable T : Type.

Lemma enum_from_length : forall (l : list T) s, length (enum_from s l) = length l.
Proof. induction l as [|x l IH]; intros s; cbn [enum_from length]; [reflexivity|]. now rewrite IH. Qed.

Lemma enum_from_nth : forall (l : list T) s k,
  nth_error (enum_from s l) k = option_map (fun v => (s + N.of_nat k, v)) (nth_error l k).
Proof.
  induction l as [|x l IH]; intros s k; cbn [enum_from].
  - rewrite !nth_error_nil'. reflexivity.
  - destruct k as [|k]; cbn [nth_error option_map].
    + do 2 f_equal. lia.
    + rewrite IH. destruct (nth_error l k); cbn [option_map]; [|reflexivity]. do 2 f_equal. lia.
Qed.

Lemma get_ne_iff : forall (r : range T) rel, Wf r ->
  (get r rel <> None <-> (fst rel < height r /\ snd rel < width r)).
Proof.
  intros r [i j] HWf. cbn [fst snd]. rewrite get_char.
  destruct (is_empty r) eqn:Hemp.
  - rewrite (width_empty _ Hemp). destruct (j <? 0) eqn:E; [lia|]. cbn [andb]. split; [congruence|lia].
  - destruct (Wf_ne HWf Hemp) as (_ & _ & _ & _ & Hl).
    destruct (j <? width r) eqn:E1; destruct (i <? height r) eqn:E2; cbn [andb];
      try (split; [congruence|lia]).
    split; [intros _; lia|]. intros _. apply nth_error_Some. nia.
Qed.

Lemma accessors_agree_sec : forall (d : T) (teqb : T -> T -> bool) (r : range T),
    Wf r ->
    length (rows r) = N.to_nat (height r) /\
    Forall (fun row => length row = N.to_nat (width r)) (rows r) /\
    (forall i j, i < height r -> j < width r ->
       match nth_error (rows r) (N.to_nat i) with
       | Some row => nth_error row (N.to_nat j)
       | None => None
       end = get r (i, j) /\ get r (i, j) <> None) /\
    length (cells r) = N.to_nat (height r * width r) /\
    (forall i j, i < height r -> j < width r ->
       nth_error (cells r) (N.to_nat (i * width r + j)) =
       option_map (fun v => (i, j, v)) (get r (i, j))) /\
    used_cells d teqb r = filter (fun c => negb (teqb (snd c) d)) (cells r) /\
    (forall p, get_value r p =
       if in_rect r p then get r (fst p - fst (r_start r), snd p - snd (r_start r)) else None) /\
    (forall rel, index2 r rel = match get r rel with Some v => Ok v | None => Panic end) /\
    (forall rel, get r rel <> None <-> (fst rel < height r /\ snd rel < width r)) /\
    start r = option_map fst (rect r) /\ end_ r = option_map snd (rect r).
Proof.
  intros d teqb r HWf.
  assert (Hidx : forall rel, index2 r rel = match get r rel with Some v => Ok v | None => Panic end).
  { intros [i j]. unfold index2, get.
    destruct (j <? width r) eqn:E1; destruct (width r <=? j) eqn:E1'; try lia; cbn [andb orb]; auto.
    destruct (i <? height r) eqn:E2; destruct (height r <=? i) eqn:E2'; try lia; auto. }
  destruct (is_empty r) eqn:Hemp.
  - (* empty range *)
    pose proof (is_empty_true _ Hemp) as Hin.
    pose proof (width_empty _ Hemp) as Hw. pose proof (height_empty _ Hemp) as Hh.
    unfold used_cells, rows, cells, start, end_, in_rect, rect. rewrite Hemp, Hw, Hh, Hin.
    cbn [length enum_from map option_map].
    split; [reflexivity|]. split; [constructor|]. split; [intros; lia|].
    split; [reflexivity|]. split; [intros; lia|]. split; [reflexivity|].
    split; [intro p; apply get_value_empty; assumption|]. split; [exact Hidx|].
    split; [|split; reflexivity].
    intro rel. rewrite (get_ne_iff rel HWf), Hw, Hh. reflexivity.
  - (* non-empty range *)
    destruct (Wf_ne HWf Hemp) as (H1 & H2 & Hh & Hw & Hl).
    assert (HW0 : (0 < N.to_nat (width r))%nat) by lia.
    assert (Hl' : length (r_inner r) = (N.to_nat (height r) * N.to_nat (width r))%nat) by lia.
    unfold rows, used_cells, start, end_, in_rect, rect. rewrite Hemp.
    split; [apply chunks_length; assumption|].
    split; [apply chunks_Forall with (h := N.to_nat (height r)); assumption|].
    split.
    { intros i j Hi Hj. split.
      - rewrite (@chunks_cell _ (N.to_nat (height r))) by (assumption || lia).
        rewrite get_char. destruct (j <? width r) eqn:E1; [|lia].
        destruct (i <? height r) eqn:E2; [|lia]. reflexivity.
      - apply (get_ne_iff (i, j) HWf). cbn [fst snd]. split; assumption. }
    split.
    { unfold cells. rewrite map_length, enum_from_length. lia. }
    split.
    { intros i j Hi Hj. unfold cells. rewrite nth_error_map, enum_from_nth, get_char.
      destruct (j <? width r) eqn:E1; [|lia]. destruct (i <? height r) eqn:E2; [|lia].
      cbn [andb]. rewrite <- N2Nat.inj_mul, <- N2Nat.inj_add.
      destruct (nth_error (r_inner r) (N.to_nat (i * width r + j))) as [v|]; [|reflexivity].
      cbn [option_map fst snd]. rewrite N2Nat.id, N.add_0_l.
      assert (Hdiv : (i * width r + j) / width r = i)
        by (symmetry; apply N.div_unique with (r := j); lia).
      assert (Hmod : (i * width r + j) mod width r = j)
        by (symmetry; apply N.mod_unique with (q := i); lia).
      rewrite Hdiv, Hmod. reflexivity. }
    split; [reflexivity|].
    split; [intro p; apply get_value_char|].
    split; [exact Hidx|].
    split; [intro rel; apply get_ne_iff; assumption|].
    split; reflexivity.
Qed.

End Accessors.

Lemma accessors_agree :
  forall (T : Type) (d : T) (teqb : T -> T -> bool) (r : range T),
    Wf r ->
    length (rows r) = N.to_nat (height r) /\
    Forall (fun row => length row = N.to_nat (width r)) (rows r) /\
    (forall i j, i < height r -> j < width r ->
       match nth_error (rows r) (N.to_nat i) with
       | Some row => nth_error row (N.to_nat j)
       | None => None
       end = get r (i, j) /\ get r (i, j) <> None) /\
    length (cells r) = N.to_nat (height r * width r) /\
    (forall i j, i < height r -> j < width r ->
       nth_error (cells r) (N.to_nat (i * width r + j)) =
       option_map (fun v => (i, j, v)) (get r (i, j))) /\
    used_cells d teqb r = filter (fun c => negb (teqb (snd c) d)) (cells r) /\
    (forall p, get_value r p =
       if in_rect r p then get r (fst p - fst (r_start r), snd p - snd (r_start r)) else None) /\
    (forall rel, index2 r rel = match get r rel with Some v => Ok v | None => Panic end) /\
    (forall rel, get r rel <> None <-> (fst rel < height r /\ snd rel < width r)) /\
    start r = option_map fst (rect r) /\ end_ r = option_map snd (rect r).
Proof. intros T d teqb r. apply accessors_agree_sec. Qed.
