#!/usr/bin/env python3
"""phase3_manual.py [quick|thorough] [names…] — detection power on hand-made regressions: each mutation removes ONE
length check / cap / bound (pre-existing ones and partial reverts of hardening commits whose full
revert does not compile) in the scratch worktree /tmp/ag/c06/repo-mut, then runs the fault
machinery without the corpus and with the corpus alone."""
import subprocess, sys, json, os, re, time
MUT = "/tmp/ag/c06/repo-mut"
VERIF = "/tmp/ag/c06/verif"
OUT = "/tmp/ag/c06/verif/notes/C06_phase3_manual.json"

def sh(cmd, cwd=MUT, timeout=3000, env=None):
    e = dict(os.environ); e.update(env or {})
    p = subprocess.run(cmd, shell=True, cwd=cwd, stdout=subprocess.PIPE, stderr=subprocess.STDOUT, text=True, timeout=timeout, env=e)
    return p.returncode, p.stdout

def remove_if_block(src, pattern, nth=0):
    """removes the `if … { … }` statement whose header matches pattern (regex on the `if` line)"""
    ms = list(re.finditer(pattern, src))
    m = ms[nth]
    start = src.rfind("\n", 0, m.start()) + 1
    i = src.index("{", m.start())
    depth = 0
    while True:
        if src[i] == "{":
            depth += 1
        elif src[i] == "}":
            depth -= 1
            if depth == 0:
                break
        i += 1
    end = src.index("\n", i) + 1
    return src[:start] + src[end:]

def replace_once(src, old, new):
    assert src.count(old) >= 1, old
    return src.replace(old, new, 1)

def in_fn(src, fn, f):
    """applies f to the text of function `fn` only"""
    m = re.search(r"fn %s\b" % fn, src)
    assert m, fn
    nxt = re.search(r"\n(?:pub(?:\([a-z]+\))? )?fn |\nimpl|\n#\[cfg", src[m.end():])
    end = m.end() + (nxt.start() if nxt else len(src) - m.end())
    return src[:m.start()] + f(src[m.start():end]) + src[end:]

MUTS = {
 "ovba-literal-unchecked": ("src/cfb.rs", lambda s: replace_once(s, "res.push(*s.get(i).ok_or_else(truncated_stream)?);", "res.push(s[i]);")),
 "ovba-chunk-header-unchecked": ("src/cfb.rs", lambda s: replace_once(s, "let chunk_header = read_u16(s.get(i..i + 2).ok_or_else(truncated_stream)?);", "let chunk_header = read_u16(&s[i..]);")),
 "ovba-copy-offset-unchecked": ("src/cfb.rs", lambda s: remove_if_block(s, r"if offset > res\.len\(\)")),
 "cfb-chain-cycle-unbounded": ("src/cfb.rs", lambda s: remove_if_block(s, r"if remaining == 0")),
 "cfb-fat-index-unchecked": ("src/cfb.rs", lambda s: re.sub(r"sector_id = \*fats\.get\(sector_id as usize\)\.ok_or_else\(\|\| \{.*?\}\)\?;", "sector_id = fats[sector_id as usize];", s, count=1, flags=re.S)),
 "cfb-chain-capacity-uncapped": ("src/cfb.rs", lambda s: replace_once(s, "Vec::with_capacity(min(len, fats.len().saturating_mul(self.size)))", "Vec::with_capacity(len)")),
 "xlsb-ptg-operands-unchecked": ("src/xlsb/mod.rs", lambda s: replace_once(s, 'check_len("ptg operands", rgce.len(), expected)?;', "")),
 "xlsb-brtxf-unchecked": ("src/xlsb/mod.rs", lambda s: replace_once(s, 'check_len("BrtXF", len, 4)?;', "")),
 "xlsb-beginfmts-unchecked": ("src/xlsb/mod.rs", lambda s: replace_once(s, 'check_len("BrtBeginFmts", len, 4)?;', "")),
 "xlsb-wsdim-unchecked": ("src/xlsb/cells_reader.rs", lambda s: replace_once(s, 'check_len("BrtWsDim", len, 16)?;', "")),
 "xlsb-widestr-unchecked": ("src/xlsb/mod.rs", lambda s: in_fn(s, "wide_str", lambda t: remove_if_block(t, r"if buf\.len\(\) < 4 \+ len \* 2"))),
 "xlsb-fill-buffer-prealloc": ("src/xlsb/mod.rs", lambda s: replace_once(s, "            buf.clear();\n            let read = self.r.by_ref().take(len as u64).read_to_end(buf)?;", "            *buf = vec![0; len];\n            let read = self.r.by_ref().take(len as u64).read(&mut buf[..])?;")),
 "xlsb-formula-capacity-uncapped": ("src/xlsb/mod.rs", lambda s: replace_once(s, "cells_reader.dimensions().len().min(1_000_000) as _", "cells_reader.dimensions().len() as _")),
 "xls-number-unchecked": ("src/xls.rs", lambda s: in_fn(s, "parse_number", lambda t: remove_if_block(t, r"if r\.len\(\) < 14"))),
 "xls-rk-unchecked": ("src/xls.rs", lambda s: in_fn(s, "parse_rk", lambda t: remove_if_block(t, r"if r\.len\(\) < 10"))),
 "xls-labelsst-unchecked": ("src/xls.rs", lambda s: in_fn(s, "parse_label_sst", lambda t: remove_if_block(t, r"if r\.len\(\) < 10"))),
 "xls-formula-unchecked": ("src/xls.rs", lambda s: remove_if_block(s, r"if r\.data\.len\(\) < 20")),
 "xls-xf-unchecked": ("src/xls.rs", lambda s: in_fn(s, "parse_xf", lambda t: remove_if_block(t, r"if r\.data\.len\(\) < 4"))),
 "xls-short-string-unchecked": ("src/xls.rs", lambda s: in_fn(s, "parse_short_string", lambda t: remove_if_block(t, r"if r\.data\.len\(\) < 2"))),
 "xls-record-length-unchecked": ("src/xls.rs", lambda s: remove_if_block(s, r"if self\.stream\.len\(\) < len \+ 4", 0)),
 "xls-sst-capacity-uncapped": ("src/xls.rs", lambda s: replace_once(s, "Vec::with_capacity(len.min(available / 3))", "Vec::with_capacity(len)")),
 "xls-mergecells-unchecked": ("src/xls.rs", lambda s: in_fn(s, "parse_merge_cells", lambda t: remove_if_block(t, r"if r\.len\(\) < 2 \+ count \* 8"))),
 "vba-skip-unchecked": ("src/vba.rs", lambda s: replace_once(s, "*stream = stream.get(n..).ok_or_else(unexpected_eof)?;", "*stream = &stream[n..];")),
 "vba-variable-record-unchecked": ("src/vba.rs", lambda s: in_fn(s, "read_variable_record", lambda t: remove_if_block(t, r"if len > r\.len\(\)"))),
 "xlsx-reserve-uncapped": ("src/xlsx/mod.rs", lambda s: replace_once(s, "        if len < 100_000 {\n            cells.reserve(len as usize);\n        }\n\n        match header_row {", "        cells.reserve(len as usize);\n\n        match header_row {")),
 "xlsx-sst-index-unchecked": ("src/xlsx/cells_reader.rs", lambda s: re.sub(r"let s = strings\s*\.get\(idx\)\s*\.ok_or\(XlsxError::Unexpected\(\"shared string index out of bounds\"\)\)\?;", "let s = &strings[idx];", s, count=1)),
 "ods-annotation-eof-ignored": ("src/ods.rs", lambda s: replace_once(s, '                        Ok(Event::Eof) => return Err(OdsError::Eof("office:annotation")),\n', "")),
 "lib-from-sparse-mul-unchecked": ("src/lib.rs", lambda s: replace_once(s, "let len = cols.saturating_mul(rows);", "let len = cols * rows;")),
}

def main():
    tier = sys.argv[1] if len(sys.argv) > 1 and sys.argv[1] in ("quick", "thorough") else "quick"
    names = [a for a in sys.argv[1:] if a not in ("quick", "thorough")] or list(MUTS)
    sh("git checkout -q --detach c06-hardening && git reset -q --hard")
    res = json.load(open(OUT)) if os.path.exists(OUT) else {}
    for name in names:
        key = name + ":" + tier
        if key in res:
            continue
        f, fn = MUTS[name]
        p = os.path.join(MUT, f)
        src = open(p).read()
        try:
            new = fn(src)
            assert new != src
        except Exception as e:
            print(name, "EDIT-FAILED", repr(e)[:100], flush=True)
            continue
        open(p, "w").write(new)
        rc, out = sh("RUSTFLAGS='--cfg calamine_verif' timeout 900 cargo build --offline 2>&1 | grep -E '^error' | head -3")
        if out.strip():
            print(name, "DOES-NOT-COMPILE", out.strip()[:200], flush=True)
            sh("git reset -q --hard")
            continue
        t0 = time.time()
        r = {"file": f}
        for what in ("corpus", "valid,systematic,random"):
            rc, out = sh("timeout 2400 python3 tools/c06_probe.py --tier %s --only %s" % (tier, what), cwd=VERIF, env={"VERIF_REPO": MUT})
            viol = re.findall(r"^VIOLATION (\w+) at (\S+)", out, re.M)
            r[what] = {"rc": rc, "keys": sorted({k for _, k in viol})}
        sh("git reset -q --hard")
        r.update(result="caught" if r["valid,systematic,random"]["rc"] == 1 else ("missed" if r["valid,systematic,random"]["rc"] == 0 else "error"),
                 corpus_result="caught" if r["corpus"]["rc"] == 1 else "missed", wall=round(time.time() - t0))
        res[key] = r
        print(name, r["result"].upper(), "corpus:" + r["corpus_result"], r["valid,systematic,random"]["keys"][:3], flush=True)
        json.dump(res, open(OUT, "w"), indent=1)

main()
