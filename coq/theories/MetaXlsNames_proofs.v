(* MetaXlsNames_proofs: xls defined names (Lbl records, ExternSheet table, name -> sheet
   resolution) and the whole xls report (property C16, xls). *)
From Calamine Require Import Prelude BiffSst BiffSst_proofs Meta Meta_proofs MetaXls_proofs
     MetaXlsb_proofs.
From Calamine Require Col26 Col26_proofs Utf16 Utf16_proofs Ptg Ptg_proofs Ptg_total NumFmt NumFmt_proofs
     FormulaEnv FormulaEnv_proofs.
Open Scope N_scope.

(* ------------------------------------------------------------------------------------- *)
(** * parse_defined_names (the first-token rendering kept as a fallback) never fails on an encoding *)

Lemma u16_in_bytes : forall (pre post : bytes) x y from, from = len pre ->
  u16_in (pre ++ [x; y] ++ post) from = Ok (x + 256 * y).
Proof.
  intros pre post x y from ->. unfold u16_in.
  rewrite (slice_mid pre [x; y] post (len pre) (len pre + 2) eq_refl eq_refl). reflexivity.
Qed.

Definition dn_total (rg : bytes) : Prop := exists f, xls_defined_name rg = Ok f.

Lemma dn_other : forall p t,
  is_ptg p 58 90 122 = false -> is_ptg p 59 91 123 = false ->
  is_ptg p 60 92 124 = false -> is_ptg p 61 93 125 = false -> dn_total (p :: t).
Proof.
  intros p t H1 H2 H3 H4. unfold dn_total, xls_defined_name. rewrite H1, H2, H3, H4. cbn [orb].
  replace (len (p :: t) <? 1) with false by (rewrite len_cons; lia). eexists. reflexivity.
Qed.

Lemma dn_ref3d : forall k i0 i1 r0 r1 c0 c1 rest,
  dn_total (Ptg.cls_ptg 58 90 122 k :: [i0; i1] ++ [r0; r1] ++ [c0; c1] ++ rest).
Proof.
  intros k i0 i1 r0 r1 c0 c1 rest. set (p := Ptg.cls_ptg 58 90 122 k).
  assert (Hp : is_ptg p 58 90 122 = true) by (unfold p; destruct k; reflexivity).
  set (R := p :: [i0; i1] ++ [r0; r1] ++ [c0; c1] ++ rest).
  assert (E1 : u16_in R 1 = Ok (i0 + 256 * i1)) by (apply (u16_in_bytes [p] _ i0 i1 1 eq_refl)).
  assert (E3 : u16_in R 3 = Ok (r0 + 256 * r1)) by (apply (u16_in_bytes [p; i0; i1] _ r0 r1 3 eq_refl)).
  assert (E5 : u16_in R 5 = Ok (c0 + 256 * c1)) by (apply (u16_in_bytes [p; i0; i1; r0; r1] rest c0 c1 5 eq_refl)).
  assert (HL : (len R <? 7) = false) by (unfold R; cbn [app]; rewrite !len_cons; lia).
  unfold dn_total, xls_defined_name. fold R. unfold R at 1. fold p. rewrite Hp, HL, E1, E3, E5. cbn [obind].
  destruct (Ptg_total.push_cell_ref_ok (r0 + 256 * r1) (c0 + 256 * c1) []) as [x ->]. cbn [obind]. eexists. reflexivity.
Qed.

Lemma dn_area3d : forall k i0 i1 r0 r1 s0 s1 c0 c1 d0 d1 rest,
  dn_total (Ptg.cls_ptg 59 91 123 k :: [i0; i1] ++ [r0; r1] ++ [s0; s1] ++ [c0; c1] ++ [d0; d1] ++ rest).
Proof.
  intros k i0 i1 r0 r1 s0 s1 c0 c1 d0 d1 rest. set (p := Ptg.cls_ptg 59 91 123 k).
  assert (Hp1 : is_ptg p 58 90 122 = false) by (unfold p; destruct k; reflexivity).
  assert (Hp : is_ptg p 59 91 123 = true) by (unfold p; destruct k; reflexivity).
  set (R := p :: [i0; i1] ++ [r0; r1] ++ [s0; s1] ++ [c0; c1] ++ [d0; d1] ++ rest).
  assert (E1 : u16_in R 1 = Ok (i0 + 256 * i1)) by (apply (u16_in_bytes [p] _ i0 i1 1 eq_refl)).
  assert (E3 : u16_in R 3 = Ok (r0 + 256 * r1)) by (apply (u16_in_bytes [p; i0; i1] _ r0 r1 3 eq_refl)).
  assert (E5 : u16_in R 5 = Ok (s0 + 256 * s1)) by (apply (u16_in_bytes [p; i0; i1; r0; r1] _ s0 s1 5 eq_refl)).
  assert (E7 : u16_in R 7 = Ok (c0 + 256 * c1)) by (apply (u16_in_bytes [p; i0; i1; r0; r1; s0; s1] _ c0 c1 7 eq_refl)).
  assert (E9 : u16_in R 9 = Ok (d0 + 256 * d1))
    by (apply (u16_in_bytes [p; i0; i1; r0; r1; s0; s1; c0; c1] rest d0 d1 9 eq_refl)).
  assert (HL : (len R <? 11) = false) by (unfold R; cbn [app]; rewrite !len_cons; lia).
  unfold dn_total, xls_defined_name. fold R. unfold R at 1. fold p. rewrite Hp1, Hp, HL, E1, E3, E7, E5, E9. cbn [obind].
  destruct (Ptg_total.push_cell_ref_ok (r0 + 256 * r1) (c0 + 256 * c1) []) as [x ->]. cbn [obind app].
  destruct (Ptg_total.push_cell_ref_ok (s0 + 256 * s1) (d0 + 256 * d1) (x ++ [COLON])) as [y ->]. cbn [obind].
  eexists. reflexivity.
Qed.

Lemma dn_err3d : forall p i0 i1 rest,
  is_ptg p 58 90 122 = false -> is_ptg p 59 91 123 = false ->
  (is_ptg p 60 92 124 || is_ptg p 61 93 125) = true ->
  dn_total (p :: [i0; i1] ++ rest).
Proof.
  intros p i0 i1 rest H1 H2 H3. set (R := p :: [i0; i1] ++ rest).
  assert (E1 : u16_in R 1 = Ok (i0 + 256 * i1)) by (apply (u16_in_bytes [p] rest i0 i1 1 eq_refl)).
  assert (HL : (len R <? 3) = false) by (unfold R; cbn [app]; rewrite !len_cons; lia).
  unfold dn_total, xls_defined_name. fold R. unfold R at 1. rewrite H1, H2, H3, HL, E1. cbn [obind].
  eexists. reflexivity.
Qed.

(* whatever the expression: its first token is one the fallback knows (a 3-D reference, complete), or it
   answers "Unsupported ptg: xx" *)
Lemma dn_encode : forall e rest, dn_total (Ptg.encode_xls e ++ rest).
Proof.
  unfold Ptg.encode_xls.
  induction e using Ptg_proofs.expr_ind'; intros rest; cbn [Ptg.encode];
    try (destruct k; cbn [Ptg.cls_ptg app Ptg.le]; apply dn_other; reflexivity);
    try (cbn [app Ptg.le]; apply dn_other; reflexivity).
  - (* ERef3d *) cbn [Ptg.le app]. apply (dn_ref3d k).
  - (* EArea3d *) cbn [Ptg.le app]. apply (dn_area3d k).
  - (* EUn *) rewrite <- app_assoc. apply IHe.
  - (* EBin *) rewrite <- !app_assoc. apply IHe1.
  - (* EParen *) rewrite <- app_assoc. apply IHe.
  - (* EFunc *)
    destruct args as [|a args].
    + destruct k; cbn [flat_map Ptg.cls_ptg app]; apply dn_other; reflexivity.
    + inversion H as [|? ? Ha _]; subst. cbn [flat_map]. rewrite <- !app_assoc. apply Ha.
  - (* EFuncVar *)
    destruct args as [|a args].
    + destruct k; cbn [flat_map Ptg.cls_ptg app]; apply dn_other; reflexivity.
    + inversion H as [|? ? Ha _]; subst. cbn [flat_map]. rewrite <- !app_assoc. apply Ha.
  - (* ESum *) rewrite <- app_assoc. apply IHe.
  - (* EAttrPost *) rewrite <- !app_assoc. apply IHe.
  - (* EMem *) destruct m, k; cbn [Ptg.mem_ptg Ptg.cls_ptg app]; apply dn_other; reflexivity.
  - (* ERefErr3d *)
    cbn [Ptg.le app].
    apply (dn_err3d (Ptg.cls_ptg 60 92 124 k)); destruct k; reflexivity.
  - (* EAreaErr3d *)
    cbn [Ptg.le app].
    apply (dn_err3d (Ptg.cls_ptg 61 93 125 k)); destruct k; reflexivity.
Qed.

(* the first-token rendering of an expression (only ever used when the decoder rejects the formula) *)
Definition first_tok (e : Ptg.expr) : option N * str :=
  match xls_defined_name (Ptg.encode_xls e) with Ok f => f | _ => (None, []) end.
Lemma first_tok_ok : forall e, xls_defined_name (Ptg.encode_xls e) = Ok (first_tok e).
Proof.
  intros e. unfold first_tok. destruct (dn_encode e []) as [f Hf]. rewrite app_nil_r in Hf.
  rewrite Hf. reflexivity.
Qed.

(* ------------------------------------------------------------------------------------- *)
(** * the Lbl record *)

Definition lbl_head (n : str * Ptg.expr) (ch : ln_choice) : bytes :=
  le16 (ln_flags ch) ++ [ln_key ch; len (lbl_units (fst n) ch)] ++ le16 (len (Ptg.encode_xls (snd n)))
  ++ [0; 0] ++ le16 (ln_itab ch) ++ [0; 0; 0; 0].

Lemma lbl_split : forall n ch,
  lbl_body n ch = lbl_head n ch ++ (b2n (ln_wide ch) :: seg_bytes (ln_wide ch) (lbl_units (fst n) ch))
                  ++ Ptg.encode_xls (snd n) ++ ln_rgcb ch.
Proof. reflexivity. Qed.

Lemma ustr_nocch_enc : forall wide us rest, seg_ok wide us = true -> all_lt 65536 us = true ->
  read_ustr_nocch (b2n wide :: seg_bytes wide us ++ rest) (len us) = utf16_decode us.
Proof.
  intros wide us rest Hs Hl. unfold read_ustr_nocch. rewrite odd_b2n.
  assert (Hn : (if wide then 2 * len us else len us) = len (seg_bytes wide us))
    by (rewrite len_seg_bytes; reflexivity).
  rewrite Hn. rewrite len_cons, len_app.
  replace (N.min (len (seg_bytes wide us) + len rest + 1) (1 + len (seg_bytes wide us)))
    with (1 + len (seg_bytes wide us)) by lia.
  destruct (1 <? 1 + len (seg_bytes wide us)) eqn:E.
  - replace (1 + len (seg_bytes wide us) - 1) with (len (seg_bytes wide us)) by lia.
    change (drop 1 (b2n wide :: seg_bytes wide us ++ rest)) with (seg_bytes wide us ++ rest).
    rewrite take_len_app. rewrite <- (app_nil_r (seg_bytes wide us)) at 1.
    rewrite (decode_to_exact wide us [] Hs Hl). reflexivity.
  - assert (H0 : len (seg_bytes wide us) = 0) by lia.
    rewrite len_seg_bytes in H0.
    assert (len us = 0) by (destruct wide; lia).
    destruct us; [reflexivity|]. rewrite len_cons in H. lia.
Qed.

(* built-in names: the id a legal record stores, and what the reader makes of it *)
Lemma builtin_id_facts : forall n id, builtin_id n = Some id ->
  id < 14 /\ exists b, FormulaEnv.builtin_name id = Some b /\ n = s_xlnm ++ b.
Proof.
  intros n id H. unfold builtin_id in H. apply find_some in H. destruct H as [Hin Hp].
  cbn [In] in Hin.
  repeat (destruct Hin as [<-|Hin]; [split; [lia|]; unfold builtin_full in Hp;
            cbn [FormulaEnv.builtin_name] in *; eexists; split; [reflexivity|];
            apply str_eqb_eq in Hp; symmetry; exact Hp|]).
  contradiction.
Qed.

Lemma lbl_units_legal : forall n ch, name_ok n = true -> len (units_of n) <= 255 ->
  wide_ok (ln_wide ch) n = true -> legal_short_string (ln_wide ch) (lbl_units n ch) = true.
Proof.
  intros n ch Hn Hl Hw. unfold lbl_units.
  destruct (N.testbit (ln_flags ch) 5); [|apply short_legal; assumption].
  destruct (builtin_id n) as [id|] eqn:E; [|apply short_legal; assumption].
  destruct (builtin_id_facts _ _ E) as [Hid _].
  unfold legal_short_string, seg_ok, all_lt. cbn [forallb len length].
  replace (id <? 65536) with true by lia. replace (id <? 256) with true by lia.
  destruct (ln_wide ch); reflexivity.
Qed.

Lemma lbl_name_decoded : forall n ch, name_ok n = true ->
  (negb (N.testbit (ln_flags ch) 5) || is_some (builtin_id n)) = true ->
  FormulaEnv.builtin_fix (ln_flags ch mod 256) (utf16_decode (lbl_units n ch)) = n.
Proof.
  intros n ch Hn Hb. destruct (name_ok_parts n Hn) as [Hsc _].
  unfold FormulaEnv.builtin_fix, lbl_units. rewrite FormulaEnv_proofs.testbit5_mod256.
  destruct (N.testbit (ln_flags ch) 5); cbn [negb orb] in Hb.
  - destruct (builtin_id n) as [id|] eqn:E; [|discriminate].
    destruct (builtin_id_facts _ _ E) as (Hid & b & Hb1 & ->).
    assert (Hc : id = 0 \/ id = 1 \/ id = 2 \/ id = 3 \/ id = 4 \/ id = 5 \/ id = 6 \/ id = 7 \/ id = 8
                 \/ id = 9 \/ id = 10 \/ id = 11 \/ id = 12 \/ id = 13) by lia.
    repeat (destruct Hc as [->|Hc]; [cbn [FormulaEnv.builtin_name] in Hb1; injection Hb1 as <-; vm_compute; reflexivity|]).
    subst id. cbn [FormulaEnv.builtin_name] in Hb1. injection Hb1 as <-. vm_compute. reflexivity.
  - unfold units_of. apply biff_decode_encode. exact Hsc.
Qed.

(* what the globals loop keeps of a Lbl record: name, first-token rendering, rgce — the rgce is found
   behind the name, whatever extra data (rgcb) follows it *)
Definition lbl_entry (n : str * Ptg.expr) : str * (option N * str) * bytes :=
  (fst n, first_tok (snd n), Ptg.encode_xls (snd n)).

Lemma lbl_enc : forall env n ch, ln_legal env n ch = true -> xls_lbl (lbl_body n ch) = Ok (lbl_entry n).
Proof.
  intros env n ch H. unfold ln_legal in H.
  apply andb_true_iff in H. destruct H as [H Hbody].
  apply andb_true_iff in H. destruct H as [H Hbi].
  apply andb_true_iff in H. destruct H as [H Hitab].
  apply andb_true_iff in H. destruct H as [H Hkey].
  apply andb_true_iff in H. destruct H as [H Hfl].
  apply andb_true_iff in H. destruct H as [H Hrl].
  apply andb_true_iff in H. destruct H as [H Hx].
  apply andb_true_iff in H. destruct H as [H Hw].
  apply andb_true_iff in H. destruct H as [Hn Hlen].
  assert (Hleg : legal_short_string (ln_wide ch) (lbl_units (fst n) ch) = true)
    by (apply lbl_units_legal; [assumption|lia|assumption]).
  destruct (legal_short_parts _ _ Hleg) as (Hcch & Hlt & Hseg).
  set (us := lbl_units (fst n) ch) in *. set (rgce := Ptg.encode_xls (snd n)) in *.
  set (S1 := b2n (ln_wide ch) :: seg_bytes (ln_wide ch) us).
  set (T := ln_rgcb ch).
  assert (Hd : lbl_body n ch = lbl_head n ch ++ S1 ++ rgce ++ T) by reflexivity.
  assert (HH : len (lbl_head n ch) = 14) by reflexivity.
  assert (HS1 : len S1 = 1 + (if ln_wide ch then 2 * len us else len us))
    by (unfold S1; rewrite len_cons, len_seg_bytes; lia).
  assert (Hlb : len (lbl_body n ch) = 14 + len S1 + len rgce + len T)
    by (rewrite Hd, !len_app, HH; lia).
  unfold xls_lbl. rewrite Hlb.
  replace (14 + len S1 + len rgce + len T <? 14) with false by lia.
  change (nth 3 (lbl_body n ch) 0) with (len us).
  change (nth 0 (lbl_body n ch) 0) with (ln_flags ch mod 256).
  replace (read_u16 (drop 4 (lbl_body n ch))) with (@Ok N (len rgce)).
  2: { change (drop 4 (lbl_body n ch))
         with (le16 (len rgce) ++ [0; 0] ++ le16 (ln_itab ch) ++ [0; 0; 0; 0] ++ S1 ++ rgce ++ T).
       rewrite read_u16_le16. reflexivity. }
  cbn [obind]. replace (14 + len S1 + len rgce + len T <? 14 + len rgce) with false by lia.
  replace (drop 14 (lbl_body n ch)) with (S1 ++ rgce ++ T)
    by (rewrite Hd, <- HH, drop_len_app; reflexivity).
  assert (Hname : read_ustr_nocch (S1 ++ rgce ++ T) (len us) = utf16_decode us)
    by (apply (ustr_nocch_enc _ us (rgce ++ T) Hseg Hlt)).
  rewrite Hname.
  assert (Hhb : match S1 ++ rgce ++ T with b :: _ => N.odd b | [] => false end = ln_wide ch)
    by (unfold S1; cbn [app]; apply odd_b2n).
  rewrite Hhb. cbv zeta. rewrite <- HS1.
  replace (14 + len S1 + len rgce + len T <? 14 + len S1 + len rgce) with false by lia.
  replace (take (len rgce) (drop (14 + len S1) (lbl_body n ch))) with rgce.
  2: { rewrite Hd, app_assoc.
       replace (14 + len S1) with (len (lbl_head n ch ++ S1)) by (rewrite len_app, HH; lia).
       rewrite drop_len_app, take_len_app. reflexivity. }
  unfold rgce. rewrite first_tok_ok. cbn [obind].
  unfold us. rewrite (lbl_name_decoded _ _ Hn Hbi). reflexivity.
Qed.

(* ------------------------------------------------------------------------------------- *)
(** * the ExternSheet record *)

Section Blocks.
Variable X : Type.
Variable blk : X -> bytes.
Variable k : nat.
Hypothesis Hk : (0 < k)%nat.
Hypothesis Hblk : forall x, length (blk x) = k.

Lemma chunks_aux_blocks_gen : forall (xs : list X) rest fuel,
  (length (flat_map blk xs ++ rest) <= fuel)%nat ->
  chunks_aux fuel k (flat_map blk xs ++ rest) =
  map blk xs ++ chunks_aux (fuel - length xs) k rest.
Proof.
  induction xs as [|x xs IH]; intros rest fuel Hf.
  - cbn [flat_map app map length]. rewrite Nat.sub_0_r. reflexivity.
  - cbn [flat_map map] in *. rewrite <- app_assoc in *.
    rewrite app_length, Hblk in Hf.
    destruct fuel as [|fuel]; [lia|].
    cbn [chunks_aux].
    destruct (blk x ++ flat_map blk xs ++ rest) eqn:E.
    { assert (H : length (blk x ++ flat_map blk xs ++ rest) = 0%nat) by (rewrite E; reflexivity).
      rewrite app_length, Hblk in H. lia. }
    rewrite <- E.
    rewrite (@Utf16_proofs.firstn_app_exact _ (blk x) _ k (eq_sym (Hblk x))).
    replace (skipn k (blk x ++ flat_map blk xs ++ rest)) with (flat_map blk xs ++ rest)
      by (rewrite skipn_app, Hblk, Nat.sub_diag, skipn_all2 by (rewrite Hblk; lia); reflexivity).
    rewrite IH by lia. cbn [app length]. reflexivity.
Qed.

Lemma chunks_exact_blocks_gen : forall (xs : list X),
  chunks_exact k (flat_map blk xs) = map blk xs.
Proof.
  intros xs. unfold chunks_exact, chunks.
  rewrite <- (app_nil_r (flat_map blk xs)) at 2.
  rewrite chunks_aux_blocks_gen by (rewrite app_nil_r; lia).
  replace (chunks_aux (length (flat_map blk xs) - length xs) k []) with (@nil bytes)
    by (destruct (length (flat_map blk xs) - length xs)%nat; reflexivity).
  rewrite app_nil_r.
  induction xs as [|x xs IH]; [reflexivity|]. cbn [map filter].
  rewrite Hblk, Nat.eqb_refl. f_equal. exact IH.
Qed.
End Blocks.

Lemma xls_xti_enc : forall x : N * N * N,
  fst (fst x) < 65536 -> snd (fst x) < 65536 -> snd x < 65536 -> xls_xti (xti6 x) = Ok x.
Proof.
  intros [[a b] c] Ha Hb Hc. cbn [fst snd] in *. unfold xls_xti, xti6. cbn [fst snd].
  rewrite read_u16_le16. cbn [obind].
  change (drop 2 (le16 a ++ le16 b ++ le16 c)) with (le16 b ++ le16 c). rewrite read_u16_le16.
  cbn [obind].
  change (drop 4 (le16 a ++ le16 b ++ le16 c)) with (le16 c ++ []). rewrite read_u16_le16.
  reflexivity.
Qed.

Lemma xls_xtis_enc : forall nsheets (xs : list (N * N * N)),
  forallb (xls_xti_legal nsheets) xs = true -> map_o xls_xti (map xti6 xs) = Ok xs.
Proof.
  intros nsheets. induction xs as [|x xs IH]; intros H; [reflexivity|].
  cbn in H. apply andb_true_iff in H. destruct H as [H1 H2].
  unfold xls_xti_legal in H1.
  apply andb_true_iff in H1. destruct H1 as [H1 Hc].
  apply andb_true_iff in H1. destruct H1 as [H1 Hb2].
  apply andb_true_iff in H1. destruct H1 as [Ha Hb].
  cbn [map map_o]. rewrite xls_xti_enc by lia. cbn [obind]. rewrite (IH H2). reflexivity.
Qed.

Lemma len_xti6_blocks : forall xs : list (N * N * N), len (flat_map xti6 xs) = 6 * len xs.
Proof.
  induction xs as [|x xs IH]; [reflexivity|]. cbn [flat_map]. rewrite len_app, IH, len_cons.
  change (len (xti6 x)) with 6. lia.
Qed.

(* the pieces of the array, put together again, are the array *)
Lemma xpieces_concat : forall cuts b, fst (xpieces cuts b) ++ concat (snd (xpieces cuts b)) = b.
Proof.
  induction cuts as [|c t IH]; intros b; cbn [xpieces]; [cbn; apply app_nil_r|].
  specialize (IH (skipn c b)). destruct (xpieces t (skipn c b)) as [p ps]. cbn [fst snd concat] in *.
  rewrite IH. apply firstn_skipn.
Qed.

Lemma conts_of_cont_opt : forall cs, conts_of (cont_opt cs) = cs.
Proof. intros [|c cs]; reflexivity. Qed.

(* ------------------------------------------------------------------------------------- *)
(** * the globals loop over the ExternSheet record, its CONTINUE records, and the Lbl records *)

Lemma globals_extern : forall nsheets (xs : list (N * N * N)) cuts rest st,
  forallb (xls_xti_legal nsheets) xs = true -> len xs <= 65535 ->
  len (fst (extern_rec xs cuts)) <= 65535 ->
  forallb (fun p => len p <=? 65535) (snd (extern_rec xs cuts)) = true ->
  rest <> [] -> nc rest ->
  xls_globals (records (frame_rec 23 (extern_rec xs cuts) ++ rest)) st =
  xls_globals (records rest)
              (mkXlsState (xg_sheets st) (xg_names st) (xg_xtis st ++ xs) (xg_1904 st)).
Proof.
  intros nsheets xs cuts rest st Hx Hn Hl0 Hls Hne Hnc.
  rewrite (records_step _ _ _ (next_record_conts 23 (extern_rec xs cuts) rest Hl0 Hls Hne Hnc)).
  pose proof (xpieces_concat cuts (flat_map xti6 xs)) as Hc.
  unfold extern_rec in *. destruct (xpieces cuts (flat_map xti6 xs)) as [p0 ps]. cbn [fst snd] in *.
  cbn [xls_globals].
  change (23 =? 47) with false. change (23 =? 66) with false. change (23 =? 34) with false.
  change (23 =? 1054) with false. change (23 =? 224) with false. change (23 =? 133) with false.
  change (23 =? 2057) with false. change (23 =? 24) with false. change (23 =? 23) with true.
  cbn iota. rewrite len_app. change (len (le16 (len xs))) with 2.
  replace (2 + len p0 <? 2) with false by lia.
  rewrite read_u16_le16. cbn [obind].
  change (drop 2 (le16 (len xs) ++ p0)) with p0. rewrite conts_of_cont_opt, Hc.
  rewrite (chunks_exact_blocks_gen _ xti6 6 ltac:(lia) (fun _ => eq_refl)).
  rewrite (firstN_all _ _ _ (eq_sym (len_map _ _ xti6 xs))).
  rewrite (xls_xtis_enc nsheets xs Hx). reflexivity.
Qed.

Lemma len_lbl_body : forall env n ch, ln_legal env n ch = true -> len (lbl_body n ch) <= 65535.
Proof.
  intros env n ch H. unfold ln_legal in H. apply andb_true_iff in H. destruct H as [_ H]. lia.
Qed.

Lemma nc_lbls : forall env names chs rest, forallb2 (ln_legal env) names chs = true -> nc rest ->
  nc (flat_map (fun nc => frame 24 (lbl_body (fst nc) (snd nc))) (combine names chs) ++ rest).
Proof.
  intros env [|n names] [|ch chs] rest H Hn; cbn in H; try discriminate; [exact Hn|].
  apply andb_true_iff in H. destruct H as [H1 _].
  cbn [combine flat_map fst snd]. rewrite <- app_assoc.
  apply nc_frame; [discriminate|apply (len_lbl_body env); exact H1].
Qed.

Lemma globals_lbls : forall env names chs rest st,
  forallb2 (ln_legal env) names chs = true -> nc rest ->
  xls_globals (records (flat_map (fun nc => frame 24 (lbl_body (fst nc) (snd nc)))
                                 (combine names chs) ++ rest)) st =
  xls_globals (records rest)
              (mkXlsState (xg_sheets st) (xg_names st ++ map lbl_entry names) (xg_xtis st)
                          (xg_1904 st)).
Proof.
  intros env. induction names as [|n names IH]; intros [|ch chs] rest st H Hn; cbn in H;
    try discriminate.
  - cbn. rewrite app_nil_r. destruct st; reflexivity.
  - apply andb_true_iff in H. destruct H as [H1 H2].
    cbn [combine flat_map map fst snd]. rewrite <- app_assoc.
    rewrite (records_plain 24 _ _ (len_lbl_body env n ch H1) (nc_lbls env names chs rest H2 Hn)).
    cbn [xls_globals]. change (24 =? 47) with false. change (24 =? 66) with false.
    change (24 =? 34) with false. change (24 =? 1054) with false. change (24 =? 224) with false.
    change (24 =? 133) with false. change (24 =? 2057) with false. change (24 =? 24) with true.
    cbn iota. rewrite (lbl_enc env n ch H1). cbn [obind].
    rewrite (IH chs rest _ H2 Hn). cbn [xg_sheets xg_names xg_xtis xg_1904].
    rewrite <- app_assoc. reflexivity.
Qed.

(* ------------------------------------------------------------------------------------- *)
(** * the name's formula through the cell-formula decoder (Ptg) *)

Lemma le16_le2 : forall u, u < 65536 -> le16 u = Ptg.le 2 u.
Proof.
  intros u H. unfold le16. cbn [Ptg.le]. assert (E : (u / 256) mod 256 = u / 256) by (apply N.mod_small; lia).
  rewrite E. reflexivity.
Qed.

Lemma u16_le16 : forall i, i mod 256 + 256 * (i / 256) = i.
Proof. intros i. pose proof (N.div_mod' i 256). lia. Qed.

Lemma map_o_map_ok : forall (A B C : Type) (f : B -> outcome C) (g : A -> B) (h : A -> C) l,
  (forall x, In x l -> f (g x) = Ok (h x)) -> map_o f (map g l) = Ok (map h l).
Proof.
  intros A B C f g h. induction l as [|x l IH]; intros H; [reflexivity|].
  cbn [map map_o]. rewrite (H x (or_introl eq_refl)). cbn [obind].
  rewrite IH by (intros y Hy; apply H; right; exact Hy). reflexivity.
Qed.

Lemma forallb2_in : forall (A B : Type) (f : A -> B -> bool) l m x,
  forallb2 f l m = true -> In x l -> exists y, f x y = true.
Proof.
  intros A B f. induction l as [|a l IH]; intros [|b m] x H Hin; cbn in H; try discriminate; [destruct Hin|].
  apply andb_true_iff in H. destruct H as [H1 H2]. destruct Hin as [->|Hin]; [eauto|eapply IH; eassumption].
Qed.

(* ------------------------------------------------------------------------------------- *)
(** * the whole xls report *)

Theorem xls_parse_encode : forall show_f64 c wb,
  xls_legal c wb = true ->
  xls_parse_workbook show_f64 (xls_stream c wb) =
  Ok (mkParsed (wb_sheets wb) [] (spec_names_xls show_f64 c wb) (wb_1904 wb)).
Proof.
  intros show_f64 c wb Hl. unfold xls_legal in Hl.
  apply andb_true_iff in Hl. destruct Hl as [Hl Hpos].
  apply andb_true_iff in Hl. destruct Hl as [Hl Htail].
  apply andb_true_iff in Hl. destruct Hl as [Hl Hps].
  apply andb_true_iff in Hl. destruct Hl as [Hl Hp0].
  apply andb_true_iff in Hl. destruct Hl as [Hl Hnx].
  apply andb_true_iff in Hl. destruct Hl as [Hl Hxt].
  apply andb_true_iff in Hl. destruct Hl as [Hl Hnames].
  apply andb_true_iff in Hl. destruct Hl as [Hl Hsheets].
  apply andb_true_iff in Hl. destruct Hl as [Hl J3].
  apply andb_true_iff in Hl. destruct Hl as [Hl J2].
  apply andb_true_iff in Hl. destruct Hl as [J0 J1].
  assert (Nt : nc (lc_tail c)) by (apply negb_true_iff in Htail; exact Htail).
  set (env := spec_env_xls c wb) in *.
  set (shs := map (fun sc : meta * ls_choice => (ls_pos (snd sc), fst sc))
                  (combine (wb_sheets wb) (lc_sheets c))).
  assert (Hshs : map snd shs = wb_sheets wb)
    by (apply (combine_map_snd_fst _ _ _ ls_pos _ _ (forallb2_length _ _ _ _ _ Hsheets))).
  unfold xls_parse_workbook.
  assert (Hg : xls_globals (records (xls_stream c wb)) xls_state0 =
               Ok (mkXlsState shs (map lbl_entry (wb_names wb)) (lc_xtis c) (wb_1904 wb))).
  { unfold xls_stream.
    set (LB := flat_map (fun nc => frame 24 (lbl_body (fst nc) (snd nc)))
                        (combine (wb_names wb) (lc_names c))).
    set (EX := match lc_xtis c with
               | [] => []
               | xs => frame 430 [1; 0; 1; 4] ++ frame_rec 23 (extern_rec xs (lc_xcuts c))
               end).
    assert (N4 : nc (frame 10 [] ++ lc_tail c)) by (apply nc_frame; [discriminate|exact len_nil_ok]).
    assert (N3 : nc (frames (lc_junk3 c) ++ frame 10 [] ++ lc_tail c)) by (apply nc_frames; assumption).
    assert (NL : nc (LB ++ frames (lc_junk3 c) ++ frame 10 [] ++ lc_tail c))
      by (apply (nc_lbls env); assumption).
    set (R3 := LB ++ frames (lc_junk3 c) ++ frame 10 [] ++ lc_tail c) in *.
    assert (R3ne : R3 <> []).
    { unfold R3. intros E. apply app_eq_nil in E. destruct E as [_ E].
      apply app_eq_nil in E. destruct E as [_ E]. apply app_eq_nil in E. destruct E as [E _].
      vm_compute in E. discriminate E. }
    assert (NE : nc (EX ++ R3)).
    { unfold EX. destruct (lc_xtis c); [exact NL|]. rewrite <- app_assoc.
      apply nc_frame; [discriminate|reflexivity || (cbn; lia)]. }
    assert (N2 : nc (frames (lc_junk2 c) ++ EX ++ R3)) by (apply nc_frames; assumption).
    assert (Nb : nc (flat_map (fun sc => boundsheet (fst sc) (snd sc))
                              (combine (wb_sheets wb) (lc_sheets c)) ++
                     frames (lc_junk2 c) ++ EX ++ R3))
      by (apply nc_boundsheets; assumption).
    assert (N1 : nc (frames (lc_junk1 c) ++
                     flat_map (fun sc => boundsheet (fst sc) (snd sc))
                              (combine (wb_sheets wb) (lc_sheets c)) ++
                     frames (lc_junk2 c) ++ EX ++ R3))
      by (apply nc_frames; assumption).
    set (R1 := frames (lc_junk1 c) ++ _) in *.
    assert (Nd : nc ((if lc_omit_1904 c && negb (wb_1904 wb) then []
                      else frame 34 (le16 (b2n (wb_1904 wb)))) ++ R1)).
    { destruct (lc_omit_1904 c && negb (wb_1904 wb)); [exact N1|].
      apply nc_frame; [discriminate|apply len_le16_ok]. }
    assert (N0 : nc (frames (lc_junk0 c) ++
                     (if lc_omit_1904 c && negb (wb_1904 wb) then []
                      else frame 34 (le16 (b2n (wb_1904 wb)))) ++ R1))
      by (apply nc_frames; assumption).
    replace (frame 2057 bof_globals ++ frames (lc_junk0 c) ++
             (if lc_omit_1904 c && negb (wb_1904 wb) then [] else frame 34 (le16 (b2n (wb_1904 wb)))) ++
             frames (lc_junk1 c) ++
             flat_map (fun sc => boundsheet (fst sc) (snd sc)) (combine (wb_sheets wb) (lc_sheets c)) ++
             frames (lc_junk2 c) ++
             match lc_xtis c with
             | [] => []
             | p :: l => frame 430 [1; 0; 1; 4] ++ frame_rec 23 (extern_rec (p :: l) (lc_xcuts c))
             end ++ LB ++ frames (lc_junk3 c) ++ frame 10 [] ++ lc_tail c)
      with (frame 2057 bof_globals ++ frames (lc_junk0 c) ++
            (if lc_omit_1904 c && negb (wb_1904 wb) then [] else frame 34 (le16 (b2n (wb_1904 wb)))) ++ R1)
      by reflexivity.
    rewrite (records_plain 2057 bof_globals _ len_bof_ok N0).
    cbn [xls_globals]. change (2057 =? 47) with false. change (2057 =? 66) with false.
    change (2057 =? 34) with false. change (2057 =? 1054) with false.
    change (2057 =? 224) with false. change (2057 =? 133) with false.
    change (2057 =? 2057) with true. cbn iota.
    change (len bof_globals <? 2) with false. cbn iota.
    change (read_u16 bof_globals) with (@Ok N 1536). cbn [obind].
    change (4 <=? len bof_globals) with true. cbn iota.
    change (read_u16 (drop 2 bof_globals)) with (@Ok N 5). cbn [obind].
    change (bof_is_biff8 1536 5) with true. cbn iota.
    rewrite (globals_junk (lc_junk0 c) _ _ J0 Nd).
    assert (Hd : xls_globals
                   (records ((if lc_omit_1904 c && negb (wb_1904 wb) then []
                              else frame 34 (le16 (b2n (wb_1904 wb)))) ++ R1)) xls_state0 =
                 xls_globals (records R1) (mkXlsState [] [] [] (wb_1904 wb))).
    { destruct (lc_omit_1904 c && negb (wb_1904 wb)) eqn:Eo.
      - apply andb_true_iff in Eo. destruct Eo as [_ Eo]. apply negb_true_iff in Eo. rewrite Eo.
        reflexivity.
      - rewrite (records_plain 34 _ R1 (len_le16_ok _) N1). cbn [xls_globals].
        change (34 =? 47) with false. change (34 =? 66) with false. change (34 =? 34) with true.
        cbn iota. change (len (le16 (b2n (wb_1904 wb))) <? 2) with false. cbn iota.
        rewrite <- (app_nil_r (le16 _)), read_u16_le16. cbn [obind].
        destruct (wb_1904 wb); reflexivity. }
    rewrite Hd. unfold R1.
    rewrite (globals_junk (lc_junk1 c) _ _ J1 Nb).
    rewrite (globals_boundsheets (wb_sheets wb) (lc_sheets c) _ _ Hsheets N2).
    rewrite (globals_junk (lc_junk2 c) _ _ J2 NE).
    unfold push_sheets. cbn [xg_sheets xg_names xg_xtis xg_1904 app]. fold shs.
    (* ExternSheet and its CONTINUE records *)
    assert (Hex : xls_globals (records (EX ++ R3)) (mkXlsState shs [] [] (wb_1904 wb)) =
                  xls_globals (records R3) (mkXlsState shs [] (lc_xtis c) (wb_1904 wb))).
    { unfold EX. destruct (lc_xtis c) as [|x xs] eqn:Ex; [reflexivity|].
      rewrite <- app_assoc.
      assert (NF : nc (frame_rec 23 (extern_rec (x :: xs) (lc_xcuts c)) ++ R3)).
      { unfold frame_rec. rewrite <- app_assoc. apply nc_frame; [discriminate|]. apply N.leb_le in Hp0. exact Hp0. }
      rewrite (globals_junk1 430 [1; 0; 1; 4] _ _ eq_refl NF).
      apply N.leb_le in Hnx, Hp0.
      rewrite (globals_extern (len (wb_sheets wb)) (x :: xs) (lc_xcuts c) R3 _ Hxt Hnx Hp0 Hps R3ne NL).
      reflexivity. }
    rewrite Hex. unfold R3.
    rewrite (globals_lbls env (wb_names wb) (lc_names c) _ _ Hnames N3).
    cbn [xg_sheets xg_names xg_xtis xg_1904 app].
    rewrite (globals_junk (lc_junk3 c) _ _ J3 N4).
    rewrite (records_plain 10 [] (lc_tail c) len_nil_ok Nt).
    reflexivity. }
  rewrite Hg. cbn [obind].
  set (st := mkXlsState shs (map lbl_entry (wb_names wb)) (lc_xtis c) (wb_1904 wb)).
  (* the environment the decoder gets is the one the names are written against *)
  assert (Henv : xls_formula_env st = env).
  { unfold xls_formula_env, env, spec_env_xls, st. cbn [xg_sheets xg_names xg_xtis].
    f_equal.
    - rewrite <- Hshs, map_map. reflexivity.
    - rewrite map_map. reflexivity. }
  assert (Hres : xls_resolve show_f64 st = Ok (spec_names_xls show_f64 c wb)).
  { unfold xls_resolve, spec_names_xls. unfold st at 2. cbn [xg_names].
    apply map_o_map_ok. intros n Hin.
    destruct (forallb2_in _ _ _ _ _ n Hnames Hin) as [ch Hch].
    unfold ln_legal in Hch. apply andb_true_iff in Hch. destruct Hch as [Hch _].
    apply andb_true_iff in Hch. destruct Hch as [Hch _]. apply andb_true_iff in Hch. destruct Hch as [Hch _].
    apply andb_true_iff in Hch. destruct Hch as [Hch _]. apply andb_true_iff in Hch. destruct Hch as [Hch _].
    apply andb_true_iff in Hch. destruct Hch as [Hch Hrl]. apply andb_true_iff in Hch. destruct Hch as [_ Hwe].
    apply N.ltb_lt in Hrl.
    unfold xls_resolve_one, lbl_entry. cbn [fst snd]. rewrite Henv.
    unfold len in Hrl |- *. rewrite le16_le2 by exact Hrl.
    change (Ptg.le 2 (N.of_nat (length (Ptg.encode_xls (snd n)))) ++ Ptg.encode_xls (snd n))
      with (Ptg.frame_xls (Ptg.encode_xls (snd n))).
    rewrite (Ptg_proofs.rpn_correct_xls show_f64 env (snd n) Hwe Hrl). reflexivity. }
  rewrite Hres. cbn [obind xg_sheets xg_1904 st].
  assert (Hex : existsb (fun pm : N * meta => len (xls_stream c wb) <? fst pm) shs = false).
  { apply not_true_is_false. intros He. apply existsb_exists in He.
    destruct He as [pm [Hin Hlt]]. apply in_map_iff in Hin. destruct Hin as [[s0 ch0] [<- Hin]].
    apply in_combine_r in Hin. cbn [fst snd] in *. rewrite forallb_forall in Hpos.
    specialize (Hpos _ Hin). cbn [fst] in Hlt. lia. }
  rewrite Hex, Hshs. reflexivity.
Qed.

Theorem sheets_in_order_xls : forall show_f64 c wb, xls_legal c wb = true ->
  exists p, xls_parse_workbook show_f64 (xls_stream c wb) = Ok p /\ p_sheets p = wb_sheets wb.
Proof. intros show_f64 c wb Hl. eexists. split; [apply xls_parse_encode; exact Hl|reflexivity]. Qed.

Theorem defined_names_in_order_xls : forall show_f64 c wb, xls_legal c wb = true ->
  exists p, xls_parse_workbook show_f64 (xls_stream c wb) = Ok p /\ p_names p = spec_names_xls show_f64 c wb.
Proof. intros show_f64 c wb Hl. eexists. split; [apply xls_parse_encode; exact Hl|reflexivity]. Qed.

(* the date flag, composed with C10's plumbing theorems (NUMBER / RK / MULRK cells and FORMULA
   cells with a cached number) *)
Theorem date_flag_reaches_cells_xls : forall show_f64 c wb, xls_legal c wb = true ->
  exists p, xls_parse_workbook show_f64 (xls_stream c wb) = Ok p /\
    (forall t ixfe v fmt,
       NumFmt_proofs.ids_below 65536 t -> NumFmt_proofs.xfs_present t ->
       nth_error (NumFmt.xfs t) (N.to_nat ixfe) = Some fmt ->
       NumFmt.xls_cell_number (NumFmt.xls_formats (NumFmt.enc_biff t)) (p_1904 p) ixfe v =
       NumFmt.spec_cell (NumFmt.resolve t fmt) (wb_1904 wb) v) /\
    (forall t ixfe bits fmt,
       NumFmt_proofs.ids_below 65536 t -> NumFmt_proofs.xfs_present t ->
       nth_error (NumFmt.xfs t) (N.to_nat ixfe) = Some fmt ->
       NumFmt.xls_formula_number (NumFmt.xls_formats (NumFmt.enc_biff t)) (p_1904 p) ixfe bits =
       NumFmt.spec_cell (NumFmt.resolve t fmt) (wb_1904 wb) (NumFmt.NF bits)) /\
    (forall formats cells b dur g,
       In (NumFmt.DDateTime b dur g) (xls_sheet_values p formats cells) -> g = wb_1904 wb).
Proof.
  intros show_f64 c wb Hl. eexists. split; [apply xls_parse_encode; exact Hl|]. repeat split.
  - intros t ixfe v fmt H1 H2 H3. cbn [p_1904]. apply NumFmt_proofs.date_iff_style_xls; assumption.
  - intros t ixfe bits fmt H1 H2 H3. cbn [p_1904].
    apply NumFmt_proofs.date_iff_style_xls_formula; assumption.
  - intros formats cells b dur g H. apply date_flag_cells_xls in H. exact H.
Qed.

(* non-vacuity: sheets; an XTI table of 3 entries cut into the ExternSheet record and two CONTINUE records
   (the second cut inside an XTI), one of them a span of sheets; names: a relative 3-D reference; Print_Titles
   as Excel writes it (PtgMemFunc in front of the union of two 3-D areas) through the span, stored as the
   built-in id 7 with extra data behind the rgce; an area; a name defined through the name stored after it;
   a reference that no longer exists *)
Definition ex_xlsn_wb : workbook Ptg.expr :=
  mkWb [mkMeta [97; 233] Hidden MacroSheet; mkMeta [128512; 20013] VeryHidden WorkSheet]
       [([110], Ptg.ERef3d Ptg.CRef 1 (Ptg.Build_cref 0 1 false true));
        (s_xlnm ++ [80; 114; 105; 110; 116; 95; 84; 105; 116; 108; 101; 115],      (* _xlnm.Print_Titles *)
         Ptg.EMem Ptg.CRef Ptg.MFunc 0
           (Ptg.EBin 16 (Ptg.EArea3d Ptg.CRef 2 (Ptg.Build_cref 0 0 false false) (Ptg.Build_cref 65535 1 false false))
                        (Ptg.EArea3d Ptg.CRef 2 (Ptg.Build_cref 0 0 false false) (Ptg.Build_cref 1 255 false false))));
        ([20013], Ptg.EArea3d Ptg.CVal 0 (Ptg.Build_cref 0 0 false false) (Ptg.Build_cref 9 25 true false));
        ([97], Ptg.EBin 5 (Ptg.EName Ptg.CVal 5) (Ptg.EInt 2));
        ([98], Ptg.ERefErr3d Ptg.CArr 0 [0; 0; 0; 0])] true.
Definition ex_xlsn_c : xls_choice :=
  mkLc [mkLs 0 false 63; mkLs 10 true 9]
       [mkLn false 0 0 0 []; mkLn true 33 65 1 [2; 0; 9; 9]; mkLn true 1 0 1 []; mkLn false 0 0 0 [1]; mkLn false 0 0 0 []]
       [(0, 1, 1); (0, 0, 0); (0, 0, 1)] [6%nat; 7%nat]
       [(225, [176; 4])] [(224, [0; 0; 14; 0])] [] [(255, [])] false [9; 8].
Lemma xlsn_nonvacuous :
  xls_legal ex_xlsn_c ex_xlsn_wb = true /\
  spec_names_xls (fun _ => []) ex_xlsn_c ex_xlsn_wb =
    [([110], [97; 233; 33; 66; 36; 49]);                                              (* aé!B$1 *)
     (s_xlnm ++ [80; 114; 105; 110; 116; 95; 84; 105; 116; 108; 101; 115],
      [97; 233; 58; 128512; 20013; 33; 36; 65; 36; 49; 58; 36; 66; 36; 54; 53; 53; 51; 54; 44; 97; 233; 58; 128512; 20013; 33; 36; 65; 36; 49; 58; 36; 73; 86; 36; 50]);
     ([20013], [128512; 20013; 33; 36; 65; 36; 49; 58; 36; 90; 49; 48]);
     ([97], [98; 42; 50]);                                                             (* b*2: forward reference *)
     ([98], [128512; 20013; 33; 35; 82; 69; 70; 33])] /\
  lbl_units (s_xlnm ++ [80; 114; 105; 110; 116; 95; 84; 105; 116; 108; 101; 115]) (mkLn true 33 65 1 []) = [7].
Proof. vm_compute. repeat split. Qed.

(* xlsx: the same composition with C10's date_iff_style_xlsx *)
Theorem date_flag_style_xlsx : forall c wb rjunk,
  xlsx_legal c wb = true -> forallb junk_ok_rels rjunk = true ->
  exists p, xlsx_open (rels_events [] rjunk (xc_rels c)) (xlsx_wb_events c wb) = Ok p /\
    forall t s_attr bits fmt,
      NumFmt_proofs.ids_below (2 ^ 32) t -> NumFmt_proofs.codes_nonempty t ->
      nth_error (NumFmt.xfs t) (N.to_nat (match s_attr with Some i => i | None => 0 end)) = Some fmt ->
      NumFmt.xlsx_cell_number (NumFmt.xlsx_read_styles (NumFmt.enc_xlsx t)) (p_1904 p) s_attr bits =
      NumFmt.spec_cell (NumFmt.resolve t fmt) (wb_1904 wb) (NumFmt.NF bits).
Proof.
  intros c wb rjunk Hl Hj. eexists. split; [apply xlsx_open_encode; assumption|].
  intros t s_attr bits fmt H1 H2 H3. cbn [p_1904].
  apply NumFmt_proofs.date_iff_style_xlsx; assumption.
Qed.

(* ------------------------------------------------------------------------------------- *)
(** * totality (C06): the event-level readers never panic and need no fuel *)

Lemma sheet_attrs_no_panic : forall rels a n p v rt, sheet_attrs rels a n p v rt <> Panic.
Proof.
  induction a as [|[k x] a IH]; intros n p v rt; cbn [sheet_attrs]; [discriminate|].
  destruct (str_eqb k a_name); [apply IH|].
  destruct (str_eqb k a_state).
  { destruct (str_eqb x v_visible); [apply IH|]. destruct (str_eqb x v_hidden); [apply IH|].
    destruct (str_eqb x v_veryHidden); [apply IH|discriminate]. }
  destruct (is_rel_id k); [|apply IH].
  destruct (map_get x rels) as [[t ty]|]; [apply IH|discriminate].
Qed.
Lemma sheet_attrs_no_fuel : forall rels a n p v rt, sheet_attrs rels a n p v rt <> OutOfFuel.
Proof.
  induction a as [|[k x] a IH]; intros n p v rt; cbn [sheet_attrs]; [discriminate|].
  destruct (str_eqb k a_name); [apply IH|].
  destruct (str_eqb k a_state).
  { destruct (str_eqb x v_visible); [apply IH|]. destruct (str_eqb x v_hidden); [apply IH|].
    destruct (str_eqb x v_veryHidden); [apply IH|discriminate]. }
  destruct (is_rel_id k); [|apply IH].
  destruct (map_get x rels) as [[t ty]|]; [apply IH|discriminate].
Qed.

Theorem xlsx_wb_run_total : forall rels evs mode st,
  xlsx_wb_run rels evs mode st <> Panic /\ xlsx_wb_run rels evs mode st <> OutOfFuel.
Proof.
  intros rels. induction evs as [|ev evs IH]; intros mode st; cbn [xlsx_wb_run];
    [split; discriminate|].
  destruct mode as [|q nm val].
  - destruct ev as [n a|n|t|t|]; try apply IH.
    + destruct (str_eqb (local_name n) k_sheet).
      { destruct (sheet_attrs rels a [] [] Visible None) as [[[[nm pth] v] rt]|e| |] eqn:E; cbn [obind].
        - destruct (sheet_kind rt pth); [apply IH|split; discriminate].
        - split; discriminate.
        - exfalso. exact (sheet_attrs_no_panic _ _ _ _ _ _ E).
        - exfalso. exact (sheet_attrs_no_fuel _ _ _ _ _ _ E). }
      destruct (str_eqb (local_name n) k_workbookPr); [destruct (has_date1904 a); apply IH|].
      destruct (str_eqb (local_name n) k_definedName); [|apply IH].
      destruct (get_attribute a a_name); apply IH.
    + destruct (str_eqb (local_name n) k_workbook); [split; discriminate|apply IH].
  - destruct ev as [n a|n|t|t|]; try apply IH.
    destruct (str_eqb n q); apply IH.
Qed.

Theorem ods_run_total : forall evs mode st,
  ods_run evs mode st <> Panic /\ ods_run evs mode st <> OutOfFuel.
Proof.
  induction evs as [|ev evs IH]; intros mode st; cbn [ods_run].
  - destruct mode; split; discriminate.
  - destruct mode as [|name v|acc ret].
    + destruct ev as [n a|n|t|t|]; try apply IH.
      destruct (str_eqb n o_style); [apply IH|].
      destruct ((match od_style_name st with Some _ => true | None => false end) && str_eqb n o_tprops).
      { destruct (get_attribute a o_display) as [d|]; [|apply IH].
        destruct (str_eqb d v_true); [apply IH|]. destruct (str_eqb d v_false); [apply IH|].
        split; discriminate. }
      destruct (str_eqb n o_table).
      { destruct (get_attribute a o_tname); apply IH. }
      destruct (str_eqb n o_nexprs); apply IH.
    + destruct ev as [n a|n|t|t|]; try apply IH.
      * destruct (str_eqb n o_nexprs); apply IH.
      * destruct (str_eqb n o_table); apply IH.
    + destruct ev as [n a|n|t|t|]; try apply IH; try (split; discriminate).
      * destruct (str_eqb n o_nrange || str_eqb n o_nexpr); [apply IH|split; discriminate].
      * destruct (str_eqb n o_nrange || str_eqb n o_nexpr); [apply IH|].
        destruct (str_eqb n o_nexprs); [apply IH|split; discriminate].
Qed.

Lemma xlsx_rels_total : forall evs m,
  xlsx_read_relationships evs m <> Panic /\ xlsx_read_relationships evs m <> OutOfFuel.
Proof.
  induction evs as [|ev evs IH]; intros m; cbn [xlsx_read_relationships]; [split; discriminate|].
  destruct ev as [n a|n|t|t|]; try apply IH.
  - destruct (str_eqb (local_name n) k_Relationship); [|apply IH].
    destruct (rel_attrs a [] []). apply IH.
  - destruct (str_eqb (local_name n) k_Relationships); [split; discriminate|apply IH].
Qed.

Theorem no_panic_xlsx_open : forall rel_evs wb_evs,
  xlsx_open rel_evs wb_evs <> Panic /\ xlsx_open rel_evs wb_evs <> OutOfFuel.
Proof.
  intros rel_evs wb_evs. unfold xlsx_open.
  destruct (xlsx_read_relationships rel_evs []) as [rels|e| |] eqn:E; cbn [obind].
  - apply xlsx_wb_run_total.
  - split; discriminate.
  - exfalso. exact (proj1 (xlsx_rels_total _ _) E).
  - exfalso. exact (proj2 (xlsx_rels_total _ _) E).
Qed.

Theorem no_panic_ods_parse_content : forall evs,
  ods_parse_content evs <> Panic /\ ods_parse_content evs <> OutOfFuel.
Proof.
  intros evs. unfold ods_parse_content.
  destruct (ods_run evs OMain ods_state0) as [st|e| |] eqn:E; cbn [obind]; try (split; discriminate).
  - exfalso. exact (proj1 (ods_run_total _ _ _) E).
  - exfalso. exact (proj2 (ods_run_total _ _ _) E).
Qed.
