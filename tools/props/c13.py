"""C13 — compound-file streams are recovered whatever the container's physical layout.
Correspondence: containers (sector size 512 / 4096, storages, named streams, the storage that holds
each object) and layouts (placement of every FAT / DIFAT / directory / mini-FAT / mini-stream / stream
sector, directory slots with unused entries, free sectors, surplus table sectors, padding, the child /
sibling ids of every directory entry) are generated here, ENCODED by the extracted Coq encoder
`Cfb.cfb_write` (vm cfb_write), then read by the real code through the hook around Cfb::new /
has_directory / find / children / get_stream (vh cfb) and by the extracted model (vm cfb).
Spec side: the streams the generator put in, BY THEIR PATH from the root storage (names are unique per
storage only); cross-checked against the extracted specification Cfb.spec_path (vm cfb_spec).
Link families: a legal MS-CFB sibling tree (random shape), a right-leaning unsorted sibling chain (what
simple writers produce: linked but not legal), no links at all (the flat scan calamine falls back to:
the specification then only speaks about names that are unique over the file), and damaged links
(cycles, shared nodes, ids out of the array, the root as a child: model tie only).
Families dual_format (root Workbook + Book), dup_names (the same name in different storages, at different
depths and at the same depth) and xls_e2e (Xls::new + worksheet_range on such containers).
End to end: real .xls fixtures are parsed by a small independent Python reader (hierarchy included),
re-emitted by the Coq encoder under a random layout and opened with Xls::new; worksheet_range of every
sheet and vba_project() must equal those of the original — also with ANOTHER fixture's whole tree
embedded as an object storage next to it (in any slot order)."""
import os, struct
import vlib
import xlsgen

ASSUMPTIONS = [
    "object names: 1..31 UTF-16 units, no NUL, different from the root entry's name, unique per STORAGE (MS-CFB 2.6.1), not over the whole "
    "file: containers holding the same name in different storages are generated (families dup_names, xls_e2e, random with dups)",
    "a lookup is by PATH from the root storage (Cfb::find since the fix of audit finding G8): demanded whenever the links are a tree over "
    "the container's hierarchy (Cfb.linked_treeb: legal MS-CFB order or not); with no hierarchy written (root child id = NOSTREAM) the code "
    "scans the flat array for the last name of the path: demanded for names that are unique over the file; damaged links: model tie only",
    "stream sizes below 2^32 (the model's lists; version-4 files may declare more)",
    "the reader is a Cursor over the whole file (std::io::Read returning everything up to EOF)",
    "MS-CFB 2.6.4 order for the legal trees: UTF-16 length, then code units with a-z upper-cased only; node colours not modelled, all black",
    "names compare up to the case of the ASCII letters, for the lookup (str::eq_ignore_ascii_case since the fix of CFB-1) as for the "
    "uniqueness of names in a storage; the simple case conversion of other letters (MS-CFB 2.6.4, Unicode version depending on the writer) "
    "is not applied by the reader and not demanded: names differing only in the case of a non-ASCII letter count as different",
    "a root STORAGE named Workbook (or Book) is outside the domain of the Xls::new statements (the code takes any root entry of that name, "
    "storage or stream; Properties/C13.v states the hypothesis): generated, model tie only",
]

EOC, FREE = 0xFFFFFFFE, 0xFFFFFFFF

# ------------------------------------------------------------------ generation of containers
NAME_POOL = ["Workbook", "Book", "dir", "PROJECT", "_VBA_PROJECT", "Module1", "ThisWorkbook", "Sheet1",
             "\x05SummaryInformation", "\x05DocumentSummaryInformation", "\x01CompObj", "PROJECTwm",
             "a", "Zz", "Ünïcode", "名前", "𝔘𝔫𝔦", "x" * 31, "EncryptionInfo", "EncryptedPackage"]
STORAGE_POOL = ["_VBA_PROJECT_CUR", "VBA", "MBD0001", "\x06DataSpaces", "Forms"]

def u16len(s):
    return len(s.encode("utf-16le")) // 2

def units16(s):
    b = s.encode("utf-16le", "surrogatepass")
    return [b[i] | (b[i + 1] << 8) for i in range(0, len(b), 2)]

def cfb_key(s):
    """MS-CFB 2.6.4 sibling order (= Cfb.cfb_name_ltb): UTF-16 length, then the code units, a-z upper-cased"""
    u = units16(s)
    return (len(u), [x - 32 if 97 <= x <= 122 else x for x in u])

def ukey(s):
    """a name up to the case of a-z: two names of one storage must differ in this key to be sortable"""
    return "".join(chr(ord(ch) - 32) if "a" <= ch <= "z" else ch for ch in s)

def recase(rng, n):
    """another case spelling of a name (CFB-1: MS-CFB 2.6.4 compares names after upper-casing; the reader folds the
    ASCII letters): all upper (what POI-style writers store: WORKBOOK, BOOK), all lower, or letter by letter"""
    k = rng.random()
    if k < 0.4:
        return "".join(ch.upper() if "a" <= ch <= "z" else ch for ch in n)
    if k < 0.6:
        return "".join(ch.lower() if "A" <= ch <= "Z" else ch for ch in n)
    return "".join((ch.swapcase() if ("a" <= ch <= "z" or "A" <= ch <= "Z") and rng.random() < 0.5 else ch) for ch in n)

def recase_case(rng, c, p=0.5):
    """re-spell the stored names of a container (uniqueness per storage is up to case: it is kept)"""
    c.storages = [recase(rng, n) if rng.random() < p else n for n in c.storages]
    c.streams = [((recase(rng, n) if rng.random() < p else n), b) for n, b in c.streams]
    c.recased = True

def same_name(a, b):
    return ukey(a) == ukey(b)

def gen_name(rng, used):
    """a fresh name; `used` holds the ukey of every name taken so far (global uniqueness, case of a-z ignored)"""
    for _ in range(100):
        k = rng.random()
        if k < 0.6:
            n = rng.choice(NAME_POOL)
        elif k < 0.8:
            n = "".join(rng.choice("abcXYZ012_ \x01\x05é漢") for _ in range(rng.randrange(1, 12)))
        else:
            n = "".join(chr(rng.choice([rng.randrange(1, 0x7F), rng.randrange(0xA0, 0xD7FF), rng.randrange(0xE000, 0xFFFD),
                                        rng.randrange(0x10000, 0x10FFFF)])) for _ in range(rng.randrange(1, 9)))
        if ukey(n) not in used and n != "Root Entry" and 1 <= u16len(n) <= 31 and "\0" not in n:
            used.add(ukey(n))
            return n
    raise RuntimeError("name generation")

def gen_bytes(rng, n):
    k = rng.random()
    if k < 0.4:
        return bytes((i * 7 + 3) & 255 for i in range(n))
    if k < 0.5:
        return bytes(n)
    return rng.randbytes(n) if n < 20000 else (rng.randbytes(1024) * (n // 1024 + 1))[:n]

BOUNDARY_SIZES = [0, 1, 63, 64, 65, 127, 128, 129, 511, 512, 513, 1023, 1024, 1025, 4031, 4032, 4033,
                  4095, 4096, 4097, 4607, 4608, 4609, 8191, 8192, 8193, 12287, 12288, 12289]

def gen_size(rng, ss):
    k = rng.random()
    if k < 0.45:
        return rng.choice(BOUNDARY_SIZES)
    if k < 0.6:
        return rng.randrange(0, 400)
    if k < 0.8:
        return rng.randrange(3000, 5200)
    m = rng.randrange(1, 12)
    return max(0, m * ss + rng.choice([-1, 0, 1]))

def ceil_div(a, b):
    return (a + b - 1) // b

def order_ids(rng, n, mode):
    ids = list(range(n))
    if mode == "shuffled":
        rng.shuffle(ids)
    elif mode == "reversed":
        ids.reverse()
    elif mode == "interleaved":
        ids = ids[0::2] + ids[1::2]
    return ids

def gen_layout(rng, ss, storages, streams, mode=None, force_nfat=None, surplus=True):
    """storages: [name]; streams: [(name, bytes)] -> layout dict (see Cfb.layout)"""
    mode = mode or rng.choice(["sequential", "shuffled", "shuffled", "shuffled", "reversed", "interleaved"])
    epf = ss // 4
    sp = (lambda p: surplus and rng.random() < p)
    # mini sectors
    mini_need = []
    big_need = []
    for n, b in streams:
        if len(b) < 4096:
            k = ceil_div(len(b), 64)
            if k and sp(0.1):
                k += rng.randrange(1, 3)
            mini_need.append(k)
        else:
            k = ceil_div(len(b), ss)
            if sp(0.1):
                k += rng.randrange(1, 3)
            big_need.append(k)
    nmini = sum(mini_need) + (rng.randrange(0, 4) if sp(0.4) else 0)
    mini_ids = order_ids(rng, nmini, mode)
    n_root = ceil_div(nmini * 64, ss) + (1 if sp(0.15) else 0)
    n_minifat = ceil_div(nmini, epf) + (1 if sp(0.15) else 0)
    n_items = len(storages) + len(streams)
    n_entries = 1 + n_items + (rng.randrange(0, 6) if sp(0.6) else 0)
    n_dir = ceil_div(n_entries * 128, ss) + (1 if sp(0.15) else 0)
    nslots = n_dir * (ss // 128)
    n_free = rng.randrange(0, 5) if sp(0.5) else 0
    data = n_dir + n_minifat + n_root + sum(big_need) + n_free
    nfat = 1
    def ndifat_for(nf):
        return 0 if nf <= 109 else ceil_div(nf - 109, epf - 1)
    while nfat * epf < data + nfat + ndifat_for(nfat):
        nfat += 1
    if force_nfat:
        nfat = max(nfat, force_nfat)
    elif sp(0.1):
        nfat += rng.randrange(1, 3)
    ndifat = ndifat_for(nfat) + (1 if (nfat > 100 and sp(0.3)) else 0)
    nsect = data + nfat + ndifat
    ids = order_ids(rng, nsect, mode)
    pos = [0]
    def take(k):
        r = ids[pos[0]:pos[0] + k]
        pos[0] += k
        return r
    # the order in which the kinds of sectors draw from the id sequence is itself random
    kinds = ["fat", "difat", "dir", "minifat", "root"] + ["s%d" % i for i in range(len(big_need))]
    if mode != "sequential" or rng.random() < 0.5:
        rng.shuffle(kinds)
    got = {}
    for k in kinds:
        cnt = {"fat": nfat, "difat": ndifat, "dir": n_dir, "minifat": n_minifat, "root": n_root}.get(k)
        if cnt is None:
            cnt = big_need[int(k[1:])]
        got[k] = take(cnt)
    if mode == "shuffled" and rng.random() < 0.3:
        # fragmentation: sequential ids, but the chains of two objects interleave
        pass
    chains, bi, mp = [], 0, 0
    for n, b in streams:
        if len(b) < 4096:
            k = mini_need[len([1 for x in chains if x[0] == "m"])]
            chains.append(("m", mini_ids[mp:mp + k]))
            mp += k
        else:
            chains.append(("b", got["s%d" % bi]))
            bi += 1
    slots = rng.sample(range(1, nslots), n_items) if mode != "sequential" else list(range(1, n_items + 1))
    return {"nsect": nsect, "fat": got["fat"], "difat": got["difat"], "dir": got["dir"],
            "minifat": got["minifat"], "root": got["root"], "nmini": nmini,
            "chains": [c[1] for c in chains], "slots": slots,
            "pad": rng.choice([0, 0, 0xFF, 0xAA, rng.randrange(256)]),
            "hi": rng.choice([0, 0, 0xFFFFFFFF, 1, rng.randrange(1 << 32)]) if ss == 512 else rng.choice([0, 7]),
            "es": rng.choice([EOC, EOC, 0, 0, FREE, 1, rng.randrange(1 << 32)]),
            "mode": mode}

def lay_text(l):
    j = lambda x: ",".join(str(i) for i in x)
    return "|".join([str(l["nsect"]), j(l["fat"]), j(l["difat"]), j(l["dir"]), j(l["minifat"]), j(l["root"]),
                     str(l["nmini"]), "/".join(j(c) for c in l["chains"]) if l["chains"] else "-",
                     j(l["slots"]), str(l["pad"]), str(l["hi"]), str(l["es"])])

def hx(s):
    return s.encode("utf-8").hex() or "-"

NOSTREAM = 0xFFFFFFFF

def gen_parents(rng, nstor, nstream):
    """the storage holding every object (storages first, then streams): 0 = the root storage, j >= 1 = the
    j-th storage; a storage sits in the root or in an EARLIER storage"""
    ps = [rng.randrange(0, j + 1) if rng.random() < 0.5 else 0 for j in range(nstor)]
    ps += [rng.randrange(0, nstor + 1) if rng.random() < 0.6 else 0 for _ in range(nstream)]
    return ps

LINK_MODES = ["legal", "legal", "legal", "chain", "none"]

def gen_links(rng, storages, streams, parents, slots, mode="legal"):
    """(left, right, child) triples of the root entry, the storages, the streams (order of `slots`).
    legal: per storage (root included) the children sorted by cfb_key form a binary search tree of RANDOM
           shape; the storage's child id is the slot of the tree's top;
    chain: per storage the children in RANDOM order as a right-leaning chain (child -> right -> right ...),
           sometimes left-leaning: a tree, not in the MS-CFB order;
    none : every id NOSTREAM (returned as None: nothing is written)"""
    if mode == "none":
        return None
    names = list(storages) + [n for n, _ in streams]
    n = len(names)
    links = [[NOSTREAM, NOSTREAM, NOSTREAM] for _ in range(n + 1)]        # 0 = root entry, k + 1 = object k
    def build(objs):
        if not objs:
            return NOSTREAM
        r = rng.randrange(len(objs))
        k = objs[r]
        links[k + 1][0] = build(objs[:r])
        links[k + 1][1] = build(objs[r + 1:])
        return slots[k]
    for p in range(len(storages) + 1):                                    # storage p is object p - 1: links[p]
        kids = [k for k in range(n) if parents[k] == p]
        if mode == "legal":
            kids.sort(key=lambda k: cfb_key(names[k]))
            links[p][2] = build(kids)
        else:
            rng.shuffle(kids)
            side = 1 if rng.random() < 0.8 else 0
            for a, b in zip(kids, kids[1:]):
                links[a + 1][side] = slots[b]
            links[p][2] = slots[kids[0]] if kids else NOSTREAM
    return [tuple(t) for t in links]

def damage_links(rng, c):
    """links that are NOT a tree over the hierarchy: cycles, shared nodes, dangling ids, the root as a child, a
    child id on a stream, a dropped subtree.  Returns the kind."""
    n = len(c.storages) + len(c.streams)
    links = [list(t) for t in (c.links or [(NOSTREAM,) * 3] * (n + 1))]
    slots = [0] + list(c.lay["slots"])
    nsl = nslots_of(c)
    kind = rng.choice(["self", "cycle", "shared", "dangling", "root_child", "to_root", "stream_child", "unused_slot", "drop", "random"])
    i = rng.randrange(0, n + 1)
    f = rng.randrange(0, 3)
    if kind == "self":
        links[i][f] = slots[i]
    elif kind == "cycle":
        j = rng.randrange(0, n + 1)
        links[i][f] = slots[j]
        links[j][rng.randrange(0, 3)] = slots[i]
    elif kind == "shared":
        links[i][f] = slots[rng.randrange(0, n + 1)]
    elif kind == "dangling":
        links[i][f] = rng.choice([nsl, nsl + 1, 0x7FFFFFFF, 0xFFFFFFFE, 0xFFFFFFFD, 1 << 31, nsl * 128])
    elif kind == "root_child":
        links[0][2] = rng.choice([0, 0, nsl, NOSTREAM, slots[rng.randrange(0, n + 1)]])
    elif kind == "to_root":
        links[i][f] = 0
    elif kind == "stream_child":
        if c.streams:
            k = len(c.storages) + rng.randrange(len(c.streams))
            links[k + 1][2] = slots[rng.randrange(0, n + 1)]
    elif kind == "unused_slot":
        free = [x for x in range(1, nsl) if x not in slots]
        links[i][f] = rng.choice(free) if free else nsl
    elif kind == "drop":
        links[i][f] = NOSTREAM
    else:
        for _ in range(rng.randrange(1, 4)):
            links[rng.randrange(0, n + 1)][rng.randrange(0, 3)] = rng.choice(
                [NOSTREAM, 0, rng.randrange(0, nsl + 2), slots[rng.randrange(0, n + 1)]])
    c.links = [tuple(t) for t in links]
    c.linkmode = "damaged"
    c.tag = "damaged_links"
    c.damage = kind
    return kind

def write_line(cid, ss, storages, streams, lay, parents=None, links=None):
    st = ";".join(hx(n) for n in storages) or "-"
    sm = ";".join("%s:%s" % (hx(n), b.hex() or "-") for n, b in streams) or "-"
    pa = ",".join(str(p) for p in parents) if parents else "-"
    lk = "/".join("%d,%d,%d" % tuple(t) for t in links) if links else "-"
    return "%s\tcfb_write\t%d\t%s\t%s\t%s\t%s\t%s" % (cid, ss, st, sm, lay_text(lay), pa, lk)

class Case:
    pass

def wl(c):
    return write_line(c.cid, c.ss, c.storages, c.streams, c.lay, c.parents, c.links)

def nslots_of(c):
    return len(c.lay["dir"]) * (c.ss // 128)

def finish_case(rng, c, mode=None, force_nfat=None, surplus=True, random_slots=0.0, linkmode=None):
    """layout + links for a case whose storages / streams / parents are set"""
    if rng.random() < 0.3:
        recase_case(rng, c)
    c.lay = gen_layout(rng, c.ss, c.storages, c.streams, mode=mode, force_nfat=force_nfat, surplus=surplus)
    n = len(c.storages) + len(c.streams)
    if random_slots and rng.random() < random_slots:
        c.lay["slots"] = rng.sample(range(1, nslots_of(c)), n)
    c.linkmode = linkmode or rng.choice(LINK_MODES)
    c.links = gen_links(rng, c.storages, c.streams, c.parents, c.lay["slots"], c.linkmode)
    return c

def gen_names_for(rng, parents, nstor, pool_st, dups):
    """names for nstor storages and the streams: unique per storage (up to the case of a-z); with `dups` the same
    name may come back in another storage, else every name is unique over the file"""
    per = {}
    glob = set()
    names = []
    for k, p in enumerate(parents):
        used = per.setdefault(p, set()) if dups else glob
        if k < nstor:
            for _ in range(100):
                n = rng.choice(pool_st) if rng.random() < 0.8 else gen_name(rng, set())
                if ukey(n) not in used:
                    break
            else:
                raise RuntimeError("storage name generation")
            used.add(ukey(n))
        else:
            n = gen_name(rng, used)
        names.append(n)
    return names

def make_case(rng, cid, ss, sizes=None, nstor=None, mode=None, force_nfat=None, names=None, surplus=True, tag="random",
              linkmode=None, dups=None):
    c = Case()
    c.cid, c.ss, c.tag = cid, ss, tag
    if sizes is None:
        sizes = [gen_size(rng, ss) for _ in range(rng.randrange(0, 7))]
    nst = nstor if nstor is not None else rng.choice([0, 0, 1, 2, 3])
    c.parents = gen_parents(rng, nst, len(sizes))
    if dups is None:
        dups = rng.random() < 0.4
    nm = gen_names_for(rng, c.parents, nst, STORAGE_POOL, dups)
    c.storages = nm[:nst]
    c.streams = []
    for k, sz in enumerate(sizes):
        n = names[k] if names else nm[nst + k]
        c.streams.append((n, gen_bytes(rng, sz)))
    return finish_case(rng, c, mode=mode, force_nfat=force_nfat, surplus=surplus, linkmode=linkmode)

# ------------------------------------------------------------------ specification side: lookups by path
def all_names(c):
    return list(c.storages) + [n for n, _ in c.streams]

def depth_of(c, k):
    d = 0
    while c.parents[k] != 0:
        k = c.parents[k] - 1
        d += 1
    return d

def names_path(c, k):
    """the names from the root storage down to object k"""
    names = all_names(c)
    out = [names[k]]
    while c.parents[k] != 0:
        k = c.parents[k] - 1
        out.append(names[k])
    return list(reversed(out))

def path_of(c, k):
    return "/".join(repr(x)[1:-1] for x in names_path(c, k))

def resolve(c, path):
    """object index (None = the root storage itself) reached by following `path` from the root, or "none" """
    names = all_names(c)
    p = 0
    obj = None
    for nm in path:
        ks = [k for k in range(len(names)) if same_name(names[k], nm) and c.parents[k] == p]
        if not ks:
            return "none"
        obj = ks[0]
        p = obj + 1
    return obj

def regime(c):
    """tree: the links are a tree over the hierarchy and the root has a child: lookups by path are demanded;
    flat: no hierarchy written: lookups by (last) name, demanded for names unique over the file;
    damaged: model tie only"""
    if not c.valid:
        return "invalid"
    if c.flat:
        return "flat"
    if c.linked:
        return "tree"
    return "damaged"

def ppath(path):
    return "/".join(hx(n) for n in path)

def ops_for(rng, c, absent=True):
    """[(kind, argument, expected or None)]; kinds h (has_directory), p (find), g (get_stream), c (children), n"""
    nst = len(c.storages)
    names = all_names(c)
    reg = regime(c)
    slots = c.lay["slots"]
    ops = []
    def count(nm):
        return sum(1 for x in names if same_name(x, nm))
    def index(nm):
        return [k for k, x in enumerate(names) if same_name(x, nm)][0]
    def respell(path):
        # the path asked for in another case spelling than the file stores
        return [recase(rng, n) for n in path] if rng.random() < 0.35 else path
    def exp_g(path):
        if reg == "tree":
            o = resolve(c, path)
            if o == "none":
                return "err:notfound"
            if o is None or o < nst:
                return None                       # a storage / the root entry: nothing demanded
            return "ok:" + c.streams[o - nst][1].hex()
        if reg == "flat" and path:
            nm = path[-1]
            if same_name(nm, "Root Entry") or nm == "":
                return None
            if count(nm) == 0:
                return "err:notfound"
            if count(nm) == 1 and index(nm) >= nst:
                return "ok:" + c.streams[index(nm) - nst][1].hex()
        return None
    def exp_p(path):
        if reg == "tree":
            return "0" if resolve(c, path) == "none" else "1"
        if reg == "flat" and path and path[-1] != "" and not same_name(path[-1], "Root Entry"):
            return "1" if count(path[-1]) else "0"
        return None
    # children of the root and of every storage
    meant = c.valid and c.linkmode in ("legal", "chain") and c.linked
    for q in [0] + list(range(1, nst + 1)):
        sl = 0 if q == 0 else slots[q - 1]
        kids = sorted(slots[k] for k in range(len(names)) if c.parents[k] == q)
        ops.append(("c", str(sl), ("set:" + ",".join(map(str, kids))) if meant else ("set:" if c.linkmode == "none" else None)))
    if c.streams and rng.random() < 0.5:
        k = nst + rng.randrange(len(c.streams))
        ops.append(("c", str(slots[k]), "set:" if (meant or c.linkmode == "none") else None))
    ops.append(("c", str(rng.choice([nslots_of(c), nslots_of(c) + 7, 4294967295])), "set:"))
    # has_directory: an entry of the root storage
    for nm in dict.fromkeys(names):
        nm = respell([nm])[0]
        ops.append(("h", nm, exp_p([nm])))
    for k in range(nst):
        path = respell(names_path(c, k))
        ops.append(("p", path, exp_p(path)))
    order = list(range(nst, len(names)))
    rng.shuffle(order)
    for k in order:
        path = respell(names_path(c, k))
        if rng.random() < 0.5:
            ops.append(("p", path, exp_p(path)))
        ops.append(("g", path, exp_g(path)))
        if len(path) > 1 and rng.random() < 0.5:
            # the bare name of a nested stream: an entry of the ROOT storage is asked for
            ops.append(("g", path[-1:], exp_g(path[-1:])))
        if rng.random() < 0.2:
            q = path[:-1] + ["No Such Stream"] if rng.random() < 0.5 else ["No Such Storage"] + path
            ops.append(("g", q, exp_g(q)))
        # a letter outside ASCII in the other case (Ü / ü): MS-CFB 2.6.4 would fold it, the reader (and the model)
        # do not: nothing is demanded either way, model and code must agree
        q = [("".join(ch.swapcase() if ord(ch) > 127 and len(ch.swapcase()) == 1 else ch for ch in n)) for n in path]
        if q != path and rng.random() < 0.5:
            ops.append(("g", q, None))
            c.nodemand = getattr(c, "nodemand", set()) | {tuple(q)}
    if order and rng.random() < 0.5:           # read again (sector cache already filled)
        path = names_path(c, order[0])
        ops.append(("g", path, exp_g(path)))
    if absent:
        ops.append(("h", "No Such Stream", exp_p(["No Such Stream"])))
        ops.append(("g", ["No Such Stream"], exp_g(["No Such Stream"])))
        ops.append(("p", [], "1" if reg == "tree" and names else ("0" if reg == "flat" else None)))
    ops.append(("n", "", None))
    return ops

def ops_text(ops):
    out = []
    for k, a, _ in ops:
        if k == "n":
            out.append("n")
        elif k == "h":
            out.append("h:" + hx(a))
        elif k == "c":
            out.append("c:" + a)
        else:
            out.append("%s:%s" % (k, ppath(a)))
    return ";".join(out)

def op_describe(op):
    k, a, _ = op
    return {"h": "has_directory(%r)", "p": "find(%r).is_some()", "g": "get_stream(%r)", "c": "children(%s)", "n": "names%s"}[k] % (a,)

def matches(exp, got):
    if exp is None:
        return True
    if exp.startswith("set:"):
        if not got.startswith("c:"):
            return False
        want = sorted(x for x in exp[4:].split(",") if x)
        have = sorted(x for x in got[2:].split(",") if x)
        return want == have
    return exp == got

def root_workbook(c):
    """bytes of the stream Excel means: Workbook of the root storage, else Book of the root storage; "storage" when the
    root holds a STORAGE of the name asked first (outside the domain of the statement)"""
    nst = len(c.storages)
    for nm in ("Workbook", "Book"):                # (resolve compares up to case: WORKBOOK, BOOK ... count)
        o = resolve(c, [nm])
        if o == "none":
            continue
        if o < nst:
            return "storage"
        return c.streams[o - nst][1]
    return None

def same_outcome(i, m):
    """impl vs model; memory exhaustion of the real loop (alloc) = the model running out of fuel"""
    if i == m:
        return True
    if i is None or m is None:
        return False
    fi, fm = i.split(";"), m.split(";")
    if len(fi) != len(fm):
        return False
    for a, b in zip(fi, fm):
        if a == b:
            continue
        if a.replace("alloc", "fuel") == b:
            continue
        return False
    return True

def parse_written(ans):
    """answer of vm cfb_write -> dict(file, valid, known, fuel, legal, unique, linked, flat) or None"""
    f = (ans or "").split("|")
    if len(f) != 8:
        return None
    return {"file": f[0], "valid": f[1] == "1", "known": f[2], "fuel": f[3], "legal": f[4] == "1", "unique": f[5] == "1",
            "linked": f[6] == "1", "flat": f[7] == "1"}

def take_written(c, f):
    c.file, c.valid, c.known, c.fuel = f["file"], f["valid"], f["known"], f["fuel"]
    c.legal, c.unique, c.linked, c.flat = f["legal"], f["unique"], f["linked"], f["flat"]

def check_written(ctx, c, line):
    """generator vs model on what the generator meant: valid layout, kind of links, global uniqueness flag"""
    ok = True
    if not c.valid:
        if c.tag != "invalid":
            ctx.disagreements.append({"function": "valid_layoutb(generator)", "case": line[:20000], "impl": "(n/a)",
                                      "model": "valid=0 for a layout the generator meant to be valid"})
        ok = False
    n = len(c.storages) + len(c.streams)
    want = {"legal": (True, True, n == 0), "chain": (None, True, n == 0), "none": (n == 0, n == 0, True)}.get(c.linkmode)
    if want:
        got = (c.legal, c.linked, c.flat)
        for nm, w, g in zip(("legal_treeb", "linked_treeb", "flat_rootb"), want, got):
            if w is not None and w != g:
                ctx.disagreements.append({"function": nm + "(generator)", "case": line[:20000], "impl": "(n/a)",
                                          "model": "%s=%d for links the generator wrote in mode %s (%d objects)" % (nm, g, c.linkmode, n)})
    names = all_names(c)
    if c.unique != (len(set(ukey(x) for x in names)) == len(names)):        # names_uniqueb: up to case
        ctx.disagreements.append({"function": "names_uniqueb(generator)", "case": line[:20000], "impl": "(n/a)",
                                  "model": "unique=%d, generator: %d distinct names of %d" % (c.unique, len(set(names)), len(names))})
    return ok

def check_w(ctx, c, w_ans, line):
    """the model-only op w (= the bytes Xls::parse_workbook reads) against the specification: the root storage's
    Workbook, else its Book — wherever embedded objects sit in the directory array"""
    reg = regime(c)
    if reg != "tree":
        ctx.count("w:regime_" + reg)
        return
    rw = root_workbook(c)
    if rw is None:
        ctx.count("w:no_root_workbook")
        if w_ans != "err:notfound":
            ctx.disagreements.append({"function": "workbook_or_book(model vs spec)", "case": line[:20000], "impl": "(n/a)",
                                      "model": "w=%s although the root storage has neither Workbook nor Book" % w_ans[:200]})
        return
    if rw == "storage":
        ctx.count("w:root_storage_named_workbook(out of domain)")
        return
    ctx.count("w:root_workbook_read")
    others = sum(1 for n in all_names(c) if ukey(n) in ("WORKBOOK", "BOOK")) - 1
    if others:
        ctx.count("w:root_workbook_read_among_%s_other_Workbook_or_Book" % ("1" if others == 1 else "2+"))
    exp = "ok:" + rw.hex()
    if w_ans != exp:
        ctx.disagreements.append({"function": "workbook_or_book(model vs spec)", "case": line[:20000], "impl": "(n/a)",
                                  "model": "w=%s; the root storage's workbook stream is %s" % (w_ans[:200], exp[:200])})

def spec_lines(cases):
    """vm cfb_spec: the extracted specification Cfb.spec_path on every path a g op asks for"""
    out = []
    for c in cases:
        if getattr(c, "no_model_read", False):
            continue
        paths = [a for k, a, _ in c.ops if k == "g"]
        st = ";".join(hx(n) for n in c.storages) or "-"
        sm = ";".join("%s:%s" % (hx(n), b.hex() or "-") for n, b in c.streams) or "-"
        pa = ",".join(str(p) for p in c.parents) if c.parents else "-"
        out.append("S%s\tcfb_spec\t%d\t%s\t%s\t%s\t%s" % (c.cid, c.ss, st, sm, pa, ";".join(ppath(a) for a in paths) or "-"))
    return out

def run_cases(ctx, cases, rng):
    """encode with the extracted encoder; read with the code and the model; three-way compare"""
    enc = ctx.run_model([wl(c) for c in cases])
    lines, meta = [], {}
    for c in cases:
        a = enc.get(c.cid, "")
        f = parse_written(a)
        if f is None:
            ctx.disagreements.append({"function": "cfb_write", "case": wl(c)[:3000], "impl": "(n/a)", "model": a[:200]})
            continue
        take_written(c, f)
        c.ops = ops_for(rng, c)
        c.line = "%s\tcfb\t%s\t%s\t%s" % (c.cid, c.file, c.fuel, ops_text(c.ops))
        lines.append(c.line)
        meta[c.cid] = c
    # very large files: the model's list-based sector cache is too slow to read them back in the
    # quick tier; they are still checked implementation-vs-specification
    skip_model = set(c.cid for c in meta.values() if getattr(c, "no_model_read", False))
    impl = ctx.run_impl(lines)
    # the model also answers the model-only op w (what Xls::parse_workbook would read), sent last
    model = ctx.run_model([l + ";w" for l in lines if l.split("\t", 1)[0] not in skip_model])
    specm = ctx.run_model(spec_lines(meta.values()))
    for cid, c in meta.items():
        i, m = impl.get(cid), model.get(cid)
        w_ans = None
        if m is not None:
            mf = m.split(";")
            if len(mf) == len(c.ops) + 2:          # nothing stopped the op sequence: the last answer is w's
                w_ans, m = mf[-1], ";".join(mf[:-1])
        if cid in skip_model:
            m = i
            ctx.count("model_read_skipped(big file)")
        reg = regime(c)
        ctx.traces += 1
        ctx.count("tag:" + c.tag)
        if getattr(c, "recased", False):
            ctx.count("names:stored_in_another_case")
        ctx.count("links:" + c.linkmode + ("(" + c.damage + ")" if getattr(c, "damage", None) else ""))
        ctx.count("regime:" + reg)
        ctx.count("sector_size:%d" % c.ss)
        ctx.count("layout:" + c.lay["mode"])
        ctx.count("fat_sectors:" + ("1" if len(c.lay["fat"]) == 1 else "2..109" if len(c.lay["fat"]) <= 109 else ">109"))
        ctx.count("difat_sectors:%d" % min(len(c.lay["difat"]), 3))
        ctx.count("storages:%d" % len(c.storages))
        ctx.count("nesting_depth:%d" % max([depth_of(c, k) for k in range(len(c.parents))] or [0]))
        for n, b in c.streams:
            ctx.count("stream:" + ("empty" if not b else "mini" if len(b) < 4096 else "regular"))
            if len(b) in (4095, 4096, 4097):
                ctx.count("stream_size:%d" % len(b))
        ctx.nontrivial(c.line.split("\t", 2)[2][:6000] + str(len(c.file)))
        ctx.sample({"case": cid, "ss": c.ss, "sizes": [len(b) for _, b in c.streams], "layout": lay_text(c.lay)[:300],
                    "file_bytes": len(c.file) // 2})
        gl = wl(c)
        if not same_outcome(i, m):
            ctx.disagreements.append({"function": "Cfb::new/find/get_stream", "case": c.line[:200000], "impl": (i or "")[:2000],
                                      "model": (m or "")[:2000], "generator": gl[:20000]})
        if c.tag == "invalid" or not check_written(ctx, c, gl):
            continue
        names = all_names(c)
        nst = len(c.storages)
        # duplicate names: how they sit (the statistics the evidence shows)
        for nm in set(names):
            objs = [k for k, x in enumerate(names) if same_name(x, nm)]
            if len(objs) > 1 and reg == "tree":
                ds = sorted(depth_of(c, k) for k in objs)
                ctx.count("dup:same_depth" if ds[0] == ds[1] else "dup:different_depth")
                want = min(objs, key=lambda k: depth_of(c, k))
                low = min(objs, key=lambda k: c.lay["slots"][k])
                ctx.count("dup:closest_to_root_in_lowest_slot" if want == low else "dup:closest_to_root_not_in_lowest_slot")
        if c.tag == "dual_format":
            sl = {ukey(n): c.lay["slots"][nst + k] for k, (n, _) in enumerate(c.streams)
                  if ukey(n) in ("WORKBOOK", "BOOK") and c.parents[nst + k] == 0}
            ctx.count("dual:book_only" if "WORKBOOK" not in sl else
                      "dual:book_first" if sl["BOOK"] < sl["WORKBOOK"] else "dual:workbook_first")
        if w_ans is not None:
            check_w(ctx, c, w_ans, gl)
        # the Python reading of the specification against the extracted Cfb.spec_path
        sm = specm.get("S" + cid)
        if sm is not None and reg == "tree":
            gops = [(a, e) for k, a, e in c.ops if k == "g"]
            sf = sm.split(";") if sm else []
            for (a, e), x in zip(gops, sf):
                tr = {"none": "err:notfound", "storage": None, "root": None}.get(x, x)
                if tuple(a) in getattr(c, "nodemand", ()):
                    continue                      # a non-ASCII letter in the other case: nothing demanded (notes/C13.md)
                if tr != e:
                    ctx.disagreements.append({"function": "spec_path(generator vs Cfb.spec_path)", "case": gl[:20000], "impl": "(n/a)",
                                              "model": "path %r: Cfb.spec_path says %s, the generator %s" % (a, x[:100], (e or "None")[:100])})
                    break
        got = (i or "").split(";")
        bad = None
        for k, op in enumerate(c.ops):
            e = op[2]
            if e is None:
                continue
            g = got[k + 1] if k + 1 < len(got) else "(missing)"
            if op[0] == "g" and reg == "tree" and e.startswith("ok:"):
                ctx.count("spec:stream_by_path_depth_%d" % (len(op[1]) - 1))
            if not matches(e, g):
                bad = (k, e, g)
                break
        if got[0] != "new=ok":
            bad = (-1, "new=ok", got[0])
        if bad:
            k, e, g = bad
            gen_note = ""
            if len(c.line) > 400000:
                # too big for a replay file: keep the generator command in a side file
                gp = os.path.join(vlib.ROOT, "replays", "C13-generator-%s-%d.txt" % (cid, ctx.seed))
                os.makedirs(os.path.dirname(gp), exist_ok=True)
                open(gp, "w").write(gl + "\n" + ops_text(c.ops) + "\n")
                gen_note = " [generator file %s]" % gp
            what = "open" if k < 0 else op_describe(c.ops[k])
            dup = ""
            if k >= 0 and c.ops[k][0] in ("g", "p", "h"):
                nm = c.ops[k][1] if c.ops[k][0] == "h" else (c.ops[k][1][-1] if c.ops[k][1] else "")
                objs = [o for o, x in enumerate(names) if same_name(x, nm)]
                if len(objs) > 1:
                    dup = " [the name is carried by %s]" % ", ".join("%s (slot %d)" % (path_of(c, o), c.lay["slots"][o]) for o in objs)
            ctx.violations.append({"case": c.line[:400000], "expected": e[:4000], "actual": g[:4000], "model": (m or "")[:4000],
                                   "op_index": k + 1,
                                   "what": "%s on a valid container (ss=%d, stream sizes %s, layout %s, links %s, regime %s)%s%s: generator line %s" % (
                                       what, c.ss, [len(b) for _, b in c.streams], c.lay["mode"], c.linkmode, reg, dup, gen_note, gl[:3000])})

# ------------------------------------------------------------------ structured / boundary cases
def boundary_cases(rng, tier):
    cases = []
    k = 0
    for ss in (512, 4096):
        for sz in BOUNDARY_SIZES + [ss * 3 - 1, ss * 3, ss * 3 + 1]:
            for mode in ("sequential", "shuffled"):
                cases.append(make_case(rng, "b%d" % k, ss, sizes=[sz], nstor=0, mode=mode, tag="boundary_single"))
                k += 1
        # several streams around the cutoff in one container
        cases.append(make_case(rng, "b%d" % k, ss, sizes=[4095, 4096, 4097, 0, 1, 64, 65, 63], mode="shuffled", tag="boundary_mix")); k += 1
        cases.append(make_case(rng, "b%d" % k, ss, sizes=[], nstor=0, tag="no_streams")); k += 1
        cases.append(make_case(rng, "b%d" % k, ss, sizes=[0, 0], nstor=1, tag="only_empty")); k += 1
        cases.append(make_case(rng, "b%d" % k, ss, sizes=[5000], nstor=0, surplus=False, mode="sequential", tag="no_mini_stream")); k += 1
        # many directory entries: several directory sectors
        cases.append(make_case(rng, "b%d" % k, ss, sizes=[rng.choice([10, 70, 4100]) for _ in range(40)], mode="shuffled", tag="many_entries")); k += 1
        # DIFAT chain through surplus FAT sectors (small file, > 109 FAT sectors)
        for nf in ((110, 236, 237, 364) if ss == 512 else (110, 300)):
            if ss == 4096 and tier != "thorough" and nf > 110:
                continue
            cases.append(make_case(rng, "b%d" % k, ss, sizes=[4096, 100, 9000], mode=rng.choice(["shuffled", "sequential"]),
                                   force_nfat=nf, tag="difat_chain")); k += 1
    # names that begin like a byte-order mark (class bom_name until Directory::from_slice was fixed)
    for nm in ("\ufeffWorkbook", "\ufffeab", "\ubbef\u00bfx"):
        cases.append(make_case(rng, "b%d" % k, 512, sizes=[100], nstor=0, names=[nm], tag="bom_name")); k += 1
    return cases

# ------------------------------------------------------------------ family A: dual-format files (Workbook + Book)
def distinct_bytes(rng, size, taken, nonempty=False):
    """content of about `size` bytes that differs from every content in `taken` (and is added to it)"""
    if nonempty:
        size = max(size, 1)
    for t in range(50):
        b = gen_bytes(rng, size) if t < 3 else rng.randbytes(size)
        if b not in taken:
            taken.add(b)
            return b
        if t >= 5:
            size += 1
    raise RuntimeError("content generation")

def dual_case(rng, cid, ss, book_only=False):
    """the root storage holds Workbook AND Book (different contents), as 'Excel 97-2003 & 5.0/95' files do,
    or Book alone; 0..3 other streams, 0..2 storages; every name is unique over the file"""
    c = Case()
    c.cid, c.ss, c.tag = cid, ss, "dual_format"
    taken = set()
    c.storages = rng.sample(STORAGE_POOL, rng.randrange(0, 3))
    used = set(ukey(n) for n in c.storages) | {ukey("Workbook"), ukey("Book")}
    items = [] if book_only else [("Workbook", distinct_bytes(rng, gen_size(rng, ss), taken), 0)]
    items.append(("Book", distinct_bytes(rng, gen_size(rng, ss), taken), 0))
    for _ in range(rng.randrange(0, 4)):
        items.append((gen_name(rng, used), gen_bytes(rng, gen_size(rng, ss)),
                      rng.randrange(0, len(c.storages) + 1) if rng.random() < 0.6 else 0))
    rng.shuffle(items)                       # (sequential layouts give slots in this order)
    c.streams = [(n, b) for n, b, _ in items]
    c.parents = gen_parents(rng, len(c.storages), 0) + [p for _, _, p in items]
    return finish_case(rng, c, random_slots=0.5, linkmode=rng.choice(["legal", "legal", "chain", "none"]))

def dual_cases(rng, n):
    return [dual_case(rng, "da%d" % k, rng.choice([512, 512, 4096]), book_only=(k % 5 == 4)) for k in range(n)]

# ------------------------------------------------------------------ family B: one name in several storages
def dup_case(rng, cid, ss):
    """duplicate names in DIFFERENT storages (legal: MS-CFB names are unique per storage), at different depths
    and at the same depth.  All contents are different and non-empty, so an answer tells which entry was read."""
    c = Case()
    c.cid, c.ss, c.tag = cid, ss, "dup_names"
    taken = set()
    content = lambda: distinct_bytes(rng, gen_size(rng, ss), taken, nonempty=True)
    shape = rng.choice(["wb_mbd", "wb_mbd", "book_mbd", "vba2", "vba2", "vba_same_depth", "mbd_same_depth", "wb_storage"])
    c.shape = shape
    if shape == "wb_mbd":
        # an embedded workbook object: MBD0001/Workbook next to the root's Workbook
        two = rng.random() < 0.4
        c.storages = ["MBD0001"] + (["MBD0002"] if two else [])
        sparents = [0] * len(c.storages)
        items = [("Workbook", content(), 0), ("Workbook", content(), 1)]
        if two:
            items.append(("Workbook", content(), 2))
        if rng.random() < 0.3:
            items.append(("\x01CompObj", content(), 1))
            items.append(("\x01CompObj", content(), 0))
    elif shape == "book_mbd":
        # a BIFF5 file (root Book only) with an embedded BIFF8 workbook
        c.storages, sparents = ["MBD0001"], [0]
        items = [("Book", content(), 0), ("Workbook", content(), 1)]
    elif shape == "vba2":
        # the VBA project of the file and the VBA project of an embedded workbook: the same storage and
        # stream names below different parents, at different depths
        c.storages = ["_VBA_PROJECT_CUR", "VBA", "MBD0001", "_VBA_PROJECT_CUR", "VBA"]
        sparents = [0, 1, 0, 3, 4]
        items = []
        for nm in ("dir", "ThisWorkbook", "Module1"):
            items.append((nm, content(), 2))
            items.append((nm, content(), 5))
        if rng.random() < 0.5:
            items.append(("PROJECT", content(), 1))
            items.append(("PROJECT", content(), 4))
        if rng.random() < 0.5:
            items.append(("Workbook", content(), 0))
            items.append(("Workbook", content(), 3))
    elif shape == "vba_same_depth":
        # an embedded Word document with macros: MBD0001/Macros... one level up, so that dir and the module
        # streams of the two projects sit at the SAME depth: _VBA_PROJECT_CUR/VBA/dir and Macros/VBA/dir
        c.storages = ["_VBA_PROJECT_CUR", "VBA", "Macros", "VBA"]
        sparents = [0, 1, 0, 3]
        items = []
        for nm in ("dir", "Module1", "ThisDocument" if rng.random() < 0.5 else "ThisWorkbook"):
            items.append((nm, content(), 2))
            items.append((nm, content(), 4))
        items.append(("Workbook", content(), 0))
    elif shape == "mbd_same_depth":
        # several embedded objects holding the same names at the same depth
        k = rng.randrange(2, 5)
        c.storages = ["MBD%04d" % (j + 1) for j in range(k)]
        sparents = [0] * k
        items = [("Workbook", content(), 0)] if rng.random() < 0.7 else [("Book", content(), 0)]
        for j in range(k):
            items.append(("Workbook", content(), j + 1))
            if rng.random() < 0.5:
                items.append(("\x01Ole", content(), j + 1))
    else:
        # (outside the domain of the Xls::new statements) a root STORAGE named Workbook next to the root's Book stream,
        # holding a stream Workbook itself
        c.storages, sparents = ["Workbook"], [0]
        items = [("Book", content(), 0), ("Workbook", content(), 1)]
    used = set(ukey(n) for n in c.storages) | set(ukey(n) for n, _, _ in items)
    for _ in range(rng.randrange(0, 3)):
        items.append((gen_name(rng, used), content(), rng.randrange(0, len(c.storages) + 1)))
    rng.shuffle(items)
    c.streams = [(n, b) for n, b, _ in items]
    c.parents = sparents + [p for _, _, p in items]
    return finish_case(rng, c, random_slots=0.7, linkmode=rng.choice(["legal", "legal", "legal", "chain", "chain", "none"]))

def dup_cases(rng, n):
    return [dup_case(rng, "dn%d" % k, rng.choice([512, 512, 4096])) for k in range(n)]

# ------------------------------------------------------------------ family C: Xls::new on such containers
def e2e_workbook(rng, salt):
    """a BIFF8 workbook stream: one sheet Sheet1 with a few number cells whose values depend on salt"""
    cells = [{"k": "number", "r": r, "c": cc, "v": float(1000 * salt + 10 * r + cc) + 0.5}
             for r in range(rng.randrange(1, 4)) for cc in range(rng.randrange(1, 4))]
    cells.append({"k": "number", "r": 5, "c": 0, "v": float(salt)})
    pad = rng.choice([None, None, 2000, 4095, 4096, 4097, 5000, 9000])
    b, _ = xlsgen.workbook_stream({"sheets": [{"name": "Sheet1", "cells": cells}]}, opts={"pad_to": pad} if pad else None)
    return b

E2E_CALLS = "sheets;wsall"
E2E_SHAPES = [("a", "book_first"), ("a", "workbook_first"), ("b", None), ("c", "mbd_first"), ("c", "root_first"),
              ("d", None), ("e", "mbd_first"), ("e", "root_first")]

def e2e_case(rng, cid, ss, shape, order, sa, sb):
    """(storages, streams with parents) of one end-to-end container; c.expect = "A" / "B": the workbook Excel shows"""
    c = Case()
    c.cid, c.ss, c.tag, c.shape, c.order = cid, ss, "xls_e2e", shape, order
    used = {ukey(n) for n in ("Workbook", "Book", "MBD0001")}
    c.storages, sparents = ([] if shape in ("a", "b") else ["MBD0001"]), ([] if shape in ("a", "b") else [0])
    if shape == "a":
        items = [("Workbook", sa, 0), ("Book", sb, 0)]
        for _ in range(rng.randrange(0, 3)):
            items.append((gen_name(rng, used), gen_bytes(rng, gen_size(rng, ss)), 0))
    elif shape == "b":
        items = [("Book", sb, 0)]
    elif shape == "c":
        items = [("Workbook", sa, 0), ("Workbook", sb, 1)]
    elif shape == "d":
        items = [("Book", sa, 0), ("Workbook", sb, 1)]
    else:
        items = [("Workbook", sa, 0), ("Workbook", sb, 1), ("Book", sb, 0)]
    c.expect = "B" if shape == "b" else "A"
    rng.shuffle(items)
    c.streams = [(n, b) for n, b, _ in items]
    c.parents = sparents + [p for _, _, p in items]
    if rng.random() < 0.4:
        recase_case(rng, c, p=0.7)               # WORKBOOK / BOOK / workbook ... through the public API
    c.lay = gen_layout(rng, ss, c.storages, c.streams)
    nst = len(c.storages)
    n = nst + len(c.streams)
    if rng.random() < 0.7:
        c.lay["slots"] = rng.sample(range(1, nslots_of(c)), n)
    # force the order of the two directory entries the case is about
    idx = lambda nm, par: [nst + k for k, (x, _) in enumerate(c.streams) if same_name(x, nm) and c.parents[nst + k] == par][0]
    pair = None
    if shape == "a":
        pair = (idx("Book", 0), idx("Workbook", 0)) if order == "book_first" else (idx("Workbook", 0), idx("Book", 0))
    elif shape in ("c", "e"):
        pair = (idx("Workbook", 1), idx("Workbook", 0)) if order == "mbd_first" else (idx("Workbook", 0), idx("Workbook", 1))
    if pair:
        sl = c.lay["slots"]
        if sl[pair[0]] > sl[pair[1]]:
            sl[pair[0]], sl[pair[1]] = sl[pair[1]], sl[pair[0]]
    c.linkmode = rng.choice(["legal", "legal", "legal", "chain", "chain", "none"])
    c.links = gen_links(rng, c.storages, c.streams, c.parents, c.lay["slots"], c.linkmode)
    return c

def e2e_describe(c):
    nst = len(c.storages)
    objs = []
    for k, n in enumerate(all_names(c)):
        if k < nst:
            objs.append("storage %s (slot %d)" % (path_of(c, k), c.lay["slots"][k]))
        else:
            b = c.streams[k - nst][1]
            objs.append("%s (slot %d, %d bytes%s)" % (path_of(c, k), c.lay["slots"][k], len(b),
                                                      ", workbook A" if b is c.sa else ", workbook B" if b is c.sb else ""))
    return "%s; sector size %d, layout %s, links %s" % (", ".join(objs), c.ss, c.lay["mode"], c.linkmode)

def run_e2e(ctx, npairs):
    """Xls::new + sheet_names + worksheet_range of every sheet on containers holding two different workbooks
    A and B under the names Workbook / Book, in the root storage / in MBD0001.  Reference outputs: the same
    calls on the single-stream containers {Workbook: A} and {Workbook: B}."""
    rng = ctx.rng
    d = vlib.tmpdir(ctx)
    cases, refs = [], []
    for p in range(npairs):
        sa, sb = e2e_workbook(rng, 2 * p + 1), e2e_workbook(rng, 2 * p + 2)
        pr = []
        for which, b in (("A", sa), ("B", sb)):
            r = Case()
            r.cid, r.ss, r.tag = "er%d%s" % (p, which), 512, "xls_e2e_ref"
            r.storages, r.streams, r.parents = [], [("Workbook", b)], [0]
            finish_case(rng, r, mode="sequential", surplus=False, linkmode="legal")
            pr.append(r)
        refs.append(pr)
        for k, (shape, order) in enumerate(E2E_SHAPES):
            c = e2e_case(rng, "e%d_%d" % (p, k), rng.choice([512, 4096]), shape, order, sa, sb)
            c.pair, c.sa, c.sb = p, sa, sb
            cases.append(c)
    everything = [r for pr in refs for r in pr] + cases
    enc = ctx.run_model([wl(c) for c in everything])
    olines, mlines = [], []
    for c in everything:
        f = parse_written(enc.get(c.cid, ""))
        c.path = None
        if f is None:
            ctx.disagreements.append({"function": "cfb_write", "case": wl(c)[:3000], "impl": "(n/a)", "model": enc.get(c.cid, "")[:200]})
            continue
        take_written(c, f)
        if not check_written(ctx, c, wl(c)):
            continue
        c.path = os.path.join(d, c.cid + ".xls")
        open(c.path, "wb").write(bytes.fromhex(f["file"]))
        c.oline = "%s\topen\txls\t%s\t%s" % (c.cid, c.path, E2E_CALLS)
        olines.append(c.oline)
        if c.tag == "xls_e2e":
            mlines.append("%s\tcfb\t%s\t%s\tw" % (c.cid, f["file"], c.fuel))
    impl = ctx.run_impl(olines)
    model = ctx.run_model(mlines)
    def drop(c):
        try:
            if c.path:
                os.remove(c.path)
        except OSError:
            pass
    ref_out = {}
    for p, (ra, rb) in enumerate(refs):
        oa, ob = impl.get(ra.cid) if ra.path else None, impl.get(rb.cid) if rb.path else None
        if not oa or not ob or oa == ob or oa.startswith("openerr") or ob.startswith("openerr") or "panic" in oa + ob:
            ctx.disagreements.append({"function": "xls_e2e reference", "case": getattr(ra, "oline", wl(ra)[:3000]),
                                      "impl": "A: %s | B: %s" % ((oa or "")[:500], (ob or "")[:500]),
                                      "model": "(two different workbooks in single-stream containers must open and print differently)"})
        else:
            ref_out[p] = {"A": oa, "B": ob}
        drop(ra); drop(rb)
    for c in cases:
        if not c.path:
            continue
        if c.pair not in ref_out:
            drop(c)
            continue
        ref = ref_out[c.pair]
        got = impl.get(c.cid) or ""
        w = (model.get(c.cid) or "").split(";")
        w = w[1] if len(w) == 2 and w[0] == "new=ok" else ";".join(w)
        gl = wl(c)
        ctx.traces += 1
        ctx.count("tag:xls_e2e")
        ctx.count("e2e:shape_%s%s" % (c.shape, ":" + c.order if c.order else ""))
        ctx.count("e2e:sector_size:%d" % c.ss)
        ctx.count("e2e:layout:" + c.lay["mode"])
        for n, b in c.streams:
            if b is c.sa or b is c.sb:
                ctx.count("e2e:workbook_stream:" + ("mini" if len(b) < 4096 else "regular"))
        ctx.nontrivial("e2e" + gl[:6000])
        # model tie: the bytes the model's parse_workbook reads decide which reference the code must print
        pred = ref["A"] if w == "ok:" + c.sa.hex() else ref["B"] if w == "ok:" + c.sb.hex() else None
        if pred is None:
            ctx.disagreements.append({"function": "workbook_or_book(xls_e2e)", "case": c.oline, "impl": got[:2000],
                                      "model": "w=%s: neither workbook A nor workbook B" % w[:300], "generator": gl[:20000]})
        elif got != pred:
            ctx.disagreements.append({"function": "Xls::new/parse_workbook vs workbook_or_book", "case": c.oline, "impl": got[:2000],
                                      "model": "reads workbook %s: %s" % ("A" if pred is ref["A"] else "B", pred[:2000]),
                                      "generator": gl[:20000]})
        ctx.count("e2e:links:" + c.linkmode)
        if regime(c) != "tree" and c.shape not in ("a", "b"):
            # no hierarchy written: the flat scan takes the first entry of the name; the model tie above is all
            ctx.count("e2e:flat_scan(tie only)")
            drop(c)
            continue
        want = ref[c.expect]
        if got == want:
            ctx.count("e2e:reads_root_workbook")
            if c.shape in ("c", "d", "e"):
                nst = len(c.storages)
                emb = [c.lay["slots"][nst + k] for k, (n, _) in enumerate(c.streams) if c.parents[nst + k] == 1]
                rootw = [c.lay["slots"][nst + k] for k, (n, _) in enumerate(c.streams) if c.parents[nst + k] == 0 and ukey(n) in ("WORKBOOK", "BOOK")]
                ctx.count("e2e:reads_root_workbook:embedded_workbook_in_%s_slot" % ("lower" if min(emb) < min(rootw) else "higher"))
            drop(c)
        else:
            # (the file stays: the replay opens it again)
            ctx.violations.append({"case": c.oline, "expected": want[:3000], "actual": got[:3000], "model": w[:200],
                                   "what": "Xls::new + worksheet_range on a container holding %s; expected the cells of workbook %s, the "
                                           "root storage's %s (actual = reference of workbook %s): generator line %s" % (
                                               e2e_describe(c), c.expect, "Book" if c.shape in ("b", "d") else "Workbook",
                                               "B" if got == ref["B"] else "A" if got == ref["A"] else "neither A nor B", gl[:3000])})

# ------------------------------------------------------------------ malformed inputs (model tie only)
def malformed_cases(rng, valid_cases, n):
    out = []
    pool = [c for c in valid_cases if getattr(c, "file", None) and len(c.file) < 60000]
    if not pool:
        return out
    for k in range(n):
        c = rng.choice(pool)
        b = bytearray(bytes.fromhex(c.file))
        kind = rng.choice(["flip_header", "flip_any", "truncate", "truncate_sector", "fat_cycle", "dword", "empty", "short",
                           "dir_link", "dir_link", "dir_link"])
        hs = 512 if c.ss == 512 else 4096
        if kind == "flip_header":
            for _ in range(rng.randrange(1, 3)):
                b[rng.randrange(0, 76 + 8)] = rng.randrange(256)
        elif kind == "flip_any":
            for _ in range(rng.randrange(1, 4)):
                b[rng.randrange(len(b))] = rng.randrange(256)
        elif kind == "truncate":
            b = b[:rng.randrange(0, len(b))]
        elif kind == "truncate_sector":
            b = b[:max(0, len(b) - rng.randrange(1, c.ss + 2))]
        elif kind == "fat_cycle":
            # make some chain link point back to an earlier sector of a chain
            f = c.lay["fat"][0]
            off = hs + f * c.ss
            ch = [x for x in (c.lay["dir"], c.lay["root"], c.lay["minifat"]) if x]
            tgt = rng.choice(rng.choice(ch))
            if tgt < c.ss // 4:
                b[off + 4 * tgt: off + 4 * tgt + 4] = struct.pack("<I", tgt if rng.random() < 0.5 else rng.choice(rng.choice(ch)))
        elif kind == "dword":
            p = rng.randrange(0, max(1, len(b) - 4)) & ~3
            b[p:p + 4] = struct.pack("<I", rng.choice([0, 1, EOC, FREE, 0xFFFFFFFC, 0xFFFFFFFD, 0xFFFFFFFA, 0x7FFFFFFF, rng.randrange(1 << 32), rng.randrange(64)]))
        elif kind == "dir_link":
            # sibling / child ids of directory entries overwritten: cycles, shared nodes, ids out of the array
            per = c.ss // 128
            nsl = len(c.lay["dir"]) * per
            used = [0] + list(c.lay["slots"])
            for _ in range(rng.randrange(1, 4)):
                e = rng.choice(used) if rng.random() < 0.8 else rng.randrange(nsl)
                off = hs + c.lay["dir"][e // per] * c.ss + (e % per) * 128 + rng.choice([68, 72, 76])
                v = rng.choice([rng.choice(used), rng.choice(used), e, 0, nsl, nsl + 3, FREE, EOC, rng.randrange(nsl), 0x80000000])
                if off + 4 <= len(b):
                    b[off:off + 4] = struct.pack("<I", v)
        elif kind == "empty":
            b = bytearray()
        elif kind == "short":
            b = b[:rng.choice([0, 7, 8, 76, 511, 512, 513, 4095, 4096])]
        ops = ops_for(rng, c, absent=False)
        out.append(("m%d" % k, kind, "m%d\tcfb\t%s\t%d\t%s" % (k, bytes(b).hex(), len(b) // 512 + 4, ops_text(ops))))
    return out

def run_malformed(ctx, cases):
    lines = [l for _, _, l in cases]
    impl, model = ctx.run_both(lines)
    for cid, kind, line in cases:
        i, m = impl.get(cid), model.get(cid)
        ctx.traces += 1
        ctx.count("malformed:" + kind)
        ctx.count("malformed_open:" + (i or "none").split(";")[0])
        if not same_outcome(i, m):
            # a request above the harness' allocation cap is environment-dependent: the model has no cap
            if i and "alloc" in i:
                ctx.count("malformed_alloc_cap_not_modelled")
                continue
            ctx.disagreements.append({"function": "Cfb::new/get_stream(malformed)", "case": line[:200000],
                                      "impl": (i or "")[:1000], "model": (m or "")[:1000]})

# ------------------------------------------------------------------ end to end on real fixtures
def py_cfb_read(data):
    """independent reader of a well-formed compound file: the objects below the root storage as
    [(name, type, bytes, parent)], storages first (each after the storage that holds it), then streams;
    parent: 0 = the root storage, j = the j-th storage of the list.  The hierarchy is read from the child /
    sibling ids; entries no storage links to are dropped."""
    if data[:8] != bytes.fromhex("D0CF11E0A1B11AE1"):
        raise ValueError("signature")
    shift = struct.unpack_from("<H", data, 30)[0]
    ss = 1 << shift
    sect = lambda i: data[(i + 1) * ss:(i + 2) * ss]
    nfat, dir_start = struct.unpack_from("<II", data, 44)
    minifat_start, nminifat, difat_start, ndifat = struct.unpack_from("<IIII", data, 60)
    difat = list(struct.unpack_from("<109I", data, 76))
    s = difat_start
    while s < 0xFFFFFFFA:
        e = struct.unpack("<%dI" % (ss // 4), sect(s))
        difat += e[:-1]
        s = e[-1]
    fat = []
    for f in difat:
        if f < 0xFFFFFFFA:
            fat += struct.unpack("<%dI" % (ss // 4), sect(f))
    def chain(start, table, getter):
        out, seen = [], set()
        while start != EOC:
            if start in seen or start >= len(table):
                raise ValueError("bad chain")
            seen.add(start)
            out.append(getter(start))
            start = table[start]
        return b"".join(out)
    d = chain(dir_start, fat, sect)
    ents = []
    for k in range(len(d) // 128):
        e = d[k * 128:(k + 1) * 128]
        nl = struct.unpack_from("<H", e, 64)[0]
        typ = e[66]
        name = e[:max(0, nl - 2)].decode("utf-16le")
        left, right, child = struct.unpack_from("<III", e, 68)
        start = struct.unpack_from("<I", e, 116)[0]
        size = struct.unpack_from("<Q", e, 120)[0] if ss == 4096 else struct.unpack_from("<I", e, 120)[0]
        ents.append((name, typ, start, size, left, right, child))
    root = ents[0]
    # (issue444.xls: no mini stream, root start = FREESECT; calamine only follows the root chain
    #  when the header declares mini-FAT sectors)
    mini = chain(root[2], fat, sect)[:root[3]] if (nminifat and root[2] < 0xFFFFFFFA) else b""
    minifat = []
    if nminifat:
        mf = chain(minifat_start, fat, sect)
        minifat = list(struct.unpack("<%dI" % (len(mf) // 4), mf))
    def content(i):
        name, typ, start, size = ents[i][:4]
        if size < 4096:
            return chain(start, minifat, lambda i: mini[i * 64:(i + 1) * 64])[:size] if size else b""
        return chain(start, fat, sect)[:size]
    def kids(i):
        out, todo, seen = [], [ents[i][6]], set()
        while todo:
            j = todo.pop()
            if j >= len(ents) or j in seen or j == 0:
                continue
            seen.add(j)
            out.append(j)
            todo += [ents[j][4], ents[j][5]]
        return sorted(out)
    storages, streams = [], []          # (entry id, parent number)
    todo = [(0, 0)]
    while todo:
        i, num = todo.pop(0)
        for j in kids(i):
            if ents[j][1] == 1:
                storages.append((j, num))
                todo.append((j, len(storages)))
            elif ents[j][1] == 2:
                streams.append((j, num))
    return ([(ents[j][0], 1, b"", p) for j, p in storages] +
            [(ents[j][0], 2, content(j), p) for j, p in streams])

def container_of(ents):
    storages = [n for n, t, _, _ in ents if t == 1]
    streams = [(n, b) for n, t, b, _ in ents if t == 2]
    parents = [p for _, t, _, p in ents if t == 1] + [p for _, t, _, p in ents if t == 2]
    return storages, streams, parents

def embed(a, b, name):
    """the objects of a, plus a storage `name` in the root holding the whole tree of b"""
    sa, ma, pa = container_of(a)
    sb, mb, pb = container_of(b)
    na, nb = len(sa), len(sb)
    storages = sa + [name] + sb
    emb = na + 1                                        # number of the new storage
    shift = lambda p: emb if p == 0 else p + emb
    parents = pa[:na] + [0] + [shift(p) for p in pb[:nb]] + pa[na:] + [shift(p) for p in pb[nb:]]
    return storages, ma + mb, parents, (na, len(ma))

def run_fixtures(ctx, per_file):
    rng = ctx.rng
    d = vlib.tmpdir(ctx)
    files = [p for e, p in vlib.fixtures({"xls", "xla"}) if os.path.getsize(p) > 0]
    jobs, wlines = [], []
    parsed = {}
    for p in files:
        data = open(p, "rb").read()
        try:
            ents = py_cfb_read(data)
        except Exception as ex:
            ctx.notes.append("fixture %s not parsed by the Python reader: %r" % (os.path.basename(p), ex))
            continue
        parsed[p] = ents
        storages, streams, parents = container_of(ents)
        for k in range(per_file):
            c = Case()
            c.cid = "f%d_%d" % (len(jobs), k)
            c.ss = rng.choice([512, 4096])
            c.storages, c.streams, c.parents, c.src, c.kind = storages, streams, parents, p, "relayout"
            c.lay = gen_layout(rng, c.ss, storages, streams)
            c.linkmode = rng.choice(["legal", "legal", "chain"])
            c.links = gen_links(rng, storages, streams, c.parents, c.lay["slots"], c.linkmode)
            jobs.append(c)
            wlines.append(wl(c))
    # another workbook's whole tree as an embedded object next to the fixture's own: the fixture's workbook and
    # VBA project must still be the ones read, wherever the embedded entries sit in the directory array
    vba = [p for p in parsed if any(n == "_VBA_PROJECT_CUR" for n, _, _, _ in parsed[p])]
    small = [p for p in parsed if os.path.getsize(p) < 200000]
    pairs = [(a, b) for a in vba for b in vba if a != b]
    for _ in range(per_file * 3):
        if len(small) >= 2:
            pairs.append(tuple(rng.sample(small, 2)))
        if vba and small:
            pairs.append((rng.choice(small), rng.choice(vba)))
    for a, b in pairs:
        for order in ("embedded_first", "any"):
            c = Case()
            c.cid = "fe%d" % len(jobs)
            c.ss = rng.choice([512, 4096])
            c.storages, c.streams, c.parents, (na, nma) = embed(parsed[a], parsed[b], rng.choice(["MBD0001", "MBD00A7F3C2"]))
            c.src, c.kind, c.emb = a, "embedded:" + order, b
            c.lay = gen_layout(rng, c.ss, c.storages, c.streams)
            if order == "embedded_first":
                # the embedded tree takes the lowest directory slots
                n_st, n_all = len(c.storages), len(c.storages) + len(c.streams)
                own = list(range(na)) + list(range(n_st, n_st + nma))
                other = [k for k in range(n_all) if k not in own]
                sl = sorted(c.lay["slots"])
                for k, x in zip(other + own, sl):
                    c.lay["slots"][k] = x
            c.linkmode = rng.choice(["legal", "legal", "chain"])
            c.links = gen_links(rng, c.storages, c.streams, c.parents, c.lay["slots"], c.linkmode)
            jobs.append(c)
            wlines.append(wl(c))
    enc = ctx.run_model(wlines)
    lines, meta = [], {}
    calls = "sheets;wsall;vba"
    for p in files:
        lines.append("orig:%s\topen\txls\t%s\t%s" % (os.path.basename(p), p, calls))
    for c in jobs:
        f = parse_written(enc.get(c.cid, ""))
        if f is None or not f["valid"] or not f["linked"]:
            ctx.disagreements.append({"function": "cfb_write(fixture)", "case": wlines[jobs.index(c)][:3000], "impl": "(n/a)",
                                      "model": "|".join(enc.get(c.cid, "").split("|")[1:])[:200]})
            continue
        ctx.count("fixture_tree_legal:%d" % f["legal"])
        path = os.path.join(d, c.cid + ".xls")
        open(path, "wb").write(bytes.fromhex(f["file"]))
        c.path = path
        lines.append("%s\topen\txls\t%s\t%s" % (c.cid, path, calls))
        meta[c.cid] = c
    impl = ctx.run_impl(lines)
    # an oracle that does not go through calamine: a fixture whose _VBA_PROJECT_CUR/VBA storage holds n module
    # streams (every stream but dir, _VBA_PROJECT, PROJECT*, __SRP_*) must open, and vba_project() must list n
    # modules whose source begins with "Attribute VB_" (the re-laid-out files are compared with this output)
    for p in vba:
        ents = parsed[p]
        stor = [n for n, t, _, _ in ents if t == 1]
        par = {j + 1: q for j, (n, t, _, q) in enumerate([e for e in ents if e[1] == 1])}
        cur = [j + 1 for j, n in enumerate(stor) if n == "_VBA_PROJECT_CUR" and par[j + 1] == 0]
        vst = [j + 1 for j, n in enumerate(stor) if n == "VBA" and cur and par[j + 1] == cur[0]]
        if not vst:
            continue
        mods = [n for n, t, _, q in ents if t == 2 and q == vst[0] and n not in ("dir", "_VBA_PROJECT")
                and not n.startswith("__SRP_") and not n.startswith("PROJECT")]
        out = impl.get("orig:" + os.path.basename(p)) or ""
        ctx.traces += 1
        ctx.count("fixture_vba_oracle:%d_modules" % len(mods))
        listed = out.split("M[", 1)[1].split("]", 1)[0].split(",") if "M[" in out else []
        texts = [x.split(":", 1)[1] if ":" in x else "" for x in listed if x]
        good = len(texts) == len(mods) and all(t.startswith("Attribute VB_".encode().hex()) for t in texts)
        if not good:
            ctx.violations.append({"case": "orig:%s\topen\txls\t%s\t%s" % (os.path.basename(p), p, calls),
                                   "expected": "vba_project() listing %d modules (streams %s of _VBA_PROJECT_CUR/VBA), each source "
                                               "beginning with 'Attribute VB_'" % (len(mods), ", ".join(mods)),
                                   "actual": out[:600], "model": "(an independent reading of the compound file)",
                                   "what": "Xls::new + vba_project() on the fixture %s, which holds a VBA project in _VBA_PROJECT_CUR/VBA" % os.path.basename(p)})
    for cid, c in meta.items():
        want = impl.get("orig:" + os.path.basename(c.src))
        got = impl.get(cid)
        ctx.traces += 1
        ctx.count("fixture_%s:ss%d" % (c.kind, c.ss))
        ctx.count("fixture_outcome:" + ("openerr" if (want or "").startswith("openerr") else "ok"))
        if c.kind != "relayout" and "vba=" in (want or "") and "vba=none" not in (want or ""):
            ctx.count("fixture_embedded:own_vba_project_read")
        ctx.nontrivial("fixture" + c.src + c.kind + getattr(c, "emb", "") + lay_text(c.lay))
        if got != want:
            what = ("Xls::new + worksheet_range/vba_project of %s re-emitted with sector size %d, layout %s, links %s" % (
                        os.path.basename(c.src), c.ss, c.lay["mode"], c.linkmode))
            if c.kind != "relayout":
                what += ", with the whole tree of %s embedded as a storage next to it (%s)" % (os.path.basename(c.emb), c.kind)
            ctx.violations.append({"case": "%s\topen\txls\t%s\t%s" % (cid, c.path, calls), "expected": (want or "")[:3000],
                                   "actual": (got or "")[:3000], "model": "(the model is not involved: the same streams re-laid out by cfb_write)",
                                   "what": what + " differs from the original; generator line %s" % wl(c)[:2000]})
        else:
            try:
                os.remove(c.path)
            except OSError:
                pass

# ------------------------------------------------------------------ big files (real DIFAT chain)
def big_cases(ctx):
    rng = ctx.rng
    cases = []
    # > 109 FAT sectors needed for real: one stream of ~7.2 MB in a 512-byte-sector file
    c = make_case(rng, "big0", 512, sizes=[110 * 128 * 512 + 777, 4095, 100], nstor=0, mode="shuffled", surplus=False, tag="big_difat_real")
    c.no_model_read = True    # reading 7 MB back through the list-based model takes > 6 min
    cases.append(c)
    return cases

# ------------------------------------------------------------------ corpus: the witnesses of CFB-1
def run_name_case_witnesses(ctx):
    """audit 2, CFB-1 (notes/audit2/repro/cfb_name_case.py): one workbook whose stream the writer called Workbook,
    WORKBOOK, workbook, Book, BOOK, book — Apache POI reads all of them; before the fix only the first and the
    fourth opened.  Every file must show the sheet the first one shows (public API)."""
    wb = {"sheets": [{"name": "S1", "cells": [{"k": "number", "r": 0, "c": 0, "v": 1.0}, {"k": "number", "r": 1, "c": 2, "v": 2.5}]}]}
    d = vlib.tmpdir(ctx)
    names = ["Workbook", "WORKBOOK", "workbook", "WorkBook", "Book", "BOOK", "book"]
    lines, paths = [], []
    for k, nm in enumerate(names):
        path = os.path.join(d, "cfb_name_%d.xls" % k)
        with open(path, "wb") as fh:
            fh.write(xlsgen.write_xls(wb, {"stream_name": nm}))
        paths.append(path)
        lines.append("nc%d\topen\txls\t%s\tsheets;range %s" % (k, path, hx("S1")))
    impl = ctx.run_impl(lines)
    ctx.evaluations += len(lines)
    want = impl.get("nc0")
    for k, nm in enumerate(names):
        got = impl.get("nc%d" % k)
        ctx.traces += 1
        ctx.count("witness:stream_name_" + nm)
        if want is None or want.startswith("openerr") or got != want:
            ctx.violations.append({"case": lines[k], "expected": want, "actual": got, "model": None,
                                   "what": "xls whose workbook stream is stored as %r: expected what the file with "
                                           "'Workbook' shows (%s), got %s" % (nm, want, got)})
            return
        os.remove(paths[k])

# ------------------------------------------------------------------ entry points
def run(ctx):
    rng = ctx.rng
    cases = boundary_cases(rng, ctx.tier)
    n = ctx.scale(500, 4000)
    for k in range(n):
        cases.append(make_case(rng, "r%d" % k, rng.choice([512, 512, 4096])))
    # names that are unique per storage only: dual-format files, embedded workbooks, two VBA projects
    cases += dual_cases(rng, ctx.scale(60, 600))
    cases += dup_cases(rng, ctx.scale(80, 800))
    # links that are no tree over the hierarchy (cycles, shared nodes, dangling ids, the root as a child): model tie
    for k in range(ctx.scale(120, 1200)):
        c = make_case(rng, "k%d" % k, rng.choice([512, 512, 4096]), nstor=rng.choice([0, 1, 2, 3]),
                      sizes=[gen_size(rng, 512) % 5000 for _ in range(rng.randrange(1, 6))], linkmode=rng.choice(["legal", "chain", "none"]))
        damage_links(rng, c)
        cases.append(c)
    # storages with many entries: a list-shaped sibling tree (every node black is legal, MS-CFB 2.6.4) and a
    # balanced one over 70 .. 200 small streams — a walk that bounds its depth or its stack must still reach
    # every entry
    for k in range(ctx.scale(4, 24)):
        m = rng.choice([70, 96, 130, 200])
        cases.append(make_case(rng, "w%d" % k, rng.choice([512, 4096]), nstor=rng.choice([0, 1]),
                               sizes=[rng.choice([0, 1, 7, 64, 65]) for _ in range(m)], linkmode=["chain", "legal"][k % 2],
                               dups=False, tag="wide"))
    # one file whose FAT really needs more than 109 sectors (7.2 MB, 512-byte sectors): the FAT
    # sectors listed in the DIFAT sector describe the end of the file
    cases = big_cases(ctx) + cases
    run_name_case_witnesses(ctx)
    run_cases(ctx, cases, rng)
    run_malformed(ctx, malformed_cases(rng, cases, ctx.scale(300, 4000)))
    run_e2e(ctx, ctx.scale(5, 38))
    run_fixtures(ctx, ctx.scale(2, 12))
    drop_tmpdir(ctx)

def drop_tmpdir(ctx):
    """the scratch directory goes when nothing was kept in it (files of violations stay for the replay)"""
    try:
        os.rmdir(vlib.tmpdir(ctx))
    except OSError:
        pass

def search(ctx):
    rng = ctx.rng
    cases = [make_case(rng, "x%d" % k, rng.choice([512, 4096])) for k in range(ctx.scale(600, 4000))]
    cases += [dual_case(rng, "xa%d" % k, rng.choice([512, 4096]), book_only=(k % 5 == 4)) for k in range(ctx.scale(100, 600))]
    cases += [dup_case(rng, "xn%d" % k, rng.choice([512, 4096])) for k in range(ctx.scale(100, 600))]
    run_cases(ctx, cases, rng)
    if not ctx.violations:
        run_e2e(ctx, ctx.scale(10, 40))
    drop_tmpdir(ctx)

def replay(ctx, rep):
    line = rep.get("case") or ""
    if not line:
        print("replay: no case in the file"); return 2
    import re
    mt = re.search(r"\[generator file ([^\]]+)\]", rep.get("what") or "")
    if mt and os.path.exists(mt.group(1)):
        gl, ops = open(mt.group(1)).read().split("\n")[:2]
        cid = gl.split("\t", 1)[0]
        f = ctx.run_model([gl]).get(cid, "").split("|")
        if len(f) >= 4:
            line = "%s\tcfb\t%s\t%s\t%s" % (cid, f[0], f[3], ops)
    impl = ctx.run_impl([line])
    cid = line.split("\t", 1)[0]
    got = impl.get(cid)
    print("expected: %s" % (rep.get("expected") or rep.get("model") or "")[:500])
    print("actual  : %s" % (got or "")[:500])
    if rep.get("kind") == "correspondence":
        m = ctx.run_model([line]).get(cid)
        print("model   : %s" % (m or "")[:500])
        return 0 if same_outcome(got, m) else 1
    exp = rep.get("expected")
    if exp is None:
        return 2
    if "\topen\t" in line:
        return 0 if got == exp else 1
    fields = [f[:4000] for f in (got or "").split(";")]       # (expected / actual are kept up to 4000 characters)
    return 0 if exp in fields and (rep.get("actual") not in fields) else 1
