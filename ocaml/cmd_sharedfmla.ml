(* C15: the model side of the shared-formula correspondence; same sub-commands and canonical
   answers as harness/src/cmds/sharedfmla.rs.
     rcn  <hex text> <dr> <dc> <alnum>                -> ok:<hex> | err | panic
     tok  <tokens> <dr> <dc> <hex render> <alnum>     -> <model>|<spec hex>|<clip hex>|<inrange>|<wf>|<render agrees>
     c2n / cn2n / grc / gdim                          -> as on the Rust side
     sheet <cells> <path> <hex name> <alnum>          -> canonical Range<String> text of worksheet_formula
   <alnum> = ','-separated decimal scalar values: the non-ASCII characters for which Rust's
   char::is_alphanumeric is true (obtained by the Python driver from `vh sharedfmla alnum`).
   The oracle [is_alnum] of the Coq model is instantiated with: the ASCII definition below 128
   (SharedFmla.ascii_alnum), membership in that list above.
   token syntax (',' separated):  R<ca><ra>:<col>:<row>  C<a1><a2>:<c1>:<c2>  W<a1><a2>:<r1>:<r2>
                                  S<q>:<hex>  T:<hex>:<hex>  F:<hex>  N:<hex>
                                  M:<hex ip>:<hex fp|->:<-|+hex|~hex|=hex>  Q:<hex>  B:<hex>
                                  Y:<code>  E:<k>
   cell syntax (';' separated):   <row>:<col>:<kind>, kind = - | P.<hex> | M.<si>.<hexref>.<hex> |
                                  m.<si>.<hex> | B *)
open Conv
open Prelude
open SharedFmla

let oracle (s : string) : BinNums.coq_N -> bool =
  let tbl = Hashtbl.create 64 in
  List.iter (fun x -> if x <> "" then Hashtbl.replace tbl (int_of_string x) ()) (String.split_on_char ',' s);
  fun c ->
    let i = int_of_n c in
    if i < 128 then ascii_alnum c else Hashtbl.mem tbl i

let bytes_answer (o : BinNums.coq_N list outcome) : string =
  match o with
  | Ok b -> "ok:" ^ hex_of_bytes b
  | Err _ -> "err"
  | Panic -> "panic"
  | OutOfFuel -> "fuel"
let text_answer (o : BinNums.coq_N list outcome) : string =
  match o with
  | Ok b -> "ok:" ^ hex_of_scalars b
  | Err _ -> "err"
  | Panic -> "panic"
  | OutOfFuel -> "fuel"

let b01 c = (c = '1')
let parse_token (s : string) : token =
  let f = Array.of_list (String.split_on_char ':' s) in
  let k = f.(0) in
  match k.[0] with
  | 'R' -> TRef (b01 k.[1], n_of_string f.(1), b01 k.[2], n_of_string f.(2))
  | 'C' -> TColRange (b01 k.[1], n_of_string f.(1), b01 k.[2], n_of_string f.(2))
  | 'W' -> TRowRange (b01 k.[1], n_of_string f.(1), b01 k.[2], n_of_string f.(2))
  | 'S' -> TSheet (b01 k.[1], scalars_of_hex f.(1))
  | 'T' -> TSheetRange (scalars_of_hex f.(1), scalars_of_hex f.(2))
  | 'F' -> TFunc (scalars_of_hex f.(1))
  | 'N' -> TName (scalars_of_hex f.(1))
  | 'M' ->
    let fp = if f.(2) = "-" then None else Some (scalars_of_hex f.(2)) in
    let ex =
      if f.(3) = "-" then None
      else
        let sg = match f.(3).[0] with '~' -> Some true | '+' -> Some false | _ -> None in
        Some (sg, scalars_of_hex (String.sub f.(3) 1 (String.length f.(3) - 1))) in
    TNum (scalars_of_hex f.(1), fp, ex)
  | 'Q' -> TStr (scalars_of_hex f.(1))
  | 'B' -> TBrack (scalars_of_hex f.(1))
  | 'Y' -> TSym (n_of_string f.(1))
  | 'E' -> TErr (n_of_string f.(1))
  | _ -> failwith "bad token"

let parse_tokens (s : string) : token list = List.map parse_token (split_on ',' s)

let tok (args : string list) : string =
  match args with
  | ts :: dr :: dc :: hexr :: al :: _ ->
    let is_alnum = oracle al in
    let ts = parse_tokens ts in
    let off = (z_of_string dr, z_of_string dc) in
    let text = render_all ts in
    let model = text_answer (replace_cell_names is_alnum text off) in
    let spec = hex_of_scalars (render_all (List.map (translate off) ts)) in
    let clip = hex_of_scalars (render_all (List.map (translate_clip off) ts)) in
    String.concat "|" [ model; spec; clip;
                        (if in_rangeb ts off then "1" else "0");
                        (if wf_formula is_alnum ts then "1" else "0");
                        (if hex_of_scalars text = String.lowercase_ascii hexr then "1" else "0") ]
  | _ -> "badargs"

let pair_answer o =
  match o with
  | Ok (r, c) -> Printf.sprintf "ok:%s,%s" (string_of_n r) (string_of_n c)
  | Err _ -> "err" | Panic -> "panic" | OutOfFuel -> "fuel"

let parse_cell (s : string) : fcell =
  match String.split_on_char ':' s with
  | [r; c; k] ->
    let kind =
      match String.split_on_char '.' k with
      | ["-"] -> FNone
      | ["B"] -> FSharedBad
      | ["P"; h] -> FPlain (scalars_of_hex h)
      | ["M"; si; href; h] -> FMaster (n_of_string si, bytes_of_hex href, scalars_of_hex h)
      | ["m"; si; h] -> FMember (n_of_string si, scalars_of_hex h)
      | _ -> failwith "bad kind" in
    ((n_of_string r, n_of_string c), kind)
  | _ -> failwith "bad cell"

let sheet (args : string list) : string =
  match args with
  | cs :: _path :: _name :: al :: _ ->
    let is_alnum = oracle al in
    let cells = List.map parse_cell (split_on ';' cs) in
    (match sheet_formulas is_alnum cells with
     | Err _ -> "err:other"
     | Panic -> "panic"
     | OutOfFuel -> "fuel"
     | Ok vs ->
       let cells = List.map (fun (p, v) -> (p, hex_of_scalars v)) vs in
       (match Range.from_sparse "" cells with
        | Panic -> "panic" | Err _ -> "err:other" | OutOfFuel -> "fuel"
        | Ok r ->
          (match Range.start r, Range.end_ r with
           | Some s, Some e ->
             let rows = List.map (fun row -> String.concat "," row) (Range.rows r) in
             Printf.sprintf "R[%s,%s,%s,%s|%s]" (string_of_n (fst s)) (string_of_n (snd s))
               (string_of_n (fst e)) (string_of_n (snd e)) (String.concat "/" rows)
           | _ -> "R[-]")))
  | _ -> "badargs"

let run (args : string list) : string =
  match args with
  | "rcn" :: h :: dr :: dc :: al :: _ ->
    text_answer (replace_cell_names (oracle al) (scalars_of_hex h) (z_of_string dr, z_of_string dc))
  | "tok" :: rest -> tok rest
  | "c2n" :: r :: c :: _ -> bytes_answer (Col26.coordinate_to_name (n_of_string r, n_of_string c))
  | "cn2n" :: n :: _ -> bytes_answer (Col26.column_number_to_name (n_of_string n))
  (* the A1 scanner and get_dimension: Col26.v (resynced to the hardened code) *)
  | "grc" :: h :: _ -> pair_answer (Col26.get_row_column (bytes_of_hex h))
  | "gdim" :: h :: _ ->
    (match Col26.get_dimension (bytes_of_hex h) with
     | Ok ((a, b), (c, d)) ->
       Printf.sprintf "ok:%s,%s,%s,%s" (string_of_n a) (string_of_n b) (string_of_n c) (string_of_n d)
     | Err _ -> "err" | Panic -> "panic" | OutOfFuel -> "fuel")
  | "sheet" :: rest -> sheet rest
  | _ -> "badsub"

let () = Registry.register "sharedfmla" run
let init () = ()
