"""C20 — encrypted workbooks are reported as password protected, and only those.

Correspondence (public API Xlsx::new / Xlsb::new / Xls::new / Ods::new on generated FILES, hook
cfb_new for the directory array, hook records_until_err for RecordIter) against the extracted
models Password.v (xls globals loop at byte level, ods manifest scan at event level) and
PasswordCfb.v (Header::from_reader, Directory::from_slice, has_directory, check_for_password_protected):
  * positive: encrypted OOXML containers (tools/pwgen.py: both sector sizes, shuffled sectors and
    directory order, EncryptionInfo standard / agile / extensible / garbage in the mini stream or in
    regular sectors, EncryptedPackage of 0 … 120000 bytes of random ciphertext, \\x06DataSpaces
    storage tree, near-miss stream names, DIFAT sectors, garbage behind the name terminator) opened
    with Xlsx::new AND Xlsb::new; xls with FILEPASS (XOR, RC4, CryptoAPI, empty, garbage) right
    after BOF / after WRITEPROT / after several records with CONTINUEs, as Workbook or Book stream,
    ciphertext inside clear record headers behind it; ods manifests with one / many encrypted
    entries under any prefix spelling;
  * negative: unencrypted workbooks from the generators of the other properties (textgen, xlsgen,
    biffgen, xlsxgen_c10, biffgen_c10, mergegen), every fixture of /repo/tests (only pass_protected*
    may be Password), compound files without EncryptedPackage, near-miss names, FILEPASS behind the
    globals' EOF, manifests without encryption-data;
  * robustness of the pieces: header mutations, byte-order marks in directory names (no longer
    sniffed since 2d0895e), damaged containers through the WHOLE model (Cfb.cfb_new of property
    C13 on the bytes of the file), records shorter than their fixed fields, random record streams.
      impl vs spec -> violation      impl vs model -> disagreement
open_workbook_auto_from_rs is recorded (distribution auto:*), not judged: it swallows every
reader's error and answers Error::Msg("Cannot detect file format") for all encrypted inputs.
"""
import io, json, os, struct, zipfile
import vlib, pwgen

ASSUMPTIONS = [
    "xlsx/xlsb: the compound-file reader is property C13's model Cfb.v (imported, not duplicated); C20's byte-level theorems are compositions with C13_written_names_listed / C13_cfb_new_written, so they hold for the layouts valid_layout admits (no red-black sibling links are written: calamine ignores them)",
    "xls: arms of the globals loop that parse strings or formulas (FORMAT, BoundSheet8, Lbl, ExternSheet, SST) enter the theorems as a function interp; the executable instance answers 'unmodelled' on them (they never return Password: checked by reading, XlsError::Password is constructed only in the FILEPASS arm)",
    "xls: record headers behind FILEPASS are well framed (they stay in clear under XOR obfuscation and RC4/CryptoAPI encryption); a stream cut in the middle of a CONTINUE record right behind FILEPASS gives EoStream instead (outside 'legal position')",
    "ods: the manifest is modelled as the list of quick-xml events (expand_empty_elements, no end-name check); the tokeniser itself is not modelled",
]

def hx(b):
    return b.hex() if b else ""

class Case:
    def __init__(self, cid, kind, path, margs, expect=None, valid=None, desc=None, judge=True):
        self.cid, self.kind, self.path, self.margs = cid, kind, path, margs
        self.expect = expect      # "password" | "notpassword" | None (model vs impl only)
        self.valid = valid        # True: a well-formed workbook of that format (impl must open it)
        self.desc = desc or {}
        self.judge = judge
    def line(self):
        return "\t".join([self.cid, "password", self.kind, self.path] + self.margs)
    def full(self, limit=40000):
        """small compound files go through the WHOLE model (Cfb.cfb_new on the bytes of the file,
        command ooxmlf); big ones through header + directory chain (command ooxml)"""
        try:
            if self.kind == "ooxml" and os.path.getsize(self.path) <= limit:
                self.kind, self.margs = "ooxmlf", []
        except OSError:
            pass
        return self

# ------------------------------------------------------------------ case builders
def ooxml_margs(data, chain):
    """model arguments of an `ooxml` case: file length, first <= 512 bytes, directory chain"""
    return [str(len(data)), hx(data[:512]) or "-", "-" if chain is None else (hx(chain) or "-")]

def write(tmp, name, data):
    p = os.path.join(tmp, name)
    with open(p, "wb") as f:
        f.write(data)
    return p

def gen_ooxml_positive(ctx, tmp, n):
    rng, cases = ctx.rng, []
    fixed = []
    for v in (3, 4):
        for sz in pwgen.PKG_SIZES:
            fixed.append(dict(version=v, pkg_size=sz))
        fixed.append(dict(version=v, pkg_size=70000, info_big=True))
        fixed.append(dict(version=v, pkg_size=0, dataspaces=False, extra=0, shuffle=False, shuffle_dir=False))
        fixed.append(dict(version=v, pkg_size=5000, header_difat=1))
        fixed.append(dict(version=v, pkg_size=5000, info_big=True, dataspaces=False, extra=0))   # no mini stream at all
        fixed.append(dict(version=v, pkg_size=300, info_variant="agile", info_big=False))
    fixed.append(dict(version=3, pkg_size=900000, header_difat=3))          # needs DIFAT sectors
    if ctx.tier == "thorough":
        fixed.append(dict(version=3, pkg_size=7400000))                      # > 109 FAT sectors: real DIFAT
    for i in range(n):
        kw = fixed[i] if i < len(fixed) else {}
        data, chain, desc = pwgen.encrypted_ooxml(rng, **kw)
        cid = "op%d" % i
        path = write(tmp, cid + rng.choice([".xlsx", ".xlsb"]), data)
        c = Case(cid, "ooxml", path, ooxml_margs(data, chain), "password", desc=desc)
        cases.append(c.full() if i % 4 else c)
        ctx.count("ooxml+:v%d:%s:%s" % (desc["version"], desc["info"],
                                        "mini" if desc["pkg"] < 4096 else "regular"))
        ctx.count("ooxml+:model=" + ("whole-file" if c.kind == "ooxmlf" else "header+directory-chain"))
    return cases

def gen_ooxml_negative_cfb(ctx, tmp, n):
    """compound files without an EncryptedPackage entry, near-miss names, BOM spellings, header
    mutations: model vs impl; spec: not Password unless the (BOM-stripped) name matches"""
    rng, cases = ctx.rng, []
    near = ["encryptedpackage", "EncryptedPackag", "EncryptedPackageX", "ENCRYPTEDPACKAGE", "EncryptedPackage ",
            " EncryptedPackage", "EncryptionInfo", "Encrypted Package", "EncryptédPackage", "\x06EncryptedPackage"]
    for i in range(n):
        ents = [pwgen.Entry("EncryptionInfo", 2, pwgen.rnd(rng, 200))]
        for nm in rng.sample(near, rng.randrange(1, 4)):
            if nm.upper() not in [e.name.upper() for e in ents]:
                ents.append(pwgen.Entry(nm, 2, pwgen.rnd(rng, rng.choice([0, 100, 5000]))))
        data, chain = pwgen.cfb_build(ents, rng, version=rng.choice([3, 4]))
        cid = "on%d" % i
        # (CFB-1: a name that differs from EncryptedPackage only in the case of its ASCII letters IS that name,
        # MS-CFB 2.6.4; "EncryptédPackage" and the others are not)
        anycase = any("".join(ch.upper() if "a" <= ch <= "z" else ch for ch in e.name) == "ENCRYPTEDPACKAGE" for e in ents)
        cases.append(Case(cid, "ooxml", write(tmp, cid + ".xlsx", data), ooxml_margs(data, chain),
                          "password" if anycase else "notpassword", desc={"names": [e.name for e in ents]}).full())
        ctx.count("ooxml+:cfb-other-case" if anycase else "ooxml-:cfb-near-miss")
    # name fields with byte-order marks / odd code units: model vs impl (the BOM is sniffed by
    # Encoding::decode, so FF FE + name matches)
    ep = "EncryptedPackage".encode("utf-16-le")
    fields = [b"\xff\xfe" + ep + b"\0\0", b"\xfe\xff" + "EncryptedPackage".encode("utf-16-be") + b"\0\0",
              b"\xef\xbb\xbfEncryptedPackage\0", b"\xef\xbb\xbfEncrypted\xc3\xa9\xe2\x82\xac\xf0\x9f\x98\x80\0",
              b"\xef\xbb\xbf\xc3\x28\xe2\x82\xf0\x9f\x41\xed\xa0\x80\xf4\x90\x80\x80\xc0\xaf\0",
              ep[:-2] + b"\x00\xd8" + b"\0\0", b"\x00\xd8\x00\xdc" + ep[:20] + b"\0\0", b"\x00\xdc" + ep + b"\0\0",
              ep + b"\x41\x00" * 16, ep, b"\0\0" + ep, ep[:31], b"\xff\xfe", b"\xef\xbb\xbf", b"E\0n\0c\0\0\0r\0"]
    for i, fld in enumerate(fields + [pwgen.rnd(rng, 64) for _ in range(n)]):
        ents = [pwgen.Entry("Placeholder%02d" % i, 2, pwgen.rnd(rng, 50)), pwgen.Entry("Other", 2, b"x")]
        ver = rng.choice([3, 4])
        data, chain = pwgen.cfb_build(ents, rng, version=ver)
        # patch the name field of the placeholder entry in the file and in the chain
        key = ("Placeholder%02d" % i).encode("utf-16-le")
        fld64 = fld.ljust(64, b"\0")[:64]
        k = chain.find(key)
        chain2 = chain[:k] + fld64 + chain[k + 64:]
        kf = data.find(key)
        data2 = data[:kf] + fld64 + data[kf + 64:]
        cid = "ob%d" % i
        c = Case(cid, "ooxml", write(tmp, cid + ".xlsx", data2), ooxml_margs(data2, chain2), None,
                 desc={"name_field": fld64.hex()})
        cases.append(c.full() if i % 2 else c)
        ctx.count("ooxml:name-field-variants")
    # header mutations: model vs impl on the error class of Cfb::new
    base, chain, _ = pwgen.encrypted_ooxml(rng, version=3, pkg_size=100, extra=0)
    base4, chain4, _ = pwgen.encrypted_ooxml(rng, version=4, pkg_size=100, extra=0)
    muts = []
    for j in range(8):
        b = bytearray(base); b[j] ^= 1 << rng.randrange(8); muts.append((bytes(b), None))
    muts += [(base[:k], None) for k in (0, 1, 7, 8, 100, 511)]
    muts += [(base4[:k], None) for k in (512, 600, 4095)]
    for off, val in ((30, 8), (30, 10), (30, 0), (32, 5), (32, 7), (30, 12)):
        b = bytearray(base); struct.pack_into("<H", b, off, val); muts.append((bytes(b), None))
    b = bytearray(base4); struct.pack_into("<H", b, 32, 9); muts.append((bytes(b), None))
    muts += [(b"PK\x03\x04" + pwgen.rnd(rng, 700), None), (b"PK\x05\x06" + bytes(18), None),
             (b"PK\x03\x04", None), (b"", None), (pwgen.OLE_SIG, None), (pwgen.OLE_SIG + bytes(504), None)]
    for j, (d, _) in enumerate(muts):
        cid = "oh%d" % j
        r = pwgen.cfb_dir_chain(d)
        # when the header parses, the rest of Cfb::new decides: only send cases whose header fails
        hdr_ok = len(d) >= 512 and d[:8] == pwgen.OLE_SIG and struct.unpack_from("<H", d, 30)[0] in (9, 12) \
            and struct.unpack_from("<H", d, 32)[0] == 6 and not (struct.unpack_from("<H", d, 30)[0] == 12 and len(d) < 4096)
        if hdr_ok:
            continue
        c = Case(cid, "ooxml", write(tmp, cid + ".bin", d), ooxml_margs(d, None), "notpassword",
                 desc={"mutation": j})
        cases.append(c.full() if j % 2 else c)
        ctx.count("ooxml-:header-rejected")
    # damaged containers through the whole model: byte flips in header / FAT / directory,
    # truncations, sector ids out of range — outcome class and directory names must agree
    # (the totality theorem C20_no_panic_ooxml_check says the model never answers panic)
    for j in range(n * 4):
        d0, _, _ = pwgen.encrypted_ooxml(rng, pkg_size=rng.choice([0, 100, 5000]), extra=0,
                                         header_difat=rng.choice([109, 109, 1]))
        b = bytearray(d0)
        mode = rng.randrange(4)
        if mode == 0:
            for _ in range(rng.randrange(1, 4)):
                b[rng.randrange(8, 512)] = rng.getrandbits(8)
        elif mode == 1:
            for _ in range(rng.randrange(1, 6)):
                b[rng.randrange(512, len(b))] = rng.choice([0, 0xFF, 0xFE, rng.getrandbits(8)])
        elif mode == 2:
            b = b[:rng.randrange(512, len(b))]
        else:
            off = rng.randrange(512, len(b) - 4) & ~3
            struct.pack_into("<I", b, off, rng.choice([0, 1, 0xFFFFFFFE, 0xFFFFFFFF, 0xFFFFFFFA, 0x7FFFFFFF, rng.randrange(64)]))
        cid = "od%d" % j
        cases.append(Case(cid, "ooxmlf", write(tmp, cid + ".bin", bytes(b)), [], None, desc={"damage": mode}))
        ctx.count("ooxml:damaged-container")
    return cases

def zip_case(ctx, tmp, cid, data, ext, tag):
    ctx.count("ooxml-:" + tag)
    return Case(cid, "ooxml", write(tmp, cid + ext, data), ooxml_margs(data, None), "notpassword", desc={"gen": tag}).full()

def gen_ooxml_negative_zip(ctx, tmp, n):
    rng, cases = ctx.rng, []
    import textgen, xlsxgen_c10, biffgen_c10
    from textgen import S, E, T
    for i in range(n):
        pfx = rng.choice(["", "", "x", "main"])
        q = lambda l: (pfx + ":" + l) if pfx else l
        cells = []
        for r in range(rng.randrange(1, 5)):
            cells.append(([("r", "A%d" % (r + 1))], [S(q("v")), T(str(rng.randrange(1000))), E(q("v")), E(q("c"))]))
        cases.append(zip_case(ctx, tmp, "zt%d" % i, textgen.xlsx_bytes(pfx, None, cells, rng), ".xlsx", "textgen.xlsx"))
        p = os.path.join(tmp, "zc%d.xlsx" % i)
        nf = [(str(164 + k), rng.choice(["yyyy-mm-dd", "0.00", "[h]:mm", "#,##0"])) for k in range(rng.randrange(0, 3))]
        xfs = [rng.choice(["0", "14", "164", None]) for _ in range(rng.randrange(1, 4))]
        cl = [{"s": rng.choice([None, 0]), "v": str(rng.randrange(50000)), "t": None, "f": None} for _ in range(rng.randrange(1, 4))]
        xlsxgen_c10.write_xlsx(p, nf, xfs, rng.choice([None, "1", "0"]), cl, prefix=rng.choice(["", "x"]))
        cases.append(zip_case(ctx, tmp, "zc%d" % i, open(p, "rb").read(), ".xlsx", "xlsxgen_c10.xlsx"))
        p = os.path.join(tmp, "zb%d.xlsb" % i)
        biffgen_c10.write_xlsb(p, [(164, "yyyy")], [0, 164], rng.random() < 0.5,
                               [(rng.randrange(2), "num", struct.unpack("<Q", struct.pack("<d", rng.random() * 1000))[0])])
        cases.append(zip_case(ctx, tmp, "zb%d" % i, open(p, "rb").read(), ".xlsb", "biffgen_c10.xlsb"))
    try:
        import mergegen
        parts = [("xl/worksheets/sheet1.xml",
                  b'<?xml version="1.0"?><worksheet xmlns="http://schemas.openxmlformats.org/spreadsheetml/2006/main">'
                  b'<sheetData><row r="1"><c r="A1"><v>1</v></c></row></sheetData><mergeCells><mergeCell ref="A1:B2"/></mergeCells></worksheet>')]
        for i in range(max(1, n // 3)):
            d = mergegen.pack_xlsx(parts, [("S1", "xl/worksheets/sheet1.xml")], rng)
            cases.append(zip_case(ctx, tmp, "zm%d" % i, d, ".xlsx", "mergegen.xlsx"))
    except Exception as ex:                                  # generator API drift: counted, not fatal
        ctx.notes.append("mergegen.pack_xlsx not usable here: %r" % (ex,))
    return cases

def xls_case(ctx, tmp, cid, data, stream, expect, tag, valid=None, desc=None):
    ctx.count(tag)
    return Case(cid, "xls", write(tmp, cid + ".xls", data), [hx(pwgen.globals_prefix(stream)) or "-"], expect,
                valid=valid, desc=dict(desc or {}, gen=tag))

def gen_xls_positive(ctx, tmp, n):
    rng, cases = ctx.rng, []
    fixed = [dict(kind=k, how=h, stream_name=s) for k in ("xor", "rc4", "cryptoapi", "biff5", "empty", "short", "garbage")
             for h in ("direct", "writeprot", "many") for s in ("Workbook", "Book")]
    for i in range(n):
        kw = fixed[i] if i < len(fixed) else {}
        data, stream, desc = pwgen.encrypted_xls(rng, **kw)
        cases.append(xls_case(ctx, tmp, "xp%d" % i, data, stream, "password",
                              "xls+:%s:%s:%s" % (desc["kind"], desc["how"], desc["stream"]), desc=desc))
    # through xlsgen's own writer as well (FILEPASS right after BOF)
    import xlsgen
    for i in range(max(2, n // 10)):
        wb = {"filepass": pwgen.filepass_body(rng, rng.choice(["xor", "rc4", "cryptoapi"])),
              "sheets": [{"name": "S", "cells": [{"k": "number", "r": 0, "c": 0, "v": 1.5}]}]}
        opts = {"stream_name": rng.choice(["Workbook", "Book"]), "cfb": {"version": rng.choice([3, 4])}}
        stream, _ = xlsgen.workbook_stream(wb, opts, rng)
        cases.append(xls_case(ctx, tmp, "xq%d" % i, xlsgen.write_xls(wb, opts, rng), stream, "password", "xls+:xlsgen"))
    return cases

def gen_xls_short(ctx, tmp):
    """records shorter than their fixed fields in the globals (errors since the hardening, panics
    before): model vs impl; and the same in front of a FILEPASS record (the error comes first)"""
    rng, cases = ctx.rng, []
    k = 0
    for t in (0x0042, 0x0022, 0x0809, 0x00E0):
        for ln in (0, 1, 2, 3, 4):
            for tail in ("eof", "filepass"):
                if t == 0x0809:
                    s = pwgen.rec(t, pwgen.rnd(rng, ln))
                else:
                    body = struct.pack("<H", 1200)[:ln] if t == 0x0042 and ln >= 2 else pwgen.rnd(rng, ln)
                    if t == 0x0042 and ln > 2:
                        body = struct.pack("<H", 1252) + pwgen.rnd(rng, ln - 2)
                    s = pwgen.bof(0x0005) + pwgen.rec(t, body)
                s += pwgen.rec(0x002F, pwgen.filepass_body(rng, "xor")) if tail == "filepass" else b""
                s += pwgen.rec(0x000A) + pwgen.bof(0x0010) + pwgen.rec(0x000A)
                data, _ = pwgen.cfb_build([pwgen.Entry("Workbook", 2, s)], rng, version=3)
                c = xls_case(ctx, tmp, "xh%d" % k, data, s, None, "xls:short-record:%#06x" % t)
                cases.append(c); k += 1
    return cases

def gen_xls_negative(ctx, tmp, n):
    rng, cases = ctx.rng, []
    import xlsgen, biffgen, biffgen_c10, mergegen
    for i in range(n):
        cells = []
        for r in range(rng.randrange(1, 6)):
            k = rng.choice(["number", "rk", "label", "bool", "labelsst", "formula"])
            c = {"k": k, "r": r, "c": rng.randrange(4)}
            if k == "number": c["v"] = rng.random() * 100
            elif k == "rk": c["rk"] = xlsgen.rk_int(rng.randrange(1000))
            elif k == "label": c["s"] = "t%d" % r
            elif k == "bool": c["v"] = True
            elif k == "labelsst": c["isst"] = 0
            else: c["cached"] = ("num", xlsgen.f64_bits(2.0))
            cells.append(c)
        wb = {"date1904": rng.random() < 0.3, "formats": {164: "yyyy-mm-dd", 165: "0.00"}, "xfs": [0, 164, 165, 14],
              "sst": ["a", "bé", "c" * 40], "sheets": [{"name": "S%d" % j, "cells": cells} for j in range(rng.randrange(1, 3))],
              # record types around FILEPASS' number, FILEPASS-looking bodies under other ids
              "globals_extra": [(t, pwgen.filepass_body(rng, "rc4")) for t in rng.sample([0x002E, 0x0030, 0x012F, 0x2F00, 0x003D, 0x0040], 2)]}
        if rng.random() < 0.6:
            # protection that is NOT encryption: workbook-structure / window / revision protection with
            # password verifiers, a write-reservation password (FILESHARING) and WRITEPROT — all records
            # in clear, no FILEPASS: such a workbook opens
            prot = [(0x0012, struct.pack("<H", 1)), (0x0013, struct.pack("<H", rng.choice([0xCE4B, 0x83AF, 1, 0xFFFF]))),
                    (0x0019, struct.pack("<H", rng.choice([0, 1]))), (0x01AF, struct.pack("<H", 1)),
                    (0x01BC, struct.pack("<H", rng.choice([0, 0xA1B2]))), (0x0086, b""),
                    (0x005B, struct.pack("<HHH", 1, rng.choice([0xCE4B, 0x1234]), 0))]
            wb["globals_extra"] = rng.sample(prot, rng.randrange(1, len(prot) + 1)) + wb["globals_extra"]
        if rng.random() < 0.5:
            wb["names"] = [("nm", xlsgen.PTG_INT_1)]
        opts = {"stream_name": rng.choice(["Workbook", "Book"]), "cfb": {"version": rng.choice([3, 4]), "shuffle": rng.random() < 0.5}}
        if rng.random() < 0.3:
            opts["sst_cut"] = 32
        stream, offs = xlsgen.workbook_stream(wb, opts, rng)
        cases.append(xls_case(ctx, tmp, "xn%d" % i, xlsgen.write_xls(wb, opts, rng), stream, "notpassword", "xls-:xlsgen", valid=True))
        # FILEPASS behind the globals' EOF (inside a sheet substream): not a legal position
        wb2 = {"sheets": [{"name": "S", "cells": cells, "pre": [(0x002F, pwgen.filepass_body(rng, "xor"))]}]}
        stream2, _ = xlsgen.workbook_stream(wb2, {}, rng)
        cases.append(xls_case(ctx, tmp, "xs%d" % i, xlsgen.write_xls(wb2, {}, rng), stream2, "notpassword", "xls-:filepass-in-sheet", valid=True))
        # biffgen (C12), biffgen_c10 (C10), mergegen (C17)
        st = biffgen.workbook_stream(struct.pack("<II", 1, 1) + struct.pack("<HB", 1, 0) + b"a", [],
                                     [(0, [83], [("sst", 0, 0, 0), ("label", 1, 0, 0, [65, 66])])])
        cases.append(xls_case(ctx, tmp, "xb%d" % i, biffgen.xls_file(st), st, "notpassword", "xls-:biffgen", valid=True))
        st = biffgen_c10.workbook_stream([(164, "yyyy")], [0, 164], rng.choice([None, True, False]),
                                         [(1, "num", struct.unpack("<Q", struct.pack("<d", 40000.5))[0]), (0, "rk", xlsgen.rk_int(7))])
        cases.append(xls_case(ctx, tmp, "xc%d" % i, biffgen_c10.cfb_write("Workbook", st), st, "notpassword", "xls-:biffgen_c10", valid=True))
        recs = [(0x0203, struct.pack("<HHHd", 0, 0, 0, 1.0)), (0x00E5, struct.pack("<HHHHH", 1, 0, 1, 0, 1)), (0x000A, b"")]
        st = mergegen.biff_workbook(["M1"], [recs])
        cases.append(xls_case(ctx, tmp, "xm%d" % i, mergegen.pack_xls(["M1"], [recs], rng), st, "notpassword", "xls-:mergegen", valid=True))
    return cases

def ods_case(ctx, tmp, cid, data, mime, events, expect, tag, valid=None, desc=None):
    ctx.count(tag)
    margs = ["-" if mime is None else "x" + hx(mime), "none" if events is None else pwgen.events_wire(events)]
    return Case(cid, "ods", write(tmp, cid + ".ods", data), margs, expect, valid=valid, desc=dict(desc or {}, gen=tag))

def gen_ods(ctx, tmp, n):
    rng, cases = ctx.rng, []
    fixed = [dict(n_entries=1, encrypted=[True]), dict(n_entries=1, encrypted=[False]),
             dict(n_entries=5, encrypted=[False, False, False, False, True]),
             dict(n_entries=5, encrypted=[False, True, False, False, False]),
             dict(n_entries=12, encrypted=[True] * 12), dict(n_entries=3, encrypted=[False] * 3),
             dict(n_entries=2, encrypted=[False, True], prefix="m", enc_prefix="m"),
             dict(n_entries=2, encrypted=[False, True], prefix="", enc_prefix=""),
             dict(n_entries=2, encrypted=[False, True], prefix="manifest", enc_prefix=""),
             dict(n_entries=2, encrypted=[True, False], prefix="", enc_prefix="enc"),
             dict(n_entries=4, encrypted=[False, False, True, True], prefix="MANIFEST")]
    for i in range(n):
        kw = fixed[i] if i < len(fixed) else {}
        ev, nenc = pwgen.gen_manifest(rng, **kw)
        xml = pwgen.manifest_xml(ev, rng)
        enc = nenc > 0
        data = pwgen.ods_file(rng, xml, content=None if enc else pwgen.PLAIN_CONTENT)
        cases.append(ods_case(ctx, tmp, "dg%d" % i, data, pwgen.MIMETYPE, ev, "password" if enc else "notpassword",
                              "ods%s:entries=%s" % ("+" if enc else "-", "1" if len([e for e in ev if e[0] == "S" and e[1].endswith("file-entry")]) == 1 else "many"),
                              valid=not enc, desc={"encrypted": nenc, "manifest": xml.decode()[:400]}))
    # gate and error cases: model vs impl
    ev, _ = pwgen.gen_manifest(rng, n_entries=2, encrypted=[True, True])
    xml = pwgen.manifest_xml(ev, rng)
    odd = [("nomime", dict(with_mimetype=False), None, ev), ("shortmime", dict(mimetype=pwgen.MIMETYPE[:20]), pwgen.MIMETYPE[:20], ev),
           ("wrongmime", dict(mimetype=b"application/vnd.oasis.opendocument.text" + b" " * 7), b"application/vnd.oasis.opendocument.text" + b" " * 7, ev),
           ("longmime", dict(mimetype=pwgen.MIMETYPE + b"\n"), pwgen.MIMETYPE + b"\n", ev)]
    for tag, kw, mime, e in odd:
        cases.append(ods_case(ctx, tmp, "do_" + tag, pwgen.ods_file(rng, xml, **kw), mime, e, None, "ods:gate:" + tag))
    cases.append(ods_case(ctx, tmp, "do_nomanifest", pwgen.ods_file(rng, None, content=pwgen.PLAIN_CONTENT), pwgen.MIMETYPE, None,
                          "notpassword", "ods-:no-manifest"))
    # a reader error before / after the encryption-data element, and encryption-data outside any entry
    for j, where in enumerate(["before-entry", "in-entry", "after-enc"]):
        ev, _ = pwgen.gen_manifest(rng, n_entries=2, encrypted=[False, True], junk=False)
        idx = {"before-entry": 2, "in-entry": next(k for k, x in enumerate(ev) if x[0] == "S" and x[1].endswith("file-entry")) + 1,
               "after-enc": next(k for k, x in enumerate(ev) if x[0] == "S" and x[1].endswith("encryption-data")) + 1}[where]
        ev2 = ev[:idx] + [("X",)] + ev[idx:]
        cases.append(ods_case(ctx, tmp, "dx%d" % j, pwgen.ods_file(rng, pwgen.manifest_xml(ev2, rng)), pwgen.MIMETYPE, ev2, None,
                              "ods:reader-error:" + where))
    stray = [("O", "decl", '<?xml version="1.0"?>'), ("S", "manifest:manifest", [("xmlns:manifest", pwgen.MANIFEST_NS)]),
             ("S", "manifest:encryption-data", []), ("E", "manifest:encryption-data"),
             ("S", "manifest:file-entry", [("manifest:full-path", "/")]), ("E", "manifest:file-entry"), ("E", "manifest:manifest")]
    cases.append(ods_case(ctx, tmp, "dy0", pwgen.ods_file(rng, pwgen.manifest_xml(stray, rng), content=pwgen.PLAIN_CONTENT),
                          pwgen.MIMETYPE, stray, None, "ods:encryption-data-before-any-entry"))
    stray2 = stray[:2] + stray[4:6] + stray[2:4] + stray[6:]
    cases.append(ods_case(ctx, tmp, "dy1", pwgen.ods_file(rng, pwgen.manifest_xml(stray2, rng)), pwgen.MIMETYPE, stray2, None,
                          "ods:encryption-data-after-entry-closed"))
    import textgen
    from textgen import S, E, T
    for i in range(max(2, n // 8)):
        cells = [("table:table-cell", [("office:value-type", "string")], [S("text:p"), T("v%d" % i), E("text:p"), E("table:table-cell")])]
        data = textgen.ods_bytes(cells, rng)
        xml = zipfile.ZipFile(io.BytesIO(data)).read("META-INF/manifest.xml")
        cases.append(ods_case(ctx, tmp, "dt%d" % i, data, pwgen.MIMETYPE, pwgen.xml_events(xml), "notpassword", "ods-:textgen", valid=True))
    return cases

# the encrypted fixtures of /repo/tests: three pass_protected.* files and issue_385.xls (a BIFF8 workbook
# whose globals start BOF, FILEPASS; tests/test.rs issue_385 expects XlsError::Password)
PASSWORD_FIXTURES = {"pass_protected.xlsx", "pass_protected.xlsb", "pass_protected.ods", "issue_385.xls"}

def gen_fixtures(ctx):
    """every fixture with the reader of its format; only pass_protected* may be Password"""
    cases = []
    for ext, path in vlib.fixtures({"xlsx", "xlsm", "xlam", "xlsb", "xls", "xla", "ods"}):
        fmt = vlib.fmt_of_ext(ext)
        name = os.path.basename(path)
        data = open(path, "rb").read()
        expect = "password" if name in PASSWORD_FIXTURES else "notpassword"
        cid = "fx_" + name.replace(".", "_").replace(" ", "_")
        if fmt in ("xlsx", "xlsb"):
            r = pwgen.cfb_dir_chain(data)
            margs = ooxml_margs(data, r[1] if r else None)
            cases.append(Case(cid, "ooxml", path, margs, expect, desc={"fixture": name, "fmt": fmt}))
        elif fmt == "xls":
            st = pwgen.cfb_stream(data, "Workbook") or pwgen.cfb_stream(data, "Book")
            if st is None:
                cases.append(Case(cid, "xls", path, ["-"], expect, desc={"fixture": name}, judge="specs-only"))
            else:
                cases.append(Case(cid, "xls", path, [hx(pwgen.globals_prefix(st)) or "-"], expect, desc={"fixture": name}))
        else:
            try:
                z = zipfile.ZipFile(io.BytesIO(data))
                names = z.namelist()
                mime = z.read("mimetype") if "mimetype" in names else None
                ev = pwgen.xml_events(z.read("META-INF/manifest.xml")) if "META-INF/manifest.xml" in names else None
                cases.append(Case(cid, "ods", path, ["-" if mime is None else "x" + hx(mime),
                                                     "none" if ev is None else pwgen.events_wire(ev)], expect, desc={"fixture": name}))
            except Exception:
                cases.append(Case(cid, "ods", path, ["-", "none"], expect, desc={"fixture": name}, judge="specs-only"))
        ctx.count("fixture:" + fmt)
    return cases

def gen_recs(ctx, n):
    rng, lines = ctx.rng, []
    for i in range(n):
        s = b""
        for _ in range(rng.randrange(0, 8)):
            t = rng.choice([0x3C, 0x3C, 0x2F, 0x0A, 0x809, 0xFC, rng.randrange(0x10000)])
            s += pwgen.rec(t, pwgen.rnd(rng, rng.choice([0, 0, 1, 3, 10, 40])))
        mode = rng.randrange(5)
        if mode == 0 and s:
            s = s[:rng.randrange(len(s))]
        elif mode == 1:
            s += pwgen.rnd(rng, rng.randrange(1, 9))
        elif mode == 2:
            s += struct.pack("<HH", 0x3C, rng.choice([0, 1, 5, 60000])) + pwgen.rnd(rng, rng.randrange(0, 6))
        lines.append("rc%d\tpassword\trecs\t%s" % (i, hx(s) or "-"))
    return lines

# ------------------------------------------------------------------ judging
def impl_password(kind, ans):
    """does the format's own reader(s) report Password?  returns {reader: class}"""
    out = {}
    if ans is None:
        return out
    for part in ans.replace("|", ";").split(";"):
        if "=" in part:
            k, v = part.split("=", 1)
            if k in ("xlsx", "xlsb", "xls", "ods"):
                out[k] = v
    return out

def agree(kind, impl, model):
    """is the implementation's answer the one the model predicts?"""
    if impl is None or model is None:
        return False
    if kind in ("ooxml", "ooxmlf"):
        return impl == model
    i, m = impl.split("=", 1)[1], model.split("=", 1)[1]
    if kind == "xls":
        return {"password": i == "password", "panic": i == "panic", "other": i == "other",
                "done": i in ("ok", "other", "panic"), "unmodelled": i in ("ok", "other", "panic")}.get(m, False)
    if kind == "ods":
        return {"password": i == "password", "other": i == "other", "pass": i in ("ok", "other", "panic")}.get(m, False)
    return impl == model

def judge(ctx, cases, impl, model, allres):
    for c in cases:
        ia, ma = impl.get(c.cid), model.get(c.cid)
        ctx.traces += 1
        readers = impl_password(c.kind, ia)
        if c.desc.get("fmt") in ("xlsx", "xlsb"):                       # a fixture: its own reader only
            readers = {k: v for k, v in readers.items() if k == c.desc["fmt"]}
        if c.judge is True and not agree(c.kind, ia, ma):
            ctx.disagreements.append({"function": c.kind, "case": {"line": c.line()[:3000], "desc": c.desc, "path": c.path},
                                      "impl": ia, "model": ma})
        bad = None
        if c.expect == "password":
            wrong = {k: v for k, v in readers.items() if v != "password"}
            if wrong or not readers:
                bad = "an encrypted workbook is not reported as password protected: %s" % (wrong or ia)
        elif c.expect == "notpassword":
            wrong = {k: v for k, v in readers.items() if v == "password"}
            if wrong:
                bad = "an unencrypted input is reported as password protected: %s" % wrong
            elif c.valid and any(v not in ("ok", "pass") for v in readers.values()):
                bad = "a well-formed unencrypted workbook does not open: %s" % readers
        if bad:
            ctx.violations.append({"case": {"line": c.line()[:3000], "desc": c.desc, "path": c.path, "kind": c.kind},
                                   "expected": c.expect, "actual": ia, "model": ma, "what": bad})
        a = allres.get("a_" + c.cid)
        if a:
            au = [p.split("=", 1)[1] for p in a.split(";") if p.startswith("auto=")]
            ctx.count("auto:%s:%s" % (c.expect or "-", au[0] if au else "?"))
        ctx.nontrivial(c.kind + json.dumps(c.desc, sort_keys=True, default=str)[:400] + c.cid)
        if c.expect == "password":
            ctx.sample({"case": c.cid, "kind": c.kind, "desc": {k: v for k, v in c.desc.items() if k != "manifest"},
                        "impl": ia, "model": ma})

def run_cases(ctx, cases):
    lines = [c.line() for c in cases]
    impl, model = ctx.run_both(lines)
    alll = ["a_%s\tpassword\tall\t%s" % (c.cid, c.path) for c in cases if c.expect is not None]
    allres = ctx.run_impl(alll)
    judge(ctx, cases, impl, model, allres)
    # the verdict is a function of the file, not of where the reader stands when it is handed over
    # (a caller that sniffed the signature or hashed the file first): every reader, reader at
    # offset 0 / 8 / end of file
    sub = [c for c in cases if c.expect is not None][:ctx.scale(400, 4000)]
    pl = []
    for c in sub:
        for f in ("xlsx", "xlsb", "xls", "ods"):
            for sk in ("", "+8", "+all"):
                pl.append("p_%s_%s%s\topen\t%s%s\t%s\tsheets" % (c.cid, f, sk, f, sk, c.path))
    pres = ctx.run_impl(pl)
    for c in sub:
        ctx.traces += 1
        for f in ("xlsx", "xlsb", "xls", "ods"):
            base = pres.get("p_%s_%s" % (c.cid, f))
            for sk in ("+8", "+all"):
                got = pres.get("p_%s_%s%s" % (c.cid, f, sk))
                if got != base:
                    ctx.violations.append({"case": {"line": "open %s%s %s sheets" % (f, sk, c.path), "path": c.path}, "expected": base,
                                           "actual": got, "model": "",
                                           "what": "the %s reader answers differently when the reader it is given does not stand at offset 0 (%s)" % (f, sk)})
        ctx.count("reader_position_independent")

def run_recs(ctx, n):
    lines = gen_recs(ctx, n)
    impl, model = ctx.run_both(lines)
    for l in lines:
        cid = l.split("\t", 1)[0]
        ctx.traces += 1
        if impl.get(cid) != model.get(cid):
            ctx.disagreements.append({"function": "recs", "case": {"line": l[:2000]}, "impl": impl.get(cid), "model": model.get(cid)})
        ctx.nontrivial(l)
    ctx.count("recs:random-streams", len(lines))

def cleanup(tmp):
    for f in os.listdir(tmp):
        try:
            os.remove(os.path.join(tmp, f))
        except OSError:
            pass
    try:
        os.rmdir(tmp)
    except OSError:
        pass

def build_all(ctx, tmp, k):
    cases = []
    cases += gen_ooxml_positive(ctx, tmp, ctx.scale(200, 2000) * k)
    cases += gen_ooxml_negative_cfb(ctx, tmp, ctx.scale(30, 300) * k)
    cases += gen_ooxml_negative_zip(ctx, tmp, ctx.scale(15, 150) * k)
    cases += gen_xls_positive(ctx, tmp, ctx.scale(200, 3000) * k)
    cases += gen_xls_negative(ctx, tmp, ctx.scale(15, 150) * k)
    cases += gen_xls_short(ctx, tmp)
    cases += gen_ods(ctx, tmp, ctx.scale(120, 2000) * k)
    return cases

def run(ctx):
    tmp = vlib.tmpdir(ctx)
    cases = build_all(ctx, tmp, 1) + gen_fixtures(ctx)
    run_cases(ctx, cases)
    run_recs(ctx, ctx.scale(1000, 20000))
    if not ctx.violations and not ctx.disagreements:
        cleanup(tmp)

def search(ctx):
    tmp = vlib.tmpdir(ctx)
    run_cases(ctx, build_all(ctx, tmp, 3))

def replay(ctx, rep):
    case = rep.get("case") or {}
    line = case.get("line")
    path = case.get("path")
    if not line:
        print("replay: nothing to replay"); return 2
    impl, model = ctx.run_both([line])
    cid = line.split("\t", 1)[0]
    print("replay %s: impl=%s model=%s (file: %s)" % (cid, impl.get(cid), model.get(cid), path))
    if rep.get("kind") == "input":
        exp = rep.get("expected")
        readers = impl_password(case.get("kind", ""), impl.get(cid))
        bad = (exp == "password" and any(v != "password" for v in readers.values())) or \
              (exp == "notpassword" and any(v == "password" for v in readers.values()))
        print("VIOLATION reproduced" if bad else "not reproduced")
        return 1 if bad else 0
    same = impl.get(cid) == rep.get("impl") and model.get(cid) == rep.get("model")
    print("disagreement reproduced" if same else "not reproduced")
    return 1 if same else 0
