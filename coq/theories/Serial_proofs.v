(* Serial_proofs: theorems about the serial date-time model of Serial.v (property C11).
   Layers:
   1. integer side (no floats): chrono's checked_add_signed from the Excel epoch collapses to
      [epoch_plus_ms] (every intermediate check of chrono is subsumed by the calendar-range check);
   2. characterisation of as_datetime / as_duration ([edt_as_datetime_char], [..duration_char]):
      the range test on the rounded product decides None, otherwise the result is epoch + trunc;
      hence no panic for any double whatsoever;
   3. whole serials: every float operation is exact while (|d| + 1463) * 86 400 000 <= 2^53, which
      gives the anchors of the spreadsheet convention for every whole day 0 ..= 2 958 465 in both
      date systems (no enumeration: Flocq's correctness theorems + representability);
   4. real-number reading of a successful conversion ([datetime_some_real]), from which
      monotonicity outside the known class, the rounding bound and beyond-calendar => None follow;
   5. the known class (serials on the fictitious 1900-02-29) with its witness. *)
From Calamine Require Import Prelude F64 F64_proofs Civil Civil_proofs Serial.
From Coq Require Import Reals Lra.
From Flocq Require Import Core.Core IEEE754.BinarySingleNaN IEEE754.Binary IEEE754.Bits.
From Coq Require Import SpecFloat.
Open Scope Z_scope.

(* ---------- constants ---------- *)
Lemma EXCEL_EPOCH_DAYS_val : EXCEL_EPOCH_DAYS = -25569. Proof. reflexivity. Qed.
Lemma MIN_DATE_DAYS_val : MIN_DATE_DAYS = -96465292. Proof. reflexivity. Qed.
Lemma MAX_DATE_DAYS_val : MAX_DATE_DAYS = 95026236. Proof. reflexivity. Qed.
Lemma TD_MIN_SECS_val : TD_MIN_SECS = -9223372036854776. Proof. reflexivity. Qed.
Lemma TD_MAX_SECS_val : TD_MAX_SECS = 9223372036854775. Proof. reflexivity. Qed.
Lemma TD_MIN_NANOS_val : TD_MIN_NANOS = 193000000. Proof. reflexivity. Qed.

Lemma MS_MULTIPLIER_int : int_val MS_MULTIPLIER 86400000.
Proof. apply f64_of_Z_int. vm_compute. discriminate. Qed.
Lemma DIFF_1904_int : int_val DIFF_1904 1462.
Proof. apply f64_of_Z_int. vm_compute. discriminate. Qed.
Lemma F60_int : int_val F60 60. Proof. apply f64_of_Z_int. vm_compute. discriminate. Qed.
Lemma F61_int : int_val F61 61. Proof. apply f64_of_Z_int. vm_compute. discriminate. Qed.
Lemma F1_int : int_val F1 1. Proof. apply f64_of_Z_int. vm_compute. discriminate. Qed.

Lemma I64_MAX_F_int : int_val I64_MAX_F (2 ^ 63).
Proof.
  assert (H : @Binary.B2SF 53 1024 I64_MAX_F = S754_finite false 4503599627370496 11)
    by (vm_compute; reflexivity).
  destruct I64_MAX_F as [s|s|s pl Hpl|s m e Hb]; try discriminate H.
  cbn [Binary.B2SF] in H. inversion H; subst. split; [reflexivity|].
  unfold Binary.B2R, F2R. cbn [Fnum Fexp cond_Zopp].
  change (bpow radix2 11) with (IZR (2 ^ 11)). rewrite <- mult_IZR. f_equal.
Qed.

(* ---------- the range test and the cast ---------- *)
Lemma guard_spec : forall ms, ms_out_of_range ms = false ->
  f64_is_finite ms = true /\ f64_to_i64 ms = f64_trunc ms /\ Z.abs (f64_trunc ms) < 2 ^ 63.
Proof.
  intros ms G. unfold ms_out_of_range in G. apply negb_false_iff in G.
  destruct (f64_lt_abs_int ms _ _ I64_MAX_F_int G) as [Fm Hm].
  pose proof (f64_trunc_abs_lt ms _ Hm) as Ht.
  split; [exact Fm|]. split; [|exact Ht].
  unfold f64_to_i64, f64_to_int. unfold f64_is_finite in Fm.
  destruct ms; try discriminate Fm;
    (destruct (_ <? I64MIN) eqn:E1; [unfold I64MIN in E1; lia|];
     destruct (I64MAX <? _) eqn:E2; [unfold I64MAX in E2; lia|]; reflexivity).
Qed.

Lemma duration_milliseconds_ok : forall n, Z.abs n < 2 ^ 63 ->
  duration_milliseconds n = Ok (n / 1000, (n mod 1000) * 1000000).
Proof.
  intros n H. unfold duration_milliseconds.
  destruct (n <? - I64MAX) eqn:E; [unfold I64MAX in E; lia|reflexivity].
Qed.

(* ---------- chrono: epoch + n milliseconds, all the intermediate checks collapsed ---------- *)
Definition epoch_plus_ms (n : Z) : option naive_datetime :=
  let days := EXCEL_EPOCH_DAYS + n / MS_PER_DAY in
  if (days <? MIN_DATE_DAYS) || (MAX_DATE_DAYS <? days) then None
  else Some {| dt_days := days;
               dt_time := ((n mod MS_PER_DAY) / 1000, (n mod 1000) * 1000000) |}.

Lemma time_overflowing_add_midnight : forall secs nanos, 0 <= nanos < 1000000000 ->
  time_overflowing_add midnight (secs, nanos) = ((secs mod 86400, nanos), secs - secs mod 86400).
Proof.
  intros secs nanos Hn. unfold time_overflowing_add, midnight, td_subsec_nanos, td_num_seconds.
  destruct ((secs <? 0) && (0 <? nanos)) eqn:E.
  - destruct (0 + (nanos - 1000000000) <? 0) eqn:E2; [|lia].
    replace (0 + (secs + 1) - 1) with secs by lia.
    replace (0 + (nanos - 1000000000) + 1000000000) with nanos by lia. reflexivity.
  - destruct (0 + nanos <? 0) eqn:E2; [lia|].
    destruct (1000000000 <=? 0 + nanos) eqn:E3; [lia|].
    replace (0 + secs) with secs by lia. replace (0 + nanos) with nanos by lia. reflexivity.
Qed.

Lemma checked_add_epoch_spec : forall n, Z.abs n < 2 ^ 63 ->
  naive_checked_add excel_epoch (n / 1000, (n mod 1000) * 1000000) = epoch_plus_ms n.
Proof.
  intros n Hn. unfold naive_checked_add, excel_epoch, epoch_plus_ms, MS_PER_DAY.
  cbn [dt_time dt_days].
  set (secs := n / 1000). set (nanos := (n mod 1000) * 1000000).
  assert (Hnanos : 0 <= nanos < 1000000000) by (subst nanos; lia).
  rewrite (time_overflowing_add_midnight secs nanos Hnanos).
  rewrite EXCEL_EPOCH_DAYS_val, MIN_DATE_DAYS_val, MAX_DATE_DAYS_val.
  unfold td_try_seconds. rewrite TD_MIN_SECS_val, TD_MAX_SECS_val, TD_MIN_NANOS_val.
  set (rem := secs - secs mod 86400).
  assert (Hrem : rem = 86400 * (n / 86400000)) by (subst rem secs; lia).
  assert (Hsecs : -9223372036854776 <= secs <= 9223372036854775) by (subst secs; lia).
  destruct ((rem <? -9223372036854776) || (9223372036854775 <? rem) ||
            ((rem =? -9223372036854776) && (0 <? 193000000))) eqn:E1.
  - destruct ((-25569 + n / 86400000 <? -96465292) || (95026236 <? -25569 + n / 86400000)) eqn:E2;
      [reflexivity|lia].
  - unfold date_checked_add, td_num_seconds, I32MIN, I32MAX.
    rewrite MIN_DATE_DAYS_val, MAX_DATE_DAYS_val.
    replace ((rem <? 0) && (0 <? 0)) with false by (destruct (rem <? 0); reflexivity).
    assert (Hq : Z.quot rem 86400 = n / 86400000).
    { rewrite Hrem, Z.mul_comm. apply Z.quot_mul. lia. }
    rewrite Hq.
    destruct ((n / 86400000 <? -2147483648) || (2147483647 <? n / 86400000)) eqn:E3.
    + destruct ((-25569 + n / 86400000 <? -96465292) || (95026236 <? -25569 + n / 86400000)) eqn:E2;
        [reflexivity|lia].
    + destruct ((-25569 + n / 86400000 <? -96465292) || (95026236 <? -25569 + n / 86400000)) eqn:E2;
        [reflexivity|].
      f_equal. f_equal. f_equal. subst secs. lia.
Qed.

(* ---------- characterisation of the two conversions ---------- *)
Definition td_of_ms (n : Z) : timedelta := (n / 1000, (n mod 1000) * 1000000).

Lemma edt_as_datetime_char : forall x,
  edt_as_datetime x =
    let ms := datetime_ms_float (edt_value x) (edt_is_1904 x) in
    if ms_out_of_range ms then Ok None else Ok (epoch_plus_ms (f64_trunc ms)).
Proof.
  intros x. unfold edt_as_datetime. cbv zeta.
  destruct (ms_out_of_range _) eqn:G; [reflexivity|].
  destruct (guard_spec _ G) as (_ & Hc & Hb). rewrite Hc.
  rewrite (duration_milliseconds_ok _ Hb). cbn [obind].
  rewrite (checked_add_epoch_spec _ Hb). reflexivity.
Qed.

Lemma edt_as_duration_char : forall x,
  edt_as_duration x =
    let ms := duration_ms_float (edt_value x) in
    if ms_out_of_range ms then Ok None else Ok (Some (td_of_ms (f64_trunc ms))).
Proof.
  intros x. unfold edt_as_duration. cbv zeta.
  destruct (ms_out_of_range _) eqn:G; [reflexivity|].
  destruct (guard_spec _ G) as (_ & Hc & Hb). rewrite Hc.
  rewrite (duration_milliseconds_ok _ Hb). reflexivity.
Qed.

(* ---------- no panic, for every double (hence for every 64-bit pattern) ---------- *)
Theorem edt_no_panic : forall x,
  (exists r, edt_as_datetime x = Ok r) /\ (exists r, edt_as_duration x = Ok r).
Proof.
  intros x. rewrite edt_as_datetime_char, edt_as_duration_char. cbv zeta. split.
  - destruct (ms_out_of_range _); eexists; reflexivity.
  - destruct (ms_out_of_range _); eexists; reflexivity.
Qed.

Theorem data_no_panic : forall c,
  (exists r, data_as_datetime c = Ok r) /\ (exists r, data_as_date c = Ok r) /\
  (exists r, data_as_time c = Ok r) /\ (exists r, data_as_duration c = Ok r).
Proof.
  intros c.
  assert (H : exists r, data_as_datetime c = Ok r).
  { destruct c; cbn [data_as_datetime]; try apply edt_no_panic; eexists; reflexivity. }
  split; [exact H|]. destruct H as [r Hr]. unfold data_as_date, data_as_time. rewrite Hr.
  cbn [obind]. split; [eexists; reflexivity|]. split; [eexists; reflexivity|].
  destruct c; cbn [data_as_duration]; try (eexists; reflexivity). apply edt_no_panic.
Qed.

(* as_date / as_time are the components of as_datetime *)
Theorem date_time_components : forall c, exists r,
  data_as_datetime c = Ok r /\
  data_as_date c = Ok (option_map dt_days r) /\ data_as_time c = Ok (option_map dt_time r).
Proof.
  intros c. destruct (data_no_panic c) as [[r Hr] _]. exists r.
  unfold data_as_date, data_as_time. rewrite Hr. cbn [obind]. auto.
Qed.

(* ---------- whole serials ---------- *)
Ltac pows := change (2 ^ 53) with 9007199254740992 in *;
             change (2 ^ 63) with 9223372036854775808 in *.
(* whole serials for which every float operation of the conversion is exact:
   (|d| + 1463) * 86 400 000 <= 2^53 *)
Definition WHOLE_DAY_BOUND : Z := 104248528.
Definition offset_1904 (is_1904 : bool) : Z := if is_1904 then 1462 else 0.
Definition shim (k : Z) : Z := if 60 <=? k then k else k + 1.

Lemma shifted_serial_int : forall v d sys, int_val v d -> Z.abs d <= WHOLE_DAY_BOUND ->
  int_val (shifted_serial v sys) (shim (d + offset_1904 sys)).
Proof.
  intros v d sys Hv Hd. unfold WHOLE_DAY_BOUND in Hd. pows. unfold shifted_serial.
  set (f := offset_serial v sys).
  assert (Hf : int_val f (d + offset_1904 sys)).
  { subst f. unfold offset_serial. destruct sys; cbn [offset_1904].
    - apply f64_add_int; [exact Hv|exact DIFF_1904_int|pows; lia].
    - replace (d + 0) with d by lia. exact Hv. }
  unfold f64_ge. rewrite (f64_cmp_int _ _ _ _ Hf F60_int). unfold shim.
  set (k := d + offset_1904 sys) in *.
  assert (Hk : Z.abs k <= 104248528 + 1462) by (subst k; destruct sys; cbn [offset_1904]; lia).
  clearbody k.
  destruct (Z.compare_spec k 60) as [C|C|C].
  - replace (60 <=? k) with true by lia. exact Hf.
  - replace (60 <=? k) with false by lia. apply f64_add_int; [exact Hf|exact F1_int|]. pows. lia.
  - replace (60 <=? k) with true by lia. exact Hf.
Qed.

(* the float product of a whole serial and 86 400 000 is exact *)
Theorem whole_day_exact : forall v d, int_val v d -> Z.abs d <= 104249991 ->
  int_val (f64_mul v MS_MULTIPLIER) (d * 86400000).
Proof.
  intros v d Hv Hd. apply f64_mul_int; [exact Hv|exact MS_MULTIPLIER_int|]. pows. lia.
Qed.

Lemma datetime_ms_int : forall v d sys, int_val v d -> Z.abs d <= WHOLE_DAY_BOUND ->
  int_val (datetime_ms_float v sys) (shim (d + offset_1904 sys) * 86400000).
Proof.
  intros v d sys Hv Hd. unfold datetime_ms_float. apply f64_round_int. apply whole_day_exact.
  - apply shifted_serial_int; assumption.
  - unfold WHOLE_DAY_BOUND in Hd. pows. unfold shim. destruct sys; cbn [offset_1904];
      destruct (60 <=? _); lia.
Qed.

Lemma int_in_range : forall ms n, int_val ms n -> Z.abs n < 2 ^ 63 ->
  ms_out_of_range ms = false /\ f64_trunc ms = n.
Proof.
  intros ms n Hms Hn. split.
  - unfold ms_out_of_range, f64_lt.
    rewrite (f64_cmp_int _ _ _ _ (f64_abs_int _ _ Hms) I64_MAX_F_int).
    replace (Z.abs n ?= 2 ^ 63) with Lt by (symmetry; apply Z.compare_lt_iff; exact Hn).
    reflexivity.
  - rewrite f64_trunc_real. destruct Hms as [_ ->]. apply Ztrunc_IZR.
Qed.

Theorem whole_day_datetime_gen : forall v ty sys d, int_val v d -> Z.abs d <= WHOLE_DAY_BOUND ->
  edt_as_datetime {| edt_value := v; edt_is_duration := ty; edt_is_1904 := sys |} =
  Ok (let days := EXCEL_EPOCH_DAYS + shim (d + offset_1904 sys) in
      if (days <? MIN_DATE_DAYS) || (MAX_DATE_DAYS <? days) then None
      else Some (at_midnight days)).
Proof.
  intros v ty sys d Hv Hd. rewrite edt_as_datetime_char. cbv zeta. cbn [edt_value edt_is_1904].
  pose proof (datetime_ms_int v d sys Hv Hd) as Hms.
  set (k := shim (d + offset_1904 sys)) in *.
  assert (Hk : Z.abs k <= 104249991).
  { subst k. unfold WHOLE_DAY_BOUND in Hd. unfold shim.
    destruct sys; cbn [offset_1904]; destruct (60 <=? _); lia. }
  destruct (int_in_range _ _ Hms ltac:(pows; lia)) as [G T]. rewrite G, T.
  unfold epoch_plus_ms, MS_PER_DAY, at_midnight, midnight.
  replace (k * 86400000 / 86400000) with k by lia.
  destruct ((_ <? _) || (_ <? _)) eqn:E; [reflexivity|].
  do 3 f_equal. f_equal; lia.
Qed.

Theorem whole_day_datetime : forall v ty sys d, int_val v d -> Z.abs d <= 67000000 ->
  edt_as_datetime {| edt_value := v; edt_is_duration := ty; edt_is_1904 := sys |} =
  Ok (Some (at_midnight (EXCEL_EPOCH_DAYS + shim (d + offset_1904 sys)))).
Proof.
  intros v ty sys d Hv Hd.
  rewrite (whole_day_datetime_gen v ty sys d Hv) by (unfold WHOLE_DAY_BOUND; lia). cbv zeta.
  rewrite EXCEL_EPOCH_DAYS_val, MIN_DATE_DAYS_val, MAX_DATE_DAYS_val.
  destruct ((_ <? _) || (_ <? _)) eqn:E; [|reflexivity].
  unfold shim in E. destruct sys; cbn [offset_1904] in E; destruct (60 <=? _); lia.
Qed.

(* whole serials past either end of chrono's calendar (and within the exact range) give None *)
Theorem beyond_calendar_whole : forall v ty sys d, int_val v d -> Z.abs d <= WHOLE_DAY_BOUND ->
  (MAX_DATE_DAYS < EXCEL_EPOCH_DAYS + d + offset_1904 sys \/
   EXCEL_EPOCH_DAYS + d + offset_1904 sys + 1 < MIN_DATE_DAYS) ->
  edt_as_datetime {| edt_value := v; edt_is_duration := ty; edt_is_1904 := sys |} = Ok None.
Proof.
  intros v ty sys d Hv Hd Hout.
  rewrite (whole_day_datetime_gen v ty sys d Hv Hd). cbv zeta.
  rewrite EXCEL_EPOCH_DAYS_val, MIN_DATE_DAYS_val, MAX_DATE_DAYS_val in *.
  destruct ((_ <? _) || (_ <? _)) eqn:E; [reflexivity|].
  unfold shim in E. destruct (60 <=? _); lia.
Qed.

Theorem whole_day_duration : forall v ty sys d, int_val v d -> Z.abs d <= 104249991 ->
  edt_as_duration {| edt_value := v; edt_is_duration := ty; edt_is_1904 := sys |} =
  Ok (Some (d * 86400, 0)).
Proof.
  intros v ty sys d Hv Hd. rewrite edt_as_duration_char. cbv zeta. cbn [edt_value].
  assert (Hms : int_val (duration_ms_float v) (d * 86400000)).
  { unfold duration_ms_float. apply f64_round_int. apply whole_day_exact; assumption. }
  destruct (int_in_range _ _ Hms ltac:(pows; lia)) as [G T]. rewrite G, T.
  unfold td_of_ms. do 3 f_equal; lia.
Qed.

(* ---------- real-number reading of a successful conversion ---------- *)
Open Scope R_scope.
Definition shifted_real (v : R) (sys : bool) : R :=
  let f := if sys then rnd64 (v + 1462) else v in
  if Rle_bool 60 f then f else rnd64 (f + 1).
Definition ms_real (v : R) (sys : bool) : Z :=
  ZnearestA (rnd64 (shifted_real v sys * 86400000)).
Close Scope R_scope.

Lemma B2R_const : forall c n, int_val c n -> B2R64 c = IZR n.
Proof. intros c n [_ H]. exact H. Qed.

Lemma f64_ge_60_real : forall f, f64_is_finite f = true ->
  f64_ge f F60 = Rle_bool 60 (B2R64 f).
Proof.
  intros f Hf. unfold f64_ge.
  rewrite (f64_cmp_real _ _ Hf (proj1 F60_int)), (B2R_const _ _ F60_int).
  unfold Rle_bool. rewrite (Rcompare_sym 60).
  destruct (Rcompare (B2R64 f) 60); reflexivity.
Qed.

Lemma datetime_ms_real : forall v sys,
  f64_is_finite (datetime_ms_float v sys) = true ->
  f64_is_finite v = true /\
  f64_trunc (datetime_ms_float v sys) = ms_real (B2R64 v) sys /\
  f64_is_finite (offset_serial v sys) = true /\
  B2R64 (offset_serial v sys) = (if sys then rnd64 (B2R64 v + 1462) else B2R64 v).
Proof.
  intros v sys F. unfold datetime_ms_float in *.
  destruct (f64_round_real (f64_mul (shifted_serial v sys) MS_MULTIPLIER)) as [R1 R2].
  rewrite R2 in F. destruct (f64_mul_finite _ _ F) as (Fs & _ & M1).
  rewrite (B2R_const _ _ MS_MULTIPLIER_int) in M1.
  rewrite f64_trunc_real, R1, Ztrunc_IZR, M1. unfold ms_real.
  unfold shifted_serial in *. set (f := offset_serial v sys) in *.
  assert (Hf : f64_is_finite f = true).
  { destruct (f64_ge f F60); [exact Fs|]. apply (f64_add_finite _ _ Fs). }
  assert (Hv : f64_is_finite v = true /\
               B2R64 f = if sys then rnd64 (B2R64 v + 1462) else B2R64 v).
  { subst f. unfold offset_serial in *. destruct sys; [|auto]. destruct (f64_add_finite _ _ Hf) as (Fv & _ & A).
    rewrite (B2R_const _ _ DIFF_1904_int) in A. auto. }
  destruct Hv as [Fv Hv]. split; [exact Fv|]. split; [|auto].
  f_equal. f_equal. f_equal. unfold shifted_real. rewrite <- Hv.
  rewrite (f64_ge_60_real _ Hf) in *.
  destruct (Rle_bool 60 (B2R64 f)); [reflexivity|].
  destruct (f64_add_finite _ _ Fs) as (_ & _ & A). rewrite (B2R_const _ _ F1_int) in A. exact A.
Qed.

(* ---------- monotonicity ---------- *)
Lemma rnd64_le : forall x y, (x <= y)%R -> (rnd64 x <= rnd64 y)%R.
Proof. intros x y H. apply round_le; [apply FLT_exp_valid; reflexivity|apply valid_rnd_N|exact H]. Qed.

Lemma rnd64_int : forall n, Z.abs n <= 2 ^ 53 -> rnd64 (IZR n) = IZR n.
Proof.
  intros n H. apply round_generic; [apply valid_rnd_N|apply int_format; exact H].
Qed.

Lemma shifted_real_mono : forall a b (sys : bool), (a <= b)%R ->
  (let fb := if sys then rnd64 (b + 1462) else b in ~ (60 <= fb < 61))%R ->
  (shifted_real a sys <= shifted_real b sys)%R.
Proof.
  intros a b sys Hab Hk. unfold shifted_real. cbv zeta in Hk.
  set (fa := if sys then rnd64 (a + 1462) else a).
  set (fb := if sys then rnd64 (b + 1462) else b) in *.
  assert (Hf : (fa <= fb)%R).
  { subst fa fb. destruct sys; [apply rnd64_le; lra|exact Hab]. }
  destruct (Rle_bool_spec 60 fa) as [Ha|Ha]; destruct (Rle_bool_spec 60 fb) as [Hb|Hb].
  - exact Hf.
  - lra.
  - apply Rle_trans with 61%R; [|lra].
    rewrite <- (rnd64_int 61) by (vm_compute; discriminate).
    apply rnd64_le. lra.
  - apply rnd64_le. lra.
Qed.

Lemma ms_real_mono : forall a b (sys : bool), (a <= b)%R ->
  (let fb := if sys then rnd64 (b + 1462) else b in ~ (60 <= fb < 61))%R ->
  ms_real a sys <= ms_real b sys.
Proof.
  intros a b sys Hab Hk. unfold ms_real. apply Zrnd_le; [apply valid_rnd_N|].
  apply rnd64_le. apply Rmult_le_compat_r; [lra|]. apply shifted_real_mono; assumption.
Qed.

Lemma epoch_plus_ms_millis : forall n r, epoch_plus_ms n = Some r ->
  dt_millis r = EXCEL_EPOCH_DAYS * MS_PER_DAY + n /\
  MIN_DATE_DAYS <= dt_days r <= MAX_DATE_DAYS /\
  0 <= fst (dt_time r) < 86400 /\ 0 <= snd (dt_time r) < 1000000000 /\
  snd (dt_time r) mod 1000000 = 0.
Proof.
  intros n r H. unfold epoch_plus_ms in H.
  destruct ((_ <? _) || (_ <? _)) eqn:E; [discriminate|]. inversion H; subst r; clear H.
  unfold dt_millis, MS_PER_DAY in *. cbn [dt_days dt_time fst snd]. 
  repeat split; try lia.
Qed.

Lemma datetime_some_real : forall v ty sys r,
  edt_as_datetime {| edt_value := v; edt_is_duration := ty; edt_is_1904 := sys |} = Ok (Some r) ->
  f64_is_finite v = true /\ epoch_plus_ms (ms_real (B2R64 v) sys) = Some r /\
  f64_is_finite (offset_serial v sys) = true /\
  B2R64 (offset_serial v sys) = (if sys then rnd64 (B2R64 v + 1462) else B2R64 v).
Proof.
  intros v ty sys r H. rewrite edt_as_datetime_char in H. cbv zeta in H.
  cbn [edt_value edt_is_1904] in H.
  destruct (ms_out_of_range _) eqn:G; [discriminate|].
  destruct (guard_spec _ G) as (Fm & _ & _).
  destruct (datetime_ms_real v sys Fm) as (Fv & Ht & Ff & Hf).
  rewrite Ht in H. inversion H. auto.
Qed.

Theorem serial_monotone : forall a b ty1 ty2 sys ra rb,
  f64_le a b = true -> known_C11 b sys = None ->
  edt_as_datetime {| edt_value := a; edt_is_duration := ty1; edt_is_1904 := sys |} = Ok (Some ra) ->
  edt_as_datetime {| edt_value := b; edt_is_duration := ty2; edt_is_1904 := sys |} = Ok (Some rb) ->
  dt_le ra rb.
Proof.
  intros a b ty1 ty2 sys ra rb Hle Hk Ha Hb.
  destruct (datetime_some_real _ _ _ _ Ha) as (Fa & Ea & _ & _).
  destruct (datetime_some_real _ _ _ _ Hb) as (Fb & Eb & Ffb & Hfb).
  destruct (epoch_plus_ms_millis _ _ Ea) as (Ma & _). destruct (epoch_plus_ms_millis _ _ Eb) as (Mb & _).
  unfold dt_le. rewrite Ma, Mb.
  assert (Hab : (B2R64 a <= B2R64 b)%R).
  { unfold f64_le in Hle. rewrite (f64_cmp_real _ _ Fa Fb) in Hle.
    destruct (Rcompare_spec (B2R64 a) (B2R64 b)); try discriminate; lra. }
  assert (Hcls : (let fb := if sys then rnd64 (B2R64 b + 1462) else B2R64 b in ~ (60 <= fb < 61))%R).
  { cbv zeta. rewrite <- Hfb. intros [H1 H2]. unfold known_C11 in Hk.
    set (f := offset_serial b sys) in *.
    destruct (f64_ge f F60 && f64_lt f F61) eqn:E; [discriminate|].
    rewrite (f64_ge_60_real _ Ffb) in E. unfold f64_lt in E.
    rewrite (f64_cmp_real _ _ Ffb (proj1 F61_int)), (B2R_const _ _ F61_int) in E.
    destruct (Rle_bool_spec 60 (B2R64 f)); [|lra].
    rewrite (Rcompare_Lt _ _ H2) in E. discriminate E. }
  pose proof (ms_real_mono _ _ sys Hab Hcls). lia.
Qed.

(* ---------- the spreadsheet convention on whole serials ---------- *)
Lemma known_C11_int : forall v sys d, int_val v d -> Z.abs d <= WHOLE_DAY_BOUND ->
  known_C11 v sys = if d + offset_1904 sys =? 60 then Some FICTITIOUS_LEAP_DAY else None.
Proof.
  intros v sys d Hv Hd. unfold known_C11. unfold WHOLE_DAY_BOUND in Hd. pows.
  set (f := offset_serial v sys).
  assert (Hf : int_val f (d + offset_1904 sys)).
  { subst f. unfold offset_serial. destruct sys; cbn [offset_1904].
    - apply f64_add_int; [exact Hv|exact DIFF_1904_int|pows; lia].
    - replace (d + 0) with d by lia. exact Hv. }
  unfold f64_ge, f64_lt.
  rewrite (f64_cmp_int _ _ _ _ Hf F60_int), (f64_cmp_int _ _ _ _ Hf F61_int).
  set (k := d + offset_1904 sys). 
  destruct (Z.compare_spec k 60) as [C|C|C]; destruct (Z.compare_spec k 61) as [C2|C2|C2];
    cbn [andb]; destruct (k =? 60) eqn:E; try reflexivity; lia.
Qed.

(* every whole serial of the supported span, in both date systems, outside the known class,
   converts to midnight of the date the spreadsheet convention assigns to it *)
Theorem whole_serials : forall v ty sys d, int_val v d -> 0 <= d <= 2958465 ->
  known_C11 v sys = None ->
  edt_as_datetime {| edt_value := v; edt_is_duration := ty; edt_is_1904 := sys |} =
  Ok (Some (at_midnight (spec_days sys d))).
Proof.
  intros v ty sys d Hv Hd Hk.
  assert (Hb : Z.abs d <= WHOLE_DAY_BOUND) by (unfold WHOLE_DAY_BOUND; lia).
  rewrite (known_C11_int v sys d Hv Hb) in Hk.
  rewrite (whole_day_datetime v ty sys d Hv) by lia. do 3 f_equal.
  rewrite EXCEL_EPOCH_DAYS_val. unfold spec_days, spec_days_1904, spec_days_1900, shim.
  change (days_of_civil 1904 1 1) with (-24107). change (days_of_civil 1899 12 31) with (-25568).
  change (days_of_civil 1900 3 1) with (-25508).
  destruct sys; cbn [offset_1904] in *.
  - destruct (60 <=? d + 1462) eqn:E; lia.
  - destruct (d + 0 =? 60) eqn:E0; [discriminate|].
    destruct (60 <=? d + 0) eqn:E; destruct (d <? 60) eqn:E2; lia.
Qed.

(* the anchors named in the property text, 1900 system *)
Theorem serial_1900_anchors : forall v ty d, int_val v d ->
  let r := edt_as_datetime {| edt_value := v; edt_is_duration := ty; edt_is_1904 := false |} in
  (d = 1 -> r = Ok (Some (at_midnight (days_of_civil 1900 1 1)))) /\
  (1 <= d <= 59 -> r = Ok (Some (at_midnight (days_of_civil 1899 12 31 + d)))) /\
  (d = 61 -> r = Ok (Some (at_midnight (days_of_civil 1900 3 1)))) /\
  (61 <= d <= 2958465 -> r = Ok (Some (at_midnight (days_of_civil 1900 3 1 + (d - 61))))).
Proof.
  intros v ty d Hv r. subst r.
  assert (H : 0 <= d <= 2958465 -> d <> 60 ->
    edt_as_datetime {| edt_value := v; edt_is_duration := ty; edt_is_1904 := false |} =
    Ok (Some (at_midnight (spec_days false d)))).
  { intros Hd Hne. apply whole_serials; [exact Hv|exact Hd|].
    rewrite (known_C11_int v false d Hv) by (unfold WHOLE_DAY_BOUND; pows; lia).
    cbn [offset_1904]. destruct (d + 0 =? 60) eqn:E; [lia|reflexivity]. }
  unfold spec_days, spec_days_1900 in H.
  repeat split; intros Hd; rewrite H by lia.
  - subst d. reflexivity.
  - destruct (d <? 60) eqn:E; [reflexivity|lia].
  - subst d. reflexivity.
  - destruct (d <? 60) eqn:E; [lia|reflexivity].
Qed.

(* 1904 system: serial 0 is 1904-01-01, one day per unit *)
Theorem serial_1904 : forall v ty d, int_val v d -> 0 <= d <= 2958465 ->
  edt_as_datetime {| edt_value := v; edt_is_duration := ty; edt_is_1904 := true |} =
  Ok (Some (at_midnight (days_of_civil 1904 1 1 + d))).
Proof.
  intros v ty d Hv Hd.
  rewrite (whole_serials v ty true d Hv Hd); [reflexivity|].
  rewrite (known_C11_int v true d Hv) by (unfold WHOLE_DAY_BOUND; pows; lia).
  cbn [offset_1904]. destruct (d + 1462 =? 60) eqn:E; [lia|reflexivity].
Qed.

(* the calendar dates of the anchors *)
Lemma anchor_dates :
  civil_of_days (days_of_civil 1900 1 1) = (1900, 1, 1) /\
  civil_of_days (days_of_civil 1899 12 31 + 59) = (1900, 2, 28) /\
  civil_of_days (days_of_civil 1900 3 1) = (1900, 3, 1) /\
  civil_of_days (days_of_civil 1900 3 1 + (2958465 - 61)) = (9999, 12, 31) /\
  civil_of_days (days_of_civil 1904 1 1) = (1904, 1, 1) /\
  civil_of_days EXCEL_EPOCH_DAYS = (1899, 12, 30).
Proof. repeat split; reflexivity. Qed.

(* the fictitious day itself: serial 60 lands on the date of serial 59 *)
Theorem serial_60_is_feb_28 : forall v ty, int_val v 60 ->
  edt_as_datetime {| edt_value := v; edt_is_duration := ty; edt_is_1904 := false |} =
  Ok (Some (at_midnight (days_of_civil 1900 2 28))).
Proof.
  intros v ty Hv. rewrite (whole_day_datetime v ty false 60 Hv) by (vm_compute; discriminate).
  reflexivity.
Qed.

(* ---------- the known class is real: non-monotone at the fictitious leap day ---------- *)
Definition BITS_59_5 : Z := 0x404DC00000000000.   (* 59.5 *)
Definition BITS_60_0 : Z := 0x404E000000000000.   (* 60.0 *)
Theorem refuted_fictitious_leap_day :
  exists a b ra rb,
    f64_le a b = true /\ known_C11 b false = Some FICTITIOUS_LEAP_DAY /\
    edt_as_datetime (from_value_only a) = Ok (Some ra) /\
    edt_as_datetime (from_value_only b) = Ok (Some rb) /\
    ~ dt_le ra rb.
Proof.
  exists (f64_of_bits BITS_59_5), (f64_of_bits BITS_60_0).
  exists {| dt_days := days_of_civil 1900 2 28; dt_time := (43200, 0) |}.
  exists {| dt_days := days_of_civil 1900 2 28; dt_time := (0, 0) |}.
  split; [vm_compute; reflexivity|]. split; [vm_compute; reflexivity|].
  split; [vm_compute; reflexivity|]. split; [vm_compute; reflexivity|].
  unfold dt_le. vm_compute. intros H. apply H. reflexivity.
Qed.

(* ---------- a Some result is the epoch plus the rounded millisecond count, nothing else ---------- *)
Theorem datetime_some_sound : forall v ty sys r,
  edt_as_datetime {| edt_value := v; edt_is_duration := ty; edt_is_1904 := sys |} = Ok (Some r) ->
  f64_is_finite v = true /\
  dt_millis r = EXCEL_EPOCH_DAYS * MS_PER_DAY + ms_real (B2R64 v) sys /\
  MIN_DATE_DAYS <= dt_days r <= MAX_DATE_DAYS /\
  0 <= fst (dt_time r) < 86400 /\ 0 <= snd (dt_time r) < 1000000000 /\
  snd (dt_time r) mod 1000000 = 0.
Proof.
  intros v ty sys r H. destruct (datetime_some_real _ _ _ _ H) as (Fv & E & _).
  split; [exact Fv|]. apply epoch_plus_ms_millis. exact E.
Qed.

Lemma duration_ms_real : forall v, f64_is_finite (duration_ms_float v) = true ->
  f64_is_finite v = true /\
  f64_trunc (duration_ms_float v) = ZnearestA (rnd64 (B2R64 v * 86400000)).
Proof.
  intros v F. unfold duration_ms_float in *.
  destruct (f64_round_real (f64_mul v MS_MULTIPLIER)) as [R1 R2].
  rewrite R2 in F. destruct (f64_mul_finite _ _ F) as (Fv & _ & M1).
  rewrite (B2R_const _ _ MS_MULTIPLIER_int) in M1.
  split; [exact Fv|]. rewrite f64_trunc_real, R1, Ztrunc_IZR, M1. reflexivity.
Qed.

(* NaN and the infinities have neither a date nor a duration *)
Theorem nonfinite_none : forall v ty sys, f64_is_finite v = false ->
  edt_as_datetime {| edt_value := v; edt_is_duration := ty; edt_is_1904 := sys |} = Ok None /\
  edt_as_duration {| edt_value := v; edt_is_duration := ty; edt_is_1904 := sys |} = Ok None.
Proof.
  intros v ty sys Fv. rewrite edt_as_datetime_char, edt_as_duration_char. cbv zeta.
  cbn [edt_value edt_is_1904]. split.
  - destruct (ms_out_of_range _) eqn:G; [reflexivity|]. exfalso.
    destruct (guard_spec _ G) as (Fm & _). destruct (datetime_ms_real v sys Fm) as (Fv' & _).
    congruence.
  - destruct (ms_out_of_range _) eqn:G; [reflexivity|]. exfalso.
    destruct (guard_spec _ G) as (Fm & _). destruct (duration_ms_real v Fm) as (Fv' & _).
    congruence.
Qed.

(* a serial whose day lies outside chrono's calendar gives None, never a wrong date *)
Theorem beyond_calendar_none : forall v ty sys,
  f64_is_finite v = true ->
  (let days := EXCEL_EPOCH_DAYS + ms_real (B2R64 v) sys / MS_PER_DAY in
   days < MIN_DATE_DAYS \/ MAX_DATE_DAYS < days) ->
  edt_as_datetime {| edt_value := v; edt_is_duration := ty; edt_is_1904 := sys |} = Ok None.
Proof.
  intros v ty sys Fv Hout. cbv zeta in Hout. rewrite edt_as_datetime_char. cbv zeta.
  cbn [edt_value edt_is_1904].
  destruct (ms_out_of_range _) eqn:G; [reflexivity|].
  destruct (guard_spec _ G) as (Fm & _). destruct (datetime_ms_real v sys Fm) as (_ & Ht & _).
  rewrite Ht. unfold epoch_plus_ms.
  destruct ((_ <? _) || (_ <? _)) eqn:E; [reflexivity|lia].
Qed.

(* ---------- milliseconds: nearest, ties away, up to the error of the one multiplication ------- *)
Open Scope R_scope.
Lemma nearest_of_rounded : forall x, Rabs x < bpow radix2 48 ->
  Rabs (IZR (ZnearestA (rnd64 x)) - x) <= /2 + bpow radix2 (-6).
Proof.
  intros x Hx. pose proof (rnd64_error_48 x Hx) as H1.
  pose proof (Znearest_half (Z.leb 0) (rnd64 x)) as H2.
  replace (IZR (ZnearestA (rnd64 x)) - x) with
    (- (rnd64 x - IZR (ZnearestA (rnd64 x))) + (rnd64 x - x)) by ring.
  eapply Rle_trans; [apply Rabs_triang|]. rewrite Rabs_Ropp. lra.
Qed.
Close Scope R_scope.

Theorem ms_rounding : forall v ty sys r,
  edt_as_datetime {| edt_value := v; edt_is_duration := ty; edt_is_1904 := sys |} = Ok (Some r) ->
  (Rabs (shifted_real (B2R64 v) sys * 86400000) < bpow radix2 48)%R ->
  (Rabs (IZR (dt_millis r - EXCEL_EPOCH_DAYS * MS_PER_DAY)
         - shifted_real (B2R64 v) sys * 86400000) <= /2 + bpow radix2 (-6))%R.
Proof.
  intros v ty sys r H Hx. destruct (datetime_some_sound _ _ _ _ H) as (_ & M & _).
  replace (dt_millis r - EXCEL_EPOCH_DAYS * MS_PER_DAY) with (ms_real (B2R64 v) sys) by lia.
  unfold ms_real. apply nearest_of_rounded. exact Hx.
Qed.

(* ---------- durations ---------- *)
Theorem duration_is_serial_times_24h : forall v ty sys r,
  edt_as_duration {| edt_value := v; edt_is_duration := ty; edt_is_1904 := sys |} = Ok (Some r) ->
  let n := ZnearestA (rnd64 (B2R64 v * 86400000)) in
  f64_is_finite v = true /\ r = td_of_ms n /\ td_num_milliseconds r = n /\ Z.abs n < 2 ^ 63 /\
  ((Rabs (B2R64 v * 86400000) < bpow radix2 48)%R ->
   (Rabs (IZR n - B2R64 v * 86400000) <= /2 + bpow radix2 (-6))%R).
Proof.
  intros v ty sys r H n. rewrite edt_as_duration_char in H. cbv zeta in H. cbn [edt_value] in H.
  destruct (ms_out_of_range _) eqn:G; [discriminate|].
  destruct (guard_spec _ G) as (Fm & _ & Hb). destruct (duration_ms_real v Fm) as (Fv & Ht).
  rewrite Ht in H, Hb. fold n in H, Hb. inversion H; subst r; clear H.
  split; [exact Fv|]. split; [reflexivity|]. split.
  - unfold td_num_milliseconds, td_of_ms. cbn [fst snd]. lia.
  - split; [exact Hb|]. intros Hx. subst n. apply nearest_of_rounded. exact Hx.
Qed.

(* ---------- plain Int/Float cells convert like 1900-system date-times ---------- *)
Theorem plain_cells_are_1900 :
  (forall f ty, data_as_datetime (CFloat f) =
     data_as_datetime (CDateTime {| edt_value := f; edt_is_duration := ty; edt_is_1904 := false |})) /\
  (forall i, data_as_datetime (CInt i) = data_as_datetime (CFloat (f64_of_Z i))) /\
  (forall i, Z.abs i <= 2 ^ 53 -> int_val (f64_of_Z i) i) /\
  (forall f, data_as_duration (CFloat f) = Ok None) /\
  (forall i, data_as_duration (CInt i) = Ok None) /\
  (forall x, data_as_duration (CDateTime x) = edt_as_duration x).
Proof.
  repeat split; try reflexivity. apply f64_of_Z_int. assumption. apply f64_of_Z_int. assumption.
Qed.

(* ---------- the real-number reading on whole serials; non-vacuity witnesses ---------- *)
Lemma shifted_real_whole : forall d sys, Z.abs d <= WHOLE_DAY_BOUND ->
  shifted_real (IZR d) sys = IZR (shim (d + offset_1904 sys)).
Proof.
  intros d sys Hd. unfold WHOLE_DAY_BOUND in Hd. unfold shifted_real.
  set (f := if sys then rnd64 (IZR d + 1462) else IZR d).
  assert (Hf : f = IZR (d + offset_1904 sys)).
  { subst f. destruct sys; cbn [offset_1904].
    - rewrite <- plus_IZR. apply rnd64_int. pows. lia.
    - f_equal. lia. }
  rewrite Hf. set (k := d + offset_1904 sys).
  assert (Hk : Z.abs k <= 104248528 + 1462) by (subst k; destruct sys; cbn [offset_1904]; lia).
  unfold shim. destruct (Rle_bool_spec 60 (IZR k)) as [H|H].
  - apply le_IZR in H. replace (60 <=? k) with true by lia. reflexivity.
  - apply lt_IZR in H. replace (60 <=? k) with false by lia.
    rewrite <- plus_IZR. apply rnd64_int. pows. lia.
Qed.

Lemma ms_real_whole : forall d sys, Z.abs d <= WHOLE_DAY_BOUND ->
  ms_real (IZR d) sys = shim (d + offset_1904 sys) * 86400000.
Proof.
  intros d sys Hd. unfold ms_real. rewrite (shifted_real_whole d sys Hd), <- mult_IZR.
  rewrite rnd64_int; [apply Zrnd_IZR; apply valid_rnd_N|].
  unfold WHOLE_DAY_BOUND in Hd. pows. unfold shim.
  destruct sys; cbn [offset_1904]; destruct (60 <=? _); lia.
Qed.

Definition V45000 : f64 := f64_of_Z 45000.      (* 2023-03-15 in the 1900 system *)
Lemma V45000_int : int_val V45000 45000.
Proof. apply f64_of_Z_int. vm_compute. discriminate. Qed.

Example whole_serials_nonvacuous :
  int_val V45000 45000 /\ 0 <= 45000 <= 2958465 /\ known_C11 V45000 false = None /\
  known_C11 V45000 true = None /\
  edt_as_datetime (from_value_only V45000) = Ok (Some (at_midnight (days_of_civil 2023 3 15))) /\
  bits_of_f64 V45000 = 0x40E5F90000000000.
Proof. split; [exact V45000_int|]. repeat split; try lia; vm_compute; reflexivity. Qed.

(* 0.5 <= 1.25, both outside the known class, both convert *)
Example serial_monotone_nonvacuous :
  let a := f64_of_bits 0x3FE0000000000000 in let b := f64_of_bits 0x3FF4000000000000 in
  f64_le a b = true /\ known_C11 b false = None /\
  edt_as_datetime (from_value_only a) =
    Ok (Some {| dt_days := days_of_civil 1899 12 31; dt_time := (43200, 0) |}) /\
  edt_as_datetime (from_value_only b) =
    Ok (Some {| dt_days := days_of_civil 1900 1 1; dt_time := (21600, 0) |}).
Proof. repeat split; vm_compute; reflexivity. Qed.

Example ms_rounding_nonvacuous :
  edt_as_datetime (from_value_only V45000) = Ok (Some (at_midnight (days_of_civil 2023 3 15))) /\
  (Rabs (shifted_real (B2R64 V45000) false * 86400000) < bpow radix2 48)%R.
Proof.
  split; [vm_compute; reflexivity|].
  rewrite (proj2 V45000_int), shifted_real_whole by (vm_compute; discriminate).
  rewrite <- mult_IZR, <- abs_IZR. change (bpow radix2 48) with (IZR (2 ^ 48)).
  apply IZR_lt. vm_compute. reflexivity.
Qed.

(* the first whole serial past chrono's last date (262142-12-31) *)
Definition V_BEYOND : f64 := f64_of_Z 95051806.
Example beyond_calendar_nonvacuous :
  f64_is_finite V_BEYOND = true /\
  (let days := EXCEL_EPOCH_DAYS + ms_real (B2R64 V_BEYOND) false / MS_PER_DAY in
   days < MIN_DATE_DAYS \/ MAX_DATE_DAYS < days) /\
  civil_of_days (MAX_DATE_DAYS + 1) = (262143, 1, 1) /\
  edt_as_datetime (from_value_only (f64_of_Z 95051805)) = Ok (Some (at_midnight MAX_DATE_DAYS)).
Proof.
  assert (H : int_val V_BEYOND 95051806) by (apply f64_of_Z_int; vm_compute; discriminate).
  split; [exact (proj1 H)|]. split; [|split; vm_compute; reflexivity].
  cbv zeta. right. rewrite (proj2 H), ms_real_whole by (vm_compute; discriminate).
  vm_compute. reflexivity.
Qed.

Example duration_nonvacuous :
  edt_as_duration {| edt_value := f64_of_bits 0x3FF8000000000000; edt_is_duration := true;
                     edt_is_1904 := false |} = Ok (Some (129600, 0)).     (* 1.5 days = 36 h *)
Proof. vm_compute. reflexivity. Qed.

Example nonfinite_nonvacuous :
  f64_is_finite (f64_of_bits 0x7FF8000000000000) = false /\       (* NaN *)
  f64_is_finite (f64_of_bits 0x7FF0000000000000) = false /\       (* +inf *)
  f64_is_finite (f64_of_bits 0xFFF0000000000000) = false.         (* -inf *)
Proof. repeat split; vm_compute; reflexivity. Qed.

(* the statement of no-panic on raw 64-bit patterns *)
Lemma no_panic_bits : forall bits ty sys,
  edt_as_datetime {| edt_value := f64_of_bits bits; edt_is_duration := ty; edt_is_1904 := sys |}
    <> Panic /\
  edt_as_duration {| edt_value := f64_of_bits bits; edt_is_duration := ty; edt_is_1904 := sys |}
    <> Panic.
Proof.
  intros bits ty sys.
  destruct (edt_no_panic {| edt_value := f64_of_bits bits; edt_is_duration := ty;
                            edt_is_1904 := sys |}) as [[r1 H1] [r2 H2]].
  rewrite H1, H2. split; discriminate.
Qed.

(* durations are monotone in the serial (no known class here: no shim) *)
Theorem duration_monotone : forall a b ty1 ty2 s1 s2 ra rb,
  f64_le a b = true ->
  edt_as_duration {| edt_value := a; edt_is_duration := ty1; edt_is_1904 := s1 |} = Ok (Some ra) ->
  edt_as_duration {| edt_value := b; edt_is_duration := ty2; edt_is_1904 := s2 |} = Ok (Some rb) ->
  td_num_milliseconds ra <= td_num_milliseconds rb.
Proof.
  intros a b ty1 ty2 s1 s2 ra rb Hle Ha Hb.
  destruct (duration_is_serial_times_24h _ _ _ _ Ha) as (Fa & _ & Na & _).
  destruct (duration_is_serial_times_24h _ _ _ _ Hb) as (Fb & _ & Nb & _).
  rewrite Na, Nb.
  assert (Hab : (B2R64 a <= B2R64 b)%R).
  { unfold f64_le in Hle. rewrite (f64_cmp_real _ _ Fa Fb) in Hle.
    destruct (Rcompare_spec (B2R64 a) (B2R64 b)); try discriminate; lra. }
  apply Zrnd_le; [apply valid_rnd_N|]. apply rnd64_le. apply Rmult_le_compat_r; [lra|exact Hab].
Qed.


(* ---------- the serde helpers ---------- *)
Lemma edt_as_datetime_type_irrelevant : forall v t1 t2 sys,
  edt_as_datetime {| edt_value := v; edt_is_duration := t1; edt_is_1904 := sys |} =
  edt_as_datetime {| edt_value := v; edt_is_duration := t2; edt_is_1904 := sys |}.
Proof. reflexivity. Qed.

(* the variant name carries the type and the date system: a DateTime cell comes back as itself *)
Lemma of_cell_variant_roundtrip : forall x,
  of_cell_variant (cell_variant x) (edt_value x) = Some x.
Proof. intros [v [|] [|]]; reflexivity. Qed.

(* Data::deserialize_from(cell deserializer, true) reproduces every cell that is not an error *)
Theorem de_roundtrip_id : forall c, c <> CError -> de_roundtrip c = Ok c.
Proof.
  intros c Hc. destruct c as [i|f|x| |]; try reflexivity; [|congruence].
  unfold de_roundtrip. rewrite of_cell_variant_roundtrip. reflexivity.
Qed.

(* a helper returns the cell's own conversion: for every cell, including DateTime cells of a
   1904-system workbook and of the TimeDelta flavour *)
Theorem helpers_agree : forall c, c <> CError ->
  helper_as_datetime c = data_as_datetime c /\ helper_as_date c = data_as_date c /\
  helper_as_time c = data_as_time c /\ helper_as_duration c = data_as_duration c.
Proof.
  intros c Hc.
  unfold helper_as_datetime, helper_as_date, helper_as_time, helper_as_duration.
  rewrite (@de_roundtrip_id c Hc). cbn [obind]. repeat split; reflexivity.
Qed.

(* ... in particular for a DateTime cell, whatever its value, type and date system *)
Corollary helpers_datetime_cell : forall v ty sys,
  let x := {| edt_value := v; edt_is_duration := ty; edt_is_1904 := sys |} in
  helper_as_datetime (CDateTime x) = edt_as_datetime x /\
  helper_as_date (CDateTime x) = data_as_date (CDateTime x) /\
  helper_as_time (CDateTime x) = data_as_time (CDateTime x) /\
  helper_as_duration (CDateTime x) = edt_as_duration x.
Proof.
  intros v ty sys x.
  assert (Hc : CDateTime x <> CError) by discriminate.
  destruct (@helpers_agree (CDateTime x) Hc) as (H1 & H2 & H3 & H4). repeat split; assumption.
Qed.

(* an error cell fails the deserialization (DeError::CellError), for every helper *)
Theorem helpers_error_cell :
  helper_as_datetime CError = Err 1 /\ helper_as_date CError = Err 1 /\
  helper_as_time CError = Err 1 /\ helper_as_duration CError = Err 1.
Proof. repeat split; reflexivity. Qed.

Theorem helpers_no_panic : forall c,
  helper_as_datetime c <> Panic /\ helper_as_date c <> Panic /\
  helper_as_time c <> Panic /\ helper_as_duration c <> Panic.
Proof.
  intros c. unfold helper_as_datetime, helper_as_date, helper_as_time, helper_as_duration.
  destruct (de_roundtrip c) as [c'|e| |] eqn:E; cbn [obind].
  - destruct (data_no_panic c') as ([r1 H1] & [r2 H2] & [r3 H3] & [r4 H4]).
    rewrite H1, H2, H3, H4. repeat split; discriminate.
  - repeat split; discriminate.
  - destruct c as [i|f|x| |]; try discriminate E.
    unfold de_roundtrip in E. rewrite of_cell_variant_roundtrip in E. discriminate E.
  - destruct c as [i|f|x| |]; try discriminate E.
    unfold de_roundtrip in E. rewrite of_cell_variant_roundtrip in E. discriminate E.
Qed.

(* the former witnesses of F34 and F35 (fixed): the helpers now return the cell's conversion *)
Definition CELL_1904 : cell :=         (* 45000.5 in a 1904-system workbook *)
  CDateTime {| edt_value := f64_of_bits 0x40E5F91000000000; edt_is_duration := false;
               edt_is_1904 := true |}.
Definition CELL_36H : cell :=          (* 1.5 days, [h]:mm:ss format *)
  CDateTime {| edt_value := f64_of_bits 0x3FF8000000000000; edt_is_duration := true;
               edt_is_1904 := false |}.

Example helper_keeps_1904 :
  helper_as_datetime CELL_1904 =
    Ok (Some {| dt_days := days_of_civil 2027 3 16; dt_time := (43200, 0) |}) /\
  helper_as_datetime CELL_1904 = data_as_datetime CELL_1904.
Proof. split; vm_compute; reflexivity. Qed.

Example helper_duration_some :
  helper_as_duration CELL_36H = Ok (Some (129600, 0)) /\
  helper_as_duration CELL_36H = data_as_duration CELL_36H.
Proof. split; vm_compute; reflexivity. Qed.

Example helpers_agree_nonvacuous :
  let c := CDateTime {| edt_value := V45000; edt_is_duration := false; edt_is_1904 := false |} in
  c <> CError /\
  helper_as_datetime c = Ok (Some (at_midnight (days_of_civil 2023 3 15))).
Proof. split; [discriminate|]. vm_compute; reflexivity. Qed.
