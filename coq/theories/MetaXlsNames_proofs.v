(* MetaXlsNames_proofs: xls defined names (Lbl records, ExternSheet table, name -> sheet
   resolution) and the whole xls report (property C16, xls). *)
From Calamine Require Import Prelude BiffSst BiffSst_proofs Meta Meta_proofs MetaXls_proofs
     MetaXlsb_proofs.
From Calamine Require Col26 Col26_proofs Utf16 Utf16_proofs Ptg Ptg_proofs NumFmt NumFmt_proofs
     FormulaEnv FormulaEnv_proofs.
Open Scope N_scope.

(* ------------------------------------------------------------------------------------- *)
(** * parse_defined_names on the encoded token *)

Lemma u16_in_mid : forall (pre post : bytes) v from, from = len pre ->
  u16_in (pre ++ le16 v ++ post) from = Ok v.
Proof.
  intros pre post v from ->. unfold u16_in.
  rewrite (slice_mid pre (le16 v) post (len pre) (len pre + 2) eq_refl eq_refl). cbn [obind].
  rewrite <- (app_nil_r (le16 v)). apply read_u16_le16.
Qed.

Lemma push_ref : forall (a : Ptg.cref) buf, cref_ok a = true ->
  Col26.push_cell_ref (Ptg.cr_row a) (Ptg.cfield a) buf = Ok (buf ++ Ptg.render_cref a).
Proof.
  intros a buf H. unfold cref_ok in H. apply andb_true_iff in H. destruct H as [Hr Hc].
  unfold Ptg.cfield, Ptg.render_cref. apply Col26_proofs.push_cell_ref_spec; lia.
Qed.

Lemma defined_name_enc : forall x, xref_ok x = true ->
  xls_defined_name (xref_rgce x) = Ok (Some (xref_ixti x), xref_text x).
Proof.
  intros x Hok. destruct x as [k i a|k i a b|k i|k i]; cbn [xref_ok xref_ixti xref_text] in *.
  - (* PtgRef3d *)
    set (p := Ptg.cls_ptg 58 90 122 k).
    assert (Hp : is_ptg p 58 90 122 = true) by (unfold p; destruct k; reflexivity).
    set (R := xref_rgce (XRef k i a)).
    assert (HR : R = p :: le16 i ++ le16 (Ptg.cr_row a) ++ le16 (Ptg.cfield a)) by reflexivity.
    assert (E1 : u16_in R 1 = Ok i)
      by (apply (u16_in_mid [p] (le16 (Ptg.cr_row a) ++ le16 (Ptg.cfield a)) i 1 eq_refl)).
    assert (E3 : u16_in R 3 = Ok (Ptg.cr_row a))
      by (apply (u16_in_mid ([p] ++ le16 i) (le16 (Ptg.cfield a)) (Ptg.cr_row a) 3 eq_refl)).
    assert (E5 : u16_in R 5 = Ok (Ptg.cfield a))
      by (apply (u16_in_mid ([p] ++ le16 i ++ le16 (Ptg.cr_row a)) [] (Ptg.cfield a) 5 eq_refl)).
    assert (HL : (len R <? 7) = false) by reflexivity.
    unfold xls_defined_name. rewrite HR at 1. fold p. rewrite Hp, HL, E1, E3, E5. cbn [obind].
    rewrite (push_ref a [] Hok). reflexivity.
  - (* PtgArea3d *)
    apply andb_true_iff in Hok. destruct Hok as [Ha Hb].
    set (p := Ptg.cls_ptg 59 91 123 k).
    assert (Hp1 : is_ptg p 58 90 122 = false) by (unfold p; destruct k; reflexivity).
    assert (Hp : is_ptg p 59 91 123 = true) by (unfold p; destruct k; reflexivity).
    set (r1 := Ptg.cr_row a). set (r2 := Ptg.cr_row b).
    set (c1 := Ptg.cfield a). set (c2 := Ptg.cfield b).
    set (R := xref_rgce (XArea k i a b)).
    assert (HR : R = p :: le16 i ++ le16 r1 ++ le16 r2 ++ le16 c1 ++ le16 c2) by reflexivity.
    assert (E1 : u16_in R 1 = Ok i)
      by (apply (u16_in_mid [p] (le16 r1 ++ le16 r2 ++ le16 c1 ++ le16 c2) i 1 eq_refl)).
    assert (E3 : u16_in R 3 = Ok r1)
      by (apply (u16_in_mid ([p] ++ le16 i) (le16 r2 ++ le16 c1 ++ le16 c2) r1 3 eq_refl)).
    assert (E5 : u16_in R 5 = Ok r2)
      by (apply (u16_in_mid ([p] ++ le16 i ++ le16 r1) (le16 c1 ++ le16 c2) r2 5 eq_refl)).
    assert (E7 : u16_in R 7 = Ok c1)
      by (apply (u16_in_mid ([p] ++ le16 i ++ le16 r1 ++ le16 r2) (le16 c2) c1 7 eq_refl)).
    assert (E9 : u16_in R 9 = Ok c2)
      by (apply (u16_in_mid ([p] ++ le16 i ++ le16 r1 ++ le16 r2 ++ le16 c1) [] c2 9 eq_refl)).
    assert (HL : (len R <? 11) = false) by reflexivity.
    unfold xls_defined_name. rewrite HR at 1. fold p. rewrite Hp1, Hp, HL, E1, E3, E7, E5, E9.
    cbn [obind]. unfold r1, c1. rewrite (push_ref a [] Ha). cbn [obind app].
    unfold r2, c2. rewrite (push_ref b _ Hb). rewrite <- app_assoc. reflexivity.
  - (* PtgRefErr3d *)
    set (p := Ptg.cls_ptg 60 92 124 k).
    assert (Hp1 : is_ptg p 58 90 122 = false) by (unfold p; destruct k; reflexivity).
    assert (Hp2 : is_ptg p 59 91 123 = false) by (unfold p; destruct k; reflexivity).
    assert (Hp : is_ptg p 60 92 124 = true) by (unfold p; destruct k; reflexivity).
    set (R := xref_rgce (XRefErr k i)).
    assert (HR : R = p :: le16 i ++ [0; 0; 0; 0]) by reflexivity.
    assert (E1 : u16_in R 1 = Ok i) by (apply (u16_in_mid [p] [0; 0; 0; 0] i 1 eq_refl)).
    assert (HL : (len R <? 3) = false) by reflexivity.
    unfold xls_defined_name. rewrite HR at 1. fold p. rewrite Hp1, Hp2, Hp. cbn [orb].
    rewrite HL, E1. reflexivity.
  - (* PtgAreaErr3d *)
    set (p := Ptg.cls_ptg 61 93 125 k).
    assert (Hp1 : is_ptg p 58 90 122 = false) by (unfold p; destruct k; reflexivity).
    assert (Hp2 : is_ptg p 59 91 123 = false) by (unfold p; destruct k; reflexivity).
    assert (Hp3 : is_ptg p 60 92 124 = false) by (unfold p; destruct k; reflexivity).
    assert (Hp : is_ptg p 61 93 125 = true) by (unfold p; destruct k; reflexivity).
    set (R := xref_rgce (XAreaErr k i)).
    assert (HR : R = p :: le16 i ++ [0; 0; 0; 0; 0; 0; 0; 0]) by reflexivity.
    assert (E1 : u16_in R 1 = Ok i)
      by (apply (u16_in_mid [p] [0; 0; 0; 0; 0; 0; 0; 0] i 1 eq_refl)).
    assert (HL : (len R <? 3) = false) by reflexivity.
    unfold xls_defined_name. rewrite HR at 1. fold p. rewrite Hp1, Hp2, Hp3, Hp. cbn [orb].
    rewrite HL, E1. reflexivity.
Qed.

(* ------------------------------------------------------------------------------------- *)
(** * the Lbl record *)

Definition lbl_head (n : str * xref) (ch : ln_choice) : bytes :=
  le16 (ln_flags ch) ++ [ln_key ch; len (lbl_units (fst n) ch)] ++ le16 (len (xref_rgce (snd n)))
  ++ [0; 0] ++ le16 (ln_itab ch) ++ [0; 0; 0; 0].

Lemma lbl_split : forall n ch,
  lbl_body n ch = lbl_head n ch ++ (b2n (ln_wide ch) :: seg_bytes (ln_wide ch) (lbl_units (fst n) ch))
                  ++ xref_rgce (snd n).
Proof. reflexivity. Qed.

Lemma ustr_nocch_enc : forall wide us rest, seg_ok wide us = true -> all_lt 65536 us = true ->
  read_ustr_nocch (b2n wide :: seg_bytes wide us ++ rest) (len us) = utf16_decode us.
Proof.
  intros wide us rest Hs Hl. unfold read_ustr_nocch. rewrite odd_b2n.
  assert (Hn : (if wide then 2 * len us else len us) = len (seg_bytes wide us))
    by (rewrite len_seg_bytes; reflexivity).
  rewrite Hn. rewrite len_cons, len_app.
  replace (N.min (len (seg_bytes wide us) + len rest + 1) (1 + len (seg_bytes wide us)))
    with (1 + len (seg_bytes wide us)) by lia.
  destruct (1 <? 1 + len (seg_bytes wide us)) eqn:E.
  - replace (1 + len (seg_bytes wide us) - 1) with (len (seg_bytes wide us)) by lia.
    change (drop 1 (b2n wide :: seg_bytes wide us ++ rest)) with (seg_bytes wide us ++ rest).
    rewrite take_len_app. rewrite <- (app_nil_r (seg_bytes wide us)) at 1.
    rewrite (decode_to_exact wide us [] Hs Hl). reflexivity.
  - assert (H0 : len (seg_bytes wide us) = 0) by lia.
    rewrite len_seg_bytes in H0.
    assert (len us = 0) by (destruct wide; lia).
    destruct us; [reflexivity|]. rewrite len_cons in H. lia.
Qed.

(* built-in names: the id a legal record stores, and what the reader makes of it *)
Lemma builtin_id_facts : forall n id, builtin_id n = Some id ->
  id < 14 /\ exists b, FormulaEnv.builtin_name id = Some b /\ n = s_xlnm ++ b.
Proof.
  intros n id H. unfold builtin_id in H. apply find_some in H. destruct H as [Hin Hp].
  cbn [In] in Hin.
  repeat (destruct Hin as [<-|Hin]; [split; [lia|]; unfold builtin_full in Hp;
            cbn [FormulaEnv.builtin_name] in *; eexists; split; [reflexivity|];
            apply str_eqb_eq in Hp; symmetry; exact Hp|]).
  contradiction.
Qed.

Lemma lbl_units_legal : forall n ch, name_ok n = true -> len (units_of n) <= 255 ->
  wide_ok (ln_wide ch) n = true -> legal_short_string (ln_wide ch) (lbl_units n ch) = true.
Proof.
  intros n ch Hn Hl Hw. unfold lbl_units.
  destruct (N.testbit (ln_flags ch) 5); [|apply short_legal; assumption].
  destruct (builtin_id n) as [id|] eqn:E; [|apply short_legal; assumption].
  destruct (builtin_id_facts _ _ E) as [Hid _].
  unfold legal_short_string, seg_ok, all_lt. cbn [forallb len length].
  replace (id <? 65536) with true by lia. replace (id <? 256) with true by lia.
  destruct (ln_wide ch); reflexivity.
Qed.

Lemma lbl_name_decoded : forall n ch, name_ok n = true ->
  (negb (N.testbit (ln_flags ch) 5) || is_some (builtin_id n)) = true ->
  FormulaEnv.builtin_fix (ln_flags ch mod 256) (utf16_decode (lbl_units n ch)) = n.
Proof.
  intros n ch Hn Hb. destruct (name_ok_parts n Hn) as [Hsc _].
  unfold FormulaEnv.builtin_fix, lbl_units. rewrite FormulaEnv_proofs.testbit5_mod256.
  destruct (N.testbit (ln_flags ch) 5); cbn [negb orb] in Hb.
  - destruct (builtin_id n) as [id|] eqn:E; [|discriminate].
    destruct (builtin_id_facts _ _ E) as (Hid & b & Hb1 & ->).
    assert (Hc : id = 0 \/ id = 1 \/ id = 2 \/ id = 3 \/ id = 4 \/ id = 5 \/ id = 6 \/ id = 7 \/ id = 8
                 \/ id = 9 \/ id = 10 \/ id = 11 \/ id = 12 \/ id = 13) by lia.
    repeat (destruct Hc as [->|Hc]; [cbn [FormulaEnv.builtin_name] in Hb1; injection Hb1 as <-; vm_compute; reflexivity|]).
    subst id. cbn [FormulaEnv.builtin_name] in Hb1. injection Hb1 as <-. vm_compute. reflexivity.
  - unfold units_of. apply biff_decode_encode. exact Hsc.
Qed.

Lemma lbl_enc : forall nxti n ch, ln_legal nxti n ch = true ->
  xls_lbl (lbl_body n ch) = Ok (fst n, (Some (xref_ixti (snd n)), xref_text (snd n)), xref_rgce (snd n)).
Proof.
  intros nxti n ch H. unfold ln_legal in H.
  apply andb_true_iff in H. destruct H as [H Hbi].
  apply andb_true_iff in H. destruct H as [H Hitab].
  apply andb_true_iff in H. destruct H as [H Hkey].
  apply andb_true_iff in H. destruct H as [H Hfl].
  apply andb_true_iff in H. destruct H as [H Hix].
  apply andb_true_iff in H. destruct H as [H Hx].
  apply andb_true_iff in H. destruct H as [H Hw].
  apply andb_true_iff in H. destruct H as [Hn Hlen].
  assert (Hleg : legal_short_string (ln_wide ch) (lbl_units (fst n) ch) = true)
    by (apply lbl_units_legal; [assumption|lia|assumption]).
  destruct (legal_short_parts _ _ Hleg) as (Hcch & Hlt & Hseg).
  set (us := lbl_units (fst n) ch) in *. set (rgce := xref_rgce (snd n)).
  set (S1 := b2n (ln_wide ch) :: seg_bytes (ln_wide ch) us).
  assert (Hrg : len rgce <= 11) by (unfold rgce; destruct (snd n); cbn; lia).
  assert (Hd : lbl_body n ch = lbl_head n ch ++ S1 ++ rgce) by reflexivity.
  assert (HH : len (lbl_head n ch) = 14) by reflexivity.
  assert (Hlb : len (lbl_body n ch) = 14 + len S1 + len rgce)
    by (rewrite Hd, !len_app, HH; lia).
  unfold xls_lbl. rewrite Hlb.
  replace (14 + len S1 + len rgce <? 14) with false by lia.
  change (nth 3 (lbl_body n ch) 0) with (len us).
  change (nth 0 (lbl_body n ch) 0) with (ln_flags ch mod 256).
  replace (read_u16 (drop 4 (lbl_body n ch))) with (@Ok N (len rgce)).
  2: { change (drop 4 (lbl_body n ch))
         with (le16 (len rgce) ++ [0; 0] ++ le16 (ln_itab ch) ++ [0; 0; 0; 0] ++ S1 ++ rgce).
       rewrite read_u16_le16. reflexivity. }
  cbn [obind]. replace (14 + len S1 + len rgce <? 14 + len rgce) with false by lia.
  replace (drop 14 (lbl_body n ch)) with (S1 ++ rgce)
    by (rewrite Hd, <- HH, drop_len_app; reflexivity).
  assert (Hname : read_ustr_nocch (S1 ++ rgce) (len us) = utf16_decode us)
    by (apply (ustr_nocch_enc _ us rgce Hseg Hlt)).
  rewrite Hname.
  replace (drop (14 + len S1 + len rgce - len rgce) (lbl_body n ch)) with rgce.
  2: { rewrite Hd, app_assoc.
       replace (14 + len S1 + len rgce - len rgce) with (len (lbl_head n ch ++ S1))
         by (rewrite len_app, HH; lia).
       rewrite drop_len_app. reflexivity. }
  cbv zeta. unfold rgce. rewrite (defined_name_enc (snd n) Hx). cbn [obind].
  unfold us. rewrite (lbl_name_decoded _ _ Hn Hbi). reflexivity.
Qed.

(* ------------------------------------------------------------------------------------- *)
(** * the ExternSheet record *)

Section Blocks.
Variable X : Type.
Variable blk : X -> bytes.
Variable k : nat.
Hypothesis Hk : (0 < k)%nat.
Hypothesis Hblk : forall x, length (blk x) = k.

Lemma chunks_aux_blocks_gen : forall (xs : list X) rest fuel,
  (length (flat_map blk xs ++ rest) <= fuel)%nat ->
  chunks_aux fuel k (flat_map blk xs ++ rest) =
  map blk xs ++ chunks_aux (fuel - length xs) k rest.
Proof.
  induction xs as [|x xs IH]; intros rest fuel Hf.
  - cbn [flat_map app map length]. rewrite Nat.sub_0_r. reflexivity.
  - cbn [flat_map map] in *. rewrite <- app_assoc in *.
    rewrite app_length, Hblk in Hf.
    destruct fuel as [|fuel]; [lia|].
    cbn [chunks_aux].
    destruct (blk x ++ flat_map blk xs ++ rest) eqn:E.
    { assert (H : length (blk x ++ flat_map blk xs ++ rest) = 0%nat) by (rewrite E; reflexivity).
      rewrite app_length, Hblk in H. lia. }
    rewrite <- E.
    rewrite (@Utf16_proofs.firstn_app_exact _ (blk x) _ k (eq_sym (Hblk x))).
    replace (skipn k (blk x ++ flat_map blk xs ++ rest)) with (flat_map blk xs ++ rest)
      by (rewrite skipn_app, Hblk, Nat.sub_diag, skipn_all2 by (rewrite Hblk; lia); reflexivity).
    rewrite IH by lia. cbn [app length]. reflexivity.
Qed.

Lemma chunks_exact_blocks_gen : forall (xs : list X),
  chunks_exact k (flat_map blk xs) = map blk xs.
Proof.
  intros xs. unfold chunks_exact, chunks.
  rewrite <- (app_nil_r (flat_map blk xs)) at 2.
  rewrite chunks_aux_blocks_gen by (rewrite app_nil_r; lia).
  replace (chunks_aux (length (flat_map blk xs) - length xs) k []) with (@nil bytes)
    by (destruct (length (flat_map blk xs) - length xs)%nat; reflexivity).
  rewrite app_nil_r.
  induction xs as [|x xs IH]; [reflexivity|]. cbn [map filter].
  rewrite Hblk, Nat.eqb_refl. f_equal. exact IH.
Qed.
End Blocks.

Lemma xls_xti_enc : forall x : N * N * N,
  fst (fst x) < 65536 -> snd (fst x) < 65536 -> snd x < 65536 -> xls_xti (xti6 x) = Ok x.
Proof.
  intros [[a b] c] Ha Hb Hc. cbn [fst snd] in *. unfold xls_xti, xti6. cbn [fst snd].
  rewrite read_u16_le16. cbn [obind].
  change (drop 2 (le16 a ++ le16 b ++ le16 c)) with (le16 b ++ le16 c). rewrite read_u16_le16.
  cbn [obind].
  change (drop 4 (le16 a ++ le16 b ++ le16 c)) with (le16 c ++ []). rewrite read_u16_le16.
  reflexivity.
Qed.

Lemma xls_xtis_enc : forall nsheets (xs : list (N * N * N)),
  forallb (xls_xti_legal nsheets) xs = true -> map_o xls_xti (map xti6 xs) = Ok xs.
Proof.
  intros nsheets. induction xs as [|x xs IH]; intros H; [reflexivity|].
  cbn in H. apply andb_true_iff in H. destruct H as [H1 H2].
  unfold xls_xti_legal in H1.
  apply andb_true_iff in H1. destruct H1 as [H1 Hc].
  apply andb_true_iff in H1. destruct H1 as [H1 Hb2].
  apply andb_true_iff in H1. destruct H1 as [Ha Hb].
  cbn [map map_o]. rewrite xls_xti_enc by lia. cbn [obind]. rewrite (IH H2). reflexivity.
Qed.

Lemma len_xti6_blocks : forall xs : list (N * N * N), len (flat_map xti6 xs) = 6 * len xs.
Proof.
  induction xs as [|x xs IH]; [reflexivity|]. cbn [flat_map]. rewrite len_app, IH, len_cons.
  change (len (xti6 x)) with 6. lia.
Qed.

(* ------------------------------------------------------------------------------------- *)
(** * the globals loop over the ExternSheet and Lbl records *)

Lemma globals_extern : forall nsheets (xs : list (N * N * N)) rest st,
  forallb (xls_xti_legal nsheets) xs = true -> len xs < 1370 -> nc rest ->
  xls_globals (records (frame 23 (le16 (len xs) ++ flat_map xti6 xs) ++ rest)) st =
  xls_globals (records rest)
              (mkXlsState (xg_sheets st) (xg_names st) (xg_xtis st ++ xs) (xg_1904 st)).
Proof.
  intros nsheets xs rest st Hx Hn Hnc.
  set (d := le16 (len xs) ++ flat_map xti6 xs).
  assert (Hlen : len d = 2 + 6 * len xs) by (unfold d; rewrite len_app, len_xti6_blocks; reflexivity).
  rewrite (records_plain 23 d rest ltac:(lia) Hnc). cbn [xls_globals].
  change (23 =? 47) with false. change (23 =? 66) with false. change (23 =? 34) with false.
  change (23 =? 1054) with false. change (23 =? 224) with false. change (23 =? 133) with false.
  change (23 =? 2057) with false. change (23 =? 24) with false. change (23 =? 23) with true.
  cbn iota. rewrite Hlen. replace (2 + 6 * len xs <? 2) with false by lia.
  unfold d. rewrite read_u16_le16. cbn [obind].
  change (drop 2 (le16 (len xs) ++ flat_map xti6 xs)) with (flat_map xti6 xs).
  rewrite (chunks_exact_blocks_gen _ xti6 6 ltac:(lia) (fun _ => eq_refl)).
  rewrite (firstN_all _ _ _ (eq_sym (len_map _ _ xti6 xs))).
  rewrite (xls_xtis_enc nsheets xs Hx). reflexivity.
Qed.

Lemma len_lbl_body : forall nxti n ch, ln_legal nxti n ch = true -> len (lbl_body n ch) <= 65535.
Proof.
  intros nxti n ch H. unfold ln_legal in H.
  repeat (apply andb_true_iff in H; destruct H as [H ?]).
  assert (Hrg : len (xref_rgce (snd n)) <= 11) by (destruct (snd n); cbn; lia).
  assert (Hu : len (lbl_units (fst n) ch) <= 255).
  { unfold lbl_units. destruct (N.testbit (ln_flags ch) 5); [|lia].
    destruct (builtin_id (fst n)); [cbn; lia|lia]. }
  rewrite lbl_split, !len_app, len_cons, len_seg_bytes.
  change (len (lbl_head n ch)) with 14. destruct (ln_wide ch); lia.
Qed.

Lemma nc_lbls : forall nxti names chs rest, forallb2 (ln_legal nxti) names chs = true -> nc rest ->
  nc (flat_map (fun nc => frame 24 (lbl_body (fst nc) (snd nc))) (combine names chs) ++ rest).
Proof.
  intros nxti [|n names] [|ch chs] rest H Hn; cbn in H; try discriminate; [exact Hn|].
  apply andb_true_iff in H. destruct H as [H1 _].
  cbn [combine flat_map fst snd]. rewrite <- app_assoc.
  apply nc_frame; [discriminate|apply (len_lbl_body nxti); exact H1].
Qed.

Definition lbl_entry (n : str * xref) : str * (option N * str) * bytes :=
  (fst n, (Some (xref_ixti (snd n)), xref_text (snd n)), xref_rgce (snd n)).

Lemma globals_lbls : forall nxti names chs rest st,
  forallb2 (ln_legal nxti) names chs = true -> nc rest ->
  xls_globals (records (flat_map (fun nc => frame 24 (lbl_body (fst nc) (snd nc)))
                                 (combine names chs) ++ rest)) st =
  xls_globals (records rest)
              (mkXlsState (xg_sheets st) (xg_names st ++ map lbl_entry names) (xg_xtis st)
                          (xg_1904 st)).
Proof.
  intros nxti. induction names as [|n names IH]; intros [|ch chs] rest st H Hn; cbn in H;
    try discriminate.
  - cbn. rewrite app_nil_r. destruct st; reflexivity.
  - apply andb_true_iff in H. destruct H as [H1 H2].
    cbn [combine flat_map map fst snd]. rewrite <- app_assoc.
    rewrite (records_plain 24 _ _ (len_lbl_body nxti n ch H1) (nc_lbls nxti names chs rest H2 Hn)).
    cbn [xls_globals]. change (24 =? 47) with false. change (24 =? 66) with false.
    change (24 =? 34) with false. change (24 =? 1054) with false. change (24 =? 224) with false.
    change (24 =? 133) with false. change (24 =? 2057) with false. change (24 =? 24) with true.
    cbn iota. rewrite (lbl_enc nxti n ch H1). cbn [obind].
    rewrite (IH chs rest _ H2 Hn). cbn [xg_sheets xg_names xg_xtis xg_1904].
    rewrite <- app_assoc. reflexivity.
Qed.

(* ------------------------------------------------------------------------------------- *)
(** * name -> sheet resolution *)

Lemma nthN_map : forall (A B : Type) (f : A -> B) l i,
  nthN (map f l) i = option_map f (nthN l i).
Proof.
  intros A B f. induction l as [|x l IH]; intros i; [reflexivity|].
  cbn [map nthN]. destruct (i =? 0); [reflexivity|apply IH].
Qed.

Lemma nthN_in : forall (A : Type) (l : list A) i x, nthN l i = Some x -> In x l.
Proof.
  intros A. induction l as [|a l IH]; intros i x H; [discriminate|].
  cbn [nthN] in H. destruct (i =? 0); [inversion H; left; reflexivity|right; eapply IH; exact H].
Qed.

Lemma nthN_some_ : forall (A : Type) (l : list A) i, i < len l -> exists x, nthN l i = Some x.
Proof.
  intros A. induction l as [|a l IH]; intros i Hi.
  - unfold len in Hi. cbn in Hi. lia.
  - cbn [nthN]. destruct (i =? 0) eqn:E; [eexists; reflexivity|].
    apply IH. rewrite len_cons in Hi. lia.
Qed.

Lemma sheet_of_spec : forall (shs : list (N * meta)) xtis i,
  forallb (xls_xti_legal (len shs)) xtis = true -> i < len xtis ->
  xls_sheet_of (mkXlsState shs [] xtis false) i = spec_xti_sheet (map snd shs) xtis i.
Proof.
  intros shs xtis i Hx Hi. unfold xls_sheet_of, spec_xti_sheet. cbn [xg_xtis xg_sheets].
  destruct (nthN_some_ _ xtis i Hi) as [[[a b] c] Hn]. rewrite Hn. cbn [fst snd].
  rewrite forallb_forall in Hx. specialize (Hx _ (nthN_in _ _ _ _ Hn)).
  unfold xls_xti_legal in Hx. cbn [fst snd] in Hx.
  apply andb_true_iff in Hx. destruct Hx as [Hx _].
  apply andb_true_iff in Hx. destruct Hx as [Hx Hb2].
  apply andb_true_iff in Hx. destruct Hx as [_ Hb].
  rewrite Hb2. rewrite nthN_map.
  destruct (nthN_some_ _ shs b ltac:(lia)) as [pm Hp]. rewrite Hp.
  cbn [option_map]. rewrite Ptg_proofs.quote_sheet_name_spec. reflexivity.
Qed.

(* ------------------------------------------------------------------------------------- *)
(** * the name's formula through the cell-formula decoder (Ptg) *)

Lemma nthN_ptg : forall (A : Type) (l : list A) i, Ptg.nthN l i = nthN l i.
Proof.
  induction l as [|x l IH]; intros i; cbn [Ptg.nthN nthN]; [reflexivity|].
  destruct (i =? 0); [reflexivity|apply IH].
Qed.

Lemma le16_le2 : forall u, u < 65536 -> le16 u = Ptg.le 2 u.
Proof.
  intros u H. unfold le16. cbn [Ptg.le]. assert (E : (u / 256) mod 256 = u / 256) by (apply N.mod_small; lia).
  rewrite E. reflexivity.
Qed.

Lemma sheet_env : forall st i, Ptg.spec_sheet_xls (xls_formula_env st) i = xls_sheet_of st i.
Proof.
  intros st i. unfold Ptg.spec_sheet_xls, xls_sheet_of, xls_formula_env. cbn [Ptg.xe_xtis Ptg.xe_sheets].
  rewrite nthN_ptg. destruct (nthN (xg_xtis st) i) as [[[a b] c]|]; [|reflexivity].
  destruct (b <? 32768); [|reflexivity]. rewrite nthN_ptg, nthN_map.
  destruct (nthN (xg_sheets st) b); reflexivity.
Qed.

Lemma u16_le16 : forall i, i mod 256 + 256 * (i / 256) = i.
Proof. intros i. pose proof (N.div_mod' i 256). lia. Qed.

Lemma xref_formula : forall show_f64 env x, xref_ok x = true -> xref_ixti x < 65536 ->
  Ptg.xls_parse_formula show_f64 env (le16 (len (xref_rgce x)) ++ xref_rgce x)
  = Ok (Ptg.spec_sheet_xls env (xref_ixti x) ++ [BANG] ++ xref_text x).
Proof.
  intros show_f64 env x Hok Hi. destruct x as [k i a|k i a b|k i|k i]; cbn [xref_ixti xref_ok xref_text] in *.
  - (* one 3-D cell *)
    destruct (Ptg_proofs.wf_cref_bounds 65536 a Hok) as (Hr & Hc & Hf).
    assert (Hwf : Ptg.wf_xls env (Ptg.ERef3d k i a) = true).
    { unfold Ptg.wf_xls. cbn [Ptg.wf]. apply N.ltb_lt in Hi. rewrite Hi. exact Hok. }
    pose proof (@Ptg_proofs.rpn_correct_xls show_f64 env (Ptg.ERef3d k i a) Hwf) as R.
    unfold Ptg.encode_xls, Ptg.frame_xls in R. cbn [Ptg.encode app length] in R.
    cbn [xref_rgce]. change (len _) with 7. rewrite !le16_le2 by (assumption || lia).
    rewrite !app_length, !Ptg_proofs.le_length in R. cbn [length Nat.add N.of_nat Pos.of_succ_nat Pos.succ] in R.
    cbn [app] in *. rewrite R by lia. reflexivity.
  - (* one 3-D area *)
    apply andb_true_iff in Hok. destruct Hok as [Ha Hb].
    destruct (Ptg_proofs.wf_cref_bounds 65536 a Ha) as (Hr & Hc & Hf).
    destruct (Ptg_proofs.wf_cref_bounds 65536 b Hb) as (Hr' & Hc' & Hf').
    assert (Hwf : Ptg.wf_xls env (Ptg.EArea3d k i a b) = true).
    { unfold Ptg.wf_xls. cbn [Ptg.wf]. apply N.ltb_lt in Hi. rewrite Hi.
      change (Ptg.wf_cref 65536 a) with (cref_ok a). change (Ptg.wf_cref 65536 b) with (cref_ok b).
      rewrite Ha, Hb. reflexivity. }
    pose proof (@Ptg_proofs.rpn_correct_xls show_f64 env (Ptg.EArea3d k i a b) Hwf) as R.
    unfold Ptg.encode_xls, Ptg.frame_xls in R. cbn [Ptg.encode app length] in R.
    cbn [xref_rgce]. change (len _) with 11. rewrite !le16_le2 by (assumption || lia).
    rewrite !app_length, !Ptg_proofs.le_length in R. cbn [length Nat.add N.of_nat Pos.of_succ_nat Pos.succ] in R.
    cbn [app] in *. rewrite R by lia. reflexivity.
  - (* PtgRefErr3d *)
    destruct k; cbn [xref_rgce Ptg.cls_ptg app]; change (len _) with 7; unfold le16;
      change (7 mod 256) with 7; change (7 / 256) with 0;
      unfold Ptg.xls_parse_formula; cbn [length Nat.ltb Nat.leb app Ptg.u16_at skipn obind Ptg.drop];
      change (7 + 256 * 0) with 7; change (N.to_nat 7) with 7%nat;
      cbn [length Nat.ltb Nat.leb Ptg.take obind Ptg.xls_run Ptg.xls_expected Ptg.xls_step Ptg.u16_at skipn Ptg.drop fst snd];
      rewrite u16_le16; reflexivity.
  - (* PtgAreaErr3d *)
    destruct k; cbn [xref_rgce Ptg.cls_ptg app]; change (len _) with 11; unfold le16;
      change (11 mod 256) with 11; change (11 / 256) with 0;
      unfold Ptg.xls_parse_formula; cbn [length Nat.ltb Nat.leb app Ptg.u16_at skipn obind Ptg.drop];
      change (11 + 256 * 0) with 11; change (N.to_nat 11) with 11%nat;
      cbn [length Nat.ltb Nat.leb Ptg.take obind Ptg.xls_run Ptg.xls_expected Ptg.xls_step Ptg.u16_at skipn Ptg.drop fst snd];
      rewrite u16_le16; reflexivity.
Qed.

Lemma map_o_map_ok : forall (A B C : Type) (f : B -> outcome C) (g : A -> B) (h : A -> C) l,
  (forall x, In x l -> f (g x) = Ok (h x)) -> map_o f (map g l) = Ok (map h l).
Proof.
  intros A B C f g h. induction l as [|x l IH]; intros H; [reflexivity|].
  cbn [map map_o]. rewrite (H x (or_introl eq_refl)). cbn [obind].
  rewrite IH by (intros y Hy; apply H; right; exact Hy). reflexivity.
Qed.

(* ------------------------------------------------------------------------------------- *)
(** * the whole xls report *)

Theorem xls_parse_encode : forall show_f64 c wb,
  xls_legal c wb = true ->
  xls_parse_workbook show_f64 (xls_stream c wb) =
  Ok (mkParsed (wb_sheets wb) [] (spec_names_xls c wb) (wb_1904 wb)).
Proof.
  intros show_f64 c wb Hl. unfold xls_legal in Hl.
  apply andb_true_iff in Hl. destruct Hl as [Hl Hpos].
  apply andb_true_iff in Hl. destruct Hl as [Hl Htail].
  apply andb_true_iff in Hl. destruct Hl as [Hl Hnx].
  apply andb_true_iff in Hl. destruct Hl as [Hl Hxt].
  apply andb_true_iff in Hl. destruct Hl as [Hl Hnames].
  apply andb_true_iff in Hl. destruct Hl as [Hl Hsheets].
  apply andb_true_iff in Hl. destruct Hl as [Hl J3].
  apply andb_true_iff in Hl. destruct Hl as [Hl J2].
  apply andb_true_iff in Hl. destruct Hl as [J0 J1].
  assert (Nt : nc (lc_tail c)) by (apply negb_true_iff in Htail; exact Htail).
  set (shs := map (fun sc : meta * ls_choice => (ls_pos (snd sc), fst sc))
                  (combine (wb_sheets wb) (lc_sheets c))).
  assert (Hshs : map snd shs = wb_sheets wb)
    by (apply (combine_map_snd_fst _ _ _ ls_pos _ _ (forallb2_length _ _ _ _ _ Hsheets))).
  unfold xls_parse_workbook.
  assert (Hg : xls_globals (records (xls_stream c wb)) xls_state0 =
               Ok (mkXlsState shs (map lbl_entry (wb_names wb)) (lc_xtis c) (wb_1904 wb))).
  { unfold xls_stream.
    set (LB := flat_map (fun nc => frame 24 (lbl_body (fst nc) (snd nc)))
                        (combine (wb_names wb) (lc_names c))).
    set (EX := match lc_xtis c with
               | [] => []
               | xs => frame 430 [1; 0; 1; 4] ++ frame 23 (le16 (len xs) ++ flat_map xti6 xs)
               end).
    assert (N4 : nc (frame 10 [] ++ lc_tail c)) by (apply nc_frame; [discriminate|exact len_nil_ok]).
    assert (N3 : nc (frames (lc_junk3 c) ++ frame 10 [] ++ lc_tail c)) by (apply nc_frames; assumption).
    assert (NL : nc (LB ++ frames (lc_junk3 c) ++ frame 10 [] ++ lc_tail c))
      by (apply (nc_lbls (len (lc_xtis c))); assumption).
    set (R3 := LB ++ frames (lc_junk3 c) ++ frame 10 [] ++ lc_tail c) in *.
    assert (Hxlen : forall xs : list (N * N * N), len xs < 1370 ->
              len (le16 (len xs) ++ flat_map xti6 xs) <= 65535)
      by (intros xs Hx; rewrite len_app, len_xti6_blocks; change (len (le16 (len xs))) with 2; lia).
    assert (NE : nc (EX ++ R3)).
    { unfold EX. destruct (lc_xtis c); [exact NL|]. rewrite <- app_assoc.
      apply nc_frame; [discriminate|reflexivity || (cbn; lia)]. }
    assert (N2 : nc (frames (lc_junk2 c) ++ EX ++ R3)) by (apply nc_frames; assumption).
    assert (Nb : nc (flat_map (fun sc => boundsheet (fst sc) (snd sc))
                              (combine (wb_sheets wb) (lc_sheets c)) ++
                     frames (lc_junk2 c) ++ EX ++ R3))
      by (apply nc_boundsheets; assumption).
    assert (N1 : nc (frames (lc_junk1 c) ++
                     flat_map (fun sc => boundsheet (fst sc) (snd sc))
                              (combine (wb_sheets wb) (lc_sheets c)) ++
                     frames (lc_junk2 c) ++ EX ++ R3))
      by (apply nc_frames; assumption).
    set (R1 := frames (lc_junk1 c) ++ _) in *.
    assert (Nd : nc ((if lc_omit_1904 c && negb (wb_1904 wb) then []
                      else frame 34 (le16 (b2n (wb_1904 wb)))) ++ R1)).
    { destruct (lc_omit_1904 c && negb (wb_1904 wb)); [exact N1|].
      apply nc_frame; [discriminate|apply len_le16_ok]. }
    assert (N0 : nc (frames (lc_junk0 c) ++
                     (if lc_omit_1904 c && negb (wb_1904 wb) then []
                      else frame 34 (le16 (b2n (wb_1904 wb)))) ++ R1))
      by (apply nc_frames; assumption).
    replace (frame 2057 bof_globals ++ frames (lc_junk0 c) ++
             (if lc_omit_1904 c && negb (wb_1904 wb) then [] else frame 34 (le16 (b2n (wb_1904 wb)))) ++
             frames (lc_junk1 c) ++
             flat_map (fun sc => boundsheet (fst sc) (snd sc)) (combine (wb_sheets wb) (lc_sheets c)) ++
             frames (lc_junk2 c) ++
             match lc_xtis c with
             | [] => []
             | p :: l => frame 430 [1; 0; 1; 4] ++ frame 23 (le16 (len (p :: l)) ++ flat_map xti6 (p :: l))
             end ++ LB ++ frames (lc_junk3 c) ++ frame 10 [] ++ lc_tail c)
      with (frame 2057 bof_globals ++ frames (lc_junk0 c) ++
            (if lc_omit_1904 c && negb (wb_1904 wb) then [] else frame 34 (le16 (b2n (wb_1904 wb)))) ++ R1)
      by reflexivity.
    rewrite (records_plain 2057 bof_globals _ len_bof_ok N0).
    cbn [xls_globals]. change (2057 =? 47) with false. change (2057 =? 66) with false.
    change (2057 =? 34) with false. change (2057 =? 1054) with false.
    change (2057 =? 224) with false. change (2057 =? 133) with false.
    change (2057 =? 2057) with true. cbn iota.
    change (len bof_globals <? 2) with false. cbn iota.
    change (read_u16 bof_globals) with (@Ok N 1536). cbn [obind].
    change (4 <=? len bof_globals) with true. cbn iota.
    change (read_u16 (drop 2 bof_globals)) with (@Ok N 5). cbn [obind].
    change (bof_is_biff8 1536 5) with true. cbn iota.
    rewrite (globals_junk (lc_junk0 c) _ _ J0 Nd).
    assert (Hd : xls_globals
                   (records ((if lc_omit_1904 c && negb (wb_1904 wb) then []
                              else frame 34 (le16 (b2n (wb_1904 wb)))) ++ R1)) xls_state0 =
                 xls_globals (records R1) (mkXlsState [] [] [] (wb_1904 wb))).
    { destruct (lc_omit_1904 c && negb (wb_1904 wb)) eqn:Eo.
      - apply andb_true_iff in Eo. destruct Eo as [_ Eo]. apply negb_true_iff in Eo. rewrite Eo.
        reflexivity.
      - rewrite (records_plain 34 _ R1 (len_le16_ok _) N1). cbn [xls_globals].
        change (34 =? 47) with false. change (34 =? 66) with false. change (34 =? 34) with true.
        cbn iota. change (len (le16 (b2n (wb_1904 wb))) <? 2) with false. cbn iota.
        rewrite <- (app_nil_r (le16 _)), read_u16_le16. cbn [obind].
        destruct (wb_1904 wb); reflexivity. }
    rewrite Hd. unfold R1.
    rewrite (globals_junk (lc_junk1 c) _ _ J1 Nb).
    rewrite (globals_boundsheets (wb_sheets wb) (lc_sheets c) _ _ Hsheets N2).
    rewrite (globals_junk (lc_junk2 c) _ _ J2 NE).
    unfold push_sheets. cbn [xg_sheets xg_names xg_xtis xg_1904 app]. fold shs.
    (* ExternSheet *)
    assert (Hex : xls_globals (records (EX ++ R3)) (mkXlsState shs [] [] (wb_1904 wb)) =
                  xls_globals (records R3) (mkXlsState shs [] (lc_xtis c) (wb_1904 wb))).
    { unfold EX. destruct (lc_xtis c) as [|x xs] eqn:Ex; [reflexivity|].
      rewrite <- app_assoc.
      assert (NF : nc (frame 23 (le16 (len (x :: xs)) ++ flat_map xti6 (x :: xs)) ++ R3))
        by (apply nc_frame; [discriminate|apply Hxlen; lia]).
      rewrite (globals_junk1 430 [1; 0; 1; 4] _ _ eq_refl NF).
      rewrite (globals_extern (len (wb_sheets wb)) (x :: xs) R3 _ Hxt ltac:(lia) NL).
      reflexivity. }
    rewrite Hex. unfold R3.
    rewrite (globals_lbls (len (lc_xtis c)) (wb_names wb) (lc_names c) _ _ Hnames N3).
    cbn [xg_sheets xg_names xg_xtis xg_1904 app].
    rewrite (globals_junk (lc_junk3 c) _ _ J3 N4).
    rewrite (records_plain 10 [] (lc_tail c) len_nil_ok Nt).
    reflexivity. }
  rewrite Hg. cbn [obind].
  set (st := mkXlsState shs (map lbl_entry (wb_names wb)) (lc_xtis c) (wb_1904 wb)).
  assert (Hxl : len shs = len (wb_sheets wb)).
  { unfold shs. rewrite len_map. unfold len.
    rewrite combine_length, (forallb2_length _ _ _ _ _ Hsheets), Nat.min_id. reflexivity. }
  assert (Hres : xls_resolve show_f64 st = Ok (spec_names_xls c wb)).
  { unfold xls_resolve, spec_names_xls. unfold st at 2. cbn [xg_names].
    apply map_o_map_ok. intros n Hin.
    assert (Hn : xref_ok (snd n) = true /\ xref_ixti (snd n) < len (lc_xtis c)).
    { clear - Hnames Hin. revert Hnames Hin. generalize (lc_names c).
      induction (wb_names wb) as [|m l IH]; intros [|ch chs] H Hin; cbn in H; try discriminate;
        [destruct Hin|].
      apply andb_true_iff in H. destruct H as [H1 H2]. destruct Hin as [->|Hin].
      - unfold ln_legal in H1. repeat (apply andb_true_iff in H1; destruct H1 as [H1 ?]).
        split; [assumption|lia].
      - eapply IH; eassumption. }
    destruct Hn as [Hok Hix]. apply N.ltb_lt in Hnx.
    unfold xls_resolve_one, lbl_entry. cbn [fst snd].
    rewrite (xref_formula show_f64 (xls_formula_env st) (snd n) Hok) by lia.
    rewrite sheet_env.
    change (xls_sheet_of st (xref_ixti (snd n)))
      with (xls_sheet_of (mkXlsState shs [] (lc_xtis c) false) (xref_ixti (snd n))).
    rewrite sheet_of_spec, Hshs; [reflexivity| |exact Hix].
    rewrite Hxl. exact Hxt. }
  rewrite Hres. cbn [obind xg_sheets xg_1904 st].
  assert (Hex : existsb (fun pm : N * meta => len (xls_stream c wb) <? fst pm) shs = false).
  { apply not_true_is_false. intros He. apply existsb_exists in He.
    destruct He as [pm [Hin Hlt]]. apply in_map_iff in Hin. destruct Hin as [[s0 ch0] [<- Hin]].
    apply in_combine_r in Hin. cbn [fst snd] in *. rewrite forallb_forall in Hpos.
    specialize (Hpos _ Hin). cbn [fst] in Hlt. lia. }
  rewrite Hex, Hshs. reflexivity.
Qed.

Theorem sheets_in_order_xls : forall show_f64 c wb, xls_legal c wb = true ->
  exists p, xls_parse_workbook show_f64 (xls_stream c wb) = Ok p /\ p_sheets p = wb_sheets wb.
Proof. intros show_f64 c wb Hl. eexists. split; [apply xls_parse_encode; exact Hl|reflexivity]. Qed.

Theorem defined_names_in_order_xls : forall show_f64 c wb, xls_legal c wb = true ->
  exists p, xls_parse_workbook show_f64 (xls_stream c wb) = Ok p /\ p_names p = spec_names_xls c wb.
Proof. intros show_f64 c wb Hl. eexists. split; [apply xls_parse_encode; exact Hl|reflexivity]. Qed.

(* the date flag, composed with C10's plumbing theorems (NUMBER / RK / MULRK cells and FORMULA
   cells with a cached number) *)
Theorem date_flag_reaches_cells_xls : forall show_f64 c wb, xls_legal c wb = true ->
  exists p, xls_parse_workbook show_f64 (xls_stream c wb) = Ok p /\
    (forall t ixfe v fmt,
       NumFmt_proofs.ids_below 65536 t -> NumFmt_proofs.xfs_present t ->
       nth_error (NumFmt.xfs t) (N.to_nat ixfe) = Some fmt ->
       NumFmt.xls_cell_number (NumFmt.xls_formats (NumFmt.enc_biff t)) (p_1904 p) ixfe v =
       NumFmt.spec_cell (NumFmt.resolve t fmt) (wb_1904 wb) v) /\
    (forall t ixfe bits fmt,
       NumFmt_proofs.ids_below 65536 t -> NumFmt_proofs.xfs_present t ->
       nth_error (NumFmt.xfs t) (N.to_nat ixfe) = Some fmt ->
       NumFmt.xls_formula_number (NumFmt.xls_formats (NumFmt.enc_biff t)) (p_1904 p) ixfe bits =
       NumFmt.spec_cell (NumFmt.resolve t fmt) (wb_1904 wb) (NumFmt.NF bits)) /\
    (forall formats cells b dur g,
       In (NumFmt.DDateTime b dur g) (xls_sheet_values p formats cells) -> g = wb_1904 wb).
Proof.
  intros show_f64 c wb Hl. eexists. split; [apply xls_parse_encode; exact Hl|]. repeat split.
  - intros t ixfe v fmt H1 H2 H3. cbn [p_1904]. apply NumFmt_proofs.date_iff_style_xls; assumption.
  - intros t ixfe bits fmt H1 H2 H3. cbn [p_1904].
    apply NumFmt_proofs.date_iff_style_xls_formula; assumption.
  - intros formats cells b dur g H. apply date_flag_cells_xls in H. exact H.
Qed.

(* non-vacuity: sheets, an XTI table, absolute and relative names (the former known class) *)
Definition ex_xlsn_wb : workbook xref :=
  mkWb [mkMeta [97; 233] Hidden MacroSheet; mkMeta [128512; 20013] VeryHidden WorkSheet]
       [([110], XRef Ptg.CRef 1 (Ptg.Build_cref 0 1 false true));
        ([20013], XArea Ptg.CVal 0 (Ptg.Build_cref 0 0 false false) (Ptg.Build_cref 9 25 true false));
        (s_xlnm ++ [80; 114; 105; 110; 116; 95; 65; 114; 101; 97], XRefErr Ptg.CArr 0)] true.   (* _xlnm.Print_Area *)
Definition ex_xlsn_c : xls_choice :=
  mkLc [mkLs 0 false 63; mkLs 10 true 9]
       [mkLn false 0 0 0; mkLn true 1 65 1; mkLn false 33 0 1] [(0, 1, 1); (0, 0, 0)]   (* the third: hidden + fBuiltin, stored as id 6 *)
       [(225, [176; 4])] [(224, [0; 0; 14; 0])] [] [(255, [])] false [9; 8].
Lemma xlsn_nonvacuous :
  xls_legal ex_xlsn_c ex_xlsn_wb = true /\
  spec_names_xls ex_xlsn_c ex_xlsn_wb =
    [([110], [97; 233; 33; 66; 36; 49]);
     ([20013], [128512; 20013; 33; 36; 65; 36; 49; 58; 36; 90; 49; 48]);
     (s_xlnm ++ [80; 114; 105; 110; 116; 95; 65; 114; 101; 97], [128512; 20013; 33; 35; 82; 69; 70; 33])] /\
  lbl_units (s_xlnm ++ [80; 114; 105; 110; 116; 95; 65; 114; 101; 97]) (mkLn false 33 0 1) = [6].
Proof. vm_compute. repeat split. Qed.

(* xlsx: the same composition with C10's date_iff_style_xlsx *)
Theorem date_flag_style_xlsx : forall c wb rjunk,
  xlsx_legal c wb = true -> forallb junk_ok_rels rjunk = true ->
  exists p, xlsx_open (rels_events [] rjunk (xc_rels c)) (xlsx_wb_events c wb) = Ok p /\
    forall t s_attr bits fmt,
      NumFmt_proofs.ids_below (2 ^ 32) t -> NumFmt_proofs.codes_nonempty t ->
      nth_error (NumFmt.xfs t) (N.to_nat (match s_attr with Some i => i | None => 0 end)) = Some fmt ->
      NumFmt.xlsx_cell_number (NumFmt.xlsx_read_styles (NumFmt.enc_xlsx t)) (p_1904 p) s_attr bits =
      NumFmt.spec_cell (NumFmt.resolve t fmt) (wb_1904 wb) (NumFmt.NF bits).
Proof.
  intros c wb rjunk Hl Hj. eexists. split; [apply xlsx_open_encode; assumption|].
  intros t s_attr bits fmt H1 H2 H3. cbn [p_1904].
  apply NumFmt_proofs.date_iff_style_xlsx; assumption.
Qed.

(* ------------------------------------------------------------------------------------- *)
(** * totality (C06): the event-level readers never panic and need no fuel *)

Lemma sheet_attrs_no_panic : forall rels a n p v rt, sheet_attrs rels a n p v rt <> Panic.
Proof.
  induction a as [|[k x] a IH]; intros n p v rt; cbn [sheet_attrs]; [discriminate|].
  destruct (str_eqb k a_name); [apply IH|].
  destruct (str_eqb k a_state).
  { destruct (str_eqb x v_visible); [apply IH|]. destruct (str_eqb x v_hidden); [apply IH|].
    destruct (str_eqb x v_veryHidden); [apply IH|discriminate]. }
  destruct (is_rel_id k); [|apply IH].
  destruct (map_get x rels) as [[t ty]|]; [apply IH|discriminate].
Qed.
Lemma sheet_attrs_no_fuel : forall rels a n p v rt, sheet_attrs rels a n p v rt <> OutOfFuel.
Proof.
  induction a as [|[k x] a IH]; intros n p v rt; cbn [sheet_attrs]; [discriminate|].
  destruct (str_eqb k a_name); [apply IH|].
  destruct (str_eqb k a_state).
  { destruct (str_eqb x v_visible); [apply IH|]. destruct (str_eqb x v_hidden); [apply IH|].
    destruct (str_eqb x v_veryHidden); [apply IH|discriminate]. }
  destruct (is_rel_id k); [|apply IH].
  destruct (map_get x rels) as [[t ty]|]; [apply IH|discriminate].
Qed.

Theorem xlsx_wb_run_total : forall rels evs mode st,
  xlsx_wb_run rels evs mode st <> Panic /\ xlsx_wb_run rels evs mode st <> OutOfFuel.
Proof.
  intros rels. induction evs as [|ev evs IH]; intros mode st; cbn [xlsx_wb_run];
    [split; discriminate|].
  destruct mode as [|q nm val].
  - destruct ev as [n a|n|t|t|]; try apply IH.
    + destruct (str_eqb (local_name n) k_sheet).
      { destruct (sheet_attrs rels a [] [] Visible None) as [[[[nm pth] v] rt]|e| |] eqn:E; cbn [obind].
        - destruct (sheet_kind rt pth); [apply IH|split; discriminate].
        - split; discriminate.
        - exfalso. exact (sheet_attrs_no_panic _ _ _ _ _ _ E).
        - exfalso. exact (sheet_attrs_no_fuel _ _ _ _ _ _ E). }
      destruct (str_eqb (local_name n) k_workbookPr); [destruct (has_date1904 a); apply IH|].
      destruct (str_eqb (local_name n) k_definedName); [|apply IH].
      destruct (get_attribute a a_name); apply IH.
    + destruct (str_eqb (local_name n) k_workbook); [split; discriminate|apply IH].
  - destruct ev as [n a|n|t|t|]; try apply IH.
    destruct (str_eqb n q); apply IH.
Qed.

Theorem ods_run_total : forall evs mode st,
  ods_run evs mode st <> Panic /\ ods_run evs mode st <> OutOfFuel.
Proof.
  induction evs as [|ev evs IH]; intros mode st; cbn [ods_run].
  - destruct mode; split; discriminate.
  - destruct mode as [|name v|acc ret].
    + destruct ev as [n a|n|t|t|]; try apply IH.
      destruct (str_eqb n o_style); [apply IH|].
      destruct ((match od_style_name st with Some _ => true | None => false end) && str_eqb n o_tprops).
      { destruct (get_attribute a o_display) as [d|]; [|apply IH].
        destruct (str_eqb d v_true); [apply IH|]. destruct (str_eqb d v_false); [apply IH|].
        split; discriminate. }
      destruct (str_eqb n o_table).
      { destruct (get_attribute a o_tname); apply IH. }
      destruct (str_eqb n o_nexprs); apply IH.
    + destruct ev as [n a|n|t|t|]; try apply IH.
      * destruct (str_eqb n o_nexprs); apply IH.
      * destruct (str_eqb n o_table); apply IH.
    + destruct ev as [n a|n|t|t|]; try apply IH; try (split; discriminate).
      * destruct (str_eqb n o_nrange || str_eqb n o_nexpr); [apply IH|split; discriminate].
      * destruct (str_eqb n o_nrange || str_eqb n o_nexpr); [apply IH|].
        destruct (str_eqb n o_nexprs); [apply IH|split; discriminate].
Qed.

Lemma xlsx_rels_total : forall evs m,
  xlsx_read_relationships evs m <> Panic /\ xlsx_read_relationships evs m <> OutOfFuel.
Proof.
  induction evs as [|ev evs IH]; intros m; cbn [xlsx_read_relationships]; [split; discriminate|].
  destruct ev as [n a|n|t|t|]; try apply IH.
  - destruct (str_eqb (local_name n) k_Relationship); [|apply IH].
    destruct (rel_attrs a [] []). apply IH.
  - destruct (str_eqb (local_name n) k_Relationships); [split; discriminate|apply IH].
Qed.

Theorem no_panic_xlsx_open : forall rel_evs wb_evs,
  xlsx_open rel_evs wb_evs <> Panic /\ xlsx_open rel_evs wb_evs <> OutOfFuel.
Proof.
  intros rel_evs wb_evs. unfold xlsx_open.
  destruct (xlsx_read_relationships rel_evs []) as [rels|e| |] eqn:E; cbn [obind].
  - apply xlsx_wb_run_total.
  - split; discriminate.
  - exfalso. exact (proj1 (xlsx_rels_total _ _) E).
  - exfalso. exact (proj2 (xlsx_rels_total _ _) E).
Qed.

Theorem no_panic_ods_parse_content : forall evs,
  ods_parse_content evs <> Panic /\ ods_parse_content evs <> OutOfFuel.
Proof.
  intros evs. unfold ods_parse_content.
  destruct (ods_run evs OMain ods_state0) as [st|e| |] eqn:E; cbn [obind]; try (split; discriminate).
  - exfalso. exact (proj1 (ods_run_total _ _ _) E).
  - exfalso. exact (proj2 (ods_run_total _ _ _) E).
Qed.
