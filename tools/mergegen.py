"""mergegen — generators and file packers for property C17 (merged regions and tables).

xlsx: `gen_xlsx(rng, profile)` draws a logical workbook (sheets, merged regions, tables, cells) and
the encoding choices of the Coq encoder `Merge.enc_*`, and returns the wire description understood
by `vm merge xlsx`; the model side answers with the serialised parts, which `pack_xlsx` zips
together with the parts calamine needs to find the sheets (workbook.xml and its rels: C16's
domain, written here from the (name, path) list the model reports).
xls: `gen_xls` draws sheets with regions grouped into MergeCells records; `vm merge xls` returns the
records of every sheet substream (from `Merge.enc_xls_sheet`), `pack_xls` wraps them into a BIFF8
workbook stream inside a minimal compound file (tools/cfbgen.py of C13 when importable).
Everything random comes from the rng argument."""
import io, struct, zipfile
import xlsgen

NS_MAIN = "http://schemas.openxmlformats.org/spreadsheetml/2006/main"
NS_REL = "http://schemas.openxmlformats.org/officeDocument/2006/relationships"
NS_PKG_REL = "http://schemas.openxmlformats.org/package/2006/relationships"
NS_CT = "http://schemas.openxmlformats.org/package/2006/content-types"
DECL = '<?xml version="1.0" encoding="UTF-8" standalone="yes"?>'
XLSX_ROWS, XLSX_COLS = 1048576, 16384
XLS_ROWS, XLS_COLS = 65536, 256
# known_C17 is constantly None since the five first-round classes (EscapedText, AbsoluteTarget,
# StrictType, InsertRowFalse, EmptyData) were repaired; the table stays for the plumbing
KNOWN = {}


def hx(s):
    return s.encode("utf-8").hex() if isinstance(s, str) else bytes(s).hex()


def xs(s):
    return "x" + hx(s)


def col_letters(c):
    s = ""
    c += 1
    while c > 0:
        s = chr(65 + (c - 1) % 26) + s
        c = (c - 1) // 26
    return s


def a1(r, c):
    return col_letters(c) + str(r + 1)


def esc_attr(s):
    return s.replace("&", "&amp;").replace("<", "&lt;").replace(">", "&gt;").replace('"', "&quot;")


# ------------------------------------------------------------------ wire forms
def attrs_wire(attrs):
    return ",".join("%s=%s" % (xs(k), xs(v)) for k, v in attrs) if attrs else "-"


def ev_wire(e):
    k = e[0]
    if k == "S":
        return "S" + xs(e[1]) + "".join(",%s=%s" % (xs(a), xs(v)) for a, v in e[2])
    if k == "E":
        return "E" + xs(e[1])
    if k == "T":
        return "T" + xs(e[1])
    if k == "R":
        return "R" + xs(e[1])
    raise ValueError(e)


def events_wire(evs):
    return "+".join(ev_wire(e) for e in evs) if evs else "-"


def qn(p, n):
    return n if not p else p + ":" + n


def el(p, name, attrs, body=()):
    return [("S", qn(p, name), list(attrs))] + list(body) + [("E", qn(p, name))]


# ------------------------------------------------------------------ xlsx generation
SHEET_NAMES = ["S1", "Sheet 2", "Dätä", "a&b", "x<y", "表", "Q", "long sheet name 31 characters!!", "s'q", "T"]
COL_NAMES = ["a", "b", "Name", "Größe", "col 3", "x.y", "列", "h1", "Total", "n/a", "1", "A1", "a;b", "#1", "😀x"]
SPECIAL_COLS = ["P&L", "Q1 <2020>", 'say "hi"', "a>b", "&amp;", "it's", "&<>\"'", "line1\nline2", "tab\there",
                "&#38;", "a&b;c", "<", "&", "x\ry", "&lt;tag&gt;"]
# column names that exercise the ST_Xstring layer (ECMA-376 22.9.2.19): line breaks typed with
# Alt+Enter, underscores, text that looks like an escape, an escape naming a surrogate
XS_COLS = ["a\nb", "line1\nline2\nline3", "x\ry", "cr\r\nlf", "tab\there", "a_b", "_", "__", "_x", "_x000a_", "_x0041_",
           "a_x005F_b", "_xD800_", "_x41_", "_X000A_", "_x000g_", "100_x_200", "é_x00e9_", "_x_x0041__", "列_x5217_",
           "_x000a", "x000a_", "__x000a__", "\u00e9\n", "😀_"]
SPECIAL_TABLE_NAMES = ["P&L%d", "A<B%d", 'q"%d', "it's%d", "x>y%d", "&%d;", "T\n%d",
                       "_x0041_%d", "T_x000a_%d", "_x005F_%d"]      # a display name is reported as written (notes/C17.md)
BAD_SPELLINGS = ["&bogus;", "&amp", "a&b", "&#xZZ;", "&#0;", "&#xD800;", "&#1114112;", "&#;", "&#x;", "&;", "&#-1;",
                 "&#+65;", "&#X41;", "&AMP;", "&#4294967296;", "&#x110000;", "& amp;", "&&amp;", "&amp;&", "&#65"]
EDGE_COLS = [0, 1, 25, 26, 27, 51, 52, 701, 702, 703, 16382, 16383]
EDGE_ROWS = [0, 1, 8, 9, 10, 98, 99, 100, 65535, 65536, 999998, 999999, 1000000, 1048574, 1048575]


def pads(rng, p=0.2):
    if rng.random() >= p:
        return []
    return rng.choice([[("T", "\n  ")], [("R", "<!-- pad -->")], [("T", " "), ("R", "<!--x-->"), ("T", "\n")],
                       [("R", "<?pi x?>")]])


def draw_box(rng, max_r, max_c, cluster=None, max_h=4, max_w=4):
    """a rectangle (r0, c0, r1, c1) inside the grid: near the cell cluster, at an edge, or anywhere"""
    h = rng.choice([1, 1, 2, 3, rng.randrange(1, max_h + 1)])
    w = rng.choice([1, 1, 2, 3, rng.randrange(1, max_w + 1)])
    k = rng.random()
    if cluster and k < 0.45:
        r0 = max(0, cluster[0] + rng.randrange(-3, 7))
        c0 = max(0, cluster[1] + rng.randrange(-3, 6))
    elif k < 0.75:
        r0 = rng.choice([r for r in EDGE_ROWS if r < max_r])
        c0 = rng.choice([c for c in EDGE_COLS if c < max_c])
    else:
        r0 = rng.randrange(max_r)
        c0 = rng.randrange(max_c)
    r0 = min(r0, max_r - h)
    c0 = min(c0, max_c - w)
    return (r0, c0, r0 + h - 1, c0 + w - 1)


def gen_sheet_cells(rng):
    """cells in a small cluster anywhere on the sheet: {(r, c): int}, cluster origin"""
    if rng.random() < 0.1:
        return {}, None
    k = rng.random()
    if k < 0.6:
        r0, c0 = rng.randrange(0, 4), rng.randrange(0, 4)
    elif k < 0.8:
        r0, c0 = rng.choice(EDGE_ROWS), rng.choice(EDGE_COLS)
    else:
        r0, c0 = rng.randrange(XLSX_ROWS), rng.randrange(XLSX_COLS)
    r0, c0 = min(r0, XLSX_ROWS - 6), min(c0, XLSX_COLS - 5)
    h, w = rng.randrange(1, 7), rng.randrange(1, 6)
    dens = rng.choice([0.3, 0.7, 1.0])
    cells = {}
    for r in range(r0, r0 + h):
        for c in range(c0, c0 + w):
            if rng.random() < dens:
                cells[(r, c)] = rng.randrange(1, 100)
    return cells, (r0, c0)


def sheet_pre_post(rng, p, cells, has_tables, ntables):
    """the events around <mergeCells>: root start, sheetData with the cells; tableParts, root end"""
    root_attrs = [("xmlns" + (":" + p if p else ""), NS_MAIN), ("xmlns:r", NS_REL)]
    pre = []
    if rng.random() < 0.8:
        pre.append(("R", DECL))
    pre.append(("S", qn(p, "worksheet"), root_attrs))
    if rng.random() < 0.5:
        pre += el(p, "sheetViews", [], el(p, "sheetView", [("workbookViewId", "0")],
                                          el(p, "extLst", [], el(p, "ext", [("uri", "{y}")])) if rng.random() < 0.4 else ()))
    pre += pads(rng)
    pre.append(("S", qn(p, "sheetData"), []))
    rows = sorted({r for r, _ in cells})
    for r in rows:
        pre.append(("S", qn(p, "row"), [("r", str(r + 1))]))
        for c in sorted(cc for rr, cc in cells if rr == r):
            pre += el(p, "c", [("r", a1(r, c))], el(p, "v", [], [("T", str(cells[(r, c)]))]))
        pre.append(("E", qn(p, "row")))
    pre.append(("E", qn(p, "sheetData")))
    if rng.random() < 0.3:
        pre += el(p, "sheetProtection", [("sheet", "1")])
    if rng.random() < 0.3:
        # a custom view (CT_CustomSheetView) stands BEFORE mergeCells and carries its own copies of
        # elements that otherwise only follow mergeCells: page margins, set-up, header/footer,
        # breaks, an extension list
        view = el(p, "pageMargins", [("left", "0.7"), ("right", "0.7"), ("top", "0.75"), ("bottom", "0.75"),
                                     ("header", "0.3"), ("footer", "0.3")])
        if rng.random() < 0.7:
            view += el(p, "printOptions", [("gridLines", "1")]) + el(p, "pageSetup", [("orientation", "landscape")])
        if rng.random() < 0.5:
            view += el(p, "headerFooter", [], el(p, "oddHeader", [], [("T", "&C&A")]))
        if rng.random() < 0.5:
            view += el(p, "rowBreaks", [("count", "1")], el(p, "brk", [("id", "5"), ("man", "1")]))
        if rng.random() < 0.5:
            view += el(p, "extLst", [], el(p, "ext", [("uri", "{x}")]))
        pre += el(p, "customSheetViews", [], el(p, "customSheetView", [("guid", "{7F8C0D4B-0000-4000-8000-000000000001}")], view))
    pre += pads(rng)
    post = pads(rng)
    if rng.random() < 0.5:
        post += el(p, "pageMargins", [("left", "0.7"), ("right", "0.7"), ("top", "0.75"), ("bottom", "0.75"),
                                      ("header", "0.3"), ("footer", "0.3")])
    if has_tables:
        post += el(p, "tableParts", [("count", str(ntables))],
                   sum([el(p, "tablePart", [("r:id", "rId%d" % (k + 1))]) for k in range(ntables)], []))
    post.append(("E", qn(p, "worksheet")))
    return pre, post


def spell(rng, text, profile="structured"):
    """the wire token of one way of writing `text` inside an attribute value (see cmd_merge.ml
    parse_spelling): plain (escaped the usual way by Merge.esc_sp) or piece by piece — literal
    runs, the five predefined entities, decimal / hexadecimal character references with leading
    zeros; every XML-special character is drawn in each of its legal forms"""
    if profile == "malformed" and rng.random() < 0.12:
        bad = rng.choice(BAD_SPELLINGS)
        cut = rng.randrange(len(text) + 1)
        return "pL" + hx(text[:cut].replace("&", "").replace("<", "").replace('"', "") + bad)
    if rng.random() < 0.35:
        return xs(text)
    pieces, lit = [], ""

    def flush():
        nonlocal lit
        if lit:
            pieces.append("L" + hx(lit))
            lit = ""

    def charref(cp):
        k = rng.random()
        if k < 0.5:
            digits = len(str(cp))
            return "D%d.%d" % (cp, digits + rng.choice([0, 0, 0, 1, 3]))
        digits = len("%x" % cp)
        return "%s%d.%d" % ("H" if k < 0.75 else "U", cp, digits + rng.choice([0, 0, 0, 1, 4]))

    for ch in text:
        cp = ord(ch)
        k = rng.random()
        if ch in '&<"':
            form = "N" if k < 0.6 else "C"
        elif ch in "\t\n\r":
            form = "C"
        elif ch in ">'":
            form = "L" if k < 0.4 else ("N" if k < 0.75 else "C")
        else:
            form = "L" if k < 0.88 else "C"
        if form == "L":
            lit += ch
        else:
            flush()
            pieces.append("N%d" % cp if form == "N" else charref(cp))
    flush()
    return "p" + "+".join(pieces)


_XS_RE = __import__("re").compile(r"_x([0-9A-Fa-f]{4})_")


def xs_decode(text):
    """the text an ST_Xstring denotes (ECMA-376 22.9.2.19), written independently of Merge.xs_decode:
    non-overlapping _xHHHH_ from the left, a surrogate code unit stays as written (the pattern is
    then tried again from the next character)"""
    out, i = [], 0
    while i < len(text):
        m = _XS_RE.match(text, i)
        if m:
            cp = int(m.group(1), 16)
            if not 0xD800 <= cp <= 0xDFFF:
                out.append(chr(cp))
                i = m.end()
                continue
        out.append(text[i])
        i += 1
    return "".join(out)


def xs_escape(rng, text):
    """one way of writing `text` as an ST_Xstring, the way Excel / openpyxl do: control characters
    (line breaks above all) as _x000a_ with upper-, lower- or mixed-case digits — or left to the XML
    layer (a character reference) —, an underscore as _x005F_ always / only where an escape would
    otherwise be read, now and then another character (non-ASCII too) as its escape.  The result is
    checked with xs_decode; escaping every underscore is the fallback (always right)."""
    def esc(cp):
        h = "%04x" % cp
        k = rng.random()
        if k < 0.4:
            h = h.upper()
        elif k < 0.6:
            h = "".join(ch.upper() if rng.random() < 0.5 else ch for ch in h)
        return "_x%s_" % h

    def attempt(all_underscores):
        out = []
        for i, ch in enumerate(text):
            cp = ord(ch)
            if ch == "_":
                need = all_underscores or _XS_RE.match(text, i) is not None
                out.append(esc(cp) if need or rng.random() < 0.15 else ch)
            elif cp < 32:
                out.append(esc(cp) if rng.random() < 0.7 else ch)
            elif cp < 0x10000 and not 0xD800 <= cp <= 0xDFFF and rng.random() < (0.1 if cp >= 128 else 0.03):
                out.append(esc(cp))
            else:
                out.append(ch)
        return "".join(out)

    w = attempt(rng.random() < 0.3)
    if xs_decode(w) != text:
        w = attempt(True)
    assert xs_decode(w) == text, (text, w)
    return w


def gen_region(rng, cluster, profile):
    box = draw_box(rng, XLSX_ROWS, XLSX_COLS, cluster, 5, 5)
    single = box[0] == box[2] and box[1] == box[3]
    style = "S" if single and rng.random() < 0.5 else "P"
    raw = None
    if profile == "malformed" and rng.random() < 0.5:
        raw = rng.choice(["$A$1:$B$2", "B2:A1", "A1:B2:C3", "", "A0", "1A", "A1:", ":A1", "A", "7", "AAAAAAA1",
                          "A99999999999", "a1:b2", "A1:A1", "XFD1048576", "XFE1", "A1048577", "A1 ", "A1:B2 ",
                          "Aé1", "Sheet1!A1:B2", "A1:$B$2", "a1:B2"])
        style = "R" + xs(raw)
    lower = rng.random() < 0.15
    before = rng.choice([[], [], [], [("x", "1")], [("count", "2"), ("spans", "1:2")], [("uid", "{00-1}")]])
    after = rng.choice([[], [], [], [("y", "")], [("z", "a&amp;b")]])
    if profile == "malformed" and rng.random() < 0.15:
        before = before + [("ref", "Z9")]          # an earlier ref attribute wins (duplicate: malformed XML)
    return {"box": box, "style": style, "lower": lower, "before": before, "after": after, "pad": pads(rng, 0.15)}


def gen_table(rng, idx, cluster, profile, used_names):
    header = 1 if rng.random() < 0.7 else 0
    totals = 1 if rng.random() < 0.3 else 0
    ins = 1 if rng.random() < 0.06 else 0          # the insert row of an empty table is showing
    data_rows = rng.choice([1, 1, 2, 3, 4])
    if ins or rng.random() < 0.12:
        data_rows = 0                              # header-only / totals-only / empty table
    width = rng.choice([1, 2, 2, 3, 4, 6])
    height = header + totals + ins + data_rows
    if height == 0:
        height, data_rows = 1, 1
    box = draw_box(rng, XLSX_ROWS, XLSX_COLS, cluster, 1, 1)
    if cluster and rng.random() < 0.5:
        box = (max(0, cluster[0] + rng.randrange(-2, 4)), max(0, cluster[1] + rng.randrange(-2, 3)), 0, 0)
    if rng.random() < 0.2:
        box = (0, box[1], 0, 0)                    # the table starts in row 1
    r0, c0 = min(box[0], XLSX_ROWS - height), min(box[1], XLSX_COLS - width)
    ref = (r0, c0, r0 + height - 1, c0 + width - 1)
    name = "T%d" % idx
    if rng.random() < 0.1:
        name = rng.choice(["Tab_é%d", "Table.%d", "_t%d", "表%d"]) % idx
    if rng.random() < 0.06:
        name = rng.choice(SPECIAL_TABLE_NAMES) % idx
    if profile == "malformed" and used_names and rng.random() < 0.1:
        name = rng.choice(used_names)              # duplicate table name: the first one wins
    pool = COL_NAMES + (SPECIAL_COLS * 3 if rng.random() < 0.2 else []) + (XS_COLS * 3 if rng.random() < 0.25 else [])
    cols = [rng.choice(pool) + (str(j) if rng.random() < 0.5 else "") for j in range(width)]
    if rng.random() < 0.1:
        cols = cols[:rng.randrange(0, len(cols) + 1)]      # column count differs from the width
    single = ref[0] == ref[2] and ref[1] == ref[3]
    t = {"name": name, "ref": ref, "header": header, "totals": totals, "ins": ins, "cols": cols,
         # a column name is an ST_Xstring inside the XML attribute: two layers (the table name: one)
         "name_sp": spell(rng, name, profile), "cols_sp": [spell(rng, xs_escape(rng, c), profile) for c in cols],
         "part": "table%d.xml" % idx, "rid": "rId%d" % idx,
         "target": rng.choice("DDA"), "type": rng.choice("TTS"), "tfirst": rng.random() < 0.3,
         "refstyle": "S" if single and rng.random() < 0.5 else "P", "reflower": rng.random() < 0.1,
         "hexp": rng.random() < 0.3, "texp": rng.random() < 0.3,
         "insert": rng.choice("1t") if ins else rng.choice("---0f"),
         "extra": [("xmlns", NS_MAIN), ("id", str(idx))] if rng.random() < 0.9 else [],
         "cextra": rng.choice([[], [], [("dataDxfId", "1")], [("totalsRowLabel", "Total"), ("uniqueName", "u")]]),
         "prefix": "x" if rng.random() < 0.1 else None,
         "pre": [("R", DECL)] if rng.random() < 0.8 else []}
    if t["prefix"]:
        t["extra"] = [("xmlns:x", NS_MAIN), ("id", str(idx))]
    # other attributes of CT_Table a writer may set; none of them changes the geometry
    # (totalsRowShown records that a totals row was shown at some time: it is NOT a totals row)
    for kv in [("totalsRowShown", rng.choice(["1", "0", "true"])), ("headerRowDxfId", "0"), ("published", "0"),
               ("insertRowShift", "1"), ("tableType", "worksheet"), ("comment", "a&b")]:
        if rng.random() < 0.25:
            t["extra"] = t["extra"] + [kv]
    k = rng.random()
    if k < 0.02 or (profile == "malformed" and k < 0.3):
        t["target"] = "R" + xs(rng.choice(["tables/%s" % t["part"], "xl/tables/%s" % t["part"], "", "/",
                                           "../../xl/tables/%s" % t["part"], "../Tables/%s" % t["part"].upper(),
                                           "../tables/missing.xml", "..//tables/%s" % t["part"],
                                           "//xl/tables/%s" % t["part"], "/xl/tables/missing.xml",
                                           "/XL/TABLES/%s" % t["part"].upper()]))
    k = rng.random()
    if k < 0.01 or (profile == "malformed" and k < 0.1):
        t["type"] = "R" + xs(rng.choice([NS_REL + "/drawing", NS_REL + "/table ", (NS_REL + "/table").upper(), "",
                                         "http://purl.oclc.org/ooxml/officeDocument/relationships/drawing",
                                         "http://purl.oclc.org/ooxml/officeDocument/relationships/table/"]))
    k = rng.random()
    if k < 0.01 or (profile == "malformed" and k < 0.3):
        t["insert"] = "R" + xs(rng.choice(["TRUE", "True", "00", " 0", "", " 1", "yes", "01", "false ", "2"]))
    if profile == "malformed":
        k = rng.random()
        if k < 0.15:
            t["header"] = rng.choice([2, 3, 4294967295, 4294967296, 1048576])
        elif k < 0.3:
            t["totals"] = rng.choice([2, 5, 4294967295, 4294967296])
        elif k < 0.45:
            t["refstyle"] = "R" + xs(rng.choice(["$A$1:$B$2", "B2:A1", "", "A1:B2:C3", "A0:B1", "A1:XFE2"]))
        elif k < 0.5:
            t["ins"] = 1 - t["ins"]                # the insertRow spelling contradicts the declared geometry
    return t


def table_position(t, cells):
    """where the data box of the table lies relative to the used range of its sheet"""
    if not cells:
        return "sheet-without-cells"
    r0 = min(r for r, _ in cells); r1 = max(r for r, _ in cells)
    c0 = min(c for _, c in cells); c1 = max(c for _, c in cells)
    a, b, c, d = t["ref"][0] + t["header"], t["ref"][1], t["ref"][2] - t["totals"] - t.get("ins", 0), t["ref"][3]
    if a > c:
        return "no-data-rows"
    if c < r0 or a > r1 or d < c0 or b > c1:
        return "outside"
    if a >= r0 and c <= r1 and b >= c0 and d <= c1:
        return "inside"
    return "partly"


def gen_xlsx(rng, profile="structured"):
    """returns a dict: desc (wire for vm), calls, info (for counting)"""
    nsheets = rng.choice([1, 1, 2, 2, 3, 4])
    names = rng.sample(SHEET_NAMES, nsheets)
    if profile == "malformed" and nsheets > 1 and rng.random() < 0.2:
        names[-1] = names[0]                       # duplicate sheet name
    toks = ["SC", str(rng.randrange(3))]
    tno = 0
    tnames, tcols, info = [], {}, {"regions": 0, "tables": 0, "sheets": nsheets}
    used = []
    for i, name in enumerate(names):
        p = "x" if rng.random() < 0.12 else None
        pp = "pr" if rng.random() < 0.1 else None
        cells, cluster = gen_sheet_cells(rng)
        nreg = rng.choice([0, 0, 1, 2, 3, 6]) if rng.random() < 0.97 else 40
        regs = [gen_region(rng, cluster, profile) for _ in range(nreg)]
        ntab = rng.choice([0, 0, 1, 1, 2, 3])
        tabs = []
        for _ in range(ntab):
            tno += 1
            t = gen_table(rng, tno, cluster, profile, used)
            used.append(t["name"])
            tabs.append(t)
        # relationship ids are local to the sheet
        for k, t in enumerate(tabs):
            t["rid"] = "rId%d" % (k + 1)
        pre, post = sheet_pre_post(rng, p, cells, bool(tabs), len(tabs))
        rattrs = [("xmlns" + (":" + pp if pp else ""), NS_PKG_REL)]
        toks += ["SH", xs(name), xs("sheet%d.xml" % (i + 1)), xs(p) if p else "-", xs(pp) if pp else "-",
                 "1" if rng.random() < 0.5 else "0", "1" if rng.random() < 0.15 else "0", attrs_wire(rattrs)]
        toks += ["PRE", events_wire(pre), "POST", events_wire(post), "PAD0", events_wire(pads(rng, 0.2))]
        if rng.random() < 0.25:
            toks += ["OREL", xs("rId9"), xs(NS_REL + "/drawing"), xs("../drawings/drawing1.xml")]
        if rng.random() < 0.1:
            toks += ["OREL", xs("rId8"), xs(NS_REL + "/printerSettings"), xs("../tables/" + "table1.xml")]
        for g in regs:
            b = g["box"]
            toks += ["RG", str(b[0]), str(b[1]), str(b[2]), str(b[3]), g["style"], "1" if g["lower"] else "0",
                     attrs_wire(g["before"]), attrs_wire(g["after"]), events_wire(g["pad"])]
        for t in tabs:
            b = t["ref"]
            toks += ["TB", t["name_sp"], str(b[0]), str(b[1]), str(b[2]), str(b[3]), str(t["header"]), str(t["totals"]),
                     str(t["ins"]),
                     xs(t["part"]), xs(t["rid"]), t["target"], t["type"], "1" if t["tfirst"] else "0",
                     t["refstyle"], "1" if t["reflower"] else "0", "1" if t["hexp"] else "0",
                     "1" if t["texp"] else "0", t["insert"], attrs_wire(t["extra"]), attrs_wire(t["cextra"]),
                     xs(t["prefix"]) if t["prefix"] else "-", events_wire(t["pre"]),
                     ",".join(t["cols_sp"]) if t["cols_sp"] else "-"]
            tnames.append(t["name"])
            tcols.setdefault(t["name"], t["cols"])        # the first table of a name is the one found
        for (r, c) in sorted(cells):
            toks += ["CL", str(r), str(c), str(cells[(r, c)])]
        info["regions"] += nreg
        info["tables"] += ntab
        for t in tabs:
            info.setdefault("tpos", []).append(table_position(t, cells))
            info.setdefault("thdr", []).append("h%dt%di%d" % (min(t["header"], 2), min(t["totals"], 2), t["ins"]))
            info.setdefault("tforms", []).append("target-%s type-%s insert-%s%s%s" % (
                t["target"][0], t["type"][0], t["insert"][0],
                " row1" if t["ref"][0] == 0 else "", " spelled" if t["name_sp"][0] == "p" else ""))
            for sp in [t["name_sp"]] + t["cols_sp"]:
                for pc in (sp[1:].split("+") if sp[0] == "p" and len(sp) > 1 else []):
                    info.setdefault("pieces", []).append(pc[0])
        info.setdefault("kinds", []).append("cells" if cells else "empty-sheet")
    calls = []
    for i, name in enumerate(names):
        calls += ["merges " + hx(name), "mergesat %d" % i, "mergesby " + hx(name), "tablesin " + hx(name)]
    calls += ["mergesat %d" % nsheets, "merges " + hx("no such"), "allmerges", "tables"]
    for tn in tnames:
        calls.append("table " + hx(tn))
    calls.append("table " + hx("NoSuchTable"))
    # the order of the calls is shuffled: load_* caches, worksheet_merge_cells re-reads
    rng.shuffle(calls)
    info["tnames"] = tnames
    info["tcols"] = tcols
    info["names"] = names
    return {"desc": " ".join(toks), "calls": ";".join(calls), "info": info}


# ------------------------------------------------------------------ xlsx packing
class _B:
    """a bytes match seen as text (groups decoded as UTF-8, result re-encoded)"""
    def __init__(self, m): self.m = m
    def group(self, i): return self.m.group(i).decode("utf-8")
def parse_parts(txt):
    out = []
    if txt:
        for p in txt.split(","):
            n, d = p.split(":")
            out.append((bytes.fromhex(n[1:]).decode("utf-8"), bytes.fromhex(d[1:])))
    return out


def parse_sheets(txt):
    out = []
    if txt:
        for p in txt.split(","):
            n, d = p.split(":")
            out.append((bytes.fromhex(n[1:]).decode("utf-8"), bytes.fromhex(d[1:]).decode("utf-8")))
    return out


def pack_xlsx(parts, sheets, rng=None):
    """parts: [(zip name, bytes)] from the model; sheets: [(name, path)] = self.sheets as the model
    assumes it.  Returns the bytes of the .xlsx."""
    spelling = rng.choice(["bare", "bare", "xl", "slashxl"]) if rng else "bare"
    case = rng.choice(["asis"] * 8 + ["upper", "lower"]) if rng else "asis"
    comp = rng.choice([zipfile.ZIP_DEFLATED, zipfile.ZIP_DEFLATED, zipfile.ZIP_STORED]) if rng else zipfile.ZIP_DEFLATED
    wb = [DECL, '<workbook xmlns="%s" xmlns:r="%s"><sheets>' % (NS_MAIN, NS_REL)]
    rels = [DECL, '<Relationships xmlns="%s">' % NS_PKG_REL]
    for i, (name, path) in enumerate(sheets):
        assert path.startswith("xl/")
        target = {"bare": path[3:], "xl": path, "slashxl": "/" + path}[spelling]
        wb.append('<sheet name="%s" sheetId="%d" r:id="rId%d"/>' % (esc_attr(name), i + 1, i + 1))
        rels.append('<Relationship Id="rId%d" Type="%s/worksheet" Target="%s"/>' % (i + 1, NS_REL, target))
    wb.append("</sheets></workbook>")
    rels.append("</Relationships>")
    if rng:
        # CT_Table has two names: displayName (what formulas and calamine use) and the object-model
        # name; they may differ and stand in either order.  The Coq encoder writes them equal, name
        # first; a third of the table parts are respelled here (tie only: the reader ignores `name`)
        import re as _re
        def _respell(m):
            if rng.random() < 0.35:
                return m.group(1) + " displayName=" + m.group(3) + ' name="Obj_%d"' % rng.randrange(1000)
            return m.group(0)
        parts = [(n, _re.sub(rb'(<[A-Za-z0-9:]*table\b[^>]*?) name=("[^"]*") displayName=("[^"]*")',
                             lambda m: _respell(_B(m)).encode("utf-8"), d, count=1) if "/tables/" in n else d) for n, d in parts]
    fixed = [("[Content_Types].xml", (DECL + '<Types xmlns="%s"><Default Extension="xml" ContentType="application/xml"/>'
                                      '<Default Extension="rels" ContentType="application/vnd.openxmlformats-package.relationships+xml"/>'
                                      "</Types>" % NS_CT).encode()),
             ("_rels/.rels", (DECL + '<Relationships xmlns="%s"><Relationship Id="rId1" Type="%s/officeDocument" '
                              'Target="xl/workbook.xml"/></Relationships>' % (NS_PKG_REL, NS_REL)).encode()),
             ("xl/workbook.xml", "".join(wb).encode("utf-8")),
             ("xl/_rels/workbook.xml.rels", "".join(rels).encode("utf-8"))]
    buf = io.BytesIO()
    with zipfile.ZipFile(buf, "w") as z:
        for n, data in fixed + list(parts):
            if n in dict(fixed):
                stored = n
            else:
                stored = n.upper() if case == "upper" else n.lower() if case == "lower" else n
            zi = zipfile.ZipInfo(stored, date_time=(2020, 1, 1, 0, 0, 0))
            zi.compress_type = comp
            z.writestr(zi, data)
    return buf.getvalue()


# ------------------------------------------------------------------ xls generation
def gen_xls(rng, profile="structured"):
    nsheets = rng.choice([1, 1, 2, 3])
    names = rng.sample(["S1", "Sheet 2", "Dätä", "表", "Q", "x&y"], nsheets)
    if profile == "malformed" and nsheets > 1 and rng.random() < 0.3:
        names[-1] = names[0]
    toks, info = [], {"regions": 0, "records": 0, "sheets": nsheets}

    row = [0]

    def quiet_rec():
        k = rng.random()
        if k < 0.4:     # NUMBER (rows ascending: Range::from_sparse wants cells sorted by row)
            row[0] += rng.randrange(0, 3)
            return (0x0203, struct.pack("<HHHd", row[0], rng.randrange(20), 0, float(rng.randrange(100))))
        if k < 0.6:     # BLANK (not parsed by calamine)
            return (0x0201, struct.pack("<HHH", rng.randrange(100), rng.randrange(20), 0))
        if k < 0.8:     # DIMENSIONS
            return (0x0200, struct.pack("<IIHHH", 0, 100, 0, 20, 0))
        return (rng.choice([0x0208, 0x023E, 0x001D, 0x0099]), bytes(rng.randrange(256) for _ in range(rng.randrange(0, 12))))

    def others(lo, hi):
        """records of the sheet itself and nested substreams (the chart substream of an embedded chart object,
        [MS-XLS] 2.1.7.20.5 OBJECTS: MsoDrawing, OBJ, BOF ... EOF; it comes BEFORE the MergeCells records of the
        sheet).  The chart's records are whatever xlsgen.chart_sub draws: the series cache, and with some
        probability MERGECELLS records, FORMULA, further BOF ... EOF pairs, CONTINUE records"""
        out = []
        for _ in range(rng.randrange(lo, hi)):
            t, d = quiet_rec()
            out += ["OT", str(t), xs(d)]
        if rng.random() < 0.4:
            for _ in range(rng.choice([1, 1, 2])):
                sub = xlsgen.chart_sub(rng, [(rng.randrange(50), rng.randrange(10)) for _ in range(3)], exotic=0.5)
                recs = []
                for t, b, conts in sub["recs"]:
                    recs.append((t, b))
                    recs += [(0x003C, c) for c in conts]
                if rng.random() < 0.5:
                    # a MERGECELLS record of the chart's own, well-formed or too short for its count
                    n = rng.choice([1, 2, 3])
                    body = struct.pack("<H", n) + b"".join(struct.pack("<HHHH", 7 + i, 8 + i, 1, 2) for i in range(n))
                    recs.insert(rng.randrange(len(recs) + 1), (0x00E5, body if rng.random() < 0.7 else body[:rng.choice([0, 1, 2, 9])]))
                if rng.random() < 0.7:
                    out += ["OT", str(0x00EC), xs(bytes(8)), "OT", str(0x005D), xs(bytes(26))]
                out += ["SB", xs(sub["bof"]), ",".join("%d:%s" % (t, xs(b)) for t, b in recs) or "-"]
                info["subs"] = info.get("subs", 0) + 1
                if any(t == 0x00E5 for t, _ in recs):
                    info["subs_with_mergecells"] = info.get("subs_with_mergecells", 0) + 1
            for _ in range(rng.randrange(0, 2)):
                t, d = quiet_rec()
                out += ["OT", str(t), xs(d)]
        return out

    for name in names:
        toks += ["SH", xs(name)]
        if rng.random() < 0.2:
            toks += ["BF", xs(bytes(rng.getrandbits(8) for _ in range(rng.choice([0, 4, 16]))))]
        row[0] = 0
        ngroups = rng.choice([0, 1, 1, 2, 3])
        for _ in range(ngroups):
            toks += others(0, 3)
            k = rng.random()
            n = rng.choice([1, 1, 2, 3, 7]) if k < 0.9 else rng.choice([0, 1026, 1026, 1027, 300])
            if profile == "malformed" and rng.random() < 0.2:
                n = rng.choice([1027, 2000])
            regs = []
            for _ in range(n):
                b = draw_box(rng, XLS_ROWS, XLS_COLS, (rng.randrange(50), rng.randrange(10)), 6, 6)
                regs.append(b)
            toks += ["MC", "/".join("%d,%d,%d,%d" % b for b in regs) if regs else "-"]
            info["regions"] += n
            info["records"] += 1
        toks += others(0, 3)
    calls = []
    for i, name in enumerate(names):
        calls += ["merges " + hx(name), "mergesat %d" % i]
    calls += ["mergesat %d" % nsheets, "merges " + hx("nope")]
    rng.shuffle(calls)
    info["names"] = names
    return {"desc": " ".join(toks), "calls": ";".join(calls), "info": info}


def parse_xls_records(txt):
    """'t:x<hex>,t:x<hex>|…' -> per sheet list of (typ, bytes)"""
    out = []
    for sh in txt.split("|"):
        recs = []
        if sh:
            for r in sh.split(","):
                t, d = r.split(":")
                recs.append((int(t), bytes.fromhex(d[1:])))
        out.append(recs)
    return out


def rec(t, data):
    return struct.pack("<HH", t, len(data)) + data


def biff_workbook(names, sheet_records, mutate=None):
    """BIFF8 workbook stream: globals (BOF, CODEPAGE, BOUNDSHEET8 x n, EOF), then for each sheet the
    given records (which contain their EOF); a worksheet BOF is put in front of a record list that does
    not start with one (Merge.enc_xls_sheet writes the sheet's BOF itself)."""
    bof_g = rec(0x0809, struct.pack("<HHHHII", 0x0600, 0x0005, 0x0DBB, 0x07CC, 0, 0x0306))
    # any CodePage record or none: BIFF8 text (the sheet names) never depends on it (audit-2 XLS-1)
    import zlib
    cpv = [1200, 1200, 1252, 1252, 932, 936, 1251, 65001, 10000, 437, 54321, None][zlib.crc32(repr(names).encode("utf-8", "replace")) % 12]
    cp = b"" if cpv is None else rec(0x0042, struct.pack("<H", cpv))
    bof_s = rec(0x0809, struct.pack("<HHHHII", 0x0600, 0x0010, 0x0DBB, 0x07CC, 0, 0x0306))

    def bs(pos, name):
        u = name.encode("utf-16le")
        if all(ord(ch) < 256 for ch in name):
            body = bytes([len(name), 0]) + name.encode("latin-1")
        else:
            body = bytes([len(u) // 2, 1]) + u
        return rec(0x0085, struct.pack("<IBB", pos, 0, 0) + body)

    subs = [(b"" if recs and recs[0][0] == 0x0809 else bof_s) + b"".join(rec(t, d) for t, d in recs) for recs in sheet_records]
    eof = rec(0x000A, b"")
    glen = len(bof_g) + len(cp) + sum(len(bs(0, n)) for n in names) + len(eof)
    pos, offs = glen, []
    for s in subs:
        offs.append(pos)
        pos += len(s)
    glob = bof_g + cp + b"".join(bs(o, n) for o, n in zip(offs, names)) + eof
    return glob + b"".join(subs)


def minimal_cfb(stream, name="Workbook"):
    """a version-3 compound file holding one stream (>= 4096 bytes after padding, so no mini
    stream is needed)"""
    ss = 512
    data = stream.ljust(max(4096, (len(stream) + ss - 1) // ss * ss), b"\0")
    nsec = len(data) // ss
    # sectors: 0 = FAT, 1 = directory, 2.. = stream  (FAT covers 128 entries per sector)
    nfat = 1
    while nfat * 128 < nsec + 1 + nfat:
        nfat += 1
    FREE, EOC, FATS = 0xFFFFFFFF, 0xFFFFFFFE, 0xFFFFFFFD
    fat = [FREE] * (nfat * 128)
    for i in range(nfat):
        fat[i] = FATS
    dir_sec = nfat
    fat[dir_sec] = EOC
    first = nfat + 1
    for i in range(nsec):
        fat[first + i] = first + i + 1 if i + 1 < nsec else EOC

    def dirent(nm, typ, start, size):
        n = nm.encode("utf-16le") + b"\0\0"
        return (n.ljust(64, b"\0") + struct.pack("<H", len(n)) + bytes([typ, 1]) + struct.pack("<III", FREE, FREE, FREE)
                + b"\0" * 16 + b"\0" * 4 + b"\0" * 16 + struct.pack("<I", start) + struct.pack("<Q", size))
    root = dirent("Root Entry", 5, EOC, 0)
    root = root[:68] + struct.pack("<III", FREE, FREE, 1) + root[80:]     # child = entry 1
    ent = dirent(name, 2, first, len(stream) if len(stream) >= 4096 else len(data))
    d = (root + ent).ljust(ss, b"\0")
    hdr = bytes.fromhex("D0CF11E0A1B11AE1") + b"\0" * 16 + struct.pack("<HHHHH", 0x3E, 3, 0xFFFE, 9, 6) + b"\0" * 6
    hdr += struct.pack("<IIIII", 0, nfat, dir_sec, 0, 4096) + struct.pack("<II", EOC, 0) + struct.pack("<II", EOC, 0)
    hdr += b"".join(struct.pack("<I", i) for i in range(nfat)) + struct.pack("<I", FREE) * (109 - nfat)
    assert len(hdr) == 512 and nfat <= 109
    fb = b"".join(struct.pack("<I", x) for x in fat)
    return hdr + fb + d + data


def pack_xls(names, sheet_records, rng=None):
    wb = biff_workbook(names, sheet_records)
    try:
        import cfbgen
        return cfbgen.write_cfb({"Workbook": wb}, sector_size=512, rng=rng, shuffle=bool(rng and rng.random() < 0.5))
    except Exception:
        return minimal_cfb(wb)
