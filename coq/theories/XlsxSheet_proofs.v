(* XlsxSheet_proofs — proofs for property C01 (model and definitions: XlsxSheet.v). *)
From Calamine Require Import Prelude Col26 Col26_proofs Range Range_spec Range_proofs HeaderRow XlsxSheet.
From Calamine Require XmlText NumFmt.
From Coq Require Import Sorting.Sorted.
Open Scope N_scope.

(* ------------------------------------------------------------------ strings and names *)
Lemma str_eqb_refl : forall a, str_eqb a a = true.
Proof. induction a as [|x a IH]; cbn; [reflexivity|]. rewrite N.eqb_refl. exact IH. Qed.

Lemma str_eqb_eq : forall a b, str_eqb a b = true <-> a = b.
Proof.
  induction a as [|x a IH]; intros [|y b]; cbn; split; intros H; try reflexivity; try discriminate.
  - apply andb_true_iff in H. destruct H as [H1 H2]. apply N.eqb_eq in H1. apply IH in H2. congruence.
  - inversion H; subst. rewrite N.eqb_refl. apply str_eqb_refl.
Qed.

Lemma after_colon_none : forall l, no_colon l = true -> XmlText.after_colon l = None.
Proof.
  induction l as [|c l IH]; cbn; intros H; [reflexivity|].
  apply andb_true_iff in H. destruct H as [H1 H2].
  destruct (c =? XmlText.COLON); [discriminate|]. apply IH. exact H2.
Qed.

Lemma after_colon_app : forall p l, no_colon p = true ->
  XmlText.after_colon (p ++ XmlText.COLON :: l) = Some l.
Proof.
  induction p as [|c p IH]; cbn; intros l H.
  - rewrite N.eqb_refl. reflexivity.
  - apply andb_true_iff in H. destruct H as [H1 H2].
    destruct (c =? XmlText.COLON); [discriminate|]. apply IH. exact H2.
Qed.

Lemma local_name_qn : forall pfx l, no_colon pfx = true -> no_colon l = true ->
  local_name (qn pfx l) = l.
Proof.
  intros pfx l Hp Hl. unfold XmlText.local_name, XmlText.qn. destruct pfx as [|c p].
  - rewrite after_colon_none by exact Hl. reflexivity.
  - rewrite after_colon_app by exact Hp. reflexivity.
Qed.

Lemma is_local_qn : forall pfx l l', no_colon pfx = true -> no_colon l = true ->
  is_local l' (qn pfx l) = str_eqb l l'.
Proof. intros. unfold is_local. rewrite local_name_qn by assumption. reflexivity. Qed.

(* ------------------------------------------------------------------ attributes *)
Lemma get_attribute_app : forall a b k,
  get_attribute (a ++ b) k =
  match get_attribute a k with Some v => Some v | None => get_attribute b k end.
Proof.
  induction a as [|[k' v] a IH]; intros b k; cbn; [reflexivity|].
  destruct (str_eqb k' k); [reflexivity|]. apply IH.
Qed.

Lemma key_free_none : forall keys a k, key_free keys a = true -> In k keys ->
  get_attribute a k = None.
Proof.
  induction a as [|[k' v] a IH]; intros k H Hin; cbn; [reflexivity|].
  cbn in H. apply andb_true_iff in H. destruct H as [H1 H2].
  destruct (str_eqb k' k) eqn:E.
  - apply str_eqb_eq in E. subst k'. exfalso.
    apply negb_true_iff in H1. rewrite <- not_true_iff_false in H1. apply H1.
    apply existsb_exists. exists k. split; [exact Hin | apply str_eqb_refl].
  - apply IH; assumption.
Qed.

(* ------------------------------------------------------------------ (1) A1 names *)
Theorem a1_roundtrip_full : forall row col,
  row + 1 < ROW_LIMIT -> col < COL_LIMIT ->
  get_row_and_optional_column (a1_name row col) = Ok (row, Some col) /\
  get_row_and_optional_column (map to_lower (a1_name row col)) = Ok (row, Some col) /\
  ~ In ch_dollar (a1_name row col).
Proof.
  intros row col Hr Hc. split; [|split].
  - apply get_row_and_optional_column_a1_name; assumption.
  - rewrite get_row_and_optional_column_lower. apply get_row_and_optional_column_a1_name; assumption.
  - intros H. unfold a1_name in H. apply in_app_or in H. destruct H as [H|H].
    + pose proof (letters_upper col) as F. rewrite Forall_forall in F. specialize (F _ H).
      unfold is_upper, ch_dollar, ch_A, ch_Z in F. lia.
    + pose proof (dec_digits (row + 1)) as F. rewrite Forall_forall in F. specialize (F _ H).
      unfold is_digit, ch_dollar, ch_0, ch_9 in F. lia.
Qed.

(* the limits are exact: one more digit or letter overflows u32 (Col26_proofs) *)
Theorem a1_row_limit_exact : forall row col, ROW_LIMIT <= row + 1 ->
  get_row_column (a1_name row col) = Panic.
Proof. exact get_row_column_row_text_overflow. Qed.

Lemma cell_ref_ok : forall row c, row + 1 < ROW_LIMIT -> ec_col c < COL_LIMIT ->
  get_row_column (cell_ref row c) = Ok (row, ec_col c).
Proof.
  intros row c Hr Hc. unfold cell_ref. destruct (ec_lower c).
  - rewrite get_row_column_lower. apply get_row_column_a1_name; assumption.
  - apply get_row_column_a1_name; assumption.
Qed.

(* ------------------------------------------------------------------ parse_usize on canonical decimals *)
Lemma parse_usize_dec : forall n, n <= U64MAX -> parse_usize (dec n) = Some n.
Proof.
  intros n Hn. unfold parse_usize.
  destruct (dec n) eqn:E; [exfalso; apply (dec_nonempty n); exact E|]. rewrite <- E.
  assert (H1 : forallb is_digit (dec n) = true).
  { apply forallb_forall. intros x Hx. pose proof (dec_digits n) as F.
    rewrite Forall_forall in F. apply F. exact Hx. }
  assert (H2 : (N.of_nat (length (dec n)) <=? 20) = true).
  { apply N.leb_le. pose proof (@dec_length_le 19%nat n) as L.
    assert (n < 10 ^ N.of_nat 20) by (change (10 ^ N.of_nat 20) with 100000000000000000000; unfold U64MAX in Hn; lia).
    specialize (L H). lia. }
  rewrite H1, H2, undec_dec. apply N.leb_le in Hn. rewrite Hn. reflexivity.
Qed.

Lemma nth_N_spec : forall A (l : list A) i, nth_N l i = nth_error l (N.to_nat i).
Proof.
  intros A l i. unfold nth_N. destruct (i <? N.of_nat (length l)) eqn:E; [reflexivity|].
  symmetry. apply nth_error_None. apply N.ltb_ge in E. lia.
Qed.

Section Proofs.
Variable parse_f64 : str -> option N.

Local Notation cells_run := (cells_run parse_f64).
Local Notation cells_step := (cells_step parse_f64).
Local Notation cc_step := (cc_step parse_f64).
Local Notation read_v := (read_v parse_f64).
Local Notation legal_cell := (legal_cell parse_f64).
Local Notation legal_cells := (legal_cells parse_f64).
Local Notation legal_row := (legal_row parse_f64).
Local Notation legal_rows := (legal_rows parse_f64).
Local Notation legal_value := (legal_value parse_f64).
Local Notation legal_sheet := (legal_sheet parse_f64).
Local Notation expected := (expected parse_f64).

Ltac loc := repeat rewrite is_local_qn by (first [assumption | reflexivity]).

(* the DataRef the reader produces for a legal cell *)
Definition cell_dref (en : env) (c : ecell) : dref :=
  match ec_val c with
  | LNumber t =>
      match parse_f64 t with
      | Some bits => format_excel_f64_ref bits (style_format en (ec_style c)) (e_1904 en)
      | None => REmpty
      end
  | LString s => match ec_sform c with SfShared _ => RShared s | _ => RString s end
  | LBool b => RBool b
  | LError code => RError code
  | LIso s => RDateTimeIso s
  | LBlank => REmpty
  end.

Lemma to_data_cell_dref : forall en c,
  to_data (cell_dref en c) = expected en (ec_style c, ec_val c).
Proof.
  intros en c. unfold cell_dref, XlsxSheet.expected. cbn [fst snd].
  destruct (ec_val c) as [t|s|b|code|s|]; try reflexivity.
  - destruct (parse_f64 t); reflexivity.
  - destruct (ec_sform c); reflexivity.
Qed.

(* ------------------------------------------------------------------ one event at a time *)
Lemma run_cont : forall en row col p a st st' e racc rest,
  cc_step en a st e = Cont st' ->
  cells_run en (ShCell row col p a st) racc (e :: rest) = cells_run en (ShCell row col p a st') racc rest.
Proof. intros. cbn [XlsxSheet.cells_run XlsxSheet.cells_step]. rewrite H. reflexivity. Qed.

Lemma run_ret : forall en row col p a st v e racc rest,
  cc_step en a st e = Ret v -> col + 1 <= U32MAX ->
  cells_run en (ShCell row col p a st) racc (e :: rest) =
  cells_run en (ShOuter row (col + 1)) ((p, v) :: racc) rest.
Proof.
  intros. cbn [XlsxSheet.cells_run XlsxSheet.cells_step]. rewrite H. unfold add32.
  apply N.leb_le in H0. rewrite H0. reflexivity.
Qed.

Lemma run_outer_cont : forall en row col e racc rest,
  cells_step en (ShOuter row col) e = SCont (ShOuter row col) ->
  cells_run en (ShOuter row col) racc (e :: rest) = cells_run en (ShOuter row col) racc rest.
Proof. intros. cbn [XlsxSheet.cells_run]. rewrite H. reflexivity. Qed.

(* ------------------------------------------------------------------ ignorable content *)
Lemma noise_skip : forall en row col p a v j racc rest,
  forallb is_noise j = true ->
  cells_run en (ShCell row col p a (CcOuter v)) racc (j ++ rest) =
  cells_run en (ShCell row col p a (CcOuter v)) racc rest.
Proof.
  induction j as [|e j IH]; intros racc rest H; [reflexivity|].
  cbn [forallb] in H. apply andb_true_iff in H. destruct H as [H1 H2].
  cbn [app]. rewrite (@run_cont en row col p a (CcOuter v) (CcOuter v)).
  - apply IH. exact H2.
  - destruct e; cbn in H1; try discriminate; reflexivity.
Qed.

Lemma junk_step : forall en row col e, junk_ok e = true ->
  cells_step en (ShOuter row col) e = SCont (ShOuter row col).
Proof.
  intros en row col e H. destruct e as [n a|n|s|s|]; try reflexivity.
  - cbn in H. apply andb_true_iff in H. destruct H as [H1 H2].
    apply negb_true_iff in H1, H2. cbn [XlsxSheet.cells_step]. rewrite H1, H2. reflexivity.
  - cbn in H. apply andb_true_iff in H. destruct H as [H1 H2].
    apply negb_true_iff in H1, H2. cbn [XlsxSheet.cells_step]. rewrite H1, H2. reflexivity.
Qed.

Lemma junk_skip : forall en row col j racc rest,
  forallb junk_ok j = true ->
  cells_run en (ShOuter row col) racc (j ++ rest) = cells_run en (ShOuter row col) racc rest.
Proof.
  induction j as [|e j IH]; intros racc rest H; [reflexivity|].
  cbn [forallb] in H. apply andb_true_iff in H. destruct H as [H1 H2].
  cbn [app]. rewrite run_outer_cont by (apply junk_step; exact H1). apply IH. exact H2.
Qed.

(* ------------------------------------------------------------------ attributes of an encoded cell *)
Lemma opt_attr_get : forall k v k',
  get_attribute (opt_attr k v) k' = if str_eqb k k' then v else None.
Proof. intros k [x|] k'; cbn; destruct (str_eqb k k'); reflexivity. Qed.

Lemma cell_attrs_r : forall row c, key_free [a_r; a_s; a_t] (ec_extra c) = true ->
  get_attribute (cell_attrs row c) a_r = if ec_explicit c then Some (cell_ref row c) else None.
Proof.
  intros row c H. unfold cell_attrs. rewrite get_attribute_app.
  rewrite (@key_free_none _ _ a_r H) by (cbn; auto).
  rewrite !get_attribute_app, !opt_attr_get.
  change (str_eqb a_r a_r) with true. change (str_eqb a_s a_r) with false.
  change (str_eqb a_t a_r) with false. cbn iota. destruct (ec_explicit c); reflexivity.
Qed.

Lemma cell_attrs_t : forall row c, key_free [a_r; a_s; a_t] (ec_extra c) = true ->
  get_attribute (cell_attrs row c) a_t = cell_t c.
Proof.
  intros row c H. unfold cell_attrs. rewrite get_attribute_app.
  rewrite (@key_free_none _ _ a_t H) by (cbn; auto).
  rewrite !get_attribute_app, !opt_attr_get.
  change (str_eqb a_r a_t) with false. change (str_eqb a_s a_t) with false.
  change (str_eqb a_t a_t) with true. cbn iota. reflexivity.
Qed.

Lemma cell_attrs_fmt : forall en row c, key_free [a_r; a_s; a_t] (ec_extra c) = true ->
  match ec_style c with Some id => id <=? U64MAX | None => true end = true ->
  cell_format_of en (cell_attrs row c) = style_format en (ec_style c).
Proof.
  intros en row c H Hs. unfold cell_format_of, cell_attrs. rewrite get_attribute_app.
  rewrite (@key_free_none _ _ a_s H) by (cbn; auto).
  rewrite !get_attribute_app, !opt_attr_get.
  change (str_eqb a_r a_s) with false. change (str_eqb a_s a_s) with true.
  change (str_eqb a_t a_s) with false. cbn iota. unfold style_format.
  destruct (ec_style c) as [id|]; cbn [option_map].
  - apply N.leb_le in Hs. rewrite parse_usize_dec by exact Hs. reflexivity.
  - reflexivity.
Qed.

(* ------------------------------------------------------------------ read_v on encoded values *)
Definition has_v (c : ecell) : option str :=      (* the text of the <v> element, if any *)
  match ec_val c with
  | LNumber t => Some t
  | LString s => match ec_sform c with SfShared idx => Some (dec idx) | SfInline => None | SfStr => Some s end
  | LBool b => Some (if b then v_1 else v_0)
  | LError code => Some (err_text code)
  | LIso s => Some s
  | LBlank => if ec_tn c then Some [] else None
  end.

Lemma parse_cell_error_text : forall code, code <= 6 -> parse_cell_error (err_text code) = Some code.
Proof.
  intros code H.
  assert (D : code = 0 \/ code = 1 \/ code = 2 \/ code = 3 \/ code = 4 \/ code = 5 \/ code = 6) by lia.
  destruct D as [D|[D|[D|[D|[D|[D|D]]]]]]; subst; reflexivity.
Qed.

Lemma read_v_ok : forall en a c v,
  get_attribute a a_t = cell_t c ->
  cell_format_of en a = style_format en (ec_style c) ->
  legal_value en c = true -> known_cell c = false ->
  has_v c = Some v ->
  read_v en v a = Cont (cell_dref en c).
Proof.
  intros en a c v Ht Hf Hl Hk Hv. unfold XlsxSheet.read_v. rewrite Ht, Hf.
  unfold cell_t, has_v, cell_dref, XlsxSheet.legal_value, known_cell in *.
  destruct (ec_val c) as [t|s|b|code|s|].
  - inversion Hv; subst v. destruct t as [|t0 t]; [discriminate|].
    destruct (parse_f64 (t0 :: t)) as [bits|] eqn:P; [|discriminate].
    destruct (ec_tn c); [|reflexivity].
    change (str_eqb v_n v_s) with false. change (str_eqb v_n v_b) with false.
    change (str_eqb v_n v_e) with false. change (str_eqb v_n v_d) with false.
    change (str_eqb v_n v_str) with false. change (str_eqb v_n v_n) with true. cbn iota.
    reflexivity.
  - destruct (ec_sform c) as [idx| |]; [| discriminate |].
    + inversion Hv; subst v. change (str_eqb v_s v_s) with true. cbn iota.
      apply andb_true_iff in Hl. destruct Hl as [H1 H2]. apply N.leb_le in H1.
      rewrite parse_usize_dec by exact H1. rewrite nth_N_spec in H2.
      destruct (nth_error (e_strings en) (N.to_nat idx)) as [s'|] eqn:E; [|discriminate].
      apply str_eqb_eq in H2. subst s'.
      assert (L : (N.to_nat idx < length (e_strings en))%nat) by (apply nth_error_Some; congruence).
      destruct (idx <? N.of_nat (length (e_strings en))) eqn:E2; [reflexivity|].
      apply N.ltb_ge in E2. lia.
    + inversion Hv; subst v. change (str_eqb v_str v_s) with false.
      change (str_eqb v_str v_b) with false. change (str_eqb v_str v_e) with false.
      change (str_eqb v_str v_d) with false. change (str_eqb v_str v_str) with true. cbn iota.
      apply str_eqb_eq in Hl. rewrite Hl. reflexivity.
  - inversion Hv; subst v. change (str_eqb v_b v_s) with false. change (str_eqb v_b v_b) with true.
    cbn iota. destruct b; reflexivity.
  - inversion Hv; subst v. change (str_eqb v_e v_s) with false. change (str_eqb v_e v_b) with false.
    change (str_eqb v_e v_e) with true. cbn iota.
    apply N.leb_le in Hl.
    assert (H6 : code <= 6).
    { destruct (code =? 7) eqn:E7; [|apply N.eqb_neq in E7; lia].
      apply N.eqb_eq in E7. subst code. discriminate. }
    rewrite parse_cell_error_text by exact H6. reflexivity.
  - inversion Hv; subst v. change (str_eqb v_d v_s) with false. change (str_eqb v_d v_b) with false.
    change (str_eqb v_d v_e) with false. change (str_eqb v_d v_d) with true. reflexivity.
  - destruct (ec_tn c); [|discriminate]. inversion Hv; subst v.
    change (str_eqb v_n v_s) with false. change (str_eqb v_n v_b) with false.
    change (str_eqb v_n v_e) with false. change (str_eqb v_n v_d) with false.
    change (str_eqb v_n v_str) with false. change (str_eqb v_n v_n) with true. reflexivity.
Qed.

(* ------------------------------------------------------------------ the children of <c> *)
Lemma f_elem_run : forall en pfx row col p a v0 f racc rest, no_colon pfx = true ->
  cells_run en (ShCell row col p a (CcOuter v0)) racc (formula_events pfx f ++ rest) =
  cells_run en (ShCell row col p a (CcOuter (match f with Some _ => REmpty | None => v0 end))) racc rest.
Proof.
  intros en pfx row col p a v0 f racc rest Hp. destruct f as [t|]; [|reflexivity].
  unfold formula_events, elem. cbn [app]. rewrite <- app_assoc. cbn [app].
  rewrite (@run_cont en row col p a _ (CcF (qn pfx n_f) 0)).
  2:{ cbn [XlsxSheet.cc_step]. loc. reflexivity. }
  assert (T : cells_run en (ShCell row col p a (CcF (qn pfx n_f) 0)) racc
                (text_ev t ++ End (qn pfx n_f) :: rest) =
              cells_run en (ShCell row col p a (CcF (qn pfx n_f) 0)) racc (End (qn pfx n_f) :: rest)).
  { destruct t as [|t0 t]; [reflexivity|]. cbn [text_ev app].
    apply run_cont. reflexivity. }
  rewrite T. apply run_cont. cbn [XlsxSheet.cc_step]. rewrite str_eqb_refl. reflexivity.
Qed.

Lemma v_elem_run : forall en pfx row col p a v0 s v racc rest, no_colon pfx = true ->
  read_v en s a = Cont v ->
  cells_run en (ShCell row col p a (CcOuter v0)) racc (v_elem pfx s ++ rest) =
  cells_run en (ShCell row col p a (CcOuter v)) racc rest.
Proof.
  intros en pfx row col p a v0 s v racc rest Hp Hr.
  unfold v_elem, elem. cbn [app]. rewrite <- app_assoc. cbn [app].
  rewrite (@run_cont en row col p a _ (CcV (qn pfx n_v) [])).
  2:{ cbn [XlsxSheet.cc_step]. loc. reflexivity. }
  assert (T : cells_run en (ShCell row col p a (CcV (qn pfx n_v) [])) racc
                (text_ev s ++ End (qn pfx n_v) :: rest) =
              cells_run en (ShCell row col p a (CcV (qn pfx n_v) s)) racc (End (qn pfx n_v) :: rest)).
  { destruct s as [|s0 s]; [reflexivity|]. cbn [text_ev app].
    apply run_cont. reflexivity. }
  rewrite T. apply run_cont. cbn [XlsxSheet.cc_step]. rewrite str_eqb_refl, Hr. reflexivity.
Qed.

Lemma is_elem_run : forall en pfx row col p a v0 s racc rest, no_colon pfx = true ->
  cells_run en (ShCell row col p a (CcOuter v0)) racc
            (elem pfx n_is [] (elem pfx n_t [] (text_ev s)) ++ rest) =
  cells_run en (ShCell row col p a (CcOuter (RString (unescape_xstring s)))) racc rest.
Proof.
  intros en pfx row col p a v0 s racc rest Hp.
  unfold elem. cbn [app]. rewrite <- ?app_assoc. cbn [app]. rewrite <- ?app_assoc. cbn [app].
  rewrite (@run_cont en row col p a _ (CcIs (qn pfx n_is) (RsOuter None false))).
  2:{ cbn [XlsxSheet.cc_step]. loc. reflexivity. }
  rewrite (@run_cont en row col p a _ (CcIs (qn pfx n_is) (RsInT None (qn pfx n_t) []))).
  2:{ cbn [XlsxSheet.cc_step rs_step]. loc. reflexivity. }
  assert (T : cells_run en (ShCell row col p a (CcIs (qn pfx n_is) (RsInT None (qn pfx n_t) []))) racc
                (text_ev s ++ End (qn pfx n_t) :: End (qn pfx n_is) :: rest) =
              cells_run en (ShCell row col p a (CcIs (qn pfx n_is) (RsInT None (qn pfx n_t) s))) racc
                (End (qn pfx n_t) :: End (qn pfx n_is) :: rest)).
  { destruct s as [|s0 s]; [reflexivity|]. cbn [text_ev app].
    apply run_cont. reflexivity. }
  rewrite T.
  rewrite (@run_cont en row col p a _ (CcIs (qn pfx n_is) (RsSkip (unescape_xstring s) 0))).
  2:{ cbn [XlsxSheet.cc_step rs_step]. rewrite str_eqb_refl. reflexivity. }
  apply run_cont. cbn [XlsxSheet.cc_step rs_step]. rewrite str_eqb_refl. reflexivity.
Qed.

(* everything between <c …> and </c> *)
Lemma content_run : forall en pfx row col p a c racc rest, no_colon pfx = true ->
  get_attribute a a_t = cell_t c ->
  cell_format_of en a = style_format en (ec_style c) ->
  legal_value en c = true -> known_cell c = false ->
  cells_run en (ShCell row col p a (CcOuter REmpty)) racc (cell_content pfx c ++ rest) =
  cells_run en (ShCell row col p a (CcOuter (cell_dref en c))) racc rest.
Proof.
  intros en pfx row col p a c racc rest Hp Ht Hf Hl Hk.
  pose proof (@read_v_ok en a c) as RV. specialize (RV).
  unfold cell_content.
  destruct (ec_val c) as [t|s|b|code|s|] eqn:EV.
  - rewrite <- app_assoc, f_elem_run by exact Hp.
    apply v_elem_run; [exact Hp|]. apply RV; try assumption. unfold has_v. rewrite EV. reflexivity.
  - destruct (ec_sform c) as [idx| |] eqn:ES.
    + apply v_elem_run; [exact Hp|]. apply RV; try assumption. unfold has_v. rewrite EV, ES. reflexivity.
    + rewrite is_elem_run by exact Hp. unfold cell_dref. rewrite EV, ES.
      unfold XlsxSheet.legal_value in Hl. rewrite EV, ES in Hl. apply str_eqb_eq in Hl. rewrite Hl.
      reflexivity.
    + rewrite <- app_assoc, f_elem_run by exact Hp.
      apply v_elem_run; [exact Hp|]. apply RV; try assumption. unfold has_v. rewrite EV, ES. reflexivity.
  - rewrite <- app_assoc, f_elem_run by exact Hp.
    apply v_elem_run; [exact Hp|]. apply RV; try assumption. unfold has_v. rewrite EV. reflexivity.
  - rewrite <- app_assoc, f_elem_run by exact Hp.
    apply v_elem_run; [exact Hp|]. apply RV; try assumption. unfold has_v. rewrite EV. reflexivity.
  - apply v_elem_run; [exact Hp|]. apply RV; try assumption. unfold has_v. rewrite EV. reflexivity.
  - rewrite <- app_assoc, f_elem_run by exact Hp.
    destruct (ec_tn c) eqn:ETN.
    + apply v_elem_run; [exact Hp|]. apply RV; try assumption. unfold has_v. rewrite EV, ETN. reflexivity.
    + cbn [app]. unfold cell_dref. rewrite EV. destruct (ec_formula c); reflexivity.
Qed.

(* ------------------------------------------------------------------ (2) one cell, one row, all rows *)
Lemma andb_split : forall a b, a && b = true -> a = true /\ b = true.
Proof. intros. apply andb_true_iff. assumption. Qed.

Lemma cell_ok : forall en pfx row cur c racc rest,
  no_colon pfx = true -> row + 1 < ROW_LIMIT ->
  legal_cell en cur c = true -> known_cell c = false ->
  cells_run en (ShOuter row cur) racc (cell_events pfx row c ++ rest) =
  cells_run en (ShOuter row (ec_col c + 1)) (((row, ec_col c), cell_dref en c) :: racc) rest.
Proof.
  intros en pfx row cur c racc rest Hp Hr Hl Hk.
  unfold XlsxSheet.legal_cell in Hl.
  apply andb_split in Hl. destruct Hl as [Hl Hval].
  apply andb_split in Hl. destruct Hl as [Hl Hjunk].
  apply andb_split in Hl. destruct Hl as [Hl Hinner].
  apply andb_split in Hl. destruct Hl as [Hl Hextra].
  apply andb_split in Hl. destruct Hl as [Hl Hstyle].
  apply andb_split in Hl. destruct Hl as [Hl Himp].
  apply andb_split in Hl. destruct Hl as [Hcol Hcur].
  apply N.ltb_lt in Hcol.
  unfold cell_events, elem. cbn [app]. rewrite <- ?app_assoc. cbn [app].
  (* <c …> *)
  assert (S1 : cells_step en (ShOuter row cur) (Start (qn pfx n_c) (cell_attrs row c)) =
               SCont (ShCell row (ec_col c) (row, ec_col c) (cell_attrs row c) (CcOuter REmpty))).
  { cbn [XlsxSheet.cells_step]. loc.
    change (str_eqb n_c n_row) with false. change (str_eqb n_c n_c) with true. cbn iota.
    rewrite cell_attrs_r by exact Hextra. destruct (ec_explicit c).
    - rewrite cell_ref_ok by assumption. reflexivity.
    - cbn [orb] in Himp. apply N.eqb_eq in Himp. rewrite Himp. reflexivity. }
  cbn [XlsxSheet.cells_run]. rewrite S1.
  rewrite noise_skip by exact Hinner.
  rewrite content_run; try assumption.
  2:{ apply cell_attrs_t. exact Hextra. }
  2:{ apply cell_attrs_fmt; assumption. }
  rewrite (@run_ret en row (ec_col c) (row, ec_col c) (cell_attrs row c) _ (cell_dref en c)).
  - apply junk_skip. exact Hjunk.
  - cbn [XlsxSheet.cc_step]. loc. reflexivity.
  - unfold COL_LIMIT in Hcol. unfold U32MAX. lia.
Qed.

Definition row_cells (en : env) (r : erow) : list (pos * dref) :=
  map (fun c => ((er_row r, ec_col c), cell_dref en c)) (er_cells r).
Definition sheet_cells_ref (en : env) (sh : esheet) : list (pos * dref) :=
  flat_map (row_cells en) (es_rows sh).

Lemma cells_ok : forall en pfx row cs cur racc rest,
  no_colon pfx = true -> row + 1 < ROW_LIMIT ->
  legal_cells en cur cs = true ->
  (forall c, In c cs -> known_cell c = false) ->
  exists cur',
  cells_run en (ShOuter row cur) racc (flat_map (cell_events pfx row) cs ++ rest) =
  cells_run en (ShOuter row cur')
            (rev (map (fun c => ((row, ec_col c), cell_dref en c)) cs) ++ racc) rest.
Proof.
  induction cs as [|c cs IH]; intros cur racc rest Hp Hr Hl Hk.
  - exists cur. reflexivity.
  - cbn [XlsxSheet.legal_cells] in Hl. apply andb_split in Hl. destruct Hl as [Hc Hcs].
    cbn [flat_map]. rewrite <- app_assoc.
    rewrite cell_ok; try assumption. 2:{ apply Hk. left. reflexivity. }
    destruct (IH (ec_col c + 1) (((row, ec_col c), cell_dref en c) :: racc) rest Hp Hr Hcs)
      as [cur' E].
    { intros c' Hc'. apply Hk. right. exact Hc'. }
    exists cur'. rewrite E. cbn [map rev]. rewrite <- app_assoc. reflexivity.
Qed.

Lemma row_attrs_r : forall r, key_free [a_r] (er_extra r) = true ->
  get_attribute (row_attrs r) a_r = if er_explicit r then Some (dec (er_row r + 1)) else None.
Proof.
  intros r H. unfold row_attrs. rewrite get_attribute_app.
  rewrite (@key_free_none _ _ a_r H) by (cbn; auto).
  rewrite opt_attr_get. change (str_eqb a_r a_r) with true. cbn iota.
  destruct (er_explicit r); reflexivity.
Qed.

Lemma row_ok : forall en pfx r cur racc rest,
  no_colon pfx = true -> legal_row en cur r = true ->
  (forall c, In c (er_cells r) -> known_cell c = false) ->
  cells_run en (ShOuter cur 0) racc (row_events pfx r ++ rest) =
  cells_run en (ShOuter (er_row r + 1) 0) (rev (row_cells en r) ++ racc) rest.
Proof.
  intros en pfx r cur racc rest Hp Hl Hk.
  unfold XlsxSheet.legal_row in Hl.
  apply andb_split in Hl. destruct Hl as [Hl Hcells].
  apply andb_split in Hl. destruct Hl as [Hl Hjunk].
  apply andb_split in Hl. destruct Hl as [Hl Hjunk0].
  apply andb_split in Hl. destruct Hl as [Hl Hextra].
  apply andb_split in Hl. destruct Hl as [Hl Himp].
  apply andb_split in Hl. destruct Hl as [Hrow Hcur].
  apply N.ltb_lt in Hrow.
  unfold row_events, elem. cbn [app]. rewrite <- ?app_assoc. cbn [app].
  assert (S1 : cells_step en (ShOuter cur 0) (Start (qn pfx n_row) (row_attrs r)) =
               SCont (ShOuter (er_row r) 0)).
  { cbn [XlsxSheet.cells_step]. loc. change (str_eqb n_row n_row) with true. cbn iota.
    rewrite row_attrs_r by exact Hextra. destruct (er_explicit r).
    - rewrite get_row_dec by exact Hrow. reflexivity.
    - cbn [orb] in Himp. apply N.eqb_eq in Himp. rewrite Himp. reflexivity. }
  cbn [XlsxSheet.cells_run]. rewrite S1.
  rewrite junk_skip by exact Hjunk0.
  destruct (@cells_ok en pfx (er_row r) (er_cells r) 0 racc
              (End (qn pfx n_row) :: er_junk r ++ rest) Hp Hrow Hcells Hk) as [cur' E].
  rewrite E. unfold row_cells.
  (* </row> *)
  cbn [XlsxSheet.cells_run XlsxSheet.cells_step]. loc.
  change (str_eqb n_row n_row) with true. cbn iota.
  unfold add32. unfold ROW_LIMIT in Hrow.
  assert (B : (er_row r + 1 <=? U32MAX) = true) by (apply N.leb_le; unfold U32MAX; lia).
  rewrite B. cbn [obind lift_sh].
  apply junk_skip. exact Hjunk.
Qed.

Lemma rows_ok : forall en pfx rs cur racc rest,
  no_colon pfx = true -> legal_rows en cur rs = true ->
  (forall r, In r rs -> forall c, In c (er_cells r) -> known_cell c = false) ->
  exists cur',
  cells_run en (ShOuter cur 0) racc (flat_map (row_events pfx) rs ++ rest) =
  cells_run en (ShOuter cur' 0) (rev (flat_map (row_cells en) rs) ++ racc) rest.
Proof.
  induction rs as [|r rs IH]; intros cur racc rest Hp Hl Hk.
  - exists cur. reflexivity.
  - cbn [XlsxSheet.legal_rows] in Hl. apply andb_split in Hl. destruct Hl as [Hr Hrs].
    cbn [flat_map]. rewrite <- app_assoc.
    rewrite row_ok; try assumption. 2:{ apply Hk. left. reflexivity. }
    destruct (IH (er_row r + 1) (rev (row_cells en r) ++ racc) rest Hp Hrs) as [cur' E].
    { intros r' Hr'. apply Hk. right. exact Hr'. }
    exists cur'. rewrite E. rewrite rev_app_distr, <- app_assoc. reflexivity.
Qed.

(* all cells of an encoded sheet, from <sheetData> on *)
Lemma body_ok : forall en sh rest0,
  legal_sheet en sh = true -> known_C01 sh = None ->
  cells_run en (ShOuter 0 0) []
    (es_junk0 sh ++ flat_map (row_events (es_pfx sh)) (es_rows sh) ++
     End (qn (es_pfx sh) n_sheetData) :: rest0) = Ok (sheet_cells_ref en sh).
Proof.
  intros en sh rest0 Hl Hk. unfold XlsxSheet.legal_sheet in Hl.
  apply andb_split in Hl. destruct Hl as [Hl Hrows].
  apply andb_split in Hl. destruct Hl as [Hl Hjunk0].
  apply andb_split in Hl. destruct Hl as [Hl Hpre2].
  apply andb_split in Hl. destruct Hl as [Hl Hpre].
  apply andb_split in Hl. destruct Hl as [Hp Hdim].
  rewrite junk_skip by exact Hjunk0.
  destruct (@rows_ok en (es_pfx sh) (es_rows sh) 0 []
              (End (qn (es_pfx sh) n_sheetData) :: rest0) Hp Hrows) as [cur' E].
  { intros r Hr c Hc. unfold known_C01 in Hk.
    destruct (existsb (fun r0 => existsb known_cell (er_cells r0)) (es_rows sh)) eqn:X; [discriminate|].
    destruct (known_cell c) eqn:K; [|reflexivity]. exfalso.
    rewrite <- not_true_iff_false in X. apply X. apply existsb_exists. exists r. split; [exact Hr|].
    apply existsb_exists. exists c. split; assumption. }
  rewrite E. cbn [XlsxSheet.cells_run XlsxSheet.cells_step]. loc.
  change (str_eqb n_sheetData n_row) with false. change (str_eqb n_sheetData n_sheetData) with true.
  cbn iota. rewrite app_nil_r, rev_involutive. reflexivity.
Qed.

(* ------------------------------------------------------------------ XlsxCellReader::new on the preamble *)
Lemma pre_skip : forall evs sht d rest, forallb pre_ok evs = true ->
  exists sht', reader_new_loop sht d (evs ++ rest) = reader_new_loop sht' d rest.
Proof.
  induction evs as [|e evs IH]; intros sht d rest H.
  - exists sht. reflexivity.
  - cbn [forallb] in H. apply andb_split in H. destruct H as [H1 H2].
    destruct e as [n a|n|s|s|]; cbn [app reader_new_loop].
    + cbn in H1. apply andb_split in H1. destruct H1 as [Ha Hb].
      apply negb_true_iff in Ha, Hb. rewrite Ha, Hb. apply IH. exact H2.
    + apply IH. exact H2.
    + apply IH. exact H2.
    + apply IH. exact H2.
    + apply IH. exact H2.
Qed.

Lemma dim_skip : forall pfx dm sht d rest, no_colon pfx = true -> legal_dim dm = true ->
  exists d', reader_new_loop sht d (dim_events pfx dm ++ rest) = reader_new_loop sht d' rest.
Proof.
  intros pfx dm sht d rest Hp Hl. unfold dim_events.
  destruct dm as [|p|s e]; cbn [dim_text].
  - exists d. reflexivity.
  - unfold elem. cbn [app reader_new_loop]. loc.
    change (str_eqb n_dimension n_dimension) with true. cbn iota.
    cbn [XmlText.get_attribute]. change (str_eqb a_ref a_ref) with true. cbn iota.
    cbn [legal_dim] in Hl. unfold pos_ok in Hl. apply andb_split in Hl. destruct Hl as [H1 H2].
    apply N.ltb_lt in H1, H2.
    rewrite get_dimension_single by assumption. cbn [obind].
    eexists. reflexivity.
  - unfold elem. cbn [app reader_new_loop]. loc.
    change (str_eqb n_dimension n_dimension) with true. cbn iota.
    cbn [XmlText.get_attribute]. change (str_eqb a_ref a_ref) with true. cbn iota.
    cbn [legal_dim] in Hl. apply andb_split in Hl. destruct Hl as [Hl H4].
    apply andb_split in Hl. destruct Hl as [Hl H3]. unfold pos_ok in Hl.
    apply andb_split in Hl. destruct Hl as [H1 H2].
    apply N.ltb_lt in H1, H2. apply N.leb_le in H3, H4.
    pose proof (@get_dimension_pair (fst s) (snd s) (fst e) (snd e) H3 H4 H1 H2) as G.
    cbn [app] in G. rewrite G. cbn [obind].
    eexists. reflexivity.
Qed.

Lemma head_ok : forall sh rest,
  no_colon (es_pfx sh) = true -> legal_dim (es_dim sh) = true ->
  forallb pre_ok (es_pre sh) = true -> forallb pre_ok (es_pre2 sh) = true ->
  exists d,
  reader_new (es_pre sh ++ dim_events (es_pfx sh) (es_dim sh) ++ es_pre2 sh ++
              Start (qn (es_pfx sh) n_sheetData) [] :: rest) = Ok (d, rest).
Proof.
  intros sh rest Hp Hd H1 H2. unfold reader_new.
  destruct (@pre_skip (es_pre sh) false dims0
              (dim_events (es_pfx sh) (es_dim sh) ++ es_pre2 sh ++
               Start (qn (es_pfx sh) n_sheetData) [] :: rest) H1) as [s1 E1].
  rewrite E1.
  destruct (@dim_skip (es_pfx sh) (es_dim sh) s1 dims0
              (es_pre2 sh ++ Start (qn (es_pfx sh) n_sheetData) [] :: rest) Hp Hd) as [d E2].
  rewrite E2.
  destruct (@pre_skip (es_pre2 sh) s1 d (Start (qn (es_pfx sh) n_sheetData) [] :: rest) H2) as [s2 E3].
  rewrite E3. exists d. cbn [reader_new_loop]. loc.
  change (str_eqb n_sheetData n_dimension) with false.
  change (str_eqb n_sheetData n_sheetData) with true. reflexivity.
Qed.

(* the cells the reader yields for a legal encoding: one per encoded cell, in document order, at
   the position and with the value the logical sheet has there *)
Theorem sheet_cells_encode : forall en sh,
  legal_sheet en sh = true -> known_C01 sh = None ->
  sheet_cells parse_f64 en (encode sh) = Ok (Some (sheet_cells_ref en sh)).
Proof.
  intros en sh Hl Hk. pose proof Hl as Hl0. unfold XlsxSheet.legal_sheet in Hl.
  apply andb_split in Hl. destruct Hl as [Hl Hrows].
  apply andb_split in Hl. destruct Hl as [Hl Hjunk0].
  apply andb_split in Hl. destruct Hl as [Hl Hpre2].
  apply andb_split in Hl. destruct Hl as [Hl Hpre].
  apply andb_split in Hl. destruct Hl as [Hp Hdim].
  unfold sheet_cells, encode.
  destruct (@head_ok sh (es_junk0 sh ++ flat_map (row_events (es_pfx sh)) (es_rows sh) ++
                         End (qn (es_pfx sh) n_sheetData) :: es_post sh) Hp Hdim Hpre Hpre2) as [d E].
  rewrite E. rewrite body_ok by assumption. reflexivity.
Qed.

(* ------------------------------------------------------------------ generic list / range facts *)
Definition lex_lt (p q : pos) : Prop := fst p < fst q \/ (fst p = fst q /\ snd p < snd q).

Lemma pos_eqb_eq : forall a b : pos, pos_eqb a b = true <-> a = b.
Proof.
  intros [a1 a2] [b1 b2]. unfold pos_eqb. cbn [fst snd]. split; intros H.
  - apply andb_split in H. destruct H as [H1 H2]. apply N.eqb_eq in H1, H2. congruence.
  - inversion H; subst. rewrite !N.eqb_refl. reflexivity.
Qed.

Lemma sorted_nodup : forall ps, StronglySorted lex_lt ps -> NoDup ps.
Proof.
  induction 1 as [|p ps HS IH HF]; constructor; [|exact IH].
  intros Hin. rewrite Forall_forall in HF. specialize (HF _ Hin). unfold lex_lt in HF. lia.
Qed.

Section Generic.
Variable T : Type.
Variable d : T.

Lemma sorted_by_row_of_lex : forall cs : list (pos * T),
  StronglySorted lex_lt (map fst cs) -> sorted_by_row cs.
Proof.
  induction cs as [|c cs IH]; intros H; [exact I|].
  cbn [map] in H. inversion H as [|? ? HS HF]; subst. cbn [sorted_by_row]. split.
  - destruct cs as [|c' cs']; [exact I|]. cbn [map] in HF. inversion HF as [|? ? Hc _]; subst.
    unfold lex_lt in Hc. lia.
  - apply IH. exact HS.
Qed.

Lemma sorted_filter : forall (Q : pos * T -> bool) cs,
  StronglySorted lex_lt (map fst cs) -> StronglySorted lex_lt (map fst (filter Q cs)).
Proof.
  induction cs as [|c cs IH]; intros H; [constructor|].
  cbn [map] in H. inversion H as [|? ? HS HF]; subst. cbn [filter].
  destruct (Q c); [|apply IH; exact HS]. cbn [map]. constructor; [apply IH; exact HS|].
  rewrite Forall_forall in *. intros p Hp. apply HF.
  apply in_map_iff in Hp. destruct Hp as [x [Hx1 Hx2]]. apply filter_In in Hx2.
  apply in_map_iff. exists x. tauto.
Qed.

Lemma fold_last_write_none : forall (cs : list (pos * T)) q acc,
  ~ In q (map fst cs) ->
  fold_left (fun a c => if pos_eqb (fst c) q then snd c else a) cs acc = acc.
Proof.
  induction cs as [|c cs IH]; intros q acc H; [reflexivity|]. cbn [fold_left].
  destruct (pos_eqb (fst c) q) eqn:E.
  - apply pos_eqb_eq in E. exfalso. apply H. left. exact E.
  - apply IH. intros Hin. apply H. right. exact Hin.
Qed.

Lemma find_none_notin : forall (cs : list (pos * T)) q,
  ~ In q (map fst cs) -> find (fun c => pos_eqb (fst c) q) cs = None.
Proof.
  induction cs as [|c cs IH]; intros q H; [reflexivity|]. cbn [find].
  destruct (pos_eqb (fst c) q) eqn:E.
  - apply pos_eqb_eq in E. exfalso. apply H. left. exact E.
  - apply IH. intros Hin. apply H. right. exact Hin.
Qed.

(* with distinct positions, the last write at q is the one cell stored at q *)
Lemma last_write_find : forall (cs : list (pos * T)) q, NoDup (map fst cs) ->
  last_write d cs q =
  match find (fun c => pos_eqb (fst c) q) cs with Some c => snd c | None => d end.
Proof.
  unfold last_write. intros cs q. generalize d as acc.
  induction cs as [|c cs IH]; intros acc H; [reflexivity|].
  cbn [map] in H. inversion H as [|? ? Hn Hd]; subst. cbn [fold_left find].
  destruct (pos_eqb (fst c) q) eqn:E.
  - apply pos_eqb_eq in E. subst q. apply fold_last_write_none. exact Hn.
  - apply IH. exact Hd.
Qed.

Lemma find_filter_nodup : forall (Q : pos * T -> bool) (cs : list (pos * T)) q,
  NoDup (map fst cs) ->
  match find (fun c => pos_eqb (fst c) q) (filter Q cs) with Some c => snd c | None => d end =
  match find (fun c => pos_eqb (fst c) q) cs with
  | Some c => if Q c then snd c else d
  | None => d
  end.
Proof.
  induction cs as [|c cs IH]; intros q H; [reflexivity|].
  cbn [map] in H. inversion H as [|? ? Hn Hd]; subst. cbn [filter find].
  destruct (pos_eqb (fst c) q) eqn:E.
  - apply pos_eqb_eq in E. subst q.
    assert (N1 : ~ In (fst c) (map fst (filter Q cs))).
    { intros Hin. apply Hn. apply in_map_iff in Hin. destruct Hin as [x [Hx1 Hx2]].
      apply filter_In in Hx2. apply in_map_iff. exists x. tauto. }
    destruct (Q c).
    + cbn [find]. rewrite (proj2 (pos_eqb_eq (fst c) (fst c)) eq_refl). reflexivity.
    + rewrite find_none_notin by exact N1. reflexivity.
  - destruct (Q c).
    + cbn [find]. rewrite E. apply IH. exact Hd.
    + apply IH. exact Hd.
Qed.

(* the far corner of the tight bounding box is bounded by the positions *)
Lemma tight_bbox_bound : forall B ps s e,
  Forall (fun p : pos => fst p <= B /\ snd p <= B) ps ->
  tight_bbox ps = Some (s, e) -> fst e <= B /\ snd e <= B.
Proof.
  intros B ps s e HF H. destruct ps as [|p0 ps]; [discriminate|].
  cbn [tight_bbox] in H. inversion HF as [|? ? H0 HF']; subst.
  assert (G : forall l b, Forall (fun p : pos => fst p <= B /\ snd p <= B) l ->
              fst (snd b) <= B /\ snd (snd b) <= B ->
              fst (snd (fold_left (fun b p => bbox (Some b) p) l b)) <= B /\
              snd (snd (fold_left (fun b p => bbox (Some b) p) l b)) <= B).
  { induction l as [|p l IH]; intros b Hl Hb; [exact Hb|]. cbn [fold_left].
    inversion Hl as [|? ? Hp Hl']; subst. apply IH; [exact Hl'|].
    destruct b as [bs be]. cbn [bbox fst snd] in *. lia. }
  specialize (G ps (p0, p0) HF' H0).
  assert (E : fold_left (fun b p => bbox (Some b) p) ps (p0, p0) = (s, e)) by (inversion H; reflexivity).
  rewrite E in G. exact G.
Qed.

(* map over a range *)
Lemma nth_error_map' : forall A B (f : A -> B) l n,
  nth_error (map f l) n = option_map f (nth_error l n).
Proof. induction l as [|x l IH]; intros [|n]; cbn; auto. Qed.

End Generic.

Lemma map_range_facts : forall A B (f : A -> B) (r : range A),
  Wf r -> Wf (map_range f r) /\ rect (map_range f r) = rect r /\
  (forall q, in_rect (map_range f r) q = in_rect r q) /\
  (forall q, get_value (map_range f r) q = option_map f (get_value r q)).
Proof.
  intros A B f r HW.
  assert (E : is_empty (map_range f r) = is_empty r).
  { unfold is_empty, map_range. cbn [r_inner]. destruct (r_inner r); reflexivity. }
  assert (W : width (map_range f r) = width r) by (unfold width; rewrite E; reflexivity).
  assert (H : height (map_range f r) = height r) by (unfold height; rewrite E; reflexivity).
  split; [|split; [|split]].
  - unfold Wf, map_range in *. cbn [r_inner r_start r_end]. destruct HW as [HW|HW].
    + left. rewrite HW. reflexivity.
    + right. rewrite map_length. exact HW.
  - unfold rect. rewrite E. reflexivity.
  - intros q. unfold in_rect, rect. rewrite E. reflexivity.
  - intros q. unfold get_value. cbn [map_range r_start r_end].
    destruct (r_start r) as [sr sc]. destruct (r_end r) as [er ec].
    destruct ((sr <=? fst q) && (fst q <=? er) && (sc <=? snd q) && (snd q <=? ec)); [|reflexivity].
    unfold get. rewrite W, H.
    destruct ((width r <=? snd q - sc) || (height r <=? fst q - sr)); [reflexivity|].
    cbn [map_range r_inner]. apply nth_error_map'.
Qed.

(* ------------------------------------------------------------------ from_sparse commutes with a map on the values *)
Lemma last_map : forall A B (g : A -> B) l a, last (map g l) (g a) = g (last l a).
Proof.
  induction l as [|x l IH]; intros a; [reflexivity|]. cbn [map]. destruct l as [|y l]; [reflexivity|].
  change (last (g x :: map g (y :: l)) (g a)) with (last (map g (y :: l)) (g a)).
  change (last (x :: y :: l) a) with (last (y :: l) a). apply IH.
Qed.

Lemma fold_left_map' : forall A B C (h : C -> B -> C) (g : A -> B) l a,
  fold_left h (map g l) a = fold_left (fun acc x => h acc (g x)) l a.
Proof. induction l as [|x l IH]; intros a; [reflexivity|]. cbn. apply IH. Qed.

Lemma map_list_set : forall A B (f : A -> B) l i x,
  map f (list_set l i x) = list_set (map f l) i (f x).
Proof. induction l as [|y l IH]; intros [|i] x; cbn; try reflexivity. rewrite IH. reflexivity. Qed.

Lemma map_repeat' : forall A B (f : A -> B) x n, map f (repeat x n) = repeat (f x) n.
Proof. induction n as [|n IH]; cbn; [reflexivity|]. rewrite IH. reflexivity. Qed.

(* from_sparse with its four bounds abstracted *)
Definition fs_core (T : Type) (d : T) (row_start row_end col_start col_end : N)
           (cells : list (pos * T)) : outcome (range T) :=
  do c0' <- sub32 col_end col_start;
  do cols <- add32 c0' 1;
  do r0' <- sub32 row_end row_start;
  do rows <- add32 r0' 1;
  let len := cols * rows in
  let v0 := repeat d (N.to_nat len) in
  do v <- fold_left (fun (acc : outcome (list T)) c =>
            do v <- acc;
            do row <- sub32 (fst (fst c)) row_start;
            do col <- sub32 (snd (fst c)) col_start;
            let idx := row * cols + col in
            if idx <? len then Ok (list_set v (N.to_nat idx) (snd c)) else Ok v)
          cells (Ok v0);
  Ok (mkRange (row_start, col_start) (row_end, col_end) v).

Definition col_lo (T : Type) (cells : list (pos * T)) : N :=
  fold_left (fun m c => if snd (fst c) <? m then snd (fst c) else m) cells U32MAX.
Definition col_hi (T : Type) (cells : list (pos * T)) : N :=
  fold_left (fun m c => if m <? snd (fst c) then snd (fst c) else m) cells 0.

Lemma from_sparse_core : forall T (d : T) c0 cs,
  from_sparse d (c0 :: cs) =
  fs_core T d (fst (fst c0)) (fst (fst (last (c0 :: cs) c0))) (col_lo T (c0 :: cs)) (col_hi T (c0 :: cs))
          (c0 :: cs).
Proof. reflexivity. Qed.

Lemma fs_core_map : forall A B (f : A -> B) (d : A) rs re cl ch (cs : list (pos * A)),
  fs_core B (f d) rs re cl ch (map (fun c => (fst c, f (snd c))) cs) =
  omap (map_range f) (fs_core A d rs re cl ch cs).
Proof.
  intros A B f d rs re cl ch cs. unfold fs_core. cbv zeta.
  destruct (sub32 ch cl) as [c0'| | |]; cbn [obind omap]; try reflexivity.
  destruct (add32 c0' 1) as [cols| | |]; cbn [obind omap]; try reflexivity.
  destruct (sub32 re rs) as [r0'| | |]; cbn [obind omap]; try reflexivity.
  destruct (add32 r0' 1) as [rows| | |]; cbn [obind omap]; try reflexivity.
  rewrite <- (map_repeat' A B f d).
  generalize (repeat d (N.to_nat (cols * rows))) as v0. intros v0.
  rewrite fold_left_map'. cbn [fst snd]. unfold pos in *.
  assert (G : forall l (acc : outcome (list A)),
    fold_left (fun (acc0 : outcome (list B)) (x : N * N * A) =>
                 do v <- acc0; do row <- sub32 (fst (fst x)) rs;
                 do col <- sub32 (snd (fst x)) cl;
                 if row * cols + col <? cols * rows
                 then Ok (list_set v (N.to_nat (row * cols + col)) (f (snd x))) else Ok v)
              l (omap (map f) acc) =
    omap (map f)
      (fold_left (fun (acc0 : outcome (list A)) (c : N * N * A) =>
                 do v <- acc0; do row <- sub32 (fst (fst c)) rs;
                 do col <- sub32 (snd (fst c)) cl;
                 if row * cols + col <? cols * rows
                 then Ok (list_set v (N.to_nat (row * cols + col)) (snd c)) else Ok v)
              l acc)).
  { induction l as [|x l IH]; intros acc; [reflexivity|]. cbn [fold_left]. rewrite <- IH. f_equal.
    destruct acc as [v| | |]; cbn [omap obind]; try reflexivity.
    destruct (sub32 (fst (fst x)) rs) as [row| | |]; cbn [obind]; try reflexivity.
    destruct (sub32 (snd (fst x)) cl) as [col| | |]; cbn [obind]; try reflexivity.
    destruct (row * cols + col <? cols * rows); cbn [obind omap]; [|reflexivity].
    rewrite map_list_set. reflexivity. }
  specialize (G cs (Ok v0)). cbn [omap obind] in G. rewrite G.
  destruct (fold_left _ cs (Ok v0)) as [v| | |]; reflexivity.
Qed.

Lemma from_sparse_map : forall A B (f : A -> B) (d : A) (cs : list (pos * A)),
  from_sparse (f d) (map (fun c => (fst c, f (snd c))) cs) =
  omap (map_range f) (from_sparse d cs).
Proof.
  intros A B f d cs. destruct cs as [|c0 cs]; [reflexivity|].
  cbn [map]. rewrite !from_sparse_core.
  change ((fst c0, f (snd c0)) :: map (fun c => (fst c, f (snd c))) cs)
    with (map (fun c : pos * A => (fst c, f (snd c))) (c0 :: cs)).
  rewrite <- fs_core_map. f_equal.
  - rewrite (@last_map _ _ (fun c : pos * A => (fst c, f (snd c))) (c0 :: cs) c0). reflexivity.
  - unfold col_lo. rewrite fold_left_map'. reflexivity.
  - unfold col_hi. rewrite fold_left_map'. reflexivity.
Qed.

(* ------------------------------------------------------------------ the encoded cells as one list *)
Definition ucells_rows (rs : list erow) : list (N * ecell) :=
  flat_map (fun r => map (pair (er_row r)) (er_cells r)) rs.
Definition upos (u : N * ecell) : pos := (fst u, ec_col (snd u)).

Lemma ref_cells_u : forall en rs,
  flat_map (row_cells en) rs = map (fun u => (upos u, cell_dref en (snd u))) (ucells_rows rs).
Proof.
  induction rs as [|r rs IH]; [reflexivity|]. unfold ucells_rows in *. cbn [flat_map].
  rewrite map_app, <- IH. f_equal. unfold row_cells. rewrite map_map. reflexivity.
Qed.

Lemma logical_u : forall rs,
  flat_map logical_row rs =
  map (fun u => (upos u, (ec_style (snd u), ec_val (snd u)))) (ucells_rows rs).
Proof.
  induction rs as [|r rs IH]; [reflexivity|]. unfold ucells_rows in *. cbn [flat_map].
  rewrite map_app, <- IH. f_equal. unfold logical_row. rewrite map_map. reflexivity.
Qed.

Lemma sorted_app : forall A (R : A -> A -> Prop) l1 l2,
  StronglySorted R l1 -> StronglySorted R l2 ->
  (forall x y, In x l1 -> In y l2 -> R x y) -> StronglySorted R (l1 ++ l2).
Proof.
  induction l1 as [|a l1 IH]; intros l2 H1 H2 H; [exact H2|].
  inversion H1 as [|? ? HS HF]; subst. cbn [app]. constructor.
  - apply IH; [exact HS | exact H2 |]. intros x y Hx Hy. apply H; [right; exact Hx | exact Hy].
  - apply Forall_app. split; [exact HF|]. apply Forall_forall. intros y Hy.
    apply H; [left; reflexivity | exact Hy].
Qed.

Lemma cells_sorted : forall en row cs cur, legal_cells en cur cs = true ->
  StronglySorted lex_lt (map (fun c => (row, ec_col c)) cs) /\
  Forall (fun c => cur <= ec_col c /\ ec_col c < COL_LIMIT) cs.
Proof.
  induction cs as [|c cs IH]; intros cur H; [split; constructor|].
  cbn [XlsxSheet.legal_cells] in H. apply andb_split in H. destruct H as [Hc Hcs].
  destruct (IH _ Hcs) as [IS IF]. unfold XlsxSheet.legal_cell in Hc.
  repeat (apply andb_split in Hc; destruct Hc as [Hc ?]).
  apply N.ltb_lt in Hc. apply N.leb_le in H5.
  split.
  - cbn [map]. constructor; [exact IS|]. apply Forall_forall. intros p Hp.
    apply in_map_iff in Hp. destruct Hp as [c' [E Hin]]. subst p.
    rewrite Forall_forall in IF. specialize (IF _ Hin). unfold lex_lt. cbn [fst snd]. lia.
  - constructor; [lia|]. eapply Forall_impl; [|exact IF]. cbn. intros a Ha. lia.
Qed.

Lemma rows_sorted : forall en rs cur, legal_rows en cur rs = true ->
  StronglySorted lex_lt (map upos (ucells_rows rs)) /\
  Forall (fun u => cur <= fst u /\ fst u + 1 < ROW_LIMIT /\ ec_col (snd u) < COL_LIMIT) (ucells_rows rs).
Proof.
  induction rs as [|r rs IH]; intros cur H; [split; constructor|].
  cbn [XlsxSheet.legal_rows] in H. apply andb_split in H. destruct H as [Hr Hrs].
  destruct (IH _ Hrs) as [IS IF]. unfold XlsxSheet.legal_row in Hr.
  repeat (apply andb_split in Hr; destruct Hr as [Hr ?]).
  apply N.ltb_lt in Hr. apply N.leb_le in H4.
  destruct (@cells_sorted en (er_row r) (er_cells r) 0 H) as [CS CF].
  unfold ucells_rows in *. cbn [flat_map]. split.
  - rewrite map_app. apply sorted_app.
    + rewrite map_map. exact CS.
    + exact IS.
    + intros x y Hx Hy. rewrite map_map in Hx. apply in_map_iff in Hx. destruct Hx as [c [E Hc]]. subst x.
      apply in_map_iff in Hy. destruct Hy as [u [E Hu]]. subst y.
      rewrite Forall_forall in IF. specialize (IF _ Hu). unfold lex_lt, upos. cbn [fst snd]. lia.
  - apply Forall_app. split.
    + apply Forall_forall. intros u Hu. apply in_map_iff in Hu. destruct Hu as [c [E Hc]]. subst u.
      rewrite Forall_forall in CF. specialize (CF _ Hc). cbn [fst snd]. lia.
    + eapply Forall_impl; [|exact IF]. cbn. intros a Ha. lia.
Qed.

(* ------------------------------------------------------------------ (4) the sheet-level theorem *)
Lemma filter_map_comm : forall A B (g : A -> B) (P : A -> bool) (Q : B -> bool) l,
  (forall x, Q (g x) = P x) -> map g (filter P l) = filter Q (map g l).
Proof.
  induction l as [|x l IH]; intros H; [reflexivity|]. cbn [filter map]. rewrite H.
  destruct (P x); cbn [map]; rewrite IH by exact H; reflexivity.
Qed.

Lemma find_map : forall A B (g : A -> B) (P : B -> bool) l,
  find P (map g l) = option_map g (find (fun x => P (g x)) l).
Proof.
  induction l as [|x l IH]; [reflexivity|]. cbn [map find]. destruct (P (g x)); [reflexivity|exact IH].
Qed.

Lemma is_dempty_to_data : forall v, is_dempty (to_data v) = is_rempty v.
Proof. destruct v; reflexivity. Qed.

Lemma spec_cells_ref : forall en sh,
  map (fun c => (fst c, to_data (snd c))) (sheet_cells_ref en sh) =
  spec_cells parse_f64 en (logical sh).
Proof.
  intros en sh. unfold sheet_cells_ref, logical, spec_cells.
  rewrite ref_cells_u, logical_u, !map_map. apply map_ext. intros u. cbn [fst snd].
  rewrite to_data_cell_dref. reflexivity.
Qed.

(* the model on any legal encoding is a function of the logical sheet alone *)
Theorem sheet_model_eq : forall en sh,
  legal_sheet en sh = true -> known_C01 sh = None ->
  xlsx_sheet_model parse_f64 en (encode sh) = range_of parse_f64 en (logical sh).
Proof.
  intros en sh Hl Hk. unfold xlsx_sheet_model, xlsx_range, xlsx_range_ref.
  rewrite sheet_cells_encode by assumption. cbn [obind].
  unfold lazy_range, lazy_cells, range_of, used_cells_spec.
  rewrite <- spec_cells_ref.
  rewrite <- (@filter_map_comm _ _ (fun c : pos * dref => (fst c, to_data (snd c)))
                (fun c => negb (is_rempty (snd c))) (fun c => negb (is_dempty (snd c)))).
  2:{ intros x. cbn [snd]. rewrite is_dempty_to_data. reflexivity. }
  change DEmpty with (to_data REmpty). rewrite from_sparse_map.
  unfold nonempty_cells. destruct (from_sparse REmpty _); reflexivity.
Qed.

Lemma logical_positions : forall sh, map fst (logical sh) = map upos (ucells_rows (es_rows sh)).
Proof. intros sh. unfold logical. rewrite logical_u, map_map. reflexivity. Qed.

Theorem range_of_spec : forall en sh,
  legal_sheet en sh = true ->
  exists r, range_of parse_f64 en (logical sh) = Ok r /\ Wf r /\
    rect r = tight_bbox (map fst (used_cells_spec parse_f64 en (logical sh))) /\
    (forall q, get_value r q =
       if in_rect r q then Some (value_at parse_f64 en (logical sh) q) else None).
Proof.
  intros en sh Hl. unfold XlsxSheet.legal_sheet in Hl.
  apply andb_split in Hl. destruct Hl as [_ Hrows].
  destruct (@rows_sorted en (es_rows sh) 0 Hrows) as [HS HF].
  set (L := logical sh). set (used := used_cells_spec parse_f64 en L).
  assert (PS : map fst (spec_cells parse_f64 en L) = map upos (ucells_rows (es_rows sh))).
  { unfold spec_cells. rewrite map_map. cbn [fst]. apply logical_positions. }
  assert (SS : StronglySorted lex_lt (map fst (spec_cells parse_f64 en L))) by (rewrite PS; exact HS).
  assert (SU : StronglySorted lex_lt (map fst used)) by (apply sorted_filter; exact SS).
  assert (BU : Forall (fun p : pos => fst p <= 999999999 /\ snd p <= 999999999) (map fst used)).
  { apply Forall_forall. intros p Hp. apply in_map_iff in Hp. destruct Hp as [c [E Hc]]. subst p.
    unfold used, used_cells_spec in Hc. apply filter_In in Hc. destruct Hc as [Hc _].
    assert (Hp : In (fst c) (map fst (spec_cells parse_f64 en L))) by (apply in_map; exact Hc).
    rewrite PS in Hp. apply in_map_iff in Hp. destruct Hp as [u [E Hu]].
    rewrite Forall_forall in HF. specialize (HF _ Hu). rewrite <- E. unfold upos, ROW_LIMIT, COL_LIMIT in *.
    cbn [fst snd]. lia. }
  assert (PRE : pre (@empty xdata) (OFromSparse used)).
  { cbn [pre]. split; [|split].
    - apply sorted_by_row_of_lex. exact SU.
    - intros c Hc. rewrite Forall_forall in BU. specialize (BU (fst c) (in_map fst _ _ Hc)).
      unfold U32MAX. lia.
    - destruct (tight_bbox (map fst used)) as [[s e]|] eqn:TB; [|exact I].
      destruct (@tight_bbox_bound 999999999 (map fst used) s e BU TB) as [B1 B2].
      unfold U32MAX. lia. }
  destruct (@from_sparse_spec xdata DEmpty used PRE) as [r [R1 [R2 [R3 R4]]]].
  exists r. split; [exact R1|]. split; [exact R2|]. split; [exact R3|].
  intros q. rewrite R4. destruct (in_rect r q); [|reflexivity]. f_equal.
  rewrite last_write_find by (apply sorted_nodup; exact SU).
  unfold used, used_cells_spec.
  rewrite find_filter_nodup by (apply sorted_nodup; exact SS).
  unfold spec_cells, value_at. rewrite find_map. cbn [fst].
  destruct (find (fun x => pos_eqb (fst x) q) L) as [lc|]; cbn [option_map]; [|reflexivity].
  cbn [snd]. destruct (expected en (snd lc)); reflexivity.
Qed.

Theorem xlsx_sheet_main : forall en sh,
  legal_sheet en sh = true -> known_C01 sh = None ->
  xlsx_sheet_model parse_f64 en (encode sh) = range_of parse_f64 en (logical sh) /\
  exists r, xlsx_sheet_model parse_f64 en (encode sh) = Ok r /\ Wf r /\
    rect r = tight_bbox (map fst (used_cells_spec parse_f64 en (logical sh))) /\
    (forall q, get_value r q =
       if in_rect r q then Some (value_at parse_f64 en (logical sh) q) else None).
Proof.
  intros en sh Hl Hk. split; [apply sheet_model_eq; assumption|].
  rewrite sheet_model_eq by assumption. apply range_of_spec. exact Hl.
Qed.

(* independence of the physical encoding *)
Theorem encoding_independent : forall en sh1 sh2,
  legal_sheet en sh1 = true -> legal_sheet en sh2 = true ->
  known_C01 sh1 = None -> known_C01 sh2 = None ->
  logical sh1 = logical sh2 ->
  xlsx_sheet_model parse_f64 en (encode sh1) = xlsx_sheet_model parse_f64 en (encode sh2).
Proof.
  intros en sh1 sh2 H1 H2 K1 K2 E. rewrite !sheet_model_eq by assumption. rewrite E. reflexivity.
Qed.

(* ------------------------------------------------------------------ (2) explicit and implicit references agree *)
Lemma legal_cells_explicit : forall en cs cur, legal_cells en cur cs = true ->
  legal_cells en cur (map explicit_cell cs) = true.
Proof.
  induction cs as [|c cs IH]; intros cur H; [reflexivity|].
  cbn [map XlsxSheet.legal_cells] in *. apply andb_split in H. destruct H as [Hc Hcs].
  change (ec_col (explicit_cell c)) with (ec_col c).
  rewrite (IH _ Hcs). rewrite andb_true_r.
  unfold XlsxSheet.legal_cell, XlsxSheet.legal_value in *. cbn [explicit_cell ec_col ec_explicit ec_style ec_extra ec_inner
    ec_junk ec_val ec_sform orb].
  repeat (apply andb_split in Hc; destruct Hc as [Hc ?]).
  rewrite Hc, H, H0, H1, H2, H3, H5. reflexivity.
Qed.

Lemma legal_rows_explicit : forall en rs cur, legal_rows en cur rs = true ->
  legal_rows en cur (map explicit_row rs) = true.
Proof.
  induction rs as [|r rs IH]; intros cur H; [reflexivity|].
  cbn [map XlsxSheet.legal_rows] in *. apply andb_split in H. destruct H as [Hr Hrs].
  change (er_row (explicit_row r)) with (er_row r). rewrite (IH _ Hrs). rewrite andb_true_r.
  unfold XlsxSheet.legal_row in *. cbn [explicit_row er_row er_explicit er_extra er_junk0 er_junk er_cells orb].
  repeat (apply andb_split in Hr; destruct Hr as [Hr ?]).
  rewrite (legal_cells_explicit _ _ _ H). rewrite Hr, H0, H1, H2, H4. reflexivity.
Qed.

Lemma logical_explicit : forall sh, logical (all_explicit sh) = logical sh.
Proof.
  intros sh. unfold logical, all_explicit. cbn [es_rows].
  induction (es_rows sh) as [|r rs IH]; [reflexivity|]. cbn [map flat_map]. rewrite IH. f_equal.
  unfold logical_row. cbn [explicit_row er_cells er_row]. rewrite map_map. reflexivity.
Qed.

Lemma known_explicit : forall sh, known_C01 (all_explicit sh) = known_C01 sh.
Proof.
  intros sh. unfold known_C01, all_explicit. cbn [es_rows].
  assert (E : forall rs, existsb (fun r => existsb known_cell (er_cells r)) (map explicit_row rs) =
                         existsb (fun r => existsb known_cell (er_cells r)) rs).
  { induction rs as [|r rs IH]; [reflexivity|]. cbn [map existsb]. rewrite IH. f_equal.
    cbn [explicit_row er_cells]. induction (er_cells r) as [|c cs IHc]; [reflexivity|].
    cbn [map existsb]. rewrite IHc. reflexivity. }
  rewrite E. reflexivity.
Qed.

Theorem cursor_equiv : forall en sh,
  legal_sheet en sh = true -> known_C01 sh = None ->
  legal_sheet en (all_explicit sh) = true /\
  (exists cs, sheet_cells parse_f64 en (encode sh) = Ok (Some cs) /\
              sheet_cells parse_f64 en (encode (all_explicit sh)) = Ok (Some cs) /\
              map fst cs = map fst (logical sh)) /\
  xlsx_sheet_model parse_f64 en (encode sh) = xlsx_sheet_model parse_f64 en (encode (all_explicit sh)).
Proof.
  intros en sh Hl Hk.
  assert (L2 : legal_sheet en (all_explicit sh) = true).
  { unfold XlsxSheet.legal_sheet in *. cbn [all_explicit es_pfx es_dim es_pre es_pre2 es_junk0 es_rows].
    repeat (apply andb_split in Hl; destruct Hl as [Hl ?]).
    rewrite Hl, H0, H1, H2, H3. apply legal_rows_explicit. exact H. }
  split; [exact L2|]. split.
  - exists (sheet_cells_ref en sh). split; [apply sheet_cells_encode; assumption|]. split.
    + rewrite sheet_cells_encode; [| exact L2 | rewrite known_explicit; exact Hk].
      do 2 f_equal. unfold sheet_cells_ref, all_explicit. cbn [es_rows].
      induction (es_rows sh) as [|r rs IH]; [reflexivity|]. cbn [map flat_map]. rewrite IH. f_equal.
      unfold row_cells. cbn [explicit_row er_cells er_row]. rewrite map_map. reflexivity.
    + unfold sheet_cells_ref. rewrite ref_cells_u, logical_positions, map_map. reflexivity.
  - apply encoding_independent; try assumption.
    + rewrite known_explicit. exact Hk.
    + symmetry. apply logical_explicit.
Qed.

(* ------------------------------------------------------------------ (3) the typing table of read_v *)
Lemma str_eqb_neq : forall a b, a <> b -> str_eqb a b = false.
Proof.
  intros a b H. destruct (str_eqb a b) eqn:E; [|reflexivity]. apply str_eqb_eq in E. contradiction.
Qed.

Theorem typing_table : forall en v a,
  let fmt := cell_format_of en a in
  let num := fun bits => format_excel_f64_ref bits fmt (e_1904 en) in
  let idx := match parse_usize v with Some i => i | None => 0 end in
  match get_attribute a a_t with
  | None =>
      read_v en v a = match parse_f64 v with Some bits => Cont (num bits) | None => Cont (RString v) end
  | Some t =>
      (t = v_n -> read_v en v a =
         match v with
         | [] => Cont REmpty
         | _ => match parse_f64 v with Some bits => Cont (num bits) | None => Fail E_PARSEFLOAT end
         end) /\
      (t = v_s -> read_v en v a =
         match nth_N (e_strings en) idx with Some s => Cont (RShared s) | None => Boom end) /\
      (t = v_str -> read_v en v a = Cont (RString (unescape_xstring v))) /\
      (t = v_b -> read_v en v a = Cont (RBool (negb (str_eqb v v_0)))) /\
      (t = v_e -> read_v en v a =
         match parse_cell_error v with Some c => Cont (RError c) | None => Fail E_CELLERROR end) /\
      (t = v_d -> read_v en v a = Cont (RDateTimeIso v)) /\
      (t <> v_n -> t <> v_s -> t <> v_str -> t <> v_b -> t <> v_e -> t <> v_d ->
         read_v en v a = Fail E_TATTR)
  end /\
  (* the number wrapper: by cell format *)
  (forall bits, num bits =
     match fmt with
     | Some NumFmt.DateTime => RDateTime bits false (e_1904 en)
     | Some NumFmt.TimeDelta => RDateTime bits true (e_1904 en)
     | _ => RFloat bits
     end).
Proof.
  intros en v a fmt num idx. split; [|intros bits; reflexivity].
  unfold XlsxSheet.read_v. fold fmt. destruct (get_attribute a a_t) as [t|]; [|reflexivity].
  repeat split; intros; subst; try reflexivity.
  - change (str_eqb v_s v_s) with true. cbn iota. fold idx. unfold nth_N.
    destruct (idx <? N.of_nat (length (e_strings en))) eqn:E; [|reflexivity].
    destruct (nth_error (e_strings en) (N.to_nat idx)); reflexivity.
  - rewrite !str_eqb_neq by assumption. reflexivity.
Qed.

(* what an <is> child yields, whatever t says: the text of its <t>, or Empty without one *)
Theorem typing_inline : forall en pfx row col p a v0 s racc rest, no_colon pfx = true ->
  cells_run en (ShCell row col p a (CcOuter v0)) racc
            (elem pfx n_is [] (elem pfx n_t [] (text_ev s)) ++ rest) =
  cells_run en (ShCell row col p a (CcOuter (RString (unescape_xstring s)))) racc rest /\
  cells_run en (ShCell row col p a (CcOuter v0)) racc (elem pfx n_is [] [] ++ rest) =
  cells_run en (ShCell row col p a (CcOuter REmpty)) racc rest.
Proof.
  intros en pfx row col p a v0 s racc rest Hp. split; [apply is_elem_run; exact Hp|].
  unfold elem. cbn [app].
  rewrite (@run_cont en row col p a _ (CcIs (qn pfx n_is) (RsOuter None false))).
  2:{ cbn [XlsxSheet.cc_step]. loc. reflexivity. }
  apply run_cont. cbn [XlsxSheet.cc_step rs_step]. rewrite str_eqb_refl. reflexivity.
Qed.

End Proofs.

(* ------------------------------------------------------------------ (5) path functions *)
Lemma starts_with_app : forall p s, starts_with p (p ++ s) = true.
Proof. induction p as [|x p IH]; intros s; [reflexivity|]. cbn. rewrite N.eqb_refl. apply IH. Qed.

Theorem target_normal_form : forall part sp,
  starts_with p_xl part = false -> starts_with p_slash_xl part = false ->
  normalize_target (spell sp part) = p_xl ++ part.
Proof.
  intros part sp H1 H2. unfold normalize_target, spell. destruct sp.
  - rewrite H2, H1. reflexivity.
  - rewrite starts_with_app. reflexivity.
  - change (starts_with p_slash_xl (p_xl ++ part)) with false. cbn iota.
    rewrite starts_with_app. reflexivity.
Qed.

(* the sheet type is read off the folder, whatever the file is called *)
Theorem sheet_type_of_folder : forall rest,
  sheet_type_of (p_xl ++ p_worksheets ++ SLASH :: rest) = Some 0 /\
  sheet_type_of (p_xl ++ p_chartsheets ++ SLASH :: rest) = Some 1 /\
  sheet_type_of (p_xl ++ p_dialogsheets ++ SLASH :: rest) = Some 2 /\
  sheet_type_of (p_xl ++ p_macrosheets ++ SLASH :: rest) = Some 3.
Proof.
  intros rest. unfold sheet_type_of, second_segment.
  assert (G : forall folder, ~ In SLASH folder ->
            nth_error (split_on SLASH (p_xl ++ folder ++ SLASH :: rest) []) 1 = Some folder).
  { intros folder Hf.
    change (p_xl ++ folder ++ SLASH :: rest) with ([120; 108] ++ SLASH :: (folder ++ SLASH :: rest)).
    rewrite split_on_sep by (cbn; unfold SLASH; intuition discriminate).
    rewrite split_on_sep by exact Hf. reflexivity. }
  repeat split; rewrite G; try reflexivity;
    cbn; unfold SLASH; intuition discriminate.
Qed.

Lemma lower_ascii_eqb_sym : forall x y, (lower_ascii x =? lower_ascii y) = (lower_ascii y =? lower_ascii x).
Proof. intros. apply N.eqb_sym. Qed.

Lemma eic_refl : forall a, eq_ignore_ascii_case a a = true.
Proof. induction a as [|x a IH]; cbn; [reflexivity|]. rewrite N.eqb_refl. exact IH. Qed.

Lemma eic_sym : forall a b, eq_ignore_ascii_case a b = eq_ignore_ascii_case b a.
Proof.
  induction a as [|x a IH]; intros [|y b]; cbn; try reflexivity. rewrite IH, N.eqb_sym. reflexivity.
Qed.

Lemma eic_trans : forall a b c, eq_ignore_ascii_case a b = true -> eq_ignore_ascii_case b c = true ->
  eq_ignore_ascii_case a c = true.
Proof.
  induction a as [|x a IH]; intros [|y b] [|z c] H1 H2; cbn in *; try discriminate; try reflexivity.
  apply andb_true_iff in H1, H2. destruct H1 as [A1 A2]. destruct H2 as [B1 B2].
  apply N.eqb_eq in A1, B1. rewrite A1, B1, N.eqb_refl. cbn. eapply IH; eassumption.
Qed.

(* looking a part up under two spellings that differ in ASCII case only gives the same entry *)
Theorem part_lookup_case_insensitive : forall A (parts : list (str * A)) p p',
  eq_ignore_ascii_case p p' = true -> find_part parts p = find_part parts p'.
Proof.
  intros A parts p p' H. unfold find_part. induction parts as [|[n x] parts IH]; [reflexivity|].
  cbn [find fst].
  assert (E : eq_ignore_ascii_case n p = eq_ignore_ascii_case n p').
  { destruct (eq_ignore_ascii_case n p) eqn:E1; symmetry.
    - eapply eic_trans; eassumption.
    - destruct (eq_ignore_ascii_case n p') eqn:E2; [|reflexivity].
      rewrite <- E1. symmetry. eapply eic_trans; [exact E2|]. rewrite eic_sym. exact H. }
  rewrite E. destruct (eq_ignore_ascii_case n p'); [reflexivity|exact IH].
Qed.

(* every re-casing of a name is found; when no other entry matches, it is that entry *)
Theorem part_lookup_recased : forall A (parts : list (str * A)) n x p,
  In (n, x) parts -> eq_ignore_ascii_case n p = true ->
  (forall m y, In (m, y) parts -> eq_ignore_ascii_case m p = true -> (m, y) = (n, x)) ->
  find_part parts p = Some (n, x).
Proof.
  intros A parts n x p Hin He Hu. unfold find_part.
  induction parts as [|[m y] parts IH]; [contradiction|]. cbn [find fst].
  destruct (eq_ignore_ascii_case m p) eqn:E.
  - f_equal. apply Hu; [left; reflexivity | exact E].
  - apply IH.
    + destruct Hin as [Hin|Hin]; [|exact Hin]. inversion Hin; subst. congruence.
    + intros m' y' Hm He'. apply Hu; [right; exact Hm | exact He'].
Qed.

Lemma eic_map : forall (h : N -> N) s, (forall c, lower_ascii (h c) = lower_ascii c) ->
  eq_ignore_ascii_case (map h s) s = true.
Proof.
  intros h s H. induction s as [|c s IH]; [reflexivity|]. cbn. rewrite H, N.eqb_refl. exact IH.
Qed.

(* ------------------------------------------------------------------ witnesses *)
Module Wit.
Import Coq.Strings.String.
Definition ascii (s : string) : str := XL.s2l s.
Arguments ascii _%string_scope.

(* a toy oracle for the non-vacuity examples: digit strings only, "bits" = the number itself *)
Definition toy_parse (s : str) : option N :=
  match s with [] => None | _ => if forallb is_digit s then Some (undec s) else None end.

Definition wit_env : env := mkEnv [ascii "zero"; ascii "one"] [NumFmt.Other; NumFmt.DateTime] false.

Definition cellN (col : N) (ex : bool) (v : lvalue) (sf : strform) (st : option N) : ecell :=
  mkCell col ex false st v sf false None [] [] [].

(* rows 3 (explicit), 4 (implicit), 9 (explicit); implicit cells after explicit ones; a prefix;
   a wrong dimension; ignorable elements and white space everywhere; a style-only cell; an empty row *)
Definition wit_sheet : esheet :=
  let x := ascii "x" in
  mkSheet x (DimArea (0, 0) (1, 1))
    [Other; Start (qn x n_worksheet) [(ascii "xmlns:x", ascii "urn:main")];
     Start (qn x (ascii "sheetPr")) []; End (qn x (ascii "sheetPr"))]
    [Text (ascii " "); Start (qn x (ascii "cols")) []; Start (qn x (ascii "col")) [];
     End (qn x (ascii "col")); End (qn x (ascii "cols"))]
    [Text [10]]
    [mkRow 2 true [(ascii "spans", ascii "1:3")] [Text [10]]
       [cellN 25 true (LNumber (ascii "42")) SfInline None;
        cellN 26 false (LString (ascii "one")) (SfShared 1) None;
        mkCell 27 false false (Some 1) (LNumber (ascii "7")) SfInline true (Some (ascii "1+6")) [] [Text [32]] [Other];
        cellN 701 true (LString (ascii "in")) SfInline None;
        cellN 702 false (LBool true) SfInline None] [Text [10]];
     mkRow 3 false [] []
       [cellN 0 false (LError 1) SfInline None;
        cellN 1 false LBlank SfInline (Some 1);
        cellN 2 false (LString (ascii "f")) SfStr None] [];
     mkRow 5 true [] [] [] [];
     mkRow 8 true [] []
       [mkCell 730 true true None (LIso (ascii "2021-01-01")) SfInline false None [] [] []] []]
    [Start (qn x (ascii "mergeCells")) []; End (qn x (ascii "mergeCells")); End (qn x n_worksheet)].

(* class 1: one #GETTING_DATA cell *)
Definition wit_sheet_k1 : esheet :=
  mkSheet [] DimAbsent [Start n_worksheet []] [] []
    [mkRow 0 true [] [] [cellN 0 true (LString (ascii "a")) SfInline None] [];
     mkRow 1 true [] [] [cellN 1 true (LError 7) SfInline None] []]
    [End n_worksheet].

Theorem refuted_getting_data : forall parse_f64,
  legal_sheet parse_f64 wit_env wit_sheet_k1 = true /\
  known_C01 wit_sheet_k1 = Some 1 /\
  xlsx_sheet_model parse_f64 wit_env (encode wit_sheet_k1) = Err E_CELLERROR /\
  exists r, range_of parse_f64 wit_env (logical wit_sheet_k1) = Ok r /\
            get_value r (1, 1) = Some (DError 7) /\
            xlsx_sheet_model parse_f64 wit_env (encode wit_sheet_k1) <> Ok r.
Proof.
  intros parse_f64. split; [vm_compute; reflexivity|]. split; [vm_compute; reflexivity|].
  split; [vm_compute; reflexivity|].
  eexists. split; [vm_compute; reflexivity|]. split; [vm_compute; reflexivity|].
  vm_compute. discriminate.
Qed.

(* class 2 (F30): the same workbook opens with r:id and fails with rel:id *)
Definition wit_wb (relpfx : str) : eworkbook :=
  mkWorkbook [] relpfx []
    [mkSheetRef (ascii "First") (ascii "rId1") (ascii "worksheets/sheet1.xml") SpRelative [(a_sheetId, ascii "1")];
     mkSheetRef (ascii "Second") (ascii "rId2") (ascii "worksheets/sheet2.xml") SpAbsolute [];
     mkSheetRef (ascii "Third") (ascii "rId3") (ascii "worksheets/sheet3.xml") SpXl []]
    (Some (ascii "1")).
Definition wit_package (wb : eworkbook) : package :=
  [(ascii "XL/_rels/Workbook.xml.RELS", rels_events wb); (ascii "xl/WORKBOOK.xml", workbook_events wb)].

Theorem refuted_rel_prefix :
  known_C01_wb (wit_wb (ascii "r")) = None /\
  open_sheets (wit_package (wit_wb (ascii "r"))) =
    Ok ([(ascii "First", ascii "xl/worksheets/sheet1.xml");
         (ascii "Second", ascii "xl/worksheets/sheet2.xml");
         (ascii "Third", ascii "xl/worksheets/sheet3.xml")], true) /\
  known_C01_wb (wit_wb (ascii "rel")) = Some 2 /\
  open_sheets (wit_package (wit_wb (ascii "rel"))) = Err E_UNRECOGNIZED.
Proof. vm_compute. repeat split. Qed.

Example wit_sheet_legal :
  legal_sheet toy_parse wit_env wit_sheet = true /\ known_C01 wit_sheet = None /\
  map fst (logical wit_sheet) =
    [(2, 25); (2, 26); (2, 27); (2, 701); (2, 702); (3, 0); (3, 1); (3, 2); (8, 730)] /\
  (exists r, xlsx_sheet_model toy_parse wit_env (encode wit_sheet) = Ok r /\
             start r = Some (2, 0) /\ end_ r = Some (8, 730) /\
             get_value r (2, 25) = Some (DFloat 42) /\
             get_value r (2, 26) = Some (DString (ascii "one")) /\
             get_value r (2, 27) = Some (DDateTime 7 false false) /\
             get_value r (2, 702) = Some (DBool true) /\
             get_value r (3, 0) = Some (DError 1) /\
             get_value r (3, 1) = Some DEmpty /\
             get_value r (8, 730) = Some (DDateTimeIso (ascii "2021-01-01"))).
Proof.
  split; [vm_compute; reflexivity|]. split; [vm_compute; reflexivity|].
  split; [vm_compute; reflexivity|].
  eexists. split; [vm_compute; reflexivity|]. vm_compute. repeat split.
Qed.
End Wit.
Export Wit.
