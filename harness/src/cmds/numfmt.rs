// C10: the implementation side of the number-format correspondence (see ocaml/cmd_numfmt.ml for
// the sub-commands).  Private functions are reached through calamine::verif_hooks::formats; the
// file commands (xlsxf / xlsf / xlsbf) go through the public API only.
use crate::util::{data_str, unhex};
use calamine::verif_hooks::formats as hk;
use calamine::{open_workbook, Data, Range, Reader, Xls, Xlsb, Xlsx};

fn fmt_arg(s: &str) -> Option<u8> {
    match s {
        "0" => Some(0),
        "1" => Some(1),
        "2" => Some(2),
        _ => None,
    }
}

fn sweep(alphabet: &[char], len: usize, prefix: &str) -> String {
    let mut counts = [0u64; 3];
    let mut h: u64 = 0xcbf29ce484222325;
    let na = alphabet.len();
    let mut idx = vec![0usize; len];
    let mut s = String::new();
    loop {
        s.clear();
        s.push_str(prefix);
        for &i in &idx {
            s.push(alphabet[i]);
        }
        let k = hk::detect_custom_number_format(&s) as usize;
        counts[k] += 1;
        h = (h ^ (k as u64)).wrapping_mul(0x100000001b3);
        // next index vector, most significant position first (same order as the model's DFS)
        let mut p = len;
        loop {
            if p == 0 {
                return format!("{},{},{},{:x}", counts[0], counts[1], counts[2], h);
            }
            p -= 1;
            idx[p] += 1;
            if idx[p] < na {
                break;
            }
            idx[p] = 0;
        }
    }
}

fn row0(range: &Range<Data>) -> String {
    // every cell of the used range, row-major, skipping empty ones
    range
        .used_cells()
        .map(|(_, _, d)| data_str(d))
        .collect::<Vec<_>>()
        .join(",")
}

pub fn run(args: &[&str]) -> String {
    match args {
        ["detect", h] => {
            let b = unhex(h);
            match std::str::from_utf8(&b) {
                Ok(s) => hk::detect_custom_number_format(s).to_string(),
                Err(_) => "bad-utf8".to_string(),
            }
        }
        ["detect"] => hk::detect_custom_number_format("").to_string(),
        ["byid", h] => hk::builtin_format_by_id(&unhex(h)).to_string(),
        ["byid"] => hk::builtin_format_by_id(&[]).to_string(),
        ["bycode", n] => {
            let c: u16 = match n.parse() {
                Ok(c) => c,
                Err(_) => return "bad-args".to_string(),
            };
            format!(
                "{}|{}",
                hk::builtin_format_by_code(c),
                hk::builtin_format_by_id(c.to_string().as_bytes())
            )
        }
        ["wrapf", bits, f, d] => {
            let bits: u64 = bits.parse().unwrap_or(0);
            data_str(&hk::format_excel_f64(f64::from_bits(bits), fmt_arg(f), *d == "1"))
        }
        ["wrapi", v, f, d] => {
            let v: i64 = v.parse().unwrap_or(0);
            data_str(&hk::format_excel_i64(v, fmt_arg(f), *d == "1"))
        }
        ["sweep", alpha, len, rest @ ..] => {
            let ab = unhex(alpha);
            let alphabet: Vec<char> = String::from_utf8_lossy(&ab).chars().collect();
            let pb = rest.first().map(|p| unhex(p)).unwrap_or_default();
            let prefix = String::from_utf8_lossy(&pb).into_owned();
            sweep(&alphabet, len.parse().unwrap_or(0), &prefix)
        }
        ["xlsxf", path] => {
            let mut wb: Xlsx<_> = match open_workbook(path) {
                Ok(w) => w,
                Err(_) => return "err-open".to_string(),
            };
            match wb.worksheet_range_at(0) {
                Some(Ok(r)) => row0(&r),
                _ => "err-sheet".to_string(),
            }
        }
        ["xlsf", path] => {
            let mut wb: Xls<_> = match open_workbook(path) {
                Ok(w) => w,
                Err(_) => return "err-open".to_string(),
            };
            match wb.worksheet_range_at(0) {
                Some(Ok(r)) => row0(&r),
                _ => "err-sheet".to_string(),
            }
        }
        ["xlsbf", path] => {
            let mut wb: Xlsb<_> = match open_workbook(path) {
                Ok(w) => w,
                Err(_) => return "err-open".to_string(),
            };
            match wb.worksheet_range_at(0) {
                Some(Ok(r)) => row0(&r),
                _ => "err-sheet".to_string(),
            }
        }
        _ => "bad-args".to_string(),
    }
}
