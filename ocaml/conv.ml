(* Conversions between OCaml values and the extracted Coq numerals (which stay the inductive
   BinNums types: no Extract Constant is used).  Decimal text <-> N/Z is done with the extracted
   arithmetic so that values up to 2^64 and beyond survive. *)
open BinNums
open Datatypes

let rec pos_of_int (i : int) : positive =
  if i <= 1 then Coq_xH
  else if i land 1 = 0 then Coq_xO (pos_of_int (i lsr 1))
  else Coq_xI (pos_of_int (i lsr 1))
let n_of_int (i : int) : coq_N = if i <= 0 then N0 else Npos (pos_of_int i)
let rec int_of_pos (p : positive) : int =
  match p with Coq_xH -> 1 | Coq_xO q -> 2 * int_of_pos q | Coq_xI q -> 2 * int_of_pos q + 1
let int_of_n (n : coq_N) : int = match n with N0 -> 0 | Npos p -> int_of_pos p
let z_of_int (i : int) : coq_Z =
  if i = 0 then Z0 else if i > 0 then Zpos (pos_of_int i) else Zneg (pos_of_int (-i))
let int_of_z (z : coq_Z) : int =
  match z with Z0 -> 0 | Zpos p -> int_of_pos p | Zneg p -> - (int_of_pos p)

let rec nat_of_int (i : int) : nat = if i <= 0 then O else S (nat_of_int (i - 1))
let int_of_nat (n : nat) : int =
  let rec go acc n = match n with O -> acc | S m -> go (acc + 1) m in go 0 n

let n10 = n_of_int 10
(* decimal string -> N, arbitrary size *)
let n_of_string (s : string) : coq_N =
  let acc = ref N0 in
  String.iter (fun c ->
    if c >= '0' && c <= '9' then
      acc := BinNat.N.add (BinNat.N.mul !acc n10) (n_of_int (Char.code c - 48))) s;
  !acc
let string_of_n (n : coq_N) : string =
  match n with
  | N0 -> "0"
  | _ ->
    (* fast path *)
    let rec bits p = match p with Coq_xH -> 1 | Coq_xO q | Coq_xI q -> 1 + bits q in
    (match n with
     | Npos p when bits p <= 62 -> string_of_int (int_of_pos p)
     | _ ->
       let buf = Buffer.create 24 in
       let rec go n acc =
         match n with
         | N0 -> acc
         | _ -> let (q, r) = BinNat.N.div_eucl n n10 in
                go q (Char.chr (48 + int_of_n r) :: acc) in
       List.iter (Buffer.add_char buf) (go n []);
       Buffer.contents buf)
let z_of_string (s : string) : coq_Z =
  if String.length s > 0 && s.[0] = '-' then
    BinInt.Z.opp (BinInt.Z.of_N (n_of_string (String.sub s 1 (String.length s - 1))))
  else BinInt.Z.of_N (n_of_string s)
let string_of_z (z : coq_Z) : string =
  match z with
  | Z0 -> "0"
  | Zpos p -> string_of_n (Npos p)
  | Zneg p -> "-" ^ string_of_n (Npos p)

(* hex <-> byte list (as N) *)
let hexval c =
  match c with
  | '0'..'9' -> Char.code c - 48
  | 'a'..'f' -> Char.code c - 87
  | 'A'..'F' -> Char.code c - 55
  | _ -> 0
let bytes_of_hex (s : string) : coq_N list =
  let n = String.length s / 2 in
  let rec go i acc =
    if i < 0 then acc
    else go (i - 1) (n_of_int (hexval s.[2*i] * 16 + hexval s.[2*i+1]) :: acc) in
  go (n - 1) []
let hex_of_bytes (l : coq_N list) : string =
  let b = Buffer.create 64 in
  List.iter (fun x -> Buffer.add_string b (Printf.sprintf "%02x" (int_of_n x land 255))) l;
  Buffer.contents b

(* UTF-8 hex <-> list of scalar values (as N) *)
let utf8_decode (s : string) : int list =
  let n = String.length s in
  let rec go i acc =
    if i >= n then List.rev acc else
    let c = Char.code s.[i] in
    if c < 0x80 then go (i+1) (c :: acc)
    else if c < 0xE0 && i+1 < n then
      go (i+2) ((((c land 0x1F) lsl 6) lor (Char.code s.[i+1] land 0x3F)) :: acc)
    else if c < 0xF0 && i+2 < n then
      go (i+3) ((((c land 0x0F) lsl 12) lor ((Char.code s.[i+1] land 0x3F) lsl 6)
                 lor (Char.code s.[i+2] land 0x3F)) :: acc)
    else if i+3 < n then
      go (i+4) ((((c land 0x07) lsl 18) lor ((Char.code s.[i+1] land 0x3F) lsl 12)
                 lor ((Char.code s.[i+2] land 0x3F) lsl 6) lor (Char.code s.[i+3] land 0x3F)) :: acc)
    else List.rev acc in
  go 0 []
let utf8_encode (l : int list) : string =
  let b = Buffer.create 64 in
  List.iter (fun c ->
    if c < 0x80 then Buffer.add_char b (Char.chr c)
    else if c < 0x800 then begin
      Buffer.add_char b (Char.chr (0xC0 lor (c lsr 6)));
      Buffer.add_char b (Char.chr (0x80 lor (c land 0x3F))) end
    else if c < 0x10000 then begin
      Buffer.add_char b (Char.chr (0xE0 lor (c lsr 12)));
      Buffer.add_char b (Char.chr (0x80 lor ((c lsr 6) land 0x3F)));
      Buffer.add_char b (Char.chr (0x80 lor (c land 0x3F))) end
    else begin
      Buffer.add_char b (Char.chr (0xF0 lor (c lsr 18)));
      Buffer.add_char b (Char.chr (0x80 lor ((c lsr 12) land 0x3F)));
      Buffer.add_char b (Char.chr (0x80 lor ((c lsr 6) land 0x3F)));
      Buffer.add_char b (Char.chr (0x80 lor (c land 0x3F))) end) l;
  Buffer.contents b
let raw_of_hex (s : string) : string =
  let n = String.length s / 2 in
  String.init n (fun i -> Char.chr (hexval s.[2*i] * 16 + hexval s.[2*i+1]))
let hex_of_raw (s : string) : string =
  let b = Buffer.create (2 * String.length s) in
  String.iter (fun c -> Buffer.add_string b (Printf.sprintf "%02x" (Char.code c))) s;
  Buffer.contents b
(* hex of UTF-8 text -> list of scalars as N, and back *)
let scalars_of_hex (s : string) : coq_N list = List.map n_of_int (utf8_decode (raw_of_hex s))
let hex_of_scalars (l : coq_N list) : string = hex_of_raw (utf8_encode (List.map int_of_n l))

let split_on c s = if s = "" then [] else String.split_on_char c s
