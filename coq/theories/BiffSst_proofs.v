(* BiffSst_proofs.v — proofs for property C12 (model, spec, writer: BiffSst.v).
   [Set Implicit Arguments] is deliberately not used in this file: lemmas are applied with all
   their arguments written out. *)
From Calamine Require Import Prelude BiffSst.
Open Scope N_scope.

(* ------------------------------------------------------------------------------------- *)
(** * lists, lengths                                                                      *)
(* ------------------------------------------------------------------------------------- *)

Lemma len_nil : forall A, len (@nil A) = 0.
Proof. reflexivity. Qed.
Lemma len_cons : forall A (x : A) l, len (x :: l) = len l + 1.
Proof. intros. unfold len. cbn [length]. lia. Qed.
Lemma len_app : forall A (a b : list A), len (a ++ b) = len a + len b.
Proof. intros. unfold len. rewrite app_length. lia. Qed.
Lemma to_nat_len : forall A (l : list A), N.to_nat (len l) = length l.
Proof. intros. unfold len. apply Nat2N.id. Qed.

Lemma take_len_app : forall A (a b : list A), take (len a) (a ++ b) = a.
Proof.
  intros. unfold take. rewrite to_nat_len.
  rewrite firstn_app, Nat.sub_diag, firstn_all. cbn. apply app_nil_r.
Qed.
Lemma drop_len_app : forall A (a b : list A), drop (len a) (a ++ b) = b.
Proof.
  intros. unfold drop. rewrite to_nat_len.
  rewrite skipn_app, Nat.sub_diag, skipn_all. reflexivity.
Qed.
Lemma take_all : forall A (a : list A), take (len a) a = a.
Proof. intros. unfold take. rewrite to_nat_len. apply firstn_all. Qed.
Lemma drop_all : forall A (a : list A), drop (len a) a = [].
Proof. intros. unfold drop. rewrite to_nat_len. apply skipn_all. Qed.
Lemma drop_0 : forall A (a : list A), drop 0 a = a.
Proof. reflexivity. Qed.
Lemma all_lt_app : forall b x y, all_lt b (x ++ y) = all_lt b x && all_lt b y.
Proof. intros. unfold all_lt. apply forallb_app. Qed.
Lemma all_lt_firstn : forall b n l, all_lt b l = true -> all_lt b (firstn n l) = true.
Proof.
  intros b n l H. rewrite <- (firstn_skipn n l), all_lt_app in H.
  apply andb_true_iff in H. tauto.
Qed.
Lemma all_lt_skipn : forall b n l, all_lt b l = true -> all_lt b (skipn n l) = true.
Proof.
  intros b n l H. rewrite <- (firstn_skipn n l), all_lt_app in H.
  apply andb_true_iff in H. tauto.
Qed.
Lemma all_lt_weaken : forall a b l, a <= b -> all_lt a l = true -> all_lt b l = true.
Proof.
  intros a b l Hab. unfold all_lt. rewrite !forallb_forall. intros H x Hx.
  specialize (H x Hx). lia.
Qed.

(* ------------------------------------------------------------------------------------- *)
(** * UTF-16: the decoder state machine against the specification                         *)
(* ------------------------------------------------------------------------------------- *)

Lemma is_high_nonzero : forall h, is_high h = true -> (h =? 0) = false.
Proof. unfold is_high. intros. lia. Qed.
Lemma high_not_low : forall u, is_high u = true -> is_low u = false.
Proof. unfold is_high, is_low. intros. lia. Qed.

Lemma le16_value : forall u, u < 65536 -> (u / 256) * 256 + u mod 256 = u.
Proof. intros. lia. Qed.

(* unfolding equations of the specification *)
Lemma dec_high_low : forall u v r, is_high u = true -> is_low v = true ->
  utf16_decode (u :: v :: r) = pair_scalar u v :: utf16_decode r.
Proof. intros u v r Hu Hv. cbn [utf16_decode]. rewrite Hu, Hv. reflexivity. Qed.
Lemma dec_high_other : forall u v r, is_high u = true -> is_low v = false ->
  utf16_decode (u :: v :: r) = FFFD :: utf16_decode (v :: r).
Proof.
  intros u v r Hu Hv. change (utf16_decode (u :: v :: r)) with
    (if is_high u then (if is_low v then pair_scalar u v :: utf16_decode r
                        else FFFD :: utf16_decode (v :: r))
     else if is_low u then FFFD :: utf16_decode (v :: r) else u :: utf16_decode (v :: r)).
  rewrite Hu, Hv. reflexivity.
Qed.
Lemma dec_high_end : forall u, is_high u = true -> utf16_decode [u] = [FFFD].
Proof. intros u Hu. cbn [utf16_decode]. rewrite Hu. reflexivity. Qed.
Lemma dec_low : forall u r, is_high u = false -> is_low u = true ->
  utf16_decode (u :: r) = FFFD :: utf16_decode r.
Proof.
  intros u r Hu Hl. change (utf16_decode (u :: r)) with
    (if is_high u then match r with
                       | v :: rest' => if is_low v then pair_scalar u v :: utf16_decode rest'
                                       else FFFD :: utf16_decode r
                       | [] => [FFFD] end
     else if is_low u then FFFD :: utf16_decode r else u :: utf16_decode r).
  rewrite Hu, Hl. reflexivity.
Qed.
Lemma dec_bmp : forall u r, is_high u = false -> is_low u = false ->
  utf16_decode (u :: r) = u :: utf16_decode r.
Proof.
  intros u r Hu Hl. change (utf16_decode (u :: r)) with
    (if is_high u then match r with
                       | v :: rest' => if is_low v then pair_scalar u v :: utf16_decode rest'
                                       else FFFD :: utf16_decode r
                       | [] => [FFFD] end
     else if is_low u then FFFD :: utf16_decode r else u :: utf16_decode r).
  rewrite Hu, Hl. reflexivity.
Qed.

(* the little-endian state machine on the bytes of a unit sequence is the specification;
   with a pending lead surrogate h it is the specification of h :: us *)
Lemma sm_spec : forall us, all_lt 65536 us = true ->
  utf16_sm false (flat_map le16 us) None 0 = utf16_decode us /\
  forall h, is_high h = true ->
    utf16_sm false (flat_map le16 us) None h = utf16_decode (h :: us).
Proof.
  induction us as [|u r IH]; intros Hlt.
  - split; [reflexivity|]. intros h Hh. rewrite (dec_high_end _ Hh).
    cbn [flat_map utf16_sm]. rewrite (is_high_nonzero _ Hh). reflexivity.
  - cbn [all_lt forallb] in Hlt. apply andb_true_iff in Hlt. destruct Hlt as [Hu Hr].
    destruct (IH Hr) as [IH0 IHh]. clear IH.
    assert (Hcu : (u / 256) * 256 + u mod 256 = u) by (apply le16_value; lia).
    split.
    + cbn [flat_map le16 app utf16_sm]. rewrite Hcu.
      change (0 =? 0) with true. cbv iota.
      destruct (is_high u) eqn:Eh.
      * apply (IHh u Eh).
      * destruct (is_low u) eqn:El.
        -- rewrite (dec_low _ _ Eh El), IH0. reflexivity.
        -- rewrite (dec_bmp _ _ Eh El), IH0. reflexivity.
    + intros h Hh. cbn [flat_map le16 app utf16_sm]. rewrite Hcu.
      rewrite (is_high_nonzero _ Hh). cbv iota.
      destruct (is_high u) eqn:Eh.
      * rewrite (dec_high_other _ _ _ Hh (high_not_low _ Eh)). rewrite (IHh u Eh). reflexivity.
      * destruct (is_low u) eqn:El.
        -- rewrite (dec_high_low _ _ _ Hh El), IH0. reflexivity.
        -- rewrite (dec_high_other _ _ _ Hh El), (dec_bmp _ _ Eh El), IH0. reflexivity.
Qed.

Lemma sm_le16 : forall us, all_lt 65536 us = true ->
  utf16_sm false (flat_map le16 us) None 0 = utf16_decode us.
Proof. intros us H. apply (proj1 (sm_spec us H)). Qed.

(* a sequence without surrogates decodes to itself *)
Lemma decode_small : forall us, all_lt 256 us = true -> utf16_decode us = us.
Proof.
  induction us as [|u r IH]; intros H; [reflexivity|].
  cbn [all_lt forallb] in H. apply andb_true_iff in H. destruct H as [Hu Hr].
  assert (Eh : is_high u = false) by (unfold is_high; lia).
  assert (El : is_low u = false) by (unfold is_low; lia).
  rewrite (dec_bmp _ _ Eh El), (IH Hr). reflexivity.
Qed.

Lemma widen_le16 : forall bs, all_lt 256 bs = true -> widen bs = flat_map le16 bs.
Proof.
  induction bs as [|b r IH]; intros H; [reflexivity|].
  cbn [all_lt forallb] in H. apply andb_true_iff in H. destruct H as [Hb Hr].
  unfold widen in *. cbn [flat_map]. rewrite (IH Hr). unfold le16.
  replace (b mod 256) with b by lia. replace (b / 256) with 0 by lia. reflexivity.
Qed.

(* decode_without_bom_handling on the bytes of a 16-bit segment *)
Lemma enc_decode_le16 : forall us, all_lt 65536 us = true ->
  enc_decode (flat_map le16 us) = utf16_decode us.
Proof. intros us H. unfold enc_decode. apply sm_le16; exact H. Qed.

Lemma enc_decode_widen : forall bs, all_lt 256 bs = true -> enc_decode (widen bs) = bs.
Proof.
  intros bs H. rewrite (widen_le16 _ H).
  rewrite enc_decode_le16.
  - apply decode_small; exact H.
  - apply all_lt_weaken with (a := 256); [lia | exact H].
Qed.

(* the decoder fed chunk by chunk: running it over a ++ b is feeding a, then running it over b
   from the state a left; feeding is compositional *)
Lemma sm_feed_app : forall be a b lb ls,
  utf16_sm be (a ++ b) lb ls =
  fst (utf16_feed be a lb ls) ++
  utf16_sm be b (fst (snd (utf16_feed be a lb ls))) (snd (snd (utf16_feed be a lb ls))).
Proof.
  induction a as [|x a IH]; intros b lb ls; [reflexivity|].
  cbn [app]. destruct lb as [lead|]; cbn [utf16_sm utf16_feed]; [|apply IH].
  destruct (is_high (if be then lead * 256 + x else x * 256 + lead));
    [| destruct (is_low (if be then lead * 256 + x else x * 256 + lead))];
    destruct (ls =? 0); cbn [fst snd app]; rewrite IH; reflexivity.
Qed.
Lemma feed_app : forall be a b lb ls,
  utf16_feed be (a ++ b) lb ls =
  (fst (utf16_feed be a lb ls) ++
   fst (utf16_feed be b (fst (snd (utf16_feed be a lb ls))) (snd (snd (utf16_feed be a lb ls)))),
   snd (utf16_feed be b (fst (snd (utf16_feed be a lb ls))) (snd (snd (utf16_feed be a lb ls))))).
Proof.
  induction a as [|x a IH]; intros b lb ls.
  - cbn [app utf16_feed fst snd]. destruct (utf16_feed be b lb ls); reflexivity.
  - cbn [app]. destruct lb as [lead|]; cbn [utf16_feed]; [|apply IH].
    destruct (is_high (if be then lead * 256 + x else x * 256 + lead));
      [| destruct (is_low (if be then lead * 256 + x else x * 256 + lead))];
      destruct (ls =? 0); cbn [fst snd app]; rewrite IH; reflexivity.
Qed.

(* the decoder of one string, fed with the 16-bit units of a segment *)
Definition feed_units (ds : dec_state) (us : list N) : list N * dec_state :=
  utf16_feed false (flat_map le16 us) (fst ds) (snd ds).
Definition flush (ds : dec_state) : list N := utf16_sm false [] (fst ds) (snd ds).

Lemma feed_units_app : forall ds a b,
  feed_units ds (a ++ b) =
  (fst (feed_units ds a) ++ fst (feed_units (snd (feed_units ds a)) b),
   snd (feed_units (snd (feed_units ds a)) b)).
Proof. intros. unfold feed_units. rewrite flat_map_app, feed_app. reflexivity. Qed.

(* feeding all the units of a string to a fresh decoder and finishing it is UTF-16 decoding of
   the whole string, wherever the segments were cut *)
Lemma feed_units_flush : forall us, all_lt 65536 us = true ->
  fst (feed_units dec_init us) ++ flush (snd (feed_units dec_init us)) = utf16_decode us.
Proof.
  intros us H. unfold feed_units, flush, dec_init. cbn [fst snd].
  rewrite <- sm_feed_app, app_nil_r. apply sm_le16; exact H.
Qed.

(* decoding segment by segment: only a cut between a lead and a trail surrogate matters *)
Lemma ends_high_cons2 : forall u v a, ends_high (u :: v :: a) = ends_high (v :: a).
Proof. intros. unfold ends_high. reflexivity. Qed.

Lemma decode_app_len : forall n a b, (length a <= n)%nat ->
  ends_high a && starts_low b = false ->
  utf16_decode (a ++ b) = utf16_decode a ++ utf16_decode b.
Proof.
  induction n as [|n IH]; intros a b Hn Hcut.
  - destruct a; [reflexivity | cbn in Hn; lia].
  - destruct a as [|u a]; [reflexivity|].
    destruct (is_high u) eqn:Eh.
    + destruct a as [|v a].
      * (* the lead surrogate is the last unit before the cut *)
        unfold ends_high in Hcut. cbn [last] in Hcut. rewrite Eh in Hcut. cbn [andb] in Hcut.
        rewrite (dec_high_end _ Eh). cbn [app].
        destruct b as [|w b]; [apply (dec_high_end _ Eh)|].
        cbn [starts_low] in Hcut. apply (dec_high_other _ _ _ Eh Hcut).
      * rewrite ends_high_cons2 in Hcut. cbn [length] in Hn.
        change ((u :: v :: a) ++ b) with (u :: v :: (a ++ b)).
        destruct (is_low v) eqn:Elv.
        -- rewrite !(dec_high_low _ _ _ Eh Elv).
           assert (Hcut' : ends_high a && starts_low b = false).
           { destruct a as [|w a]; [reflexivity|]. exact Hcut. }
           rewrite (IH a b); [reflexivity | lia | exact Hcut'].
        -- rewrite !(dec_high_other _ _ _ Eh Elv).
           change (v :: a ++ b) with ((v :: a) ++ b).
           rewrite (IH (v :: a) b); [reflexivity | cbn [length]; lia | exact Hcut].
    + assert (Hcut' : ends_high a && starts_low b = false).
      { destruct a as [|w a]; [reflexivity|]. exact Hcut. }
      cbn [length] in Hn. change ((u :: a) ++ b) with (u :: (a ++ b)).
      destruct (is_low u) eqn:El.
      * rewrite !(dec_low _ _ Eh El). rewrite (IH a b); [reflexivity | lia | exact Hcut'].
      * rewrite !(dec_bmp _ _ Eh El). rewrite (IH a b); [reflexivity | lia | exact Hcut'].
Qed.

Lemma decode_app : forall a b, ends_high a && starts_low b = false ->
  utf16_decode (a ++ b) = utf16_decode a ++ utf16_decode b.
Proof. intros a b. apply decode_app_len with (n := length a). lia. Qed.

(* ------------------------------------------------------------------------------------- *)
(** * fragments                                                                           *)
(* ------------------------------------------------------------------------------------- *)

Lemma frags_B : forall bs r, frags (B bs :: r) = (bs ++ fst (frags r), snd (frags r)).
Proof. reflexivity. Qed.
Lemma frags_C : forall r, frags (C :: r) = ([], fst (frags r) :: snd (frags r)).
Proof. reflexivity. Qed.
Lemma pair_eta : forall A B (p : A * B), (fst p, snd p) = p.
Proof. intros A B [a b]. reflexivity. Qed.

(* ------------------------------------------------------------------------------------- *)
(** * Record::skip                                                                        *)
(* ------------------------------------------------------------------------------------- *)

Lemma skip_loop_eq : forall conts data n,
  skip_loop conts data n =
  let l := N.min n (len data) in
  if n - l =? 0 then Ok (drop l data, conts)
  else match conts with [] => Err E_CONT | c :: cs => skip_loop cs c (n - l) end.
Proof. destruct conts; reflexivity. Qed.

(* skip as one case distinction on the current fragment *)
Lemma skip_eq : forall conts data n,
  skip (data, conts) n =
  if n <=? len data then Ok (drop n data, conts)
  else match conts with
       | [] => Err E_CONT
       | c :: cs => skip (c, cs) (n - len data)
       end.
Proof.
  intros conts data n. unfold skip. cbn [fst snd].
  destruct (n =? 0) eqn:E0.
  - assert (n = 0) by lia. subst n. replace (0 <=? len data) with true by lia. reflexivity.
  - rewrite skip_loop_eq. cbv zeta.
    destruct (n <=? len data) eqn:Ele.
    + replace (N.min n (len data)) with n by lia.
      replace (n - n =? 0) with true by lia. reflexivity.
    + replace (N.min n (len data)) with (len data) by lia.
      replace (n - len data =? 0) with false by lia.
      destruct conts as [|c cs]; [reflexivity|]. reflexivity.
Qed.

Lemma skipn_skipn_add : forall A (l : list A) n m, skipn m (skipn n l) = skipn (n + m) l.
Proof.
  intros A l n. revert l. induction n as [|n IH]; intros l m; [reflexivity|].
  destruct l as [|x l]; [cbn; apply skipn_nil|]. cbn [skipn Nat.add]. apply IH.
Qed.

Lemma skip_add : forall conts data a b,
  obind (skip (data, conts) a) (fun st => skip st b) = skip (data, conts) (a + b).
Proof.
  induction conts as [|c cs IH]; intros data a b.
  - rewrite (skip_eq [] data a), (skip_eq [] data (a + b)).
    destruct (a <=? len data) eqn:Ea.
    + cbn [obind]. rewrite skip_eq.
      assert (Hl : len (drop a data) = len data - a).
      { unfold len, drop. rewrite skipn_length. lia. }
      rewrite Hl.
      destruct (a + b <=? len data) eqn:Eab.
      * replace (b <=? len data - a) with true by lia.
        unfold drop. rewrite skipn_skipn_add. do 3 f_equal. lia.
      * replace (b <=? len data - a) with false by lia. reflexivity.
    + replace (a + b <=? len data) with false by lia. reflexivity.
  - rewrite (skip_eq (c :: cs) data a), (skip_eq (c :: cs) data (a + b)).
    destruct (a <=? len data) eqn:Ea.
    + cbn [obind]. rewrite skip_eq.
      assert (Hl : len (drop a data) = len data - a).
      { unfold len, drop. rewrite skipn_length. lia. }
      rewrite Hl.
      destruct (a + b <=? len data) eqn:Eab.
      * replace (b <=? len data - a) with true by lia.
        unfold drop. rewrite skipn_skipn_add. do 3 f_equal. lia.
      * replace (b <=? len data - a) with false by lia.
        f_equal. lia.
    + replace (a + b <=? len data) with false by lia.
      rewrite IH. f_equal. lia.
Qed.

(* skipping rgRun ++ ExtRst across its cuts lands exactly on what follows *)
Lemma skip_chunks : forall cuts bs rest, tail_cuts_legal bs cuts = true ->
  skip (frags (chunk_items bs cuts ++ rest)) (len bs) = Ok (frags rest).
Proof.
  induction cuts as [|n cs IH]; intros bs rest Hl.
  - cbn [chunk_items app]. rewrite frags_B, skip_eq, len_app.
    replace (len bs <=? len bs + len (fst (frags rest))) with true by lia.
    rewrite drop_len_app, pair_eta. reflexivity.
  - cbn [tail_cuts_legal] in Hl. apply andb_true_iff in Hl. destruct Hl as [Hn Hl].
    cbn [chunk_items app]. rewrite frags_B, frags_C. cbn [fst snd].
    rewrite app_nil_r, skip_eq.
    assert (Hf : len (firstn n bs) = N.of_nat n).
    { unfold len. rewrite firstn_length. lia. }
    rewrite Hf.
    replace (len bs <=? N.of_nat n) with false by (unfold len; lia).
    rewrite pair_eta.
    replace (len bs - N.of_nat n) with (len (skipn n bs)).
    + apply IH. exact Hl.
    + unfold len. rewrite skipn_length. lia.
Qed.

(* ------------------------------------------------------------------------------------- *)
(** * decode_to on one segment                                                            *)
(* ------------------------------------------------------------------------------------- *)

Lemma len_flat_le16 : forall us, len (flat_map le16 us) = 2 * len us.
Proof.
  induction us as [|u r IH]; [reflexivity|].
  cbn [flat_map le16 app]. rewrite !len_cons, IH. lia.
Qed.

Lemma len_seg_bytes : forall hb us,
  len (seg_bytes hb us) = if hb then 2 * len us else len us.
Proof. intros [|] us; cbn [seg_bytes]; [apply len_flat_le16 | reflexivity]. Qed.

(* the bytes handed to the decoder for one segment are the little-endian bytes of its units *)
Lemma seg_fed : forall hb us, seg_ok hb us = true ->
  (if hb then seg_bytes hb us else widen (seg_bytes hb us)) = flat_map le16 us.
Proof.
  intros [|] us Hs; cbn [seg_bytes]; [reflexivity|].
  cbn [seg_ok orb] in Hs. apply widen_le16; exact Hs.
Qed.

(* the segment is followed by other bytes of the same record and holds all the characters
   that are still expected *)
Lemma segment_exact : forall hb us d, seg_ok hb us = true ->
  segment (seg_bytes hb us ++ d) (len us) (Some hb) =
  (len us, len (seg_bytes hb us), flat_map le16 us).
Proof.
  intros hb us d Hs. unfold segment. cbn [high_byte_cp1200].
  rewrite len_app, len_seg_bytes. rewrite <- (seg_fed hb us Hs).
  destruct hb; cbn [seg_bytes].
  - replace (N.min ((2 * len us + len d) / 2) (len us)) with (len us) by lia.
    rewrite <- len_flat_le16, take_len_app. reflexivity.
  - replace (N.min (len us + len d) (len us)) with (len us) by lia.
    rewrite take_len_app. reflexivity.
Qed.

(* the segment ends the record and more characters are expected *)
Lemma segment_short : forall hb us n, seg_ok hb us = true -> len us <= n ->
  segment (seg_bytes hb us) n (Some hb) =
  (len us, len (seg_bytes hb us), flat_map le16 us).
Proof.
  intros hb us n Hs Hn. unfold segment. cbn [high_byte_cp1200].
  rewrite len_seg_bytes. rewrite <- (seg_fed hb us Hs).
  destruct hb; cbn [seg_bytes].
  - replace (N.min (2 * len us / 2) n) with (len us) by lia.
    rewrite <- len_flat_le16, take_all. reflexivity.
  - replace (N.min (len us) n) with (len us) by lia.
    rewrite take_all. reflexivity.
Qed.

(* decode_to (a decoder of its own, finished at once) on a string held by one segment *)
Lemma decode_to_exact : forall hb us d, seg_ok hb us = true -> all_lt 65536 us = true ->
  decode_to (seg_bytes hb us ++ d) (len us) (Some hb) =
  (len us, len (seg_bytes hb us), utf16_decode us).
Proof.
  intros hb us d Hs Hlt. unfold decode_to, decode_segment_last.
  rewrite (segment_exact hb us d Hs). unfold dec_init. cbn [fst snd].
  rewrite (sm_le16 us Hlt). reflexivity.
Qed.

(* ------------------------------------------------------------------------------------- *)
(** * read_dbcs across the cuts of the character data                                     *)
(* ------------------------------------------------------------------------------------- *)

Lemma dbcs_loop_eq : forall conts data n hb ds acc,
  dbcs_loop conts data n hb ds acc =
  let '(l, at_, str, ds') := decode_segment ds data n (Some hb) in
  if n - l =? 0 then Ok (acc ++ str, ds', (drop at_ data, conts))
  else match conts with
       | [] => Err E_EOS
       | c :: cs => match c with
                    | [] => Err E_CONT
                    | f :: c' => dbcs_loop cs c' (n - l) (N.odd f) ds' (acc ++ str)
                    end
       end.
Proof. destruct conts; reflexivity. Qed.

Lemma odd_b2n : forall b, N.odd (b2n b) = b.
Proof. destruct b; reflexivity. Qed.

(* the loop feeds the units of every segment, 8-bit ones widened, to the one decoder of the
   string and stops exactly behind the character data *)
Lemma dbcs_gen : forall cuts us hb rest ds acc,
  cuts_legal us hb cuts = true -> us <> [] ->
  dbcs_loop (snd (frags (char_items us hb cuts ++ rest)))
            (fst (frags (char_items us hb cuts ++ rest))) (len us) hb ds acc
  = Ok (acc ++ fst (feed_units ds us), snd (feed_units ds us), frags rest).
Proof.
  induction cuts as [|[n hb'] cs IH]; intros us hb rest ds acc Hl Hne.
  - cbn [cuts_legal] in Hl. cbn [char_items app]. rewrite frags_B. cbn [fst snd].
    rewrite dbcs_loop_eq. unfold decode_segment. rewrite (segment_exact hb us _ Hl).
    fold (feed_units ds us).
    replace (len us - len us =? 0) with true by lia.
    rewrite drop_len_app, pair_eta. reflexivity.
  - cbn [cuts_legal] in Hl.
    apply andb_true_iff in Hl. destruct Hl as [Hl Hl3].
    apply andb_true_iff in Hl. destruct Hl as [Hn Hseg].
    cbn [char_items app]. rewrite frags_B, frags_C, frags_B. cbn [fst snd app].
    rewrite app_nil_r.
    assert (Hfl : len (firstn n us) = N.of_nat n).
    { unfold len. rewrite firstn_length. lia. }
    assert (Hsl : len (skipn n us) = len us - N.of_nat n).
    { unfold len. rewrite skipn_length. lia. }
    assert (Hlen : N.of_nat n < len us) by (unfold len; lia).
    rewrite dbcs_loop_eq. unfold decode_segment.
    rewrite (segment_short hb (firstn n us) (len us) Hseg); [| lia].
    fold (feed_units ds (firstn n us)).
    rewrite Hfl. replace (len us - N.of_nat n =? 0) with false by lia.
    rewrite odd_b2n. rewrite <- Hsl.
    rewrite (IH (skipn n us) hb' rest (snd (feed_units ds (firstn n us)))
                (acc ++ fst (feed_units ds (firstn n us))) Hl3).
    + pose proof (feed_units_app ds (firstn n us) (skipn n us)) as HA.
      rewrite firstn_skipn in HA. rewrite HA. cbn [fst snd].
      rewrite <- app_assoc. reflexivity.
    + intros Hnil. rewrite Hnil in Hsl. cbn in Hsl. lia.
Qed.

(* read_dbcs on the character data of a string, whatever its cuts and packings: the stored text *)
Lemma read_dbcs_ok : forall cuts us hb rest,
  cuts_legal us hb cuts = true -> all_lt 65536 us = true ->
  read_dbcs (fst (frags (char_items us hb cuts ++ rest)),
             snd (frags (char_items us hb cuts ++ rest))) (len us) hb
  = Ok (utf16_decode us, frags rest).
Proof.
  intros cuts us hb rest Hcuts Hlt. unfold read_dbcs. destruct us as [|u0 us'].
  - (* no characters: the loop is not entered; there can be no cut *)
    rewrite len_nil. change (0 =? 0) with true. cbv iota. cbn [obind].
    destruct cuts as [|[n hb'] cs].
    + cbn [char_items seg_bytes app utf16_decode].
      destruct hb; cbn [flat_map seg_bytes];
        rewrite frags_B; cbn [app fst snd]; rewrite !pair_eta; reflexivity.
    + cbn [cuts_legal length] in Hcuts. exfalso.
      apply andb_true_iff in Hcuts. destruct Hcuts as [Hc _].
      apply andb_true_iff in Hc. destruct Hc as [Hc _]. lia.
  - replace (len (u0 :: us') =? 0) with false by (rewrite len_cons; lia).
    cbn [fst snd].
    rewrite (dbcs_gen cuts (u0 :: us') hb rest dec_init [] Hcuts); [| discriminate].
    cbn [obind app].
    assert (Hfl : decode_segment_last (snd (feed_units dec_init (u0 :: us'))) [] 0 (Some hb) =
                  (0, 0, flush (snd (feed_units dec_init (u0 :: us'))))).
    { destruct hb; reflexivity. }
    rewrite Hfl. rewrite (feed_units_flush _ Hlt). reflexivity.
Qed.

(* ------------------------------------------------------------------------------------- *)
(** * the string header                                                                  *)
(* ------------------------------------------------------------------------------------- *)

Lemma flags_odd : forall a b c, N.odd (b2n a + 4 * b2n b + 8 * b2n c) = a.
Proof. intros [|] [|] [|]; reflexivity. Qed.
Lemma flags_bit2 : forall a b c, N.testbit (b2n a + 4 * b2n b + 8 * b2n c) 2 = b.
Proof. intros [|] [|] [|]; reflexivity. Qed.
Lemma flags_bit3 : forall a b c, N.testbit (b2n a + 4 * b2n b + 8 * b2n c) 3 = c.
Proof. intros [|] [|] [|]; reflexivity. Qed.

Lemma read_u16_le16 : forall x d, read_u16 (le16 x ++ d) = Ok x.
Proof. intros. cbn [le16 app read_u16]. f_equal. lia. Qed.
Lemma read_u32_le32 : forall x d, x <= 4294967295 -> read_u32 (le32 x ++ d) = Ok x.
Proof. intros. cbn [le32 app read_u32]. f_equal. lia. Qed.
Lemma read_i32_le32 : forall x d, x <= 2147483647 -> read_i32 (le32 x ++ d) = Ok (Z.of_N x).
Proof.
  intros x d Hx. unfold read_i32. rewrite read_u32_le32 by lia. cbn [obind].
  replace (x <? 2147483648) with true by lia. reflexivity.
Qed.
Lemma i32_as_usize_pos : forall x, i32_as_usize (Z.of_N x) = x.
Proof.
  intros x. unfold i32_as_usize. replace (Z.of_N x <? 0)%Z with false by lia. lia.
Qed.
Lemma slice_from_le16 : forall x d, slice_from (le16 x ++ d) 2 = Ok d.
Proof.
  intros. unfold slice_from. cbn [le16 app]. rewrite !len_cons.
  replace (2 <=? len d + 1 + 1) with true by lia. reflexivity.
Qed.
Lemma slice_from_le32 : forall x d, slice_from (le32 x ++ d) 4 = Ok d.
Proof.
  intros. unfold slice_from. cbn [le32 app]. rewrite !len_cons.
  replace (4 <=? len d + 1 + 1 + 1 + 1) with true by lia. reflexivity.
Qed.

Lemma len_le16_ge : forall x d, (len (le16 x ++ d) <? 2) = false.
Proof. intros. unfold le16. cbn [app]. rewrite !len_cons. lia. Qed.
Lemma len_le32_ge : forall x d, (len (le32 x ++ d) <? 4) = false.
Proof. intros. unfold le32. cbn [app]. rewrite !len_cons. lia. Qed.

Definition runs_count (sl : str_layout) : N :=
  match sl_runs sl with Some l => len l | None => 0 end.
Definition ext_count (sl : str_layout) : N :=
  match sl_ext sl with Some l => len l | None => 0 end.

Lemma read_header_ok : forall us sl d,
  runs_count sl <= 65535 -> ext_count sl <= 2147483647 ->
  read_string_header (str_header us sl ++ d) =
  Ok (len us, sl_hb0 sl, runs_count sl, ext_count sl, d).
Proof.
  intros us [cb hb0 cuts runs ext tc] d Hr He.
  unfold runs_count, ext_count in *. cbn [sl_runs sl_ext sl_hb0] in *.
  unfold str_header. cbn [sl_runs sl_ext sl_hb0].
  unfold read_string_header, read_c_run, read_cb_ext_rst.
  rewrite <- !app_assoc. rewrite read_u16_le16. cbn [obind].
  cbn [le16 app nth]. change (drop 3 ?x) with (skipn 3 x). cbn [skipn].
  rewrite flags_odd, flags_bit2, flags_bit3.
  destruct runs as [rl|]; destruct ext as [el|]; cbn [is_some].
  - rewrite len_le16_ge, read_u16_le16, slice_from_le16. cbn [obind].
    rewrite len_le32_ge, read_i32_le32, slice_from_le32 by lia. cbn [obind].
    rewrite i32_as_usize_pos. reflexivity.
  - rewrite len_le16_ge, read_u16_le16, slice_from_le16. cbn [obind app]. reflexivity.
  - cbn [obind app]. rewrite len_le32_ge, read_i32_le32, slice_from_le32 by lia. cbn [obind].
    rewrite i32_as_usize_pos. reflexivity.
  - reflexivity.
Qed.


(* ------------------------------------------------------------------------------------- *)
(** * one string                                                                          *)
(* ------------------------------------------------------------------------------------- *)

Lemma len_runs_bytes : forall l,
  len (flat_map (fun p : N * N => le16 (fst p) ++ le16 (snd p)) l) = len l * 4.
Proof.
  induction l as [|p r IH]; [reflexivity|].
  cbn [flat_map]. rewrite len_app, IH. unfold le16. cbn [app]. rewrite !len_cons. change (len (@nil N)) with 0. lia.
Qed.

Lemma len_tail_bytes : forall sl, len (tail_bytes sl) = runs_count sl * 4 + ext_count sl.
Proof.
  intros sl. unfold tail_bytes, runs_count, ext_count, runs_bytes, ext_bytes.
  rewrite len_app. destruct (sl_runs sl); destruct (sl_ext sl);
    rewrite ?len_runs_bytes, ?len_nil; lia.
Qed.

Lemma str_header_shape : forall us sl, exists a b c r, str_header us sl = a :: b :: c :: r.
Proof. intros. unfold str_header. cbn [le16 app]. eauto. Qed.

Lemma enter_header : forall us sl its,
  enter_string (frags (B (str_header us sl) :: its)) = Some (frags (B (str_header us sl) :: its)).
Proof.
  intros. rewrite frags_B. destruct (str_header_shape us sl) as (a & b & c & r & E).
  rewrite E. reflexivity.
Qed.
Lemma enter_cut : forall its, enter_string (frags (C :: its)) = Some (frags its).
Proof. intros. rewrite frags_C. unfold enter_string. cbn. rewrite pair_eta. reflexivity. Qed.

Lemma legal_string_parts : forall us sl, legal_string us sl = true ->
  len us <= 65535 /\ all_lt 65536 us = true /\
  cuts_legal us (sl_hb0 sl) (sl_cuts sl) = true /\
  runs_count sl <= 65535 /\ ext_count sl <= 2147483647 /\
  tail_cuts_legal (tail_bytes sl) (sl_tail_cuts sl) = true.
Proof.
  intros us sl H. unfold legal_string in H.
  repeat (apply andb_true_iff in H; destruct H as [H ?]).
  unfold runs_count, ext_count.
  repeat split; try assumption; try lia.
  - destruct (sl_runs sl); [|lia]. apply andb_true_iff in H2. destruct H2. lia.
  - destruct (sl_ext sl); [|lia]. apply andb_true_iff in H1. destruct H1. lia.
Qed.

(* reading one string consumes exactly its items: header, character data with its cuts,
   formatting runs and extended block with theirs — and nothing of what follows *)
Theorem read_string_ok : forall us sl rest,
  legal_string us sl = true ->
  read_rich_extended_string (frags (string_items us sl ++ rest)) =
  Ok (utf16_decode us, frags rest).
Proof.
  intros us sl rest Hl.
  destruct (legal_string_parts us sl Hl) as (Hcch & Hlt & Hcuts & Hruns & Hext & Htail).
  unfold read_rich_extended_string, string_items, units.
  set (body := char_items us (sl_hb0 sl) (sl_cuts sl) ++ chunk_items (tail_bytes sl) (sl_tail_cuts sl)).
  assert (Hent : enter_string (frags (((if sl_cut_before sl then [C] else []) ++
                   B (str_header us sl) :: body) ++ rest)) =
                 Some (frags (B (str_header us sl) :: body ++ rest))).
  { destruct (sl_cut_before sl); cbn [app].
    - rewrite enter_cut. reflexivity.
    - apply enter_header. }
  rewrite Hent. clear Hent.
  rewrite frags_B.
  destruct (str_header_shape us sl) as (a & b & c & r & E).
  replace (len (str_header us sl ++ fst (frags (body ++ rest))) <? 3) with false
    by (rewrite E; cbn [app]; rewrite !len_cons; lia).
  rewrite (read_header_ok us sl _ Hruns Hext). cbn [obind].
  unfold body. rewrite <- app_assoc.
  set (tl := chunk_items (tail_bytes sl) (sl_tail_cuts sl) ++ rest).
  rewrite (read_dbcs_ok (sl_cuts sl) us (sl_hb0 sl) tl Hcuts Hlt). cbn [obind].
  destruct (frags tl) as [d cs] eqn:Etl.
  pose proof (skip_add cs d (runs_count sl * 4) (ext_count sl)) as Hadd.
  rewrite <- len_tail_bytes, <- Etl in Hadd. unfold tl in Hadd.
  rewrite (skip_chunks _ _ rest Htail) in Hadd. fold tl in Hadd. rewrite Etl in Hadd.
  destruct (skip (d, cs) (runs_count sl * 4)) as [st|e| |]; cbn [obind] in *;
    try discriminate.
  rewrite Hadd. reflexivity.
Qed.

(* ------------------------------------------------------------------------------------- *)
(** * the table                                                                           *)
(* ------------------------------------------------------------------------------------- *)

Definition str_items_of (p : ustring * str_layout) : list item := string_items (fst p) (snd p).

Lemma sst_loop_ok : forall strs lays rest fuel acc,
  length strs = length lays ->
  forallb (fun p => legal_string (fst p) (snd p)) (combine strs lays) = true ->
  (length strs < fuel)%nat ->
  sst_loop fuel (len strs) (frags (flat_map str_items_of (combine strs lays) ++ rest)) acc
  = Ok (rev acc ++ map utf16_decode strs).
Proof.
  induction strs as [|s strs IH]; intros lays rest fuel acc Hlen Hleg Hfuel.
  - destruct fuel as [|f]; [lia|]. cbn [sst_loop map combine]. rewrite len_nil.
    change (0 =? 0) with true. cbv iota. rewrite app_nil_r. reflexivity.
  - destruct lays as [|sl lays]; [discriminate Hlen|].
    destruct fuel as [|f]; [lia|].
    cbn [combine forallb fst snd] in Hleg. apply andb_true_iff in Hleg.
    destruct Hleg as [Hleg1 Hleg].
    cbn [sst_loop]. replace (len (s :: strs) =? 0) with false by (rewrite len_cons; lia).
    cbn [combine flat_map]. unfold str_items_of at 1. cbn [fst snd].
    rewrite <- app_assoc.
    rewrite (read_string_ok s sl _ Hleg1). cbn [obind].
    replace (len (s :: strs) - 1) with (len strs) by (rewrite len_cons; lia).
    rewrite (IH lays rest f (utf16_decode s :: acc)); cbn [length] in *;
      try lia; try assumption.
    cbn [rev map]. rewrite <- app_assoc. reflexivity.
Qed.

Fixpoint items_bytes (its : list item) : nat :=
  match its with
  | [] => 0
  | B bs :: r => length bs + items_bytes r
  | C :: r => items_bytes r
  end.
Lemma total_bytes_frags : forall its, total_bytes (frags its) = items_bytes its.
Proof.
  induction its as [|[bs|] r IH]; [reflexivity| |].
  - rewrite frags_B. unfold total_bytes in *. cbn [fst snd items_bytes].
    rewrite app_length. lia.
  - rewrite frags_C. unfold total_bytes in *. cbn [fst snd items_bytes fold_right length].
    lia.
Qed.
Lemma items_bytes_app : forall a b, items_bytes (a ++ b) = (items_bytes a + items_bytes b)%nat.
Proof.
  induction a as [|[bs|] r IH]; intros b; cbn [app items_bytes]; rewrite ?IH; lia.
Qed.
Lemma items_bytes_string : forall us sl, (3 <= items_bytes (string_items us sl))%nat.
Proof.
  intros. unfold string_items. rewrite items_bytes_app. cbn [items_bytes].
  destruct (str_header_shape us sl) as (a & b & c & r & E). rewrite E. cbn [length]. lia.
Qed.
Lemma items_bytes_table : forall strs lays, length strs = length lays ->
  (3 * length strs <= items_bytes (flat_map str_items_of (combine strs lays)))%nat.
Proof.
  induction strs as [|s strs IH]; intros [|sl lays] H; try discriminate; [cbn; lia|].
  cbn [combine flat_map]. rewrite items_bytes_app. unfold str_items_of at 1. cbn [fst snd length].
  pose proof (items_bytes_string s sl). injection H as H. specialize (IH lays H). lia.
Qed.

(* C12, main statement: whatever the legal layout — cuts between strings, inside character data
   with a fresh compression flag (also between the two halves of a surrogate pair), inside
   rgRun/ExtRst, any mixture of 8- and 16-bit segments — parse_sst returns the stored text of
   every string *)
Theorem sst_any_split : forall strs lay,
  legal_layout strs lay = true ->
  parse_sst (sst_encode strs lay) = Ok (map (fun s => utf16_decode (units s)) strs).
Proof.
  intros strs [total lays] Hleg. unfold legal_layout in Hleg. cbn [lay_strs lay_total] in Hleg.
  repeat (apply andb_true_iff in Hleg; destruct Hleg as [Hleg ?]).
  apply Nat.eqb_eq in Hleg.
  unfold sst_encode, sst_items. cbn [lay_strs lay_total].
  fold str_items_of.
  set (its := flat_map str_items_of (combine strs lays)).
  unfold parse_sst.
  assert (Hfr : frags (B (le32 total ++ le32 (len strs)) :: its) =
                (le32 total ++ le32 (len strs) ++ fst (frags its), snd (frags its))).
  { rewrite frags_B, <- app_assoc. reflexivity. }
  pose proof (total_bytes_frags (B (le32 total ++ le32 (len strs)) :: its)) as Htb.
  rewrite Hfr in *. clear Hfr.
  replace (len (le32 total ++ le32 (len strs) ++ fst (frags its)) <? 8) with false
    by (unfold le32; cbn [app]; rewrite !len_cons; lia).
  change (drop 4 (le32 total ++ ?x)) with x.
  rewrite read_i32_le32 by lia. cbn [obind].
  replace (Z.of_N (len strs) <? 0)%Z with false by lia.
  rewrite N2Z.id.
  change (drop 8 (le32 total ++ le32 (len strs) ++ ?x)) with x.
  rewrite pair_eta.
  rewrite <- (app_nil_r its). unfold its.
  rewrite sst_loop_ok; try assumption.
  - reflexivity.
  - rewrite app_nil_r. fold its. rewrite Htb. cbn [items_bytes].
    pose proof (items_bytes_table strs lays Hleg). fold its in H2. lia.
Qed.

(* the segment-by-segment decoding the code used before it kept one decoder per string differs
   from the stored text exactly by one extra U+FFFD per surrogate pair cut in two (this was the
   class CutInsidePair, finding F24) *)
Lemma low_not_high : forall u, is_low u = true -> is_high u = false.
Proof. unfold is_high, is_low. intros. lia. Qed.

Lemma ends_high_split : forall a, ends_high a = true ->
  exists a' h, a = a' ++ [h] /\ is_high h = true.
Proof.
  intros a H. destruct a as [|x a].
  - unfold ends_high in H. cbn in H. discriminate.
  - destruct (@exists_last _ (x :: a)) as (a' & h & E); [discriminate|].
    exists a', h. split; [exact E|]. unfold ends_high in H. rewrite E in H.
    rewrite last_last in H. exact H.
Qed.

Lemma decode_cut_length : forall a b, ends_high a && starts_low b = true ->
  length (utf16_decode a ++ utf16_decode b) = S (length (utf16_decode (a ++ b))).
Proof.
  intros a b H. apply andb_true_iff in H. destruct H as [Ha Hb].
  destruct (ends_high_split a Ha) as (a' & h & -> & Hh).
  destruct b as [|l b']; [discriminate Hb|]. cbn [starts_low] in Hb.
  assert (E1 : ends_high a' && starts_low [h] = false).
  { cbn [starts_low]. rewrite (high_not_low _ Hh). apply andb_false_r. }
  assert (E2 : ends_high a' && starts_low (h :: l :: b') = false).
  { cbn [starts_low]. rewrite (high_not_low _ Hh). apply andb_false_r. }
  replace ((a' ++ [h]) ++ l :: b') with (a' ++ h :: l :: b')
    by (rewrite <- app_assoc; reflexivity).
  rewrite (decode_app _ _ E1), (dec_high_end _ Hh).
  rewrite (decode_app _ _ E2), (dec_high_low _ _ _ Hh Hb).
  rewrite (dec_low _ _ (low_not_high _ Hb) Hb).
  rewrite !app_length. cbn [length]. lia.
Qed.

(* ------------------------------------------------------------------------------------- *)
(** * corollaries: later strings, LABELSST                                                *)
(* ------------------------------------------------------------------------------------- *)

(* every string decodes to its own text at its own index, whatever runs, extended blocks and
   cuts the strings before it carry *)
Corollary later_strings_unaffected : forall strs lay i s,
  legal_layout strs lay = true ->
  nth_error strs i = Some s ->
  exists tbl, parse_sst (sst_encode strs lay) = Ok tbl /\
              length tbl = length strs /\
              nth_error tbl i = Some (utf16_decode (units s)).
Proof.
  intros strs lay i s Hl Hi. eexists. split; [apply sst_any_split; assumption|].
  split; [apply map_length|]. apply map_nth_error. exact Hi.
Qed.

(* the table read does not depend on the layout at all *)
Corollary layout_irrelevant : forall strs lay lay',
  legal_layout strs lay = true -> legal_layout strs lay' = true ->
  parse_sst (sst_encode strs lay) = parse_sst (sst_encode strs lay').
Proof. intros. rewrite !sst_any_split by assumption. reflexivity. Qed.

Lemma decode_nil : forall us, is_nil (utf16_decode us) = is_nil us.
Proof.
  intros [|u r]; [reflexivity|]. cbn [is_nil].
  destruct (is_high u) eqn:Eh.
  - destruct r as [|v r']; [rewrite (dec_high_end _ Eh); reflexivity|].
    destruct (is_low v) eqn:El.
    + rewrite (dec_high_low _ _ _ Eh El). reflexivity.
    + rewrite (dec_high_other _ _ _ Eh El). reflexivity.
  - destruct (is_low u) eqn:El.
    + rewrite (dec_low _ _ Eh El). reflexivity.
    + rewrite (dec_bmp _ _ Eh El). reflexivity.
Qed.

Lemma drop_app_len : forall A (a b : list A) n, n = len a -> drop n (a ++ b) = b.
Proof. intros. subst. apply drop_len_app. Qed.

(* a LABELSST cell picks the text of the string it refers to (the code yields no cell when that
   string is empty) *)
Theorem labelsst_resolves : forall strs lay row col ixfe i s,
  legal_layout strs lay = true ->
  i <= 4294967295 ->
  nth_error strs (N.to_nat i) = Some s ->
  exists tbl, parse_sst (sst_encode strs lay) = Ok tbl /\
    parse_label_sst (labelsst_body row col ixfe i) tbl =
    Ok (if is_nil (units s) then None else Some (row, col, utf16_decode (units s))).
Proof.
  intros strs lay row col ixfe i s Hl Hi Hs.
  destruct (later_strings_unaffected strs lay (N.to_nat i) s Hl Hs) as (tbl & Hp & _ & Hn).
  exists tbl. split; [exact Hp|].
  unfold parse_label_sst, labelsst_body.
  replace (len (le16 row ++ le16 col ++ le16 ixfe ++ le32 i) <? 10) with false by reflexivity.
  rewrite read_u16_le16. cbn [obind].
  change (drop 2 (le16 row ++ ?x)) with x. rewrite read_u16_le16. cbn [obind].
  change (drop 6 (le16 row ++ le16 col ++ le16 ixfe ++ ?x)) with x.
  rewrite <- (app_nil_r (le32 i)), read_u32_le32 by exact Hi. cbn [obind].
  rewrite Hn, decode_nil. destruct (is_nil (units s)); reflexivity.
Qed.

(* ------------------------------------------------------------------------------------- *)
(** * XLUnicodeString, ShortXLUnicodeString: LABEL, STRING, BoundSheet8                   *)
(* ------------------------------------------------------------------------------------- *)

Lemma legal_xl_parts : forall hb us, legal_xl_string hb us = true ->
  len us <= 65535 /\ all_lt 65536 us = true /\ seg_ok hb us = true.
Proof.
  intros hb us H. unfold legal_xl_string in H.
  repeat (apply andb_true_iff in H; destruct H as [H ?]). repeat split; try assumption; lia.
Qed.

Theorem parse_string_ok : forall hb us extra,
  legal_xl_string hb us = true ->
  parse_string (xl_string hb us ++ extra) = Ok (utf16_decode us).
Proof.
  intros hb us extra Hl. destruct (legal_xl_parts hb us Hl) as (Hcch & Hlt & Hseg).
  unfold parse_string, xl_string. rewrite <- !app_assoc.
  assert (Hlen : (len (le16 (len us) ++ [b2n hb] ++ seg_bytes hb us ++ extra) <? 3) = false).
  { unfold le16. cbn [app]. rewrite !len_cons. lia. }
  rewrite Hlen. rewrite read_u16_le16. cbn [obind].
  unfold le16. cbn [app nth]. change (drop 3 (?a :: ?b :: ?c :: ?x)) with x.
  rewrite odd_b2n, (decode_to_exact hb us extra Hseg Hlt). reflexivity.
Qed.

(* ------------------------------------------------------------------------------------- *)
(** * a formula's string result over STRING + CONTINUE records                            *)
(* ------------------------------------------------------------------------------------- *)

Lemma legal_fstring_parts : forall us hb cuts, legal_fstring us hb cuts = true ->
  len us <= 65535 /\ all_lt 65536 us = true /\ cuts_legal us hb cuts = true.
Proof.
  intros us hb cuts H. unfold legal_fstring in H.
  repeat (apply andb_true_iff in H; destruct H as [H ?]). repeat split; try assumption; lia.
Qed.

(* a cut inside the character data always leaves a CONTINUE record behind the STRING record *)
Lemma char_items_cut_conts : forall us hb n hb' cs rest,
  snd (frags (char_items us hb ((n, hb') :: cs) ++ rest)) <> [].
Proof. intros. cbn [char_items app]. rewrite frags_B, frags_C. cbn [snd]. discriminate. Qed.

(* Record::cont is Some: the arm reads cch, the flag, and the characters through read_dbcs *)
Lemma string_arm_conts : forall us hb cuts rest,
  legal_fstring us hb cuts = true ->
  snd (frags (char_items us hb cuts ++ rest)) <> [] ->
  string_arm (fst (frags (fstring_items us hb cuts ++ rest)))
             (cont_opt (snd (frags (fstring_items us hb cuts ++ rest)))) = Ok (utf16_decode us).
Proof.
  intros us hb cuts rest Hl Hne.
  destruct (legal_fstring_parts _ _ _ Hl) as (Hcch & Hlt & Hcuts).
  pose proof (read_dbcs_ok cuts us hb rest Hcuts Hlt) as Hrd.
  unfold fstring_items, units. cbn [app]. rewrite frags_B. cbn [fst snd].
  destruct (frags (char_items us hb cuts ++ rest)) as [d cs]. cbn [fst snd] in *.
  destruct cs as [|c cs]; [congruence|]. cbn [cont_opt]. unfold string_arm.
  rewrite <- app_assoc.
  assert (Hlen : (len (le16 (len us) ++ [b2n hb] ++ d) <? 3) = false).
  { unfold le16. cbn [app]. rewrite !len_cons. lia. }
  rewrite Hlen. rewrite read_u16_le16. cbn [obind].
  unfold le16. cbn [app nth]. change (drop 3 (?a :: ?b :: ?c0 :: ?x)) with x.
  rewrite odd_b2n. unfold bytes in *. rewrite Hrd. reflexivity.
Qed.

(* C12 for a formula's string result: whatever the cuts of the character data over the STRING
   record and its CONTINUE records (also between the halves of a surrogate pair, also leaving empty
   segments), whatever 8/16-bit packing each fragment announces in its own flag byte, and whatever
   follows in the CONTINUE queue ([rest]: e.g. CONTINUE records holding nothing but a flag byte),
   the 0x0207 arm of the sheet loop returns the stored text.  Without any CONTINUE record the arm
   is parse_string on the record's own bytes. *)
Theorem formula_string_any_split : forall us hb cuts rest,
  legal_fstring us hb cuts = true ->
  string_arm (fst (frags (fstring_items us hb cuts ++ rest)))
             (cont_opt (snd (frags (fstring_items us hb cuts ++ rest)))) = Ok (utf16_decode us).
Proof.
  intros us hb cuts rest Hl. destruct cuts as [|[n hb'] cs].
  - destruct (snd (frags rest)) as [|c cs] eqn:E.
    + destruct (legal_fstring_parts _ _ _ Hl) as (Hcch & Hlt & Hcuts).
      cbn [cuts_legal] in Hcuts.
      unfold fstring_items, units. cbn [char_items app]. rewrite !frags_B. cbn [fst snd].
      rewrite E. cbn [cont_opt]. unfold string_arm.
      replace ((le16 (len us) ++ [b2n hb]) ++ seg_bytes hb us ++ fst (frags rest))
        with (xl_string hb us ++ fst (frags rest))
        by (unfold xl_string; rewrite <- !app_assoc; reflexivity).
      apply parse_string_ok. unfold legal_xl_string.
      rewrite Hlt, Hcuts. replace (len us <=? 65535) with true by lia. reflexivity.
    + apply string_arm_conts; [exact Hl|].
      cbn [char_items app]. rewrite frags_B. cbn [snd]. rewrite E. discriminate.
  - apply string_arm_conts; [exact Hl | apply char_items_cut_conts].
Qed.

Corollary fstring_encode_ok : forall us hb cuts,
  legal_fstring us hb cuts = true ->
  string_arm (fst (fstring_encode us hb cuts)) (cont_opt (snd (fstring_encode us hb cuts)))
  = Ok (utf16_decode us).
Proof.
  intros us hb cuts Hl. unfold fstring_encode.
  rewrite <- (app_nil_r (fstring_items us hb cuts)). apply formula_string_any_split, Hl.
Qed.

(* two legal fragmentations / packings of the same result read identically *)
Corollary fstring_layout_irrelevant : forall us hb cuts hb' cuts',
  legal_fstring us hb cuts = true -> legal_fstring us hb' cuts' = true ->
  string_arm (fst (fstring_encode us hb cuts)) (cont_opt (snd (fstring_encode us hb cuts))) =
  string_arm (fst (fstring_encode us hb' cuts')) (cont_opt (snd (fstring_encode us hb' cuts'))).
Proof. intros. rewrite !fstring_encode_ok by assumption. reflexivity. Qed.

Theorem parse_label_ok : forall row col ixfe hb us,
  legal_xl_string hb us = true ->
  parse_label (label_body row col ixfe hb us) = Ok (Some (row, col, utf16_decode us)).
Proof.
  intros row col ixfe hb us Hl. unfold parse_label, label_body.
  replace (len (le16 row ++ le16 col ++ le16 ixfe ++ xl_string hb us) <? 6) with false
    by (unfold le16; cbn [app]; rewrite !len_cons; lia).
  rewrite read_u16_le16. cbn [obind].
  change (drop 2 (le16 row ++ ?x)) with x. rewrite read_u16_le16. cbn [obind].
  change (drop 6 (le16 row ++ le16 col ++ le16 ixfe ++ ?x)) with x.
  rewrite <- (app_nil_r (xl_string hb us)), (parse_string_ok hb us [] Hl).
  reflexivity.
Qed.

Lemma legal_short_parts : forall hb us, legal_short_string hb us = true ->
  len us <= 255 /\ all_lt 65536 us = true /\ seg_ok hb us = true.
Proof.
  intros hb us H. unfold legal_short_string in H.
  repeat (apply andb_true_iff in H; destruct H as [H ?]). repeat split; try assumption; lia.
Qed.

Theorem parse_short_string_ok : forall hb us extra,
  legal_short_string hb us = true ->
  parse_short_string (short_xl_string hb us ++ extra) = Ok (utf16_decode us).
Proof.
  intros hb us extra Hl. destruct (legal_short_parts hb us Hl) as (Hcch & Hlt & Hseg).
  unfold parse_short_string, short_xl_string. cbn [app].
  replace (len (len us :: b2n hb :: seg_bytes hb us ++ extra) <? 2) with false
    by (rewrite !len_cons; lia).
  change (drop 1 (?a :: ?x)) with x. cbn [nth].
  change (drop 1 (?a :: ?x)) with x.
  rewrite odd_b2n, (decode_to_exact hb us extra Hseg Hlt). reflexivity.
Qed.

(* sheet names (BoundSheet8): the stored text, NUL characters removed *)
Theorem sheet_name_ok : forall pos vis typ hb us,
  pos <= 4294967295 -> vis <= 2 ->
  (typ =? 0) || (typ =? 1) || (typ =? 2) || (typ =? 6) = true ->
  legal_short_string hb us = true ->
  parse_sheet_metadata (boundsheet_body pos vis typ hb us) =
  Ok (pos, filter (fun c => negb (c =? 0)) (utf16_decode us)).
Proof.
  intros pos vis typ hb us Hpos Hvis Htyp Hl.
  unfold parse_sheet_metadata, boundsheet_body.
  replace (len (le32 pos ++ [vis; typ] ++ short_xl_string hb us) <? 6) with false
    by (unfold le32; cbn [app]; rewrite !len_cons; lia).
  rewrite read_u32_le32 by exact Hpos. cbn [obind].
  unfold le32 at 1 2. cbn [app nth_error of_option obind].
  assert (Hland : (2 <? N.land vis 3) = false).
  { assert (Hc : vis = 0 \/ vis = 1 \/ vis = 2) by lia.
    destruct Hc as [-> | [-> | ->]]; reflexivity. }
  rewrite Hland, Htyp. cbn [negb].
  change (drop 6 (le32 pos ++ vis :: typ :: ?x)) with x.
  rewrite <- (app_nil_r (short_xl_string hb us)), (parse_short_string_ok hb us [] Hl).
  reflexivity.
Qed.


(* ------------------------------------------------------------------------------------- *)
(** * RecordIter: the SST record and its CONTINUE records are collected into one Record   *)
(* ------------------------------------------------------------------------------------- *)

Definition starts_continue (s : bytes) : bool := (4 <? len s) && (u16_at s 0 =? 60).

Lemma frame_shape : forall t body rest,
  frame t body ++ rest =
  t mod 256 :: t / 256 :: len body mod 256 :: len body / 256 :: body ++ rest.
Proof. intros. unfold frame, le16. cbn [app]. reflexivity. Qed.

Lemma frame_fields : forall t body rest, len body <= 65535 ->
  u16_at (frame t body ++ rest) 0 = t /\
  u16_at (frame t body ++ rest) 2 = len body /\
  len (frame t body ++ rest) = len body + len rest + 4 /\
  take (len body) (drop 4 (frame t body ++ rest)) = body /\
  drop (len body + 4) (frame t body ++ rest) = rest.
Proof.
  intros t body rest Hb. rewrite frame_shape. unfold u16_at. cbn [nth].
  repeat split; try lia.
  - rewrite !len_cons, len_app. lia.
  - change (drop 4 (?a :: ?b :: ?c :: ?d :: ?x)) with x. apply take_len_app.
  - replace (len body + 4) with (4 + len body) by lia.
    unfold drop. rewrite N2Nat.inj_add. rewrite <- skipn_skipn_add.
    change (skipn (N.to_nat 4) (?a :: ?b :: ?c :: ?d :: ?x)) with x.
    apply drop_len_app.
Qed.

Lemma take_conts_ok : forall cs tail fuel acc,
  forallb (fun c => len c <=? 65535) cs = true ->
  (length cs < fuel)%nat -> tail <> [] -> starts_continue tail = false ->
  take_conts fuel (flat_map (frame 60) cs ++ tail) acc = Ok (acc ++ cs, tail).
Proof.
  induction cs as [|c cs IH]; intros tail fuel acc Hb Hf Ht Hnc.
  - destruct fuel as [|f]; [lia|]. cbn [flat_map app take_conts].
    unfold starts_continue in Hnc. rewrite Hnc, app_nil_r. reflexivity.
  - destruct fuel as [|f]; [cbn [length] in Hf; lia|].
    cbn [forallb] in Hb. apply andb_true_iff in Hb. destruct Hb as [Hc Hb].
    cbn [flat_map]. rewrite <- app_assoc.
    destruct (frame_fields 60 c (flat_map (frame 60) cs ++ tail)) as (F0 & F2 & FL & FT & FD);
      [lia|].
    cbn [take_conts]. rewrite F0, F2, FL, FT, FD.
    assert (Hpos : 0 < len (flat_map (frame 60) cs ++ tail)).
    { rewrite len_app. destruct tail; [congruence|]. rewrite len_cons. lia. }
    replace (4 <? len c + len (flat_map (frame 60) cs ++ tail) + 4) with true by lia.
    change (60 =? 60) with true. cbn [andb].
    replace (len c + len (flat_map (frame 60) cs ++ tail) + 4 <? len c + 4) with false by lia.
    rewrite (IH tail f (acc ++ [c]) Hb); [| cbn [length] in Hf; lia | exact Ht | exact Hnc].
    rewrite <- app_assoc. reflexivity.
Qed.

Lemma length_frames : forall cs, (length cs <= length (flat_map (frame 60) cs))%nat.
Proof.
  induction cs as [|c cs IH]; [cbn; lia|].
  cbn [flat_map]. rewrite app_length.
  assert (4 <= length (frame 60 c))%nat by (unfold frame, le16; cbn [app length]; lia).
  cbn [length]. lia.
Qed.

(* what follows the SST and its CONTINUE records is not empty (a workbook stream goes on with
   other records and ends with EOF) and is not itself a CONTINUE record *)
Theorem next_record_sst : forall st tail,
  len (fst st) <= 65535 -> forallb (fun c => len c <=? 65535) (snd st) = true ->
  tail <> [] -> starts_continue tail = false ->
  next_record (frame_sst st ++ tail) =
  Some (Ok ((252, fst st, match snd st with [] => None | _ => Some (snd st) end), tail)).
Proof.
  intros [d cs] tail Hd Hcs Ht Hnc. cbn [fst snd] in *. unfold frame_sst. cbn [fst snd].
  rewrite <- app_assoc.
  destruct (frame_fields 252 d (flat_map (frame 60) cs ++ tail)) as (F0 & F2 & FL & FT & FD);
    [lia|].
  unfold next_record. rewrite F0, F2, FL, FT, FD.
  replace (len d + len (flat_map (frame 60) cs ++ tail) + 4 <? 4) with false by lia.
  replace (len d + len (flat_map (frame 60) cs ++ tail) + 4 <? len d + 4) with false by lia.
  destruct cs as [|c cs].
  - cbn [flat_map app]. unfold starts_continue in Hnc. rewrite Hnc. reflexivity.
  - assert (Hsc : (4 <? len (flat_map (frame 60) (c :: cs) ++ tail))
                  && (u16_at (flat_map (frame 60) (c :: cs) ++ tail) 0 =? 60) = true).
    { cbn [flat_map]. rewrite <- app_assoc.
      cbn [forallb] in Hcs. apply andb_true_iff in Hcs. destruct Hcs as [Hc _].
      destruct (frame_fields 60 c (flat_map (frame 60) cs ++ tail)) as (G0 & _ & GL & _);
        [lia|].
      rewrite G0, GL, len_app. destruct tail; [congruence|]. rewrite len_cons.
      apply andb_true_iff. split; [lia | reflexivity]. }
    rewrite Hsc.
    rewrite (take_conts_ok (c :: cs) tail _ [] Hcs); [reflexivity | | exact Ht | exact Hnc].
    rewrite app_length. pose proof (length_frames (c :: cs)) as HF. unfold bytes in *. lia.
Qed.

(* the same for a record of any type (the STRING record of a formula and its CONTINUE records) *)
Theorem next_record_conts : forall t st tail,
  len (fst st) <= 65535 -> forallb (fun c => len c <=? 65535) (snd st) = true ->
  tail <> [] -> starts_continue tail = false ->
  next_record (frame_rec t st ++ tail) = Some (Ok ((t, fst st, cont_opt (snd st)), tail)).
Proof.
  intros t [d cs] tail Hd Hcs Ht Hnc. cbn [fst snd] in *. unfold frame_rec. cbn [fst snd].
  rewrite <- app_assoc.
  destruct (frame_fields t d (flat_map (frame 60) cs ++ tail)) as (F0 & F2 & FL & FT & FD);
    [lia|].
  unfold next_record. rewrite F0, F2, FL, FT, FD.
  replace (len d + len (flat_map (frame 60) cs ++ tail) + 4 <? 4) with false by lia.
  replace (len d + len (flat_map (frame 60) cs ++ tail) + 4 <? len d + 4) with false by lia.
  destruct cs as [|c cs].
  - cbn [flat_map app cont_opt]. unfold starts_continue in Hnc. rewrite Hnc. reflexivity.
  - assert (Hsc : (4 <? len (flat_map (frame 60) (c :: cs) ++ tail))
                  && (u16_at (flat_map (frame 60) (c :: cs) ++ tail) 0 =? 60) = true).
    { cbn [flat_map]. rewrite <- app_assoc.
      cbn [forallb] in Hcs. apply andb_true_iff in Hcs. destruct Hcs as [Hc _].
      destruct (frame_fields 60 c (flat_map (frame 60) cs ++ tail)) as (G0 & _ & GL & _);
        [lia|].
      rewrite G0, GL, len_app. destruct tail; [congruence|]. rewrite len_cons.
      apply andb_true_iff. split; [lia | reflexivity]. }
    rewrite Hsc. cbn [cont_opt].
    rewrite (take_conts_ok (c :: cs) tail _ [] Hcs); [reflexivity | | exact Ht | exact Hnc].
    rewrite app_length. pose proof (length_frames (c :: cs)) as HF. unfold bytes in *. lia.
Qed.

(* ------------------------------------------------------------------------------------- *)
(** * fuel: parse_sst never runs out of it, on any input                                  *)
(* ------------------------------------------------------------------------------------- *)

Definition conts_bytes (cs : list bytes) : nat :=
  fold_right (fun c n => length c + n)%nat 0%nat cs.
Lemma total_bytes_eq : forall d cs, total_bytes (d, cs) = (length d + conts_bytes cs)%nat.
Proof. reflexivity. Qed.

Lemma length_drop_le : forall A n (l : list A), (length (drop n l) <= length l)%nat.
Proof. intros. unfold drop. rewrite skipn_length. lia. Qed.

Lemma skip_loop_shrinks : forall conts data n st',
  skip_loop conts data n = Ok st' -> (total_bytes st' <= total_bytes (data, conts))%nat.
Proof.
  induction conts as [|c cs IH]; intros data n st' H; rewrite skip_loop_eq in H; cbv zeta in H.
  - destruct (n - N.min n (len data) =? 0); [|discriminate].
    injection H as <-. rewrite !total_bytes_eq. pose proof (length_drop_le _ (N.min n (len data)) data). lia.
  - destruct (n - N.min n (len data) =? 0).
    + injection H as <-. rewrite !total_bytes_eq.
      pose proof (length_drop_le _ (N.min n (len data)) data). lia.
    + apply IH in H. rewrite !total_bytes_eq in *. cbn [conts_bytes fold_right]. fold (conts_bytes cs). lia.
Qed.
Lemma skip_loop_fuel : forall conts data n, skip_loop conts data n <> OutOfFuel.
Proof.
  induction conts as [|c cs IH]; intros data n; rewrite skip_loop_eq; cbv zeta;
    destruct (n - N.min n (len data) =? 0); try discriminate. apply IH.
Qed.
Lemma skip_shrinks : forall st n st', skip st n = Ok st' -> (total_bytes st' <= total_bytes st)%nat.
Proof.
  intros [d cs] n st' H. unfold skip in H. cbn [fst snd] in H.
  destruct (n =? 0); [injection H as <-; lia|]. apply (skip_loop_shrinks _ _ _ _ H).
Qed.
Lemma skip_fuel : forall st n, skip st n <> OutOfFuel.
Proof.
  intros st n. unfold skip. destruct (n =? 0); [discriminate|]. apply skip_loop_fuel.
Qed.

Lemma dbcs_loop_shrinks : forall conts data n hb ds acc s ds' st',
  dbcs_loop conts data n hb ds acc = Ok (s, ds', st') ->
  (total_bytes st' <= total_bytes (data, conts))%nat.
Proof.
  induction conts as [|c cs IH]; intros data n hb ds acc s ds' st' H; rewrite dbcs_loop_eq in H;
    destruct (decode_segment ds data n (Some hb)) as [[[l at_] str] ds1].
  - destruct (n - l =? 0); [|discriminate]. injection H as _ _ <-.
    rewrite !total_bytes_eq. pose proof (length_drop_le _ at_ data). lia.
  - destruct (n - l =? 0).
    + injection H as _ _ <-. rewrite !total_bytes_eq. pose proof (length_drop_le _ at_ data). lia.
    + destruct c as [|f c']; [discriminate|]. apply IH in H.
      rewrite !total_bytes_eq in *. cbn [conts_bytes fold_right length]. fold (conts_bytes cs). lia.
Qed.
(* the loop ends with Ok or Err: neither fuel nor a panic site is left in it *)
Lemma dbcs_loop_total : forall conts data n hb ds acc,
  dbcs_loop conts data n hb ds acc <> OutOfFuel /\ dbcs_loop conts data n hb ds acc <> Panic.
Proof.
  induction conts as [|c cs IH]; intros data n hb ds acc; rewrite dbcs_loop_eq;
    destruct (decode_segment ds data n (Some hb)) as [[[l at_] str] ds1];
    destruct (n - l =? 0); try (split; discriminate).
  destruct c as [|f c']; [split; discriminate|]. apply IH.
Qed.
Lemma read_dbcs_shrinks : forall st n hb s st',
  read_dbcs st n hb = Ok (s, st') -> (total_bytes st' <= total_bytes st)%nat.
Proof.
  intros [d cs] n hb s st' H. unfold read_dbcs in H. cbn [fst snd] in H.
  destruct (n =? 0).
  - cbn [obind] in H. destruct (decode_segment_last dec_init [] 0 (Some hb)) as [[? ?] ?].
    injection H as _ <-. lia.
  - destruct (dbcs_loop cs d n hb dec_init []) as [[[s1 ds1] st1]| | |] eqn:E;
      cbn [obind] in H; try discriminate.
    destruct (decode_segment_last ds1 [] 0 (Some hb)) as [[? ?] ?].
    injection H as _ <-. apply (dbcs_loop_shrinks _ _ _ _ _ _ _ _ _ E).
Qed.
Lemma read_dbcs_total : forall st n hb,
  read_dbcs st n hb <> OutOfFuel /\ read_dbcs st n hb <> Panic.
Proof.
  intros st n hb. unfold read_dbcs. destruct (n =? 0).
  - cbn [obind]. destruct (decode_segment_last dec_init [] 0 (Some hb)) as [[? ?] ?].
    split; discriminate.
  - pose proof (dbcs_loop_total (snd st) (fst st) n hb dec_init []) as [H1 H2].
    destruct (dbcs_loop (snd st) (fst st) n hb dec_init []) as [[[s1 ds1] st1]| | |];
      cbn [obind]; try congruence; try (split; discriminate).
    destruct (decode_segment_last ds1 [] 0 (Some hb)) as [[? ?] ?]. split; discriminate.
Qed.
Lemma read_dbcs_fuel : forall st n hb, read_dbcs st n hb <> OutOfFuel.
Proof. intros. apply read_dbcs_total. Qed.

Lemma enter_string_shrinks : forall st st', enter_string st = Some st' ->
  (total_bytes st' <= total_bytes st)%nat.
Proof.
  intros [d cs] st' H. unfold enter_string, continue_record in H. cbn [fst snd] in H.
  destruct d as [|x d]; cbn [is_nil] in H.
  - destruct cs as [|c cs]; [discriminate|]. injection H as <-.
    rewrite !total_bytes_eq. cbn [conts_bytes fold_right length]. fold (conts_bytes cs). lia.
  - injection H as <-. lia.
Qed.

Lemma slice_from_length : forall (s d : bytes) n, slice_from s n = Ok d ->
  (length d <= length s)%nat.
Proof.
  intros s d n H. unfold slice_from in H. destruct (n <=? len s); [|discriminate].
  injection H as <-. apply length_drop_le.
Qed.

(* machine-integer reads on slices that are long enough *)
Lemma read_u16_total : forall s, 2 <= len s -> exists v, read_u16 s = Ok v.
Proof.
  intros [|a [|b r]] H; cbn [read_u16]; eauto; rewrite ?len_cons, ?len_nil in H; lia.
Qed.
Lemma read_u32_total : forall s, 4 <= len s -> exists v, read_u32 s = Ok v.
Proof.
  intros [|a [|b [|c [|d r]]]] H; cbn [read_u32]; eauto; rewrite ?len_cons, ?len_nil in H; lia.
Qed.
Lemma read_i32_total : forall s, 4 <= len s -> exists v, read_i32 s = Ok v.
Proof.
  intros s H. unfold read_i32. destruct (read_u32_total s H) as (u & ->). cbn [obind]. eauto.
Qed.
Lemma slice_from_total : forall A (s : list A) n, n <= len s -> slice_from s n = Ok (drop n s).
Proof. intros. unfold slice_from. replace (n <=? len s) with true by lia. reflexivity. Qed.
Lemma len_drop : forall A n (l : list A), len (drop n l) = len l - n.
Proof. intros. unfold len, drop. rewrite skipn_length. lia. Qed.

(* the optional cRun / cbExtRst fields: an error or a shorter slice, nothing else *)
Lemma read_c_run_cases : forall flags data,
  (exists e, read_c_run flags data = Err e) \/
  (exists v d, read_c_run flags data = Ok (v, d) /\ (length d <= length data)%nat).
Proof.
  intros flags data. unfold read_c_run. destruct (N.testbit flags 3); [|right; eauto].
  destruct (len data <? 2) eqn:E; [left; eauto|]. right.
  destruct (read_u16_total data) as (v & ->); [lia|]. cbn [obind].
  rewrite slice_from_total by lia. cbn [obind]. do 2 eexists. split; [reflexivity|].
  apply length_drop_le.
Qed.
Lemma read_cb_ext_rst_cases : forall flags data,
  (exists e, read_cb_ext_rst flags data = Err e) \/
  (exists v d, read_cb_ext_rst flags data = Ok (v, d) /\ (length d <= length data)%nat).
Proof.
  intros flags data. unfold read_cb_ext_rst. destruct (N.testbit flags 2); [|right; eauto].
  destruct (len data <? 4) eqn:E; [left; eauto|]. right.
  destruct (read_i32_total data) as (v & ->); [lia|]. cbn [obind].
  rewrite slice_from_total by lia. cbn [obind]. do 2 eexists. split; [reflexivity|].
  apply length_drop_le.
Qed.

(* the header of a fragment of at least 3 bytes: an error, or at least 3 bytes consumed *)
Lemma read_header_cases : forall data, 3 <= len data ->
  (exists e, read_string_header data = Err e) \/
  (exists cch hb cr ce data', read_string_header data = Ok (cch, hb, cr, ce, data') /\
                              (length data' + 3 <= length data)%nat).
Proof.
  intros data H3. unfold read_string_header.
  destruct (read_u16_total data) as (cch & ->); [lia|]. cbn [obind].
  assert (Hd : (length (drop 3 data) + 3 <= length data)%nat).
  { unfold drop, len in *. rewrite skipn_length. lia. }
  set (d3 := drop 3 data) in *.
  destruct (read_c_run_cases (nth 2 data 0) d3) as [(e & ->) | (v & d5 & -> & H5)];
    [left; cbn [obind]; eauto|]. cbn [obind].
  destruct (read_cb_ext_rst_cases (nth 2 data 0) d5) as [(e & ->) | (w & d9 & -> & H9)];
    [left; cbn [obind]; eauto|]. cbn [obind].
  right. do 5 eexists. split; [reflexivity|]. lia.
Qed.

Lemma read_header_shrinks : forall data cch hb cr ce data',
  3 <= len data ->
  read_string_header data = Ok (cch, hb, cr, ce, data') ->
  (length data' + 3 <= length data)%nat.
Proof.
  intros data cch hb cr ce data' H3 H.
  destruct (read_header_cases data H3) as [(e & He) | (a & b & c & d & x & He & Hl)];
    rewrite He in H; [discriminate|]. injection H as _ _ _ _ <-. exact Hl.
Qed.

Lemma read_string_shrinks : forall st s st',
  read_rich_extended_string st = Ok (s, st') -> (total_bytes st' + 3 <= total_bytes st)%nat.
Proof.
  intros st s st' H. unfold read_rich_extended_string in H.
  destruct (enter_string st) as [[data conts]|] eqn:Een; [|discriminate].
  apply enter_string_shrinks in Een.
  destruct (len data <? 3) eqn:E3; [discriminate|].
  destruct (read_string_header data) as [[[[[cch hb] cr] ce] data']| | |] eqn:Eh;
    cbn [obind] in H; try discriminate.
  apply read_header_shrinks in Eh; [|lia].
  destruct (read_dbcs (data', conts) cch hb) as [[s1 st1]| | |] eqn:Ed;
    cbn [obind] in H; try discriminate.
  apply read_dbcs_shrinks in Ed.
  destruct (skip st1 (cr * 4)) as [st2| | |] eqn:E1; cbn [obind] in H; try discriminate.
  apply skip_shrinks in E1.
  destruct (skip st2 ce) as [st3| | |] eqn:E2; cbn [obind] in H; try discriminate.
  apply skip_shrinks in E2. injection H as _ <-.
  rewrite !total_bytes_eq in *. lia.
Qed.

Lemma skip_loop_total : forall conts data n,
  skip_loop conts data n <> OutOfFuel /\ skip_loop conts data n <> Panic.
Proof.
  induction conts as [|c cs IH]; intros data n; rewrite skip_loop_eq; cbv zeta;
    destruct (n - N.min n (len data) =? 0); try (split; discriminate). apply IH.
Qed.
Lemma skip_total : forall st n, skip st n <> OutOfFuel /\ skip st n <> Panic.
Proof.
  intros st n. unfold skip. destruct (n =? 0); [split; discriminate|]. apply skip_loop_total.
Qed.

(* one string: Ok or Err on every input — no fuel, no panic site left *)
Lemma read_string_total : forall st,
  read_rich_extended_string st <> OutOfFuel /\ read_rich_extended_string st <> Panic.
Proof.
  intros st. unfold read_rich_extended_string.
  destruct (enter_string st) as [[data conts]|]; [|split; discriminate].
  destruct (len data <? 3) eqn:E3; [split; discriminate|].
  destruct (read_header_cases data) as [(e & ->) | (cch & hb & cr & ce & data' & -> & _)];
    [lia | cbn [obind]; split; discriminate |]. cbn [obind].
  pose proof (read_dbcs_total (data', conts) cch hb) as [Hd1 Hd2].
  destruct (read_dbcs (data', conts) cch hb) as [[s1 st1]| | |]; cbn [obind];
    try congruence; try (split; discriminate).
  pose proof (skip_total st1 (cr * 4)) as [H1 H1'].
  destruct (skip st1 (cr * 4)) as [st2| | |]; cbn [obind];
    try congruence; try (split; discriminate).
  pose proof (skip_total st2 ce) as [H2 H2'].
  destruct (skip st2 ce) as [st3| | |]; cbn [obind];
    try congruence; split; discriminate.
Qed.
Lemma read_string_fuel : forall st, read_rich_extended_string st <> OutOfFuel.
Proof. intros. apply read_string_total. Qed.

Lemma sst_loop_fuel : forall fuel count st acc, (total_bytes st < fuel)%nat ->
  sst_loop fuel count st acc <> OutOfFuel.
Proof.
  induction fuel as [|f IH]; intros count st acc Hf; [lia|].
  cbn [sst_loop]. destruct (count =? 0); [discriminate|].
  pose proof (read_string_fuel st) as Hr.
  destruct (read_rich_extended_string st) as [[s st']| | |] eqn:E; cbn [obind];
    try discriminate; [|congruence].
  apply IH. apply read_string_shrinks in E. lia.
Qed.

(* every successful read consumes at least 3 bytes, so the fuel parse_sst starts with suffices
   whatever the input (count field included): OutOfFuel is not an outcome of the model *)
Theorem sst_fuel_suffices : forall st, parse_sst st <> OutOfFuel.
Proof.
  intros [data conts]. unfold parse_sst.
  destruct (len data <? 8); [discriminate|].
  destruct (read_i32 (drop 4 data)) as [x| | |] eqn:E; cbn [obind]; try discriminate.
  - destruct (x <? 0)%Z; [discriminate|]. apply sst_loop_fuel.
    rewrite !total_bytes_eq. pose proof (length_drop_le _ 8 data). lia.
  - unfold read_i32, read_u32 in E.
    repeat match type of E with
           | context [match ?x with _ => _ end] => destruct x; cbn [obind] in E; try discriminate
           end.
Qed.

(* ------------------------------------------------------------------------------------- *)
(** * RecordIter over a whole stream                                                      *)
(* ------------------------------------------------------------------------------------- *)

Lemma take_conts_shrinks : forall fuel stream acc cs rest,
  take_conts fuel stream acc = Ok (cs, rest) -> (length rest <= length stream)%nat.
Proof.
  induction fuel as [|f IH]; intros stream acc cs rest H; [discriminate|].
  cbn [take_conts] in H.
  destruct ((4 <? len stream) && (u16_at stream 0 =? 60)).
  - destruct (len stream <? u16_at stream 2 + 4); [discriminate|].
    apply IH in H. pose proof (length_drop_le _ (u16_at stream 2 + 4) stream). lia.
  - injection H as _ <-. lia.
Qed.

Lemma next_record_shrinks : forall stream r rest,
  next_record stream = Some (Ok (r, rest)) -> (length rest + 4 <= length stream)%nat.
Proof.
  intros stream r rest H. unfold next_record in H.
  destruct (len stream <? 4) eqn:E4; [destruct (is_nil stream); discriminate|].
  destruct (len stream <? u16_at stream 2 + 4) eqn:El; [discriminate|].
  assert (Hd : (length (drop (u16_at stream 2 + 4) stream) + 4 <= length stream)%nat).
  { unfold drop, len in *. rewrite skipn_length. lia. }
  set (next := drop (u16_at stream 2 + 4) stream) in *.
  destruct ((4 <? len next) && (u16_at next 0 =? 60)).
  - destruct (take_conts (S (length next)) next []) as [[cs rest']| | |] eqn:Et;
      cbn [obind] in H; try discriminate.
    injection H as _ <-. apply take_conts_shrinks in Et. lia.
  - injection H as _ <-. exact Hd.
Qed.

(* more fuel than the length of the stream changes nothing *)
Lemma records_fuel_enough : forall n stream f,
  (length stream <= n)%nat -> (length stream < f)%nat ->
  records_fuel f stream = records stream.
Proof.
  induction n as [|n IH]; intros stream f Hn Hf.
  - destruct stream; [|cbn in Hn; lia]. destruct f; [lia|]. reflexivity.
  - unfold records. destruct f as [|f]; [lia|]. cbn [records_fuel].
    destruct (next_record stream) as [[[r rest]|e| |]|] eqn:E; try reflexivity.
    apply next_record_shrinks in E.
    rewrite (IH rest f), (IH rest (length stream)); try lia. reflexivity.
Qed.

Lemma records_step : forall stream r rest,
  next_record stream = Some (Ok (r, rest)) -> records stream = Ok r :: records rest.
Proof.
  intros stream r rest H. unfold records at 1. cbn [records_fuel]. rewrite H.
  apply next_record_shrinks in H.
  rewrite (records_fuel_enough (length rest) rest (length stream)); [reflexivity | lia | lia].
Qed.

(* a plain record (not followed by a CONTINUE record) *)
Lemma next_record_plain : forall t body rest,
  len body <= 65535 -> starts_continue rest = false ->
  next_record (frame t body ++ rest) = Some (Ok ((t, body, None), rest)).
Proof.
  intros t body rest Hb Hnc.
  destruct (frame_fields t body rest Hb) as (F0 & F2 & FL & FT & FD).
  unfold next_record. rewrite F0, F2, FL, FT, FD.
  replace (len body + len rest + 4 <? 4) with false by lia.
  replace (len body + len rest + 4 <? len body + 4) with false by lia.
  unfold starts_continue in Hnc. rewrite Hnc. reflexivity.
Qed.

Lemma records_plain : forall t body rest,
  len body <= 65535 -> starts_continue rest = false ->
  records (frame t body ++ rest) = Ok (t, body, None) :: records rest.
Proof. intros. apply records_step. apply next_record_plain; assumption. Qed.

(* what follows is a record of another type than CONTINUE *)
Lemma frame_not_continue : forall t body rest, t <> 60 -> len body <= 65535 ->
  starts_continue (frame t body ++ rest) = false.
Proof.
  intros t body rest Ht Hb. unfold starts_continue.
  destruct (frame_fields t body rest Hb) as (F0 & _). rewrite F0.
  replace (t =? 60) with false by lia. apply andb_false_r.
Qed.
Lemma nil_not_continue : starts_continue [] = false.
Proof. reflexivity. Qed.

(* ------------------------------------------------------------------------------------- *)
(** * a whole workbook: the sheet substreams                                              *)
(* ------------------------------------------------------------------------------------- *)

(* dispatch of wb_sheet on the record kinds the writer emits *)
(* the sheet's own BOF opens substream 1; the cell records of the sheet run at depth 1 *)
Lemma wb_sheet_bof : forall d c rest tbl fp cells dep,
  wb_sheet (Ok (2057, d, c) :: rest) tbl fp cells dep = wb_sheet rest tbl fp cells (dep + 1).
Proof. reflexivity. Qed.
Lemma wb_sheet_eof : forall d c rest tbl fp cells,
  wb_sheet (Ok (10, d, c) :: rest) tbl fp cells 1 = Ok cells.
Proof. reflexivity. Qed.
Lemma wb_sheet_labelsst : forall d c rest tbl fp cells,
  wb_sheet (Ok (253, d, c) :: rest) tbl fp cells 1 =
  do x <- parse_label_sst d tbl;
  wb_sheet rest tbl fp (cells ++ match x with Some x => [x] | None => [] end) 1.
Proof. reflexivity. Qed.
Lemma wb_sheet_label : forall d c rest tbl fp cells,
  wb_sheet (Ok (516, d, c) :: rest) tbl fp cells 1 =
  do x <- parse_label d;
  wb_sheet rest tbl fp (cells ++ match x with Some x => [x] | None => [] end) 1.
Proof. reflexivity. Qed.
Lemma wb_sheet_string : forall d c rest tbl fp cells,
  wb_sheet (Ok (519, d, c) :: rest) tbl fp cells 1 =
  do s <- string_arm d c;
  wb_sheet rest tbl fp (cells ++ [(fst fp, snd fp, s)]) 1.
Proof. reflexivity. Qed.
Lemma wb_sheet_formula_stub : forall row col c rest tbl fp cells,
  wb_sheet (Ok (6, formula_stub_body row col 15, c) :: rest) tbl fp cells 1 =
  wb_sheet rest tbl (row, col) cells 1.
Proof.
  intros. cbn [wb_sheet]. change (6 =? 2057) with false. change (1 <? 1) with false. cbv iota.
  change (6 =? 253) with false. change (6 =? 516) with false.
  change (6 =? 519) with false. change (6 =? 6) with true. cbv iota.
  unfold formula_stub_body at 1.
  replace (len (formula_stub_body row col 15) <? 20) with false by reflexivity.
  replace (formula_is_string_stub (formula_stub_body row col 15)) with true by reflexivity.
  unfold formula_stub_body. rewrite read_u16_le16. cbn [obind].
  change (drop 2 (le16 row ++ ?x)) with x. rewrite read_u16_le16. reflexivity.
Qed.

Lemma parse_label_sst_body : forall row col ixfe i tbl, i <= 4294967295 ->
  parse_label_sst (labelsst_body row col ixfe i) tbl =
  Ok (match nth_error tbl (N.to_nat i) with
      | Some s => if is_nil s then None else Some (row, col, s)
      | None => None
      end).
Proof.
  intros row col ixfe i tbl Hi. unfold parse_label_sst, labelsst_body.
  replace (len (le16 row ++ le16 col ++ le16 ixfe ++ le32 i) <? 10) with false by reflexivity.
  rewrite read_u16_le16. cbn [obind].
  change (drop 2 (le16 row ++ ?x)) with x. rewrite read_u16_le16. cbn [obind].
  change (drop 6 (le16 row ++ le16 col ++ le16 ixfe ++ ?x)) with x.
  rewrite <- (app_nil_r (le32 i)), read_u32_le32 by exact Hi. cbn [obind].
  destruct (nth_error tbl (N.to_nat i)) as [s|]; [destruct (is_nil s)|]; reflexivity.
Qed.

Definition eof_rec : bytes := frame 10 [].
Ltac len_small :=
  unfold formula_stub_body, labelsst_body, bof_body, le16, le32, len; cbn [app length]; lia.

(* the records of the cells never start with a CONTINUE header *)
Lemma cells_not_continue : forall cells later,
  forallb legal_cell cells = true ->
  starts_continue (flat_map cell_records cells ++ eof_rec ++ later) = false.
Proof.
  intros [|c cells] later Hl.
  - cbn [flat_map app]. apply frame_not_continue; [lia | len_small].
  - cbn [flat_map forallb] in *. apply andb_true_iff in Hl. destruct Hl as [Hc _].
    rewrite <- app_assoc. destruct c as [r c i | r c hb us | r c hb us cuts]; cbn [cell_records legal_cell] in *.
    + apply frame_not_continue; [lia | len_small].
    + apply andb_true_iff in Hc. destruct Hc as [_ Hb]. apply frame_not_continue; lia.
    + rewrite <- app_assoc. apply frame_not_continue; [lia | len_small].
Qed.

Lemma sheet_cells_ok : forall cells later tbl fp acc,
  forallb legal_cell cells = true -> starts_continue later = false ->
  wb_sheet (records (flat_map cell_records cells ++ eof_rec ++ later)) tbl fp acc 1 =
  Ok (acc ++ flat_map (cell_text tbl) cells).
Proof.
  induction cells as [|c cells IH]; intros later tbl fp acc Hl Hlater.
  - cbn [flat_map app]. unfold eof_rec.
    rewrite records_plain; [| len_small | exact Hlater].
    rewrite wb_sheet_eof, app_nil_r. reflexivity.
  - cbn [flat_map forallb] in *. apply andb_true_iff in Hl. destruct Hl as [Hc Hl].
    pose proof (cells_not_continue cells later Hl) as Hnc.
    rewrite <- app_assoc.
    destruct c as [r c i | r c hb us | r c hb us cuts]; cbn [cell_records legal_cell cell_text] in *.
    + rewrite records_plain; [| len_small | exact Hnc].
      rewrite wb_sheet_labelsst, parse_label_sst_body by lia. cbn [obind].
      rewrite (IH later tbl fp _ Hl Hlater), <- app_assoc. do 2 f_equal.
      destruct (nth_error tbl (N.to_nat i)) as [s|]; [destruct (is_nil s)|]; reflexivity.
    + apply andb_true_iff in Hc. destruct Hc as [Hx Hb].
      rewrite records_plain; [| lia | exact Hnc].
      rewrite wb_sheet_label, (parse_label_ok r c 15 hb us Hx). cbn [obind].
      rewrite (IH later tbl fp _ Hl Hlater), <- app_assoc. reflexivity.
    + apply andb_true_iff in Hc. destruct Hc as [Hc Hcs].
      apply andb_true_iff in Hc. destruct Hc as [Hx Hb].
      rewrite <- app_assoc.
      rewrite records_plain;
        [| len_small | unfold frame_rec; rewrite <- app_assoc; apply frame_not_continue; lia].
      rewrite wb_sheet_formula_stub.
      assert (Hne : flat_map cell_records cells ++ eof_rec ++ later <> []).
      { destruct (flat_map cell_records cells); cbn; discriminate. }
      rewrite (records_step _ _ _
                 (next_record_conts 519 (fstring_encode us hb cuts) _
                    ltac:(apply N.leb_le; exact Hb) Hcs Hne Hnc)).
      rewrite wb_sheet_string.
      match goal with |- context [string_arm ?a ?b] =>
        replace (string_arm a b) with (Ok (utf16_decode us))
          by (symmetry; exact (fstring_encode_ok us hb cuts Hx)) end.
      cbn [obind fst snd].
      rewrite (IH later tbl (r, c) _ Hl Hlater), <- app_assoc. reflexivity.
Qed.

Lemma sheet_stream_ok : forall sh later tbl,
  forallb legal_cell (sh_cells sh) = true -> starts_continue later = false ->
  wb_sheet (records (sheet_stream sh ++ later)) tbl (0, 0) [] 0 =
  Ok (flat_map (cell_text tbl) (sh_cells sh)).
Proof.
  intros sh later tbl Hl Hlater. unfold sheet_stream. rewrite <- !app_assoc.
  rewrite records_plain; [| len_small | apply (cells_not_continue _ later Hl)].
  rewrite wb_sheet_bof. change (0 + 1) with 1. fold eof_rec.
  rewrite (sheet_cells_ok _ later tbl (0, 0) [] Hl Hlater). reflexivity.
Qed.

(* a substream nested in the sheet (the chart of an embedded chart object: BOF, its records —
   among them LABEL / STRING / FORMULA records of the series cache —, EOF) contributes no text cell
   and does not end the sheet (fix of audit-2 finding XLS-2, modelled by [depth]) *)
Definition plain_inner (r : outcome rec_item) : Prop :=
  exists t d c, r = Ok (t, d, c) /\ t <> 2057 /\ t <> 10.
Lemma wb_sheet_inner_skipped : forall inner rest tbl fp cells,
  Forall plain_inner inner ->
  wb_sheet (inner ++ rest) tbl fp cells 2 = wb_sheet rest tbl fp cells 2.
Proof.
  induction inner as [|r inner IH]; intros rest tbl fp cells H; [reflexivity|].
  inversion H as [|? ? (t & d & c & -> & Hb & He) Hin]; subst.
  cbn [app wb_sheet]. replace (t =? 2057) with false by lia. change (1 <? 2) with true. cbv iota.
  replace (t =? 10) with false by lia. apply IH, Hin.
Qed.
Lemma wb_sheet_nested_skipped : forall d0 c0 inner d1 c1 rest tbl fp cells,
  Forall plain_inner inner ->
  wb_sheet (Ok (2057, d0, c0) :: inner ++ Ok (10, d1, c1) :: rest) tbl fp cells 1 =
  wb_sheet rest tbl fp cells 1.
Proof.
  intros. rewrite wb_sheet_bof. change (1 + 1) with 2.
  rewrite (wb_sheet_inner_skipped inner _ tbl fp cells H). reflexivity.
Qed.

(* ------------------------------------------------------------------------------------- *)
(** * a whole workbook: globals, then every sheet                                         *)
(* ------------------------------------------------------------------------------------- *)

Definition nonul (s : list N) : list N := filter (fun c => negb (c =? 0)) s.
Fixpoint metas (pos : N) (shs : list sheet_spec) : list (N * list N) :=
  match shs with
  | [] => []
  | sh :: r => (pos, nonul (utf16_decode (sh_name sh))) :: metas (pos + len (sheet_stream sh)) r
  end.
Definition sheets_len (shs : list sheet_spec) : N := len (flat_map sheet_stream shs).

Lemma wb_globals_bof : forall c rest sh st,
  wb_globals (Ok (2057, bof_body 5, c) :: rest) sh st = wb_globals rest sh st.
Proof. reflexivity. Qed.
(* the CodePage arm under the BIFF8 BOF: any value of the record is without effect *)
Lemma wb_globals_codepage : forall v c rest sh st,
  wb_globals (Ok (66, le16 v, c) :: rest) sh st = wb_globals rest sh st.
Proof. reflexivity. Qed.
Lemma wb_globals_bsheet : forall d c rest sh st,
  wb_globals (Ok (133, d, c) :: rest) sh st =
  do m <- parse_sheet_metadata d; wb_globals rest (sh ++ [m]) st.
Proof. reflexivity. Qed.
Lemma wb_globals_sst : forall d c rest sh st,
  wb_globals (Ok (252, d, c) :: rest) sh st =
  do s <- parse_sst (d, conts_of c); wb_globals rest sh s.
Proof. reflexivity. Qed.
Lemma wb_globals_eof : forall d c rest sh st,
  wb_globals (Ok (10, d, c) :: rest) sh st = Ok (sh, st).
Proof. reflexivity. Qed.

Lemma len_boundsheet_body : forall pos vis typ hb us, len us <= 255 ->
  len (boundsheet_body pos vis typ hb us) <= 65535.
Proof.
  intros. unfold boundsheet_body, short_xl_string, le32. cbn [app]. rewrite !len_cons.
  rewrite len_seg_bytes. destruct hb; lia.
Qed.

Lemma boundsheets_not_continue : forall shs pos rest,
  forallb legal_sheet shs = true -> starts_continue rest = false ->
  starts_continue (boundsheets pos shs ++ rest) = false.
Proof.
  intros [|sh shs] pos rest Hl Hr; [exact Hr|].
  cbn [boundsheets forallb] in *. apply andb_true_iff in Hl. destruct Hl as [Hs _].
  unfold legal_sheet in Hs. apply andb_true_iff in Hs. destruct Hs as [Hn _].
  destruct (legal_short_parts _ _ Hn) as (Hc & _).
  rewrite <- app_assoc. apply frame_not_continue; [lia | apply len_boundsheet_body; exact Hc].
Qed.

Lemma sheets_len_cons : forall sh shs,
  sheets_len (sh :: shs) = len (sheet_stream sh) + sheets_len shs.
Proof. intros. unfold sheets_len. cbn [flat_map]. apply len_app. Qed.

Lemma globals_boundsheets : forall shs pos rest sheets strings,
  forallb legal_sheet shs = true -> pos + sheets_len shs <= 4294967295 ->
  starts_continue rest = false ->
  wb_globals (records (boundsheets pos shs ++ rest)) sheets strings =
  wb_globals (records rest) (sheets ++ metas pos shs) strings.
Proof.
  induction shs as [|sh shs IH]; intros pos rest sheets strings Hl Hpos Hr.
  - cbn [boundsheets metas app]. rewrite app_nil_r. reflexivity.
  - cbn [boundsheets metas]. rewrite <- app_assoc.
    cbn [forallb] in Hl. apply andb_true_iff in Hl. destruct Hl as [Hs Hl].
    pose proof Hs as Hs'. unfold legal_sheet in Hs'. apply andb_true_iff in Hs'.
    destruct Hs' as [Hn _]. destruct (legal_short_parts _ _ Hn) as (Hc & _).
    rewrite sheets_len_cons in Hpos.
    rewrite records_plain;
      [| apply len_boundsheet_body; exact Hc | apply boundsheets_not_continue; assumption].
    rewrite wb_globals_bsheet.
    rewrite (sheet_name_ok pos 0 0 (sh_hb sh) (sh_name sh)); [| lia | lia | reflexivity | exact Hn].
    cbn [obind]. rewrite (IH _ rest _ strings Hl); [| lia | exact Hr].
    rewrite <- app_assoc. reflexivity.
Qed.

Lemma sheets_not_continue : forall shs, starts_continue (flat_map sheet_stream shs) = false.
Proof.
  intros [|sh shs]; [reflexivity|]. cbn [flat_map]. unfold sheet_stream. rewrite <- !app_assoc.
  apply frame_not_continue; [lia | len_small].
Qed.

Lemma wb_sheets_ok : forall shs pre stream tbl,
  stream = pre ++ flat_map sheet_stream shs ->
  forallb legal_sheet shs = true ->
  wb_sheets stream tbl (metas (len pre) shs) =
  Ok (map (fun sh => (nonul (utf16_decode (sh_name sh)),
                      flat_map (cell_text tbl) (sh_cells sh))) shs).
Proof.
  induction shs as [|sh shs IH]; intros pre stream tbl Hst Hl; [reflexivity|].
  cbn [metas wb_sheets map]. cbn [forallb] in Hl. apply andb_true_iff in Hl.
  destruct Hl as [Hs Hl]. unfold legal_sheet in Hs. apply andb_true_iff in Hs.
  destruct Hs as [_ Hcells].
  assert (Hsl : get_from stream (len pre) = Ok (sheet_stream sh ++ flat_map sheet_stream shs)).
  { unfold get_from. subst stream. rewrite len_app.
    replace (len pre <=? len pre + len (flat_map sheet_stream (sh :: shs))) with true by lia.
    rewrite drop_len_app. reflexivity. }
  rewrite Hsl. cbn [obind].
  rewrite (sheet_stream_ok sh _ tbl Hcells (sheets_not_continue shs)). cbn [obind].
  rewrite <- len_app.
  rewrite (IH (pre ++ sheet_stream sh) stream tbl); [reflexivity | | exact Hl].
  subst stream. cbn [flat_map]. rewrite <- app_assoc. reflexivity.
Qed.

Lemma len_boundsheets_indep : forall shs p q, len (boundsheets p shs) = len (boundsheets q shs).
Proof.
  induction shs as [|sh shs IH]; intros p q; [reflexivity|].
  cbn [boundsheets]. rewrite !len_app.
  rewrite (IH (p + len (sheet_stream sh)) (q + len (sheet_stream sh))).
  f_equal.
Qed.
Lemma len_globals_indep : forall cp p q strs lay shs,
  len (globals_stream cp p strs lay shs) = len (globals_stream cp q strs lay shs).
Proof.
  intros. unfold globals_stream. rewrite !len_app. rewrite (len_boundsheets_indep shs p q).
  reflexivity.
Qed.

Lemma conts_of_opt : forall cs : list (list N),
  conts_of (match cs return option (list (list N)) with
            | [] => @None (list (list N))
            | _ :: _ => @Some (list (list N)) cs
            end) = cs.
Proof. destruct cs; reflexivity. Qed.

(* C12 through the whole (reduced) parse_workbook: sheet names and every text cell — LABELSST
   cells resolved through the shared-string table read across its CONTINUE records, LABEL cells,
   formula STRING values — are what the writer stored *)
Theorem wb_strings_ok : forall cp strs lay shs,
  legal_workbook cp strs lay shs = true ->
  wb_strings (workbook_stream cp strs lay shs) = Ok (wb_spec strs shs).
Proof.
  intros cp strs lay shs Hl. unfold legal_workbook in Hl.
  apply andb_true_iff in Hl. destruct Hl as [Hl Hcp].
  apply andb_true_iff in Hl. destruct Hl as [Hl Htot].
  apply andb_true_iff in Hl. destruct Hl as [Hl Hshs].
  apply andb_true_iff in Hl. destruct Hl as [Hl Hconts].
  apply andb_true_iff in Hl. destruct Hl as [Hlay Hdata].
  unfold workbook_stream in *.
  set (g0 := len (globals_stream cp 0 strs lay shs)) in *.
  assert (Hg0 : len (globals_stream cp g0 strs lay shs) = g0)
    by (unfold g0 at 2; apply len_globals_indep).
  assert (Hpos : g0 + sheets_len shs <= 4294967295).
  { rewrite len_app, Hg0 in Htot. unfold sheets_len. lia. }
  unfold wb_strings.
  set (S := flat_map sheet_stream shs) in *.
  set (st := sst_encode strs lay) in *.
  assert (Hglob : wb_globals (records (globals_stream cp g0 strs lay shs ++ S)) [] [] =
                  Ok (metas g0 shs, map utf16_decode strs)).
  { unfold globals_stream. rewrite <- !app_assoc. fold st.
    assert (HncS : starts_continue S = false) by apply sheets_not_continue.
    assert (Hnc_eof : starts_continue (frame 10 [] ++ S) = false)
      by (apply frame_not_continue; [lia | len_small]).
    assert (Hnc_sst : starts_continue (frame_sst st ++ frame 10 [] ++ S) = false).
    { unfold frame_sst. rewrite <- app_assoc. apply frame_not_continue; lia. }
    assert (Hnc_bs : starts_continue (boundsheets g0 shs ++ frame_sst st ++ frame 10 [] ++ S)
                     = false) by (apply boundsheets_not_continue; assumption).
    destruct cp as [v|]; cbn [codepage_rec app].
    2: { rewrite records_plain; [| len_small | exact Hnc_bs]. rewrite wb_globals_bof.
         rewrite (globals_boundsheets shs g0 _ [] [] Hshs Hpos Hnc_sst). cbn [app].
         assert (Hd : len (fst st) <= 65535) by (apply N.leb_le; exact Hdata).
         assert (Hne : frame 10 [] ++ S <> []) by (unfold frame, le16; cbn [app]; discriminate).
         rewrite (records_step _ _ _ (next_record_sst st (frame 10 [] ++ S) Hd Hconts Hne Hnc_eof)).
         rewrite wb_globals_sst.
         rewrite conts_of_opt, pair_eta. unfold st at 1. rewrite (sst_any_split strs lay Hlay).
         cbn [obind].
         rewrite records_plain; [| len_small | exact HncS].
         rewrite wb_globals_eof. reflexivity. }
    rewrite records_plain;
      [| len_small | apply frame_not_continue; [lia | len_small]].
    rewrite wb_globals_bof.
    rewrite records_plain;
      [| len_small | exact Hnc_bs].
    rewrite wb_globals_codepage.
    rewrite (globals_boundsheets shs g0 _ [] [] Hshs Hpos Hnc_sst). cbn [app].
    assert (Hd : len (fst st) <= 65535) by (apply N.leb_le; exact Hdata).
    assert (Hne : frame 10 [] ++ S <> []) by (unfold frame, le16; cbn [app]; discriminate).
    rewrite (records_step _ _ _ (next_record_sst st (frame 10 [] ++ S) Hd Hconts Hne Hnc_eof)).
    rewrite wb_globals_sst.
    rewrite conts_of_opt, pair_eta. unfold st at 1. rewrite (sst_any_split strs lay Hlay). cbn [obind].
    rewrite records_plain; [| len_small | exact HncS].
    rewrite wb_globals_eof. reflexivity. }
  rewrite Hglob. cbn [obind].
  pose proof (wb_sheets_ok shs (globals_stream cp g0 strs lay shs) _ (map utf16_decode strs)
                eq_refl Hshs) as Hs.
  rewrite Hg0 in Hs. fold S in Hs. rewrite Hs. reflexivity.
Qed.

(* The CodePage record of a BIFF8 workbook decides nothing (audit-2 finding XLS-1, repaired):
   at the level of the globals loop — a CodePage record with ANY body of at least two bytes (any
   code page, trailing bytes, CONTINUE records) is skipped — and at the level of whole workbooks —
   two legal workbooks that differ only in the record (its value, or its presence) read
   identically. *)
Lemma wb_globals_codepage_any : forall d c rest sh st, 2 <= len d ->
  wb_globals (Ok (66, d, c) :: rest) sh st = wb_globals rest sh st.
Proof.
  intros d c rest sh st H. cbn [wb_globals]. change (66 =? 47) with false.
  change (66 =? 66) with true. cbv iota.
  replace (len d <? 2) with false by lia. reflexivity.
Qed.

Theorem wb_strings_codepage_irrelevant : forall cp cp' strs lay shs,
  legal_workbook cp strs lay shs = true -> legal_workbook cp' strs lay shs = true ->
  wb_strings (workbook_stream cp strs lay shs) = wb_strings (workbook_stream cp' strs lay shs).
Proof. intros. rewrite !wb_strings_ok by assumption. reflexivity. Qed.

(* ------------------------------------------------------------------------------------- *)
(** * totality: no panic site and no fuel exhaustion is reachable, on any input            *)
(* ------------------------------------------------------------------------------------- *)

Lemma sst_loop_total : forall fuel count st acc, (total_bytes st < fuel)%nat ->
  sst_loop fuel count st acc <> OutOfFuel /\ sst_loop fuel count st acc <> Panic.
Proof.
  induction fuel as [|f IH]; intros count st acc Hf; [lia|].
  cbn [sst_loop]. destruct (count =? 0); [split; discriminate|].
  pose proof (read_string_total st) as [Hr1 Hr2].
  destruct (read_rich_extended_string st) as [[s st']| | |] eqn:E; cbn [obind];
    try congruence; try (split; discriminate).
  apply IH. apply read_string_shrinks in E. lia.
Qed.

(* parse_sst on ANY record body and ANY list of CONTINUE bodies: never a panic, never out of the
   fuel it starts with (1 + bytes of the record and its CONTINUE records), and the capacity it
   reserves before reading is at most a third of those bytes *)
Theorem no_panic_parse_sst : forall data conts,
  parse_sst (data, conts) <> Panic /\
  parse_sst (data, conts) <> OutOfFuel /\
  3 * sst_capacity_request (data, conts) <= N.of_nat (total_bytes (data, conts)).
Proof.
  intros data conts. split; [|split].
  - unfold parse_sst. destruct (len data <? 8) eqn:E8; [discriminate|].
    destruct (read_i32_total (drop 4 data)) as (x & ->); [rewrite len_drop; lia|]. cbn [obind].
    destruct (x <? 0)%Z; [discriminate|]. apply sst_loop_total.
    rewrite !total_bytes_eq. pose proof (length_drop_le _ 8 data). lia.
  - apply sst_fuel_suffices.
  - unfold sst_capacity_request. cbn [fst].
    destruct (read_i32 (drop 4 data)) as [x| | |]; try lia.
    destruct ((len data <? 8) || (x <? 0)%Z); lia.
Qed.

(* the other string readers have no fuel and no panic site at all *)
Theorem no_panic_short_string : forall data,
  parse_short_string data <> Panic /\ parse_short_string data <> OutOfFuel.
Proof.
  intros data. unfold parse_short_string. destruct (len data <? 2); [split; discriminate|].
  destruct (decode_to (drop 1 (drop 1 data)) (nth 0 data 0)
                      (Some (N.odd (nth 0 (drop 1 data) 0)))) as [[? ?] ?].
  split; discriminate.
Qed.
Theorem no_panic_parse_string : forall r,
  parse_string r <> Panic /\ parse_string r <> OutOfFuel.
Proof.
  intros r. unfold parse_string. destruct (len r <? 3) eqn:E; [split; discriminate|].
  destruct (read_u16_total r) as (v & ->); [lia|]. cbn [obind].
  destruct (decode_to (drop 3 r) v (Some (N.odd (nth 2 r 0)))) as [[? ?] ?]. split; discriminate.
Qed.
(* the 0x0207 arm, with or without CONTINUE records *)
Theorem no_panic_string_arm : forall d c,
  string_arm d c <> Panic /\ string_arm d c <> OutOfFuel.
Proof.
  intros d c. unfold string_arm. destruct c as [conts|]; [|apply no_panic_parse_string].
  destruct (len d <? 3) eqn:E; [apply no_panic_parse_string|].
  destruct (read_u16_total d) as (v & ->); [lia|]. cbn [obind].
  pose proof (read_dbcs_total (drop 3 d, conts) v (N.odd (nth 2 d 0))) as [H1 H2].
  destruct (read_dbcs (drop 3 d, conts) v (N.odd (nth 2 d 0))); cbn [obind];
    try congruence; split; discriminate.
Qed.
Theorem no_panic_parse_label : forall r,
  parse_label r <> Panic /\ parse_label r <> OutOfFuel.
Proof.
  intros r. unfold parse_label. destruct (len r <? 6) eqn:E; [split; discriminate|].
  destruct (read_u16_total r) as (row & ->); [lia|]. cbn [obind].
  destruct (read_u16_total (drop 2 r)) as (col & ->); [rewrite len_drop; lia|]. cbn [obind].
  pose proof (no_panic_parse_string (drop 6 r)) as [H1 H2].
  destruct (parse_string (drop 6 r)); cbn [obind]; try congruence; split; discriminate.
Qed.
Theorem no_panic_parse_label_sst : forall r strings,
  parse_label_sst r strings <> Panic /\ parse_label_sst r strings <> OutOfFuel.
Proof.
  intros r strings. unfold parse_label_sst. destruct (len r <? 10) eqn:E; [split; discriminate|].
  destruct (read_u16_total r) as (row & ->); [lia|]. cbn [obind].
  destruct (read_u16_total (drop 2 r)) as (col & ->); [rewrite len_drop; lia|]. cbn [obind].
  destruct (read_u32_total (drop 6 r)) as (i & ->); [rewrite len_drop; lia|]. cbn [obind].
  destruct (nth_error strings (N.to_nat i)) as [s|]; [destruct (is_nil s)|]; split; discriminate.
Qed.
Lemma nth_error_total : forall (l : bytes) i, N.of_nat i < len l -> exists v, nth_error l i = Some v.
Proof.
  intros l i H. destruct (nth_error l i) eqn:E; [eauto|].
  apply nth_error_None in E. unfold len in H. lia.
Qed.
Theorem no_panic_sheet_metadata : forall data,
  parse_sheet_metadata data <> Panic /\ parse_sheet_metadata data <> OutOfFuel.
Proof.
  intros data. unfold parse_sheet_metadata. destruct (len data <? 6) eqn:E; [split; discriminate|].
  destruct (read_u32_total data) as (pos & ->); [lia|]. cbn [obind].
  destruct (nth_error_total data 4) as (vis & ->); [lia|]. cbn [of_option obind].
  destruct (2 <? N.land vis 3); [split; discriminate|].
  destruct (nth_error_total data 5) as (typ & ->); [lia|]. cbn [of_option obind].
  destruct (negb ((typ =? 0) || (typ =? 1) || (typ =? 2) || (typ =? 6))); [split; discriminate|].
  pose proof (no_panic_short_string (drop 6 data)) as [H1 H2].
  destruct (parse_short_string (drop 6 data)); cbn [obind]; try congruence; split; discriminate.
Qed.

(* RecordIter: every step ends with a record, an error or the end of the stream *)
Lemma take_conts_total : forall fuel stream acc, (length stream < fuel)%nat ->
  take_conts fuel stream acc <> Panic /\ take_conts fuel stream acc <> OutOfFuel.
Proof.
  induction fuel as [|f IH]; intros stream acc Hf; [lia|].
  cbn [take_conts]. destruct ((4 <? len stream) && (u16_at stream 0 =? 60)) eqn:E;
    [|split; discriminate].
  destruct (len stream <? u16_at stream 2 + 4) eqn:El; [split; discriminate|].
  apply IH. apply andb_true_iff in E. destruct E as [E _].
  unfold drop, len in *. rewrite skipn_length. lia.
Qed.
Theorem no_panic_next_record : forall stream,
  next_record stream <> Some Panic /\ next_record stream <> Some OutOfFuel.
Proof.
  intros stream. unfold next_record.
  destruct (len stream <? 4); [destruct (is_nil stream); split; discriminate|].
  destruct (len stream <? u16_at stream 2 + 4); [split; discriminate|].
  set (next := drop (u16_at stream 2 + 4) stream).
  destruct ((4 <? len next) && (u16_at next 0 =? 60)); [|split; discriminate].
  pose proof (take_conts_total (S (length next)) next []) as [H1 H2]; [lia|].
  destruct (take_conts (S (length next)) next []) as [[cs rest]| | |]; cbn [obind];
    try congruence; split; discriminate.
Qed.
Lemma records_fuel_total : forall fuel stream, (length stream < fuel)%nat ->
  ~ In Panic (records_fuel fuel stream) /\ ~ In OutOfFuel (records_fuel fuel stream).
Proof.
  induction fuel as [|f IH]; intros stream Hf; [lia|].
  cbn [records_fuel]. pose proof (no_panic_next_record stream) as [H1 H2].
  destruct (next_record stream) as [[[r rest]|e| |]|] eqn:E; try congruence.
  - apply next_record_shrinks in E. destruct (IH rest) as [I1 I2]; [lia|].
    split; intros [H|H]; try discriminate; auto.
  - split; intros [H|[]]; discriminate.
  - split; intros [].
Qed.
(* the records of ANY stream: no panic, and the fuel (1 + length of the stream) suffices *)
Theorem no_panic_record_iter : forall stream,
  next_record stream <> Some Panic /\ next_record stream <> Some OutOfFuel /\
  ~ In Panic (records stream) /\ ~ In OutOfFuel (records stream).
Proof.
  intros stream. destruct (no_panic_next_record stream) as [H1 H2].
  destruct (records_fuel_total (S (length stream)) stream) as [H3 H4]; [lia|].
  repeat split; assumption.
Qed.

(* the reduced parse_workbook, on ANY stream *)
Lemma len_take : forall A n (l : list A), len (take n l) = N.min n (len l).
Proof. intros. unfold len, take. rewrite firstn_length. lia. Qed.

Lemma wb_globals_total : forall recs sheets strings,
  ~ In Panic recs -> ~ In OutOfFuel recs ->
  wb_globals recs sheets strings <> Panic /\ wb_globals recs sheets strings <> OutOfFuel.
Proof.
  induction recs as [|r recs IH]; intros sheets strings HP HF; [split; discriminate|].
  assert (HP' : ~ In Panic recs) by (intros H; apply HP; right; exact H).
  assert (HF' : ~ In OutOfFuel recs) by (intros H; apply HF; right; exact H).
  destruct r as [[[t d] c]|e| |]; cbn [wb_globals].
  - destruct (t =? 47); [split; discriminate|].
    destruct (t =? 66).
    { destruct (len d <? 2) eqn:E; [split; discriminate | apply IH; assumption]. }
    destruct (t =? 2057).
    { destruct (len d <? 2) eqn:E; [split; discriminate|].
      destruct (read_u16_total (take 2 d)) as (v & ->); [rewrite len_take; lia|]. cbn [obind].
      destruct (v =? 1536); [apply IH; assumption | split; discriminate]. }
    destruct (t =? 133).
    { pose proof (no_panic_sheet_metadata d) as [H1 H2].
      destruct (parse_sheet_metadata d); cbn [obind]; try congruence; try (split; discriminate).
      apply IH; assumption. }
    destruct (t =? 252).
    { pose proof (no_panic_parse_sst d (conts_of c)) as (H1 & H2 & _).
      destruct (parse_sst (d, conts_of c)); cbn [obind]; try congruence;
        try (split; discriminate).
      apply IH; assumption. }
    destruct (t =? 10); [split; discriminate|].
    destruct (t =? 34); [destruct (len d <? 2); [split; discriminate | apply IH; assumption]|].
    destruct (t =? 1054); [destruct (len d <? 5); [split; discriminate | apply IH; assumption]|].
    destruct (t =? 224); [destruct (len d <? 4); [split; discriminate | apply IH; assumption]|].
    destruct (t =? 23); [destruct (len d <? 2); [split; discriminate | apply IH; assumption]|].
    destruct (t =? 24); [split; discriminate | apply IH; assumption].
  - split; discriminate.
  - exfalso. apply HP. left. reflexivity.
  - exfalso. apply HF. left. reflexivity.
Qed.

Lemma wb_sheet_total : forall recs strings fp cells dep,
  ~ In Panic recs -> ~ In OutOfFuel recs ->
  wb_sheet recs strings fp cells dep <> Panic /\ wb_sheet recs strings fp cells dep <> OutOfFuel.
Proof.
  induction recs as [|r recs IH]; intros strings fp cells dep HP HF; [split; discriminate|].
  assert (HP' : ~ In Panic recs) by (intros H; apply HP; right; exact H).
  assert (HF' : ~ In OutOfFuel recs) by (intros H; apply HF; right; exact H).
  destruct r as [[[t d] c]|e| |]; cbn [wb_sheet].
  - destruct (t =? 2057); [apply IH; assumption|].
    destruct (1 <? dep); [apply IH; assumption|].
    destruct (t =? 253).
    { pose proof (no_panic_parse_label_sst d strings) as [H1 H2].
      destruct (parse_label_sst d strings); cbn [obind]; try congruence;
        try (split; discriminate).
      apply IH; assumption. }
    destruct (t =? 516).
    { pose proof (no_panic_parse_label d) as [H1 H2].
      destruct (parse_label d); cbn [obind]; try congruence; try (split; discriminate).
      apply IH; assumption. }
    destruct (t =? 519).
    { pose proof (no_panic_string_arm d c) as [H1 H2].
      destruct (string_arm d c); cbn [obind]; try congruence; try (split; discriminate).
      apply IH; assumption. }
    destruct (t =? 6).
    { destruct (len d <? 20) eqn:E; [split; discriminate|].
      destruct (formula_is_string_stub d); [|split; discriminate].
      destruct (read_u16_total d) as (row & ->); [lia|]. cbn [obind].
      destruct (read_u16_total (drop 2 d)) as (col & ->); [rewrite len_drop; lia|]. cbn [obind].
      apply IH; assumption. }
    destruct (t =? 10); [split; discriminate|].
    destruct (t =? 512);
      [destruct ((len d =? 10) || (len d =? 14)); [apply IH; assumption | split; discriminate]|].
    match goal with |- context [if ?b then _ else _] => destruct b end;
      [split; discriminate | apply IH; assumption].
  - split; discriminate.
  - exfalso. apply HP. left. reflexivity.
  - exfalso. apply HF. left. reflexivity.
Qed.

Lemma wb_sheets_total : forall l stream strings,
  wb_sheets stream strings l <> Panic /\ wb_sheets stream strings l <> OutOfFuel.
Proof.
  induction l as [|[pos name] l IH]; intros stream strings; [split; discriminate|].
  cbn [wb_sheets]. unfold get_from. destruct (pos <=? len stream); [|split; discriminate].
  cbn [obind].
  destruct (no_panic_record_iter (drop pos stream)) as (_ & _ & H3 & H4).
  pose proof (wb_sheet_total (records (drop pos stream)) strings (0, 0) [] 0 H3 H4) as [H1 H2].
  destruct (wb_sheet (records (drop pos stream)) strings (0, 0) [] 0); cbn [obind];
    try congruence; try (split; discriminate).
  pose proof (IH stream strings) as [I1 I2].
  destruct (wb_sheets stream strings l); cbn [obind]; try congruence; split; discriminate.
Qed.

Theorem no_panic_wb_strings : forall stream,
  wb_strings stream <> Panic /\ wb_strings stream <> OutOfFuel.
Proof.
  intros stream. unfold wb_strings.
  destruct (no_panic_record_iter stream) as (_ & _ & H3 & H4).
  pose proof (wb_globals_total (records stream) [] [] H3 H4) as [H1 H2].
  destruct (wb_globals (records stream) [] []) as [[sheets strings]| | |]; cbn [obind];
    try congruence; try (split; discriminate).
  apply wb_sheets_total.
Qed.

(* ------------------------------------------------------------------------------------- *)
(** * the former class CutInsidePair; non-vacuity                                         *)
(* ------------------------------------------------------------------------------------- *)

(* "a", U+1F600, "b" stored 16-bit with a cut after the lead surrogate: until read_dbcs kept one
   decoder per string this read as a U+FFFD U+FFFD b (finding F24); 16-bit then 8-bit after a
   dangling lead surrogate: one U+FFFD, then the 8-bit text *)
Definition wit_pair_strs : list ustring := [[97; 55357; 56832; 98]].
Definition wit_pair_lay : layout :=
  mkLay 1 [mkSL false true [(2%nat, true)] None None []].
Lemma former_CutInsidePair_value :
  legal_layout wit_pair_strs wit_pair_lay = true /\
  sst_encode wit_pair_strs wit_pair_lay =
    ([1; 0; 0; 0; 1; 0; 0; 0; 4; 0; 1; 97; 0; 61; 216], [[1; 0; 222; 98; 0]]) /\
  parse_sst (sst_encode wit_pair_strs wit_pair_lay) = Ok [[97; 128512; 98]] /\
  parse_sst (sst_encode [[97; 55357; 98]] (mkLay 1 [mkSL false true [(2%nat, false)] None None []]))
    = Ok [[97; 65533; 98]] /\
  (* the pair cut by two CONTINUE records with an empty segment between its halves *)
  parse_sst (sst_encode wit_pair_strs
               (mkLay 1 [mkSL false true [(2%nat, false); (0%nat, true)] None None []]))
    = Ok [[97; 128512; 98]].
Proof. repeat split; vm_compute; reflexivity. Qed.

(* the 3-byte XLUnicodeString of the empty text reads as the empty text (fix 1abac51) *)
Lemma empty_xl_string_ok :
  parse_string (xl_string false []) = Ok [] /\
  parse_label (label_body 3 7 15 true []) = Ok (Some (3, 7, [])).
Proof. split; vm_compute; reflexivity. Qed.

(* a table exercising every degree of freedom of the layout:
   "héé" + U+1F600 + "z" with 8-bit, 16-bit, empty and 16-bit segments, two formatting runs and a
   5-byte extended block cut three times (once between rgRun and ExtRst bytes, once at offset 0);
   the empty string; a 16-bit string starting with U+FEFF in its own CONTINUE record *)
Definition ex_strs : list ustring :=
  [[104; 233; 233; 55357; 56832; 122]; []; [65279; 20013; 97]].
Definition ex_lay : layout :=
  mkLay 7
    [mkSL false false [(1%nat, true); (2%nat, false); (0%nat, true)]
          (Some [(0, 1); (3, 2)]) (Some [1; 2; 3; 4; 5]) [0%nat; 6%nat; 4%nat];
     mkSL false true [] None None [];
     mkSL true true [(1%nat, true); (1%nat, false)] (Some []) None []].
Lemma example_nonvacuous :
  legal_layout ex_strs ex_lay = true /\
  length (snd (sst_encode ex_strs ex_lay)) = 9%nat /\
  parse_sst (sst_encode ex_strs ex_lay) =
  Ok [[104; 233; 233; 128512; 122]; []; [65279; 20013; 97]].
Proof. repeat split; vm_compute; reflexivity. Qed.

Lemma example_xl_nonvacuous :
  legal_xl_string true [65279; 55357; 56832] = true /\
  legal_short_string false [83; 233] = true /\
  parse_sheet_metadata (boundsheet_body 1234 1 0 true [83; 0; 20013]) = Ok (1234, [83; 20013]).
Proof. repeat split; vm_compute; reflexivity. Qed.

Lemma example_record_iter :
  fits_records (sst_encode ex_strs ex_lay) = true /\
  records (frame_sst (sst_encode ex_strs ex_lay) ++ frame 10 []) =
  [Ok (252, fst (sst_encode ex_strs ex_lay), Some (snd (sst_encode ex_strs ex_lay)));
   Ok (10, [], None)].
Proof. split; vm_compute; reflexivity. Qed.

(* a formula's string result "h", U+1F600, "é", "i": 16-bit in the STRING record up to the lead
   surrogate, the trail surrogate in a 16-bit CONTINUE record, the rest compressed in a second one
   (the STRING record starts 16-bit and goes on compressed); the same with a trailing CONTINUE
   record that holds nothing but its flag byte *)
Lemma example_fstring :
  legal_fstring [104; 55357; 56832; 233; 105] true [(2%nat, true); (1%nat, false)] = true /\
  fstring_encode [104; 55357; 56832; 233; 105] true [(2%nat, true); (1%nat, false)] =
    ([5; 0; 1; 104; 0; 61; 216], [[1; 0; 222]; [0; 233; 105]]) /\
  string_arm [5; 0; 1; 104; 0; 61; 216] (Some [[1; 0; 222]; [0; 233; 105]]) =
    Ok [104; 128512; 233; 105] /\
  string_arm [5; 0; 1; 104; 0; 61; 216] (Some [[1; 0; 222]; [0; 233; 105]; [1]]) =
    Ok [104; 128512; 233; 105] /\
  records (frame_rec 519 (fstring_encode [104; 55357; 56832; 233; 105] true
                            [(2%nat, true); (1%nat, false)]) ++ frame 10 []) =
    [Ok (519, [5; 0; 1; 104; 0; 61; 216], Some [[1; 0; 222]; [0; 233; 105]]); Ok (10, [], None)].
Proof. repeat split; vm_compute; reflexivity. Qed.

(* a whole workbook: two sheets (one name with a NUL and a CJK character), LABELSST cells to every
   string, to the empty string and past the table, a LABEL and a FORMULA+STRING cell *)
Definition ex_sheets : list sheet_spec :=
  [mkSheet true [83; 0; 20013]
           [CSst 0 0 0; CSst 1 2 1; CSst 2 0 2; CSst 3 0 9; CLabel 4 1 false [104; 105];
            CFString 6 2 true [55357; 56832] [];
            CFString 7 1 false [104; 55357; 56832; 233; 105] [(1%nat, true); (1%nat, true); (1%nat, false)]];
   mkSheet false [66] [CSst 5 5 2]].
(* the same workbook under the code pages real BIFF8 writers declare (1200 Excel, 1252 JExcelApi,
   932 / 65001 localised writers), one no decoder table knows (437 is not in the `codepage`
   crate's table; 12345 is no code page at all) and without the record: all legal, all read as the
   same text (wb_strings_ok); the stream with CodePage 1252 does contain the record *)
Definition ex_codepages : list (option N) :=
  [Some 1200; Some 1252; Some 932; Some 65001; Some 437; Some 12345; Some 0; Some 65535; None].
Lemma example_workbook_codepages :
  forallb (fun cp => legal_workbook cp ex_strs ex_lay ex_sheets) ex_codepages = true /\
  Forall (fun cp => wb_strings (workbook_stream cp ex_strs ex_lay ex_sheets)
                    = Ok (wb_spec ex_strs ex_sheets)) ex_codepages /\
  firstn 10 (skipn 20 (workbook_stream (Some 1252) ex_strs ex_lay ex_sheets)) =
    [66; 0; 2; 0; 228; 4; 133; 0; 14; 0].
Proof.
  split; [vm_compute; reflexivity|]. split; [|vm_compute; reflexivity].
  repeat constructor; vm_compute; reflexivity.
Qed.

Lemma example_workbook :
  legal_workbook (Some 1252) ex_strs ex_lay ex_sheets = true /\
  wb_spec ex_strs ex_sheets =
  [([83; 20013], [(0, 0, [104; 233; 233; 128512; 122]); (2, 0, [65279; 20013; 97]);
                  (4, 1, [104; 105]); (6, 2, [128512]); (7, 1, [104; 128512; 233; 105])]);
   ([66], [(5, 5, [65279; 20013; 97])])].
Proof. split; vm_compute; reflexivity. Qed.
