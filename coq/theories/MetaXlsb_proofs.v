(* MetaXlsb_proofs: the xlsb reader's report equals the logical workbook (property C16, xlsb). *)
From Calamine Require Import Prelude BiffSst BiffSst_proofs Meta Meta_proofs MetaXls_proofs.
From Calamine Require Col26 Utf16 Utf16_proofs Ptg Ptg_proofs NumFmt NumFmt_proofs.
Open Scope N_scope.

(* ------------------------------------------------------------------------------------- *)
(** * record framing: type and length varints, fill_buffer *)

Lemma read_type_enc : forall t s, t < 16384 -> read_type (enc_type t ++ s) = Ok (t, s).
Proof.
  intros t s Ht. unfold enc_type, read_type. destruct (t <? 128) eqn:E.
  - cbn [app rd_u8 obind]. replace (128 <=? t) with false by lia. reflexivity.
  - cbn [app rd_u8 obind]. replace (128 <=? t mod 128 + 128) with true by lia.
    cbn [rd_u8 obind]. f_equal. f_equal. lia.
Qed.

Lemma read_len_enc : forall n s, n < 268435456 -> read_len (enc_len n ++ s) = Ok (n, s).
Proof.
  intros n s Hn. unfold enc_len, read_len.
  destruct (n <? 128) eqn:E1.
  { cbn [app rd_u8 obind]. replace (n <? 128) with true by lia. f_equal. f_equal. lia. }
  destruct (n <? 16384) eqn:E2.
  { cbn [app rd_u8 obind]. replace (n mod 128 + 128 <? 128) with false by lia.
    cbn [rd_u8 obind]. replace (n / 128 <? 128) with true by lia. f_equal. f_equal. lia. }
  destruct (n <? 2097152) eqn:E3.
  { cbn [app rd_u8 obind]. replace (n mod 128 + 128 <? 128) with false by lia.
    cbn [rd_u8 obind]. replace ((n / 128) mod 128 + 128 <? 128) with false by lia.
    cbn [rd_u8 obind]. replace (n / 16384 <? 128) with true by lia. f_equal. f_equal. lia. }
  cbn [app rd_u8 obind]. replace (n mod 128 + 128 <? 128) with false by lia.
  cbn [rd_u8 obind]. replace ((n / 128) mod 128 + 128 <? 128) with false by lia.
  cbn [rd_u8 obind]. replace ((n / 16384) mod 128 + 128 <? 128) with false by lia.
  cbn [rd_u8 obind]. f_equal. f_equal. lia.
Qed.

Lemma read_body_enc : forall body rest, len body < 268435456 ->
  read_body (enc_len (len body) ++ body ++ rest) = Ok (body, rest).
Proof.
  intros body rest Hb. unfold read_body. rewrite (read_len_enc _ _ Hb). cbn [obind].
  rewrite len_app. replace (len body + len rest <? len body) with false by lia.
  rewrite take_len_app, drop_len_app. reflexivity.
Qed.

Lemma brec_length : forall t b rest, (S (length rest) <= length (brec t b ++ rest))%nat.
Proof.
  intros t b rest. unfold brec, enc_type. rewrite !app_length.
  destruct (t <? 128); cbn [length]; lia.
Qed.

(* ------------------------------------------------------------------------------------- *)
(** * slices, wide strings *)

Lemma slice_mid : forall (a b c : bytes) from to, from = len a -> to = len a + len b ->
  slice (a ++ b ++ c) from to = Ok b.
Proof.
  intros a b c from to -> ->. unfold slice. rewrite !len_app.
  replace ((len a <=? len a + len b) && (len a + len b <=? len a + (len b + len c))) with true by lia.
  rewrite drop_len_app. replace (len a + len b - len a) with (len b) by lia.
  rewrite take_len_app. reflexivity.
Qed.

Lemma slice_tail : forall (a b : bytes) from to, from = len a -> to = len a + len b ->
  slice (a ++ b) from to = Ok b.
Proof.
  intros a b from to Hf Ht. rewrite <- (app_nil_r b) at 1. rewrite (slice_mid a b [] from to Hf Ht).
  reflexivity.
Qed.

Lemma read_u32_u32le : forall n r, n <= 4294967295 -> read_u32 (Utf16.u32_le n ++ r) = Ok n.
Proof. intros n r H. unfold Utf16.u32_le. cbn [app read_u32]. f_equal. lia. Qed.

Definition wbytes (s : str) : bytes := Utf16.bytes_le_of_units (Utf16.utf16_encode s).

Lemma len_wbytes : forall s, len (wbytes s) = 2 * Utf16.utf16_len s.
Proof.
  intros s. unfold wbytes, len, Utf16.utf16_len. rewrite Utf16_proofs.bytes_le_length. lia.
Qed.

Lemma forallb_scalar : forall s, forallb scalarb s = true -> Forall Utf16.scalar s.
Proof.
  intros s H. apply Forall_forall. intros c Hc. rewrite forallb_forall in H. exact (H c Hc).
Qed.

Lemma enc_decode_wbytes : forall s, forallb scalarb s = true -> enc_decode (wbytes s) = s.
Proof.
  intros s H. change (wbytes s) with (flat_map le16 (Utf16.utf16_encode s)).
  rewrite (enc_decode_le16 _ (encode_units_lt s H)). apply biff_decode_encode. exact H.
Qed.

Lemma wide_str_enc : forall s, forallb scalarb s = true -> Utf16.utf16_len s < 65536 ->
  Utf16.wide_str (Utf16.enc_wide s) = Ok (s, 4 + Utf16.utf16_len s * 2).
Proof.
  intros s H Hl. rewrite <- (app_nil_r (Utf16.enc_wide s)).
  apply Utf16_proofs.wide_str_roundtrip; [apply forallb_scalar; exact H|unfold U32MAX; lia].
Qed.

Lemma len_le32 : forall x, len (le32 x) = 4.
Proof. reflexivity. Qed.
Lemma len_enc_wide : forall s, len (Utf16.enc_wide s) = 4 + 2 * Utf16.utf16_len s.
Proof.
  intros s. unfold Utf16.enc_wide. rewrite len_app. fold (wbytes s). rewrite len_wbytes. reflexivity.
Qed.

Lemma wide_str_m_enc : forall s rest, forallb scalarb s = true -> Utf16.utf16_len s < 65536 ->
  wide_str_m (Utf16.enc_wide s ++ rest) = Ok (s, 4 + Utf16.utf16_len s * 2).
Proof.
  intros s rest H Hl. unfold wide_str_m. rewrite len_app, len_enc_wide.
  replace (4 + 2 * Utf16.utf16_len s + len rest <? 4) with false by lia.
  apply Utf16_proofs.wide_str_roundtrip; [apply forallb_scalar; exact H|unfold U32MAX; lia].
Qed.

(* ------------------------------------------------------------------------------------- *)
(** * BrtBundleSh *)

Lemma bundle_sh_enc : forall l s ch, bs_legal (rels_raw l) s ch = true ->
  bundle_sh (rels_map l) (bundle_body s ch) = Ok (Some (s, s_xl_slash ++ bs_part ch)).
Proof.
  intros l s ch H. unfold bs_legal in H.
  apply andb_true_iff in H. destruct H as [H Hg].
  apply andb_true_iff in H. destruct H as [H Hbom].
  apply andb_true_iff in H. destruct H as [H Hl2].
  apply andb_true_iff in H. destruct H as [H Hl1].
  apply andb_true_iff in H. destruct H as [H Htab].
  apply andb_true_iff in H. destruct H as [H Hrid].
  apply andb_true_iff in H. destruct H as [Hkind Hname].
  destruct (name_ok_parts _ Hname) as [Sn _]. destruct (name_ok_parts _ Hrid) as [Sr _].
  destruct (map_get (bs_rid ch) (rels_raw l)) as [[t ty]|] eqn:Eg0; [|discriminate].
  apply andb_true_iff in Hg. destruct Hg as [Hg1 Hg2].
  apply str_eqb_eq in Hg1. apply str_eqb_eq in Hg2. subst t ty. apply negb_true_iff in Hbom.
  assert (Eg : map_get (bs_rid ch) (rels_map l) = Some (bs_part ch, Some (m_kind s))).
  { rewrite map_get_rels_map, Eg0. cbn [fst snd].
    rewrite (kind_of_rel_type_enc (bs_talt ch) (m_kind s));
      [reflexivity|destruct (m_kind s); try discriminate; reflexivity]. }
  set (rels := rels_map l) in *.
  set (L := Utf16.utf16_len (bs_rid ch)) in *.
  set (A8 := le32 (xlsb_vis_code (m_vis s)) ++ le32 (bs_tabid ch)).
  set (A12 := A8 ++ Utf16.u32_le L).
  set (W2 := Utf16.enc_wide (m_name s)).
  assert (Hb8 : bundle_body s ch = A8 ++ Utf16.u32_le L ++ wbytes (bs_rid ch) ++ W2)
    by (unfold bundle_body, A8, Utf16.enc_wide; rewrite <- !app_assoc; reflexivity).
  assert (Hb12 : bundle_body s ch = A12 ++ wbytes (bs_rid ch) ++ W2)
    by (rewrite Hb8; unfold A12; rewrite <- !app_assoc; reflexivity).
  assert (Hbw : bundle_body s ch = (A12 ++ wbytes (bs_rid ch)) ++ W2)
    by (rewrite Hb12, <- app_assoc; reflexivity).
  assert (HA8 : len A8 = 8) by reflexivity.
  assert (HA12 : len A12 = 12) by reflexivity.
  assert (HL : L < 65536) by lia.
  assert (Hlen : len (bundle_body s ch) = 12 + 2 * L + len W2)
    by (rewrite Hb12, !len_app, HA12, len_wbytes; fold L; lia).
  unfold bundle_sh. rewrite Hlen.
  replace (12 + 2 * L + len W2 <? 12) with false by lia.
  replace (drop 8 (bundle_body s ch)) with (Utf16.u32_le L ++ wbytes (bs_rid ch) ++ W2)
    by (rewrite Hb8, <- HA8, drop_len_app; reflexivity).
  rewrite read_u32_u32le by lia. cbn [obind].
  replace (L =? 4294967295) with false by lia.
  replace (12 + 2 * L + len W2 <? 12 + L * 2) with false by lia.
  replace (take (L * 2) (drop 12 (bundle_body s ch))) with (wbytes (bs_rid ch)).
  2: { rewrite Hb12, <- HA12, drop_len_app. replace (L * 2) with (len (wbytes (bs_rid ch)))
         by (rewrite len_wbytes; fold L; lia). rewrite take_len_app. reflexivity. }
  unfold wbytes at 1. rewrite Hbom. fold (wbytes (bs_rid ch)).
  rewrite (enc_decode_wbytes _ Sr), Eg.
  replace (read_u32 (bundle_body s ch)) with (@Ok N (xlsb_vis_code (m_vis s))).
  2: { unfold bundle_body. rewrite read_u32_le32 by (destruct (m_vis s); cbn; lia). reflexivity. }
  cbn [obind].
  assert (Hv : xlsb_vis (xlsb_vis_code (m_vis s)) = Some (m_vis s)) by (destruct (m_vis s); reflexivity).
  rewrite Hv. cbn [sheet_kind].
  replace (drop (12 + L * 2) (bundle_body s ch)) with (W2 ++ []).
  2: { rewrite Hbw. replace (12 + L * 2) with (len (A12 ++ wbytes (bs_rid ch)))
         by (rewrite len_app, HA12, len_wbytes; fold L; lia).
       rewrite drop_len_app, app_nil_r. reflexivity. }
  unfold W2. rewrite (wide_str_m_enc _ [] Sn) by lia. cbn [obind fst].
  destruct s; reflexivity.
Qed.

(* ------------------------------------------------------------------------------------- *)
(** * first loop of read_workbook *)

Lemma fuel_S : forall n f, (S n <= f)%nat -> exists f0, f = S f0 /\ (n <= f0)%nat.
Proof. intros n [|f0] H; [lia|]. exists f0. split; [reflexivity|lia]. Qed.

Definition loop1_body (f : nat) (rels : rmap) (t : N) (b rest : bytes) (st : parsed)
  : outcome (parsed * bytes) :=
  if t =? 153 then
    match b with
    | [] => Err E_UNREC
    | b0 :: _ => xlsb_loop1 f rels rest (set_1904 st (N.odd b0))
    end
  else if t =? 156 then
    do r <- bundle_sh rels b;
    match r with
    | None => xlsb_loop1 f rels rest st
    | Some (m, path) => xlsb_loop1 f rels rest (add_sheet st m path)
    end
  else if t =? 144 then Ok (st, rest)
  else xlsb_loop1 f rels rest st.

Lemma loop1_rec : forall f rels t b rest st, t < 16384 -> len b < 268435456 ->
  (length (brec t b ++ rest) <= f)%nat ->
  exists f0, (length rest <= f0)%nat /\
    xlsb_loop1 f rels (brec t b ++ rest) st = loop1_body f0 rels t b rest st.
Proof.
  intros f rels t b rest st Ht Hb Hf.
  destruct (fuel_S _ _ (Nat.le_trans _ _ _ (brec_length t b rest) Hf)) as [f0 [-> Hf0]].
  exists f0. split; [exact Hf0|].
  unfold brec. rewrite <- !app_assoc. cbn [xlsb_loop1].
  rewrite (read_type_enc t _ Ht). cbn [obind].
  rewrite (read_body_enc b rest Hb). cbn [obind]. reflexivity.
Qed.

Lemma loop1_junk : forall rels j rest st f, forallb junk1_ok j = true ->
  (length (brecs j ++ rest) <= f)%nat ->
  exists f', (length rest <= f')%nat /\
    xlsb_loop1 f rels (brecs j ++ rest) st = xlsb_loop1 f' rels rest st.
Proof.
  intros rels. induction j as [|[t b] j IH]; intros rest st f Hj Hf.
  - exists f. split; [exact Hf|reflexivity].
  - cbn in Hj. apply andb_true_iff in Hj. destruct Hj as [H1 H2].
    unfold junk1_ok in H1. cbn [fst snd] in H1.
    apply andb_true_iff in H1. destruct H1 as [H1 Hlen].
    apply andb_true_iff in H1. destruct H1 as [Hty Ht].
    apply negb_true_iff in Hty. apply orb_false_iff in Hty. destruct Hty as [Hty E3].
    apply orb_false_iff in Hty. destruct Hty as [E1 E2].
    change (brecs ((t, b) :: j)) with (brec t b ++ brecs j) in *. rewrite <- app_assoc in *.
    destruct (loop1_rec f rels t b (brecs j ++ rest) st ltac:(lia) ltac:(lia) Hf) as [f0 [Hf0 E]].
    rewrite E. unfold loop1_body. rewrite E1, E2, E3. apply IH; assumption.
Qed.

Lemma len_bundle_body : forall rels s ch, bs_legal rels s ch = true ->
  len (bundle_body s ch) < 268435456.
Proof.
  intros rels s ch H. unfold bs_legal in H.
  apply andb_true_iff in H. destruct H as [H _].
  apply andb_true_iff in H. destruct H as [H _].
  apply andb_true_iff in H. destruct H as [H Hl2].
  apply andb_true_iff in H. destruct H as [H Hl1].
  unfold bundle_body. rewrite !len_app, !len_le32, !len_enc_wide. lia.
Qed.

Lemma loop1_sheets : forall l j1 sheets chs rest st f,
  forallb junk1_ok j1 = true -> forallb2 (bs_legal (rels_raw l)) sheets chs = true ->
  (length (flat_map (fun sc => brecs j1 ++ brec 156 (bundle_body (fst sc) (snd sc)))
                    (combine sheets chs) ++ rest) <= f)%nat ->
  exists f', (length rest <= f')%nat /\
    xlsb_loop1 f (rels_map l) (flat_map (fun sc => brecs j1 ++ brec 156 (bundle_body (fst sc) (snd sc)))
                                (combine sheets chs) ++ rest) st =
    xlsb_loop1 f' (rels_map l) rest
      (add_sheets st (map (fun sc => (fst sc, s_xl_slash ++ bs_part (snd sc)))
                          (combine sheets chs))).
Proof.
  intros l j1. set (rels := rels_map l). induction sheets as [|s sheets IH]; intros [|ch chs] rest st f Hj Hl Hf;
    cbn in Hl; try discriminate.
  - exists f. split; [exact Hf|reflexivity].
  - apply andb_true_iff in Hl. destruct Hl as [Hl1 Hl2].
    cbn [combine flat_map map add_sheets fst snd] in *. rewrite <- !app_assoc in *.
    destruct (loop1_junk rels j1 _ st f Hj Hf) as [f1 [Hf1 E1]]. rewrite E1.
    destruct (loop1_rec f1 rels 156 (bundle_body s ch) _
                (st) ltac:(lia) (len_bundle_body (rels_raw l) s ch Hl1) Hf1) as [f2 [Hf2 E2]].
    rewrite E2. unfold loop1_body. change (156 =? 153) with false. change (156 =? 156) with true.
    cbn iota. unfold rels. rewrite (bundle_sh_enc l s ch Hl1). cbn [obind]. fold rels.
    apply IH; assumption.
Qed.

(* the part of workbook.bin after BrtEndBundleShs *)
Definition xlsb_part2 (c : xlsb_choice) (wb : workbook Ptg.expr) : bytes :=
  brecs (bc_junk2 c)
  ++ (match bc_xtis c with
      | [] => []
      | xs => brec 353 [] ++ brecs (link_recs (bc_links c))
              ++ brec 362 (le32 (len xs) ++ flat_map xti_bytes xs) ++ brec 354 []
      end)
  ++ flat_map (fun nh => brecs (bc_junk2 c) ++ brec 39 (name_body (fst nh) (snd nh)))
              (combine (wb_names wb) (bc_name_hdr c))
  ++ brecs (bc_junk2 c) ++ enc_type (bc_end c) ++ bc_tail c.

Lemma len_nil_small : len (@nil N) < 268435456.
Proof. reflexivity. Qed.

Lemma bin_split : forall c wb,
  xlsb_workbook_bin c wb =
  brec 131 [] ++ brecs (bc_junk1 c)
  ++ (if bc_omit_prop c && negb (wb_1904 wb) then []
      else brec 153 ((2 * bc_flags_hi c + b2n (wb_1904 wb)) :: bc_prop_rest c))
  ++ brecs (bc_junk1 c) ++ brec 143 []
  ++ flat_map (fun sc => brecs (bc_junk1 c) ++ brec 156 (bundle_body (fst sc) (snd sc)))
              (combine (wb_sheets wb) (bc_sheets c))
  ++ brecs (bc_junk1 c) ++ brec 144 [] ++ xlsb_part2 c wb.
Proof. reflexivity. Qed.

Theorem xlsb_loop1_encode : forall c wb f,
  xlsb_legal c wb = true -> (length (xlsb_workbook_bin c wb) <= f)%nat ->
  xlsb_loop1 f (rels_map (bc_rels c)) (xlsb_workbook_bin c wb) parsed0 =
  Ok (mkParsed (wb_sheets wb) (xlsb_paths c wb) [] (wb_1904 wb), xlsb_part2 c wb).
Proof.
  intros c wb f Hl Hf. unfold xlsb_legal in Hl.
  apply andb_true_iff in Hl. destruct Hl as [Hl Hend].
  apply andb_true_iff in Hl. destruct Hl as [Hl Hwf].
  apply andb_true_iff in Hl. destruct Hl as [Hl Hhdr].
  apply andb_true_iff in Hl. destruct Hl as [Hl Hnx].
  apply andb_true_iff in Hl. destruct Hl as [Hl Hlk].
  apply andb_true_iff in Hl. destruct Hl as [Hl Hxt].
  apply andb_true_iff in Hl. destruct Hl as [Hl Hrest].
  apply andb_true_iff in Hl. destruct Hl as [Hl Hhi].
  apply andb_true_iff in Hl. destruct Hl as [Hl Hsheets].
  apply andb_true_iff in Hl. destruct Hl as [J1 J2].
  set (rels := rels_map (bc_rels c)) in *.
  rewrite bin_split in *.
  set (R2 := xlsb_part2 c wb) in *. set (j1 := bc_junk1 c) in *.
  (* BrtBeginBook *)
  destruct (loop1_rec f rels 131 [] _ parsed0 ltac:(lia) len_nil_small Hf) as [f1 [Hf1 E1]].
  rewrite E1. unfold loop1_body at 1. cbn [N.eqb]. change (131 =? 153) with false.
  change (131 =? 156) with false. change (131 =? 144) with false. cbn iota.
  destruct (loop1_junk rels j1 _ parsed0 f1 J1 Hf1) as [f2 [Hf2 E2]]. rewrite E2.
  (* BrtWbProp *)
  assert (Hprop : forall rest f2, (length ((if bc_omit_prop c && negb (wb_1904 wb) then []
                     else brec 153 ((2 * bc_flags_hi c + b2n (wb_1904 wb))%N :: bc_prop_rest c)) ++ rest)
                     <= f2)%nat ->
            exists f3, (length rest <= f3)%nat /\
              xlsb_loop1 f2 rels ((if bc_omit_prop c && negb (wb_1904 wb) then []
                     else brec 153 ((2 * bc_flags_hi c + b2n (wb_1904 wb))%N :: bc_prop_rest c)) ++ rest)
                     parsed0 = xlsb_loop1 f3 rels rest (set_1904 parsed0 (wb_1904 wb))).
  { intros rest g Hg. destruct (bc_omit_prop c && negb (wb_1904 wb)) eqn:Eo.
    - exists g. split; [exact Hg|]. apply andb_true_iff in Eo. destruct Eo as [_ Eo].
      apply negb_true_iff in Eo. rewrite Eo. reflexivity.
    - assert (Hlb : len ((2 * bc_flags_hi c + b2n (wb_1904 wb)) :: bc_prop_rest c) < 268435456)
        by (rewrite len_cons; lia).
      destruct (loop1_rec g rels 153 _ rest parsed0 ltac:(lia) Hlb Hg) as [g0 [Hg0 Eg]].
      exists g0. split; [exact Hg0|]. rewrite Eg. unfold loop1_body.
      change (153 =? 153) with true. cbn iota.
      replace (N.odd (2 * bc_flags_hi c + b2n (wb_1904 wb))) with (wb_1904 wb); [reflexivity|].
      destruct (wb_1904 wb); cbn [b2n]; [rewrite N.add_comm, N.odd_add_mul_2|rewrite N.add_0_r, N.odd_mul, andb_false_l];
        reflexivity. }
  destruct (Hprop _ f2 Hf2) as [f3 [Hf3 E3]]. rewrite E3.
  destruct (loop1_junk rels j1 _ (set_1904 parsed0 (wb_1904 wb)) f3 J1 Hf3) as [f4 [Hf4 E4]].
  rewrite E4.
  destruct (loop1_rec f4 rels 143 [] _ (set_1904 parsed0 (wb_1904 wb)) ltac:(lia) len_nil_small Hf4)
    as [f5 [Hf5 E5]].
  rewrite E5. unfold loop1_body at 1. change (143 =? 153) with false.
  change (143 =? 156) with false. change (143 =? 144) with false. cbn iota.
  destruct (loop1_sheets (bc_rels c) j1 (wb_sheets wb) (bc_sheets c) _ (set_1904 parsed0 (wb_1904 wb)) f5
              J1 Hsheets Hf5) as [f6 [Hf6 E6]].
  fold rels in E6. rewrite E6.
  match goal with |- xlsb_loop1 _ _ _ ?s = _ =>
    destruct (loop1_junk rels j1 _ s f6 J1 Hf6) as [f7 [Hf7 E7]]; rewrite E7;
    destruct (loop1_rec f7 rels 144 [] R2 s ltac:(lia) len_nil_small Hf7) as [f8 [Hf8 E8]];
    rewrite E8
  end. unfold loop1_body. change (144 =? 153) with false. change (144 =? 156) with false.
  change (144 =? 144) with true. cbn iota.
  rewrite add_sheets_eq. cbn [set_1904 parsed0 p_sheets p_paths p_names p_1904 app].
  f_equal. f_equal. f_equal.
  - rewrite map_map. cbn [fst]. rewrite <- (map_map fst (fun x => x)), map_id.
    apply combine_map_fst. apply (forallb2_length _ _ _ _ _ Hsheets).
  - unfold xlsb_paths. rewrite map_map. reflexivity.
Qed.

(* ------------------------------------------------------------------------------------- *)
(** * second loop of read_workbook *)

Section Loop2.
Variable show_f64 : N -> list N.

Lemma loop2_skip : forall f t b rest sheets ext names,
  t < 16384 -> len b < 268435456 ->
  (t =? 362) = false -> (t =? 39) = false -> is_end_type t = false ->
  (length (brec t b ++ rest) <= f)%nat ->
  exists f0, (length rest <= f0)%nat /\
    xlsb_loop2 show_f64 f (brec t b ++ rest) sheets ext names =
    xlsb_loop2 show_f64 f0 rest sheets ext names.
Proof.
  intros f t b rest sheets ext names Ht Hb E1 E2 E3 Hf.
  destruct (fuel_S _ _ (Nat.le_trans _ _ _ (brec_length t b rest) Hf)) as [f0 [-> Hf0]].
  exists f0. split; [exact Hf0|].
  unfold brec. rewrite <- !app_assoc. cbn [xlsb_loop2].
  rewrite (read_type_enc t _ Ht). cbn [obind]. rewrite E1, E2, E3.
  rewrite (read_body_enc b rest Hb). reflexivity.
Qed.

Lemma loop2_junk : forall j rest sheets ext names f, forallb junk2_ok j = true ->
  (length (brecs j ++ rest) <= f)%nat ->
  exists f', (length rest <= f')%nat /\
    xlsb_loop2 show_f64 f (brecs j ++ rest) sheets ext names =
    xlsb_loop2 show_f64 f' rest sheets ext names.
Proof.
  induction j as [|[t b] j IH]; intros rest sheets ext names f Hj Hf.
  - exists f. split; [exact Hf|reflexivity].
  - cbn in Hj. apply andb_true_iff in Hj. destruct Hj as [H1 H2].
    unfold junk2_ok in H1. cbn [fst snd] in H1.
    apply andb_true_iff in H1. destruct H1 as [H1 Hlen].
    apply andb_true_iff in H1. destruct H1 as [Hty Ht].
    apply negb_true_iff in Hty. apply orb_false_iff in Hty. destruct Hty as [Hty E3].
    apply orb_false_iff in Hty. destruct Hty as [E1 E2].
    change (brecs ((t, b) :: j)) with (brec t b ++ brecs j) in *. rewrite <- app_assoc in *.
    destruct (loop2_skip f t b (brecs j ++ rest) sheets ext names ltac:(lia) ltac:(lia) E1 E2 E3 Hf)
      as [f0 [Hf0 E]].
    rewrite E. apply IH; assumption.
Qed.

Lemma end_type_facts : forall e, is_end_type e = true ->
  e < 16384 /\ (e =? 362) = false /\ (e =? 39) = false.
Proof.
  intros e H. unfold is_end_type in H.
  repeat (apply orb_true_iff in H; destruct H as [H|H]);
    apply N.eqb_eq in H; subst e; repeat split; reflexivity.
Qed.

Lemma loop2_end : forall f e tail sheets ext names, is_end_type e = true ->
  (length (enc_type e ++ tail) <= f)%nat ->
  xlsb_loop2 show_f64 f (enc_type e ++ tail) sheets ext names = decode_names show_f64 ext names.
Proof.
  intros f e tail sheets ext names He Hf.
  destruct (end_type_facts e He) as [H1 [H2 H3]].
  assert (Hpos : (1 <= length (enc_type e ++ tail))%nat)
    by (unfold enc_type; destruct (e <? 128); cbn [app length]; lia).
  destruct f as [|f0]; [lia|]. cbn [xlsb_loop2].
  rewrite (read_type_enc e tail H1). cbn [obind]. rewrite H2, H3, He. reflexivity.
Qed.

(* BrtExternSheet *)
Lemma chunks_aux_blocks : forall (xs : list (N * N * N)) rest fuel,
  (length (flat_map xti_bytes xs ++ rest) <= fuel)%nat ->
  chunks_aux fuel 12 (flat_map xti_bytes xs ++ rest) =
  map xti_bytes xs ++ chunks_aux (fuel - length xs) 12 rest.
Proof.
  induction xs as [|x xs IH]; intros rest fuel Hf.
  - cbn [flat_map app map length]. rewrite Nat.sub_0_r. reflexivity.
  - cbn [flat_map map] in *. rewrite <- app_assoc in *.
    assert (Hx : length (xti_bytes x) = 12%nat) by reflexivity.
    rewrite app_length, Hx in Hf.
    destruct fuel as [|fuel]; [lia|].
    cbn [chunks_aux].
    destruct (xti_bytes x ++ flat_map xti_bytes xs ++ rest) eqn:E.
    { assert (length (xti_bytes x ++ flat_map xti_bytes xs ++ rest) = 0%nat) by (rewrite E; reflexivity).
      rewrite app_length, Hx in H. lia. }
    rewrite <- E.
    rewrite (@Utf16_proofs.firstn_app_exact _ (xti_bytes x) _ 12%nat (eq_sym Hx)).
    replace (skipn 12 (xti_bytes x ++ flat_map xti_bytes xs ++ rest))
      with (flat_map xti_bytes xs ++ rest)
      by (rewrite skipn_app, Hx, Nat.sub_diag, skipn_all2 by lia; reflexivity).
    rewrite IH by lia. cbn [app length]. reflexivity.
Qed.

Lemma chunks_exact_blocks : forall (xs : list (N * N * N)),
  chunks_exact 12 (flat_map xti_bytes xs) = map xti_bytes xs.
Proof.
  intros xs. unfold chunks_exact, chunks.
  rewrite <- (app_nil_r (flat_map xti_bytes xs)) at 2.
  rewrite chunks_aux_blocks by (rewrite app_nil_r; lia).
  replace (chunks_aux (length (flat_map xti_bytes xs) - length xs) 12 []) with (@nil bytes)
    by (destruct (length (flat_map xti_bytes xs) - length xs)%nat; reflexivity).
  rewrite app_nil_r.
  induction xs as [|x xs IH]; [reflexivity|]. cbn [map filter].
  change (Nat.eqb (length (xti_bytes x)) 12) with true. cbn iota. f_equal. exact IH.
Qed.

Lemma nthN_some : forall (A : Type) (l : list A) i, i < len l -> exists x, nthN l i = Some x.
Proof.
  intros A. induction l as [|a l IH]; intros i Hi.
  - unfold len in Hi. cbn in Hi. lia.
  - cbn [nthN]. destruct (i =? 0) eqn:E; [eexists; reflexivity|].
    apply IH. rewrite len_cons in Hi. lia.
Qed.

Lemma xti_names_enc : forall links sheets (xs : list (N * N * N)),
  forallb (xti_legal links (len sheets)) xs = true ->
  map_o (xti_name sheets) (map xti_bytes xs) = Ok (spec_ext sheets xs).
Proof.
  intros links sheets. induction xs as [|x xs IH]; intros H; [reflexivity|].
  cbn [forallb] in H. apply andb_true_iff in H. destruct H as [H1 H2].
  cbn [map map_o spec_ext]. rewrite (IH H2).
  destruct x as [[a b] c]. unfold xti_legal in H1. cbn [fst snd] in *.
  apply andb_true_iff in H1. destruct H1 as [H1 _].
  apply andb_true_iff in H1. destruct H1 as [H1 Hc].
  apply andb_true_iff in H1. destruct H1 as [H1 Hcs].
  apply andb_true_iff in H1. destruct H1 as [H1 Hb2].
  apply andb_true_iff in H1. destruct H1 as [Ha Hb].
  unfold xti_name, xti_bytes. cbn [fst snd].
  change (drop 4 (le32 a ++ le32 b ++ le32 c)) with (le32 b ++ le32 c).
  rewrite read_i32_le32 by lia. cbn [obind].
  change (drop 8 (le32 a ++ le32 b ++ le32 c)) with (le32 c ++ []).
  rewrite read_i32_le32 by lia. cbn [obind].
  replace (Z.of_N b =? -2)%Z with false by lia. replace (Z.of_N b =? -1)%Z with false by lia.
  replace (0 <=? Z.of_N b)%Z with true by lia. replace (0 <=? Z.of_N c)%Z with true by lia. rewrite !N2Z.id.
  destruct (nthN_some _ sheets b ltac:(lia)) as [nm Hn]. rewrite Hn.
  destruct (nthN_some _ sheets c ltac:(lia)) as [nl Hl]. rewrite Hl.
  rewrite andb_true_r.
  destruct (b =? c) eqn:E.
  - apply N.eqb_eq in E. subst c. rewrite Z.eqb_refl. cbn [negb].
    rewrite Ptg_proofs.quote_sheet_name_spec. reflexivity.
  - apply N.eqb_neq in E. replace (Z.of_N c =? Z.of_N b)%Z with false by lia. cbn [negb].
    rewrite Ptg_proofs.quote_sheet_span_spec. reflexivity.
Qed.

Lemma len_xti_blocks : forall xs : list (N * N * N), len (flat_map xti_bytes xs) = 12 * len xs.
Proof.
  induction xs as [|x xs IH]; [reflexivity|]. cbn [flat_map]. rewrite len_app, IH, len_cons.
  change (len (xti_bytes x)) with 12. lia.
Qed.

Lemma firstN_all : forall (A : Type) (l : list A) n, n = len l -> firstN n l = l.
Proof.
  intros A l n ->. unfold firstN. rewrite N.min_id, to_nat_len. apply firstn_all.
Qed.

Lemma len_map : forall (A B : Type) (f : A -> B) l, len (map f l) = len l.
Proof. intros. unfold len. rewrite map_length. reflexivity. Qed.

Lemma loop2_extern : forall links f (xs : list (N * N * N)) rest sheets ext names,
  forallb (xti_legal links (len sheets)) xs = true -> len xs < 1000000 ->
  (length (brec 362 (le32 (len xs) ++ flat_map xti_bytes xs) ++ rest) <= f)%nat ->
  exists f0, (length rest <= f0)%nat /\
    xlsb_loop2 show_f64 f (brec 362 (le32 (len xs) ++ flat_map xti_bytes xs) ++ rest)
               sheets ext names =
    xlsb_loop2 show_f64 f0 rest sheets (spec_ext sheets xs) names.
Proof.
  intros links f xs rest sheets ext names Hx Hn Hf.
  destruct (fuel_S _ _ (Nat.le_trans _ _ _ (brec_length _ _ rest) Hf)) as [f0 [-> Hf0]].
  exists f0. split; [exact Hf0|].
  assert (Hlen : len (le32 (len xs) ++ flat_map xti_bytes xs) = 4 + 12 * len xs)
    by (rewrite len_app, len_xti_blocks; reflexivity).
  set (d := le32 (len xs) ++ flat_map xti_bytes xs) in *.
  assert (Hd : len d < 268435456) by (rewrite Hlen; lia).
  unfold brec. rewrite <- !app_assoc. cbn [xlsb_loop2].
  rewrite (read_type_enc 362 _ ltac:(lia)). cbn [obind].
  change (362 =? 362) with true. cbn iota.
  rewrite (read_body_enc d rest Hd). cbn [obind].
  rewrite Hlen. replace (4 + 12 * len xs <? 4) with false by lia.
  unfold d. rewrite read_u32_le32 by lia. cbn [obind].
  change (drop 4 (le32 (len xs) ++ flat_map xti_bytes xs)) with (flat_map xti_bytes xs).
  rewrite chunks_exact_blocks, (firstN_all _ _ _ (eq_sym (len_map _ _ xti_bytes xs))).
  rewrite (xti_names_enc links sheets xs Hx). reflexivity.
Qed.

Definition name_env (ext : list str) (all : list str) : Ptg.xlsb_env :=
  Ptg.Build_xlsb_env ext all None.

Lemma brt_name_enc : forall n e h,
  name_ok n = true ->
  Utf16.utf16_len n < 65536 -> len (Ptg.encode_xlsb e) < 268435456 -> hdr_legal h = true ->
  brt_name (name_body (n, e) h) = Ok (n, Ptg.encode_xlsb e).
Proof.
  intros n e h Hn Hl Hr Hh.
  destruct (name_ok_parts n Hn) as [Sn _].
  destruct h as [[fl key] itab]. unfold hdr_legal in Hh. cbn [fst snd] in Hh.
  apply andb_true_iff in Hh. destruct Hh as [Hh H3]. apply andb_true_iff in Hh. destruct Hh as [H1 H2].
  set (rgce := Ptg.encode_xlsb e) in *.
  set (A9 := le32 fl ++ [key] ++ le32 itab).
  set (T8 := le32 0 ++ le32 4294967295).
  set (L := Utf16.utf16_len n) in *.
  assert (Hd1 : name_body (n, e) (fl, key, itab) =
                A9 ++ Utf16.enc_wide n ++ le32 (len rgce) ++ rgce ++ T8)
    by (unfold name_body, A9, T8; cbn [fst snd]; rewrite <- !app_assoc; reflexivity).
  assert (HA9 : len A9 = 9) by reflexivity.
  assert (HT8 : len T8 = 8) by reflexivity.
  assert (Hlen : len (name_body (n, e) (fl, key, itab)) = 9 + (4 + 2 * L) + 4 + len rgce + 8)
    by (rewrite Hd1, !len_app, HA9, HT8, len_enc_wide, len_le32; fold L; lia).
  unfold brt_name. rewrite Hlen.
  replace (9 + (4 + 2 * L) + 4 + len rgce + 8 <? 9) with false by lia.
  replace (drop 9 (name_body (n, e) (fl, key, itab)))
    with (Utf16.enc_wide n ++ le32 (len rgce) ++ rgce ++ T8)
    by (rewrite Hd1, <- HA9, drop_len_app; reflexivity).
  rewrite (wide_str_m_enc n _ Sn Hl). cbn [obind]. fold L.
  replace (9 + (4 + 2 * L) + 4 + len rgce + 8 <? 13 + (4 + L * 2)) with false by lia.
  replace (drop (9 + (4 + L * 2)) (name_body (n, e) (fl, key, itab)))
    with (le32 (len rgce) ++ rgce ++ T8).
  2: { rewrite Hd1, (app_assoc A9 (Utf16.enc_wide n)).
       replace (9 + (4 + L * 2)) with (len (A9 ++ Utf16.enc_wide n))
         by (rewrite len_app, HA9, len_enc_wide; fold L; lia).
       rewrite drop_len_app. reflexivity. }
  rewrite read_u32_le32 by lia. cbn [obind].
  replace (9 + (4 + 2 * L) + 4 + len rgce + 8 <? 13 + (4 + L * 2) + len rgce) with false by lia.
  replace (take (len rgce) (drop (13 + (4 + L * 2)) (name_body (n, e) (fl, key, itab)))) with rgce.
  2: { rewrite Hd1.
       replace (A9 ++ Utf16.enc_wide n ++ le32 (len rgce) ++ rgce ++ T8)
         with ((A9 ++ Utf16.enc_wide n ++ le32 (len rgce)) ++ rgce ++ T8)
         by (rewrite <- !app_assoc; reflexivity).
       replace (13 + (4 + L * 2)) with (len (A9 ++ Utf16.enc_wide n ++ le32 (len rgce)))
         by (rewrite !len_app, HA9, len_enc_wide, len_le32; fold L; lia).
       rewrite drop_len_app, take_len_app. reflexivity. }
  reflexivity.
Qed.

Lemma len_name_body : forall n e h, Utf16.utf16_len n < 65536 ->
  len (Ptg.encode_xlsb e) < 268435456 - 200000 -> len (name_body (n, e) h) < 268435456.
Proof.
  intros n e [[fl key] itab] Hl Hr. unfold name_body. cbn [fst snd].
  rewrite !len_app, !len_le32, len_enc_wide. change (len [key]) with 1. lia.
Qed.

Definition raw_name (ne : str * Ptg.expr) : str * bytes := (fst ne, Ptg.encode_xlsb (snd ne)).

Lemma loop2_name_rec : forall f n e h rest sheets ext names,
  name_ok n = true ->
  Utf16.utf16_len n < 65536 -> len (Ptg.encode_xlsb e) < 268000000 -> hdr_legal h = true ->
  (length (brec 39 (name_body (n, e) h) ++ rest) <= f)%nat ->
  exists f0, (length rest <= f0)%nat /\
    xlsb_loop2 show_f64 f (brec 39 (name_body (n, e) h) ++ rest) sheets ext names =
    xlsb_loop2 show_f64 f0 rest sheets ext (names ++ [(n, Ptg.encode_xlsb e)]).
Proof.
  intros f n e h rest sheets ext names Hn Hl Hr Hh Hf.
  destruct (fuel_S _ _ (Nat.le_trans _ _ _ (brec_length _ _ rest) Hf)) as [f0 [-> Hf0]].
  exists f0. split; [exact Hf0|].
  set (d := name_body (n, e) h) in *.
  assert (Hd : len d < 268435456) by (apply len_name_body; lia).
  unfold brec. rewrite <- !app_assoc. cbn [xlsb_loop2].
  rewrite (read_type_enc 39 _ ltac:(lia)). cbn [obind].
  change (39 =? 362) with false. change (39 =? 39) with true. cbn iota.
  rewrite (read_body_enc d rest Hd). cbn [obind]. unfold d.
  rewrite (brt_name_enc n e h Hn Hl ltac:(lia) Hh). reflexivity.
Qed.

Lemma loop2_names : forall j2 sheets ext all l hdrs acc rest f,
  forallb junk2_ok j2 = true ->
  forallb2 (fun (_ : str * Ptg.expr) h => hdr_legal h) l hdrs = true ->
  forallb (name_wf_in ext all) l = true ->
  (length (flat_map (fun nh => brecs j2 ++ brec 39 (name_body (fst nh) (snd nh)))
                    (combine l hdrs) ++ rest) <= f)%nat ->
  exists f', (length rest <= f')%nat /\
    xlsb_loop2 show_f64 f
      (flat_map (fun nh => brecs j2 ++ brec 39 (name_body (fst nh) (snd nh))) (combine l hdrs)
       ++ rest) sheets ext acc =
    xlsb_loop2 show_f64 f' rest sheets ext (acc ++ map raw_name l).
Proof.
  intros j2 sheets ext all. induction l as [|[n e] l IH]; intros [|h hdrs] acc rest f Hj Hh Hwf Hf;
    cbn in Hh; try discriminate.
  - exists f. split; [exact Hf|]. cbn [combine flat_map app map]. rewrite app_nil_r.
    reflexivity.
  - apply andb_true_iff in Hh. destruct Hh as [Hh1 Hh2].
    cbn [forallb] in Hwf.
    apply andb_true_iff in Hwf. destruct Hwf as [Hwf Hrest].
    unfold name_wf_in in Hwf. cbn [fst snd] in Hwf.
    apply andb_true_iff in Hwf. destruct Hwf as [Hwf Hlr].
    apply andb_true_iff in Hwf. destruct Hwf as [Hwf Hll].
    apply andb_true_iff in Hwf. destruct Hwf as [Hwe Hnn].
    cbn [combine flat_map fst snd map] in *. rewrite <- !app_assoc in *.
    destruct (loop2_junk j2 _ sheets ext acc f Hj Hf) as [f1 [Hf1 E1]]. rewrite E1.
    destruct (loop2_name_rec f1 n e h _ sheets ext acc Hnn ltac:(lia) ltac:(lia) Hh1 Hf1)
      as [f2 [Hf2 E2]].
    rewrite E2.
    destruct (IH hdrs (acc ++ [(n, Ptg.encode_xlsb e)]) rest f2 Hj Hh2 Hrest Hf2) as [f3 [Hf3 E3]].
    exists f3. split; [exact Hf3|]. rewrite E3. unfold raw_name at 2. cbn [fst snd].
    rewrite <- app_assoc. reflexivity.
Qed.

(* the decoding at the end: every name against the whole table *)
Lemma decode_names_enc : forall ext l,
  names_wf_xlsb ext l = true ->
  decode_names show_f64 ext (map raw_name l) = Ok (spec_names_xlsb show_f64 ext l).
Proof.
  intros ext l Hwf. unfold decode_names, spec_names_xlsb, names_wf_xlsb in *.
  assert (Hfst : map fst (map raw_name l) = map fst l) by (rewrite map_map; reflexivity).
  rewrite Hfst. generalize (map fst l) as all, Hwf. clear Hfst Hwf.
  induction l as [|[n e] l IH]; intros all Hwf; [reflexivity|].
  cbn [forallb] in Hwf. apply andb_true_iff in Hwf. destruct Hwf as [Hne Hrest].
  unfold name_wf_in in Hne. cbn [fst snd] in Hne.
  apply andb_true_iff in Hne. destruct Hne as [Hne _]. apply andb_true_iff in Hne. destruct Hne as [Hne _].
  apply andb_true_iff in Hne. destruct Hne as [Hwe _].
  cbn [map map_o raw_name fst snd spec_names_in].
  rewrite (Ptg_proofs.rpn_correct_xlsb show_f64 _ e Hwe). cbn [obind].
  rewrite (IH all Hrest). reflexivity.
Qed.
End Loop2.


(* ------------------------------------------------------------------------------------- *)
(** * the whole workbook part *)

Lemma paths_names : forall c wb, length (wb_sheets wb) = length (bc_sheets c) ->
  map fst (xlsb_paths c wb) = map m_name (wb_sheets wb).
Proof.
  intros c wb H. unfold xlsb_paths. rewrite map_map. cbn [fst].
  rewrite <- (map_map fst m_name). rewrite (combine_map_fst _ _ _ _ H). reflexivity.
Qed.

Theorem xlsb_parse_encode : forall show_f64 c wb,
  xlsb_legal c wb = true ->
  xlsb_read_workbook show_f64 (rels_map (bc_rels c)) (xlsb_workbook_bin c wb) =
  Ok (mkParsed (wb_sheets wb) (xlsb_paths c wb)
               (spec_names_xlsb show_f64 (spec_ext (map m_name (wb_sheets wb)) (bc_xtis c))
                                (wb_names wb))
               (wb_1904 wb)).
Proof.
  intros show_f64 c wb Hl. unfold xlsb_read_workbook.
  rewrite (xlsb_loop1_encode c wb _ Hl (Nat.le_succ_diag_r _)). cbn [obind p_paths].
  unfold xlsb_legal in Hl.
  apply andb_true_iff in Hl. destruct Hl as [Hl Hend].
  apply andb_true_iff in Hl. destruct Hl as [Hl Hwf].
  apply andb_true_iff in Hl. destruct Hl as [Hl Hhdr].
  apply andb_true_iff in Hl. destruct Hl as [Hl Hnx].
  apply andb_true_iff in Hl. destruct Hl as [Hl Hlk].
  apply andb_true_iff in Hl. destruct Hl as [Hl Hxt].
  apply andb_true_iff in Hl. destruct Hl as [Hl Hrest].
  apply andb_true_iff in Hl. destruct Hl as [Hl Hhi].
  apply andb_true_iff in Hl. destruct Hl as [Hl Hsheets].
  apply andb_true_iff in Hl. destruct Hl as [J1 J2].
  rewrite (paths_names c wb (forallb2_length _ _ _ _ _ Hsheets)).
  set (sheets := map m_name (wb_sheets wb)) in *.
  assert (Hxt' : forallb (xti_legal (map fst (bc_links c)) (len sheets)) (bc_xtis c) = true)
    by (unfold sheets; rewrite len_map; exact Hxt).
  assert (JL : forallb junk2_ok (link_recs (bc_links c)) = true).
  { clear - Hlk. induction (bc_links c) as [|[l b] t IH]; [reflexivity|].
    cbn [forallb snd] in Hlk. apply andb_true_iff in Hlk. destruct Hlk as [Hb Ht].
    cbn [link_recs map forallb]. fold (link_recs t). rewrite (IH Ht), andb_true_r.
    unfold junk2_ok. cbn [fst snd]. rewrite Hb, andb_true_r. destruct l; reflexivity. }
  set (j2 := bc_junk2 c) in *.
  assert (Hgoal : forall f, (length (xlsb_part2 c wb) <= f)%nat ->
    xlsb_loop2 show_f64 f (xlsb_part2 c wb) sheets [] [] =
    Ok (spec_names_xlsb show_f64 (spec_ext sheets (bc_xtis c)) (wb_names wb))).
  { intros f Hf. unfold xlsb_part2 in *. fold j2 in Hf |- *.
    destruct (loop2_junk show_f64 j2 _ sheets [] [] f J2 Hf) as [f1 [Hf1 E1]]. rewrite E1.
    (* the externals *)
    assert (Hext : forall rest g, (length ((match bc_xtis c with
                      | [] => []
                      | xs => brec 353 [] ++ brecs (link_recs (bc_links c))
                              ++ brec 362 (le32 (len xs) ++ flat_map xti_bytes xs) ++ brec 354 []
                      end) ++ rest) <= g)%nat ->
              exists g', (length rest <= g')%nat /\
                xlsb_loop2 show_f64 g ((match bc_xtis c with
                      | [] => []
                      | xs => brec 353 [] ++ brecs (link_recs (bc_links c))
                              ++ brec 362 (le32 (len xs) ++ flat_map xti_bytes xs) ++ brec 354 []
                      end) ++ rest) sheets [] [] =
                xlsb_loop2 show_f64 g' rest sheets (spec_ext sheets (bc_xtis c)) []).
    { intros rest g Hg. destruct (bc_xtis c) as [|x xs] eqn:Ex.
      - exists g. split; [exact Hg|reflexivity].
      - rewrite <- !app_assoc in *.
        destruct (loop2_skip show_f64 g 353 [] _ sheets [] [] ltac:(lia) len_nil_small
                    eq_refl eq_refl eq_refl Hg) as [g1 [Hg1 G1]]. rewrite G1.
        destruct (loop2_junk show_f64 (link_recs (bc_links c)) _ sheets [] [] g1 JL Hg1) as [g2 [Hg2 G2]]. rewrite G2.
        destruct (loop2_extern show_f64 (map fst (bc_links c)) g2 (x :: xs) _ sheets [] [] Hxt' ltac:(lia) Hg2)
          as [g3 [Hg3 G3]]. rewrite G3.
        destruct (loop2_skip show_f64 g3 354 [] rest sheets (spec_ext sheets (x :: xs)) []
                    ltac:(lia) len_nil_small eq_refl eq_refl eq_refl Hg3) as [g4 [Hg4 G4]].
        rewrite G4. exists g4. split; [exact Hg4|reflexivity]. }
    destruct (Hext _ f1 Hf1) as [f2 [Hf2 E2]]. etransitivity; [apply E2|].
    destruct (loop2_names show_f64 j2 sheets (spec_ext sheets (bc_xtis c)) (map fst (wb_names wb)) (wb_names wb)
                (bc_name_hdr c) [] _ f2 J2 Hhdr Hwf Hf2) as [f3 [Hf3 E3]].
    rewrite E3. cbn [app map].
    destruct (loop2_junk show_f64 j2 _ sheets (spec_ext sheets (bc_xtis c))
                (map raw_name (wb_names wb)) f3 J2 Hf3)
      as [f4 [Hf4 E4]].
    rewrite E4. rewrite loop2_end by assumption. apply decode_names_enc. exact Hwf. }
  rewrite (Hgoal _ (Nat.le_succ_diag_r _)). reflexivity.
Qed.

(* the relationships part as the xlsb reader sees it (exact element name, runs to Eof) *)
Definition junk_ok_brels (e : event) : bool :=
  match e with Start n _ => negb (str_eqb n k_Relationship) | _ => true end.

Lemma brels_skip : forall j rest m, forallb junk_ok_brels j = true ->
  xlsb_read_relationships (j ++ rest) m = xlsb_read_relationships rest m.
Proof.
  induction j as [|e j IH]; intros rest m H; [reflexivity|].
  cbn in H. apply andb_true_iff in H. destruct H as [H1 H2].
  destruct e as [n a|n|s|s|]; cbn [app xlsb_read_relationships]; try (apply IH; exact H2).
  cbn in H1. apply negb_true_iff in H1. rewrite H1. apply IH. exact H2.
Qed.

Theorem xlsb_rels_roundtrip : forall junk l, forallb junk_ok_brels junk = true ->
  xlsb_read_relationships (xlsb_rels_events junk l) [] = rels_map l.
Proof.
  intros junk l Hj. unfold xlsb_rels_events, rels_events, rels_map. cbn [app qn].
  cbn [xlsb_read_relationships]. change (str_eqb k_Relationships k_Relationship) with false.
  cbn iota.
  assert (Hgen : forall (l : list (str * (str * str))) m rest,
    xlsb_read_relationships
      (flat_map (fun it : str * (str * str) => junk ++ [Start k_Relationship
                                         [(a_Id, fst it); (a_Type, snd (snd it));
                                          (a_Target, fst (snd it))];
                                   End k_Relationship]) l ++ rest) m
    = xlsb_read_relationships rest (rev (map rel_entry l) ++ m)).
  { induction l0 as [|x l0 IH]; intros m rest; [reflexivity|].
    cbn [flat_map map rev]. rewrite <- !app_assoc. rewrite (brels_skip junk _ m Hj).
    cbn [app xlsb_read_relationships].
    change (str_eqb k_Relationship k_Relationship) with true. cbn iota.
    change (brel_attrs [(a_Id, fst x); (a_Type, snd (snd x)); (a_Target, fst (snd x))] None None None)
      with (Some (fst x), Some (fst (snd x)), kind_of_rel_type (snd (snd x))). cbn beta iota.
    rewrite IH. unfold map_insert, rel_entry. reflexivity. }
  rewrite Hgen, app_nil_r. rewrite (brels_skip junk _ _ Hj). reflexivity.
Qed.

Theorem xlsb_open_encode : forall show_f64 c wb rjunk,
  xlsb_legal c wb = true -> forallb junk_ok_brels rjunk = true ->
  xlsb_open show_f64 (xlsb_rels_events rjunk (bc_rels c)) (xlsb_workbook_bin c wb) =
  Ok (mkParsed (wb_sheets wb) (xlsb_paths c wb)
               (spec_names_xlsb show_f64 (spec_ext (map m_name (wb_sheets wb)) (bc_xtis c))
                                (wb_names wb))
               (wb_1904 wb)).
Proof.
  intros show_f64 c wb rjunk Hl Hj. unfold xlsb_open.
  rewrite (xlsb_rels_roundtrip rjunk (bc_rels c) Hj). apply xlsb_parse_encode. exact Hl.
Qed.

Theorem sheets_in_order_xlsb : forall show_f64 c wb rjunk,
  xlsb_legal c wb = true -> forallb junk_ok_brels rjunk = true ->
  exists p, xlsb_open show_f64 (xlsb_rels_events rjunk (bc_rels c)) (xlsb_workbook_bin c wb) = Ok p /\
            p_sheets p = wb_sheets wb /\ p_paths p = xlsb_paths c wb.
Proof.
  intros show_f64 c wb rjunk Hl Hj. eexists. split; [apply xlsb_open_encode; assumption|].
  split; reflexivity.
Qed.

(* the date flag, composed with C10's plumbing theorem: a numeric cell of any sheet under any
   style table is typed by its style and carries the workbook's date system *)
Theorem date_flag_reaches_cells_xlsb : forall show_f64 c wb rjunk,
  xlsb_legal c wb = true -> forallb junk_ok_brels rjunk = true ->
  exists p, xlsb_open show_f64 (xlsb_rels_events rjunk (bc_rels c)) (xlsb_workbook_bin c wb) = Ok p /\
    (forall t style_ref v fmt,
       NumFmt_proofs.ids_below 65536 t -> NumFmt_proofs.xfs_present t ->
       NumFmt_proofs.customs_off_builtin_dates t ->
       nth_error (NumFmt.xfs t) (N.to_nat style_ref) = Some fmt ->
       NumFmt.xlsb_cell_number (NumFmt.xlsb_formats (NumFmt.enc_biff t)) (p_1904 p) style_ref v =
       NumFmt.spec_cell (NumFmt.resolve t fmt) (wb_1904 wb) v) /\
    (forall formats cells b dur g,
       In (NumFmt.DDateTime b dur g) (xlsb_sheet_values p formats cells) -> g = wb_1904 wb).
Proof.
  intros show_f64 c wb rjunk Hl Hj. eexists. split; [apply xlsb_open_encode; assumption|]. split.
  - intros t style_ref v fmt H1 H2 H3 H4. cbn [p_1904].
    apply NumFmt_proofs.date_iff_style_xlsb; assumption.
  - intros formats cells b dur g H. apply date_flag_cells_xlsb in H. exact H.
Qed.

(* non-vacuity *)
Definition ex_xlsb_wb : workbook Ptg.expr :=
  mkWb [mkMeta [97; 233] Hidden MacroSheet; mkMeta [128512; 20013] VeryHidden WorkSheet;
        mkMeta [98] Visible ChartSheet]
       [(* n = m*2: the name it uses is stored AFTER it (forward reference, as in files written by Excel) *)
        ([110], Ptg.EBin 5 (Ptg.EName Ptg.CVal 2) (Ptg.EInt 2));
        ([109], Ptg.ERef3d Ptg.CRef 1 (Ptg.Build_cref 0 1 false true))] true.
Definition ex_xlsb_c : xlsb_choice :=
  (* parts: xl/worksheets/1 is the MACRO sheet, xl/s.bin the worksheet, xl/d/c the chart sheet *)
  mkBc [([98], ([115; 46; 98; 105; 110], t_ws_strict)); ([99], ([100; 47; 99], t_cs));
        ([120], ([116], ns_rel)); ([97], (d_worksheets ++ SLASH :: [49], t_xlim))]
       [mkBs [97] (d_worksheets ++ SLASH :: [49]) 1 true; mkBs [98] [115; 46; 98; 105; 110] 7 true;
        mkBs [99] [100; 47; 99] 3 false]
       [(128, [1; 2; 3])] [(3000, [9])] false 3 [0; 0; 0]
       (* the supporting links: the add-in functions, another workbook, this workbook — the XTIs of the
          workbook's own sheets carry link index 2 *)
       [(Ptg.SupAddin, []); (Ptg.SupExt [[68]], [4; 0; 0; 0; 114; 0; 73; 0; 100; 0; 49; 0]); (Ptg.SupSelf, [])]
       [(2, 1, 1); (2, 0, 0)]
       [(0, 0, 4294967295); (1, 65, 0)] 157 [2; 0; 0; 132; 1; 0].
Lemma xlsb_nonvacuous :
  xlsb_legal ex_xlsb_c ex_xlsb_wb = true /\
  map fst (spec_names_xlsb (fun _ => []) (spec_ext (map m_name (wb_sheets ex_xlsb_wb)) (bc_xtis ex_xlsb_c))
                           (wb_names ex_xlsb_wb)) = [[110]; [109]] /\
  nth_error (spec_names_xlsb (fun _ => []) (spec_ext (map m_name (wb_sheets ex_xlsb_wb)) (bc_xtis ex_xlsb_c))
                             (wb_names ex_xlsb_wb)) 0 = Some ([110], [109; 42; 50]).
Proof. vm_compute. repeat split. Qed.
