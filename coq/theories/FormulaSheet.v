(* FormulaSheet — C14, shared and array formulas of xls: the FORMULA side of the sheet loop of
   Xls::parse_workbook.  Definitions only (proofs: FormulaSheet_proofs.v).

   Modelled Rust code (src/xls.rs, commit "fix: xls cells of shared and array formulas were reported
   with an empty formula"), from the framed records of one sheet substream on (the framing — RecordIter,
   CONTINUE — and the VALUE side of the same loop are C02's BiffRec.v; nothing here changes a value cell):
     0x0006 FORMULA   len < 20 -> Err; row, col; parse_formula_value(&data[6..14])? (only its Err matters
                      here); the PtgExp pattern [5, 0, 0x01, r0, r1, c0, c1, ..] on data[20..] remembers
                      (index of the cell, (row, col) named by PtgExp); parse_formula(.., None) with the
                      "Unrecognised formula …" fallback; formulas.push
     0x04BC SHRFMLA   len >= 8:  shared.insert(fmla_pos, &data[8..])
     0x0221 ARRAY     len >= 12: shared.insert(fmla_pos, &data[12..])
     0x000A EOF       break
     before that match (commit "fix: records of a chart substream nested in an xls worksheet ..."):
     0x0809 BOF       depth += 1; continue        (depth: the substreams open at this record; the sheet's
     depth > 1        EOF: depth -= 1; continue    own BOF makes it 1, the BOF of an embedded chart 2: a
                      anything else: continue      FORMULA / SHRFMLA / ARRAY record in there is not the sheet's)
     after the loop   for (i, first) in exp_cells { if let Some(rgce) = shared.get(&first) {
                        if let Ok(f) = parse_formula(rgce, .., Some(formulas[i].pos)) { formulas[i].val = f } } }
   Representation: the index list [exp_cells] is kept as an option tag on each formula cell (the loop
   over the indices becomes a map over the cells); the BTreeMap [shared] is an association list with
   the latest insertion first (insert replaces).  The value records of the same loop (NUMBER, RK, LABEL
   …, which can fail on malformed input) are outside this model: it must be fed FORMULA / SHRFMLA /
   ARRAY / EOF records and records the loop ignores.

   Spec side: a sheet's formula layout [fitem] with shared groups and array groups, its encoder
   (MS-XLS 2.4.127 Formula, 2.4.277 ShrFmla, 2.4.4 Array, 2.5.198.58 PtgExp) and [spec_formulas]:
   every cell of a shared group reports the group's expression translated to its own position
   (Ptg.translate: relative components are offsets, rows wrap modulo 65536, columns modulo 256),
   every cell of an array group the array's expression as it stands. *)
From Coq Require Import String.
From Calamine Require Import Prelude Range Range_spec Col26 FtabRef Ptg FormulaEnv.
Open Scope N_scope.
Set Implicit Arguments.

Definition E_FVALUE : N := 23.

(* parse_formula_value(&r.data[6..14]) is an error: the 8-byte field ends in FF FF and its first byte is
   neither 0 (string), 1 (bool), 3 (blank) nor 2 with a known error code (parse_err) *)
Definition berr_known (e : N) : bool :=
  (e =? 0x00) || (e =? 0x07) || (e =? 0x0F) || (e =? 0x17) || (e =? 0x1D) || (e =? 0x24) || (e =? 0x2A) || (e =? 0x2B).
Definition fvalue_err (d : list N) : bool :=
  let b0 := nth 6 d 0 in
  (nth 12 d 0 =? 255) && (nth 13 d 0 =? 255) &&
  (if b0 =? 2 then negb (berr_known (nth 8 d 0)) else negb ((b0 =? 0) || (b0 =? 1) || (b0 =? 3))).

(* if let [5, 0, 0x01, r0, r1, c0, c1, ..] = r.data[20..] *)
Definition exp_target (rgce : list N) : option pos :=
  match rgce with
  | a :: b :: c :: r0 :: r1 :: c0 :: c1 :: _ =>
      if (a =? 5) && (b =? 0) && (c =? 1) then Some (r0 + 256 * r1, c0 + 256 * c1) else None
  | _ => None
  end.

(* shared.get(&k) on the association list (latest insertion first) *)
Fixpoint lookup (k : pos) (m : list (pos * list N)) : option (list N) :=
  match m with
  | [] => None
  | (k', v) :: t => if pos_eqb k' k then Some v else lookup k t
  end.

(* a formula cell while the loop runs: position, text, the cell its PtgExp names *)
Definition fcell : Type := (pos * list N * option pos)%type.

Record fstate := { fs_pos : pos; fs_cells : list fcell; fs_shared : list (pos * list N) }.

Section XlsSheet.
Variable show_f64 : N -> list N.
(* format!("Unrecognised formula for cell ({}, {}): {:?}", row, col, e): the Debug text of the error
   is not modelled; the theorems hold for every instantiation *)
Variable unrecognised : N -> N -> list N.
Variable sheets : list (list N).           (* fmla_sheet_names *)
Variable names : list (list N).            (* defined names *)
Variable xtis : list (N * N * N).

Definition env_at (base : option pos) : xls_env :=
  {| xe_sheets := sheets; xe_names := names; xe_xtis := xtis; xe_base := base |}.

Definition xls_formula_rec (d : list N) (st : fstate) : outcome fstate :=
  if (length d <? 20)%nat then Err FormulaEnv.E_LEN else
  do row <- u16_at d 0;
  do col <- u16_at d 2;
  if fvalue_err d then Err E_FVALUE else
  let rgce := skipn 20 d in
  do text <- match xls_parse_formula show_f64 (env_at None) rgce with
             | Ok t => Ok t
             | Err _ => Ok (unrecognised row col)
             | Panic => Panic
             | OutOfFuel => OutOfFuel
             end;
  Ok {| fs_pos := (row, col);
        fs_cells := fs_cells st ++ [((row, col), text, exp_target rgce)];
        fs_shared := fs_shared st |}.

Fixpoint xls_formula_loop (recs : list record) (st : fstate) (depth : N) : outcome fstate :=
  match recs with
  | [] => Ok st
  | (t, d) :: rest =>
      if t =? 0x0809 then xls_formula_loop rest st (depth + 1)
      else if 1 <? depth then xls_formula_loop rest st (if t =? 0x000A then depth - 1 else depth)
      else if t =? 0x000A then Ok st
      else if t =? 0x0006 then do st' <- xls_formula_rec d st; xls_formula_loop rest st' depth
      else if (t =? 0x04BC) && (8 <=? length d)%nat then
        xls_formula_loop rest {| fs_pos := fs_pos st; fs_cells := fs_cells st;
                                 fs_shared := (fs_pos st, skipn 8 d) :: fs_shared st |} depth
      else if (t =? 0x0221) && (12 <=? length d)%nat then
        xls_formula_loop rest {| fs_pos := fs_pos st; fs_cells := fs_cells st;
                                 fs_shared := (fs_pos st, skipn 12 d) :: fs_shared st |} depth
      else xls_formula_loop rest st depth
  end.

(* the pass over exp_cells after the loop *)
Definition resolve_cell (shared : list (pos * list N)) (c : fcell) : outcome (pos * list N) :=
  let p := fst (fst c) in
  let text := snd (fst c) in
  match snd c with
  | None => Ok (p, text)
  | Some first =>
      match lookup first shared with
      | None => Ok (p, text)
      | Some cpf =>
          match xls_parse_formula show_f64 (env_at (Some p)) cpf with
          | Ok t => Ok (p, t)
          | Err _ => Ok (p, text)
          | Panic => Panic
          | OutOfFuel => OutOfFuel
          end
      end
  end.

(* the (position, text) cells handed to Range::from_sparse for one sheet; [recs] = the records of
   the substream from its own BOF on *)
Definition xls_sheet_formulas (recs : list record) : outcome (list (pos * list N)) :=
  do st <- xls_formula_loop recs {| fs_pos := (0, 0); fs_cells := []; fs_shared := [] |} 0;
  map_o (resolve_cell (fs_shared st)) (fs_cells st).

(* worksheet_formula of the sheet: xls keeps every FORMULA cell *)
Definition xls_sheet_formula_range (recs : list record) : outcome (range (list N)) :=
  do cells <- xls_sheet_formulas recs; formula_range true cells.

(* ================================================================== SPEC: the formula layout *)
(* [hd]: the 16 bytes between the cell address and the formula (ixfe, the 8-byte cached value, grbit,
   chn) — nothing of it matters for the text *)
Inductive fitem :=
| FPlain (p : pos) (hd : list N) (e : expr)                    (* a cell with a formula of its own *)
| FShared (p : pos) (hd : list N) (rng : N * N * N * N) (cuse : N) (e : expr)
    (* the first cell of a shared group: FORMULA [PtgExp p], then SHRFMLA (ref rng = rwFirst, rwLast,
       colFirst, colLast; cUse) with the shared expression e *)
| FArray (p : pos) (hd : list N) (rng : N * N * N * N) (flags : N) (e : expr)
    (* the first cell of an array formula: FORMULA [PtgExp p], then ARRAY *)
| FMember (p : pos) (hd : list N) (first : pos)                (* another cell of a group: PtgExp first *)
| FOther (t : N) (d : list N)                                  (* any other record of the sheet itself *)
| FSub (bof : list N) (recs : list record).
    (* a substream nested in the sheet — BOF, its records, EOF: the chart of an embedded chart object
       ([MS-XLS] 2.1.7.20.5 OBJECTS -> CHART = BOF CHARTSHEETCONTENT … EOF; Excel 97-2003 writes one per
       chart on the sheet).  The records are ANY records, FORMULA / SHRFMLA / ARRAY and further
       BOF … EOF pairs included, provided BOF and EOF balance; none of them is a formula of the sheet *)

Definition enc_formula_rec (p : pos) (hd cpf : list N) : record :=
  (0x0006, le 2 (fst p) ++ le 2 (snd p) ++ hd ++ cpf).
Definition cpf_exp (first : pos) : list N := frame_xls (0x01 :: le 2 (fst first) ++ le 2 (snd first)).
Definition enc_refu (rng : N * N * N * N) : list N :=
  match rng with (r0, r1, c0, c1) => le 2 r0 ++ le 2 r1 ++ [c0; c1] end.

Definition enc_fitem (it : fitem) : list record :=
  match it with
  | FPlain p hd e => [enc_formula_rec p hd (frame_xls (encode_xls e))]
  | FShared p hd rng cuse e =>
      [enc_formula_rec p hd (cpf_exp p);
       (0x04BC, enc_refu rng ++ [0; cuse] ++ frame_xls (encode_xls e))]
  | FArray p hd rng flags e =>
      [enc_formula_rec p hd (cpf_exp p);
       (0x0221, enc_refu rng ++ le 2 flags ++ [0; 0; 0; 0] ++ frame_xls (encode_xls e))]
  | FMember p hd first => [enc_formula_rec p hd (cpf_exp first)]
  | FOther t d => [(t, d)]
  | FSub bof recs => (0x0809, bof) :: recs ++ [(0x000A, [])]
  end.

(* the records of a whole sheet substream: its BOF (the body is not read), the items, EOF, and
   whatever follows in the stream (the next substream) *)
Definition enc_fsheet (bof : list N) (l : list fitem) (after : list record) : list record :=
  (0x0809, bof) :: flat_map enc_fitem l ++ (0x000A, []) :: after.

(* the group whose first cell is [first]: (is it an array formula, its expression) *)
Fixpoint group_of (l : list fitem) (first : pos) : option (bool * expr) :=
  match l with
  | [] => None
  | FShared p _ _ _ e :: t => if pos_eqb p first then Some (false, e) else group_of t first
  | FArray p _ _ _ e :: t => if pos_eqb p first then Some (true, e) else group_of t first
  | _ :: t => group_of t first
  end.

(* what a cell at [p] that uses group (array?, e) reports: the shared expression seen from p;
   the array expression as it stands *)
Definition group_text (p : pos) (g : bool * expr) : list N :=
  if fst g then render_xls show_f64 (env_at None) (snd g)
  else render_xls show_f64 (env_at (Some p)) (snd g).

Definition spec_cell (l : list fitem) (it : fitem) : list (pos * list N) :=
  match it with
  | FPlain p _ e => [(p, render_xls show_f64 (env_at None) e)]
  | FShared p _ _ _ e => [(p, group_text p (false, e))]
  | FArray p _ _ _ e => [(p, group_text p (true, e))]
  | FMember p _ first =>
      [(p, match group_of l first with Some g => group_text p g | None => [] end)]
  | FOther _ _ => []
  | FSub _ _ => []                       (* nothing in a nested substream is a formula of the sheet *)
  end.
Definition spec_formulas (l : list fitem) : list (pos * list N) := flat_map (spec_cell l) l.

(* ---------- the domain ---------- *)
Definition wf_pos (p : pos) : bool := (fst p <? 65536) && (snd p <? 65536).
Definition wf_hd (p : pos) (hd : list N) : bool :=
  (length hd =? 16)%nat && negb (fvalue_err (le 2 (fst p) ++ le 2 (snd p) ++ hd)).
Definition small (e : expr) : bool := N.of_nat (length (encode_xls e)) <? 65536.
Definition first_of (it : fitem) : list pos :=
  match it with FShared p _ _ _ _ | FArray p _ _ _ _ => [p] | _ => [] end.

(* BOF and EOF balance inside a nested substream: [d] further substreams are open before the
   first record, none at the end, no EOF closes more than were opened *)
Fixpoint fbalanced (d : nat) (recs : list record) : bool :=
  match recs with
  | [] => match d with O => true | S _ => false end
  | r :: rest =>
      if fst r =? 0x0809 then fbalanced (S d) rest
      else if fst r =? 0x000A then match d with O => false | S d' => fbalanced d' rest end
      else fbalanced d rest
  end.

Definition wf_fitem (it : fitem) : bool :=
  match it with
  | FPlain p hd e => wf_pos p && wf_hd p hd && wf_xls (env_at None) e && small e
  | FShared p hd rng cuse e => wf_pos p && wf_hd p hd && wf_xls (env_at (Some p)) e && small e
  | FArray p hd rng flags e => wf_pos p && wf_hd p hd && wf_xls (env_at None) e && small e
  | FMember p hd first => wf_pos p && wf_hd p hd && wf_pos first
  | FOther t _ => negb ((t =? 0x000A) || (t =? 0x0006) || (t =? 0x04BC) || (t =? 0x0221) || (t =? 0x0809))
  | FSub _ recs => fbalanced 0 recs
  end.
(* well-formed items; no two groups start at the same cell *)
Definition wf_layout (l : list fitem) : Prop :=
  forallb wf_fitem l = true /\ NoDup (flat_map first_of l).

End XlsSheet.
