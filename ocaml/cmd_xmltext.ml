(* C19: the model side for cell text.  Sub-commands (first argument):
     xlsx  <pfx|-> <items> <cells>     encode (E), run M and S on a whole workbook case (the
                                       `known` field is always "-": no known class is left)
     runx  <sst wire|-> <cells>        M only, on raw event lists (cells: attrs@events|…)
     runs  <sst wire|-> <sheet wire>   M only: the shared-string part and the events that follow
                                       <sheetData>, through read_sheet_cells -> rhex=value/…
     runf  <sheet wire>                M only: the same events through read_sheet_formulas
                                       (worksheet_formula) -> rhex=N|T<hex>|X/…
     ods   <cells>                     encode, M, S for ods cells (known field always "-")
     xstr  <hex>                       ST_Xstring: M (unescape_xstring) : S (xunescape) : E (xescape
                                       excel_must) of the string
     runo  <cells>                     M only (cells: namehex@attrs@events|…)
     wide  <hex bytes>                 xlsb wide_str
     encwide <hex utf8>                encoder for wide_str
     decto <0|1> <hex stream> <len>    cfb XlsEncoding::decode_to under code page 1200
   Event wire format (shared with tools/textgen.py): tokens separated by ' ':
     S<hexname>[,<hexkey>=<hexval>]* | E<hexname> | T<hex> | C<hex> | O
   Storage-form wire format: see the parsers below (written by tools/props/c19.py). *)
open Conv
open Prelude
open XmlText

let s_of_hex = scalars_of_hex
let hex_of_s = hex_of_scalars

(* ---------- events ---------- *)
let wire_attrs (a : attrs) =
  String.concat "," (List.map (fun (k, v) -> hex_of_s k ^ "=" ^ hex_of_s v) a)
let wire_event = function
  | Start (n, a) -> "S" ^ hex_of_s n ^ (if a = [] then "" else "," ^ wire_attrs a)
  | End n -> "E" ^ hex_of_s n
  | Text s -> "T" ^ hex_of_s s
  | CData s -> "C" ^ hex_of_s s
  | Other -> "O"
let wire evs = String.concat " " (List.map wire_event evs)

let parse_attr kv =
  match String.split_on_char '=' kv with
  | [k; v] -> (s_of_hex k, s_of_hex v)
  | _ -> failwith "bad attribute"
let parse_attrs s = if s = "" || s = "-" then [] else List.map parse_attr (String.split_on_char ',' s)
let tail1 s = String.sub s 1 (String.length s - 1)
let parse_event tok =
  match tok.[0] with
  | 'S' ->
    (match String.split_on_char ',' (tail1 tok) with
     | n :: rest -> Start (s_of_hex n, List.map parse_attr rest)
     | [] -> failwith "bad start")
  | 'E' -> End (s_of_hex (tail1 tok))
  | 'T' -> Text (s_of_hex (tail1 tok))
  | 'C' -> CData (s_of_hex (tail1 tok))
  | _ -> Other
let unwire s =
  if s = "-" then [] else
  List.map parse_event (List.filter (fun t -> t <> "") (String.split_on_char ' ' s))

let split c s = if s = "" then [] else String.split_on_char c s

(* ---------- xlsx storage forms ---------- *)
(* tcontent: chunks joined by '+': t<hex> | c<hex> | o ; empty = "" *)
let parse_tc s : tcontent =
  List.map (fun c ->
      match c.[0] with
      | 't' -> TcText (s_of_hex (tail1 c))
      | 'c' -> TcCData (s_of_hex (tail1 c))
      | _ -> TcOther) (split '+' s)
(* piece: R;<0|1>;<rpr>;<tc> | P;<tc> | Q   rpr: name[:k=v]* joined by ',' *)
let parse_rpr s =
  List.map (fun e ->
      match String.split_on_char ':' e with
      | n :: ats -> (s_of_hex n, List.map parse_attr ats)
      | [] -> failwith "bad rpr") (split ',' s)
let parse_piece s : piece =
  match String.split_on_char ';' s with
  | ["R"; p; rpr; tc] -> PRun (parse_rpr rpr, p = "1", parse_tc tc)
  | ["P"; tc] -> PPhon (parse_tc tc)
  | ["Q"] -> PPhonPr
  | _ -> failwith ("bad piece " ^ s)
let parse_pieces s = List.map parse_piece (split '!' s)
(* form: plain/<0|1>/<tc>/<pieces> | rich/<pieces> *)
let parse_form s : item_form =
  match String.split_on_char '/' s with
  | ["plain"; p; tc; ps] -> FPlain (p = "1", parse_tc tc, parse_pieces ps)
  | ["rich"; ps] -> FRich (parse_pieces ps)
  | _ -> failwith ("bad form " ^ s)
(* item: <wshex>~<form> *)
let parse_item s =
  match String.split_on_char '~' s with
  | [ws; f] -> (s_of_hex ws, parse_form f)
  | _ -> failwith "bad item"
(* store: s<hex v text> | i<form> | f<tc>&<tc> *)
let parse_store s : store =
  match s.[0] with
  | 's' -> StShared (s_of_hex (tail1 s))
  | 'i' -> StInline (parse_form (tail1 s))
  | 'f' ->
    (match String.split_on_char '&' (tail1 s) with
     | [a; b] -> StFormula (parse_tc a, parse_tc b)
     | _ -> failwith "bad formula store")
  | _ -> failwith "bad store"

let show_cell = function
  | CEmpty -> "E"
  | CString s -> "S" ^ hex_of_s s
  | CNonText -> "N"
let show_out show = function
  | Ok v -> show v
  | Err _ -> "err"
  | Panic -> "panic"
  | OutOfFuel -> "fuel"
let show_known = function None -> "-" | Some k -> "F" ^ string_of_n k
let show_fval = function
  | FvNone -> "N"
  | FvText s -> "T" ^ hex_of_s s
  | FvOutside -> "X"

let ascii s = List.map (fun c -> n_of_int (Char.code c)) (List.init (String.length s) (String.get s))

let run_cells strings (cells : (attrs * event list) list) =
  String.concat "/" (List.map (fun (ca, evs) ->
      show_out (fun (v, _) -> show_cell v) (read_cell strings ca evs)) cells)

let cmd_xlsx pfxh itemsh cellsh =
  let pfx = if pfxh = "-" then [] else s_of_hex pfxh in
  let items = List.map parse_item (split '|' (if itemsh = "-" then "" else itemsh)) in
  let stores = List.map parse_store (split '|' cellsh) in
  let sst = sst_events pfx [] items in
  let cells = List.mapi (fun i st ->
      (cell_attrs (ascii (Printf.sprintf "A%d" (i + 1))) st, cell_events pfx st)) stores in
  let model =
    match read_shared_strings sst with
    | Ok strings -> run_cells strings cells
    | Err _ -> "openerr"
    | Panic -> "openpanic"
    | OutOfFuel -> "openfuel" in
  let spec = String.concat "/" (List.map (fun st ->
      match stored_text items st with
      | Some s -> show_cell (cell_expected st s)
      | None -> "?") stores) in
  let known = String.concat "/" (List.map (fun _ -> show_known None) stores) in
  let fspec = String.concat "/" (List.map (fun st -> show_fval (formula_expected st)) stores) in
  let legal = String.concat "/" (List.map (fun st ->
      if legal_store st && List.for_all (fun (_, f) -> legal_form f) items then "1" else "0") stores) in
  String.concat "#" [wire sst;
                     String.concat "|" (List.map (fun (a, e) -> wire_attrs a ^ "@" ^ wire e) cells);
                     model; spec; known; legal; fspec]

let parse_raw_cell s =
  match String.split_on_char '@' s with
  | [a; e] -> (parse_attrs a, unwire e)
  | _ -> failwith "bad raw cell"

let cmd_runx ssth cellsh =
  let cells = List.map parse_raw_cell (split '|' cellsh) in
  let sst = if ssth = "-" then None else Some (unwire ssth) in
  match (match sst with None -> Ok [] | Some e -> read_shared_strings e) with
  | Ok strings -> run_cells strings cells
  | Err _ -> "openerr"
  | Panic -> "openpanic"
  | OutOfFuel -> "openfuel"

let cmd_runs ssth sheeth =
  let sst = if ssth = "-" then None else Some (unwire ssth) in
  match (match sst with None -> Ok [] | Some e -> read_shared_strings e) with
  | Ok strings ->
    (match read_sheet_cells strings (unwire sheeth) with
     | Ok cells ->
       String.concat "/" (List.map (fun (ca, v) ->
           (match get_attribute ca Lit.a_r with Some r -> hex_of_s r | None -> "-") ^ "=" ^ show_cell v) cells)
     | Err _ -> "err"
     | Panic -> "panic"
     | OutOfFuel -> "fuel")
  | Err _ -> "openerr"
  | Panic -> "openpanic"
  | OutOfFuel -> "openfuel"

let cmd_runf sheeth =
  match read_sheet_formulas (unwire sheeth) with
  | Ok cells ->
    String.concat "/" (List.map (fun (ca, v) ->
        (match get_attribute ca Lit.a_r with Some r -> hex_of_s r | None -> "-") ^ "=" ^ show_fval v) cells)
  | Err _ -> "err"
  | Panic -> "panic"
  | OutOfFuel -> "fuel"

(* ---------- ods storage forms ---------- *)
(* piece: l<hex> | d<hex> | s | s<hexdigits> | T | B | o<hexstyle> | x | O
          | R<hexstyle> (text:ruby) | r (/text:ruby) | A (text:ruby-base) | a (/text:ruby-base)
          | y<hexstyle or empty>~<event wire> (text:ruby-text)
          | h<hexname>~<attrs>~<event wire> (a drawing object inside the paragraph) *)
let split3 s =
  match String.split_on_char '~' s with
  | [a; b; c] -> (a, b, c)
  | _ -> failwith "bad ~ triple"
let parse_opiece s : opiece =
  match s.[0] with
  | 'l' -> OLit (s_of_hex (tail1 s))
  | 'd' -> OCD (s_of_hex (tail1 s))
  | 's' -> if String.length s = 1 then OSp None else OSp (Some (s_of_hex (tail1 s)))
  | 'T' -> OTab
  | 'B' -> OBreak
  | 'o' -> OSpanOpen (s_of_hex (tail1 s))
  | 'x' -> OSpanClose
  | 'R' -> ORubyOpen (s_of_hex (tail1 s))
  | 'r' -> ORubyClose
  | 'A' -> ORubyBaseOpen
  | 'a' -> ORubyBaseClose
  | 'y' ->
    (match String.split_on_char '~' (tail1 s) with
     | [st; ev] -> ORubyText ((if st = "" then None else Some (s_of_hex st)), unwire ev)
     | _ -> failwith "bad ruby-text")
  | 'h' -> let (n, a, ev) = split3 (tail1 s) in OShape (s_of_hex n, parse_attrs a, unwire ev)
  | _ -> OOther
(* citem: p<pieces joined by '+'> | n<event wire> | w<hex white space> | k (comment)
          | h<hexname>~<attrs>~<event wire> (a drawing object anchored to the cell) *)
let parse_citem s : citem =
  match s.[0] with
  | 'p' -> CPara (List.map parse_opiece (split '+' (tail1 s)))
  | 'n' -> CAnnot (unwire (tail1 s))
  | 'w' -> CWs (s_of_hex (tail1 s))
  | 'k' -> CComment
  | 'h' -> let (n, a, ev) = split3 (tail1 s) in CShape (s_of_hex n, parse_attrs a, unwire ev)
  | _ -> failwith "bad citem"
let parse_content s = List.map parse_citem (split '!' s)
(* store: c<content> | a<hex>/<content> *)
let parse_ods_store s : ods_store =
  match s.[0] with
  | 'c' -> OsContent (parse_content (tail1 s))
  | 'a' ->
    let b = tail1 s in
    let i = String.index b '/' in
    OsAttr (s_of_hex (String.sub b 0 i), parse_content (String.sub b (i + 1) (String.length b - i - 1)))
  | _ -> failwith "bad ods store"
(* cell: <a|c>;<extra attrs>;<store> *)
let parse_ods_cell s =
  match String.split_on_char ';' s with
  | [cn; extra; st] -> ((if cn = "c" then Lit.o_covered else Lit.o_cell), parse_attrs extra, parse_ods_store st)
  | _ -> failwith "bad ods cell"

let show_ods = function
  | OEmpty -> "E"
  | OString s -> "S" ^ hex_of_s s
  | _ -> "N"
let run_ods_cells cells =
  String.concat "/" (List.map (fun (cn, a, evs) ->
      show_out (fun ((v, _), _) -> show_ods v) (ods_cell cn a evs)) cells)

let cmd_ods cellsh =
  let cs = List.map parse_ods_cell (split '|' cellsh) in
  let cells = List.map (fun (cn, extra, st) -> (cn, ods_cell_attrs extra st, ods_cell_events cn st)) cs in
  let spec = String.concat "/" (List.map (fun (_, _, st) -> "S" ^ hex_of_s (ods_text st)) cs) in
  let known = String.concat "/" (List.map (fun _ -> show_known None) cs) in
  let legal = String.concat "/" (List.map (fun (_, extra, st) ->
      if legal_ods st && legal_extra extra then "1" else "0") cs) in
  String.concat "#" [String.concat "|" (List.map (fun (cn, a, e) ->
                        hex_of_s cn ^ "@" ^ wire_attrs a ^ "@" ^ wire e) cells);
                     run_ods_cells cells; spec; known; legal]

let cmd_runo cellsh =
  let cells = List.map (fun s ->
      match String.split_on_char '@' s with
      | [cn; a; e] -> (s_of_hex cn, parse_attrs a, unwire e)
      | _ -> failwith "bad raw ods cell") (split '|' cellsh) in
  run_ods_cells cells

(* ---------- binary ---------- *)
let cmd_wide h =
  match Utf16.wide_str (bytes_of_hex h) with
  | Ok (s, n) -> "ok:" ^ hex_of_s s ^ ":" ^ string_of_n n
  | Err _ -> "err"
  | Panic -> "panic"
  | OutOfFuel -> "fuel"

let cmd_decto high h len =
  let ((s, l), ub) = Utf16.decode_to_utf16 (high = "1") (bytes_of_hex h) (n_of_string len) in
  hex_of_s s ^ ":" ^ string_of_n l ^ ":" ^ string_of_n ub

let handler (args : string list) : string =
  match args with
  | ["xlsx"; p; i; c] -> cmd_xlsx p i c
  | ["runx"; s; c] -> cmd_runx s c
  | ["runs"; s; c] -> cmd_runs s c
  | ["runf"; c] -> cmd_runf c
  | ["xstr"; h] ->
    let s = s_of_hex h in
    hex_of_s (unescape_xstring s) ^ ":" ^ hex_of_s (xunescape s) ^ ":" ^ hex_of_s (xescape excel_must s)
  | ["ods"; c] -> cmd_ods c
  | ["runo"; c] -> cmd_runo c
  | ["wide"; h] -> cmd_wide h
  | ["encwide"; h] -> hex_of_bytes (Utf16.enc_wide (s_of_hex h))
  | ["decto"; hi; h; len] -> cmd_decto hi h len
  | _ -> "bad-args"

let () = Registry.register "xmltext" handler
let init () = ()
