(* C20: password detection.  Model side of the correspondence (see harness/src/cmds/password.rs).
     password ooxmlf <path>      the whole model on the bytes of the file: Cfb.cfb_new (C13's model),
                                 has_directory, ooxml_new — same answer format as ooxml
     password ooxml <path> <len> <hdrhex> <dirhex|->   Cfb.header_from_reader on the first bytes of the
                                 file, parse_dirs on the directory chain, ooxml_new (big files)
         -> names=<hex,…>;has=<0|1>|xlsx=<c>|xlsb=<c>     or  err:<io|ole|invalid|emptyroot>|xlsx=…|xlsb=…
            c = password | pass (the reader goes on to the zip) | panic
     password xls <path> <streamhex>       xls_globals interp_real -> xls=password|done|other|panic|unmodelled
     password ods <path> <mimehex|-> <events|->   ods_new -> ods=password|pass|other
     password recs <hex>                   RecordIter: t:len:c1/c2,…  (err at the first error item)
   events: S<hex qname> | E<hex qname> | O | X joined by '+'. *)
open Conv
open Prelude

(* CfbError classes of Cfb.v *)
let cls_of_err e =
  match int_of_n e with
  | 1 -> "io" | 2 -> "ole" | 3 -> "emptyroot" | 5 -> "invalid" | _ -> "other"

let pad_to (l : BinNums.coq_N list) (n : int) : BinNums.coq_N list =
  let k = List.length l in
  if k >= n then l else l @ List.init (n - k) (fun _ -> BinNums.N0)

let ep = List.map n_of_int [69;110;99;114;121;112;116;101;100;80;97;99;107;97;103;101]

let show (cfb : Cfb.dirent list outcome) : string =
  let part = match cfb with
    | Ok ds ->
      Printf.sprintf "names=%s;has=%d"
        (String.concat "," (List.map (fun d -> hex_of_scalars d.Cfb.d_name) ds))
        (if PasswordCfb.has_directory ds ep then 1 else 0)
    | Err e -> "err:" ^ cls_of_err e
    | Panic -> "panic"
    | OutOfFuel -> "fuel" in
  let c = match PasswordCfb.ooxml_new cfb (Ok ()) with
    | Ok () -> "pass"
    | Err e -> if int_of_n e = 1 then "password" else "other"
    | Panic -> "panic"
    | OutOfFuel -> "fuel" in
  Printf.sprintf "%s|xlsx=%s|xlsb=%s" part c c

(* header on the first bytes + the directory-array step on the directory chain (big files) *)
let ooxml args =
  match args with
  | _path :: len :: hdrhex :: dirhex :: _ ->
    let len = int_of_string len in
    let hdr = bytes_of_hex hdrhex in
    let f = pad_to hdr (min len 4096) in
    let cfb : Cfb.dirent list outcome =
      match Cfb.header_from_reader f with
      | Err e -> Err e
      | Panic -> Panic
      | OutOfFuel -> OutOfFuel
      | Ok ((h, _), _) ->
        let chain = if dirhex = "-" then [] else bytes_of_hex dirhex in
        PasswordCfb.parse_dirs chain h.Cfb.h_ss in
    show cfb
  | _ -> "badargs"

(* the whole model of check_for_password_protected on the bytes of the file *)
let read_file (path : string) : BinNums.coq_N list =
  let ic = open_in_bin path in
  let n = in_channel_length ic in
  let s = really_input_string ic n in
  close_in ic;
  let rec go i acc = if i < 0 then acc else go (i - 1) (n_of_int (Char.code s.[i]) :: acc) in
  go (n - 1) []

let ooxmlf args =
  match args with
  | path :: _ ->
    let f = read_file path in
    show (PasswordCfb.cfb_dirs (PasswordCfb.fuel_of_file f) f)
  | _ -> "badargs"

let xls args =
  match args with
  | _path :: streamhex :: _ ->
    (match Password.xls_globals Password.interp_real (bytes_of_hex streamhex) with
     | Ok () -> "xls=done"
     | Err e -> (match int_of_n e with 1 -> "xls=password" | 99 -> "xls=unmodelled" | _ -> "xls=other")
     | Panic -> "xls=panic"
     | OutOfFuel -> "xls=fuel")
  | _ -> "badargs"

let parse_events s =
  if s = "-" then [] else
  List.map (fun t ->
      match t.[0] with
      | 'S' -> Password.MStart (bytes_of_hex (String.sub t 1 (String.length t - 1)))
      | 'E' -> Password.MEnd (bytes_of_hex (String.sub t 1 (String.length t - 1)))
      | 'X' -> Password.MErr
      | _ -> Password.MOther) (String.split_on_char '+' s)

let ods args =
  match args with
  | _path :: mime :: events :: _ ->
    let mt = if mime = "-" then None else Some (bytes_of_hex (String.sub mime 1 (String.length mime - 1))) in
    let mf = if events = "none" then None else Some (parse_events events) in
    (match Password.ods_new mt mf with
     | Ok () -> "ods=pass"
     | Err e -> if int_of_n e = 1 then "ods=password" else "ods=other"
     | Panic -> "ods=panic"
     | OutOfFuel -> "ods=fuel")
  | _ -> "badargs"

let recs args =
  match args with
  | hex :: _ ->
    let buf = Buffer.create 256 in
    let rec go s first =
      match Password.next_record s with
      | None -> ()
      | Some (Ok (r, rest)) ->
        if not first then Buffer.add_char buf ',';
        Buffer.add_string buf (Printf.sprintf "%d:%d:%s" (int_of_n r.Password.f_typ)
          (List.length r.Password.f_data)
          (match r.Password.f_cont with
           | None -> "-"
           | Some cs -> String.concat "/" (List.map (fun c -> string_of_int (List.length c)) cs)));
        go rest false
      | Some _ -> if not first then Buffer.add_char buf ','; Buffer.add_string buf "err" in
    go (bytes_of_hex hex) true;
    Buffer.contents buf
  | _ -> "badargs"

let () = Registry.register "password" (fun args ->
    match args with
    | "ooxml" :: rest -> ooxml rest
    | "ooxmlf" :: rest -> ooxmlf rest
    | "xls" :: rest -> xls rest
    | "ods" :: rest -> ods rest
    | "recs" :: rest -> recs rest
    | _ -> "badsub")
let init () = ()
