"""C06 — malformed or hostile files yield an error, never a panic, hang or memory blow-up.
Partial by nature (DESIGN.md section 5/C06).  Three parts:
 1. proof: the totality / no-Panic theorems of the modelled parsers (Properties/C06.v);
 2. function-level malformed streams: every other property module that exposes
    `malformed(ctx)` is run here (model predicts Ok / Err / Panic for each malformed input and
    must agree with the code; an unpredicted panic is a violation);
 3. whole-file fault enumeration: single- and multi-fault mutations of the repository fixtures
    (and generated workbooks) through every reader and every read call, under a capped allocator,
    a per-case watchdog and an address-space limit.  A failure is keyed by
    (source file, enclosing function, failure class) taken from the panic location — never a
    line number — and compared with the known findings of known_findings.json."""
import hashlib, importlib, os, re, shutil, vlib, mutate

ASSUMPTIONS = [
    "allocation blow-up = a single request above 512 MiB (capped allocator) or exhaustion of an 8 GB address space; hang = a case exceeding the watchdog limit (10 s for inputs below 2 MB)",
    "zip and quick-xml internals, the allocator and real time are sampled by this run only, not modelled",
]
FMT_EXT = {"xlsx": "xlsx", "xlsb": "xlsb", "xls": "xls", "ods": "ods"}
_fn_cache = {}

def enclosing_fn(path, line):
    """name of the function that contains path:line (nearest preceding `fn name`)"""
    key = (path, line)
    if key in _fn_cache:
        return _fn_cache[key]
    name = "?"
    try:
        src = open(path, errors="replace").read().split("\n")
        for i in range(min(line, len(src)) - 1, -1, -1):
            m = re.match(r"\s*(?:pub(?:\([a-z]+\))?\s+)?(?:const\s+|unsafe\s+|async\s+)*fn\s+([A-Za-z_0-9]+)", src[i])
            if m:
                name = m.group(1)
                break
    except OSError:
        pass
    _fn_cache[key] = name
    return name

def failure_class(msg):
    m = msg.lower()
    if "verif-alloc-cap" in m or "capacity overflow" in m or "memory allocation" in m:
        return "alloc"
    if "index out of bounds" in m or "out of range for slice" in m or "slice index" in m or "range end index" in m \
       or "range start index" in m or "byte index" in m or "mid > len" in m or "removal index" in m or "is out of bounds" in m:
        return "index"
    if "overflow" in m or "attempt to" in m:
        return "overflow"
    if "unwrap()" in m or "expect" in m or "called `option" in m or "called `result" in m:
        return "unwrap"
    if "assert" in m:
        return "assert"
    if "not implemented" in m or "unreachable" in m or "not yet implemented" in m:
        return "unimplemented"
    if "chunk size must be non-zero" in m or "chunks" in m:
        return "index"
    return "panic"

def failure_key(info):
    """'<message> @ <file>:<line>' -> 'file::function::class' (no line numbers)"""
    msg, _, loc = info.rpartition(" @ ")
    cls = failure_class(msg)
    if loc.strip().startswith("fn:"):
        # symbol of the requesting frame, e.g. calamine::cfb::Sectors::get::h0123… or <calamine::…>::f
        sym = re.sub(r"::h[0-9a-f]{16}$", "", loc.strip()[3:])
        sym = re.sub(r"<[^>]*>", "_", sym)
        sym = re.sub(r"\{\{closure\}\}(::)?", "", sym).rstrip(":")
        return "calamine/%s::%s" % (sym.replace("calamine::", ""), cls)
    m = re.match(r"(.*):(\d+)$", loc.strip())
    if not m:
        return "unknown::?::" + cls
    path, line = m.group(1), int(m.group(2))
    fn = enclosing_fn(path, line)
    if path.startswith(vlib.REPO + "/") or path.startswith(os.environ.get("VERIF_REPO", "\0")):
        short = "calamine/" + path.split("/src/", 1)[-1]
    elif "/registry/src/" in path:
        crate = path.split("/registry/src/", 1)[1].split("/", 2)
        short = crate[1] + "/" + crate[2] if len(crate) > 2 else crate[-1]
        short = re.sub(r"-\d+\.\d+\.\d+[^/]*", "", short)
    elif "/rustc/" in path or "/library/" in path:
        short = "std/" + path.split("/library/", 1)[-1]
    else:
        short = path
    return "%s::%s::%s" % (short, fn, cls)

def known_keys(ctx):
    return {f["id"]: f for f in ctx.known.get("findings", []) if f["property"] == "C06"}

def classify_answer(ans):
    """-> (outcome class, key or None).  outcome: ok | err | panic | alloc | timeout | abort"""
    if ans is None:
        return "abort", "process::abort::abort"
    if ans == "timeout":
        return "timeout", "process::watchdog::hang"
    if ans == "abort":
        return "abort", "process::abort::abort"
    last = ans.split(";;")[-1]
    if last.startswith(("panic", "alloc")):
        parts = last.split("\t", 1)
        info = parts[1] if len(parts) > 1 else ""
        return parts[0], failure_key(info)
    if ans.startswith("openerr") or "err" in last[:4]:
        return "err", None
    return "ok", None

def file_sources(ctx):
    src = [(vlib.fmt_of_ext(e), p) for e, p in vlib.fixtures(("xlsx", "xlsm", "xlsb", "xls", "ods", "xla", "xlam"))]
    try:
        import gensheets
        src += gensheets.generate(ctx, n=ctx.scale(10, 100))
    except ImportError:
        pass
    return [(f, p) for f, p in src if os.path.getsize(p) < 2_000_000]

def run_files(ctx, n_mut, tag):
    tmp = vlib.tmpdir(ctx)
    srcs = file_sources(ctx)
    lines, meta = [], {}
    k = 0
    for (f, p) in srcs:
        data = open(p, "rb").read()
        for j in range(n_mut):
            faults = 1 if ctx.rng.random() < 0.8 else ctx.rng.randrange(2, 5)
            kind, mut = mutate.mutate_file(f, data, ctx.rng, faults)
            path = os.path.join(tmp, "%s%d.%s" % (tag, k, FMT_EXT[f]))
            open(path, "wb").write(mut)
            for rd in (f, "auto"):
                lid = "%s%d%s" % (tag, k, rd[0] if rd != "auto" else "A")
                lines.append("%s\topen\t%s\t%s\teverything" % (lid, rd, path))
                meta[lid] = (f, p, kind, path, rd)
            ctx.count("mut:" + re.sub(r"[@:].*", "", kind.split("+")[0]))
            ctx.count("fmt:" + f)
            k += 1
    env = {"VH_PANIC_INFO": "1", "VH_CASE_TIMEOUT_MS": "10000"}
    impl = ctx.run_impl(lines, timeout=1500, env=env)
    known = known_keys(ctx)
    seen_new = {}
    # a timeout or an abort may be an artefact of machine load: re-run such cases alone, with a
    # generous limit, and believe only what reproduces
    retry = [l for l in lines if classify_answer(impl.get(l.split("\t", 1)[0]))[0] in ("timeout", "abort")]
    if retry:
        ctx.count("retried_alone", len(retry))
        for l in retry[:40]:
            r = vlib.run_exe(vlib.VH, [l], timeout=200, shards=1, env={"VH_PANIC_INFO": "1", "VH_CASE_TIMEOUT_MS": "60000"})
            impl.update(r)
    for lid, (f, p, kind, path, rd) in meta.items():
        out, key = classify_answer(impl.get(lid))
        ctx.count("outcome:" + out)
        ctx.traces += 1
        if out in ("ok", "err"):
            ctx.nontrivial(lid + kind)
            continue
        if key in known:
            ctx.known_hits[key] = {"file": os.path.basename(p), "mutation": kind}
            continue
        if key not in seen_new:
            keep = os.path.join(vlib.ROOT, "replays", "C06-" + hashlib.sha1(key.encode()).hexdigest()[:10] + "." + FMT_EXT[f])
            os.makedirs(os.path.dirname(keep), exist_ok=True)
            shutil.copy(path, keep)
            seen_new[key] = True
            ctx.violations.append({"case": "open %s %s everything" % (rd, keep), "expected": "Ok or Err",
                                   "actual": (impl.get(lid) or "abort").split(";;")[-1][:300], "model": "",
                                   "what": "%s at %s (mutation %s of %s)" % (out, key, kind, os.path.basename(p))})
    ctx.sample({"mutations_per_file": n_mut, "files": len(srcs), "example": lines[0] if lines else ""})
    shutil.rmtree(tmp, ignore_errors=True)

def run_function_level(ctx):
    """malformed streams of the other properties' modules (model predicts the outcome class)"""
    pdir = os.path.dirname(os.path.abspath(__file__))
    for f in sorted(os.listdir(pdir)):
        if not re.match(r"c\d+\.py$", f) or f == "c06.py":
            continue
        try:
            mod = importlib.import_module("props." + f[:-3])
        except Exception as e:
            ctx.notes.append("could not import %s: %s" % (f, e))
            continue
        if hasattr(mod, "malformed"):
            before = (len(ctx.violations), len(ctx.disagreements))
            try:
                mod.malformed(ctx)
                ctx.count("function_level:" + f[:-3])
            except Exception as e:
                ctx.notes.append("malformed stream of %s failed to run: %s" % (f, e))
            # a disagreement on a malformed input where the code panics and the model does not is
            # a C06 violation with that input as the replay
            for dg in ctx.disagreements[before[1]:]:
                if str(dg.get("impl", "")).startswith(("panic", "alloc", "timeout", "abort")):
                    ctx.violations.append({"case": dg.get("case"), "expected": "Ok or Err (model: %s)" % str(dg.get("model"))[:80],
                                           "actual": str(dg.get("impl"))[:200], "model": str(dg.get("model"))[:200],
                                           "what": "unpredicted failure in %s" % dg.get("function", f[:-3])})

def run(ctx):
    run_function_level(ctx)
    run_files(ctx, ctx.scale(12, 300), "m")

def search(ctx):
    run_files(ctx, ctx.scale(60, 600), "s")

def replay(ctx, rep):
    case = rep.get("case", "")
    m = re.match(r"open (\S+) (\S+) everything", case)
    if not m:
        print("cannot replay:", case); return 2
    line = "r\topen\t%s\t%s\teverything" % (m.group(1), m.group(2))
    out = ctx.run_impl([line], env={"VH_PANIC_INFO": "1", "VH_CASE_TIMEOUT_MS": "10000"})
    print(out.get("r"))
    o, key = classify_answer(out.get("r"))
    print("outcome:", o, "key:", key)
    return 0 if o in ("ok", "err") else 1
