(* XlsbRec.v — model of the XLSB worksheet reader of calamine:
     src/xlsb/mod.rs         RecordIter::{read_u8, read_type, fill_buffer, next_skip_blocks},
                             read_shared_strings, worksheet_range_ref / worksheet_range
                             (wide_str is Utf16.wide_str; cell_format is [cell_fmt] below)
     src/xlsb/cells_reader.rs XlsbCellsReader::{new, next_cell}, parse_dimensions
     src/lib.rs              Dimensions::len, Range::from_sparse (Range.v)
   then the specification side: logical cells, physical items, the encoder (every framing form),
   which layouts are legal, the expected range.
   Definitions only (executable, extracted); proofs are in XlsbRec_proofs.v.

   One operation is outside the model and enters as a Section variable:
     fdiv100 : bits of x / 100.0 from the bits of x (RK.v; RKFloat.v gives the Flocq instance).
   Not modelled: the zip container and the XML relationship part, workbook.bin (sheet names and
   paths), styles.bin (C10 owns the number-format decision; here the style table is the list
   e_formats), the formula text (next_formula / parse_formula, C14), allocation
   (vec![0; len] in fill_buffer, cells.reserve).
   Errors are classes (the check compares classes, never messages): Err 1 = I/O (end of part),
   Err 1 = WideStr (Utf16.ERR_WIDESTR), Err 2 = CellError, Err 3 = Unrecognized (check_len, a
   shared-string index outside the table).
   The model follows /repo after the C06 hardening (commits e31f96c, a869bc8, b7399c9, acf1eed and
   the SST / wide-string ones) and after the fix "xlsb short cell records (BrtShortBlank ..
   BrtShortIsst) were skipped": next_cell keeps next_col, the column right of the last cell record
   of the row, and reads a record 0x0C..0x12 as its long twin 0x01..0x07 at that column
   ([unshort], [cells_loop]).  Every record body is checked against the fixed fields read from
   it before they are read.  The index / slice sites themselves are still guarded steps yielding
   [Panic] here; XlsbRec_proofs.v proves that none of them is reachable any more
   (no_panic_framing, no_panic_reader, no_panic_sst). *)
From Calamine Require Import Prelude Range Range_spec RK Utf16 HeaderRow.
Open Scope N_scope.
Set Implicit Arguments.

Definition lenN (A : Type) (l : list A) : N := N.of_nat (length l).

(* a k-byte little-endian field at offset off (every use is preceded by the length test that
   makes the Rust slice succeed) *)
Definition rd (k off : nat) (b : list N) : N := le_val (firstn k (skipn off b)).

(* DataRef<'a>: the values of worksheet_range_ref; SharedString borrows from the string table *)
Inductive dref : Type :=
| RVal (d : data)
| RShared (s : list N).

(* impl From<DataRef> for Data *)
Definition to_data (v : dref) : data :=
  match v with RVal d => d | RShared s => DString s end.

Definition cellr : Type := (pos * dref)%type.

Record env : Type := mkEnv {
  e_formats : list cellfmt;      (* self.formats: one CellFormat per BrtXF of styles.bin *)
  e_1904 : bool;                 (* self.is_1904 *)
  e_strings : list (list N)      (* self.strings (result of read_shared_strings) *)
}.

(* ================= RecordIter ================= *)
Definition ERR_IO : N := 1.
Definition ERR_CELL : N := 2.
Definition ERR_LEN : N := 3.

(* check_len(typ, len, expected): Err(Unrecognized) when the record holds fewer bytes than the
   fields read from it *)
Definition check_len (len expected : N) : outcome unit :=
  if len <? expected then Err ERR_LEN else Ok tt.

(* read_u8: read_exact of one byte; at the end of the part an UnexpectedEof error *)
Definition read_u8 (s : list N) : outcome (N * list N) :=
  match s with
  | [] => Err ERR_IO
  | b :: t => Ok (b, t)
  end.

(* read_type: one byte, or two when the high bit of the first is set:
   (b & 0x7F) + ((b2 & 0x7F) << 7) *)
Definition read_type (s : list N) : outcome (N * list N) :=
  do bt <- read_u8 s;
  if 128 <=? fst bt then
    do bt2 <- read_u8 (snd bt);
    Ok (fst bt mod 128 + (fst bt2 mod 128) * 128, snd bt2)
  else Ok (fst bt, snd bt).

(* the length loop of fill_buffer: for i in 1..4 { if b & 0x80 == 0 break; b = read_u8;
   len += (b & 0x7F) << (7 * i) } — at most three continuation bytes; the high bit of the
   fourth byte is ignored *)
Fixpoint read_len_more (n : nat) (i : N) (b len : N) (s : list N) : outcome (N * list N) :=
  match n with
  | O => Ok (len, s)
  | S n' =>
      if b <? 128 then Ok (len, s) else
      do bt <- read_u8 s;
      read_len_more n' (i + 1) (fst bt) (len + (fst bt mod 128) * 2 ^ (7 * i)) (snd bt)
  end.

Definition read_len (s : list N) : outcome (N * list N) :=
  do bt <- read_u8 s;
  read_len_more 3 1 (fst bt) (fst bt mod 128) (snd bt).

(* read_exact(&mut buf[..n]): the next n bytes, None when the part is shorter.  Tail recursive
   (record bodies of several megabytes are run through the extracted code). *)
Fixpoint split_acc (s : list N) (n : N) (acc : list N) {struct s} : option (list N * list N) :=
  if n =? 0 then Some (rev_append acc [], s) else
  match s with
  | [] => None
  | x :: t => split_acc t (n - 1) (x :: acc)
  end.
Definition split_at (s : list N) (n : N) : option (list N * list N) := split_acc s n [].

(* fill_buffer(&mut buf): the length, then  if buf.len() < len { buf.clear(); take(len).read_to_end(buf) }
   (an incomplete read is an UnexpectedEof error) else read_exact(&mut buf[..len]).  A longer
   buffer keeps its tail: (len, new buf, rest of part). *)
Definition fill_buffer (s buf : list N) : outcome (N * list N * list N) :=
  do ls <- read_len s;
  match split_at (snd ls) (fst ls) with
  | None => Err ERR_IO
  | Some (payload, rest) =>
      Ok (fst ls,
          payload ++ (if lenN buf <? fst ls then [] else skipn (N.to_nat (fst ls)) buf),
          rest)
  end.

(* read_type + fill_buffer on a cleared buffer (next_cell does self.buf.clear() first):
   (record id, payload, rest of part) *)
Definition next_record (s : list N) : outcome (N * list N * list N) :=
  do ts <- read_type s;
  do f <- fill_buffer (snd ts) [];
  Ok (fst ts, snd (fst f), snd f).

(* every record of a part up to the first read error, as the hook verif_hooks::xlsb::records
   collects them *)
Fixpoint all_records (fuel : nat) (s : list N) : list (N * list N) :=
  match fuel with
  | O => []
  | S f =>
      match next_record s with
      | Ok (t, b, rest) => (t, b) :: all_records f rest
      | _ => []
      end
  end.

(* bounds.iter().find(|b| b.0 == typ).and_then(|b| b.1) *)
Fixpoint find_bound (bounds : list (N * option N)) (typ : N) : option N :=
  match bounds with
  | [] => None
  | (t, e) :: r => if t =? typ then e else find_bound r typ
  end.

(* while self.read_type()? != end { fill_buffer }; fill_buffer *)
Fixpoint skip_until (fuel : nat) (e : N) (s buf : list N) : outcome (list N * list N) :=
  match fuel with
  | O => OutOfFuel
  | S f =>
      do ts <- read_type s;
      do fb <- fill_buffer (snd ts) buf;
      if fst ts =? e then Ok (snd (fst fb), snd fb)
      else skip_until f e (snd fb) (snd (fst fb))
  end.

(* next_skip_blocks(record_type, bounds, buf): (len, buf, rest of part) *)
Fixpoint next_skip_blocks (fuel : nat) (rt : N) (bounds : list (N * option N)) (s buf : list N)
  : outcome (N * list N * list N) :=
  match fuel with
  | O => OutOfFuel
  | S f =>
      do ts <- read_type s;
      do fb <- fill_buffer (snd ts) buf;
      if fst ts =? rt then Ok fb else
      match find_bound bounds (fst ts) with
      | Some e =>
          do sb <- skip_until f e (snd fb) (snd (fst fb));
          next_skip_blocks f rt bounds (snd sb) (fst sb)
      | None => next_skip_blocks f rt bounds (snd fb) (snd (fst fb))
      end
  end.

(* ================= XlsbCellsReader ================= *)
(* parse_dimensions(&buf[..16]): (start, end) = ((rwFirst, colFirst), (rwLast, colLast)); the
   caller has checked the record length *)
Definition parse_dims (buf : list N) : outcome (pos * pos) :=
  if lenN buf <? 16 then Panic else
  Ok ((rd 4 0 buf, rd 4 8 buf), (rd 4 4 buf, rd 4 12 buf)).

(* Dimensions::len after commit acf1eed: saturating u64 arithmetic, total.  Its value only decides
   whether worksheet_range_ref reserves capacity; it does not reach the result. *)
Definition dims_len (d : pos * pos) : N :=
  let rows := (fst (snd d) + 1) - fst (fst d) in
  let cols := (snd (snd d) + 1) - snd (fst d) in
  N.min (rows * cols) U64MAX.

Definition BOUNDS2 : list (N * option N) :=
  [(133, Some 134); (37, Some 38); (485, None); (390, Some 391)].

(* XlsbCellsReader::new after the fix "a worksheet part without the optional BrtWsDim record could
   not be read": one scan up to BrtBeginSheetData (0x91).  The first BrtWsDim (0x94) met on the way
   is length-checked and gives the dimensions; the Views / AC / ColInfos blocks are discarded up
   to their closing record (the match of the code is find_bound BOUNDS2); everything else is
   skipped.  (dimensions if any, rest of part) *)
Fixpoint scan_header (fuel : nat) (s buf : list N) (dims : option (pos * pos))
  : outcome (option (pos * pos) * list N) :=
  match fuel with
  | O => OutOfFuel
  | S f =>
      do ts <- read_type s;
      do fb <- fill_buffer (snd ts) buf;
      if fst ts =? 145 then Ok (dims, snd fb) else
      if (fst ts =? 148) && (match dims with None => true | Some _ => false end) then
        do _ <- check_len (fst (fst fb)) 16;
        do d <- parse_dims (snd (fst fb));
        scan_header f (snd fb) (snd (fst fb)) (Some d)
      else
      match find_bound BOUNDS2 (fst ts) with
      | Some e =>
          do sb <- skip_until f e (snd fb) (snd (fst fb));
          scan_header f (snd sb) (fst sb) dims
      | None => scan_header f (snd fb) (snd (fst fb)) dims
      end
  end.

(* dimensions.unwrap_or_default() *)
Definition reader_new (fuel : nat) (s : list N) : outcome (pos * pos * list N) :=
  do r <- scan_header fuel s [] None;
  Ok (match fst r with Some d => d | None => ((0, 0), (0, 0)) end, snd r).

(* cell_format: iStyleRef is the 24-bit integer at bytes 4..7 of the cell *)
Definition cell_fmt (formats : list cellfmt) (buf : list N) : option cellfmt :=
  nthN formats (rd 3 4 buf).

(* the match on buf[8] of the BrtCellError / BrtFmlaError arm *)
Definition parse_cerr (b : N) : outcome cerr :=
  if b =? 0 then Ok ENull
  else if b =? 7 then Ok EDiv0
  else if b =? 15 then Ok EValue
  else if b =? 23 then Ok ERef
  else if b =? 29 then Ok EName
  else if b =? 36 then Ok ENum
  else if b =? 42 then Ok ENA
  else if b =? 43 then Ok EGettingData
  else Err ERR_CELL.

(* what one iteration of next_cell's loop does with a record *)
Inductive cstep : Type :=
| CCell (v : dref)          (* break value: a cell at (self.row, read_u32(buf)) *)
| CBlank (col : N)          (* BrtCellBlank of at least 4 bytes: no value, next_col moves *)
| CRow (r : N)              (* BrtRowHdr *)
| CEnd                      (* BrtEndSheetData *)
| CSkip.                    (* continue *)

(* the head of next_cell's loop after the fix "xlsb short cell records were skipped": a record
   0x0C..0x12 (BrtShortBlank .. BrtShortIsst) is rewritten into its long twin 0x01..0x07:
     self.buf.splice(0..0, self.next_col.to_le_bytes()); self.typ -= 0x000B; len += 4
   (the buffer was cleared before fill_buffer, so it holds exactly the record) *)
Definition is_short (typ : N) : bool := (12 <=? typ) && (typ <=? 18).

Definition unshort (typ : N) (buf : list N) (ncol : N) : N * list N :=
  if is_short typ then (typ - 11, le_bytes 4 ncol ++ buf) else (typ, buf).

(* u32::wrapping_add(1) *)
Definition wrap_succ32 (c : N) : N := (c + 1) mod 4294967296.

Section Xlsb.
Variable fdiv100 : N -> N.

(* the BrtCellRk arm on the four RK bytes buf[8..12]:
     d100 = buf[8] & 1; is_int = buf[8] & 2; buf[8] &= 0xFC;
     int:   v = read_i32(buf[8..12]) >> 2;  d100: (v as f64) / 100.0 (always a float, unlike
            xls rk_num);  else the integer (wrapped by the cell format like format_excel_i64)
     float: the double whose high half is buf[8..12];  d100: / 100.0 *)
Definition xrk_val (b8 b9 b10 b11 : N) : rkval :=
  let d100 := N.odd b8 in
  let is_int := N.testbit b8 1 in
  let w := N.land b8 252 + 256 * b9 + 65536 * b10 + 16777216 * b11 in
  if is_int then
    let v := Z.shiftr (to_i32 w) 2 in
    if d100 then RFloat (fdiv100 (z2f v)) else RInt v
  else
    let bits := w * 4294967296 in
    RFloat (if d100 then fdiv100 bits else bits).

(* the same on a 32-bit RK word *)
Definition xrk_decode (w : N) : rkval :=
  xrk_val (w mod 256) (w / 256 mod 256) (w / 65536 mod 256) (w / 16777216).

Variable en : env.

(* size of the fixed fields read from the records decoded by next_cell *)
Definition expected_len (typ : N) : N :=
  if (typ =? 2) || (typ =? 7) then 12
  else if (typ =? 3) || (typ =? 11) || (typ =? 4) || (typ =? 10) then 9
  else if (typ =? 5) || (typ =? 9) then 16
  else if (typ =? 6) || (typ =? 8) then 8
  else if typ =? 0 then 4
  else 0.

(* the body of the loop of next_cell after read_type / fill_buffer: check_len("cell record", len,
   expected) first (the buffer was cleared, so it holds exactly the len bytes of the record) *)
Definition record_step (typ : N) (buf : list N) : outcome cstep :=
  do _ <- check_len (lenN buf) (expected_len typ);
  if typ =? 2 then                                            (* BrtCellRk *)
    if lenN buf <? 12 then Panic else
    Ok (CCell (RVal (rk_wrap (xrk_val (nth 8 buf 0) (nth 9 buf 0) (nth 10 buf 0) (nth 11 buf 0))
                             (cell_fmt (e_formats en) buf) (e_1904 en))))
  else if (typ =? 3) || (typ =? 11) then                      (* BrtCellError | BrtFmlaError *)
    if lenN buf <? 9 then Panic else
    do e <- parse_cerr (nth 8 buf 0);
    Ok (CCell (RVal (DError e)))
  else if (typ =? 4) || (typ =? 10) then                      (* BrtCellBool | BrtFmlaBool *)
    if lenN buf <? 9 then Panic else
    Ok (CCell (RVal (DBool (negb (nth 8 buf 0 =? 0)))))
  else if (typ =? 5) || (typ =? 9) then                       (* BrtCellReal | BrtFmlaNum *)
    if lenN buf <? 16 then Panic else
    Ok (CCell (RVal (format_excel_f64 (rd 8 8 buf) (cell_fmt (e_formats en) buf) (e_1904 en))))
  else if (typ =? 6) || (typ =? 8) then                       (* BrtCellSt | BrtFmlaString *)
    if lenN buf <? 8 then Panic else
    do w <- wide_str (skipn 8 buf);
    Ok (CCell (RVal (DString (fst w))))
  else if typ =? 7 then                                       (* BrtCellIsst *)
    if lenN buf <? 12 then Panic else
    match nthN (e_strings en) (rd 4 8 buf) with
    | Some s => Ok (CCell (RShared s))
    | None => Err ERR_LEN                                     (* self.strings.get(isst).ok_or_else *)
    end
  else if typ =? 0 then                                       (* BrtRowHdr *)
    if lenN buf <? 4 then Panic else Ok (CRow (rd 4 0 buf))
  else if typ =? 1 then                                       (* BrtCellBlank: if len >= 4 *)
    if 4 <=? lenN buf then Ok (CBlank (rd 4 0 buf)) else Ok CSkip
  else if typ =? 146 then Ok CEnd                             (* BrtEndSheetData *)
  else Ok CSkip.

(* next_cell called until it returns None (the loops of worksheet_range_ref).  No arm of
   next_cell produces DataRef::Empty, so the `val: DataRef::Empty => ()` arm of the caller is
   dead.  A row above 0x100000 ends the sheet.  An error or panic anywhere fails the call, so
   the cells may be consed in front of the recursive result.
   State: self.row and self.next_col (the column right of the last cell record of the row: 0
   after BrtRowHdr, col.wrapping_add(1) after every cell record, BrtCellBlank included). *)
Fixpoint cells_loop (fuel : nat) (s : list N) (row ncol : N) : outcome (list cellr) :=
  match fuel with
  | O => OutOfFuel
  | S f =>
      do r <- next_record s;
      let tb := unshort (fst (fst r)) (snd (fst r)) ncol in
      do st <- record_step (fst tb) (snd tb);
      match st with
      | CCell v =>
          let col := rd 4 0 (snd tb) in
          do more <- cells_loop f (snd r) row (wrap_succ32 col);
          Ok (((row, col), v) :: more)
      | CBlank col => cells_loop f (snd r) row (wrap_succ32 col)
      | CRow r' => if 1048576 <? r' then Ok [] else cells_loop f (snd r) r' 0
      | CEnd => Ok []
      | CSkip => cells_loop f (snd r) row ncol
      end
  end.

(* worksheet_cells_reader + dimensions().len() (total, only a capacity hint) + the cell loop:
   the cells in stream order *)
Definition sheet_cells (s : list N) : outcome (list cellr) :=
  let fuel := S (length s) in
  do nr <- reader_new fuel s;
  let _ := dims_len (fst nr) in
  cells_loop fuel (snd nr) 0 0.

(* Xlsb::worksheet_cells_reader, then XlsbCellsReader::next_cell until it returns None (the
   dimensions are not looked at) *)
Definition reader_cells (s : list N) : outcome (list cellr) :=
  let fuel := S (length s) in
  do nr <- reader_new fuel s;
  cells_loop fuel (snd nr) 0 0.

(* ReaderRef::worksheet_range_ref *)
Definition worksheet_range_ref (h : header_row) (s : list N) : outcome (range dref) :=
  do cells <- sheet_cells s;
  from_sparse (RVal DEmpty) (lazy_cells (RVal DEmpty) h cells).

End Xlsb.

(* Reader::worksheet_range: the same range with every value converted by Data::from *)
Definition map_range (A B : Type) (f : A -> B) (r : range A) : range B :=
  mkRange (r_start r) (r_end r) (map f (r_inner r)).

Definition worksheet_range (fdiv100 : N -> N) (en : env) (h : header_row) (s : list N)
  : outcome (range data) :=
  do r <- worksheet_range_ref fdiv100 en h s;
  Ok (map_range to_data r).

(* ================= read_shared_strings ================= *)
(* for _ in 0..len { next_skip_blocks(0x13, [(0x23, Some(0x24))]); wide_str(&buf[1..]) } —
   the buffer is not cleared between items: a shorter item leaves the tail of a longer one *)
Fixpoint sst_items (fuel : nat) (count : N) (s buf : list N) : outcome (list (list N)) :=
  if count =? 0 then Ok [] else
  match fuel with
  | O => OutOfFuel
  | S f =>
      do a <- next_skip_blocks (S f) 19 [(35, Some 36)] s buf;
      do _ <- check_len (fst (fst a)) 1;                        (* check_len("BrtSSTItem", len, 1) *)
      match snd (fst a) with
      | [] => Panic                                           (* &buf[1..] on an empty buffer *)
      | _ :: tl =>
          do w <- wide_str tl;
          do more <- sst_items f (count - 1) (snd a) (snd (fst a));
          Ok (fst w :: more)
      end
  end.

(* None: the package has no xl/sharedStrings.bin *)
Definition read_shared_strings (part : option (list N)) : outcome (list (list N)) :=
  match part with
  | None => Ok []
  | Some s =>
      let fuel := S (length s) in
      do a <- next_skip_blocks fuel 159 [] s [];                (* BrtBeginSst *)
      do _ <- check_len (fst (fst a)) 8;                        (* check_len("BrtBeginSst", len, 8) *)
      if lenN (snd (fst a)) <? 8 then Panic else                (* &buf[4..8] *)
      sst_items fuel (rd 4 4 (snd (fst a))) (snd a) (snd (fst a))
  end.

(* Xlsb::new (the shared strings) followed by worksheet_range_ref on one sheet part *)
Definition workbook_range_ref (fdiv100 : N -> N) (formats : list cellfmt) (is1904 : bool)
  (sst : option (list N)) (h : header_row) (sheet : list N) : outcome (range dref) :=
  do strings <- read_shared_strings sst;
  worksheet_range_ref fdiv100 (mkEnv formats is1904 strings) h sheet.

(* ================= specification side ================= *)

(* ---- record framing: every form ---- *)
(* a record id below 2^14 in its two-byte form, an id below 128 also in its one-byte form; a
   length below 2^(7(k+1)) with k continuation bytes, k <= 3 (minimal and padded forms) *)
Record frm : Type := mkFrm { f_wide : bool; f_lenb : nat }.

Definition enc_id (wide : bool) (id : N) : list N :=
  if wide then [id mod 128 + 128; id / 128] else [id].

Fixpoint enc_len (k : nat) (n : N) : list N :=
  match k with
  | O => [n]
  | S k' => (n mod 128 + 128) :: enc_len k' (n / 128)
  end.

Definition frame (fr : frm) (id : N) (body : list N) : list N :=
  enc_id (f_wide fr) id ++ enc_len (f_lenb fr) (lenN body) ++ body.

Definition wf_frame (fr : frm) (id : N) (body : list N) : bool :=
  (id <? 16384) && (f_wide fr || (id <? 128)) &&
  (Nat.leb (f_lenb fr) 3) && (lenN body <? 128 ^ (N.of_nat (f_lenb fr) + 1)).

(* the shortest form *)
Definition min_frm (id : N) (body : list N) : frm :=
  mkFrm (128 <=? id)
        (if lenN body <? 128 then 0%nat else if lenN body <? 16384 then 1%nat
         else if lenN body <? 2097152 then 2%nat else 3%nat).

Definition rawrec : Type := (frm * N * list N)%type.
Definition enc_raw (r : rawrec) : list N := frame (fst (fst r)) (snd (fst r)) (snd r).
Definition wf_raw (r : rawrec) : bool := wf_frame (fst (fst r)) (snd (fst r)) (snd r).

(* ---- cell values as stored ---- *)
Inductive cval : Type :=
| VBlank                          (* BrtCellBlank  0x01 *)
| VRk (f : rk_form)               (* BrtCellRk     0x02 *)
| VErr (e : cerr)                 (* BrtCellError  0x03 *)
| VBool (b : bool)                (* BrtCellBool   0x04 *)
| VReal (bits : N)                (* BrtCellReal   0x05 *)
| VSt (s : list N)                (* BrtCellSt     0x06: inline string (scalar values) *)
| VIsst (i : N)                   (* BrtCellIsst   0x07 *)
| VFmlaStr (s : list N)           (* BrtFmlaString 0x08 *)
| VFmlaNum (bits : N)             (* BrtFmlaNum    0x09 *)
| VFmlaBool (b : bool)            (* BrtFmlaBool   0x0A *)
| VFmlaErr (e : cerr).            (* BrtFmlaError  0x0B *)

Definition cval_id (v : cval) : N :=
  match v with
  | VBlank => 1 | VRk _ => 2 | VErr _ => 3 | VBool _ => 4 | VReal _ => 5 | VSt _ => 6
  | VIsst _ => 7 | VFmlaStr _ => 8 | VFmlaNum _ => 9 | VFmlaBool _ => 10 | VFmlaErr _ => 11
  end.

Definition err_code (e : cerr) : N :=
  match e with
  | ENull => 0 | EDiv0 => 7 | EValue => 15 | ERef => 23
  | EName => 29 | ENum => 36 | ENA => 42 | EGettingData => 43
  end.

Definition cval_bytes (v : cval) : list N :=
  match v with
  | VBlank => []
  | VRk f => le_bytes 4 (rk_encode f)
  | VErr e | VFmlaErr e => [err_code e]
  | VBool b | VFmlaBool b => [flag b]
  | VReal bits | VFmlaNum bits => le_bytes 8 bits
  | VSt s | VFmlaStr s => enc_wide s
  | VIsst i => le_bytes 4 i
  end.

(* Cell structure (MS-XLSB 2.5.9): column, 24-bit iStyleRef, one byte of flags *)
Definition cell_head (col style fl : N) : list N := le_bytes 4 col ++ le_bytes 3 style ++ [fl].

(* the same without the column: the head of the short cell records *)
Definition short_head (style fl : N) : list N := le_bytes 3 style ++ [fl].

(* the value kinds that have a short record: BrtShortBlank 0x0C, BrtShortRk 0x0D, BrtShortError
   0x0E, BrtShortBool 0x0F, BrtShortReal 0x10, BrtShortSt 0x11, BrtShortIsst 0x12 — the ids of
   BrtCellBlank .. BrtCellIsst plus 11; formula cells always carry their column *)
Definition shortable (v : cval) : bool := cval_id v <=? 7.

(* physical items of the cell table, in stream order.  [tail] is whatever follows the fields the
   value reader looks at: grbit + formula + extra for the BrtFmla* records, rich-text runs for
   BrtCellSt, the rest of the row header (ixfe, miyRw, flags, column spans) for BrtRowHdr. *)
Inductive item : Type :=
| IRow (row : N) (tail : list N)
| ICell (col style fl : N) (v : cval) (tail : list N)
| IShort (style fl : N) (v : cval) (tail : list N)
                                                (* a short cell record: the cell stands in the
                                                   column right after the previous cell of the row *)
| IOther (id : N) (body : list N).              (* a record that is not part of the cell table
                                                   grammar (see cell_table_id) *)

Definition item_id (it : item) : N :=
  match it with
  | IRow _ _ => 0
  | ICell _ _ _ v _ => cval_id v
  | IShort _ _ v _ => cval_id v + 11
  | IOther id _ => id
  end.

Definition item_body (it : item) : list N :=
  match it with
  | IRow row tail => le_bytes 4 row ++ tail
  | ICell col style fl v tail => cell_head col style fl ++ cval_bytes v ++ tail
  | IShort style fl v tail => short_head style fl ++ cval_bytes v ++ tail
  | IOther _ body => body
  end.

Definition enc_item (x : frm * item) : list N := frame (fst x) (item_id (snd x)) (item_body (snd x)).

(* records of the part before the cell table *)
Definition block_end (start : N) : option N := find_bound BOUNDS2 start.

Inductive hrec : Type :=
| HRec (r : rawrec)                               (* one record that is not a block opener *)
| HBlock (open : rawrec) (inner : list rawrec) (close : frm * list N).
                                                  (* BrtBeginWsViews .. BrtEndWsViews, AC block,
                                                     BrtBeginColInfos .. BrtEndColInfos *)
Definition enc_hrec (h : hrec) : list N :=
  match h with
  | HRec r => enc_raw r
  | HBlock o inner c =>
      enc_raw o ++ flat_map enc_raw inner ++
      match block_end (snd (fst o)) with
      | Some e => frame (fst c) e (snd c)
      | None => []
      end
  end.

(* BrtWsDim: rwFirst, rwLast, colFirst, colLast *)
Definition dim_body (d : pos * pos) (tail : list N) : list N :=
  le_bytes 4 (fst (fst d)) ++ le_bytes 4 (fst (snd d)) ++
  le_bytes 4 (snd (fst d)) ++ le_bytes 4 (snd (snd d)) ++ tail.

Record layout : Type := mkLayout {
  l_pre1 : list hrec;                                  (* BrtBeginSheet, BrtWsProp, ... *)
  l_dim : option (frm * (pos * pos) * list N);         (* BrtWsDim (optional): declared (start, end), tail *)
  l_pre2 : list hrec;                                  (* views, format info, column infos, ... *)
  l_begin : frm * list N;                              (* BrtBeginSheetData *)
  l_items : list (frm * item);
  l_end : frm * list N;                                (* BrtEndSheetData *)
  l_trailer : list N                                   (* the rest of the part, never read *)
}.

(* E *)
Definition encode_sheet (c : layout) : list N :=
  flat_map enc_hrec (l_pre1 c) ++
  match l_dim c with
  | Some (fr, d, tail) => frame fr 148 (dim_body d tail)
  | None => []
  end ++
  flat_map enc_hrec (l_pre2 c) ++
  frame (fst (l_begin c)) 145 (snd (l_begin c)) ++
  flat_map enc_item (l_items c) ++
  frame (fst (l_end c)) 146 (snd (l_end c)) ++
  l_trailer c.

(* BrtBeginSst (cstTotal, cstUnique) and one BrtSSTItem per string (flags byte 0, the text, then
   whatever rich-text / phonetic data follows) *)
Definition enc_sst_item (x : frm * list N * list N) : list N :=
  frame (fst (fst x)) 19 ([0] ++ enc_wide (snd (fst x)) ++ snd x).

Definition encode_sst (total : N) (items : list (frm * list N * list N)) (trailer : list N) : list N :=
  frame (mkFrm true 0) 159 (le_bytes 4 total ++ le_bytes 4 (lenN items)) ++
  flat_map enc_sst_item items ++ trailer.

Section Spec.
Variable fdiv100 : N -> N.
Variable en : env.

(* what an RK form denotes in xlsb: an integer stays an integer; with the /100 flag always the
   double quotient *)
Definition xrk_form_value (f : rk_form) : rkval :=
  match f with
  | RkI v false => RInt v
  | RkI v true => RFloat (fdiv100 (z2f v))
  | RkF hi false => RFloat (hi * 17179869184)
  | RkF hi true => RFloat (fdiv100 (hi * 17179869184))
  end.

(* the value a stored cell stands for; a formula cell contributes its cached value exactly like
   a constant cell of the same type *)
Definition cval_data (style : N) (v : cval) : option dref :=
  let fmt := nthN (e_formats en) style in
  match v with
  | VBlank => None
  | VRk f => Some (RVal (rk_wrap (xrk_form_value f) fmt (e_1904 en)))
  | VErr e | VFmlaErr e => Some (RVal (DError e))
  | VBool b | VFmlaBool b => Some (RVal (DBool b))
  | VReal bits | VFmlaNum bits => Some (RVal (format_excel_f64 bits fmt (e_1904 en)))
  | VSt s | VFmlaStr s => Some (RVal (DString s))
  | VIsst i => match nthN (e_strings en) i with Some s => Some (RShared s) | None => None end
  end.

(* the logical cells of an item list in stream order, under the current row and the column of
   the previous cell record of that row ([prev] = None: no cell record since the row header).  A
   short record stands in the column right after the previous cell record — a blank one counts —
   whatever other records lie between them; without a previous cell in its row the format gives
   it no position (wf_layout excludes that) and it denotes nothing. *)
Fixpoint denote (row : N) (prev : option N) (items : list (frm * item)) : list cellr :=
  match items with
  | [] => []
  | (_, IRow r _) :: t => denote r None t
  | (_, ICell col style _ v _) :: t =>
      match cval_data style v with
      | Some d => ((row, col), d) :: denote row (Some col) t
      | None => denote row (Some col) t
      end
  | (_, IShort style _ v _) :: t =>
      match prev with
      | Some p =>
          match cval_data style v with
          | Some d => ((row, p + 1), d) :: denote row (Some (p + 1)) t
          | None => denote row (Some (p + 1)) t
          end
      | None => denote row None t
      end
  | (_, IOther _ _) :: t => denote row prev t
  end.

Definition logical (c : layout) : list cellr := denote 0 None (l_items c).

(* ---- which layouts are legal ---- *)
(* model side: the ids next_cell acts on — BrtRowHdr, BrtCellBlank .. BrtFmlaError, the short
   records BrtShortBlank .. BrtShortIsst, BrtEndSheetData.  Every other id reaches the
   catch-all arm (ignorable_transparent). *)
Definition interpreted (t : N) : bool := (t <=? 18) || (t =? 146).

(* format side: the record ids to which the CELLTABLE grammar of MS-XLSB gives a meaning of its
   own: BrtRowHdr 0, the cell records 1..11, the short cell records 12..18, BrtCellRString 62 (a
   cell with a rich inline string; no writer is known to use it and next_cell does not read it:
   it is neither a cell nor an ignorable record of this specification), BrtEndSheetData 146.
   Only the other ids may be written as IOther. *)
Definition cell_table_id (t : N) : bool := (t <=? 18) || (t =? 62) || (t =? 146).

Definition wf_cval (v : cval) : bool :=
  match v with
  | VBlank | VErr _ | VBool _ | VFmlaBool _ | VFmlaErr _ => true
  | VRk f => legal_form f
  | VReal bits | VFmlaNum bits => bits <? 18446744073709551616
  | VSt s | VFmlaStr s => forallb scalarb s && (utf16_len s <=? 32767)
  | VIsst i => (i <? lenN (e_strings en)) && (i <? 4294967296)
  end.

Definition wf_item (x : frm * item) : bool :=
  wf_frame (fst x) (item_id (snd x)) (item_body (snd x)) &&
  match snd x with
  | IRow row _ => row <? 1048576
  | ICell col style fl v _ => (col <? 16384) && (style <? 16777216) && (fl <? 256) && wf_cval v
  | IShort style fl v _ => (style <? 16777216) && (fl <? 256) && wf_cval v && shortable v
  | IOther id _ => negb (cell_table_id id)
  end.

(* a short record follows a cell record of its row (records outside the cell grammar may lie
   between) and its column, the previous one + 1, is still inside the sheet *)
Fixpoint shorts_placed (prev : option N) (items : list (frm * item)) : bool :=
  match items with
  | [] => true
  | (_, IRow _ _) :: t => shorts_placed None t
  | (_, ICell col _ _ _ _) :: t => shorts_placed (Some col) t
  | (_, IShort _ _ _ _) :: t =>
      match prev with
      | Some p => (p + 1 <? 16384) && shorts_placed (Some (p + 1)) t
      | None => false
      end
  | (_, IOther _ _) :: t => shorts_placed prev t
  end.

(* the cell table starts with a row header (MS-XLSB: CELLTABLE = BrtBeginSheetData
   *(BrtRowHdr *CELL) BrtEndSheetData) *)
Fixpoint starts_with_row (items : list (frm * item)) : bool :=
  match items with
  | [] => true
  | (_, IRow _ _) :: _ => true
  | (_, IOther _ _) :: t => starts_with_row t
  | (_, ICell _ _ _ _ _) :: _ => false
  | (_, IShort _ _ _ _) :: _ => false
  end.

(* not a BrtWsDim at the top level (inside a block anything goes: it is discarded) *)
Definition no_dim (h : hrec) : bool :=
  match h with HRec r => negb (snd (fst r) =? 148) | HBlock _ _ _ => true end.

Definition wf_hrec (h : hrec) : bool :=
  match h with
  | HRec r =>
      wf_raw r && negb (snd (fst r) =? 145) &&
      match block_end (snd (fst r)) with None => true | Some _ => false end
  | HBlock o inner c =>
      wf_raw o && negb (snd (fst o) =? 145) &&
      match block_end (snd (fst o)) with
      | None => false
      | Some e =>
          wf_frame (fst c) e (snd c) &&
          forallb (fun r => wf_raw r && negb (snd (fst r) =? e)) inner
      end
  end.

(* RfX: rwFirst <= rwLast < 2^20, colFirst <= colLast < 2^14.  Nothing ties it to the cells. *)
Definition wf_dim (x : frm * (pos * pos) * list N) : bool :=
  let d := snd (fst x) in
  wf_frame (fst (fst x)) 148 (dim_body d (snd x)) &&
  (fst (fst d) <=? fst (snd d)) && (fst (snd d) <? 1048576) &&
  (snd (fst d) <=? snd (snd d)) && (snd (snd d) <? 16384).

Definition wf_layout (c : layout) : bool :=
  forallb wf_hrec (l_pre1 c) && forallb no_dim (l_pre1 c) &&
  (* the first BrtWsDim of the part is the one that counts: none before l_dim; none at all when
     the layout has no l_dim *)
  match l_dim c with Some x => wf_dim x | None => forallb no_dim (l_pre2 c) end &&
  forallb wf_hrec (l_pre2 c) &&
  wf_frame (fst (l_begin c)) 145 (snd (l_begin c)) &&
  forallb wf_item (l_items c) && starts_with_row (l_items c) &&
  shorts_placed None (l_items c) &&
  wf_frame (fst (l_end c)) 146 (snd (l_end c)).

Fixpoint sorted_by_rowb (cs : list cellr) : bool :=
  match cs with
  | [] => true
  | c :: rest => match rest with
                 | [] => true
                 | c' :: _ => (fst (fst c) <=? fst (fst c')) && sorted_by_rowb rest
                 end
  end.

(* classes of legal layouts on which the current code is known to violate the property: none.
   (The one class of round 1 — a part without the optional BrtWsDim record could not be read —
   was repaired in /repo by the commit "fix: an xlsb worksheet part without the optional BrtWsDim
   record could not be read"; the model follows the repaired code.)  Kept so that the check's
   plumbing (model|spec|known) stays uniform. *)
Definition known_C03 (c : layout) : option N := None.

(* legal c L : c is a legal layout of the logical sheet L, rows in non-decreasing order
   (MS-XLSB: the BrtRowHdr rows increase; Range::from_sparse takes the first and the last
   cell's rows as the row bounds) *)
Definition legal (c : layout) (L : list cellr) : Prop :=
  wf_layout c = true /\ logical c = L /\ sorted_by_rowb L = true.

End Spec.

(* the expected range of a logical sheet: tight bounding box, every cell at its absolute
   position (the last record wins on a repeated position), the default elsewhere *)
Fixpoint tabulate (A : Type) (f : N -> A) (n : nat) (k : N) : list A :=
  match n with
  | O => []
  | S n' => f k :: tabulate f n' (k + 1)
  end.

Section RangeOf.
Variable T : Type.
Variable d : T.

Definition range_cells (s e : pos) (L : list (pos * T)) : list T :=
  let h := fst e - fst s + 1 in
  let w := snd e - snd s + 1 in
  tabulate (fun k => last_write d L (fst s + k / w, snd s + k mod w)) (N.to_nat (h * w)) 0.

Definition range_of (L : list (pos * T)) : range T :=
  match tight_bbox (map fst L) with
  | None => empty
  | Some (s, e) => mkRange s e (range_cells s e L)
  end.
End RangeOf.

(* the strings a shared-string part stands for *)
Definition sst_strings (items : list (frm * list N * list N)) : list (list N) :=
  map (fun x => snd (fst x)) items.

Definition wf_sst_item (x : frm * list N * list N) : bool :=
  wf_frame (fst (fst x)) 19 ([0] ++ enc_wide (snd (fst x)) ++ snd x) &&
  forallb scalarb (snd (fst x)) && (utf16_len (snd (fst x)) <=? 32767).
