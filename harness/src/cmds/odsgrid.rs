// C04: ODS positions and repeat counts.
//   odsgrid file <path> <desc>      open the .ods file with Ods::new, read sheet "S" through
//                                   worksheet_range and worksheet_formula (desc is the same
//                                   table for the model side; ignored here)
//   odsgrid hook <cells> <cols> <reps>
//                                   call ods::get_range (cfg(calamine_verif) hook) on a vector of
//                                   Data::Int / Data::Empty cells (0 = Empty), offsets and row
//                                   repeat counts, all comma separated
// Output: file: V<range>;;F<range>   hook: <range>
//   range = R[sr,sc,er,ec|c,c/c,c]  or  R[-] when empty; open / read errors print "err".
use crate::util::*;
use calamine::{Data, Ods, Range, Reader};
use std::io::Cursor;

fn range_data(r: &Range<Data>) -> String {
    match (r.start(), r.end()) {
        (Some(s), Some(e)) => {
            let rows: Vec<String> = r
                .rows()
                .map(|row| row.iter().map(data_str).collect::<Vec<_>>().join(","))
                .collect();
            format!("R[{},{},{},{}|{}]", s.0, s.1, e.0, e.1, rows.join("/"))
        }
        _ => "R[-]".to_string(),
    }
}

fn range_string(r: &Range<String>) -> String {
    match (r.start(), r.end()) {
        (Some(s), Some(e)) => {
            let rows: Vec<String> = r
                .rows()
                .map(|row| {
                    row.iter()
                        .map(|s| if s.is_empty() { "E".to_string() } else { format!("S{}", hexstr(s)) })
                        .collect::<Vec<_>>()
                        .join(",")
                })
                .collect();
            format!("R[{},{},{},{}|{}]", s.0, s.1, e.0, e.1, rows.join("/"))
        }
        _ => "R[-]".to_string(),
    }
}

fn nums(s: &str) -> Vec<usize> {
    if s.is_empty() {
        vec![]
    } else {
        s.split(',').map(|x| x.parse::<usize>().unwrap()).collect()
    }
}

pub fn run(args: &[&str]) -> String {
    match args[0] {
        "file" => {
            let bytes = match std::fs::read(args[1]) {
                Ok(b) => b,
                Err(_) => return "nofile".to_string(),
            };
            let mut wb: Ods<_> = match Ods::new(Cursor::new(bytes)) {
                Ok(w) => w,
                Err(_) => return "err".to_string(),
            };
            let v = match wb.worksheet_range("S") {
                Ok(r) => range_data(&r),
                Err(_) => return "err".to_string(),
            };
            let f = match wb.worksheet_formula("S") {
                Ok(r) => range_string(&r),
                Err(_) => return "err".to_string(),
            };
            format!("V{};;F{}", v, f)
        }
        "hook" => {
            let cells: Vec<Data> = nums(args[1])
                .into_iter()
                .map(|n| if n == 0 { Data::Empty } else { Data::Int(n as i64) })
                .collect();
            let cols = nums(args[2]);
            let reps = nums(args[3]);
            let r = calamine::verif_hooks::ods::get_range(cells, &cols, &reps);
            range_data(&r)
        }
        _ => "badcmd".to_string(),
    }
}
