(* Property C14 — formulas are reported at their cell with the A1 text the file encodes.
   This file contains only the property theorems (closed by [exact]), [Check] pins of the main
   statements, non-vacuity examples and [Print Assumptions].
   Models: Col26.v (column letters, cell references, xlsx coordinate parsers), Ptg.v (the two token
   decoders, the expression AST, its rendering and its encoders); proofs: Col26_proofs.v,
   Ptg_proofs.v, FormulaPos_proofs.v (on top of Range_proofs.from_sparse_spec); tables:
   CalamineGen.Tables (regenerated from src/utils.rs on every run) against FtabRef.v (frozen).
   Not covered here (see notes/C14.md): the xlsx/ods conjunct "the stored text is returned
   unchanged" (event-level identity, no model yet) and the record-level decoding of the cell
   position (row/column fields of the FORMULA / BrtFmla records: properties C02 / C03). *)
From Coq Require Import String.
From Calamine Require Import Prelude Range Range_spec Col26 Col26_proofs FtabRef FtabMatch Ptg Ptg_proofs
  FormulaPos_proofs.
From CalamineGen Require Tables.
Open Scope N_scope.

(* ---------------------------------------------------------------- column letters *)
Theorem C14_letters_injective : forall c d, letters c = letters d -> c = d.
Proof. exact letters_injective. Qed.

Theorem C14_letters_inverse : forall c, col_of_letters (letters c) = c.
Proof. exact col_of_letters_letters. Qed.

Theorem C14_push_column_is_letters : forall col buf, col < 2 ^ 32 ->
  push_column col buf = Ok (buf ++ letters col).
Proof. exact push_column_is_letters. Qed.

(* the shared reference helper: 14-bit column, a $ exactly on the absolute components *)
Theorem C14_push_cell_ref_spec : forall r c rr cr buf, c < 16384 -> r < 2 ^ 32 ->
  push_cell_ref r (col_field c rr cr) buf = Ok (buf ++ a1_ref r c rr cr).
Proof. exact push_cell_ref_spec. Qed.

Theorem C14_column_number_to_name_is_letters : forall c, c < 16384 ->
  column_number_to_name c = Ok (letters c).
Proof. exact column_number_to_name_is_letters. Qed.

(* A1 names survive the round trip through the two xlsx functions; the row bound is exact *)
Theorem C14_a1_roundtrip : forall r c, r + 1 < ROW_TEXT_LIMIT -> c < 16384 ->
  exists s, coordinate_to_name (r, c) = Ok s /\ get_row_column s = Ok (r, c).
Proof. exact a1_roundtrip. Qed.

Theorem C14_row_text_overflow : forall r c, ROW_TEXT_LIMIT <= r + 1 ->
  get_row_column (a1_name r c) = Panic.
Proof. exact get_row_column_row_text_overflow. Qed.

Theorem C14_lower_case_agrees : forall range,
  get_row_and_optional_column (map to_lower range) = get_row_and_optional_column range.
Proof. exact get_row_and_optional_column_lower. Qed.

(* ---------------------------------------------------------------- the token decoders *)
Theorem C14_tables_match_reference :
  Tables.FTAB_LEN = FTAB_LEN_REF /\ Tables.FTAB = FTAB_REF /\ Tables.FTAB_ARGC = FTAB_ARGC_REF.
Proof. exact tables_match_reference. Qed.

Theorem C14_rpn_correct_xls : forall show_f64 env e,
  wf_xls env e = true -> N.of_nat (length (encode_xls e)) < 65536 ->
  xls_parse_formula show_f64 env (frame_xls (encode_xls e)) = Ok (render_xls show_f64 env e).
Proof. exact rpn_correct_xls. Qed.

Theorem C14_rpn_correct_xlsb : forall show_f64 env e,
  wf_xlsb env e = true ->
  xlsb_parse_formula show_f64 env (encode_xlsb e) = Ok (render_xlsb show_f64 env e).
Proof. exact rpn_correct_xlsb. Qed.

(* no known class is left: K_STR_WIDE (F21) was fixed by a3d91ee, K_STR_QUOTE by 6ef7f34; the former
   witnesses now satisfy the spec (16-bit strings incl. surrogate pairs and doubled quotes are part
   of the proved grammar) *)
Example C14_former_known_witnesses_nonvacuous :
  let env := {| xe_sheets := []; xe_names := []; xe_xtis := [] |} in
  let benv := {| be_sheets := []; be_names := [] |} in
  xls_parse_formula (fun _ => []) env (frame_xls (encode_xls (EStr true [97; 98]))) = Ok (lit """ab""") /\
  xls_parse_formula (fun _ => []) env (frame_xls (encode_xls (EStr false [97; 34; 98]))) = Ok (lit """a""""b""") /\
  xlsb_parse_formula (fun _ => []) benv (encode_xlsb (EStr false [97; 34; 98])) = Ok (lit """a""""b""") /\
  xls_parse_formula (fun _ => []) env (frame_xls (encode_xls (EStr true [20013; 128512]))) = Ok [34; 20013; 128512; 34] /\
  xlsb_parse_formula (fun _ => []) benv (encode_xlsb (EStr false [65279; 128512])) = Ok [34; 65279; 128512; 34].
Proof. exact former_known_witnesses. Qed.

(* ---------------------------------------------------------------- positions *)
Theorem C14_formula_positions : forall (formulas : list (pos * list N)),
  pre empty (OFromSparse formulas) -> NoDup (map fst formulas) ->
  exists r, from_sparse [] formulas = Ok r /\ rect r = tight_bbox (map fst formulas) /\
    (forall p text, In (p, text) formulas -> get_value r p = Some text) /\
    (forall q, in_rect r q = true -> ~ In q (map fst formulas) -> get_value r q = Some []) /\
    (forall q, in_rect r q = false -> get_value r q = None).
Proof. exact formula_positions. Qed.

(* ---------------------------------------------------------------- non-vacuity *)
Example C14_rpn_nonvacuous :
  wf_xls ex_env_xls ex_expr = true /\
  N.of_nat (length (encode_xls ex_expr)) < 65536 /\
  wf_xlsb ex_env_xlsb ex_expr = true /\
  render_xls (fun _ => []) ex_env_xls ex_expr =
    lit "SUM(A1,$AB$2:XFD65536,,Sheet2!B$3)+-(""h""""i""&""" ++ [26085; 128512] ++
    lit """)*IF(TRUE,rate,SUM(7))%".
Proof. exact rpn_nonvacuous. Qed.

Example C14_a1_nonvacuous :
  1048575 + 1 < ROW_TEXT_LIMIT /\ 16383 < 16384 /\
  coordinate_to_name (1048575, 16383) = Ok (lit "XFD1048576") /\
  get_row_column (lit "xfd1048576") = Ok (1048575, 16383) /\
  push_cell_ref 4 (col_field 27 true false) [] = Ok (lit "$AB5").
Proof. vm_compute. repeat split. Qed.

Example C14_formula_positions_nonvacuous :
  let fs := [((1, 2), [65; 49]); ((1, 5), [66; 50]); ((4, 0), [83; 85; 77; 40; 41])] in
  pre (@empty (list N)) (OFromSparse fs) /\ NoDup (map fst fs) /\
  exists r, from_sparse [] fs = Ok r /\ get_value r (4, 0) = Some [83; 85; 77; 40; 41] /\
            get_value r (2, 3) = Some [] /\ get_value r (0, 0) = None.
Proof. exact formula_positions_nonvacuous. Qed.

(* ---------------------------------------------------------------- pins *)
Check C14_push_column_is_letters : forall col buf, col < 2 ^ 32 ->
  push_column col buf = Ok (buf ++ letters col).
Check C14_rpn_correct_xls : forall show_f64 env e,
  wf_xls env e = true -> N.of_nat (length (encode_xls e)) < 65536 ->
  xls_parse_formula show_f64 env (frame_xls (encode_xls e)) = Ok (render_xls show_f64 env e).
Check C14_rpn_correct_xlsb : forall show_f64 env e,
  wf_xlsb env e = true ->
  xlsb_parse_formula show_f64 env (encode_xlsb e) = Ok (render_xlsb show_f64 env e).
Check C14_a1_roundtrip : forall r c, r + 1 < ROW_TEXT_LIMIT -> c < 16384 ->
  exists s, coordinate_to_name (r, c) = Ok s /\ get_row_column s = Ok (r, c).
Check C14_formula_positions : forall (formulas : list (pos * list N)),
  pre empty (OFromSparse formulas) -> NoDup (map fst formulas) ->
  exists r, from_sparse [] formulas = Ok r /\ rect r = tight_bbox (map fst formulas) /\
    (forall p text, In (p, text) formulas -> get_value r p = Some text) /\
    (forall q, in_rect r q = true -> ~ In q (map fst formulas) -> get_value r q = Some []) /\
    (forall q, in_rect r q = false -> get_value r q = None).

Print Assumptions C14_letters_injective.
Print Assumptions C14_letters_inverse.
Print Assumptions C14_push_column_is_letters.
Print Assumptions C14_push_cell_ref_spec.
Print Assumptions C14_column_number_to_name_is_letters.
Print Assumptions C14_a1_roundtrip.
Print Assumptions C14_row_text_overflow.
Print Assumptions C14_lower_case_agrees.
Print Assumptions C14_tables_match_reference.
Print Assumptions C14_rpn_correct_xls.
Print Assumptions C14_rpn_correct_xlsb.
Print Assumptions C14_formula_positions.
