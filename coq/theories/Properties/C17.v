(* Property C17 — merged regions and tables are reported with the geometry the file declares.
   Only the property theorems (closed by [exact]), [Check] pins, non-vacuity examples and
   [Print Assumptions].  Model, spec, encoders: Merge.v; proofs: Merge_proofs.v; coordinate text:
   Col26.v / Col26_proofs.v; Range::range: Range.v / Range_proofs.v (window_spec, C05). *)
From Calamine Require Import Prelude Col26 Range Range_spec Merge Merge_proofs.
Open Scope N_scope.

(* every legal spelling of a reference (pair, single cell, lower case) with corners up to row
   999 999 999 and column 26^6 — far beyond XFD1048576 — decodes to exactly those corners *)
Theorem C17_merge_ref_roundtrip :
  forall (st : ref_style) (lower : bool) (d : dims),
    dims_ok ROW_LIMIT COL_LIMIT d -> ref_style_legal st d = true ->
    get_dimension (render_ref st lower d) = Ok d.
Proof. exact merge_ref_roundtrip. Qed.

(* xlsx: for every workbook (any number of sheets, 0..n regions each, every legal way of writing
   the mergeCells block) all access paths report exactly the declared regions: same count,
   order, corners, attributed to the right sheet name and part *)
Theorem C17_merge_list_exact_xlsx :
  forall (z : zip) (wb : list sheet_e),
    legal wb = true -> Forall sheet_dom wb -> zip_has_sheets z wb ->
    read_merged_regions z (sheets_of wb) = Ok (spec_all_merges wb) /\
    (forall name, worksheet_merge_cells z (sheets_of wb) name =
                  option_map (fun s => Ok (se_regions s)) (spec_sheet wb name)) /\
    (NoDup (map se_name wb) ->
     (forall n, worksheet_merge_cells_at z (sheets_of wb) n =
                option_map (fun s => Ok (se_regions s)) (nth_error wb n)) /\
     (forall s, In s wb ->
        worksheet_merge_cells z (sheets_of wb) (se_name s) = Some (Ok (se_regions s)) /\
        merged_regions_by_sheet (spec_all_merges wb) (se_name s) =
          map (fun d => (se_name s, se_path s, d)) (se_regions s))).
Proof. exact merge_list_exact_xlsx. Qed.

(* xls: for every list of sheet substreams whose regions are spread over any number of
   MergeCells records, the regions of each sheet come back complete, in order, under its name *)
Theorem C17_merge_list_exact_xls :
  forall wb : list xls_sheet_e,
    forallb xls_sheet_legal wb = true -> Forall xls_sheet_dom wb -> NoDup (map xs_name wb) ->
    exists m, xls_sheets (xls_subs wb) = Ok m /\
      (forall s, In s wb -> xls_worksheet_merge_cells m (xs_name s) = Some (xs_regions s)) /\
      (forall name, ~ In name (map xs_name wb) -> xls_worksheet_merge_cells m name = None) /\
      (forall n, xls_worksheet_merge_cells_at m n = option_map xs_regions (nth_error wb n)).
Proof. exact merge_list_exact_xls. Qed.

(* names: every legal spelling of a name inside an attribute value (literal text, the five
   predefined entities, decimal / hexadecimal character references with leading zeros) is read
   back as the name it stands for *)
Theorem C17_name_unescape :
  forall sp : spelling, sp_legal sp = true -> unescape (render_sp sp) = Ok (sp_value sp).
Proof. exact unescape_render. Qed.

(* column names are ST_Xstrings (ECMA-376 Part 1, 18.5.1.3 / 22.9.2.19): the name of a column is the
   text of its header cell, so a line break typed with Alt+Enter arrives as a_x000a_b.  (1) Every
   legal spelling of the attribute value — XML escapes around or inside the _xHHHH_ escapes — is
   reported as the name its two layers declare ([xs_decode] is the format's decoding, written
   from 22.9.2.19: exactly four hexadecimal digits of either case, one pass, an escape naming a
   surrogate stays as written).  (2) Any text at all (every byte string), written the way Excel
   writes it — every underscore as _x005F_, any chosen ASCII characters as _x00HH_ with upper- or
   lower-case digits, then the usual XML attribute escaping — is reported as that text. *)
Theorem C17_column_name_xstring :
  (forall sp : spelling, sp_legal sp = true ->
     column_names [(s_name, render_sp sp)] = Ok [xs_decode (sp_value sp)]) /\
  (forall (up : bool) (must : N -> bool) (s : str),
     sp_legal (esc_sp (xs_escape up must s)) = true /\
     col_value (esc_sp (xs_escape up must s)) = s /\
     column_names [(s_name, render_sp (esc_sp (xs_escape up must s)))] = Ok [s]).
Proof. exact column_name_exact. Qed.

(* tables: load_tables yields, in the order sheets x relationships, a list that shows the
   declared name, sheet, column names and data box of every table (None for a table without data
   rows) — for both relationship type URIs, "../" and absolute targets, every legal spelling of
   the names, every xsd:boolean spelling of insertRow, tables anywhere on the sheet including
   row 1.  No class of inputs is excepted any more.  The declared column names ([tl_cols], the
   texts of the header cells) are what the attribute values denote through BOTH layers
   ([table_choice_legal]: map col_value (tc_cols_sp c) = tl_cols t, col_value = xs_decode after
   the XML layer), so a_x000a_b declares "a<LF>b" — before audit 2 the domain read the value
   through the XML layer only, as the code did. *)
Theorem C17_table_meta_exact :
  forall (z : zip) (wb : list sheet_e),
    legal wb = true -> Forall sheet_dom wb -> zip_has_tables z wb ->
    exists tables,
      read_table_metadata z (sheets_of wb) = Ok tables /\ map entry_obs tables = spec_tables wb.
Proof. exact table_meta_exact. Qed.

Theorem C17_table_names :
  forall (wb : list sheet_e) (tables : list table_entry) (name : str),
    map entry_obs tables = spec_tables wb ->
    table_names tables =
      flat_map (fun s => map (fun tc => tl_name (fst tc)) (se_tables s)) wb /\
    table_names_in_sheet tables name =
      flat_map (fun s => if str_eqb (se_name s) name
                         then map (fun tc => tl_name (fst tc)) (se_tables s) else []) wb.
Proof.
  exact (fun wb tables name H =>
           conj (table_names_exact wb tables H) (table_names_in_sheet_exact wb tables name H)).
Qed.

(* the table data is the sheet's values over the reference minus the header rows at the top and
   the totals rows / insert row at the bottom, wherever that box lies relative to the used range
   [r] of the sheet (inside, partly outside, fully outside, empty sheet): Empty outside the used
   range; a table without data rows yields the empty range *)
Theorem C17_table_geometry :
  forall (T : Type) (d : T) (sheet_range : str -> outcome (range T))
         (z : zip) (wb : list sheet_e) (s : sheet_e) (tc : table_l * table_choice) (r : range T),
    legal wb = true -> Forall sheet_dom wb -> zip_has_tables z wb ->
    NoDup (map ts_name (spec_tables wb)) ->
    In s wb -> In tc (se_tables s) ->
    sheet_range (se_name s) = Ok r -> Wf r ->
    box_fits (data_box (fst tc)) ->
    exists tables w,
      read_table_metadata z (sheets_of wb) = Ok tables /\
      table_by_name d sheet_range tables (tl_name (fst tc)) =
        Ok (tl_name (fst tc), se_name s, tl_cols (fst tc), w) /\
      Wf w /\ rect w = data_box (fst tc) /\
      forall q, get_value w q = box_value d r (data_box (fst tc)) q.
Proof. exact table_geometry. Qed.

(* the same with worksheet_range spelled out as Range::from_sparse over the sheet's cells (sorted
   by row): the table data at q is the value the sheet holds at q inside the used range and the
   default (Empty) outside it *)
Theorem C17_table_geometry_cells :
  forall (T : Type) (d : T) (cells : list (str * list (pos * T)))
         (z : zip) (wb : list sheet_e) (s : sheet_e) (tc : table_l * table_choice)
         (sc : str * list (pos * T)),
    legal wb = true -> Forall sheet_dom wb -> zip_has_tables z wb ->
    NoDup (map ts_name (spec_tables wb)) ->
    In s wb -> In tc (se_tables s) ->
    find (fun sc => str_eqb (fst sc) (se_name s)) cells = Some sc ->
    pre empty (OFromSparse (snd sc)) ->
    box_fits (data_box (fst tc)) ->
    exists tables w r,
      read_table_metadata z (sheets_of wb) = Ok tables /\
      from_sparse d (snd sc) = Ok r /\ rect r = tight_bbox (map fst (snd sc)) /\
      table_by_name d (sheet_range_of d cells) tables (tl_name (fst tc)) =
        Ok (tl_name (fst tc), se_name s, tl_cols (fst tc), w) /\
      rect w = data_box (fst tc) /\
      forall q, get_value w q =
        match data_box (fst tc) with
        | Some b => if in_box (fst b) (snd b) q
                    then Some (if in_rect r q then last_write d (snd sc) q else d) else None
        | None => None
        end.
Proof. exact table_geometry_cells. Qed.

(* the executable correspondence runs linear-time versions of the xls record parser; they are the
   same functions *)
Theorem C17_fast_versions_equal :
  (forall r, parse_merge_cells_fast r = parse_merge_cells r) /\
  (forall subs, xls_sheets_fast subs = xls_sheets subs).
Proof. exact (conj parse_merge_cells_fast_eq xls_sheets_fast_eq). Qed.

(* ---------- totality: no input makes the modelled functions panic (for C06) ----------
   No well-formedness hypothesis: any byte string, any event list, any zip.  [get_dimension] is
   the A1 scanner after 348f419 / 717a5d9 (u64 saturating arithmetic, u32::try_from): Col26.v. *)
Theorem C17_no_panic_get_dimension :
  forall s : list N, get_dimension s <> Panic /\ get_dimension s <> OutOfFuel.
Proof. exact (fun s => @safe_not_panic _ _ (get_dimension_safe s)). Qed.

(* xlsx: read_merged_regions' loop over a part, read_merge_cells, the loop of
   worksheet_merge_cells, and both entry points over any zip and sheet list *)
Theorem C17_no_panic_read_merge_cells :
  (forall evs : list event, scan_merge_regions evs <> Panic /\ scan_merge_regions evs <> OutOfFuel) /\
  (forall evs : list event, read_merge_cells evs <> Panic /\ read_merge_cells evs <> OutOfFuel) /\
  (forall evs : list event, find_merge_cells evs <> Panic /\ find_merge_cells evs <> OutOfFuel) /\
  (forall z sheets, read_merged_regions z sheets <> Panic /\ read_merged_regions z sheets <> OutOfFuel) /\
  (forall z sheets name o, worksheet_merge_cells z sheets name = Some o -> o <> Panic /\ o <> OutOfFuel).
Proof.
  exact (conj (fun evs => @safe_not_panic _ _ (scan_merge_regions_safe evs))
        (conj (fun evs => @safe_not_panic _ _ (read_merge_cells_safe evs))
        (conj (fun evs => @safe_not_panic _ _ (find_merge_cells_safe evs))
        (conj (fun z sheets => @safe_not_panic _ _ (read_merged_regions_safe z sheets))
              (fun z sheets name o H => @safe_not_panic _ _ (worksheet_merge_cells_safe z sheets name H)))))).
Qed.

(* xls: MergeCells record data of any length and content; any list of sheet substreams *)
Theorem C17_no_panic_parse_merge_cells :
  (forall r : list N, parse_merge_cells r <> Panic /\ parse_merge_cells r <> OutOfFuel) /\
  (forall subs, xls_sheets subs <> Panic /\ xls_sheets subs <> OutOfFuel).
Proof.
  exact (conj (fun r => @safe_not_panic _ _ (parse_merge_cells_safe r))
              (fun subs => @safe_not_panic _ _ (xls_sheets_safe subs))).
Qed.

(* xlsx tables: the geometry arithmetic for any scanned attribute values, the table and rels
   loops over any event list, name unescaping on any bytes, and read_table_metadata over any zip —
   the latter for sheet paths that contain a '/' (read_workbook only produces "xl/…" paths; a
   path without one still hits `.expect("should be in a folder")`: rels_location_still_panics) *)
Theorem C17_no_panic_table_metadata :
  (forall m : tmeta, table_dims m <> Panic /\ table_dims m <> OutOfFuel) /\
  (forall evs m cols, scan_table evs m cols <> Panic /\ scan_table evs m cols <> OutOfFuel) /\
  (forall base evs, scan_rels base evs <> Panic /\ scan_rels base evs <> OutOfFuel) /\
  (forall s : str, unescape s <> Panic /\ unescape s <> OutOfFuel) /\
  (forall z sheets, Forall (fun sp => rfind_slash (snd sp) <> None) sheets ->
     read_table_metadata z sheets <> Panic /\ read_table_metadata z sheets <> OutOfFuel).
Proof.
  exact (conj (fun m => @safe_not_panic _ _ (table_dims_safe m))
        (conj (fun evs m cols => @safe_not_panic _ _ (scan_table_safe evs m cols))
        (conj (fun base evs => @safe_not_panic _ _ (scan_rels_safe base evs))
        (conj (fun s => @safe_not_panic _ _ (unescape_safe s))
              (fun z sheets H => @safe_not_panic _ _ (read_table_metadata_safe z H)))))).
Qed.

Example C17_no_panic_nonvacuous :
  Forall (fun sp => rfind_slash (snd sp) <> None) (sheets_of ex_wb) /\
  parse_merge_cells [1; 0; 0; 0; 1; 0; 0; 0; 1] = Err E_LEN /\
  get_dimension [66; 50; 58; 65; 49] = Ok ((1, 1), (0, 0)).
Proof. exact ex_no_panic_nonvacuous. Qed.

(* ---------- non-vacuity ----------
   The example workbook meets every hypothesis of the xlsx theorems and uses each form that the
   first round had to except as a known class (strict type URI, absolute target, escaped names
   with named entities and character references, insertRow="false", a header-only table, a
   totals-only table in row 1), and — audit 2, XLSX-1 — column names that use the ST_Xstring
   layer: a_x000a_b, _x005F_x000a_, _x00e9_, a_x00&#48;D_b. *)
Example C17_xlsx_nonvacuous :
  legal ex_wb = true /\ Forall sheet_dom ex_wb /\
  zip_has_sheets (build_zip ex_wb) ex_wb /\ zip_has_tables (build_zip ex_wb) ex_wb /\
  NoDup (map se_name ex_wb) /\ NoDup (map ts_name (spec_tables ex_wb)) /\
  read_merged_regions (build_zip ex_wb) (sheets_of ex_wb) =
    Ok [(x_S1, s_xl_worksheets ++ x_sheet1, ((0, 0), (1, 1)));
        (x_S1, s_xl_worksheets ++ x_sheet1, ((1048575, 16383), (1048575, 16383)));
        (x_S1, s_xl_worksheets ++ x_sheet1, ((2, 26), (3, 702)))] /\
  read_table_metadata (build_zip ex_wb) (sheets_of ex_wb) =
    Ok [(x_T1, x_S1, [x_PL; x_blt], ((2, 1), (3, 2)));
        (x_H, x_S1, [x_anb; x_esclike], ((7, 1), (6, 2)));
        (x_X, x_S1, [x_eacute; x_arb], ((1, 4), (0, 5)))] /\
  spec_tables ex_wb =
    [(x_T1, x_S1, [x_PL; x_blt], Some ((2, 1), (3, 2)));
     (x_H, x_S1, [x_anb; x_esclike], None); (x_X, x_S1, [x_eacute; x_arb], None)].
Proof. exact ex_wb_nonvacuous. Qed.

Example C17_name_nonvacuous :
  let sp := [PLit [98]; PNamed 38; PDec 60 3; PHex 228 2 true; PHex 128512 6 false] in
  sp_legal sp = true /\
  render_sp sp = [98; 38; 97; 109; 112; 59; 38; 35; 48; 54; 48; 59; 38; 35; 120; 69; 52; 59;
                  38; 35; 120; 48; 49; 102; 54; 48; 48; 59] /\      (* b&amp;&#060;&#xE4;&#x01f600; *)
  sp_value sp = [98; 38; 60; 195; 164; 240; 159; 152; 128].         (* b&<ä + U+1F600 in UTF-8 *)
Proof. exact (conj eq_refl (conj eq_refl eq_refl)). Qed.

(* the ST_Xstring forms of the example workbook, one by one, and Excel's own spelling of them *)
Example C17_column_name_nonvacuous :
  col_value [PLit [97; 95; 120; 48; 48; 48; 97; 95; 98]] = x_anb /\                       (* a_x000a_b *)
  col_value [PLit [95; 120; 48; 48; 53; 70; 95; 120; 48; 48; 48; 97; 95]] = x_esclike /\   (* _x005F_x000a_ *)
  col_value [PLit [95; 120; 48; 48; 101; 57; 95]] = x_eacute /\                           (* _x00e9_ *)
  col_value [PLit [97; 95; 120; 48; 48]; PDec 48 2; PLit [68; 95; 98]] = x_arb /\          (* a_x00&#48;D_b *)
  col_value [PLit [95; 120; 68; 56; 48; 48; 95]] = [95; 120; 68; 56; 48; 48; 95] /\        (* _xD800_ stays *)
  xs_escape true xs_excel_must x_anb = [97; 95; 120; 48; 48; 48; 65; 95; 98] /\            (* a_x000A_b *)
  xs_escape false xs_excel_must x_esclike =
    [95; 120; 48; 48; 53; 102; 95; 120; 48; 48; 48; 97; 95; 120; 48; 48; 53; 102; 95] /\   (* _x005f_x000a_x005f_ *)
  column_names [(s_name, [97; 95; 120; 48; 48; 48; 97; 95; 98])] = Ok [x_anb].
Proof. vm_compute. repeat split. Qed.

Example C17_table_data_nonvacuous :
  let tables := [(x_T1, x_S1, [x_PL; x_blt], ((2, 1), (3, 2)));
                 (x_H, x_S1, [x_anb; x_esclike], ((7, 1), (6, 2)));
                 (x_X, x_S1, [x_eacute; x_arb], ((1, 4), (0, 5)))] in
  let range := fun _ : str => from_sparse 0 [((0, 0), 7); ((2, 1), 5)] in
  table_by_name 0 range tables x_T1 =
    Ok (x_T1, x_S1, [x_PL; x_blt], mkRange (2, 1) (3, 2) [5; 0; 0; 0]) /\
  table_by_name 0 range tables x_H = Ok (x_H, x_S1, [x_anb; x_esclike], empty) /\
  table_by_name 0 range tables x_X = Ok (x_X, x_S1, [x_eacute; x_arb], empty).
Proof. exact ex_table_data. Qed.

Example C17_cells_nonvacuous : pre (@empty N) (OFromSparse [((0, 0), 7); ((2, 1), 5)]).
Proof. exact ex_cells_pre. Qed.

Example C17_xls_nonvacuous :
  forallb xls_sheet_legal ex_xls = true /\ Forall xls_sheet_dom ex_xls /\
  NoDup (map xs_name ex_xls) /\
  xls_sheets (xls_subs ex_xls) =
    Ok [(x_S1, [((0, 0), (1, 1)); ((65535, 255), (65535, 255)); ((2, 3), (4, 5))]); (x_T1, [])].
Proof. exact ex_xls_nonvacuous. Qed.

Example C17_ref_nonvacuous :
  dims_ok ROW_LIMIT COL_LIMIT ((1048575, 16383), (1048575, 16383)) /\
  ref_style_legal RefSingle ((1048575, 16383), (1048575, 16383)) = true /\
  render_ref RefSingle true ((1048575, 16383), (1048575, 16383)) =
    [120; 102; 100; 49; 48; 52; 56; 53; 55; 54].          (* "xfd1048576" *)
Proof. exact (conj (conj (N.le_refl _) (conj (N.le_refl _) (conj eq_refl eq_refl))) (conj eq_refl eq_refl)). Qed.

Check C17_merge_ref_roundtrip :
  forall (st : ref_style) (lower : bool) (d : dims),
    dims_ok ROW_LIMIT COL_LIMIT d -> ref_style_legal st d = true ->
    get_dimension (render_ref st lower d) = Ok d.
Check C17_table_meta_exact :
  forall (z : zip) (wb : list sheet_e),
    legal wb = true -> Forall sheet_dom wb -> zip_has_tables z wb ->
    exists tables,
      read_table_metadata z (sheets_of wb) = Ok tables /\ map entry_obs tables = spec_tables wb.
Check C17_name_unescape :
  forall sp : spelling, sp_legal sp = true -> unescape (render_sp sp) = Ok (sp_value sp).
Check C17_column_name_xstring :
  (forall sp : spelling, sp_legal sp = true ->
     column_names [(s_name, render_sp sp)] = Ok [xs_decode (sp_value sp)]) /\
  (forall (up : bool) (must : N -> bool) (s : str),
     sp_legal (esc_sp (xs_escape up must s)) = true /\
     col_value (esc_sp (xs_escape up must s)) = s /\
     column_names [(s_name, render_sp (esc_sp (xs_escape up must s)))] = Ok [s]).
Check C17_merge_list_exact_xls :
  forall wb : list xls_sheet_e,
    forallb xls_sheet_legal wb = true -> Forall xls_sheet_dom wb -> NoDup (map xs_name wb) ->
    exists m, xls_sheets (xls_subs wb) = Ok m /\
      (forall s, In s wb -> xls_worksheet_merge_cells m (xs_name s) = Some (xs_regions s)) /\
      (forall name, ~ In name (map xs_name wb) -> xls_worksheet_merge_cells m name = None) /\
      (forall n, xls_worksheet_merge_cells_at m n = option_map xs_regions (nth_error wb n)).
Check C17_table_geometry :
  forall (T : Type) (d : T) (sheet_range : str -> outcome (range T))
         (z : zip) (wb : list sheet_e) (s : sheet_e) (tc : table_l * table_choice) (r : range T),
    legal wb = true -> Forall sheet_dom wb -> zip_has_tables z wb ->
    NoDup (map ts_name (spec_tables wb)) ->
    In s wb -> In tc (se_tables s) ->
    sheet_range (se_name s) = Ok r -> Wf r ->
    box_fits (data_box (fst tc)) ->
    exists tables w,
      read_table_metadata z (sheets_of wb) = Ok tables /\
      table_by_name d sheet_range tables (tl_name (fst tc)) =
        Ok (tl_name (fst tc), se_name s, tl_cols (fst tc), w) /\
      Wf w /\ rect w = data_box (fst tc) /\
      forall q, get_value w q = box_value d r (data_box (fst tc)) q.

Print Assumptions C17_merge_ref_roundtrip.
Print Assumptions C17_merge_list_exact_xlsx.
Print Assumptions C17_merge_list_exact_xls.
Print Assumptions C17_name_unescape.
Print Assumptions C17_column_name_xstring.
Print Assumptions C17_table_meta_exact.
Print Assumptions C17_table_names.
Print Assumptions C17_table_geometry.
Print Assumptions C17_table_geometry_cells.
Print Assumptions C17_fast_versions_equal.
Print Assumptions C17_no_panic_get_dimension.
Print Assumptions C17_no_panic_read_merge_cells.
Print Assumptions C17_no_panic_parse_merge_cells.
Print Assumptions C17_no_panic_table_metadata.
