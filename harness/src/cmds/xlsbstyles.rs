// C10 (xlsb): Xlsb::read_styles on a raw xl/styles.bin part (hook verif_hooks::xlsb::styles),
// printed in exactly the format of ocaml/cmd_xlsbstyles.ml.
//   xlsbstyles read <hex part | none>
//        ok:<one digit per cell XF: 0 Other, 1 DateTime, 2 TimeDelta>  (ok:- for an empty table)
//        err when read_styles fails (a panic prints "panic" through the caller's catch_unwind)
use crate::util::*;

pub fn run(args: &[&str]) -> String {
    match args {
        ["read", part] => {
            let bytes;
            let arg = if *part == "none" {
                None
            } else {
                bytes = if *part == "-" { Vec::new() } else { unhex(part) };
                Some(&bytes[..])
            };
            match calamine::verif_hooks::xlsb::styles(arg) {
                Ok(f) if f.is_empty() => "ok:-".to_string(),
                Ok(f) => format!(
                    "ok:{}",
                    f.iter().map(|d| d.to_string()).collect::<Vec<_>>().join("")
                ),
                Err(_) => "err".to_string(),
            }
        }
        _ => "bad-args".to_string(),
    }
}
